#!/usr/bin/env python3
"""Regenerates coq/theories/Props/C07.v from the proved lemmas (statement text is copied
from the proof files, each closed by `exact`).  Usage: python3 notes/c07_genprops.py"""
import re, os, sys
TH='/verif/coq/theories/'
B=TH+'Builders/'
items=[
 ("C07_eval_link","EmitProof.v","eval_rev_sat","Link between the two readings of a circuit: for every single-assignment gate list (wfc_b) and every initial assignment e0, evaluating the gates one by one in emission order yields a valuation consistent with every gate.  The *_eval theorems below apply it: wfc_b and dbu are PROVED for every width of every builder (Struct*.v)."),
 ("C07_run_st0","StructProof.v","run_st0","Generic combination: a builder with a semantic specification (okm) and a structural one (oks) from the initial compiler state yields, for every initial assignment, an emitted list that is single-assignment (wfc_b) and defined-before-use (dbu), whose gate-by-gate evaluation satisfies the semantic postcondition and leaves the input wires unchanged."),
 ("C07_full_adder","AdderProof.v","okm_full_adder","Full adder truth table."),
 ("C07_adder_ripple","AdderProof.v","okm_ripple_adder","Ripple-carry NewAdder: every operand width (max >= 1), every result width >= 1, all values: z = (x + y) mod 2^len(z), in every consistent valuation."),
 ("C07_adder_ripple_eval","StructArith.v","ripple_adder_eval","EVALUATED ripple adder in the harness wire layout, every width, every initial assignment e0: gate list single-assignment and defined-before-use, result = (x + y) mod 2^zw."),
 ("C07_adder_same_operand","AdderProof.v","okm_new_adder_same_operand","Aliased operands: every okm theorem quantifies over ARBITRARY lists of wire ids, also repeated or overlapping ones (x = y, x a prefix/permutation of y); instance: NewAdder(t, t, z) = 2t mod 2^len(z).  (The compiler's pass pipeline on aliased operands is tied by the harness: keys c07:pipeline:aliased-operands:...)"),
 ("C07_adder_kogge_stone","KsProof.v","okm_ks_adder","Kogge-Stone adder: every width."),
 ("C07_adder_kogge_stone_eval","StructKs.v","ks_adder_eval","EVALUATED Kogge-Stone adder, every width."),
 ("C07_adder","HammingProof.v","okm_new_adder","NewAdder as dispatched on the target, every width."),
 ("C07_subtractor_ripple","SubProof.v","okm_ripple_subtractor","Ripple NewSubtractor, result width <= max+1: z = (x - y) mod 2^len(z)."),
 ("C07_subtractor_ripple_eval","StructArith.v","ripple_subtractor_eval","EVALUATED ripple subtractor, result width <= max+1."),
 ("C07_subtractor_wide_refuted","SubProof.v","ripple_subtractor_wide_false","REFUTED for result widths > max+1 (known finding): no sign extension: 0 - 1 with 1-bit operands and a 3-bit result gives 3, not 7."),
 ("C07_subtractor_kogge_stone","KsProof.v","okm_ks_subtractor","Kogge-Stone subtractor, every width: exact modulo 2^n with n = min(max+1, len z), zero extended above."),
 ("C07_subtractor_kogge_stone_noborrow","KsProof.v","okm_ks_subtractor_noborrow","Kogge-Stone subtractor, every width, x >= y: z = (x - y) mod 2^len(z)."),
 ("C07_subtractor_kogge_stone_eval","StructKs.v","ks_subtractor_eval","EVALUATED Kogge-Stone subtractor, every width."),
 ("C07_mult_array","MultProof.v","okm_array_multiplier_gen","Array multiplier (code after the F12 fix): every operand width (max >= 1) and EVERY result width >= 1: z = (x*y) mod 2^len(z)."),
 ("C07_mult_old_wide_refuted","MultWideProof.v","array_multiplier_old_wide_refuted","Regression record of F12 (fixed in /repo): the model of the code BEFORE the fix is not exact for result widths > 2*max (1 * 2 into 7 bits gave 0)."),
 ("C07_mult_karatsuba","KaratsubaProof.v","okm_karatsuba","Karatsuba multiplier, every threshold >= 3, every operand width and EVERY result width >= 1 (strong induction on the width via the fuel)."),
 ("C07_mult_yao","KaratsubaProof.v","okm_new_multiplier_yao_shipped","NewMultiplier under the Yao target with the threshold table regenerated from circ_multiplier_params.go, every requested threshold, every width."),
 ("C07_mult_wallace","WallaceProof.v","okm_wallace_multiplier","Wallace-tree multiplier: every width."),
 ("C07_mult_wallace_eval","StructWallace.v","wallace_multiplier_eval","EVALUATED Wallace multiplier, every width."),
 ("C07_mult_gmw","WallaceProof.v","okm_new_multiplier_gmw","NewMultiplier under the GMW target, every width."),
 ("C07_udiv_long","DivProof.v","okm_udivider_long","Long division (Yao): every width n >= 1, every dividend, every divisor <> 0: q = a / b, r = a mod b."),
 ("C07_udiv_long_eval","StructDiv.v","udivider_long_eval","EVALUATED long divider, every width n >= 1."),
 ("C07_udiv_yao","DivProof.v","okm_new_udivider_yao","NewUDivider under the Yao target."),
 ("C07_udiv_restoring","Div2Proof.v","okm_udivider_restoring","NewUDividerRestoring: BOTH targets, every pair of operand widths (n = max >= 1), EVERY quotient and remainder width (0 = nil, narrower, wider), every dividend, EVERY divisor: the low n quotient wires carry (a / b) mod 2^len(q), the low n remainder wires (a mod b) mod 2^len(r); for b = 0: quotient 2^n - 1 (all ones), remainder = a.  Destination wires at positions >= n are left undriven by this builder."),
 ("C07_udiv_array","Div2Proof.v","okm_udivider_array","NewUDividerArray: BOTH targets, every pair of operand widths (n = max >= 1), EVERY quotient and remainder width, every dividend, EVERY divisor: the returned quotient vector is (a / b) mod 2^len(q) and the returned remainder vector (a mod b) mod 2^len(r) (positions >= n are replaced by the zero wire); for b = 0: quotient 2^n - 1, remainder = a."),
 ("C07_idiv_yao","DivProof.v","okm_new_idivider","NewIDivider (Yao), equal widths, divisor <> 0, repository sign rule (testsuite/lang/modi.mpcl): r = |a| mod |b| never negated, q = |a| / |b| negated iff the signs differ."),
 ("C07_idiv_yao_eval","StructDiv.v","new_idivider_yao_eval","EVALUATED signed divider, every width n >= 1."),
 ("C07_gmwdiv_w7_refuted","GmwdivProof.v","gmw_divider_w7_refuted","REFUTED (known finding): the GMW Goldschmidt divider is not exact: width 7, 127 / 13 evaluates to q = 11, r = 112."),
 ("C07_gmwdiv_small","GmwdivProof.v","gmw_divider_small_exact","GMW divider, widths 1..5 (bound in the statement), all dividends, all divisors <> 0: exact (finite sweep)."),
 ("C07_gmwdiv_correction","GmwCorrProof.v","okm_gmw_correction","GMW divider correction step, EVERY width: with the estimate bound as explicit hypothesis (Q = A/B, Q+1 = A/B, or Q = A/B+1 with Q*B < 2^n) the three-way MUX returns the exact quotient and remainder."),
 ("C07_gmwdiv_correction_pm1_refuted","GmwCorrProof.v","gmw_correction_pm1_refuted","REFUTED: the plain +-1 hypothesis is not enough (over-estimate with Q*B >= 2^n: the product is truncated to n bits; n = 3, A = 7, B = 3, Q = 3)."),
 ("C07_cmp_ugt","CmpProof.v","okm_uint_gt","Unsigned x > y, every pair of widths."),
 ("C07_cmp_uge","CmpProof.v","okm_uint_ge","Unsigned x >= y."),
 ("C07_cmp_ult","CmpProof.v","okm_uint_lt","Unsigned x < y."),
 ("C07_cmp_ule","CmpProof.v","okm_uint_le","Unsigned x <= y."),
 ("C07_cmp_ugt_eval","StructCmp.v","uint_gt_eval","EVALUATED unsigned x > y, every pair of widths, both targets."),
 ("C07_cmp_uge_eval","StructCmp.v","uint_ge_eval","EVALUATED unsigned x >= y."),
 ("C07_cmp_ult_eval","StructCmp.v","uint_lt_eval","EVALUATED unsigned x < y."),
 ("C07_cmp_ule_eval","StructCmp.v","uint_le_eval","EVALUATED unsigned x <= y."),
 ("C07_cmp_igt","CmpProof.v","okm_int_gt","Signed x > y, equal widths (the builder zero pads unequal widths; callers pass equal widths)."),
 ("C07_cmp_ige","CmpProof.v","okm_int_ge","Signed x >= y, equal widths."),
 ("C07_cmp_ilt","CmpProof.v","okm_int_lt","Signed x < y, equal widths."),
 ("C07_cmp_ile","CmpProof.v","okm_int_le","Signed x <= y, equal widths."),
 ("C07_cmp_igt_eval","StructCmp.v","int_gt_eval","EVALUATED signed x > y, every width n >= 1."),
 ("C07_cmp_ige_eval","StructCmp.v","int_ge_eval","EVALUATED signed x >= y."),
 ("C07_cmp_ilt_eval","StructCmp.v","int_lt_eval","EVALUATED signed x < y."),
 ("C07_cmp_ile_eval","StructCmp.v","int_le_eval","EVALUATED signed x <= y."),
 ("C07_eq","CmpProof.v","okm_eq_comparator","x == y, every pair of widths."),
 ("C07_neq","CmpProof.v","okm_neq_comparator","x != y."),
 ("C07_eq_eval","StructCmp.v","eq_comparator_eval","EVALUATED x == y."),
 ("C07_neq_eval","StructCmp.v","neq_comparator_eval","EVALUATED x != y."),
 ("C07_logical_and","CmpProof.v","okm_logical_and","Logical AND."),
 ("C07_logical_or","CmpProof.v","okm_logical_or","Logical OR."),
 ("C07_logical_and_eval","StructCmp.v","logical_and_eval","EVALUATED logical AND."),
 ("C07_logical_or_eval","StructCmp.v","logical_or_eval","EVALUATED logical OR."),
 ("C07_bts","CmpProof.v","okm_bit_set_test","Bit test, every width and index."),
 ("C07_btc","CmpProof.v","okm_bit_clr_test","Bit clear test."),
 ("C07_bts_eval","StructCmp.v","bit_set_test_eval","EVALUATED bit test."),
 ("C07_btc_eval","StructCmp.v","bit_clr_test_eval","EVALUATED bit clear test."),
 ("C07_mux","MuxProof.v","okm_new_mux","MUX, every pair of widths."),
 ("C07_mux_eval","StructAdder.v","new_mux_eval","EVALUATED MUX, every pair of widths, both targets."),
 ("C07_index","IndexProof.v","okm_new_index","Array index: element size >= 1, n >= 1 elements, index width >= 1."),
 ("C07_index_empty","IndexProof.v","okm_new_index_empty","Array index of an empty array."),
 ("C07_index_eval","StructIndex.v","new_index_eval","EVALUATED array index."),
 ("C07_band","BitwiseProof.v","okm_binary_and_trunc","Bitwise AND, result width <= max."),
 ("C07_bor","BitwiseProof.v","okm_binary_or_trunc","Bitwise OR."),
 ("C07_bxor","BitwiseProof.v","okm_binary_xor_trunc","Bitwise XOR."),
 ("C07_bclr","BitwiseProof.v","okm_binary_clear_trunc","Bitwise AND NOT."),
 ("C07_band_eval","StructCmp.v","binary_and_trunc_eval","EVALUATED bitwise AND, result width <= max."),
 ("C07_bor_eval","StructCmp.v","binary_or_trunc_eval","EVALUATED bitwise OR."),
 ("C07_bxor_eval","StructCmp.v","binary_xor_trunc_eval","EVALUATED bitwise XOR."),
 ("C07_bclr_eval","StructCmp.v","binary_clear_trunc_eval","EVALUATED bitwise AND NOT."),
 ("C07_hamming","HammingProof.v","okm_hamming","Hamming distance, both targets, every width (max >= 2)."),
]
optional=[
 ("C07_udiv_restoring_eval","StructDiv2.v","udivider_restoring_eval","EVALUATED restoring divider in the harness wire layout, both targets, every width n >= 1, every initial assignment (zero divisor included): single-assignment, defined-before-use, exact quotient and remainder."),
 ("C07_udiv_array_eval","StructDiv2.v","udivider_array_eval","EVALUATED array divider in the harness wire layout, both targets, every width n >= 1, every initial assignment (zero divisor included): single-assignment, defined-before-use, exact quotient and remainder."),
 ("C07_mult_array_eval","StructMult.v","array_multiplier_eval","EVALUATED array multiplier, every operand and result width."),
 ("C07_mult_karatsuba_eval","StructMult.v","karatsuba_eval","EVALUATED Karatsuba multiplier, every threshold >= 3, every width."),
 ("C07_mult_yao_eval","StructMult.v","new_multiplier_yao_eval","EVALUATED NewMultiplier (Yao: Karatsuba/array), every width."),
 ("C07_subtractor_eval","StructHamming.v","new_subtractor_eval","EVALUATED NewSubtractor, both targets, result width <= max+1."),
 ("C07_adder_eval","StructHamming.v","new_adder_eval","EVALUATED NewAdder, both targets, every width."),
 ("C07_hamming_eval","StructHamming.v","hamming_eval","EVALUATED Hamming distance, both targets."),
]
def find(f,lem):
    if not os.path.exists(B+f): return None
    src=open(B+f).read()
    m=re.search(r'(?:Theorem|Lemma|Corollary)\s+'+re.escape(lem)+r'\b(.*?)\.\s*\n\s*Proof\.', src, re.S)
    return m.group(1) if m else None
def binder_names(h):
    names=[]
    h=re.sub(r'\{[^{}]*\}','',h)
    for m in re.finditer(r'\(([^():]+):[^()]*\)|\{([^{}:]+):[^{}]*\}|(\b[A-Za-z_][A-Za-z0-9_\']*\b)', h):
        if m.group(1): names+=m.group(1).split()
        elif m.group(3): names.append(m.group(3))
    return names
files=[]
out=[]
body=[]
for cname,f,lem,comment in items+optional:
    rest=find(f,lem)
    if rest is None:
        if (cname,f,lem,comment) in optional:
            sys.stderr.write("skipping (not there yet): %s\n"%lem); continue
        raise SystemExit("not found "+lem)
    if f[:-2] not in files: files.append(f[:-2])
    depth=0; idx=None
    for i,ch in enumerate(rest):
        if ch in '([{': depth+=1
        elif ch in ')]}': depth-=1
        elif ch==':' and depth==0 and rest[i:i+2]!=':=':
            idx=i; break
    hdr=rest[:idx]; stmt=rest[idx+1:]
    names=binder_names(hdr)
    ex = lem if not names else "("+lem+" "+" ".join(names)+")"
    body.append("(* %s *)\nTheorem %s%s:%s.\nProof. exact %s. Qed.\nPrint Assumptions %s.\n" % (comment, cname, hdr if hdr.strip() else " ", stmt.rstrip(), ex, cname))
hdrtxt='''(* Props/C07.v — property C07: arithmetic and logic circuit builders are exact for
   every width.  GENERATED by notes/c07_genprops.py from the proof files: only
   statements closed by [exact], each followed by Print Assumptions.
   Two kinds of statements:
   * [okm t m P] (Builders/EmitProof.v): from every well-formed compiler state of
     target t (false = Yao, true = GMW) builder m returns a and a state whose gate
     list extends the old one, and P a e holds in EVERY wire valuation e consistent
     with all emitted gates; valN e ws = the number carried by wire vector ws.
   * [*_eval]: the builder run from the initial compiler state in the harness wire
     layout (operands on the input wires 0.., destinations right after them): the
     emitted gate list is single-assignment (wfc_b) and defined-before-use (dbu),
     and evaluating it gate by gate from ANY initial assignment e0 (eval_rev)
     yields the exact function of the operand values valN e0 x, valN e0 y.
   The okm theorems hold for arbitrary, also repeated or overlapping, operand wire
   ids (aliased operands: x = y, x a prefix / suffix / permutation of y; see
   C07_adder_same_operand); the *_eval theorems use disjoint operand ranges.
   The Gallina builders are tied to the Go builders gate for gate by the
   correspondence check (run_c07); the compiler's pass pipeline (ConstPropagate,
   ShortCircuitXORZero, Prune, Compile), also on aliased operands of every
   source kind, is tied by the harness oracle only. *)
From Coq Require Import NArith ZArith List Bool Arith.
From Mpc Require Import Gen.Consts Gen.Thresholds Builders.Emit Builders.EmitProof Builders.StructProof
  Builders.Adder Builders.Sub Builders.Mux Builders.Cmp Builders.Bitwise Builders.Index
  Builders.Hamming Builders.Mult Builders.Gmwdiv Builders.Div Builders.Div2 Builders.EvalFast Builders.RunC07
  %s.
Import ListNotations.
From Mpc Require Gen.State Base.StateExpected Base.StateCheck Base.StatePkgs.
Open Scope N_scope.
''' % " ".join("Builders."+f for f in files if f not in ("EmitProof","StructProof"))
tail='''(* the gate-kind numbering of the correspondence observable agrees with
   circuit.Operation as regenerated from the source *)
Theorem C07_op_enum :
  map op_code [XOR; XNOR; AND; OR; INV] = [circuit_XOR; circuit_XNOR; circuit_AND; circuit_OR; circuit_INV].
Proof. exact (eq_refl _). Qed.
Print Assumptions C07_op_enum.

(* STATE INVENTORY (finite obligation on the model regenerated from the source, checked by
   computation): the struct fields and package-level variables of compiler/circuits as emitted
   from /repo's current source by harness/gen_state.go (Gen/State.v) are exactly those the
   models were written against (Base/StateExpected.v); see Base/StateCheck.v. *)
Theorem C07_state_inventory :
  Mpc.Base.StateCheck.state_unchanged Mpc.Gen.State.state_inventory Mpc.Base.StateExpected.expected_state
    Mpc.Base.StatePkgs.pkgs_C07 = true.
Proof. vm_compute. reflexivity. Qed.
Print Assumptions C07_state_inventory.
'''
open(TH+'Props/C07.v','w').write(hdrtxt+"\n"+"\n".join(body)+"\n"+tail)
print(len(body)+1,"theorems")
