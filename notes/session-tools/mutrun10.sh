#!/bin/sh
# mutrun10.sh <tree> <ID> : like bin/mutrun but from the clean snapshot /tmp/vsnap (HEAD of /verif + build)
tree="$1"; id="$2"
src=/tmp/vsnap
tmp="$(mktemp -d /tmp/vm-XXXXXX)"
rsync -a --exclude build/gocache --exclude build/run "$src/" "$tmp/"
export GOCACHE="$src/build/gocache"
for f in $(git -C /repo ls-files --others --exclude-standard; git -C /repo ls-files | grep 'verif_' || true); do
  [ -e "$tree/$f" ] || { mkdir -p "$(dirname "$tree/$f")"; cp "/repo/$f" "$tree/$f"; }
done
echo "== $id against $tree"
(cd "$tmp" && VERIF_REPO="$tree" bin/check "$id" --tier quick); rc=$?
[ -f "$tmp/replays/$id-1.json" ] && head -c 1200 "$tmp/replays/$id-1.json" && echo
rm -rf "$tmp"
exit $rc
