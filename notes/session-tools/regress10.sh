#!/bin/sh
# regress10.sh <lanes> <prop...> : earlier seeds of the given properties against the snapshot /tmp/vsnap
LANES=$1; shift
OUT=/tmp/regress10; mkdir -p $OUT; : > $OUT/all.txt
for p in "$@"; do ls -d /verif/seeded/$p /verif/seeded/$p-* 2>/dev/null >> $OUT/all.txt; done
one() {
  d="$1"; name="$(basename "$d")"; id="$(echo "$name" | cut -c1-3)"
  wt="/tmp/regress-$name"
  git -C /repo worktree remove --force "$wt" >/dev/null 2>&1
  git -C /repo worktree add --detach "$wt" HEAD -q 2>/dev/null || { echo "$name worktree-failed" > "$OUT/$name.txt"; return; }
  if ! git -C "$wt" apply "$d/patch.diff" 2>/dev/null; then
    echo "$name stale" > "$OUT/$name.txt"
  else
    /tmp/mutrun10.sh "$wt" "$id" > "$OUT/$name.log" 2>&1
    line="$(grep -a "^$id tier" "$OUT/$name.log" | tail -1)"
    viol="$(grep -a '^VIOLATION' "$OUT/$name.log" | tail -1)"
    case "$viol" in
      *no-failing-input-found) v="flagged-without-input" ;;
      VIOLATION*) v="caught" ;;
      *) v="MISSED" ;;
    esac
    echo "$name $v | $line" > "$OUT/$name.txt"
  fi
  git -C /repo worktree remove --force "$wt" >/dev/null 2>&1
}
i=0
while [ $i -lt "$LANES" ]; do
  ( n=0; while read -r d; do [ $((n % LANES)) -eq $i ] && one "$d"; n=$((n+1)); done < "$OUT/all.txt" ) &
  i=$((i+1))
done
wait
git -C /repo worktree prune
echo REGRESS-DONE > $OUT/DONE
