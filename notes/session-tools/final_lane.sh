#!/bin/sh
cd /verif
for id in "$@"; do bin/check $id --tier quick > /tmp/final-$id.log 2>&1; echo "$id exit=$?" >> /tmp/final-status.txt; done
