#!/bin/sh
# intake.sh NN : record seed of round 10 for property CNN and confirm it
n=$1; ID=C$n; DIR=C$n-10; WT=/tmp/mut10-c$n
mkdir -p /verif/seeded/$DIR
cd $WT || exit 1
git diff -- . ':!seeddemo' > /verif/seeded/$DIR/patch.diff
cp /tmp/mut10-c$n.meta.json /verif/seeded/$DIR/meta.json
for f in seeddemo/*; do cp "$f" /verif/seeded/$DIR/$(basename $f).txt; done
# demo tests placed next to the code (untracked *_seed_test.go)
git status --short | grep '^??' | grep -v seeddemo | awk '{print $2}' | while read f; do [ -f "$f" ] && cp "$f" /verif/seeded/$DIR/$(echo $f | tr / _).txt; done
cd /verif && bin/confirm_seed $ID $WT $DIR > /tmp/confirm-$DIR.log 2>&1
tail -25 /verif/seeded/$DIR/confirm.txt
