#!/usr/bin/env python3
import os, sys, glob, importlib.machinery, importlib.util, subprocess
here = os.path.dirname(os.path.abspath(__file__))
loader = importlib.machinery.SourceFileLoader("check", os.path.join(here, "check"))
spec = importlib.util.spec_from_loader("check", loader)
check = importlib.util.module_from_spec(spec)
loader.exec_module(check)
V = check.VERIF
claimed = open(os.path.join(V, "props", "CLAIMED")).read().split()
rc, o, hbin = check.build_harness()
if rc != 0:
    print(o); sys.exit("harness build failed")
rcg, og = check.gen_translators(hbin)
if rcg != 0:
    print(og); sys.exit("translator failed")
# whole development, full .vo build (never -vos); keep going so that an unclaimed,
# unfinished cone cannot block the claimed ones
subprocess.run(["sh", "gen_project.sh"], cwd=check.COQ, check=True)
p = subprocess.run(["timeout", "7200", "make", "-k", "-f", "Makefile.coq", "-j16"], cwd=check.COQ,
                   stdout=subprocess.PIPE, stderr=subprocess.STDOUT, text=True)
print(p.stdout[-3000:])
bad = 0
for pid in claimed:
    props_v = os.path.join(check.TH, "Props", pid + ".v")
    ext_v = os.path.join(check.TH, "Extract", "Extract%s.v" % pid)
    targets = sorted(set(check.coq_deps(props_v) + check.coq_deps(ext_v)))
    rcm, om = check.make_targets(targets, 3600)
    if rcm != 0:
        print(om[-2000:]); print("FAILED cone of", pid); bad = 1; continue
    rcp, op, th, pr, closed, ax = check.compile_props(pid, 1800)
    if rcp != 0:
        print(op[-2000:]); print("FAILED Props/%s.v" % pid); bad = 1; continue
    rcb, ob, mb = check.build_model(pid, 1800)
    if rcb != 0:
        print(ob[-2000:]); print("FAILED model", pid); bad = 1; continue
    cone_v = [os.path.join(check.COQ, t[:-1]) for t in targets] + [props_v, ext_v]
    forb = check.scan_forbidden(cone_v)
    if forb:
        print("forbidden vernacular in cone of", pid, forb[:5]); bad = 1
    print("setup", pid, "ok: %d theorems, %d closed" % (len(th), closed))
if any(json_race for json_race in [os.path.exists(os.path.join(V, "props", p + ".json")) and '"race": true' in open(os.path.join(V, "props", p + ".json")).read() for p in claimed]):
    rc, o, _ = check.build_harness(race=True)
    if rc != 0:
        print(o); bad = 1
forb = check.scan_forbidden(None)
if forb:
    print("NOTE: forbidden vernacular somewhere in the tree:", forb[:10])
print("setup", "FAILED" if bad else "ok")
sys.exit(bad)
