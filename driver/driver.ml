(* driver.ml — generic line driver for the extracted models.
   Linked against a per-property [Model] (extracted from Gallina with
   ExtrOcamlBasic only) that exports [run : sx -> sx] together with the
   inductive types [sx], [z] (Z0|Zpos|Zneg) and [positive] (XI|XO|XH).
   Protocol: one s-expression per input line -> one s-expression per output
   line.  Atoms are hexadecimal integers with an optional leading '-'. *)
open Model

(* a larger minor heap: the extracted models allocate long lists of small blocks; this only
   changes speed (3-4x on megabyte-sized cases), not results *)
let () = Gc.set { (Gc.get ()) with Gc.minor_heap_size = 8 * 1024 * 1024 }

let rec pos_of_bits = function        (* msb first, first bit is 1 *)
  | [] -> failwith "pos_of_bits"
  | _ :: rest -> List.fold_left (fun p b -> if b then XI p else XO p) XH rest

let z_of_hex (s : string) : z =
  let neg, s = if String.length s > 0 && s.[0] = '-' then true, String.sub s 1 (String.length s - 1) else false, s in
  let bits = ref [] in
  String.iter (fun ch ->
      let d = match ch with
        | '0'..'9' -> Char.code ch - 48
        | 'a'..'f' -> Char.code ch - 87
        | 'A'..'F' -> Char.code ch - 55
        | _ -> failwith ("bad hex digit in " ^ s) in
      bits := (d land 1 <> 0) :: (d land 2 <> 0) :: (d land 4 <> 0) :: (d land 8 <> 0) :: !bits) s;
  let msb_first = List.rev !bits in
  let rec strip = function false :: r -> strip r | l -> l in
  match strip msb_first with
  | [] -> Z0
  | l -> let p = pos_of_bits l in if neg then Zneg p else Zpos p

let hex_of_pos (p : positive) : string =
  (* collect bits lsb first *)
  let rec bits p acc = match p with
    | XH -> List.rev (true :: acc)
    | XO q -> bits q (false :: acc)
    | XI q -> bits q (true :: acc) in
  let lsb = Array.of_list (bits p []) in
  let n = Array.length lsb in
  let nd = (n + 3) / 4 in
  let b = Bytes.create nd in
  for i = 0 to nd - 1 do
    let v = ref 0 in
    for j = 0 to 3 do
      let k = 4 * i + j in
      if k < n && lsb.(k) then v := !v lor (1 lsl j)
    done;
    Bytes.set b (nd - 1 - i) "0123456789abcdef".[!v]
  done;
  Bytes.to_string b

let hex_of_z = function
  | Z0 -> "0"
  | Zpos p -> hex_of_pos p
  | Zneg p -> "-" ^ hex_of_pos p

(* parser *)
let parse (s : string) : sx =
  let n = String.length s in
  let pos = ref 0 in
  let rec skip () = if !pos < n && (s.[!pos] = ' ' || s.[!pos] = '\t' || s.[!pos] = '\r') then (incr pos; skip ()) in
  let rec item () : sx =
    skip ();
    if !pos >= n then failwith "unexpected end";
    if s.[!pos] = '(' then begin
      incr pos;
      let acc = ref [] in
      let fin = ref false in
      while not !fin do
        skip ();
        if !pos >= n then failwith "missing )";
        if s.[!pos] = ')' then (incr pos; fin := true)
        else acc := item () :: !acc
      done;
      SL (List.rev !acc)
    end else begin
      let st = !pos in
      while !pos < n && s.[!pos] <> ' ' && s.[!pos] <> '(' && s.[!pos] <> ')' && s.[!pos] <> '\t' do incr pos done;
      SZ (z_of_hex (String.sub s st (!pos - st)))
    end in
  item ()

let rec print buf (v : sx) =
  match v with
  | SZ z -> Buffer.add_string buf (hex_of_z z)
  | SL l ->
     Buffer.add_char buf '(';
     List.iteri (fun i x -> if i > 0 then Buffer.add_char buf ' '; print buf x) l;
     Buffer.add_char buf ')'

let () =
  let buf = Buffer.create 65536 in
  (try
     while true do
       let line = input_line stdin in
       if String.length line > 0 then begin
         Buffer.clear buf;
         (try print buf (run (parse line))
          with Stack_overflow -> Buffer.add_string buf "(-1 -63)");
         Buffer.add_char buf '\n';
         print_string (Buffer.contents buf)
       end
     done
   with End_of_file -> ());
  flush stdout
