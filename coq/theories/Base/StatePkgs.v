(* StatePkgs.v — the Go packages each property is anchored in (directories of properties.jsonl anchors.files). *)
From Coq Require Import List String.
Import ListNotations.
Open Scope string_scope.

Definition pkgs_C01 : list string := ["circuit"; "ot"].
Definition pkgs_C02 : list string := ["circuit"; "ot"; "p2p"].
Definition pkgs_C03 : list string := ["compiler"; "compiler/ast"; "compiler/circuits"; "compiler/ssa"].
Definition pkgs_C04 : list string := ["circuit"; "compiler/ssa"; "sha2pc"].
Definition pkgs_C05 : list string := ["circuit"; "compiler"; "compiler/ssa"].
Definition pkgs_C06 : list string := ["ot"].
Definition pkgs_C07 : list string := ["compiler/circuits"].
Definition pkgs_C08 : list string := ["apps/garbled"; "compiler"; "compiler/ast"; "compiler/circuits"; "compiler/ssa"].
Definition pkgs_C09 : list string := ["circuit"; "compiler/circuits"; "compiler/ssa"; "compiler/utils"].
Definition pkgs_C10 : list string := ["circuit"; "gmw"; "ot"].
Definition pkgs_C11 : list string := ["p2p"].
Definition pkgs_C12 : list string := ["compiler/ast"; "compiler/mpa"; "compiler/ssa"].
Definition pkgs_C13 : list string := ["."; "circuit"; "types"].
Definition pkgs_C14 : list string := ["circuit"; "types"].
Definition pkgs_C15 : list string := ["ot"].
Definition pkgs_C16 : list string := ["circuit"; "compiler/ssa"].
Definition pkgs_C17 : list string := ["circuit"].
Definition pkgs_C18 : list string := ["ot"; "sha2pc"].
Definition pkgs_C19 : list string := ["p2p"].
Definition pkgs_C20 : list string := ["bmr"; "ot"; "vole"].
