(* StatePkgs.v — the Go packages each property is anchored in (directories of properties.jsonl anchors.files,
   followed by the module-internal packages that code imports and whose state can reach it at run time: see DESIGN 2.3). *)
From Coq Require Import List String.
Import ListNotations.
Open Scope string_scope.

Definition pkgs_C01 : list string := ["circuit"; "ot"].
Definition pkgs_C02 : list string := ["circuit"; "ot"; "p2p"; "env"].
Definition pkgs_C03 : list string := ["compiler"; "compiler/ast"; "compiler/circuits"; "compiler/ssa"; "compiler/mpa"; "compiler/utils"; "types"; "circuit"].
Definition pkgs_C04 : list string := ["circuit"; "compiler/ssa"; "sha2pc"; "ot"; "p2p"; "env"; "compiler/circuits"].
Definition pkgs_C05 : list string := ["circuit"; "compiler"; "compiler/ssa"; "compiler/circuits"; "compiler/ast"; "compiler/mpa"; "types"].
Definition pkgs_C06 : list string := ["ot"].
Definition pkgs_C07 : list string := ["compiler/circuits"].
Definition pkgs_C08 : list string := ["apps/garbled"; "compiler"; "compiler/ast"; "compiler/circuits"; "compiler/ssa"; "compiler/mpa"; "compiler/utils"; "types"; "circuit"].
Definition pkgs_C09 : list string := ["circuit"; "compiler/circuits"; "compiler/ssa"; "compiler/utils"; "compiler/mpa"; "types"; "compiler"; "compiler/ast"].
Definition pkgs_C10 : list string := ["circuit"; "gmw"; "ot"; "p2p"; "env"].
Definition pkgs_C11 : list string := ["p2p"].
Definition pkgs_C12 : list string := ["compiler/ast"; "compiler/mpa"; "compiler/ssa"; "compiler/circuits"; "types"; "compiler/utils"].
Definition pkgs_C13 : list string := ["."; "circuit"; "types"].
Definition pkgs_C14 : list string := ["circuit"; "types"].
Definition pkgs_C15 : list string := ["ot"].
Definition pkgs_C16 : list string := ["circuit"; "compiler/ssa"; "env"; "ot"; "p2p"].
Definition pkgs_C17 : list string := ["circuit"; "ot"].
Definition pkgs_C18 : list string := ["ot"; "sha2pc"; "circuit"].
Definition pkgs_C19 : list string := ["p2p"; "ot"].
Definition pkgs_C20 : list string := ["bmr"; "ot"; "vole"; "p2p"].
