(* Codec.v — big-endian fixed-width integers and bit packing shared by the
   session-level models (p2p.Conn integer formats, big.Int.Bytes/SetBytes,
   IO.Split). *)
From Coq Require Import NArith List Bool Arith Lia.
Import ListNotations.
Open Scope N_scope.

(* k big-endian bytes of x (low k bytes) *)
Fixpoint be (k : nat) (x : N) : list N :=
  match k with
  | O => []
  | S k' => be k' (x / 256) ++ [x mod 256]
  end.

Definition of_be (l : list N) : N := fold_left (fun acc b => acc * 256 + b) l 0.

(* little-endian bit list <-> N *)
Fixpoint bits_to_N (bs : list bool) : N :=
  match bs with
  | [] => 0
  | b :: t => (if b then 1 else 0) + 2 * bits_to_N t
  end.

Fixpoint N_to_bits (k : nat) (x : N) : list bool :=
  match k with
  | O => []
  | S k' => N.odd x :: N_to_bits k' (x / 2)
  end.

(* number of bytes big.Int.Bytes() returns: minimal big-endian, none for 0 *)
Definition nbytes (x : N) : nat := (N.to_nat (N.size x) + 7) / 8.
Definition big_bytes (x : N) : list N := be (nbytes x) x.

(* IO.Split: cut v into consecutive fields of the given bit sizes *)
Fixpoint split_bits (sizes : list nat) (v : N) : list N :=
  match sizes with
  | [] => []
  | s :: rest => (v mod 2 ^ N.of_nat s) :: split_bits rest (v / 2 ^ N.of_nat s)
  end.

Fixpoint chunks {A} (sizes : list nat) (l : list A) : list (list A) :=
  match sizes with
  | [] => []
  | s :: rest => firstn s l :: chunks rest (skipn s l)
  end.
