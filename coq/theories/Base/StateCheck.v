(* StateCheck.v — comparison of the REGENERATED state inventory (Gen/State.v: every struct
   field and package-level variable of the anchored Go packages, emitted from the source on
   every run by harness/gen_state.go) with the frozen one (Base/StateExpected.v, written by
   bin/mkstate when a change to /repo has been reviewed against the models).  The models are
   state machines over exactly this state; a new field or variable (a cache, a memo, a pool, a
   counter, a changed field type) is state the models do not have. *)
From Coq Require Import List String Bool.
Import ListNotations.
Open Scope string_scope.

Fixpoint list_string_eqb (a b : list string) : bool :=
  match a, b with
  | [], [] => true
  | x :: a', y :: b' => String.eqb x y && list_string_eqb a' b'
  | _, _ => false
  end.

Fixpoint pkg_state (inv : list (string * list string)) (p : string) : option (list string) :=
  match inv with
  | [] => None
  | (q, items) :: rest => if String.eqb p q then Some items else pkg_state rest p
  end.

Definition pkg_same (a b : list (string * list string)) (p : string) : bool :=
  match pkg_state a p, pkg_state b p with
  | Some x, Some y => list_string_eqb x y
  | _, _ => false
  end.

Definition state_unchanged (regenerated expected : list (string * list string)) (pkgs : list string) : bool :=
  forallb (pkg_same regenerated expected) pkgs.
