From Coq Require Import ZArith NArith List Bool Arith Lia ZifyN ZifyNat.
From Mpc Require Import Base.Codec.
Import ListNotations.
Open Scope N_scope.

Lemma of_be_app l b : of_be (l ++ [b]) = of_be l * 256 + b.
Proof. unfold of_be. rewrite fold_left_app. reflexivity. Qed.

Lemma of_be_be k : forall x, of_be (be k x) = x mod 256 ^ N.of_nat k.
Proof.
  induction k as [|k IH]; intros x.
  - cbn. rewrite N.mod_1_r. reflexivity.
  - cbn [be]. rewrite of_be_app, IH.
    rewrite Nat2N.inj_succ, N.pow_succ_r'.
    assert (H256 : 256 ^ N.of_nat k <> 0) by (apply N.pow_nonzero; lia).
    rewrite N.mod_mul_r by lia.
    generalize ((x / 256) mod 256 ^ N.of_nat k), (x mod 256). intros; lia.
Qed.

Lemma be_length k : forall x, length (be k x) = k.
Proof. induction k as [|k IH]; intros x; cbn [be]; [reflexivity|]. rewrite app_length, IH. cbn. lia. Qed.

Lemma size_bound x : x < 2 ^ N.size x.
Proof. destruct x as [|p]; [cbn; lia|]. apply N.size_gt. Qed.

(* big.Int.Bytes then SetBytes is the identity *)
Lemma big_bytes_roundtrip x : of_be (big_bytes x) = x.
Proof.
  unfold big_bytes. rewrite of_be_be. apply N.mod_small.
  eapply N.lt_le_trans; [apply size_bound|].
  replace 256 with (2 ^ 8) by reflexivity. rewrite <- N.pow_mul_r.
  apply N.pow_le_mono_r; [lia|]. unfold nbytes.
  assert (N.to_nat (N.size x) <= 8 * ((N.to_nat (N.size x) + 7) / 8))%nat.
  { pose proof (Nat.div_mod (N.to_nat (N.size x) + 7) 8 ltac:(lia)).
    pose proof (Nat.mod_upper_bound (N.to_nat (N.size x) + 7) 8 ltac:(lia)). lia. }
  lia.
Qed.

Lemma bits_to_N_app a b : bits_to_N (a ++ b) = bits_to_N a + 2 ^ N.of_nat (length a) * bits_to_N b.
Proof.
  induction a as [|x a IH]; cbn [bits_to_N app length].
  - change (N.of_nat 0) with 0. rewrite N.pow_0_r. lia.
  - rewrite IH, Nat2N.inj_succ, N.pow_succ_r'.
    generalize (2 ^ N.of_nat (length a)), (bits_to_N a), (bits_to_N b). intros; destruct x; nia.
Qed.

Lemma bits_to_N_bound a : bits_to_N a < 2 ^ N.of_nat (length a).
Proof.
  induction a as [|x a IH]; cbn [bits_to_N length].
  - change (N.of_nat 0) with 0. rewrite N.pow_0_r. lia.
  - rewrite Nat2N.inj_succ, N.pow_succ_r'.
    revert IH. generalize (2 ^ N.of_nat (length a)), (bits_to_N a). intros; destruct x; lia.
Qed.

(* IO.Split cuts the value into the declared fields, in order *)
Lemma split_bits_spec : forall sizes bs,
  length bs = fold_right Nat.add 0%nat sizes ->
  split_bits sizes (bits_to_N bs) = map bits_to_N (chunks sizes bs).
Proof.
  induction sizes as [|s rest IH]; intros bs Hlen; cbn [split_bits chunks map].
  - reflexivity.
  - cbn [fold_right] in Hlen.
    rewrite <- (firstn_skipn s bs) at 1 2.
    assert (Hf : length (firstn s bs) = s) by (rewrite firstn_length; lia).
    rewrite bits_to_N_app, Hf.
    pose proof (bits_to_N_bound (firstn s bs)) as Hb. rewrite Hf in Hb.
    assert (Hp : 2 ^ N.of_nat s <> 0) by (apply N.pow_nonzero; lia).
    rewrite (N.mul_comm (2 ^ N.of_nat s)).
    f_equal.
    + rewrite N.mod_add by exact Hp. apply N.mod_small; exact Hb.
    + rewrite N.div_add by exact Hp.
      rewrite N.div_small by exact Hb. rewrite N.add_0_l.
      apply IH. rewrite skipn_length. lia.
Qed.

Lemma concat_chunks {A} : forall sizes (l : list A),
  length l = fold_right Nat.add 0%nat sizes -> concat (chunks sizes l) = l.
Proof.
  induction sizes as [|s rest IH]; intros l H; cbn [chunks concat fold_right] in *.
  - destruct l; [reflexivity|discriminate].
  - rewrite IH by (rewrite skipn_length; lia). apply firstn_skipn.
Qed.
