(* Label.v — model of ot.Label (ot/label.go): a 128-bit value, D0 the high
   word.  Labels are [N]; the 128-bit width is written into [mul2]/[mul4]
   (the only operations that can overflow).  [S] is the point-and-permute
   bit (top bit of D0 = bit 127). *)
From Coq Require Import NArith List Bool Btauto Lia.
Import ListNotations.
Open Scope N_scope.

Notation label := N (only parsing).
Definition W128 : N := 2 ^ 128.
Definition lxor (a b : label) : label := N.lxor a b.
Definition sbit (l : label) : bool := N.testbit l 127.
Definition setS (l : label) : label := N.lor l (2 ^ 127).
Definition mul2 (l : label) : label := (l * 2) mod W128.
Definition mul4 (l : label) : label := (l * 4) mod W128.
(* ot.NewTweak(uint32): the tweak counter is a Go uint32 and wraps. *)
Definition tweak (t : N) : label := t mod 2 ^ 32.

Record wire := mkWire { L0 : label; L1 : label }.
Definition w0 : wire := mkWire 0 0.
Definition pick (w : wire) (b : bool) : label := if b then L1 w else L0 w.

Section Hash.
  Variable pi : N -> N.   (* the fixed-key block cipher, arbitrary *)

  (* circuit.makeK *)
  Definition makeK (a b : label) (t : N) : label :=
    lxor (lxor (mul2 a) (mul4 b)) (tweak t).
  (* circuit.encrypt / decrypt *)
  Definition enc (a b c : label) (t : N) : label :=
    let k := makeK a b t in lxor (lxor (pi k) k) c.
  Definition dec (a b : label) (t : N) (c : label) : label :=
    let k := makeK a b t in lxor (lxor c (pi k)) k.
  (* circuit.encryptHalf *)
  Definition half (x : label) (i : N) : label :=
    let k := lxor (mul2 x) (tweak i) in lxor (pi k) k.
End Hash.

(* xor reasoning: reduce an equation between lxor-terms to a boolean ring
   identity at an arbitrary bit position. *)
Ltac xor_bits n :=
  repeat match goal with
         | |- context [N.testbit ?x n] =>
             let b := fresh "b" in generalize (N.testbit x n); intro b
         end.
Ltac xor_solve :=
  unfold lxor in *;
  apply N.bits_inj; let n := fresh "n" in intro n;
  repeat rewrite N.lxor_spec; repeat rewrite N.bits_0;
  xor_bits n; btauto.

Lemma lxor_comm a b : lxor a b = lxor b a. Proof. xor_solve. Qed.
Lemma lxor_assoc a b c : lxor (lxor a b) c = lxor a (lxor b c). Proof. xor_solve. Qed.
Lemma lxor_0_r a : lxor a 0 = a. Proof. xor_solve. Qed.
Lemma lxor_0_l a : lxor 0 a = a. Proof. xor_solve. Qed.
Lemma lxor_nilp a : lxor a a = 0. Proof. xor_solve. Qed.
Lemma lxor_cancel_r a b : lxor (lxor a b) b = a. Proof. xor_solve. Qed.

Lemma sbit_lxor a b : sbit (lxor a b) = xorb (sbit a) (sbit b).
Proof. unfold sbit, lxor. apply N.lxor_spec. Qed.

Lemma sbit_setS l : sbit (setS l) = true.
Proof.
  unfold sbit, setS. rewrite N.lor_spec, N.pow2_bits_true. apply orb_true_r.
Qed.

Lemma lxor_eq_0 a b : lxor a b = 0 -> a = b.
Proof. unfold lxor. apply N.lxor_eq. Qed.

Lemma sbit_nonzero r : sbit r = true -> r <> 0.
Proof. intros H E. subst. unfold sbit in H. rewrite N.bits_0 in H. discriminate. Qed.

Lemma lxor_r_neq l r : sbit r = true -> lxor l r <> l.
Proof.
  intros H E. apply (sbit_nonzero r H).
  assert (lxor (lxor l r) l = 0) by (rewrite E; apply lxor_nilp).
  rewrite <- H0. xor_solve.
Qed.

Lemma dec_enc pi a b c t : dec pi a b t (enc pi a b c t) = c.
Proof. unfold dec, enc. cbv zeta. generalize (pi (makeK a b t)), (makeK a b t). intros. xor_solve. Qed.
