(* Aes.v — executable AES-128/192/256 block encryption (FIPS-197) so that the
   concrete model reproduces the implementation's garbled tables byte for
   byte.  Used only for *execution* (correspondence); every theorem
   quantifies over an arbitrary block function.  The FIPS-197 appendix C
   vectors are checked by vm_compute below. *)
From Coq Require Import NArith List Bool Arith.
Import ListNotations.
Open Scope N_scope.

Definition sbox : list N := [
  99; 124; 119; 123; 242; 107; 111; 197; 48; 1; 103; 43; 254; 215; 171; 118;
  202; 130; 201; 125; 250; 89; 71; 240; 173; 212; 162; 175; 156; 164; 114; 192;
  183; 253; 147; 38; 54; 63; 247; 204; 52; 165; 229; 241; 113; 216; 49; 21;
  4; 199; 35; 195; 24; 150; 5; 154; 7; 18; 128; 226; 235; 39; 178; 117;
  9; 131; 44; 26; 27; 110; 90; 160; 82; 59; 214; 179; 41; 227; 47; 132;
  83; 209; 0; 237; 32; 252; 177; 91; 106; 203; 190; 57; 74; 76; 88; 207;
  208; 239; 170; 251; 67; 77; 51; 133; 69; 249; 2; 127; 80; 60; 159; 168;
  81; 163; 64; 143; 146; 157; 56; 245; 188; 182; 218; 33; 16; 255; 243; 210;
  205; 12; 19; 236; 95; 151; 68; 23; 196; 167; 126; 61; 100; 93; 25; 115;
  96; 129; 79; 220; 34; 42; 144; 136; 70; 238; 184; 20; 222; 94; 11; 219;
  224; 50; 58; 10; 73; 6; 36; 92; 194; 211; 172; 98; 145; 149; 228; 121;
  231; 200; 55; 109; 141; 213; 78; 169; 108; 86; 244; 234; 101; 122; 174; 8;
  186; 120; 37; 46; 28; 166; 180; 198; 232; 221; 116; 31; 75; 189; 139; 138;
  112; 62; 181; 102; 72; 3; 246; 14; 97; 53; 87; 185; 134; 193; 29; 158;
  225; 248; 152; 17; 105; 217; 142; 148; 155; 30; 135; 233; 206; 85; 40; 223;
  140; 161; 137; 13; 191; 230; 66; 104; 65; 153; 45; 15; 176; 84; 187; 22 ].

Definition sub (b : N) : N := nth (N.to_nat b) sbox 0.
Definition xtime (b : N) : N :=
  let b2 := N.land (N.shiftl b 1) 255 in
  if N.testbit b 7 then N.lxor b2 27 else b2.

Definition xor_bytes (a b : list N) : list N := map (fun p => N.lxor (fst p) (snd p)) (combine a b).

(* state: 16 bytes, index r + 4c (column-major = input order) *)
Definition sub_bytes (s : list N) : list N := map sub s.
Definition shift_rows (s : list N) : list N :=
  map (fun i => let r := (i mod 4)%nat in let c := (i / 4)%nat in
                nth (r + 4 * ((c + r) mod 4))%nat s 0) (seq 0 16).
Definition mix_col (a0 a1 a2 a3 : N) : list N :=
  [ N.lxor (N.lxor (xtime a0) (N.lxor (xtime a1) a1)) (N.lxor a2 a3);
    N.lxor (N.lxor a0 (xtime a1)) (N.lxor (N.lxor (xtime a2) a2) a3);
    N.lxor (N.lxor a0 a1) (N.lxor (xtime a2) (N.lxor (xtime a3) a3));
    N.lxor (N.lxor (N.lxor (xtime a0) a0) a1) (N.lxor a2 (xtime a3)) ].
Fixpoint mix_columns (s : list N) : list N :=
  match s with
  | a0 :: a1 :: a2 :: a3 :: rest => mix_col a0 a1 a2 a3 ++ mix_columns rest
  | _ => []
  end.

(* key schedule: list of 4-byte words, built front to back *)
Definition rot_word (w : list N) : list N :=
  match w with a :: rest => rest ++ [a] | [] => [] end.
Definition sub_word (w : list N) : list N := map sub w.

Fixpoint chunk4 (l : list N) : list (list N) :=
  match l with
  | a :: b :: c :: d :: rest => [a; b; c; d] :: chunk4 rest
  | _ => []
  end.

Fixpoint expand (fuel : nat) (nk : nat) (i : nat) (rcon : N) (ws : list (list N)) : list (list N) :=
  match fuel with
  | O => ws
  | S f =>
      let prev := nth (i - 1) ws [] in
      let '(temp, rcon') :=
        if Nat.eqb (i mod nk) 0 then
          (xor_bytes (sub_word (rot_word prev)) [rcon; 0; 0; 0], xtime rcon)
        else if andb (Nat.ltb 6 nk) (Nat.eqb (i mod nk) 4) then (sub_word prev, rcon)
        else (prev, rcon) in
      expand f nk (S i) rcon' (ws ++ [xor_bytes (nth (i - nk) ws []) temp])
  end.

Definition key_expansion (key : list N) : list (list N) :=
  let nk := (length key / 4)%nat in
  let nr := (nk + 6)%nat in
  expand (4 * (nr + 1) - nk) nk nk 1 (chunk4 key).

Fixpoint round_keys (ws : list (list N)) : list (list N) :=
  match ws with
  | a :: b :: c :: d :: rest => (a ++ b ++ c ++ d) :: round_keys rest
  | _ => []
  end.

Fixpoint rounds (s : list N) (rks : list (list N)) : list N :=
  match rks with
  | [] => s
  | [last] => xor_bytes (shift_rows (sub_bytes s)) last
  | rk :: rest => rounds (xor_bytes (mix_columns (shift_rows (sub_bytes s))) rk) rest
  end.

(* expanded key = list of round keys; computed once per session *)
Definition aes_schedule (key : list N) : list (list N) := round_keys (key_expansion key).
Definition aes_encrypt_rk (rks : list (list N)) (blk : list N) : list N :=
  match rks with
  | [] => blk
  | rk0 :: rest => rounds (xor_bytes blk rk0) rest
  end.
Definition aes_encrypt (key blk : list N) : list N := aes_encrypt_rk (aes_schedule key) blk.

(* 128-bit big-endian <-> bytes (ot.Label.GetData / SetData) *)
Definition be_bytes (n : nat) (x : N) : list N :=
  map (fun i => N.land (N.shiftr x (8 * N.of_nat (n - 1 - i))) 255) (seq 0 n).
Definition of_be_bytes (l : list N) : N := fold_left (fun acc b => acc * 256 + b) l 0.

Definition aes_pi (rks : list (list N)) (x : N) : N :=
  of_be_bytes (aes_encrypt_rk rks (be_bytes 16 (x mod 2 ^ 128))).

(* FIPS-197 Appendix C *)
Definition pt := be_bytes 16 0x00112233445566778899aabbccddeeff.
Example kat128 : of_be_bytes (aes_encrypt (be_bytes 16 0x000102030405060708090a0b0c0d0e0f) pt)
                 = 0x69c4e0d86a7b0430d8cdb78070b4c55a.
Proof. vm_compute. reflexivity. Qed.
Example kat192 : of_be_bytes (aes_encrypt (be_bytes 24 0x000102030405060708090a0b0c0d0e0f1011121314151617) pt)
                 = 0xdda97ca4864cdfe06eaf70a0ec0d7191.
Proof. vm_compute. reflexivity. Qed.
Example kat256 : of_be_bytes (aes_encrypt (be_bytes 32 0x000102030405060708090a0b0c0d0e0f101112131415161718191a1b1c1d1e1f) pt)
                 = 0x8ea2b7ca516745bfeafc49904b496089.
Proof. vm_compute. reflexivity. Qed.
