(* Sx.v — the generic S-expression value exchanged between the Go harness,
   the extracted OCaml model runner and in-kernel [vm_compute] evaluation.
   Every executable model exposes one entry [run_cXX : sx -> sx]; the harness
   prints the input and the implementation's observable as [sx] text, and the
   correspondence relation is plain equality of [sx] values. *)
From Coq Require Import ZArith List Bool.
Import ListNotations.
Open Scope Z_scope.

Inductive sx : Type :=
| SZ (z : Z)
| SL (l : list sx).

Definition sx_err (code : Z) : sx := SL [SZ (-1); SZ code].

Definition getZ (s : sx) : Z := match s with SZ z => z | SL _ => 0 end.
Definition getN (s : sx) : N := Z.to_N (getZ s).
Definition getnat (s : sx) : nat := Z.to_nat (getZ s).
Definition getB (s : sx) : bool := negb (Z.eqb (getZ s) 0).
Definition getL (s : sx) : list sx := match s with SL l => l | SZ _ => [] end.
Definition nthx (i : nat) (s : sx) : sx := nth i (getL s) (SZ 0).

Definition ofN (n : N) : sx := SZ (Z.of_N n).
Definition ofnat (n : nat) : sx := SZ (Z.of_nat n).
Definition ofB (b : bool) : sx := SZ (if b then 1 else 0).
Definition ofLN (l : list N) : sx := SL (map ofN l).
Definition ofLB (l : list bool) : sx := SL (map ofB l).
Definition ofLnat (l : list nat) : sx := SL (map ofnat l).
Definition getLN (s : sx) : list N := map getN (getL s).
Definition getLB (s : sx) : list bool := map getB (getL s).
Definition getLnat (s : sx) : list nat := map getnat (getL s).
Definition getLZ (s : sx) : list Z := map getZ (getL s).
Definition ofLZ (l : list Z) : sx := SL (map SZ l).

Fixpoint sx_eqb (a b : sx) {struct a} : bool :=
  match a, b with
  | SZ x, SZ y => Z.eqb x y
  | SL la, SL lb =>
      (fix go (la lb : list sx) {struct la} : bool :=
         match la, lb with
         | [], [] => true
         | x :: xs, y :: ys => sx_eqb x y && go xs ys
         | _, _ => false
         end) la lb
  | _, _ => false
  end.

(* [mismatches f cases]: indices of the cases (input, expected) on which the
   model entry [f] does not reproduce the implementation's observable. *)
Fixpoint mismatches_from (f : sx -> sx) (i : nat) (cases : list (sx * sx)) : list nat :=
  match cases with
  | [] => []
  | (inp, exp) :: rest =>
      if sx_eqb (f inp) exp then mismatches_from f (S i) rest
      else i :: mismatches_from f (S i) rest
  end.
Definition mismatches f cases := mismatches_from f 0 cases.
