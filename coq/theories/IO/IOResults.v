(* IO/IOResults.v — executable model of the OUTPUT side of the value codec of
   markkurossi/mpc beyond the single mpc.Result (property C13):

     result.go          mpc.Results (the loop over the result values, the
                        outputs == nil branch, the outputs[idx] index),
                        mpc.PrintResults (the text printed per Go value:
                        strconv.FormatInt/FormatUint, big.Int.Text, %x of a
                        byte slice, %v of the other values)
     circuit/ioarg.go   IO.Size, IOArg.Len
     the way every runner hands results out (circuit/garbler.go, evaluator.go,
     stream_evaluator.go, computer.go, gmw/network.go, compiler/ssa/streamer.go):
                        circ.Outputs.Split(raw) followed by mpc.Results /
                        mpc.PrintResults on the parts            [output_values]

   IO/IOArg.v has Result, Split, Parse, Set …; this file only adds to it.
   There are no proofs in this file (IO/IOResultsProof.v has them). *)
From Coq Require Import ZArith NArith List Bool.
From Mpc Require Import Gen.Consts IO.IOArg.
Import ListNotations.
Open Scope Z_scope.

(* ------------------------------------------------------------------ *)
(** * mpc.Results (result.go) *)

(* the type Results decodes with when outputs == nil:
     types.Info{Type: types.TUint, IsConcrete: true, Bits: 1024}   *)
Definition results_default_info : info := Info types_TUint 1024 0 None [] true.

Section ResultsGen.
  Variable R : info -> Z -> res (gout * Z).       (* mpc.Result *)

  (* for idx, result := range results { r = Result(result, outputs[idx]); ret = append(ret, r) }
     outputs[idx] with idx >= len(outputs): run-time panic (index out of range).
     Each item is (Go value, the *big.Int argument after the call). *)
  Fixpoint results_some (outs : list ioarg) (rs : list Z) {struct rs} : res (list (gout * Z)) :=
    match rs with
    | [] => Ok []
    | r :: rs' =>
        match outs with
        | [] => Panic
        | o :: outs' =>
            match R (a_type o) r with
            | Ok x => bind (results_some outs' rs') (fun l => Ok (x :: l))
            | Err => Err
            | Panic => Panic
            end
        end
    end.

  (* the branch outputs == nil *)
  Fixpoint results_nil (rs : list Z) : res (list (gout * Z)) :=
    match rs with
    | [] => Ok []
    | r :: rs' =>
        match R results_default_info r with
        | Ok x => bind (results_nil rs') (fun l => Ok (x :: l))
        | Err => Err
        | Panic => Panic
        end
    end.

  (* outputs: None = a nil circuit.IO, Some l = a non-nil one (also the empty, non-nil IO{}) *)
  Definition results_gen (outputs : option (list ioarg)) (rs : list Z) : res (list (gout * Z)) :=
    match outputs with
    | None => results_nil rs
    | Some outs => results_some outs rs
    end.
End ResultsGen.

Definition results := results_gen result.

(* ------------------------------------------------------------------ *)
(** * IO.Size, IOArg.Len (circuit/ioarg.go) *)

(* var sum int; for _, a := range io { sum += int(a.Type.Bits) } *)
Definition io_size (io : list ioarg) : nat :=
  fold_left (fun sum a => (sum + i_bits (a_type a))%nat) io O.

(* if len(io.Compound) == 0 { return 1 }; return len(io.Compound) *)
Definition ioarg_len (a : ioarg) : nat :=
  match a_compound a with [] => 1%nat | c => length c end.

(* ------------------------------------------------------------------ *)
(** * How result values leave a run: Outputs.Split(raw), then Results *)

Definition output_values (outs : list ioarg) (raw : Z) : res (list (gout * Z)) :=
  results (Some outs) (split outs raw).

(* ------------------------------------------------------------------ *)
(** * mpc.PrintResults (result.go): the text of one value *)

(* digit characters of strconv / math/big: "0123456789abcdefghijklmnopqrstuvwxyz" *)
Definition digit_char (d : N) : N := if (d <? 10)%N then (48 + d)%N else (97 + d - 10)%N.

(* the digits of n in the base, most significant first; [fuel] bounds the
   number of digits (callers pass a bound on the binary length) *)
Fixpoint digits_fuel (fuel : nat) (base n : N) (acc : list N) : list N :=
  match fuel with
  | O => acc
  | S f =>
      if (n <? base)%N then digit_char n :: acc
      else digits_fuel f base (n / base)%N (digit_char (n mod base)%N :: acc)
  end.

(* strconv.FormatUint(n, base), 2 <= base <= 36 *)
Definition format_nat (base n : N) : list N := digits_fuel (S (N.to_nat (N.size n))) base n [].

(* strconv.FormatInt(z, base) / big.Int.Text(base): '-' then the digits of |z| *)
Definition format_int (base : N) (z : Z) : list N :=
  if z <? 0 then 45%N :: format_nat base (Z.to_N (- z)) else format_nat base (Z.to_N z).

(* fmt "%x" of a []byte: two lower-case hex digits per byte *)
Definition hex_bytes (l : list N) : list N :=
  flat_map (fun b => [digit_char (b / 16)%N; digit_char (b mod 16)%N]) l.

Definition s_true_txt : list N := [116; 114; 117; 101]%N.
Definition s_false_txt : list N := [102; 97; 108; 115; 101]%N.

(* b := base; if b == 0 { b = 10 }  (the integer cases)  *)
Definition base_or (dflt base : N) : N := if (base =? 0)%N then dflt else base.

(* fmt "%v" of the values of the default branch: bool, string, and slices of
   bool / intN / uintN (N > 8) / *big.Int / string: "[e0 e1 …]" with %v of
   every element ( *big.Int prints in decimal) *)
Definition verb_v_scalar (o : gout) : list N :=
  match o with
  | OBool b => if b then s_true_txt else s_false_txt
  | OInt _ _ z => format_int 10 z
  | OBig z => format_int 10 z
  | OStr l => l
  | _ => []
  end.

Fixpoint join_sp (l : list (list N)) : list N :=
  match l with
  | [] => []
  | [x] => x
  | x :: rest => x ++ 32%N :: join_sp rest
  end.

(* the bytes of a []uint8 result *)
Definition slice_bytes (items : list gout) : list N :=
  map (fun o => match o with OInt _ _ z => Z.to_N z | _ => 0%N end) items.

(* the text PrintResults prints after "Result[idx]: " and before the newline,
   for the Go value Result returned and the base flag (0, 2 … 36) *)
Definition print_value (base : N) (o : gout) : list N :=
  match o with
  | OInt signed _ z => format_int (base_or 10 base) z     (* FormatUint / FormatInt *)
  | OBig z =>
      if (base =? 0)%N then [48; 120]%N ++ format_int 16 z   (* prefix "0x", v.Text(16) *)
      else format_int base z
  | OSlice ek ew items =>
      if Nat.eqb ek 3 && Nat.eqb ew 8 then hex_bytes (slice_bytes items)      (* case []byte: %x *)
      else 91%N :: join_sp (map verb_v_scalar items) ++ [93%N]                 (* %v *)
  | OBool _ | OStr _ => verb_v_scalar o
  | OUnsupported => []                                    (* the formatted message; projected away *)
  end.

(* PrintResults(results, outputs, base): one text per result value *)
Definition print_results (outputs : option (list ioarg)) (rs : list Z) (base : N) : res (list (list N)) :=
  match results outputs rs with
  | Ok l => Ok (map (fun x => print_value base (fst x)) l)
  | Err => Err
  | Panic => Panic
  end.
