(* RunC14.v — executable entry point of the C14 model for the correspondence check.
   input  = (mode fmt payload)       fmt: 0 = MPCLC, 1 = Bristol
     mode 0: payload = circuit; output = (bytes result bytes2): Marshal c, Parse of it,
             Marshal of the parsed circuit (empty when the parse is not Ok)
     mode 1: payload = (byte ...); output = (result bytes2)
     mode 2: payload = (byte ...) type text; output = (class info String-of-info)
     mode 3: fmt = (byte ...) format string of MarshalFormat, payload = circuit; output = (0 bytes) | (1)
     mode 4: fmt = (byte ...) a string; output = (IsFilename)
     mode 5: fmt = (byte ...) file name, payload = (exists (byte ...)) file content; output =
             (IsFilename result statsx) of circuit.Parse(file); statsx = () unless the result is Ok, then
             ((Stats[0..MaxWidth]) Stats.Count NumXOR NumNonXOR Cost)
   circuit = (numGates numWires (ioarg...) (ioarg...) ((op in0 in1 out)...))
   ioarg   = (name info (ioarg...))       name = ((byte...) trailing-zero-count)
   info    = (type concrete bits minbits arraysize (elem?) (field-info...))
   result  = (0 circuit (stats...)) | (1) error | (2) panic | (3) fuel *)
From Coq Require Import ZArith NArith List Bool.
From Mpc Require Import Gen.Consts Base.Sx Circuit.Circuit IO.Marshal IO.ParseFile.
Import ListNotations.

Definition op_of_Z (z : Z) : op :=
  if Z.eqb z circuit_XOR then XOR else if Z.eqb z circuit_XNOR then XNOR
  else if Z.eqb z circuit_AND then AND else if Z.eqb z circuit_OR then OR else INV.

Definition gateN_of_sx (s : sx) : gateN :=
  mkG (op_of_Z (getZ (nthx 0 s))) (getN (nthx 1 s)) (getN (nthx 2 s)) (getN (nthx 3 s)).

Fixpoint info_of_sx (s : sx) : info :=
  match s with
  | SL [t; c; b; mb; az; SL el; SL st] =>
      mkInfo (getZ t) (getB c) (getZ b) (getZ mb) (map info_of_sx st)
             (match el with e :: _ => Some (info_of_sx e) | [] => None end) (getZ az)
  | _ => mkInfo 0 false 0 0 [] None 0
  end.

Definition name_of_sx (s : sx) : list byte := getLN (nthx 0 s) ++ zeros (getN (nthx 1 s)).

Fixpoint ioarg_of_sx (s : sx) : ioarg :=
  match s with
  | SL [n; t; SL comp] => mkIO (name_of_sx n) (info_of_sx t) (map ioarg_of_sx comp)
  | _ => mkIO [] (mkInfo 0 false 0 0 [] None 0) []
  end.

Definition circuit_of_sx (s : sx) : fcircuit :=
  mkFC (getZ (nthx 0 s)) (getZ (nthx 1 s)) (map ioarg_of_sx (getL (nthx 2 s)))
       (map ioarg_of_sx (getL (nthx 3 s))) (map gateN_of_sx (getL (nthx 4 s))).

Fixpoint sx_of_info (i : info) : sx :=
  match i with
  | mkInfo t c b mb st el az =>
      SL [SZ t; ofB c; SZ b; SZ mb; SZ az;
          SL (match el with Some e => [sx_of_info e] | None => [] end);
          SL (map sx_of_info st)]
  end.

(* (bytes without the trailing zero bytes, number of trailing zero bytes) *)
Fixpoint strip0 (rl : list byte) (k : N) : list byte * N :=
  match rl with
  | x :: t => if N.eqb x 0 then strip0 t (N.succ k) else (rev rl, k)
  | [] => ([], k)
  end.
Definition sx_of_name (n : list byte) : sx :=
  let '(l, k) := strip0 (rev n) 0%N in SL [ofLN l; ofN k].

Fixpoint sx_of_ioarg (a : ioarg) : sx :=
  match a with
  | mkIO n t comp => SL [sx_of_name n; sx_of_info t; SL (map sx_of_ioarg comp)]
  end.

Definition sx_of_gate (g : gateN) : sx :=
  SL [SZ (Z.of_N (op_code (g_op g))); ofN (g_in0 g); ofN (g_in1 g); ofN (g_out g)].

Definition sx_of_circuit (c : fcircuit) : sx :=
  SL [SZ (c_numgates c); SZ (c_numwires c); SL (map sx_of_ioarg (c_inputs c));
      SL (map sx_of_ioarg (c_outputs c)); SL (map sx_of_gate (c_gates c))].

Definition op_eqb (a b : op) : bool :=
  match a, b with
  | XOR, XOR | XNOR, XNOR | AND, AND | OR, OR | INV, INV => true
  | _, _ => false
  end.
(* Circuit.Stats[XOR..INV] as the parsers count them *)
Definition stats (c : fcircuit) : sx :=
  SL (map (fun o => ofnat (length (filter (fun g => op_eqb (g_op g) o) (c_gates c))))
          [XOR; XNOR; AND; OR; INV]).

Definition sx_of_res (r : res fcircuit) : sx :=
  match r with
  | Ok c => SL [SZ 0; sx_of_circuit c; stats c]
  | Err => SL [SZ 1]
  | Panic => SL [SZ 2]
  | Fuel => SL [SZ 3]
  end.

Definition marshal_fmt (fmt : Z) (c : fcircuit) : list byte :=
  if Z.eqb fmt 0 then Marshal c else MarshalBristol c.
(* fx = true: the parsers as they are in /repo now; fx = false: ParseMPCLC before the fixes of F9/F10 *)
Definition parse_fmt_gen (fx : bool) (fmt : Z) (bs : list byte) : res fcircuit :=
  if Z.eqb fmt 0 then (if fx then ParseMPCLC bs else ParseMPCLC_prefix bs) else ParseBristol bs.
Definition parse_fmt := parse_fmt_gen true.
Definition remarshal (fmt : Z) (r : res fcircuit) : sx :=
  match r with Ok c => ofLN (marshal_fmt fmt c) | _ => SL [] end.

(* circuit.Parse(file) and the Stats of the circuit it returns *)
Definition sx_of_statsx (r : res (fcircuit * stats_t)) : sx :=
  match r with
  | Ok (_, st) => SL [ofLN st; ofN (stats_count st); ofN (stats_numxor st); ofN (stats_numnonxor st);
                      ofN (stats_cost st)]
  | _ => SL []
  end.
Definition run_parse_file (name : list byte) (payload : sx) : sx :=
  let content := if getB (nthx 0 payload) then Some (getLN (nthx 1 payload)) else None in
  SL [ofB (IsFilename name); sx_of_res (ParseFile name content); sx_of_statsx (ParseFileStats name content)].

Definition run_c14_gen (fx : bool) (inp : sx) : sx :=
  let mode := getZ (nthx 0 inp) in
  let fmt := getZ (nthx 1 inp) in
  if Z.eqb mode 0 then
    let c := circuit_of_sx (nthx 2 inp) in
    let bs := marshal_fmt fmt c in
    let r := parse_fmt_gen fx fmt bs in
    SL [ofLN bs; sx_of_res r; remarshal fmt r]
  else if Z.eqb mode 1 then
    let r := parse_fmt_gen fx fmt (getLN (nthx 2 inp)) in
    SL [sx_of_res r; remarshal fmt r]
  else if Z.eqb mode 4 then SL [ofB (IsFilename (getLN (nthx 1 inp)))]
  else if Z.eqb mode 5 then run_parse_file (getLN (nthx 1 inp)) (nthx 2 inp)
  else if Z.eqb mode 3 then
    (* MarshalFormat: fmt = (format string bytes), payload = circuit *)
    match MarshalFormat (getLN (nthx 1 inp)) (circuit_of_sx (nthx 2 inp)) with
    | Some bs => SL [SZ 0; ofLN bs]
    | None => SL [SZ 1]
    end
  else
    match Parse (getLN (nthx 2 inp)) with
    | Ok i => SL [SZ 0; sx_of_info i; ofLN (info_string i)]
    | Err => SL [SZ 1]
    | Panic => SL [SZ 2]
    | Fuel => SL [SZ 3]
    end.

(* the code as it is now *)
Definition run_c14 : sx -> sx := run_c14_gen true.
(* pre-fix variant (regression record; not used by the check) *)
Definition run_c14_prefix : sx -> sx := run_c14_gen false.
