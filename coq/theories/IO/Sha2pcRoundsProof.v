(* Sha2pcRoundsProof.v — theorems about IO/Sha2pcRounds.v:
   (A) Round2 is canonical under the soundness of point decompression
       (decompress_sound), which the harness checks against
       elliptic.UnmarshalCompressed on every run (run_c18 kind 9 evaluates
       [unmarshal_compressed] on the implementation's answers);
   (B) the round functions with their validation are total (Ok or a NAMED
       error for every argument, never Panic) and never return Ok on a message
       or session of the wrong round / curve / session — at the level of the Go
       values and at the level of byte strings. *)
From Coq Require Import ZArith NArith List Bool Arith Lia.
From Mpc Require Import Gen.Consts Base.Codec IO.Sha2pcCodec IO.Sha2pcProof IO.Sha2pcRounds.
Import ListNotations.
Open Scope N_scope.

(* ====================================================================== *)
(* (A) Round 2 canonicity                                                  *)

(* what the decoder of Round2 needs from elliptic.UnmarshalCompressed: an
   accepted (X, sign) yields the point with that X and a Y of that parity —
   i.e. compressing the answer gives back the encoding — and the point is on
   the curve *)
Definition decompress_sound (dec : curve -> N -> bool -> option (N * N)) : Prop :=
  forall c x odd P, dec c x odd = Some P ->
    fst P = x /\ N.odd (snd P) = odd /\ on_curve c P = true.

Lemma skipn_add {A} : forall a b (l : list A), skipn a (skipn b l) = skipn (b + a) l.
Proof.
  intros a b. induction b as [|b IH]; intros l; [reflexivity|].
  destruct l as [|x l]; [destruct a; reflexivity|]. cbn [skipn Nat.add]. apply IH.
Qed.

Lemma decodePoints_xs_inv bl data : forall k off xs,
  decodePoints_xs bl k off data = Ok xs -> xs = split_be bl k (skipn off data).
Proof.
  induction k as [|k IH]; intros off xs H; cbn [decodePoints_xs] in H.
  - apply Ok_inj in H. subst xs. reflexivity.
  - apply bind_ok_inv in H. destruct H as (b & Sb & H).
    apply bind_ok_inv in H. destruct H as (t & T & H). apply Ok_inj in H. subst xs.
    apply slice_inv in Sb. destruct Sb as (_ & _ & ->).
    apply IH in T. subst t. cbn [split_be].
    replace (off + bl - off)%nat with bl by lia.
    rewrite skipn_add. reflexivity.
Qed.

Lemma split_be_app w : forall k a b, length a = (w * k)%nat -> split_be w k (a ++ b) = split_be w k a.
Proof.
  induction k as [|k IH]; intros a b L; cbn [split_be]; [reflexivity|].
  assert (Hw : (w <= length a)%nat) by lia.
  rewrite firstn_app, skipn_app.
  replace (w - length a)%nat with 0%nat by lia. cbn [firstn skipn]. rewrite app_nil_r.
  rewrite IH by (rewrite skipn_length; lia). reflexivity.
Qed.

Lemma pointSign_bits signs i : (i / 8 < length signs)%nat ->
  pointSign signs i = Ok (nth i (bytesToBitsLittle signs) false).
Proof.
  intros Hq. unfold pointSign. destruct signs as [|s0 sr] eqn:Es; [cbn in Hq; lia|].
  rewrite <- Es in *. unfold index.
  destruct (nth_error signs (i / 8)) as [b|] eqn:En.
  2:{ apply nth_error_None in En. lia. }
  cbn [bind]. f_equal.
  apply (nth_error_nth _ _ 0) in En. rewrite <- En. symmetry. apply testbit_nth. exact Hq.
Qed.

Lemma skipn_cons_nth {A} (d : A) : forall i l, (i < length l)%nat -> skipn i l = nth i l d :: skipn (S i) l.
Proof.
  induction i as [|i IH]; intros l H; destruct l as [|a l]; cbn [length] in H; try lia; [reflexivity|].
  cbn [skipn nth]. rewrite (IH l) by lia. reflexivity.
Qed.

Lemma decodePoints_pts_inv dec c signs : decompress_sound dec -> forall xs i pts,
  (i + length xs <= 8 * length signs)%nat ->
  decodePoints_pts dec c signs i xs = Ok pts ->
  map fst pts = xs /\
  map (fun p : N * N => N.odd (snd p)) pts = firstn (length xs) (skipn i (bytesToBitsLittle signs)) /\
  Forall (fun p => dec c (fst p) (N.odd (snd p)) = Some p /\ on_curve c p = true) pts.
Proof.
  intros S. induction xs as [|x xs IH]; intros i pts Hi H; cbn [decodePoints_pts] in H.
  - apply Ok_inj in H. subst pts. repeat split; constructor.
  - cbn [length] in Hi.
    rewrite pointSign_bits in H by (apply Nat.div_lt_upper_bound; lia). cbn [bind] in H.
    set (odd := nth i (bytesToBitsLittle signs) false) in *.
    destruct (dec c x odd) as [p|] eqn:D; [|discriminate].
    apply bind_ok_inv in H. destruct H as (ps & R & H). apply Ok_inj in H. subst pts.
    apply IH in R; [|lia]. destruct R as (Mf & Mo & F).
    destruct (S c x odd p D) as (Ex & Eo & Eon).
    cbn [map length]. rewrite Mf, Mo, Ex, Eo. repeat split.
    + rewrite (skipn_cons_nth false i) by (rewrite bytesToBitsLittle_length; lia).
      cbn [firstn]. reflexivity.
    + constructor; [|exact F]. split; [|exact Eon]. rewrite Ex, Eo. exact D.
Qed.

(* accepted Round2 bytes re-encode to themselves, the decoded value is
   well-formed, and every decoded point is on the curve *)
Theorem r2_canonical dec c bs m : decompress_sound dec -> is_bytes bs ->
  DecodeRound2 dec c bs = Ok m ->
  EncodeRound2 c m = Ok bs /\ wf_r2 dec c m /\ Forall (fun p => on_curve c p = true) (r2_choices m).
Proof.
  intros S B H. unfold DecodeRound2 in H.
  apply bind_ok_inv in H. destruct H as ([magic r1] & R1 & H). apply read_full_inv in R1. destruct R1 as [-> Lm].
  apply bind_ok_inv in H. destruct H as (u1 & G1 & H). apply guard_eqb_inv in G1. subst magic.
  apply bind_ok_inv in H. destruct H as ([sid r2] & R2 & H). apply read_full_inv in R2. destruct R2 as [-> Ls].
  apply bind_ok_inv in H. destruct H as ([name rest] & C & H).
  apply bind_ok_inv in H. destruct H as (u2 & G2 & H). apply guard_eqb_inv in G2.
  apply bind_ok_inv in H. destruct H as (pts & D & H). apply Ok_inj in H. subst m.
  destruct (read_name_chunk_inv c _ _ _ C G2) as (pre & -> & Lp & M). subst name.
  apply is_bytes_app in B. destruct B as [_ B]. apply is_bytes_app in B. destruct B as [Bs B].
  specialize (M B). subst pre.
  apply is_bytes_app in B. destruct B as [_ B]. apply is_bytes_app in B. destruct B as [_ Brest].
  unfold decodePoints in D.
  apply bind_ok_inv in D. destruct D as (u3 & G3 & D). apply guard_ok_inv in G3. apply Nat.eqb_eq in G3.
  apply bind_ok_inv in D. destruct D as (xs & X & D).
  apply bind_ok_inv in D. destruct D as (signs & Sg & D).
  apply decodePoints_xs_inv in X. cbn [skipn] in X.
  apply slice_inv in Sg. destruct Sg as (_ & _ & Sg).
  set (n := (evaluatorCiphertextCount * byteLen c)%nat) in *.
  assert (Esig : signs = skipn n rest).
  { rewrite Sg. apply firstn_all2. rewrite skipn_length. lia. }
  clear Sg. set (xsb := firstn n rest).
  assert (Er : rest = xsb ++ signs) by (rewrite Esig; symmetry; apply firstn_skipn).
  assert (Lxsb : length xsb = (byteLen c * evaluatorCiphertextCount)%nat).
  { unfold xsb. rewrite firstn_length. unfold n in *. lia. }
  assert (Lsig : length signs = evaluatorChoiceSignBytes).
  { rewrite Esig, skipn_length. unfold n in *. lia. }
  assert (Bx : is_bytes xsb) by (apply is_bytes_firstn; exact Brest).
  assert (Bsig : is_bytes signs) by (rewrite Esig; apply is_bytes_skipn; exact Brest).
  assert (X' : xs = split_be (byteLen c) evaluatorCiphertextCount xsb).
  { rewrite X, Er. apply split_be_app. exact Lxsb. }
  destruct (flat_split_be (byteLen c) evaluatorCiphertextCount xsb Lxsb Bx) as [Efl Ffl].
  rewrite <- X' in Efl, Ffl.
  assert (Lxs : length xs = evaluatorCiphertextCount) by (rewrite X'; apply split_be_length).
  assert (Lbits : length (bytesToBitsLittle signs) = evaluatorCiphertextCount).
  { rewrite bytesToBitsLittle_length, Lsig. reflexivity. }
  apply (decodePoints_pts_inv dec c signs S) in D.
  2:{ rewrite Lxs, Lsig. change evaluatorCiphertextCount with 256%nat. change evaluatorChoiceSignBytes with 32%nat. lia. }
  destruct D as (Mf & Mo & F).
  cbn [skipn] in Mo. rewrite Lxs, <- Lbits, firstn_all in Mo.
  assert (Lpts : length pts = evaluatorCiphertextCount) by (rewrite <- Lxs, <- Mf, map_length; reflexivity).
  split; [|split].
  - unfold EncodeRound2, encodePoints. cbn [r2_sid r2_choices].
    rewrite Lpts, Nat.eqb_refl. cbn [guard bind].
    rewrite Mf, write_fixed_list_ok by exact Ffl. cbn [bind].
    unfold packPointSigns. rewrite Mo, (bits_bytes_roundtrip signs Bsig), Lsig, Nat.eqb_refl. cbn [guard bind].
    rewrite Efl, write_chunk_name. rewrite <- Ls at 1. rewrite be_s_of_be_s by exact Bs.
    rewrite Er. reflexivity.
  - repeat split; cbn [r2_sid r2_name r2_choices]; try assumption.
    + pose proof (of_be_s_fits sid Bs) as Fs. rewrite Ls in Fs. exact Fs.
    + rewrite <- Mf in Ffl. rewrite Forall_map in Ffl.
      rewrite Forall_forall in *. intros p Hp. split; [apply Ffl; exact Hp|apply (F p Hp)].
  - cbn [r2_choices]. eapply Forall_impl; [|exact F]. intros p [_ Hon]. exact Hon.
Qed.

(* ---- the checker the harness runs on every answer of
   elliptic.UnmarshalCompressed (run_c18 kind 9): an answer it classifies as
   UCAccept is an instance of the conclusion of decompress_sound, and
   compressing the point gives back exactly the input bytes *)
Theorem unmarshal_accept_sound c pre xb y x' y' : is_bytes xb ->
  unmarshal_compressed c (pre :: xb) (Some y) = UCAccept x' y' ->
  x' = of_be_s xb /\ y' = y /\ N.odd y' = (pre =? 3) /\ on_curve c (x', y') = true /\
  compress c x' (N.odd y') = pre :: xb.
Proof.
  intros B H. unfold unmarshal_compressed in H.
  destruct ((length xb =? byteLen c)%nat && ((pre =? 2) || (pre =? 3))) eqn:E1; cbn [negb] in H; [|discriminate].
  apply andb_prop in E1. destruct E1 as [EL EP]. apply Nat.eqb_eq in EL.
  destruct (curve_p c <=? of_be_s xb) eqn:E2; [discriminate|]. apply N.leb_gt in E2.
  destruct ((y <? curve_p c) && (y * y mod curve_p c =? curve_rhs c (of_be_s xb)) && Bool.eqb (N.odd y) (pre =? 3)) eqn:E3;
    [|discriminate].
  injection H as <- <-.
  apply andb_prop in E3. destruct E3 as [E3 Epar]. apply andb_prop in E3. destruct E3 as [Ey Eeq].
  apply Bool.eqb_prop in Epar.
  repeat split; try assumption.
  - unfold on_curve. cbn [fst snd]. rewrite Ey, Eeq. apply N.ltb_lt in E2. rewrite E2. reflexivity.
  - unfold compress. rewrite Epar, <- EL, be_s_of_be_s by exact B. f_equal.
    apply orb_prop in EP. destruct EP as [EP|EP]; apply N.eqb_eq in EP; subst pre; reflexivity.
Qed.

(* everything but 0x02 / 0x03 ‖ byteLen bytes with X below the field prime is
   rejected whatever the implementation answers: wrong prefix byte (0x00, 0x04,
   0x05, ...), wrong length (incl. empty, all-zero "infinity" encodings of
   other lengths), X >= p *)
Theorem unmarshal_rejects_noncanonical c data answer :
  (match data with
   | [] => True
   | pre :: xb => length xb <> byteLen c \/ (pre <> 2 /\ pre <> 3) \/ curve_p c <= of_be_s xb
   end) ->
  unmarshal_compressed c data answer = UCReject.
Proof.
  destruct data as [|pre xb]; intros H; [reflexivity|]. unfold unmarshal_compressed.
  destruct H as [H|[[H2 H3]|H]].
  - apply Nat.eqb_neq in H. rewrite H. reflexivity.
  - apply N.eqb_neq in H2. apply N.eqb_neq in H3. rewrite H2, H3, andb_false_r. reflexivity.
  - destruct (negb _); [reflexivity|]. apply N.leb_le in H. rewrite H. reflexivity.
Qed.

(* non-vacuity: a decompression function that satisfies decompress_sound and
   accepts a point on every curve (the base point) *)
Definition dec_base : curve -> N -> bool -> option (N * N) := fun c x odd =>
  let g := curve_g c in
  if (x =? fst g) && Bool.eqb odd (N.odd (snd g)) then Some g else None.

Lemma base_on_curve c : on_curve c (curve_g c) = true.
Proof. destruct c; vm_compute; reflexivity. Qed.

Example decompress_sound_inhabited :
  decompress_sound dec_base /\
  forall c, dec_base c (fst (curve_g c)) (N.odd (snd (curve_g c))) = Some (curve_g c).
Proof.
  split.
  - intros c x odd P H. unfold dec_base in H.
    destruct ((x =? fst (curve_g c)) && Bool.eqb odd (N.odd (snd (curve_g c)))) eqn:E; [|discriminate].
    injection H as <-. apply andb_prop in E. destruct E as [E1 E2].
    apply N.eqb_eq in E1. apply Bool.eqb_prop in E2. repeat split; [congruence|congruence|apply base_on_curve].
  - intros c. unfold dec_base. rewrite N.eqb_refl, Bool.eqb_reflx. reflexivity.
Qed.

Lemma base_fits c : fits (byteLen c) (fst (curve_g c)).
Proof. unfold fits. destruct c; vm_compute; reflexivity. Qed.

(* ... and Round2 byte strings that the decoder accepts under it exist on
   every curve (so r2_canonical is not vacuous) *)
Example r2_canonical_inhabited : chunk_limit_ok -> forall c,
  exists bs m, DecodeRound2 dec_base c bs = Ok m.
Proof.
  intros L c.
  set (m := mkR2 7 (curve_name c) (repeat (curve_g c) evaluatorCiphertextCount)).
  destruct (r2_roundtrip L dec_base c m) as (b & _ & D & _).
  - unfold wf_r2, m. cbn [r2_sid r2_name r2_choices].
    split; [vm_compute; reflexivity|]. split; [reflexivity|]. split; [apply repeat_length|].
    apply Forall_forall. intros p Hp. apply repeat_spec in Hp. subst p. split; [apply base_fits|].
    apply (proj2 decompress_sound_inhabited).
  - exists b, m. exact D.
Qed.

(* ====================================================================== *)
(* (B) the rounds with their validation                                    *)

Lemma vbind_ok_inv {A B} (r : vres A) (f : A -> vres B) b :
  vbind r f = VOk b -> exists a, r = VOk a /\ f a = VOk b.
Proof. destruct r; cbn; intros H; try discriminate. eexists; split; [reflexivity|exact H]. Qed.

Lemma vguard_ok_inv b e u : vguard b e = VOk u -> b = true.
Proof. destruct b; [reflexivity|discriminate]. Qed.

Lemma vbind_np {A B} (r : vres A) (f : A -> vres B) :
  r <> VPanic -> (forall a, r = VOk a -> f a <> VPanic) -> vbind r f <> VPanic.
Proof. destruct r; cbn; intros H1 H2; [apply H2; reflexivity|discriminate|contradiction]. Qed.

Lemma vguard_np b e : vguard b e <> VPanic.
Proof. destruct b; discriminate. Qed.

Lemma of_res_np {A} e (r : res A) : r <> Panic -> of_res e r <> VPanic.
Proof. destruct r; cbn; intros H; [discriminate|discriminate|contradiction]. Qed.

Lemma of_res_ok_inv {A} e (r : res A) a : of_res e r = VOk a -> r = Ok a.
Proof. destruct r; cbn; intros H; try discriminate. injection H as <-. reflexivity. Qed.

Lemma erase_vbind {A B} (r : vres A) (f : A -> vres B) :
  erase (vbind r f) = bind (erase r) (fun a => erase (f a)).
Proof. destruct r; reflexivity. Qed.

Lemma erase_vguard b e : erase (vguard b e) = guard b.
Proof. destruct b; reflexivity. Qed.

Lemma erase_of_res {A} e (r : res A) : erase (of_res e r) = r.
Proof. destruct r; reflexivity. Qed.

Lemma bitFromLabel_np w l : bitFromLabel w l <> Panic.
Proof. unfold bitFromLabel. destruct (l =? fst w); [discriminate|]. destruct (l =? snd w); discriminate. Qed.

Lemma decode_outputs_v_np : forall hints ls, decode_outputs_v hints ls <> VPanic.
Proof.
  induction hints as [|w ws IH]; intros ls; cbn [decode_outputs_v]; [discriminate|].
  apply vbind_np; [apply of_res_np, bitFromLabel_np|]. intros b _.
  apply vbind_np; [apply IH|]. intros bs _. discriminate.
Qed.

Lemma erase_decode_outputs : forall hints ls, erase (decode_outputs_v hints ls) = decode_outputs hints ls.
Proof.
  induction hints as [|w ws IH]; intros ls; cbn [decode_outputs_v decode_outputs]; [reflexivity|].
  rewrite erase_vbind, erase_of_res. destruct (bitFromLabel w (hd 0 ls)); cbn [bind]; try reflexivity.
  rewrite erase_vbind, IH. destruct (decode_outputs ws (tl ls)); reflexivity.
Qed.

Lemma decode_outputs_v_length : forall hints ls bits,
  decode_outputs_v hints ls = VOk bits -> length bits = length hints.
Proof.
  induction hints as [|w ws IH]; intros ls bits H; cbn [decode_outputs_v] in H.
  - injection H as <-. reflexivity.
  - apply vbind_ok_inv in H. destruct H as (b & _ & H).
    apply vbind_ok_inv in H. destruct H as (bs & R & H). injection H as <-.
    cbn [length]. f_equal. eapply IH; exact R.
Qed.

Lemma check_name_np c name : check_name c name <> Panic.
Proof. unfold check_name. destruct (bytes_eqb _ _); discriminate. Qed.

Lemma write_fixed_list_np bl vs : Forall (fits bl) vs -> write_fixed_list bl vs <> Panic.
Proof. intros F. rewrite write_fixed_list_ok by exact F. discriminate. Qed.

(* the encoders reach Panic only through writeFixedBigInt on a value that
   does not fit the curve's field width *)
Lemma EncodeRound1_np c m : fits (byteLen c) (r1_ax m) -> fits (byteLen c) (r1_ay m) ->
  EncodeRound1 c m <> Panic.
Proof.
  intros Fx Fy. unfold EncodeRound1, encodeOTSetup.
  apply bind_not_panic; [|intros ot _; discriminate].
  apply bind_not_panic; [apply check_name_np|]. intros n _.
  rewrite !write_fixed_ok by assumption. cbn [bind]. discriminate.
Qed.

Lemma EncodeGarblerSession_np c s :
  Forall (fits (byteLen c)) [gs_scalar s; gs_ax s; gs_ay s; gs_ainvx s; gs_ainvy s] ->
  EncodeGarblerSession c s <> Panic.
Proof.
  intros F. unfold EncodeGarblerSession, encodeCOSenderSetup.
  apply bind_not_panic; [|intros st _; discriminate].
  apply bind_not_panic; [apply check_name_np|]. intros n _.
  apply bind_not_panic; [apply write_fixed_list_np; exact F|]. intros fs _. discriminate.
Qed.

Lemma EncodeRound2_np c m : Forall (fits (byteLen c)) (map fst (r2_choices m)) -> EncodeRound2 c m <> Panic.
Proof.
  intros F. unfold EncodeRound2, encodePoints.
  apply bind_not_panic; [|intros pts _; discriminate].
  apply bind_not_panic; [apply guard_not_panic|]. intros _ _.
  apply bind_not_panic; [apply write_fixed_list_np; exact F|]. intros xs _.
  apply bind_not_panic; [apply guard_not_panic|]. intros _ _. discriminate.
Qed.

Lemma EncodeEvaluatorSession_np c s :
  fits (byteLen c) (es_ax s) -> fits (byteLen c) (es_ay s) -> Forall (fits (byteLen c)) (es_scalars s) ->
  EncodeEvaluatorSession c s <> Panic.
Proof.
  intros Fx Fy F. unfold EncodeEvaluatorSession, encodeChoiceBundle.
  apply bind_not_panic; [|intros d _; discriminate].
  apply bind_not_panic; [apply check_name_np|]. intros n _.
  apply bind_not_panic; [apply write_fixed_list_np; repeat constructor; assumption|]. intros a _.
  apply bind_not_panic; [apply guard_not_panic|]. intros _ _.
  apply bind_not_panic; [apply guard_not_panic|]. intros _ _.
  apply bind_not_panic; [apply write_fixed_list_np; exact F|]. intros ss _.
  apply bind_not_panic; [apply guard_not_panic|]. intros _ _. discriminate.
Qed.

Lemma EncodeRound3_np m : EncodeRound3 m <> Panic.
Proof.
  unfold EncodeRound3, EncodeRound3_gen.
  do 5 (apply bind_not_panic; [apply guard_not_panic|]; intros _ _). discriminate.
Qed.

Lemma es_scalars_len c bs s : DecodeEvaluatorSession c bs = Ok s ->
  length (es_scalars s) = evaluatorCiphertextCount.
Proof.
  intros H. apply es_inv in H. destruct H as (sid8 & pre1 & pre2 & fa & fsc & raw & H). cbv zeta in H.
  destruct H as (_ & _ & _ & _ & Lfsc & _ & _ & _ & _ & -> & _).
  cbn [es_scalars]. rewrite map_length. exact Lfsc.
Qed.

Section VProofs.
  Variable RND : Type.
  Variable gen_sender_core : RND -> curve -> vres (N * (N * N) * (N * N)).
  Variable read_sid_core : RND -> vres N.
  Variable choices_core : RND -> curve -> N -> N -> list bool -> vres (list N * list (N * N)).
  Variable read_key_core : RND -> vres bytes.
  Variable garble_core : RND -> bytes -> vres (list (N * N) * list (N * N) * list (N * N) * list N).
  Variable encrypt_core : curve -> gsession -> list (N * N) -> list (N * N) -> list (N * N).
  Variable decrypt_core : curve -> esession -> list (N * N) -> list N.
  Variable eval_core : bytes -> list N -> list N -> list N -> vres (list N).
  Variable decompress : curve -> N -> bool -> option (N * N).

  Notation GR1 := (GarblerRound1_v RND gen_sender_core read_sid_core).
  Notation ER2 := (EvaluatorRound2_v RND choices_core).
  Notation GR3 := (GarblerRound3_v RND read_key_core garble_core encrypt_core).
  Notation ER4 := (EvaluatorRound4_v decrypt_core eval_core).
  Notation step1 := (garbler_step1 RND gen_sender_core read_sid_core).
  Notation step2 := (evaluator_step2 RND choices_core).
  Notation step3 := (garbler_step3 RND read_key_core garble_core encrypt_core decompress).
  Notation step4 := (evaluator_step4 decrypt_core eval_core).

  (* ---- what an Ok result implies (for ALL cores): never Ok on a nil
     argument, another session id, another curve name, or points that are not
     on the curve the round is run with *)
  Theorem round1_ok_inv orng oc m1 gs : GR1 orng oc = VOk (m1, gs) ->
    exists rng c, orng = Some rng /\ oc = Some c /\
      r1_name m1 = curve_name c /\ gs_name gs = curve_name c /\ r1_sid m1 = gs_sid gs /\
      r1_ax m1 = gs_ax gs /\ r1_ay m1 = gs_ay gs.
  Proof.
    unfold GarblerRound1_v. destruct orng as [rng|]; [|discriminate]. destruct oc as [c|]; [|discriminate].
    intros H. apply vbind_ok_inv in H. destruct H as ([[a [ax ay]] [ix iy]] & _ & H).
    apply vbind_ok_inv in H. destruct H as (sid & _ & H). injection H as <- <-.
    exists rng, c. repeat split.
  Qed.

  Theorem round2_ok_inv orng oc msg b m2 es : ER2 orng oc msg b = VOk (m2, es) ->
    exists rng c scalars points, orng = Some rng /\ oc = Some c /\
      r1_name msg = curve_name c /\ on_curve c (r1_ax msg, r1_ay msg) = true /\
      choices_core rng c (r1_ax msg) (r1_ay msg) (bytesToBitsLittle b) = VOk (scalars, points) /\
      m2 = mkR2 (r1_sid msg) (curve_name c) points /\
      es = mkES (r1_sid msg) (curve_name c) (r1_ax msg) (r1_ay msg) scalars (bytesToBitsLittle b).
  Proof.
    unfold EvaluatorRound2_v. destruct orng as [rng|]; [|discriminate]. destruct oc as [c|]; [|discriminate].
    intros H. apply vbind_ok_inv in H. destruct H as (u1 & G1 & H). apply vguard_ok_inv in G1.
    apply bytes_eqb_eq in G1.
    apply vbind_ok_inv in H. destruct H as (u2 & _ & H).
    apply vbind_ok_inv in H. destruct H as ([scalars points] & Bc & H). injection H as <- <-.
    unfold BuildCOChoices_v in Bc. apply vbind_ok_inv in Bc. destruct Bc as (u3 & G3 & Bc).
    apply vguard_ok_inv in G3.
    exists rng, c, scalars, points. repeat split; assumption.
  Qed.

  Theorem round3_ok_inv orng oc ost sn a req m3 : GR3 orng oc ost sn a req = VOk m3 ->
    exists rng c st, orng = Some rng /\ oc = Some c /\ ost = Some st /\ sn = false /\
      r2_sid req = gs_sid st /\ r3_sid m3 = gs_sid st /\
      on_curve c (gs_ax st, gs_ay st) = true /\ on_curve c (gs_ainvx st, gs_ainvy st) = true /\
      forallb (on_curve c) (r2_choices req) = true.
  Proof.
    unfold GarblerRound3_v. destruct orng as [rng|]; [|discriminate]. destruct ost as [st|]; [|discriminate].
    destruct sn; [discriminate|]. destruct oc as [c|]; [|discriminate].
    intros H. apply vbind_ok_inv in H. destruct H as (u1 & G1 & H). apply vguard_ok_inv in G1. apply N.eqb_eq in G1.
    apply vbind_ok_inv in H. destruct H as (key & _ & H).
    apply vbind_ok_inv in H. destruct H as ([[[gin ein] outw] tables] & _ & H).
    apply vbind_ok_inv in H. destruct H as (u2 & _ & H).
    apply vbind_ok_inv in H. destruct H as (cts & E & H). injection H as <-.
    unfold EncryptCOCiphertexts_v in E.
    apply vbind_ok_inv in E. destruct E as (u3 & G3 & E). apply vguard_ok_inv in G3.
    apply vbind_ok_inv in E. destruct E as (u4 & G4 & E). apply vguard_ok_inv in G4.
    apply vbind_ok_inv in E. destruct E as (u5 & _ & E).
    apply vbind_ok_inv in E. destruct E as (u6 & G6 & E). apply vguard_ok_inv in G6.
    exists rng, c, st. repeat split; assumption.
  Qed.

  Theorem round4_ok_inv oc ost msg d : ER4 oc ost msg = VOk d ->
    exists c st, oc = Some c /\ ost = Some st /\ es_scalars st <> [] /\ r3_sid msg = es_sid st /\
      length (es_scalars st) = length (es_bits st) /\ length (r3_cts msg) = length (es_bits st) /\
      on_curve c (es_ax st, es_ay st) = true /\ length (r3_hints msg) = outputHintCount /\
      length d = 32%nat.
  Proof.
    unfold EvaluatorRound4_v. destruct ost as [st|]; [|discriminate].
    destruct (length (es_scalars st) =? 0)%nat eqn:E0; [discriminate|]. destruct oc as [c|]; [|discriminate].
    intros H. apply vbind_ok_inv in H. destruct H as (u1 & G1 & H). apply vguard_ok_inv in G1. apply N.eqb_eq in G1.
    apply vbind_ok_inv in H. destruct H as (labels & D & H).
    apply vbind_ok_inv in H. destruct H as (outl & _ & H).
    apply vbind_ok_inv in H. destruct H as (u2 & G2 & H). apply vguard_ok_inv in G2. apply Nat.eqb_eq in G2.
    apply vbind_ok_inv in H. destruct H as (bits & _ & H).
    apply vbind_ok_inv in H. destruct H as (u3 & G3 & H). apply vguard_ok_inv in G3. apply Nat.eqb_eq in G3.
    injection H as <-.
    unfold DecryptCOCiphertexts_v in D.
    apply vbind_ok_inv in D. destruct D as (u4 & G4 & D). apply vguard_ok_inv in G4.
    apply andb_prop in G4. destruct G4 as [G4a G4b]. apply Nat.eqb_eq in G4a. apply Nat.eqb_eq in G4b.
    apply vbind_ok_inv in D. destruct D as (u5 & G5 & D). apply vguard_ok_inv in G5.
    exists c, st. repeat split; try assumption.
    intros En. rewrite En in E0. discriminate.
  Qed.

  (* ---- the NAMED error of every validation step, in the order of the code *)
  Theorem rounds_named_errors :
    (* GarblerRound1 *)
    (forall oc, GR1 None oc = VErr ENilRandom) /\
    (forall rng, GR1 (Some rng) None = VErr ENilCurve) /\
    (* EvaluatorRound2 *)
    (forall oc msg b, ER2 None oc msg b = VErr ENilRandom) /\
    (forall rng msg b, ER2 (Some rng) None msg b = VErr ENilCurve) /\
    (forall rng c msg b, r1_name msg <> curve_name c -> ER2 (Some rng) (Some c) msg b = VErr ECurveMismatch) /\
    (forall rng c msg b, r1_name msg = curve_name c -> length b = 32%nat ->
       on_curve c (r1_ax msg, r1_ay msg) = false -> ER2 (Some rng) (Some c) msg b = VErr EPointNotOnCurve) /\
    (* GarblerRound3 *)
    (forall oc ost sn a req, GR3 None oc ost sn a req = VErr ENilRandom) /\
    (forall rng oc sn a req, GR3 (Some rng) oc None sn a req = VErr EInvalidGarblerSession) /\
    (forall rng oc st a req, GR3 (Some rng) oc (Some st) true a req = VErr EInvalidGarblerSession) /\
    (forall rng st a req, GR3 (Some rng) None (Some st) false a req = VErr ENilCurve) /\
    (forall rng c st a req, r2_sid req <> gs_sid st ->
       GR3 (Some rng) (Some c) (Some st) false a req = VErr ESessionMismatch) /\
    (* EvaluatorRound4 *)
    (forall oc msg, ER4 oc None msg = VErr EInvalidEvaluatorState) /\
    (forall oc st msg, es_scalars st = [] -> ER4 oc (Some st) msg = VErr EInvalidEvaluatorState) /\
    (forall st msg, es_scalars st <> [] -> ER4 None (Some st) msg = VErr ENilCurve) /\
    (forall c st msg, es_scalars st <> [] -> r3_sid msg <> es_sid st ->
       ER4 (Some c) (Some st) msg = VErr ESessionMismatch) /\
    (forall c st msg, es_scalars st <> [] -> r3_sid msg = es_sid st ->
       (length (es_scalars st) <> length (es_bits st) \/ length (r3_cts msg) <> length (es_bits st)) ->
       ER4 (Some c) (Some st) msg = VErr EBundle) /\
    (forall c st msg, es_scalars st <> [] -> r3_sid msg = es_sid st ->
       length (es_scalars st) = length (es_bits st) -> length (r3_cts msg) = length (es_bits st) ->
       on_curve c (es_ax st, es_ay st) = false -> ER4 (Some c) (Some st) msg = VErr EPointNotOnCurve).
  Proof.
    assert (NE : forall st, es_scalars st <> [] -> (length (es_scalars st) =? 0)%nat = false).
    { intros st H. destruct (es_scalars st); [contradiction|reflexivity]. }
    repeat match goal with |- _ /\ _ => split end.
    - reflexivity.
    - reflexivity.
    - reflexivity.
    - reflexivity.
    - intros rng c msg b H. unfold EvaluatorRound2_v. rewrite (bytes_eqb_neq _ _ H). reflexivity.
    - intros rng c msg b Hn Lb Hc. unfold EvaluatorRound2_v. rewrite Hn, bytes_eqb_refl. cbn [vguard vbind].
      rewrite bytesToBitsLittle_length, Lb. change (8 * 32 =? hashInputBitCount)%nat with true. cbn [vguard vbind].
      unfold BuildCOChoices_v. rewrite Hc. reflexivity.
    - reflexivity.
    - reflexivity.
    - reflexivity.
    - reflexivity.
    - intros rng c st a req H. unfold GarblerRound3_v. apply N.eqb_neq in H. rewrite H. reflexivity.
    - reflexivity.
    - intros oc st msg H. unfold EvaluatorRound4_v. rewrite H. reflexivity.
    - intros st msg H. unfold EvaluatorRound4_v. rewrite (NE st H). reflexivity.
    - intros c st msg H Hs. unfold EvaluatorRound4_v. rewrite (NE st H). apply N.eqb_neq in Hs. rewrite Hs. reflexivity.
    - intros c st msg H Hs Hl. unfold EvaluatorRound4_v. rewrite (NE st H), Hs, N.eqb_refl. cbn [vguard vbind].
      unfold DecryptCOCiphertexts_v.
      replace ((length (es_scalars st) =? length (es_bits st))%nat && (length (r3_cts msg) =? length (es_bits st))%nat)
        with false; [reflexivity|].
      symmetry. apply andb_false_iff. destruct Hl as [Hl|Hl]; [left|right]; apply Nat.eqb_neq; exact Hl.
    - intros c st msg H Hs L1 L2 Hc. unfold EvaluatorRound4_v. rewrite (NE st H), Hs, N.eqb_refl. cbn [vguard vbind].
      unfold DecryptCOCiphertexts_v. rewrite L1, L2, !Nat.eqb_refl. cbn [andb vguard vbind]. rewrite Hc. reflexivity.
  Qed.

  (* ---- totality: Ok or a named error, never Panic *)
  Section Total.
    Hypothesis gen_np : forall rng c, gen_sender_core rng c <> VPanic.
    Hypothesis sid_np : forall rng, read_sid_core rng <> VPanic.
    Hypothesis choices_np : forall rng c ax ay bits, choices_core rng c ax ay bits <> VPanic.
    Hypothesis key_np : forall rng, read_key_core rng <> VPanic.
    Hypothesis garble_np : forall rng key, garble_core rng key <> VPanic.
    Hypothesis eval_np : forall key ins labels tables, eval_core key ins labels tables <> VPanic.

    Lemma GR1_total orng oc : GR1 orng oc <> VPanic.
    Proof.
      unfold GarblerRound1_v. destruct orng as [rng|]; [|discriminate]. destruct oc as [c|]; [|discriminate].
      apply vbind_np; [apply gen_np|]. intros [[a [ax ay]] [ix iy]] _.
      apply vbind_np; [apply sid_np|]. intros sid _. discriminate.
    Qed.

    Lemma ER2_total orng oc msg b : ER2 orng oc msg b <> VPanic.
    Proof.
      unfold EvaluatorRound2_v. destruct orng as [rng|]; [|discriminate]. destruct oc as [c|]; [|discriminate].
      apply vbind_np; [apply vguard_np|]. intros _ _.
      apply vbind_np; [apply vguard_np|]. intros _ _.
      apply vbind_np; [|intros [sc pts] _; discriminate].
      unfold BuildCOChoices_v. apply vbind_np; [apply vguard_np|]. intros _ _. apply choices_np.
    Qed.

    Lemma GR3_total orng oc ost sn a req : GR3 orng oc ost sn a req <> VPanic.
    Proof.
      unfold GarblerRound3_v. destruct orng as [rng|]; [|discriminate]. destruct ost as [st|]; [|discriminate].
      destruct sn; [discriminate|]. destruct oc as [c|]; [|discriminate].
      apply vbind_np; [apply vguard_np|]. intros _ _.
      apply vbind_np; [apply key_np|]. intros key _.
      apply vbind_np; [apply garble_np|]. intros [[[gin ein] outw] tables] _.
      apply vbind_np; [apply vguard_np|]. intros _ _.
      apply vbind_np; [|intros cts _; discriminate].
      unfold EncryptCOCiphertexts_v.
      do 4 (apply vbind_np; [apply vguard_np|]; intros _ _). discriminate.
    Qed.

    Lemma ER4_total oc ost msg : ER4 oc ost msg <> VPanic.
    Proof.
      unfold EvaluatorRound4_v. destruct ost as [st|]; [|discriminate].
      destruct (length (es_scalars st) =? 0)%nat; [discriminate|]. destruct oc as [c|]; [|discriminate].
      apply vbind_np; [apply vguard_np|]. intros _ _.
      apply vbind_np.
      { unfold DecryptCOCiphertexts_v. do 2 (apply vbind_np; [apply vguard_np|]; intros _ _). discriminate. }
      intros labels _.
      apply vbind_np; [apply eval_np|]. intros outl _.
      apply vbind_np; [apply vguard_np|]. intros _ _.
      apply vbind_np; [apply decode_outputs_v_np|]. intros bits _.
      apply vbind_np; [apply vguard_np|]. intros _ _. discriminate.
    Qed.

    Theorem rounds_total :
      (forall orng oc, GR1 orng oc <> VPanic) /\
      (forall orng oc msg b, ER2 orng oc msg b <> VPanic) /\
      (forall orng oc ost sn a req, GR3 orng oc ost sn a req <> VPanic) /\
      (forall oc ost msg, ER4 oc ost msg <> VPanic).
    Proof. exact (conj GR1_total (conj ER2_total (conj GR3_total ER4_total))). Qed.

    (* byte level, rounds 3 and 4: EVERY pair of byte strings (any list of
       numbers, even) as stored session and incoming message *)
    Theorem steps34_total :
      (forall orng oc gsb a msg2, step3 orng oc gsb a msg2 <> VPanic) /\
      (forall oc esb msg3, step4 oc esb msg3 <> VPanic).
    Proof.
      split.
      - intros orng oc gsb a msg2. unfold garbler_step3. destruct oc as [c|]; [|discriminate].
        apply vbind_np; [apply of_res_np, no_panic_gs|]. intros gs _.
        apply vbind_np; [apply of_res_np, no_panic_r2|]. intros m2 _.
        apply vbind_np; [apply GR3_total|]. intros m3 _. apply of_res_np, EncodeRound3_np.
      - intros oc esb msg3. unfold evaluator_step4. destruct oc as [c|]; [|discriminate].
        apply vbind_np; [apply of_res_np, no_panic_es|]. intros es _.
        apply vbind_np; [apply of_res_np, no_panic_r3|]. intros m3 _. apply ER4_total.
    Qed.

    (* byte level, rounds 1 and 2: the results are encoded with
       writeFixedBigInt, which panics on a value wider than the field — the
       sampled scalars and computed coordinates must fit (they are reduced
       mod N / field elements in the implementation) *)
    Hypothesis gen_fit : forall rng c a ax ay ix iy,
      gen_sender_core rng c = VOk (a, (ax, ay), (ix, iy)) -> Forall (fits (byteLen c)) [a; ax; ay; ix; iy].
    Hypothesis choices_fit : forall rng c ax ay bits scalars points,
      choices_core rng c ax ay bits = VOk (scalars, points) ->
      Forall (fits (byteLen c)) scalars /\ Forall (fits (byteLen c)) (map fst points).

    Theorem steps12_total :
      (forall orng oc, step1 orng oc <> VPanic) /\
      (forall orng oc msg1 b, is_bytes msg1 -> step2 orng oc msg1 b <> VPanic).
    Proof.
      split.
      - intros orng oc. unfold garbler_step1. apply vbind_np; [apply GR1_total|]. intros [m1 gs] H.
        unfold GarblerRound1_v in H. destruct orng as [rng|]; [|discriminate]. destruct oc as [c|]; [|discriminate].
        apply vbind_ok_inv in H. destruct H as ([[a [ax ay]] [ix iy]] & G & H).
        apply vbind_ok_inv in H. destruct H as (sid & _ & H). injection H as <- <-.
        pose proof (gen_fit _ _ _ _ _ _ _ G) as F.
        inversion F as [|? ? Fa F1]; subst. inversion F1 as [|? ? Fax F2]; subst. inversion F2 as [|? ? Fay F3]; subst.
        apply vbind_np; [apply of_res_np, EncodeRound1_np; assumption|]. intros b1 _.
        apply vbind_np; [apply of_res_np, EncodeGarblerSession_np; exact F|]. intros bs _. discriminate.
      - intros orng oc msg1 b B. unfold evaluator_step2. destruct oc as [c|]; [|discriminate].
        apply vbind_np; [apply of_res_np, no_panic_r1|]. intros m1 D. apply of_res_ok_inv in D.
        destruct (r1_canonical c msg1 m1 B D) as [_ (_ & _ & Fx & Fy)].
        apply vbind_np; [apply ER2_total|]. intros [m2 es] H.
        apply round2_ok_inv in H. destruct H as (rng & c' & scalars & points & _ & Ec & _ & _ & Ch & -> & ->).
        injection Ec as <-.
        destruct (choices_fit _ _ _ _ _ _ _ Ch) as [Fs Fp].
        apply vbind_np; [apply of_res_np, EncodeRound2_np; exact Fp|]. intros b2 _.
        apply vbind_np; [apply of_res_np, EncodeEvaluatorSession_np; assumption|]. intros bs _. discriminate.
    Qed.
  End Total.

  (* ---- byte level: what an Ok result implies *)
  Theorem step2_ok_inv orng oc msg1 b out : step2 orng oc msg1 b = VOk out ->
    exists rng c m1, orng = Some rng /\ oc = Some c /\ DecodeRound1 c msg1 = Ok m1 /\
      on_curve c (r1_ax m1, r1_ay m1) = true.
  Proof.
    unfold evaluator_step2. destruct oc as [c|]; [|discriminate]. intros H.
    apply vbind_ok_inv in H. destruct H as (m1 & D & H). apply of_res_ok_inv in D.
    apply vbind_ok_inv in H. destruct H as ([m2 es] & R & _).
    apply round2_ok_inv in R. destruct R as (rng & c' & _ & _ & -> & Ec & _ & On & _). injection Ec as <-.
    exists rng, c, m1. repeat split; assumption.
  Qed.

  Theorem step3_ok_inv orng oc gsb a msg2 out : step3 orng oc gsb a msg2 = VOk out ->
    exists rng c gs m2, orng = Some rng /\ oc = Some c /\
      DecodeGarblerSession c gsb = Ok gs /\ DecodeRound2 decompress c msg2 = Ok m2 /\
      r2_sid m2 = gs_sid gs /\
      on_curve c (gs_ax gs, gs_ay gs) = true /\ on_curve c (gs_ainvx gs, gs_ainvy gs) = true /\
      forallb (on_curve c) (r2_choices m2) = true.
  Proof.
    unfold garbler_step3. destruct oc as [c|]; [|discriminate]. intros H.
    apply vbind_ok_inv in H. destruct H as (gs & D1 & H). apply of_res_ok_inv in D1.
    apply vbind_ok_inv in H. destruct H as (m2 & D2 & H). apply of_res_ok_inv in D2.
    apply vbind_ok_inv in H. destruct H as (m3 & R & _).
    apply round3_ok_inv in R. destruct R as (rng & c' & st & -> & Ec & Es & _ & Sid & _ & O1 & O2 & O3).
    injection Ec as <-. injection Es as <-.
    exists rng, c, gs, m2. repeat split; assumption.
  Qed.

  Theorem step4_ok_inv oc esb msg3 d : step4 oc esb msg3 = VOk d ->
    exists c es m3, oc = Some c /\ DecodeEvaluatorSession c esb = Ok es /\ DecodeRound3 msg3 = Ok m3 /\
      r3_sid m3 = es_sid es /\ on_curve c (es_ax es, es_ay es) = true /\ length d = 32%nat.
  Proof.
    unfold evaluator_step4. destruct oc as [c|]; [|discriminate]. intros H.
    apply vbind_ok_inv in H. destruct H as (es & D1 & H). apply of_res_ok_inv in D1.
    apply vbind_ok_inv in H. destruct H as (m3 & D2 & H). apply of_res_ok_inv in D2.
    apply round4_ok_inv in H. destruct H as (c' & st & Ec & Es & _ & Sid & _ & _ & On & _ & Ld).
    injection Ec as <-. injection Es as <-.
    exists c, es, m3. repeat split; assumption.
  Qed.

  (* ---- byte level: a stored session or incoming message that its decoder
     does not accept is answered with EDecode *)
  Lemma step2_decode_fail orng c msg1 b : DecodeRound1 c msg1 = Err -> step2 orng (Some c) msg1 b = VErr EDecode.
  Proof. intros H. unfold evaluator_step2. rewrite H. reflexivity. Qed.

  Lemma step3_decode_fail orng c gsb a msg2 :
    DecodeGarblerSession c gsb = Err \/ DecodeRound2 decompress c msg2 = Err ->
    step3 orng (Some c) gsb a msg2 = VErr EDecode.
  Proof.
    intros H. unfold garbler_step3. pose proof (no_panic_gs c gsb) as NP.
    destruct (DecodeGarblerSession c gsb) as [gs| |] eqn:G; cbn [of_res vbind].
    - destruct H as [H|H]; [discriminate|]. rewrite H. reflexivity.
    - reflexivity.
    - exfalso. apply NP. reflexivity.
  Qed.

  Lemma step4_decode_fail c esb msg3 :
    DecodeEvaluatorSession c esb = Err \/ DecodeRound3 msg3 = Err -> step4 (Some c) esb msg3 = VErr EDecode.
  Proof.
    intros H. unfold evaluator_step4. pose proof (no_panic_es c esb) as NP.
    destruct (DecodeEvaluatorSession c esb) as [es| |] eqn:G; cbn [of_res vbind].
    - destruct H as [H|H]; [discriminate|]. rewrite H. reflexivity.
    - reflexivity.
    - exfalso. apply NP. reflexivity.
  Qed.

  (* bytes of another round / another kind of state (another magic) *)
  Theorem steps_reject_wrong_round c orng :
    (forall msg1 b, firstn 2 msg1 <> magicRound1 -> step2 orng (Some c) msg1 b = VErr EDecode) /\
    (forall gsb a msg2, firstn 2 gsb <> magicGarblerSession \/ firstn 2 msg2 <> magicRound2 ->
       step3 orng (Some c) gsb a msg2 = VErr EDecode) /\
    (forall esb msg3, firstn 2 esb <> magicEvalSession \/ firstn 2 msg3 <> magicRound3 ->
       step4 (Some c) esb msg3 = VErr EDecode).
  Proof.
    repeat split.
    - intros msg1 b H. apply step2_decode_fail, reject_magic_r1, H.
    - intros gsb a msg2 [H|H]; apply step3_decode_fail; [left; apply reject_magic_gs, H|right; apply reject_magic_r2, H].
    - intros esb msg3 [H|H]; apply step4_decode_fail; [left; apply reject_magic_es, H|right; apply reject_magic_r3, H].
  Qed.

  (* the encoding of EVERY well-formed message / session of another curve *)
  Theorem steps_reject_other_curve : chunk_limit_ok -> forall c c' orng, c <> c' ->
    (forall m msg1 b, wf_r1 c m -> EncodeRound1 c m = Ok msg1 -> step2 orng (Some c') msg1 b = VErr EDecode) /\
    (forall gsb a m msg2, EncodeRound2 c m = Ok msg2 -> step3 orng (Some c') gsb a msg2 = VErr EDecode) /\
    (forall s gsb a msg2, wf_gs c s -> EncodeGarblerSession c s = Ok gsb ->
       step3 orng (Some c') gsb a msg2 = VErr EDecode) /\
    (forall s esb msg3, wf_es c s -> EncodeEvaluatorSession c s = Ok esb ->
       step4 (Some c') esb msg3 = VErr EDecode).
  Proof.
    intros L c c' orng Hc. repeat split.
    - intros m msg1 b W E. apply step2_decode_fail. exact (reject_curve_r1 L c c' m msg1 Hc W E).
    - intros gsb a m msg2 E. apply step3_decode_fail. right. exact (reject_curve_r2 L decompress c c' m msg2 Hc E).
    - intros s gsb a msg2 W E. apply step3_decode_fail. left. exact (reject_curve_gs L c c' s gsb Hc W E).
    - intros s esb msg3 W E. apply step4_decode_fail. left. exact (reject_curve_es L c c' s esb Hc W E).
  Qed.

  (* a message of another session (the decoders cannot know the expected id) *)
  Theorem steps_reject_other_session c rng :
    (forall gsb a msg2 gs m2, DecodeGarblerSession c gsb = Ok gs -> DecodeRound2 decompress c msg2 = Ok m2 ->
       r2_sid m2 <> gs_sid gs -> step3 (Some rng) (Some c) gsb a msg2 = VErr ESessionMismatch) /\
    (forall esb msg3 es m3, DecodeEvaluatorSession c esb = Ok es -> DecodeRound3 msg3 = Ok m3 ->
       r3_sid m3 <> es_sid es -> step4 (Some c) esb msg3 = VErr ESessionMismatch).
  Proof.
    split.
    - intros gsb a msg2 gs m2 D1 D2 H. unfold garbler_step3. rewrite D1, D2. cbn [of_res vbind].
      unfold GarblerRound3_v. apply N.eqb_neq in H. rewrite H. reflexivity.
    - intros esb msg3 es m3 D1 D2 H. unfold evaluator_step4. rewrite D1, D2. cbn [of_res vbind].
      unfold EvaluatorRound4_v. rewrite (es_scalars_len _ _ _ D1).
      change (evaluatorCiphertextCount =? 0)%nat with false. cbv iota.
      apply N.eqb_neq in H. rewrite H. reflexivity.
  Qed.

  (* ---- the validated rounds are the rounds of Sha2pcCodec.v (about which
     C18_resume / C18_protocol_correct speak) with the opaque functions
     instantiated by (validation ; core), the error names forgotten *)
  Definition old_build_choices (c : curve) : RND -> N -> N -> list bool -> res (list N * list (N * N)) :=
    fun rng ax ay bits => erase (BuildCOChoices_v RND choices_core rng c ax ay bits).
  Definition old_garble : RND -> bytes -> res (list (N * N) * list (N * N) * list (N * N) * list N) :=
    fun rng key => erase (garble_core rng key).
  Definition old_encrypt (c : curve) : gsession -> list (N * N) -> list (N * N) -> res (list (N * N)) :=
    fun st pts ein => erase (EncryptCOCiphertexts_v encrypt_core c st pts ein).
  Definition old_decrypt (c : curve) : esession -> list (N * N) -> res (list N) :=
    fun st cts => erase (DecryptCOCiphertexts_v decrypt_core c st cts).
  Definition old_eval : bytes -> list N -> list N -> list N -> res (list N) :=
    fun key ins labels tables => erase (eval_core key ins labels tables).
  Definition old_read_key : RND -> bytes :=
    fun rng => match read_key_core rng with VOk k => k | _ => [] end.
  Definition old_gen_sender (c : curve) : RND -> N * (N * N) * (N * N) :=
    fun rng => match gen_sender_core rng c with VOk g => g | _ => (0, (0, 0), (0, 0)) end.
  Definition old_read_sid : RND -> N :=
    fun rng => match read_sid_core rng with VOk s => s | _ => 0 end.

  Theorem rounds_refine_codec_model c rng :
    (forall g s, gen_sender_core rng c = VOk g -> read_sid_core rng = VOk s ->
       GR1 (Some rng) (Some c) = VOk (GarblerRound1 RND c (old_gen_sender c) old_read_sid rng)) /\
    (forall msg b,
       erase (ER2 (Some rng) (Some c) msg b) = EvaluatorRound2 RND c (old_build_choices c) rng msg b) /\
    (forall k st a req, read_key_core rng = VOk k ->
       erase (GR3 (Some rng) (Some c) (Some st) false a req)
       = GarblerRound3 RND old_read_key old_garble (old_encrypt c) rng st a req) /\
    (forall st msg,
       erase (ER4 (Some c) (Some st) msg) = EvaluatorRound4 (old_decrypt c) old_eval st msg).
  Proof.
    repeat split.
    - intros g s G S0. unfold GarblerRound1_v, GarblerRound1, old_gen_sender, old_read_sid. rewrite G, S0.
      destruct g as [[a [ax ay]] [ix iy]]. reflexivity.
    - intros msg b. unfold EvaluatorRound2_v, EvaluatorRound2, old_build_choices.
      rewrite erase_vbind, erase_vguard. destruct (guard (bytes_eqb (r1_name msg) (curve_name c))); cbn [bind]; try reflexivity.
      rewrite erase_vbind, erase_vguard.
      destruct (guard (length (bytesToBitsLittle b) =? hashInputBitCount)%nat); cbn [bind]; try reflexivity.
      rewrite erase_vbind.
      destruct (erase (BuildCOChoices_v RND choices_core rng c (r1_ax msg) (r1_ay msg) (bytesToBitsLittle b)))
        as [[sc pts]| |]; reflexivity.
    - intros k st a req K. unfold GarblerRound3_v, GarblerRound3, old_read_key, old_garble, old_encrypt.
      rewrite erase_vbind, erase_vguard. destruct (guard (r2_sid req =? gs_sid st)); cbn [bind]; try reflexivity.
      rewrite K. cbn [vbind]. rewrite erase_vbind.
      destruct (erase (garble_core rng k)) as [[[[gin ein] outw] tables]| |]; cbn [bind]; try reflexivity.
      rewrite erase_vbind, erase_vguard.
      destruct (guard (length (bytesToBitsLittle a) =? hashInputBitCount)%nat); cbn [bind]; try reflexivity.
      rewrite erase_vbind.
      destruct (erase (EncryptCOCiphertexts_v encrypt_core c st (r2_choices req) ein)); reflexivity.
    - intros st msg. unfold EvaluatorRound4_v, EvaluatorRound4, old_decrypt, old_eval.
      destruct (length (es_scalars st) =? 0)%nat; cbn [negb guard bind erase]; [reflexivity|].
      rewrite erase_vbind, erase_vguard. destruct (guard (r3_sid msg =? es_sid st)); cbn [bind]; try reflexivity.
      rewrite erase_vbind.
      destruct (erase (DecryptCOCiphertexts_v decrypt_core c st (r3_cts msg))) as [labels| |]; cbn [bind]; try reflexivity.
      rewrite erase_vbind.
      destruct (erase (eval_core (r3_key msg) (r3_inputs msg) labels (r3_tables msg))) as [outl| |]; cbn [bind]; try reflexivity.
      rewrite erase_vbind, erase_vguard.
      destruct (guard (length (r3_hints msg) =? outputHintCount)%nat); cbn [bind]; try reflexivity.
      rewrite erase_vbind, erase_decode_outputs.
      destruct (decode_outputs (r3_hints msg) outl) as [bits| |]; cbn [bind]; try reflexivity.
      rewrite erase_vbind, erase_vguard.
      destruct (guard (length (bitsToBytesLittle bits) =? 32)%nat); reflexivity.
  Qed.
End VProofs.

(* ---- non-vacuity of the hypotheses of rounds_total / steps12_total: cores
   that never panic and whose outputs fit, and under which every round
   reaches Ok on some input *)
Definition nvv_gen (_ : unit) (c : curve) : vres (N * (N * N) * (N * N)) :=
  VOk (1, curve_g c, curve_g c).
Definition nvv_sid (_ : unit) : vres N := VOk 7.
Definition nvv_choices (_ : unit) (c : curve) (_ _ : N) (bits : list bool) : vres (list N * list (N * N)) :=
  VOk (repeat 1 (length bits), repeat (curve_g c) (length bits)).
Definition nvv_key (_ : unit) : vres bytes := VOk (repeat 0 garblingKeyBytes).
Definition nvv_garble (_ : unit) (_ : bytes) : vres (list (N * N) * list (N * N) * list (N * N) * list N) :=
  VOk (repeat (0, 1) hashInputBitCount, repeat (0, 1) hashInputBitCount, repeat (0, 1) outputHintCount, []).
Definition nvv_eval (_ : bytes) (_ _ _ : list N) : vres (list N) := VOk (repeat 0 outputHintCount).

Lemma base_fits2 c : fits (byteLen c) (snd (curve_g c)).
Proof. unfold fits. destruct c; vm_compute; reflexivity. Qed.

Example rounds_total_hypotheses_inhabited :
  (forall rng c, nvv_gen rng c <> VPanic) /\ (forall rng, nvv_sid rng <> VPanic) /\
  (forall rng c ax ay bits, nvv_choices rng c ax ay bits <> VPanic) /\ (forall rng, nvv_key rng <> VPanic) /\
  (forall rng key, nvv_garble rng key <> VPanic) /\ (forall key i l t, nvv_eval key i l t <> VPanic) /\
  (forall rng c a ax ay ix iy,
     nvv_gen rng c = VOk (a, (ax, ay), (ix, iy)) -> Forall (fits (byteLen c)) [a; ax; ay; ix; iy]) /\
  (forall rng c ax ay bits scalars points,
     nvv_choices rng c ax ay bits = VOk (scalars, points) ->
     Forall (fits (byteLen c)) scalars /\ Forall (fits (byteLen c)) (map fst points)).
Proof.
  assert (F1 : forall c, fits (byteLen c) 1) by (intros c; unfold fits; destruct c; vm_compute; reflexivity).
  repeat split; try discriminate.
  - intros rng c a ax ay ix iy H. unfold nvv_gen in H. destruct (curve_g c) as [gx gy] eqn:G.
    injection H as <- <- <- <- <-.
    pose proof (base_fits c) as Fx. pose proof (base_fits2 c) as Fy. rewrite G in Fx, Fy. cbn [fst snd] in Fx, Fy.
    repeat constructor; try assumption. apply F1.
  - injection H as <- _. apply Forall_forall. intros x Hx. apply repeat_spec in Hx. subst x. apply F1.
  - injection H as _ <-. apply Forall_forall. intros x Hx. apply in_map_iff in Hx. destruct Hx as (p & <- & Hp).
    apply repeat_spec in Hp. subst p. apply base_fits.
Qed.

(* every round reaches Ok under these cores (so the Ok-inversion theorems and
   the refinement theorem are not about empty sets) *)
Example rounds_reach_ok : forall c,
  (exists r, GarblerRound1_v unit nvv_gen nvv_sid (Some tt) (Some c) = VOk r) /\
  (exists r, EvaluatorRound2_v unit nvv_choices (Some tt) (Some c)
               (mkR1 7 (curve_name c) (fst (curve_g c)) (snd (curve_g c))) (repeat 0%N 32%nat) = VOk r).
Proof.
  intros c. split.
  - unfold GarblerRound1_v, nvv_gen, nvv_sid. destruct (curve_g c) as [gx gy]. cbn [vbind]. eexists. reflexivity.
  - unfold EvaluatorRound2_v. cbn [r1_name r1_ax r1_ay r1_sid]. rewrite bytes_eqb_refl. cbn [vguard vbind].
    change (length (bytesToBitsLittle (repeat 0%N 32%nat)) =? hashInputBitCount)%nat with true. cbn [vguard vbind].
    unfold BuildCOChoices_v. rewrite <- surjective_pairing, base_on_curve. cbn [vguard vbind].
    unfold nvv_choices. cbn [vbind]. eexists. reflexivity.
Qed.

Lemma forallb_repeat {A} (f : A -> bool) x : f x = true -> forall n, forallb f (repeat x n) = true.
Proof. intros H. induction n as [|n IH]; [reflexivity|]. cbn [repeat forallb]. rewrite H, IH. reflexivity. Qed.

(* ... rounds 3 and 4 too *)
Example rounds_reach_ok34 : forall c,
  (exists r, GarblerRound3_v unit nvv_key nvv_garble (fun _ _ _ _ => []) (Some tt) (Some c)
               (Some (mkGS 7 (curve_name c) 1 (fst (curve_g c)) (snd (curve_g c)) (fst (curve_g c)) (snd (curve_g c))))
               false (repeat 0%N 32%nat)
               (mkR2 7 (curve_name c) (repeat (curve_g c) hashInputBitCount)) = VOk r) /\
  (exists d, EvaluatorRound4_v (fun _ _ _ => []) nvv_eval (Some c)
               (Some (mkES 7 (curve_name c) (fst (curve_g c)) (snd (curve_g c)) (repeat 1 2%nat) (repeat false 2%nat)))
               (mkR3 7 [] [] [] (repeat (0, 1) outputHintCount) (repeat (0, 0) 2%nat)) = VOk d).
Proof.
  intros c. split.
  - unfold GarblerRound3_v. cbn [r2_sid gs_sid r2_choices]. change (7 =? 7) with true. cbn [vguard vbind].
    unfold nvv_key. cbn [vbind]. unfold nvv_garble. cbn [vbind].
    change (length (bytesToBitsLittle (repeat 0%N 32%nat)) =? hashInputBitCount)%nat with true. cbn [vguard vbind].
    unfold EncryptCOCiphertexts_v. cbn [gs_ax gs_ay gs_ainvx gs_ainvy].
    rewrite <- surjective_pairing, base_on_curve. cbn [vguard vbind].
    rewrite !repeat_length, Nat.eqb_refl. cbn [vguard vbind].
    rewrite (forallb_repeat _ _ (base_on_curve c)). cbn [vguard vbind]. eexists. reflexivity.
  - unfold EvaluatorRound4_v. cbn [es_scalars es_sid es_bits es_ax es_ay r3_sid r3_cts r3_key r3_inputs r3_tables r3_hints].
    cbn [repeat length Nat.eqb]. change (7 =? 7) with true. cbn [vguard vbind].
    unfold DecryptCOCiphertexts_v. cbn [es_scalars es_bits es_ax es_ay repeat length Nat.eqb andb vguard vbind].
    rewrite <- surjective_pairing, base_on_curve. cbn [vguard vbind].
    unfold nvv_eval. cbn [vbind]. rewrite repeat_length, Nat.eqb_refl. cbn [vguard vbind].
    vm_compute. eexists. reflexivity.
Qed.
