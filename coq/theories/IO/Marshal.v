(* Marshal.v — executable model of
     circuit/marshal.go : Circuit.Marshal, marshalIOArg, marshalString, Circuit.MarshalBristol
     circuit/parser.go  : Seen, ParseMPCLC, parseIOArg, parseString, ParseBristol, readLine
     types/types.go     : Type.String, Info.Concrete, Info.String
     types/parse.go     : Parse
   Bytes are [N] (< 256).  Parsers are total functions
       list byte -> Ok circuit | Err | Panic | Fuel
   [Panic] marks the places where the Go code indexes without a bounds check;
   [Fuel] marks exhaustion of the explicit recursion fuel (MarshalProof.v shows
   that it never happens).  No proofs in this file.

   Library behaviour written into the model (trusted, see props/C14.json):
   * bufio.Reader with the default 4096-byte buffer over a reader that
     returns as much as is asked for (bytes.Reader, regular files):
     [bread] = one bufio.Reader.Read, [read_full] = io.ReadFull (what
     binary.Read uses), [read_byte] = ReadByte.
   * regexp.MustCompilePOSIX: `^` and `$` are *line* anchors, `.` excludes
     '\n'; the three expressions used are confined to one line, hence the
     leftmost match is the first matching line.
   * strings.TrimSpace (Unicode aware), strconv.Atoi / ParseInt / ParseUint.
   Integers: header fields are uint32 (wrap written in [be32]); types.Size is
   int32 ([wrap32]); Go `int` is 64 bit and is modelled unbounded: the sums
   formed by the parsers have fewer than |input| terms below 2^32.
   Huge allocations (make(Seen, NumWires), make([]Gate, NumGates),
   make([]byte, ui32) in parseString) are not panics and are not modelled. *)
From Coq Require Import ZArith NArith List Bool Arith Lia MSets.MSetPositive.
From Mpc Require Import Gen.Consts Circuit.Circuit.
Import ListNotations.
Open Scope N_scope.

Notation byte := N (only parsing).

Inductive res (A : Type) : Type :=
| Ok (a : A)
| Err
| Panic
| Fuel.
Arguments Ok {A} a.
Arguments Err {A}.
Arguments Panic {A}.
Arguments Fuel {A}.

Definition bind {A B} (r : res A) (f : A -> res B) : res B :=
  match r with Ok a => f a | Err => Err | Panic => Panic | Fuel => Fuel end.
Notation "'do' x <- r ; k" := (bind r (fun x => k)) (at level 200, x pattern, r at level 100, k at level 200).

Definition nlen {A} (l : list A) : N := N.of_nat (length l).
Definition zeros (n : N) : list byte := N.iter n (cons 0) [].

(* ------------------------------------------------------------------ *)
(* data *)

Record gateN := mkG { g_op : op; g_in0 : N; g_in1 : N; g_out : N }.

(* types.Info: Type, IsConcrete, Bits, MinBits, Struct (field types), ElementType, ArraySize.
   ID, Offset and field names play no role in the file formats. *)
Inductive info :=
| mkInfo (ty : Z) (conc : bool) (bits minbits : Z) (strct : list info) (elem : option info) (asize : Z).

Definition i_ty (i : info) := match i with mkInfo t _ _ _ _ _ _ => t end.
Definition i_conc (i : info) := match i with mkInfo _ c _ _ _ _ _ => c end.
Definition i_bits (i : info) := match i with mkInfo _ _ b _ _ _ _ => b end.
Definition i_minbits (i : info) := match i with mkInfo _ _ _ m _ _ _ => m end.
Definition i_struct (i : info) := match i with mkInfo _ _ _ _ s _ _ => s end.
Definition i_elem (i : info) := match i with mkInfo _ _ _ _ _ e _ => e end.
Definition i_asize (i : info) := match i with mkInfo _ _ _ _ _ _ a => a end.
Definition set_bits (i : info) (b : Z) : info :=
  match i with mkInfo t c _ m s e a => mkInfo t c b m s e a end.

(* circuit.IOArg *)
Inductive ioarg := mkIO (name : list byte) (ty : info) (comp : list ioarg).
Definition a_name (a : ioarg) := match a with mkIO n _ _ => n end.
Definition a_type (a : ioarg) := match a with mkIO _ t _ => t end.
Definition a_comp (a : ioarg) := match a with mkIO _ _ c => c end.

(* circuit.Circuit *)
Record fcircuit := mkFC {
  c_numgates : Z;
  c_numwires : Z;
  c_inputs : list ioarg;
  c_outputs : list ioarg;
  c_gates : list gateN
}.

(* IO.Size *)
Definition io_size (l : list ioarg) : Z :=
  fold_left (fun s a => (s + i_bits (a_type a))%Z) l 0%Z.

(* ------------------------------------------------------------------ *)
(* integers *)

Definition be32 (n : N) : list byte :=
  [ (n / 16777216) mod 256; (n / 65536) mod 256; (n / 256) mod 256; n mod 256 ].
Definition of_be32 (l : list byte) : N :=
  match l with
  | [a; b; c; d] => ((a * 256 + b) * 256 + c) * 256 + d
  | _ => 0
  end.
(* uint32(x) for a Go int x *)
Definition u32 (z : Z) : N := Z.to_N (z mod 4294967296).
(* int32(x) *)
Definition wrap32 (z : Z) : Z := ((z + 2147483648) mod 4294967296 - 2147483648)%Z.

(* fmt %d *)
Fixpoint dec_aux (fuel : nat) (n : N) (acc : list byte) : list byte :=
  match fuel with
  | O => acc
  | S f => let acc' := (48 + n mod 10) :: acc in
           if n / 10 =? 0 then acc' else dec_aux f (n / 10) acc'
  end.
Definition dec_N (n : N) : list byte := dec_aux (S (N.to_nat (N.size n))) n [].
Definition dec_Z (z : Z) : list byte :=
  if (z <? 0)%Z then 45 :: dec_N (Z.to_N (- z)) else dec_N (Z.to_N z).

Definition is_digit (b : byte) : bool := (48 <=? b) && (b <=? 57).
Definition is_alpha (b : byte) : bool := ((65 <=? b) && (b <=? 90)) || ((97 <=? b) && (b <=? 122)).

Definition digits_val (l : list byte) : N := fold_left (fun a d => a * 10 + (d - 48)) l 0.

(* strconv: digits+ *)
Definition all_digits (l : list byte) : bool :=
  match l with [] => false | _ => forallb is_digit l end.

(* strconv.ParseUint(s, 10, 32) *)
Definition parse_uint32 (l : list byte) : option N :=
  if all_digits l then let v := digits_val l in if v <? 4294967296 then Some v else None else None.

(* strconv.ParseInt(s, 10, bits) / Atoi: sign? digits+, range check *)
Definition parse_int (lo hi : Z) (l : list byte) : option Z :=
  let '(neg, ds) := match l with
                    | c :: t => if c =? 43 then (false, t) else if c =? 45 then (true, t) else (false, l)
                    | [] => (false, l)
                    end in
  if all_digits ds then
    let v := Z.of_N (digits_val ds) in
    let v := if neg then (- v)%Z else v in
    if ((lo <=? v) && (v <=? hi))%Z then Some v else None
  else None.
Definition atoi := parse_int (-9223372036854775808)%Z 9223372036854775807%Z.
Definition parse_int32 := parse_int (-2147483648)%Z 2147483647%Z.

(* ------------------------------------------------------------------ *)
(* types/types.go *)

Definition str (s : list nat) : list byte := map N.of_nat s.
(* ASCII spelled out so that no String library is needed *)
Definition s_bool := [98;111;111;108].
Definition s_int := [105;110;116].
Definition s_uint := [117;105;110;116].
Definition s_float := [102;108;111;97;116].
Definition s_string := [115;116;114;105;110;103].
Definition s_struct := [115;116;114;117;99;116].
Definition s_array := [97;114;114;97;121].
Definition s_slice := [115;108;105;99;101].
Definition s_ptr := [112;116;114].
Definition s_nil := [110;105;108].
Definition s_undefined := [60;85;110;100;101;102;105;110;101;100;62].   (* <Undefined> *)
Definition s_byte := [98;121;116;101].
Definition s_rune := [114;117;110;101].
Definition s_lnil := [60;110;105;108;62].                               (* <nil> *)

(* Type.String *)
Definition type_string (t : Z) : list byte :=
  if (t =? types_TUndefined)%Z then s_undefined
  else if (t =? types_TBool)%Z then s_bool
  else if (t =? types_TInt)%Z then s_int
  else if (t =? types_TUint)%Z then s_uint
  else if (t =? types_TFloat)%Z then s_float
  else if (t =? types_TString)%Z then s_string
  else if (t =? types_TStruct)%Z then s_struct
  else if (t =? types_TArray)%Z then s_array
  else if (t =? types_TSlice)%Z then s_slice
  else if (t =? types_TPtr)%Z then s_ptr
  else if (t =? types_TNil)%Z then s_nil
  else [123;84;121;112;101;32] ++ dec_Z t ++ [125].                     (* {Type %d} *)

(* Info.Concrete *)
Fixpoint concrete (i : info) : bool :=
  match i with
  | mkInfo t c _ _ st _ _ => if (t =? types_TStruct)%Z then forallb concrete st else c
  end.

(* Info.String *)
Fixpoint info_string (i : info) : list byte :=
  match i with
  | mkInfo t c b _ st el az =>
      let es := match el with Some e => info_string e | None => s_lnil end in
      if (t =? types_TArray)%Z then [91] ++ dec_Z az ++ [93] ++ es
      else if (t =? types_TSlice)%Z then [91; 93] ++ es
      else if (t =? types_TPtr)%Z then [42] ++ es
      else if concrete i then type_string t ++ dec_Z b
      else type_string t
  end.

(* ------------------------------------------------------------------ *)
(* types/parse.go *)

Definition list_eqb (a b : list byte) : bool :=
  (length a =? length b)%nat && forallb (fun p => fst p =? snd p) (combine a b).

(* span p l = (longest prefix satisfying p, rest) *)
Fixpoint span (p : byte -> bool) (l : list byte) : list byte * list byte :=
  match l with
  | [] => ([], [])
  | x :: t => if p x then let '(a, r) := span p t in (x :: a, r) else ([], l)
  end.

(* text split at '\n' (the lines between which ^ and $ match) *)
Fixpoint split_nl (l : list byte) : list (list byte) :=
  match l with
  | [] => [[]]
  | x :: t =>
      match split_nl t with
      | cur :: more => if x =? 10 then [] :: cur :: more else (x :: cur) :: more
      | [] => [[x]]
      end
  end.

Fixpoint first_some {A B} (f : A -> option B) (l : list A) : option B :=
  match l with
  | [] => None
  | x :: t => match f x with Some y => Some y | None => first_some f t end
  end.

(* reSized: line start, one or more [[:alpha:]] (group 1), zero or more [[:digit:]] (group 2), line end *)
Definition match_sized (line : list byte) : option (list byte * list byte) :=
  let '(a, r) := span is_alpha line in
  let '(d, r2) := span is_digit r in
  match a, r2 with
  | _ :: _, [] => Some (a, d)
  | _, _ => None
  end.

(* reArr: line start, '[', zero or more [[:digit:]] (group 1), ']', one or more non-newline (group 2), line end *)
Definition match_arr (line : list byte) : option (list byte * list byte) :=
  match line with
  | c :: t =>
      if c =? 91 then
        let '(d, r) := span is_digit t in
        match r with
        | c2 :: (x :: m2) => if c2 =? 93 then Some (d, x :: m2) else None
        | _ => None
        end
      else None
  | [] => None
  end.

Definition sized_type (name : list byte) : option Z :=
  if list_eqb name [98] || list_eqb name s_bool then Some types_TBool
  else if list_eqb name [105] || list_eqb name s_int then Some types_TInt
  else if list_eqb name [117] || list_eqb name s_uint then Some types_TUint
  else if list_eqb name [115] || list_eqb name s_string then Some types_TString
  else if list_eqb name s_struct then Some types_TStruct
  else None.

Definition info_Bool := mkInfo types_TBool true 1 1 [] None 0.
Definition info_Byte := mkInfo types_TUint true 8 8 [] None 0.
Definition info_Rune := mkInfo types_TInt true 32 32 [] None 0.

(* types.Parse; fuel: the recursion is on m[2], a proper part of val *)
Fixpoint types_parse (fuel : nat) (val : list byte) : res info :=
  match fuel with
  | O => Fuel
  | S f =>
      if list_eqb val [98] || list_eqb val s_bool then Ok info_Bool
      else if list_eqb val s_byte then Ok info_Byte
      else if list_eqb val s_rune then Ok info_Rune
      else
        let lines := split_nl val in
        match first_some match_sized lines with
        | Some (name, ds) =>
            match sized_type name with
            | None => Err
            | Some t =>
                match ds with
                | [] => Ok (mkInfo t false 0 0 [] None 0)
                | _ => match parse_int32 ds with
                       | None => Err
                       | Some b => Ok (mkInfo t true b b [] None 0)
                       end
                end
            end
        | None =>
            match first_some match_arr lines with
            | None => Err
            | Some (ds, m2) =>
                do el <- types_parse f m2;
                match ds with
                | [] => Ok (mkInfo types_TSlice true 0 0 [] (Some el) 0)
                | _ => match parse_int32 ds with
                       | None => Err
                       | Some n =>
                           let b := wrap32 (n * i_bits el) in
                           Ok (mkInfo types_TArray true b b [] (Some el) n)
                       end
                end
            end
        end
  end.
Definition Parse (val : list byte) : res info := types_parse (S (length val)) val.

(* ------------------------------------------------------------------ *)
(* circuit/marshal.go *)

Definition marshal_string (s : list byte) : list byte := be32 (nlen s mod 4294967296) ++ s.

Fixpoint marshal_ioarg (a : ioarg) : list byte :=
  match a with
  | mkIO name t comp =>
      marshal_string name ++ marshal_string (info_string t) ++
      be32 (u32 (i_bits t)) ++ be32 (nlen comp mod 4294967296) ++ flat_map marshal_ioarg comp
  end.

Definition op_code (o : op) : N :=
  Z.to_N (match o with XOR => circuit_XOR | XNOR => circuit_XNOR | AND => circuit_AND
                     | OR => circuit_OR | INV => circuit_INV end).

Definition marshal_gate (g : gateN) : list byte :=
  match g_op g with
  | INV => [op_code INV] ++ be32 (g_in0 g) ++ be32 (g_out g)
  | o => [op_code o] ++ be32 (g_in0 g) ++ be32 (g_in1 g) ++ be32 (g_out g)
  end.

Definition Marshal (c : fcircuit) : list byte :=
  be32 (Z.to_N circuit_MAGIC) ++ be32 (u32 (c_numgates c)) ++ be32 (u32 (c_numwires c)) ++
  be32 (nlen (c_inputs c) mod 4294967296) ++ be32 (nlen (c_outputs c) mod 4294967296) ++
  flat_map marshal_ioarg (c_inputs c) ++ flat_map marshal_ioarg (c_outputs c) ++
  flat_map marshal_gate (c_gates c).

Definition op_name (o : op) : list byte :=
  match o with
  | XOR => [88;79;82] | XNOR => [88;78;79;82] | AND => [65;78;68] | OR => [79;82] | INV => [73;78;86]
  end.

Definition bristol_ioline (l : list ioarg) : list byte :=
  dec_N (nlen l) ++ flat_map (fun a => 32 :: dec_Z (i_bits (a_type a))) l ++ [10].

Definition bristol_gate (g : gateN) : list byte :=
  match g_op g with
  | INV => [49; 32; 49; 32] ++ dec_N (g_in0 g) ++ [32] ++ dec_N (g_out g) ++ [32] ++ op_name INV ++ [10]
  | o => [50; 32; 49; 32] ++ dec_N (g_in0 g) ++ [32] ++ dec_N (g_in1 g) ++ [32] ++ dec_N (g_out g) ++
         [32] ++ op_name o ++ [10]
  end.

Definition MarshalBristol (c : fcircuit) : list byte :=
  dec_Z (c_numgates c) ++ [32] ++ dec_Z (c_numwires c) ++ [10] ++
  bristol_ioline (c_inputs c) ++ bristol_ioline (c_outputs c) ++ [10] ++
  flat_map bristol_gate (c_gates c).

(* Circuit.MarshalFormat: the format-dispatching wrapper (used by compiler/ssa/circuitgen.go for
   Params.CircOut/CircFormat and by apps/garbled).  None = "unsupported circuit format" and
   nothing is written. *)
Definition s_mpclc : list byte := [109;112;99;108;99].
Definition s_bristol : list byte := [98;114;105;115;116;111;108].
Definition MarshalFormat (format : list byte) (c : fcircuit) : option (list byte) :=
  if list_eqb format s_mpclc then Some (Marshal c)
  else if list_eqb format s_bristol then Some (MarshalBristol c)
  else None.

(* ------------------------------------------------------------------ *)
(* bufio.Reader over a bytes.Reader: (bytes not yet consumed, how many of them are buffered) *)

Definition rd := (list byte * N)%type.
Definition bufsize : N := 4096.

(* one bufio.Reader.Read(p), len(p) = n > 0.  None = (0, io.EOF) *)
Definition bread (n : N) (r : rd) : option (list byte * rd) :=
  let '(rem, b) := r in
  if b =? 0 then
    match rem with
    | [] => None
    | _ =>
        if bufsize <=? n then                   (* large read, empty buffer: directly from the source *)
          let k := N.to_nat (N.min n (nlen rem)) in
          Some (firstn k rem, (skipn k rem, 0))
        else                                    (* one fill, then copy *)
          let b' := N.min bufsize (nlen rem) in
          let k := N.min n b' in
          Some (firstn (N.to_nat k) rem, (skipn (N.to_nat k) rem, b' - k))
    end
  else
    let k := N.min n b in
    Some (firstn (N.to_nat k) rem, (skipn (N.to_nat k) rem, b - k)).

(* io.ReadFull(r, buf) with len(buf) = need: loop of Read calls; every call
   delivers at least one byte or fails *)
Fixpoint read_full_loop (fuel : nat) (need : N) (r : rd) (acc : list byte) : res (list byte * rd) :=
  if need =? 0 then Ok (acc, r) else
  match fuel with
  | O => Fuel
  | S f =>
      match bread need r with
      | None => Err                             (* io.EOF / io.ErrUnexpectedEOF *)
      | Some (d, r') => read_full_loop f (need - nlen d) r' (acc ++ d)
      end
  end.
Definition read_full (n : N) (r : rd) : res (list byte * rd) :=
  read_full_loop (S (length (fst r))) n r [].

(* ReadByte.  None = io.EOF *)
Definition read_byte (r : rd) : option (byte * rd) :=
  let '(rem, b) := r in
  match rem with
  | [] => None
  | x :: t => let b' := if b =? 0 then N.min bufsize (nlen rem) else b in Some (x, (t, b' - 1))
  end.

Definition read_u32 (r : rd) : res (N * rd) :=
  do (l, r') <- read_full 4 r; Ok (of_be32 l, r').

(* parseString.  fx = true: the code as it is now (io.ReadFull, commit dace4fa).
   fx = false: before that commit (one Read, count ignored: the tail of buf
   stays zero) — regression record of finding F10. *)
Definition parse_string (fx : bool) (r : rd) : res (list byte * rd) :=
  do (n, r1) <- read_u32 r;
  if n =? 0 then Ok ([], r1)
  else if fx then read_full n r1
  else match bread n r1 with
       | None => Err
       | Some (d, r2) => Ok (d ++ zeros (n - nlen d), r2)
       end.

(* for i := 0; i < int(cnt); i++ { a, err := p(r); ...; l = append(l, a) } *)
Fixpoint repeat_parse {A} (p : rd -> res (A * rd)) (fuel : nat) (cnt : N) (r : rd) : res (list A * rd) :=
  if cnt =? 0 then Ok ([], r) else
  match fuel with
  | O => Fuel
  | S g =>
      do (a, r') <- p r;
      do (l, r'') <- repeat_parse p g (cnt - 1) r';
      Ok (a :: l, r'')
  end.

(* parseIOArg *)
Fixpoint parse_ioarg (fx : bool) (fuel : nat) (r : rd) : res (ioarg * rd) :=
  match fuel with
  | O => Fuel
  | S f =>
      do (name, r1) <- parse_string fx r;
      do (t, r2) <- parse_string fx r1;
      do (bits, r3) <- read_u32 r2;
      do ti <- Parse t;
      let ti := set_bits ti (wrap32 (Z.of_N bits)) in
      do (cnt, r4) <- read_u32 r3;
      do (comp, r5) <- repeat_parse (parse_ioarg fx f) f cnt r4;
      Ok (mkIO name ti comp, r5)
  end.

Definition parse_ioargs (fx : bool) (fuel : nat) (cnt : N) (r : rd) : res (list ioarg * rd) :=
  repeat_parse (parse_ioarg fx fuel) fuel cnt r.

(* Seen: length and the set of wires marked *)
Record seen := mkSeen { s_len : N; s_set : PositiveSet.t }.
Definition seen_get (s : seen) (i : N) : option bool :=
  if s_len s <=? i then None else Some (PositiveSet.mem (N.succ_pos i) (s_set s)).
Definition seen_set (s : seen) (i : N) : option seen :=
  if s_len s <=? i then None else Some (mkSeen (s_len s) (PositiveSet.add (N.succ_pos i) (s_set s))).

(* the output side of a gate (commit 407ba55): `if int(Output) < inputWires { "gate overwrites
   input wire" }` and then wiresSeen.Set(Output) with its range error; both are errors *)
Definition seen_set_chk (iw : Z) (s : seen) (o : N) : option seen :=
  if (Z.of_N o <? iw)%Z then None else seen_set s o.

Fixpoint nrange (start : N) (n : nat) : list N :=
  match n with O => [] | S k => start :: nrange (start + 1) k end.

(* for i := 0; i < inputWires; i++ { wiresSeen.Set(Wire(i)) } *)
Definition mark_inputs (s : seen) (inputWires : Z) : option seen :=
  if (Z.of_N (s_len s) <? inputWires)%Z then None
  else Some (mkSeen (s_len s)
               (fold_left (fun st i => PositiveSet.add (N.succ_pos i) st) (nrange 0 (Z.to_nat inputWires)) (s_set s))).

(* for i := 0; i < len(wiresSeen); i++ { if !wiresSeen[i] ... } *)
Definition all_seen (s : seen) : bool :=
  forallb (fun i => PositiveSet.mem (N.succ_pos i) (s_set s)) (nrange 0 (N.to_nat (s_len s))).

Definition op_of_code (b : byte) : option op :=
  let z := Z.of_N b in
  if (z =? circuit_XOR)%Z then Some XOR else if (z =? circuit_XNOR)%Z then Some XNOR
  else if (z =? circuit_AND)%Z then Some AND else if (z =? circuit_OR)%Z then Some OR
  else if (z =? circuit_INV)%Z then Some INV else None.

Definition check_in (s : seen) (i : N) : res unit :=
  match seen_get s i with
  | None => Err                                  (* invalid wire *)
  | Some false => Err                            (* input not set *)
  | Some true => Ok tt
  end.

(* the gate loop of ParseMPCLC.  fx9 = true: the code as it is (commit 99bac0d:
   `if gate >= len(gates) { return "too many gates" }` right after ReadByte), which
   makes the panic at the gates[gate] write unreachable.  fx9 = false: the code
   before that commit (regression record of finding F9). *)
Fixpoint mpclc_gates (fx9 : bool) (iw : Z) (fuel : nat) (numGates : N) (r : rd) (s : seen) (gate : N)
         (acc : list gateN) : res (list gateN * seen * N) :=
  match fuel with
  | O => Fuel
  | S f =>
      match read_byte r with
      | None => Ok (rev acc, s, gate)
      | Some (opb, r1) =>
          if fx9 && (numGates <=? gate) then Err   (* too many gates *)
          else
          match op_of_code opb with
          | None => Err
          | Some INV =>
              do (l, r2) <- read_full 8 r1;
              let i0 := of_be32 (firstn 4 l) in
              let o := of_be32 (skipn 4 l) in
              do _ <- check_in s i0;
              match seen_set_chk iw s o with
              | None => Err
              | Some s' =>
                  if numGates <=? gate then Panic          (* gates[gate]: index out of range *)
                  else mpclc_gates fx9 iw f numGates r2 s' (gate + 1) (mkG INV i0 0 o :: acc)
              end
          | Some o2 =>
              do (l, r2) <- read_full 12 r1;
              let i0 := of_be32 (firstn 4 l) in
              let i1 := of_be32 (firstn 4 (skipn 4 l)) in
              let o := of_be32 (skipn 8 l) in
              do _ <- check_in s i0;
              do _ <- check_in s i1;
              match seen_set_chk iw s o with
              | None => Err
              | Some s' =>
                  if numGates <=? gate then Panic          (* gates[gate]: index out of range *)
                  else mpclc_gates fx9 iw f numGates r2 s' (gate + 1) (mkG o2 i0 i1 o :: acc)
              end
          end
      end
  end.

Definition parse_mpclc (fx9 fx10 : bool) (bs : list byte) : res fcircuit :=
  let fuel := S (length bs) in
  do (h, r1) <- read_full 20 (bs, 0);
  let numGates := of_be32 (firstn 4 (skipn 4 h)) in
  let numWires := of_be32 (firstn 4 (skipn 8 h)) in
  let numInputs := of_be32 (firstn 4 (skipn 12 h)) in
  let numOutputs := of_be32 (skipn 16 h) in
  do (ins, r2) <- parse_ioargs fx10 fuel numInputs r1;
  do (outs, r3) <- parse_ioargs fx10 fuel numOutputs r2;
  match mark_inputs (mkSeen numWires PositiveSet.empty) (io_size ins) with
  | None => Err
  | Some s0 =>
      do (gs, s, gate) <- mpclc_gates fx9 (io_size ins) fuel numGates r3 s0 0 [];
      if negb (gate =? numGates) then Err
      else if negb (all_seen s) then Err
      else Ok (mkFC (Z.of_N numGates) (Z.of_N numWires) ins outs gs)
  end.

(* the code as it is now (commits 99bac0d gate bound check, dace4fa io.ReadFull in parseString) *)
Definition ParseMPCLC := parse_mpclc true true.
(* the code before the two fixes: regression record of findings F9 and F10 *)
Definition ParseMPCLC_prefix := parse_mpclc false false.

(* ------------------------------------------------------------------ *)
(* ParseBristol *)

Definition ascii_space (b : byte) : bool := ((9 <=? b) && (b <=? 13)) || (b =? 32).

(* length of the UTF-8 encoding of a non-ASCII rune with unicode.IsSpace at
   the front of l (0: none): U+0085 U+00A0 U+1680 U+2000-200A U+2028 U+2029
   U+202F U+205F U+3000 *)
Definition uspace_len (l : list byte) : nat :=
  match l with
  | a :: b :: t =>
      if (a =? 194) && ((b =? 133) || (b =? 160)) then 2%nat
      else match t with
           | c :: _ =>
               if (a =? 225) && (b =? 154) && (c =? 128) then 3%nat
               else if (a =? 226) && (b =? 128) &&
                       (((128 <=? c) && (c <=? 138)) || (c =? 168) || (c =? 169) || (c =? 175)) then 3%nat
               else if (a =? 226) && (b =? 129) && (c =? 159) then 3%nat
               else if (a =? 227) && (b =? 128) && (c =? 128) then 3%nat
               else 0%nat
           | [] => 0%nat
           end
  | _ => 0%nat
  end.
(* the same looking at a reversed string (last byte first) *)
Definition uspace_len_rev (l : list byte) : nat :=
  match l with
  | b :: a :: t =>
      if uspace_len [a; b] =? 2 then 2%nat
      else match t with
           | z :: _ => if uspace_len [z; a; b] =? 3 then 3%nat else 0%nat
           | [] => 0%nat
           end
  | _ => 0%nat
  end%nat.

Fixpoint ltrim_gen (ulen : list byte -> nat) (fuel : nat) (l : list byte) : list byte :=
  match fuel with
  | O => l
  | S f =>
      match l with
      | [] => []
      | x :: t =>
          if ascii_space x then ltrim_gen ulen f t
          else match ulen l with
               | O => l
               | k => ltrim_gen ulen f (skipn k l)
               end
      end
  end.

(* strings.TrimSpace *)
Definition trim_space (l : list byte) : list byte :=
  let l1 := ltrim_gen uspace_len (length l) l in
  rev (ltrim_gen uspace_len_rev (length l1) (rev l1)).

(* reParts.Split(line, -1) on a trimmed, non-empty line: maximal runs of non-space *)
Fixpoint fields_aux (l : list byte) (cur : list byte) : list (list byte) :=
  match l with
  | [] => match cur with [] => [] | _ => [rev cur] end
  | x :: t =>
      if ascii_space x then
        match cur with [] => fields_aux t [] | _ => rev cur :: fields_aux t [] end
      else fields_aux t (x :: cur)
  end.
Definition fields (l : list byte) : list (list byte) := fields_aux l [].

(* the '\n'-terminated lines of the input; an unterminated tail is what
   ReadString returns together with io.EOF and readLine drops *)
Fixpoint nl_lines_aux (l : list byte) (cur : list byte) : list (list byte) :=
  match l with
  | [] => []
  | x :: t => if x =? 10 then rev (x :: cur) :: nl_lines_aux t [] else nl_lines_aux t (x :: cur)
  end.

(* everything readLine will ever return, in order *)
Definition bristol_lines (bs : list byte) : list (list (list byte)) :=
  map fields (filter (fun l => match l with [] => false | _ => true end)
                     (map trim_space (nl_lines_aux bs []))).

Definition uint_arg (prefix : list byte) (i : nat) (bits : Z) : ioarg :=
  mkIO (prefix ++ dec_N (N.of_nat i)) (mkInfo types_TUint true bits 0 [] None 0) [].

(* the loops over line[1:] of the inputs / outputs line *)
Fixpoint bristol_io (prefix : list byte) (i : nat) (fs : list (list byte)) : res (list ioarg) :=
  match fs with
  | [] => Ok []
  | f :: t =>
      match parse_int32 f with
      | None => Err
      | Some bits =>
          if (bits <? 0)%Z then Err
          else do l <- bristol_io prefix (S i) t; Ok (uint_arg prefix i bits :: l)
      end
  end.

Definition op_of_name (f : list byte) : option op :=
  if list_eqb f (op_name XOR) then Some XOR else if list_eqb f (op_name XNOR) then Some XNOR
  else if list_eqb f (op_name AND) then Some AND else if list_eqb f (op_name OR) then Some OR
  else if list_eqb f (op_name INV) then Some INV else None.

(* for i := 0; i < n; i++ { v := ParseUint(line[base+i]); ... } *)
Fixpoint bristol_ins (line : list (list byte)) (base : nat) (n : nat) (s : seen) : res (list N) :=
  match n with
  | O => Ok []
  | S k =>
      match nth_error line base with
      | None => Panic                            (* line[2+i] out of range *)
      | Some f =>
          match parse_uint32 f with
          | None => Err
          | Some v => do _ <- check_in s v; do l <- bristol_ins line (S base) k s; Ok (v :: l)
          end
      end
  end.
Fixpoint bristol_outs (iw : Z) (line : list (list byte)) (base : nat) (n : nat) (s : seen) : res (list N * seen) :=
  match n with
  | O => Ok ([], s)
  | S k =>
      match nth_error line base with
      | None => Panic
      | Some f =>
          match parse_uint32 f with
          | None => Err
          | Some v =>
              match seen_set_chk iw s v with
              | None => Err
              | Some s' => do (l, s'') <- bristol_outs iw line (S base) k s'; Ok (v :: l, s'')
              end
          end
      end
  end.

Definition bristol_gate_line (iw : Z) (line : list (list byte)) (s : seen) : res (gateN * seen) :=
  if (length line <? 3)%nat then Err else
  match nth_error line 0, nth_error line 1 with
  | Some f0, Some f1 =>
      match atoi f0, atoi f1 with
      | Some n1, Some n2 =>
          if (n1 <? 0)%Z || (n2 <? 0)%Z then Err
          else if negb (2 + n1 + n2 + 1 =? Z.of_nat (length line))%Z then Err
          else
            do ins <- bristol_ins line 2 (Z.to_nat n1) s;
            do (outs, s') <- bristol_outs iw line (2 + Z.to_nat n1) (Z.to_nat n2) s;
            match op_of_name (last line []) with
            | None => Err
            | Some o =>
                let numInputs := match o with INV => 1%nat | _ => 2%nat end in
                if negb (length ins =? numInputs)%nat then Err
                else if negb (length outs =? 1)%nat then Err
                else match ins, outs with
                     | i0 :: rest, o1 :: _ =>
                         Ok (mkG o i0 (match rest with i1 :: _ => i1 | [] => 0 end) o1, s')
                     | _, _ => Panic              (* inputs[0] / outputs[0] *)
                     end
            end
      | _, _ => Err
      end
  | _, _ => Panic
  end.

Fixpoint bristol_gates (iw : Z) (numGates : Z) (lines : list (list (list byte))) (s : seen) (gate : Z)
  : res (list gateN * seen * Z) :=
  match lines with
  | [] => Ok ([], s, gate)
  | line :: rest =>
      if (numGates <=? gate)%Z then Err          (* too many gates *)
      else
        do (g, s') <- bristol_gate_line iw line s;
        do (gs, s'', n) <- bristol_gates iw numGates rest s' (gate + 1)%Z;
        Ok (g :: gs, s'', n)
  end.

Definition maxInt32 : Z := 2147483647%Z.

Definition ParseBristol (bs : list byte) : res fcircuit :=
  match bristol_lines bs with
  | l1 :: rest1 =>
      match l1 with
      | [f0; f1] =>
          match atoi f0 with
          | None => Err
          | Some numGates =>
              if (numGates <? 0)%Z || (maxInt32 <? numGates)%Z then Err else
              match atoi f1 with
              | None => Err
              | Some numWires =>
                  if (numWires <? 0)%Z || (maxInt32 <? numWires)%Z then Err else
                  match rest1 with
                  | [] => Err                    (* io.EOF *)
                  | l2 :: rest2 =>
                      match l2 with
                      | [] => Panic              (* line[0] *)
                      | g0 :: gt =>
                          match atoi g0 with
                          | None => Err
                          | Some niv =>
                              if negb (1 + niv =? Z.of_nat (length l2))%Z then Err else
                              do ins <- bristol_io [78; 73] 1 gt;                (* "NI%d" *)
                              if (io_size ins =? 0)%Z then Err else
                              match mark_inputs (mkSeen (Z.to_N numWires) PositiveSet.empty) (io_size ins) with
                              | None => Err
                              | Some s0 =>
                                  match rest2 with
                                  | [] => Err
                                  | l3 :: rest3 =>
                                      match l3 with
                                      | [] => Panic
                                      | h0 :: ht =>
                                          match atoi h0 with
                                          | None => Err
                                          | Some nov =>
                                              if negb (1 + nov =? Z.of_nat (length l3))%Z then Err else
                                              do outs <- bristol_io [78; 79] 1 ht;  (* "NO%d" *)
                                              do (gs, s, gate) <- bristol_gates (io_size ins) numGates rest3 s0 0%Z;
                                              if negb (gate =? numGates)%Z then Err
                                              else if negb (all_seen s) then Err
                                              else Ok (mkFC numGates numWires ins outs gs)
                                          end
                                      end
                                  end
                              end
                          end
                      end
                  end
              end
          end
      | _ => Err                                 (* invalid 1st line *)
      end
  | [] => Err                                    (* io.EOF *)
  end.
