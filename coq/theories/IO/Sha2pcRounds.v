(* Sha2pcRounds.v — executable model, second part of the C18 model:

   (1) the NIST curves as far as sha2pc / ot/co_helpers.go look at them:
       field prime and coefficient b (crypto/elliptic Params().P, .B; a = -3),
       Curve.IsOnCurve, and the accept/reject decision of
       elliptic.UnmarshalCompressed (the square root itself is not computed:
       the root the implementation answered is an input and is CHECKED);
   (2) the four round functions of sha2pc/garbler.go and sha2pc/evaluator.go
       WITH their argument validation (nil randomness source, nil curve, nil /
       zero session, session-id and curve-name comparison) and the validation
       done by the ot helpers they call (ot/co_helpers.go ensureOnCurve, point
       and ciphertext counts), returning NAMED errors;
   (3) the rounds at the byte level: what a process does that receives byte
       strings (stored session, incoming message), decodes them, runs the round
       and encodes the results.

   The cryptographic cores (scalar sampling, garbling, masking, evaluation)
   stay Section variables.  No proofs here (IO/Sha2pcRoundsProof.v). *)
From Coq Require Import ZArith NArith List Bool Arith.
From Mpc Require Import Gen.Consts Base.Codec IO.Sha2pcCodec.
Import ListNotations.
Open Scope N_scope.

(* ====================================================================== *)
(* (1) curves                                                              *)

(* curve.Params().P *)
Definition curve_p (c : curve) : N :=
  match c with
  | P224 => 0xffffffffffffffffffffffffffffffff000000000000000000000001
  | P256 => 0xffffffff00000001000000000000000000000000ffffffffffffffffffffffff
  | P384 => 0xfffffffffffffffffffffffffffffffffffffffffffffffffffffffffffffffeffffffff0000000000000000ffffffff
  | P521 => 0x1ffffffffffffffffffffffffffffffffffffffffffffffffffffffffffffffffffffffffffffffffffffffffffffffffffffffffffffffffffffffffffffffffff
  end.

(* curve.Params().B *)
Definition curve_b (c : curve) : N :=
  match c with
  | P224 => 0xb4050a850c04b3abf54132565044b0b7d7bfd8ba270b39432355ffb4
  | P256 => 0x5ac635d8aa3a93e7b3ebbd55769886bc651d06b0cc53b0f63bce3c3e27d2604b
  | P384 => 0xb3312fa7e23ee7e4988e056be3f82d19181d9c6efe8141120314088f5013875ac656398d8a2ed19d2a85c8edd3ec2aef
  | P521 => 0x51953eb9618e1c9a1f929a21a0b68540eea2da725b99b315f3b8b489918ef109e156193951ec7e937b1652c0bd3bb1bf073573df883d2c34f1ef451fd46b503f00
  end.

(* the base point (Params().Gx, .Gy): used only as a witness that the
   hypotheses about decompression are satisfiable *)
Definition curve_g (c : curve) : N * N :=
  match c with
  | P224 => (0xb70e0cbd6bb4bf7f321390b94a03c1d356c21122343280d6115c1d21,
             0xbd376388b5f723fb4c22dfe6cd4375a05a07476444d5819985007e34)
  | P256 => (0x6b17d1f2e12c4247f8bce6e563a440f277037d812deb33a0f4a13945d898c296,
             0x4fe342e2fe1a7f9b8ee7eb4a7c0f9e162bce33576b315ececbb6406837bf51f5)
  | P384 => (0xaa87ca22be8b05378eb1c71ef320ad746e1d3b628ba79b9859f741e082542a385502f25dbf55296c3a545e3872760ab7,
             0x3617de4a96262c6f5d9e98bf9292dc29f8f41dbd289a147ce9da3113b5f0b8c00a60b1ce1d7e819d7a431d7c90ea0e5f)
  | P521 => (0xc6858e06b70404e9cd9e3ecb662395b4429c648139053fb521f828af606b4d3dbaa14b5e77efe75928fe1dc127a2ffa8de3348b3c1856a429bf97e7e31c2e5bd66,
             0x11839296a789a3bc0045c8a5fb42c7d1bd998f54449579b446817afbd17273e662c97ee72995ef42640c550b9013fad0761353c7086a272c24088be94769fd16650)
  end.

(* x^3 - 3x + b mod p, for x < p *)
Definition curve_rhs (c : curve) (x : N) : N :=
  let p := curve_p c in
  ((x * x mod p) * x + (p - 3) * x + curve_b c) mod p.

(* Curve.IsOnCurve(x, y): coordinates in [0, p) and the curve equation; the
   point at infinity (0, 0) is not on the curve *)
Definition on_curve (c : curve) (P : N * N) : bool :=
  let p := curve_p c in
  (fst P <? p) && (snd P <? p) && ((snd P * snd P) mod p =? curve_rhs c (fst P)).

(* a^e mod p, square-and-multiply over the binary digits of e *)
Fixpoint modpow_pos (a : N) (e : positive) (p : N) : N :=
  match e with
  | xH => a mod p
  | xO e' => let h := modpow_pos a e' p in (h * h) mod p
  | xI e' => let h := modpow_pos a e' p in (((h * h) mod p) * a) mod p
  end.
Definition modpow (a e p : N) : N :=
  match e with N0 => 1 mod p | Npos e' => modpow_pos a e' p end.

(* Euler's criterion (p an odd prime): r is a square mod p *)
Definition is_square (c : curve) (r : N) : bool :=
  let p := curve_p c in
  (r =? 0) || (modpow r ((p - 1) / 2) p =? 1).

(* elliptic.UnmarshalCompressed(curve, data).  [answer] = the Y the
   implementation returned (None: it returned nil).  UCReject / UCAccept are
   the two outcomes the specification allows; the other two say that the
   implementation's answer contradicts it:
     UCBadAnswer — an accepted (x, y) that is not the point the encoding names
                   (y >= p, not a root of the curve equation, or wrong parity);
     UCMissed    — a rejected encoding of a point that exists. *)
Inductive uc_verdict := UCReject | UCAccept (x y : N) | UCBadAnswer | UCMissed.

Definition unmarshal_compressed (c : curve) (data : bytes) (answer : option N) : uc_verdict :=
  match data with
  | [] => UCReject
  | pre :: xb =>
      if negb ((length xb =? byteLen c)%nat && ((pre =? 2) || (pre =? 3))) then UCReject
      else
        let x := of_be_s xb in
        let p := curve_p c in
        if p <=? x then UCReject
        else
          let rhs := curve_rhs c x in
          match answer with
          | Some y =>
              if (y <? p) && ((y * y) mod p =? rhs) && Bool.eqb (N.odd y) (pre =? 3)
              then UCAccept x y else UCBadAnswer
          | None => if is_square c rhs then UCMissed else UCReject
          end
  end.

(* the compressed encoding the decoder of Round2 builds for (x, sign) *)
Definition compress (c : curve) (x : N) (odd : bool) : bytes :=
  (if odd then 3 else 2) :: be_s (byteLen c) x.

(* ====================================================================== *)
(* (2) the rounds with their validation                                    *)

(* one constructor per error the round functions and the ot helpers return *)
Inductive rerr :=
| ENilRandom              (* sha2pc.errNilRandomSource *)
| ENilCurve               (* sha2pc.errNilCurve, ot.ErrNilCurve *)
| EInvalidGarblerSession  (* "sha2pc: invalid garbler session": nil state or nil Scalar *)
| EInvalidEvaluatorState  (* "invalid evaluator state for round 4": nil state or no scalars *)
| ESessionMismatch        (* "session id mismatch: got %d want %d" *)
| ECurveMismatch          (* "curve mismatch: %s vs %s" (EvaluatorRound2) *)
| EInputBits              (* "... input mismatch" (unreachable for a [32]byte argument) *)
| ERandom                 (* the randomness source failed / ran dry *)
| EPointNotOnCurve        (* ot.ErrPointNotOnCurve *)
| EPointCount             (* "OT point count mismatch" *)
| EBundle                 (* "invalid CO ciphertext bundle" *)
| EGarble                 (* any other error of Circuit.Garble *)
| EEval                   (* an error of Circuit.Eval *)
| EHintCount              (* "output hint mismatch" *)
| EUnknownLabel           (* circuit.BitFromLabel: label matches neither hint *)
| EOutputLength           (* "unexpected output length" *)
| EDecode                 (* a Decode* function returned an error *)
| EEncode.                (* an Encode* function returned an error *)

Inductive vres (A : Type) : Type := VOk (a : A) | VErr (e : rerr) | VPanic.
Arguments VOk {A} a.
Arguments VErr {A} e.
Arguments VPanic {A}.

Definition vbind {A B} (r : vres A) (f : A -> vres B) : vres B :=
  match r with VOk a => f a | VErr e => VErr e | VPanic => VPanic end.

(* check b else e *)
Definition vguard (b : bool) (e : rerr) : vres unit := if b then VOk tt else VErr e.

(* a result of the codec model with its error named *)
Definition of_res {A} (e : rerr) (r : res A) : vres A :=
  match r with Ok a => VOk a | Err => VErr e | Panic => VPanic end.

(* forgetting the names: back to the outcome type of Sha2pcCodec.v *)
Definition erase {A} (r : vres A) : res A :=
  match r with VOk a => Ok a | VErr _ => Err | VPanic => Panic end.

Section VRounds.
  Variable RND : Type.            (* a randomness source (io.Reader contents) *)

  (* ---- cryptographic cores, called only on validated arguments ---- *)
  (* ot.GenerateCOSenderSetup after its nil check: crand.Int may fail *)
  Variable gen_sender_core : RND -> curve -> vres (N * (N * N) * (N * N)).
  (* io.ReadFull(rng, sidBuf[:]) *)
  Variable read_sid_core : RND -> vres N.
  (* ot.BuildCOChoices after ensureOnCurve(A): one crand.Int per bit *)
  Variable choices_core : RND -> curve -> N -> N -> list bool -> vres (list N * list (N * N)).
  (* io.ReadFull(rng, key[:]) *)
  Variable read_key_core : RND -> vres bytes.
  (* Circuit.Garble(rng, key) *)
  Variable garble_core : RND -> bytes -> vres (list (N * N) * list (N * N) * list (N * N) * list N).
  (* the loop body of ot.EncryptCOCiphertexts on points that are on the curve *)
  Variable encrypt_core : curve -> gsession -> list (N * N) -> list (N * N) -> list (N * N).
  (* the loop of ot.DecryptCOCiphertexts *)
  Variable decrypt_core : curve -> esession -> list (N * N) -> list N.
  (* Circuit.Eval on the wires built from garbler inputs and OT labels *)
  Variable eval_core : bytes -> list N -> list N -> list N -> vres (list N).

  Notation "' pat <- c1 ;;; c2" :=
    (vbind c1 (fun x => match x with pat => c2 end))
    (at level 61, pat pattern, c1 at next level, right associativity).
  Notation "x <- c1 ;;; c2" := (vbind c1 (fun x => c2))
    (at level 61, c1 at next level, right associativity).

  (* GarblerRound1(rng, curve): "if rng == nil", "if curve == nil" *)
  Definition GarblerRound1_v (orng : option RND) (oc : option curve) : vres (round1 * gsession) :=
    match orng with
    | None => VErr ENilRandom
    | Some rng =>
        match oc with
        | None => VErr ENilCurve
        | Some c =>
            '(a, (ax, ay), (ix, iy)) <- gen_sender_core rng c ;;;
            sid <- read_sid_core rng ;;;
            VOk (mkR1 sid (curve_name c) ax ay, mkGS sid (curve_name c) a ax ay ix iy)
        end
    end.

  (* ot.BuildCOChoices: ensureOnCurve(curve, Ax, Ay), then the sampling loop *)
  Definition BuildCOChoices_v (rng : RND) (c : curve) (ax ay : N) (bits : list bool)
    : vres (list N * list (N * N)) :=
    _ <- vguard (on_curve c (ax, ay)) EPointNotOnCurve ;;;
    choices_core rng c ax ay bits.

  (* EvaluatorRound2(rng, curve, msg, preimagePart) *)
  Definition EvaluatorRound2_v (orng : option RND) (oc : option curve) (msg : round1) (b : bytes)
    : vres (round2 * esession) :=
    match orng with
    | None => VErr ENilRandom
    | Some rng =>
        match oc with
        | None => VErr ENilCurve
        | Some c =>
            (* msg.OT.CurveName != curve.Params().Name *)
            _ <- vguard (bytes_eqb (r1_name msg) (curve_name c)) ECurveMismatch ;;;
            let bits := bytesToBitsLittle b in
            _ <- vguard (length bits =? hashInputBitCount)%nat EInputBits ;;;
            '(scalars, points) <- BuildCOChoices_v rng c (r1_ax msg) (r1_ay msg) bits ;;;
            VOk (mkR2 (r1_sid msg) (curve_name c) points,
                 mkES (r1_sid msg) (curve_name c) (r1_ax msg) (r1_ay msg) scalars bits)
        end
    end.

  (* ot.EncryptCOCiphertexts: ensureOnCurve(A), ensureOnCurve(A^-a), the count
     check, then per point ensureOnCurve before it is used.  The CurveName
     fields of the session and of the Round2 message are NOT consulted. *)
  Definition EncryptCOCiphertexts_v (c : curve) (st : gsession) (points ein : list (N * N))
    : vres (list (N * N)) :=
    _ <- vguard (on_curve c (gs_ax st, gs_ay st)) EPointNotOnCurve ;;;
    _ <- vguard (on_curve c (gs_ainvx st, gs_ainvy st)) EPointNotOnCurve ;;;
    _ <- vguard (length points =? length ein)%nat EPointCount ;;;
    _ <- vguard (forallb (on_curve c) points) EPointNotOnCurve ;;;
    VOk (encrypt_core c st points ein).

  (* GarblerRound3(rng, curve, state, preimagePart, req).  [ost] = None: state
     == nil; [scalar_nil]: state.SenderSetup.Scalar == nil (the zero session) *)
  Definition GarblerRound3_v (orng : option RND) (oc : option curve) (ost : option gsession)
             (scalar_nil : bool) (a : bytes) (req : round2) : vres round3 :=
    match orng with
    | None => VErr ENilRandom
    | Some rng =>
        match ost with
        | None => VErr EInvalidGarblerSession
        | Some st =>
            if scalar_nil then VErr EInvalidGarblerSession
            else
              match oc with
              | None => VErr ENilCurve
              | Some c =>
                  _ <- vguard (r2_sid req =? gs_sid st) ESessionMismatch ;;;
                  key <- read_key_core rng ;;;
                  '(gin, ein, outw, tables) <- garble_core rng key ;;;
                  let bits := bytesToBitsLittle a in
                  _ <- vguard (length bits =? hashInputBitCount)%nat EInputBits ;;;
                  let garblerLabels := map (fun p => pick2 (fst p) (snd p)) (combine gin bits) in
                  cts <- EncryptCOCiphertexts_v c st (r2_choices req) ein ;;;
                  VOk (mkR3 (gs_sid st) key tables garblerLabels outw cts)
              end
        end
    end.

  (* ot.DecryptCOCiphertexts: count := len(Bits); len(Scalars) != count ||
     len(data) != count; ensureOnCurve(A) *)
  Definition DecryptCOCiphertexts_v (c : curve) (st : esession) (cts : list (N * N)) : vres (list N) :=
    let count := length (es_bits st) in
    _ <- vguard ((length (es_scalars st) =? count)%nat && (length cts =? count)%nat) EBundle ;;;
    _ <- vguard (on_curve c (es_ax st, es_ay st)) EPointNotOnCurve ;;;
    VOk (decrypt_core c st cts).

  Fixpoint decode_outputs_v (hints : list (N * N)) (ls : list N) : vres (list bool) :=
    match hints with
    | [] => VOk []
    | w :: ws =>
        b <- of_res EUnknownLabel (bitFromLabel w (hd 0 ls)) ;;;
        bs <- decode_outputs_v ws (tl ls) ;;;
        VOk (b :: bs)
    end.

  (* EvaluatorRound4(curve, state, msg) *)
  Definition EvaluatorRound4_v (oc : option curve) (ost : option esession) (msg : round3) : vres bytes :=
    match ost with
    | None => VErr EInvalidEvaluatorState
    | Some st =>
        if (length (es_scalars st) =? 0)%nat then VErr EInvalidEvaluatorState
        else
          match oc with
          | None => VErr ENilCurve
          | Some c =>
              _ <- vguard (r3_sid msg =? es_sid st) ESessionMismatch ;;;
              labels <- DecryptCOCiphertexts_v c st (r3_cts msg) ;;;
              outl <- eval_core (r3_key msg) (r3_inputs msg) labels (r3_tables msg) ;;;
              _ <- vguard (length (r3_hints msg) =? outputHintCount)%nat EHintCount ;;;
              outputBits <- decode_outputs_v (r3_hints msg) outl ;;;
              let out := bitsToBytesLittle outputBits in
              _ <- vguard (length out =? 32)%nat EOutputLength ;;;
              VOk out
          end
    end.

  (* ==================================================================== *)
  (* (3) the rounds at the byte level: decode what arrives / what was stored,
     run the round, encode what leaves / what is stored *)
  Variable decompress : curve -> N -> bool -> option (N * N).

  (* garbler, start: -> (Round1 bytes, GarblerSession bytes) *)
  Definition garbler_step1 (orng : option RND) (oc : option curve) : vres (bytes * bytes) :=
    '(m1, gs) <- GarblerRound1_v orng oc ;;;
    match oc with
    | None => VErr ENilCurve
    | Some c =>
        b1 <- of_res EEncode (EncodeRound1 c m1) ;;;
        bs <- of_res EEncode (EncodeGarblerSession c gs) ;;;
        VOk (b1, bs)
    end.

  (* evaluator, on Round1 bytes: -> (Round2 bytes, EvaluatorSession bytes) *)
  Definition evaluator_step2 (orng : option RND) (oc : option curve) (msg1 : bytes) (b : bytes)
    : vres (bytes * bytes) :=
    match oc with
    | None => VErr ENilCurve                        (* DecodeRound1(nil, ..) *)
    | Some c =>
        m1 <- of_res EDecode (DecodeRound1 c msg1) ;;;
        '(m2, es) <- EvaluatorRound2_v orng oc m1 b ;;;
        b2 <- of_res EEncode (EncodeRound2 c m2) ;;;
        bs <- of_res EEncode (EncodeEvaluatorSession c es) ;;;
        VOk (b2, bs)
    end.

  (* garbler, restored from GarblerSession bytes, on Round2 bytes: -> Round3 bytes *)
  Definition garbler_step3 (orng : option RND) (oc : option curve) (gsb : bytes) (a : bytes) (msg2 : bytes)
    : vres bytes :=
    match oc with
    | None => VErr ENilCurve
    | Some c =>
        gs <- of_res EDecode (DecodeGarblerSession c gsb) ;;;
        m2 <- of_res EDecode (DecodeRound2 decompress c msg2) ;;;
        m3 <- GarblerRound3_v orng oc (Some gs) false a m2 ;;;
        of_res EEncode (EncodeRound3 m3)
    end.

  (* evaluator, restored from EvaluatorSession bytes, on Round3 bytes: -> digest *)
  Definition evaluator_step4 (oc : option curve) (esb : bytes) (msg3 : bytes) : vres bytes :=
    match oc with
    | None => VErr ENilCurve
    | Some c =>
        es <- of_res EDecode (DecodeEvaluatorSession c esb) ;;;
        m3 <- of_res EDecode (DecodeRound3 msg3) ;;;
        EvaluatorRound4_v oc (Some es) m3
    end.
End VRounds.
