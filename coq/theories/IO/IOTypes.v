(* IO/IOTypes.v — the TEXT form of argument types inside the C13 model:

     types/parse.go   types.Parse          [types_parse]
     types/types.go   Info.String          [info_text]

   The executable models of these two functions are the ones of property C14
   (IO/Marshal.v: [Marshal.Parse], [Marshal.info_string], written against the
   Go source there); this file only converts between the Info of IO/Marshal.v
   (all fields, Z) and the Info of IO/IOArg.v (the fields IOArg.Parse / Set /
   Result / InstantiateWithSizes inspect, nat), so that the types a circuit
   file or a command line names as text are the types the C13 theorems are
   about.  No proofs in this file (IO/IOTypesProof.v). *)
From Coq Require Import ZArith NArith List Bool.
From Mpc Require Import Gen.Consts IO.IOArg.
From Mpc Require IO.Marshal.
Import ListNotations.
Open Scope Z_scope.

(* the fields of a types.Info that the value codec inspects *)
Fixpoint of_minfo (i : Marshal.info) : info :=
  match i with
  | Marshal.mkInfo t c b _ st el az =>
      Info t (Z.to_nat b) (Z.to_nat az)
           (match el with Some e => Some (of_minfo e) | None => None end)
           (map of_minfo st) c
  end.

(* … and back (MinBits = Bits, as types.Parse, the compiler and InstantiateWithSizes set it) *)
Fixpoint to_minfo (t : info) : Marshal.info :=
  match t with
  | Info k b a e fs c =>
      Marshal.mkInfo k c (Z.of_nat b) (Z.of_nat b) (map to_minfo fs)
                     (match e with Some x => Some (to_minfo x) | None => None end) (Z.of_nat a)
  end.

(* types.Parse(text): the Info as the value codec sees it *)
Definition types_parse (s : list N) : res info :=
  match Marshal.Parse s with
  | Marshal.Ok i => Ok (of_minfo i)
  | Marshal.Err => Err
  | Marshal.Panic => Panic
  | Marshal.Fuel => Panic
  end.

(* Info.String() *)
Definition info_text (t : info) : list N := Marshal.info_string (to_minfo t).
