(* MarshalRoundTrip.v — round-trip theorems for IO/Marshal.v (property C14):
   decimal and big-endian codecs, type text, MPCLC, Bristol. *)
From Coq Require Import ZArith NArith List Bool Arith Lia MSets.MSetPositive.
From Mpc Require Import Gen.Consts Circuit.Circuit IO.Marshal IO.MarshalProof.
Import ListNotations.
Open Scope N_scope.

(* ================================================================== *)
(* codecs *)

Lemma of_be32_be32 n : n < 4294967296 -> of_be32 (be32 n) = n.
Proof.
  intros H. unfold be32, of_be32.
  replace (n / 65536) with (n / 256 / 256) by (rewrite N.div_div by lia; reflexivity).
  replace (n / 16777216) with (n / 256 / 256 / 256) by (rewrite !N.div_div by lia; reflexivity).
  zify. Z.to_euclidean_division_equations. lia.
Qed.

Lemma be32_length n : length (be32 n) = 4%nat.
Proof. reflexivity. Qed.

Definition dv (a : N) (l : list byte) : N := fold_left (fun a d => a * 10 + (d - 48)) l a.

Lemma dv_pow l : forall a, dv a l = a * 10 ^ nlen l + dv 0 l.
Proof.
  induction l as [|d t IH]; intros a.
  - unfold dv, nlen; simpl. lia.
  - change (dv a (d :: t)) with (dv (a * 10 + (d - 48)) t).
    change (dv 0 (d :: t)) with (dv (0 * 10 + (d - 48)) t).
    rewrite IH. rewrite (IH (0 * 10 + (d - 48))).
    replace (nlen (d :: t)) with (N.succ (nlen t)) by (unfold nlen; simpl length; lia).
    rewrite N.pow_succ_r'. lia.
Qed.

Lemma digit_is_digit d : d < 10 -> is_digit (48 + d) = true.
Proof. intros H. unfold is_digit. apply andb_true_iff. split; apply N.leb_le; lia. Qed.

Lemma dec_aux_spec fuel : forall n acc,
  n < 2 ^ N.of_nat fuel -> (1 <= fuel)%nat -> forallb is_digit acc = true ->
  forallb is_digit (dec_aux fuel n acc) = true /\ dec_aux fuel n acc <> [] /\
  dv 0 (dec_aux fuel n acc) = n * 10 ^ nlen acc + dv 0 acc.
Proof.
  induction fuel as [|f IH]; intros n acc Hn Hf Hacc; [lia|].
  cbn [dec_aux]. assert (Hd : n mod 10 < 10) by (apply N.mod_lt; lia).
  pose proof (N.div_mod n 10 ltac:(lia)) as Hdm.
  remember (n mod 10) as m eqn:Em. remember (n / 10) as q eqn:Eq.
  remember ((48 + m) :: acc) as acc' eqn:Eacc.
  assert (Hacc' : forallb is_digit acc' = true).
  { subst acc'. cbn [forallb]. rewrite (digit_is_digit _ Hd), Hacc. reflexivity. }
  assert (Hdv : dv 0 acc' = m * 10 ^ nlen acc + dv 0 acc).
  { subst acc'. change (dv 0 ((48 + m) :: acc)) with (dv (0 * 10 + (48 + m - 48)) acc). rewrite dv_pow.
    replace (0 * 10 + (48 + m - 48)) with m by lia. reflexivity. }
  assert (Hl : @nlen byte acc' = N.succ (nlen acc)).
  { subst acc'. unfold nlen. cbn [length]. apply Nat2N.inj_succ. }
  destruct (q =? 0) eqn:E.
  - apply N.eqb_eq in E. repeat split; auto.
    + subst acc'. discriminate.
    + rewrite Hdv. f_equal. subst q. lia.
  - apply N.eqb_neq in E.
    assert (Hn10 : q < 2 ^ N.of_nat f).
    { subst q. apply N.div_lt_upper_bound; [lia|]. rewrite Nat2N.inj_succ, N.pow_succ_r' in Hn. lia. }
    assert (Hf1 : (1 <= f)%nat).
    { destruct f; [|lia]. change (2 ^ N.of_nat 0) with 1 in Hn10. lia. }
    destruct (IH q acc' Hn10 Hf1 Hacc') as (H1 & H2 & H3). repeat split; auto.
    rewrite H3, Hdv, Hl, N.pow_succ_r'. generalize (10 ^ nlen acc). intros p. rewrite Hdm. nia.
Qed.

Lemma dec_N_spec n : forallb is_digit (dec_N n) = true /\ dec_N n <> [] /\ digits_val (dec_N n) = n.
Proof.
  unfold dec_N. destruct (dec_aux_spec (S (N.to_nat (N.size n))) n []) as (H1 & H2 & H3); auto; try lia.
  - rewrite Nat2N.inj_succ, N2Nat.id, N.pow_succ_r'. pose proof (N.size_gt n). lia.
  - repeat split; auto. change (digits_val ?l) with (dv 0 l). rewrite H3. unfold nlen; simpl. lia.
Qed.

Lemma all_digits_dec n : all_digits (dec_N n) = true.
Proof.
  destruct (dec_N_spec n) as (H1 & H2 & _). unfold all_digits. destruct (dec_N n); [congruence|exact H1].
Qed.

Lemma dec_Z_nonneg z : (0 <= z)%Z -> dec_Z z = dec_N (Z.to_N z).
Proof. intros H. unfold dec_Z. destruct (z <? 0)%Z eqn:E; [apply Z.ltb_lt in E; lia|reflexivity]. Qed.

Lemma parse_uint32_dec n : n < 4294967296 -> parse_uint32 (dec_N n) = Some n.
Proof.
  intros H. unfold parse_uint32. rewrite all_digits_dec. destruct (dec_N_spec n) as (_ & _ & ->).
  apply N.ltb_lt in H. rewrite H. reflexivity.
Qed.

Lemma parse_int_dec lo hi n : (lo <= Z.of_N n <= hi)%Z -> parse_int lo hi (dec_N n) = Some (Z.of_N n).
Proof.
  intros H. unfold parse_int. destruct (dec_N_spec n) as (Hd & Hne & Hv).
  destruct (dec_N n) as [|c t] eqn:E; [congruence|].
  assert (Hc : is_digit c = true) by (simpl in Hd; apply andb_true_iff in Hd; tauto).
  unfold is_digit in Hc. apply andb_true_iff in Hc. destruct Hc as [Hc1 Hc2]. apply N.leb_le in Hc1, Hc2.
  destruct (c =? 43) eqn:E1; [apply N.eqb_eq in E1; lia|].
  destruct (c =? 45) eqn:E2; [apply N.eqb_eq in E2; lia|].
  rewrite <- E. rewrite all_digits_dec. destruct (dec_N_spec n) as (_ & _ & ->).
  assert (((lo <=? Z.of_N n) && (Z.of_N n <=? hi))%Z = true) as ->
    by (apply andb_true_iff; split; apply Z.leb_le; lia).
  reflexivity.
Qed.

(* ================================================================== *)
(* type text: Info.String then types.Parse *)

Definition base_ty (t : Z) : Prop :=
  t = types_TBool \/ t = types_TInt \/ t = types_TUint \/ t = types_TString \/ t = types_TStruct.

(* the types whose text Marshal emits for compiled circuits and types.Parse reads back:
   concrete bool/int/uint/string/struct with 0 <= Bits < 2^31, arrays [N]T with 0 <= N < 2^31
   and slices []T of such types (no pointers, floats, non-concrete types) *)
Inductive printable : info -> Prop :=
| pr_base t c b mb st el az :
    base_ty t -> concrete (mkInfo t c b mb st el az) = true -> (0 <= b < 2147483648)%Z ->
    printable (mkInfo t c b mb st el az)
| pr_array c b mb st e az :
    printable e -> (0 <= az < 2147483648)%Z -> printable (mkInfo types_TArray c b mb st (Some e) az)
| pr_slice c b mb st e az :
    printable e -> printable (mkInfo types_TSlice c b mb st (Some e) az).

(* what types.Parse returns for the text of a type: IsConcrete, MinBits = Bits, no struct
   fields; array Bits recomputed (int32 product); slice Bits and ArraySize 0 *)
Fixpoint strip (i : info) : info :=
  match i with
  | mkInfo t c b mb st el az =>
      if (t =? types_TArray)%Z then
        match el with
        | Some e => let e' := strip e in
                    mkInfo types_TArray true (wrap32 (az * i_bits e')) (wrap32 (az * i_bits e')) [] (Some e') az
        | None => i
        end
      else if (t =? types_TSlice)%Z then
        match el with
        | Some e => mkInfo types_TSlice true 0 0 [] (Some (strip e)) 0
        | None => i
        end
      else mkInfo t true b b [] None 0
  end.

Lemma list_eqb_len a b : length a <> length b -> list_eqb a b = false.
Proof. intros H. unfold list_eqb. apply Nat.eqb_neq in H. rewrite H. reflexivity. Qed.

Lemma list_eqb_head x y l1 l2 : x <> y -> list_eqb (x :: l1) (y :: l2) = false.
Proof.
  intros H. unfold list_eqb. simpl. apply N.eqb_neq in H. rewrite H. simpl. apply andb_false_r.
Qed.

Definition nonl (l : list byte) : Prop := forallb (fun x => negb (x =? 10)) l = true.

Lemma split_nl_nonl l : nonl l -> split_nl l = [l].
Proof.
  unfold nonl. induction l as [|x t IH]; simpl; intros H; [reflexivity|].
  apply andb_true_iff in H. destruct H as [Hx Ht]. rewrite (IH Ht).
  apply negb_true_iff in Hx. rewrite Hx. reflexivity.
Qed.

Lemma span_app p a r :
  forallb p a = true -> match r with [] => True | x :: _ => p x = false end -> span p (a ++ r) = (a, r).
Proof.
  induction a as [|x t IH]; simpl; intros Ha Hr.
  - destruct r as [|y r']; [reflexivity|]. simpl. rewrite Hr. reflexivity.
  - apply andb_true_iff in Ha. destruct Ha as [Hx Ht]. rewrite Hx, (IH Ht Hr). reflexivity.
Qed.

Lemma span_all p a : forallb p a = true -> span p a = (a, []).
Proof. intros H. rewrite <- (app_nil_r a) at 1. apply span_app; auto. Qed.

Lemma digit_not_alpha x : is_digit x = true -> is_alpha x = false.
Proof.
  unfold is_digit, is_alpha. intros H. apply andb_true_iff in H. destruct H as [H1 H2].
  apply N.leb_le in H1, H2. apply orb_false_iff. split; apply andb_false_iff.
  - left. apply N.leb_gt. lia.
  - left. apply N.leb_gt. lia.
Qed.

Lemma digits_nonl l : forallb is_digit l = true -> nonl l.
Proof.
  unfold nonl. induction l as [|x t IH]; simpl; intros H; [reflexivity|].
  apply andb_true_iff in H. destruct H as [Hx Ht]. rewrite (IH Ht), andb_true_r.
  unfold is_digit in Hx. apply andb_true_iff in Hx. destruct Hx as [H1 _]. apply N.leb_le in H1.
  apply negb_true_iff, N.eqb_neq. lia.
Qed.

Lemma nonl_app a b : nonl a -> nonl b -> nonl (a ++ b).
Proof. unfold nonl. intros. rewrite forallb_app. apply andb_true_iff; auto. Qed.

Lemma dec_Z_digits z : (0 <= z)%Z ->
  forallb is_digit (dec_Z z) = true /\ dec_Z z <> [] /\
  parse_int32 (dec_Z z) = (if (z <=? 2147483647)%Z then Some z else None).
Proof.
  intros Hz. rewrite dec_Z_nonneg by auto. destruct (dec_N_spec (Z.to_N z)) as (H1 & H2 & H3).
  repeat split; auto. destruct (z <=? 2147483647)%Z eqn:E.
  - apply Z.leb_le in E. unfold parse_int32. rewrite parse_int_dec by lia. f_equal. lia.
  - apply Z.leb_gt in E. unfold parse_int32, parse_int.
    destruct (dec_N (Z.to_N z)) as [|c t] eqn:Ed; [congruence|].
    assert (Hc : is_digit c = true) by (simpl in H1; apply andb_true_iff in H1; tauto).
    unfold is_digit in Hc. apply andb_true_iff in Hc. destruct Hc as [Hc1 Hc2]. apply N.leb_le in Hc1, Hc2.
    destruct (c =? 43) eqn:E1; [apply N.eqb_eq in E1; lia|].
    destruct (c =? 45) eqn:E2; [apply N.eqb_eq in E2; lia|].
    rewrite <- Ed, all_digits_dec. rewrite <- Ed in H3. rewrite H3.
    assert (((-2147483648 <=? Z.of_N (Z.to_N z)) && (Z.of_N (Z.to_N z) <=? 2147483647))%Z = false) as ->
      by (apply andb_false_iff; right; apply Z.leb_gt; lia).
    reflexivity.
Qed.

Lemma info_string_props t : printable t -> nonl (info_string t) /\ info_string t <> [].
Proof.
  induction 1 as [t c b mb st el az Hb Hc Hr | c b mb st e az He IH Hr | c b mb st e az He IH].
  - destruct (dec_Z_digits b ltac:(lia)) as (Hd & Hne & _).
    assert (Hs : info_string (mkInfo t c b mb st el az) = type_string t ++ dec_Z b).
    { destruct Hb as [-> | [-> | [-> | [-> | ->]]]]; cbn [info_string]; rewrite Hc; reflexivity. }
    rewrite Hs. split.
    + apply nonl_app; [|apply digits_nonl; auto].
      destruct Hb as [-> | [-> | [-> | [-> | ->]]]]; reflexivity.
    + destruct (dec_Z b); [congruence|]. destruct (type_string t); discriminate.
  - destruct IH as [IH1 IH2]. destruct (dec_Z_digits az ltac:(lia)) as (Hd & _ & _).
    change (info_string (mkInfo types_TArray c b mb st (Some e) az))
      with ([91] ++ dec_Z az ++ [93] ++ info_string e).
    split; [|discriminate].
    apply nonl_app; [reflexivity|]. apply nonl_app; [apply digits_nonl; auto|]. apply nonl_app; [reflexivity|auto].
  - destruct IH as [IH1 IH2].
    change (info_string (mkInfo types_TSlice c b mb st (Some e) az)) with ([91; 93] ++ info_string e).
    split; [|discriminate]. apply nonl_app; [reflexivity|auto].
Qed.

Lemma names_alpha t : base_ty t ->
  forallb is_alpha (type_string t) = true /\ sized_type (type_string t) = Some t /\
  (forall d ds, is_digit d = true ->
     list_eqb (type_string t ++ d :: ds) [98] || list_eqb (type_string t ++ d :: ds) s_bool = false /\
     list_eqb (type_string t ++ d :: ds) s_byte = false /\
     list_eqb (type_string t ++ d :: ds) s_rune = false).
Proof.
  intros [-> | [-> | [-> | [-> | ->]]]]; (split; [reflexivity|]); (split; [reflexivity|]); intros d ds Hd.
  all: repeat split; try (apply orb_false_iff; split);
       first [ reflexivity | apply list_eqb_head; discriminate | apply list_eqb_len; simpl; lia ].
Qed.

Lemma types_parse_roundtrip t : printable t ->
  forall fuel, (length (info_string t) < fuel)%nat -> types_parse fuel (info_string t) = Ok (strip t).
Proof.
  induction 1 as [t c b mb st el az Hb Hc Hr | c b mb st e az He IH Hr | c b mb st e az He IH];
    intros fuel Hf; (destruct fuel as [|f]; [lia|]).
  - (* base *)
    destruct (dec_Z_digits b ltac:(lia)) as (Hd & Hne & Hp).
    assert (Hs : info_string (mkInfo t c b mb st el az) = type_string t ++ dec_Z b).
    { destruct Hb as [-> | [-> | [-> | [-> | ->]]]]; cbn [info_string]; rewrite Hc; reflexivity. }
    assert (Hst : strip (mkInfo t c b mb st el az) = mkInfo t true b b [] None 0).
    { destruct Hb as [-> | [-> | [-> | [-> | ->]]]]; reflexivity. }
    rewrite Hs, Hst. destruct (names_alpha t Hb) as (Ha & Hsz & Hneq).
    destruct (dec_Z b) as [|d ds] eqn:Ed; [congruence|].
    assert (Hdd : is_digit d = true) by (simpl in Hd; apply andb_true_iff in Hd; tauto).
    destruct (Hneq d ds Hdd) as (E1 & E2 & E3).
    cbn [types_parse]. rewrite E1, E2, E3.
    rewrite split_nl_nonl.
    2:{ apply nonl_app; [|apply digits_nonl; auto].
        destruct Hb as [-> | [-> | [-> | [-> | ->]]]]; reflexivity. }
    cbn [first_some]. unfold match_sized.
    rewrite (span_app is_alpha (type_string t) (d :: ds) Ha (digit_not_alpha d Hdd)).
    rewrite (span_all is_digit (d :: ds) Hd).
    destruct (type_string t) as [|x xs] eqn:Ets.
    { destruct Hb as [-> | [-> | [-> | [-> | ->]]]]; discriminate. }
    rewrite Hsz. rewrite Hp.
    assert ((b <=? 2147483647)%Z = true) as -> by (apply Z.leb_le; lia). reflexivity.
  - (* array *)
    destruct (dec_Z_digits az ltac:(lia)) as (Hd & Hne & Hp).
    destruct (info_string_props e He) as [Hnl Hnn].
    change (info_string (mkInfo types_TArray c b mb st (Some e) az))
      with (91 :: (dec_Z az ++ 93 :: info_string e)) in *.
    change (strip (mkInfo types_TArray c b mb st (Some e) az))
      with (mkInfo types_TArray true (wrap32 (az * i_bits (strip e))) (wrap32 (az * i_bits (strip e))) []
                   (Some (strip e)) az).
    cbn [types_parse].
    unfold s_bool, s_byte, s_rune. rewrite !list_eqb_head by discriminate. cbn [orb].
    rewrite split_nl_nonl.
    2:{ change (nonl ([91] ++ dec_Z az ++ [93] ++ info_string e)).
        apply nonl_app; [reflexivity|]. apply nonl_app; [apply digits_nonl; auto|]. apply nonl_app; [reflexivity|auto]. }
    cbn [first_some]. change (match_sized (91 :: (dec_Z az ++ 93 :: info_string e))) with (@None (list byte * list byte)).
    unfold match_arr. change (91 =? 91) with true. cbv iota.
    rewrite (span_app is_digit (dec_Z az) (93 :: info_string e) Hd eq_refl).
    destruct (info_string e) as [|x m2] eqn:Ee; [congruence|]. change (93 =? 93) with true. cbv iota.
    rewrite IH. 2:{ cbn [length] in Hf. rewrite app_length in Hf. cbn [length] in *. lia. }
    cbn [bind]. destruct (dec_Z az) as [|d0 ds0] eqn:Ed; [congruence|].
    rewrite Hp. assert ((az <=? 2147483647)%Z = true) as -> by (apply Z.leb_le; lia). reflexivity.
  - (* slice *)
    destruct (info_string_props e He) as [Hnl Hnn].
    change (info_string (mkInfo types_TSlice c b mb st (Some e) az)) with (91 :: 93 :: info_string e) in *.
    change (strip (mkInfo types_TSlice c b mb st (Some e) az))
      with (mkInfo types_TSlice true 0 0 [] (Some (strip e)) 0).
    cbn [types_parse].
    unfold s_bool, s_byte, s_rune. rewrite !list_eqb_head by discriminate. cbn [orb].
    rewrite split_nl_nonl.
    2:{ change (nonl ([91; 93] ++ info_string e)). apply nonl_app; [reflexivity|auto]. }
    cbn [first_some]. change (match_sized (91 :: 93 :: info_string e)) with (@None (list byte * list byte)).
    unfold match_arr. change (91 =? 91) with true. cbv iota.
    change (span is_digit (93 :: info_string e)) with (@nil byte, 93 :: info_string e).
    destruct (info_string e) as [|x m2] eqn:Ee; [congruence|]. change (93 =? 93) with true. cbv iota.
    rewrite IH. 2:{ cbn [length] in *. lia. }
    reflexivity.
Qed.

Lemma strip_string t : printable t -> info_string (strip t) = info_string t.
Proof.
  induction 1 as [t c b mb st el az Hb Hc Hr | c b mb st e az He IH Hr | c b mb st e az He IH].
  - destruct Hb as [-> | [-> | [-> | [-> | ->]]]]; cbn [info_string strip]; simpl Z.eqb; cbv iota;
      cbn [info_string]; simpl Z.eqb; cbv iota; rewrite Hc; reflexivity.
  - change (info_string (strip (mkInfo types_TArray c b mb st (Some e) az)))
      with ([91] ++ dec_Z az ++ [93] ++ info_string (strip e)). rewrite IH. reflexivity.
  - change (info_string (strip (mkInfo types_TSlice c b mb st (Some e) az)))
      with ([91; 93] ++ info_string (strip e)). rewrite IH. reflexivity.
Qed.

(* type-text round trip *)
Theorem type_roundtrip t : printable t ->
  Parse (info_string t) = Ok (strip t) /\ info_string (strip t) = info_string t.
Proof.
  intros H. split; [|apply strip_string; auto]. unfold Parse. apply types_parse_roundtrip; auto.
Qed.

(* ================================================================== *)
(* MPCLC round trip *)

Fixpoint norm_io (a : ioarg) : ioarg :=
  match a with
  | mkIO n t comp => mkIO n (set_bits (strip t) (i_bits t)) (map norm_io comp)
  end.
Definition norm_gate (g : gateN) : gateN :=
  match g_op g with INV => mkG INV (g_in0 g) 0 (g_out g) | _ => g end.
(* what survives a round trip through the MPCLC format: everything except IsConcrete/MinBits/
   struct field detail/slice ArraySize of the types (see [strip]) and Input1 of INV gates *)
Definition norm (c : fcircuit) : fcircuit :=
  mkFC (c_numgates c) (c_numwires c) (map norm_io (c_inputs c)) (map norm_io (c_outputs c))
       (map norm_gate (c_gates c)).

Definition two32 : N := 4294967296.

Fixpoint wf_io (a : ioarg) : Prop :=
  match a with
  | mkIO n t comp =>
      nlen n < two32 /\ printable t /\ nlen (info_string t) < two32 /\
      (-2147483648 <= i_bits t < 2147483648)%Z /\ nlen comp < two32 /\
      (fix all (l : list ioarg) : Prop := match l with [] => True | x :: r => wf_io x /\ all r end) comp
  end.

Fixpoint ioarg_ind' (P : ioarg -> Prop)
  (H : forall n t comp, Forall P comp -> P (mkIO n t comp)) (a : ioarg) : P a :=
  match a with
  | mkIO n t comp =>
      H n t comp ((fix go (l : list ioarg) : Forall P l :=
                     match l with
                     | [] => Forall_nil P
                     | x :: r => Forall_cons x (ioarg_ind' P H x) (go r)
                     end) comp)
  end.

Lemma wf_io_all comp :
  (fix all (l : list ioarg) : Prop := match l with [] => True | x :: r => wf_io x /\ all r end) comp ->
  Forall wf_io comp.
Proof. induction comp as [|x r IH]; intros H; constructor; destruct H; auto. Qed.

Lemma read_full_exact_n n l1 l2 b : nlen l1 = n -> rd_ok (l1 ++ l2, b) ->
  exists b', read_full n (l1 ++ l2, b) = Ok (l1, (l2, b')) /\ rd_ok (l2, b').
Proof.
  intros <- Hok. destruct (read_full_exact l1 l2 b Hok) as (b' & H1 & H2 & _). exists b'; auto.
Qed.

Lemma read_u32_exact n rest b : n < two32 -> rd_ok (be32 n ++ rest, b) ->
  exists b', read_u32 (be32 n ++ rest, b) = Ok (n, (rest, b')) /\ rd_ok (rest, b').
Proof.
  intros Hn Hok. unfold read_u32.
  destruct (read_full_exact_n 4 (be32 n) rest b eq_refl Hok) as (b' & -> & Hok').
  cbn [bind]. rewrite of_be32_be32 by exact Hn. exists b'; auto.
Qed.

Lemma nlen_zero {A} (l : list A) : nlen l = 0 -> l = [].
Proof. destruct l; [reflexivity|]. unfold nlen. simpl. lia. Qed.

Lemma parse_string_exact s rest b : nlen s < two32 -> rd_ok (marshal_string s ++ rest, b) ->
  exists b', parse_string true (marshal_string s ++ rest, b) = Ok (s, (rest, b')) /\ rd_ok (rest, b').
Proof.
  intros Hn Hok. unfold marshal_string in *. rewrite <- app_assoc in *.
  rewrite N.mod_small in * by exact Hn. unfold parse_string.
  destruct (read_u32_exact (nlen s) (s ++ rest) b Hn Hok) as (b1 & -> & Hok1). cbn [bind].
  destruct (nlen s =? 0) eqn:E.
  - apply N.eqb_eq in E. apply nlen_zero in E. subst s. exists b1. auto.
  - destruct (read_full_exact_n (nlen s) s rest b1 eq_refl Hok1) as (b2 & -> & Hok2). exists b2; auto.
Qed.

Lemma wrap32_u32 z : (-2147483648 <= z < 2147483648)%Z -> wrap32 (Z.of_N (u32 z)) = z.
Proof.
  intros H. unfold wrap32, u32. rewrite Z2N.id by (apply Z.mod_pos_bound; lia).
  Z.to_euclidean_division_equations. lia.
Qed.

Lemma u32_lt z : u32 z < two32.
Proof. unfold u32, two32. pose proof (Z.mod_pos_bound z 4294967296 ltac:(lia)). lia. Qed.

Definition io_rt (fuel : nat) (a : ioarg) : Prop :=
  forall rest b, rd_ok (marshal_ioarg a ++ rest, b) -> (length (marshal_ioarg a ++ rest) < fuel)%nat ->
    exists b', parse_ioarg true fuel (marshal_ioarg a ++ rest, b) = Ok (norm_io a, (rest, b')) /\ rd_ok (rest, b').

Lemma marshal_ioarg_len a : (16 <= length (marshal_ioarg a))%nat.
Proof.
  destruct a as [n t comp]. cbn [marshal_ioarg]. unfold marshal_string.
  rewrite !app_length, !be32_length. lia.
Qed.

Lemma flat_map_len comp : (length comp <= length (flat_map marshal_ioarg comp))%nat.
Proof.
  induction comp as [|x r IH]; simpl; [lia|]. rewrite app_length. pose proof (marshal_ioarg_len x). lia.
Qed.

Lemma repeat_parse_marshal pf comp : Forall (io_rt pf) comp ->
  forall gf rest b, rd_ok (flat_map marshal_ioarg comp ++ rest, b) ->
    (length (flat_map marshal_ioarg comp ++ rest) < pf)%nat -> (length comp <= gf)%nat ->
    exists b', repeat_parse (parse_ioarg true pf) gf (nlen comp) (flat_map marshal_ioarg comp ++ rest, b)
               = Ok (map norm_io comp, (rest, b')) /\ rd_ok (rest, b').
Proof.
  induction 1 as [|x r Hx Hr IH]; intros gf rest b Hok Hlen Hgf.
  - simpl. destruct gf; simpl; exists b; auto.
  - destruct gf as [|g]; [simpl in Hgf; lia|].
    cbn [repeat_parse]. replace (nlen (x :: r) =? 0) with false
      by (symmetry; apply N.eqb_neq; unfold nlen; simpl; lia).
    replace (nlen (x :: r) - 1) with (nlen r) by (unfold nlen; simpl length; lia).
    cbn [flat_map] in *. rewrite <- app_assoc in *.
    destruct (Hx _ _ Hok Hlen) as (b1 & -> & Hok1). cbn [bind].
    destruct (IH g rest b1 Hok1) as (b2 & -> & Hok2).
    + rewrite app_length in Hlen. lia.
    + simpl in Hgf. lia.
    + cbn [bind map]. exists b2; auto.
Qed.

Lemma parse_ioarg_marshal a : wf_io a -> forall fuel, io_rt fuel a.
Proof.
  induction a as [n t comp IH] using ioarg_ind'. intros Hwf fuel rest b Hok Hlen.
  cbn [wf_io] in Hwf. destruct Hwf as (Hn & Hpr & Hts & Hbits & Hcnt & Hall).
  apply wf_io_all in Hall.
  destruct fuel as [|f]; [lia|].
  cbn [marshal_ioarg norm_io] in *. rewrite <- !app_assoc in *.
  cbn [parse_ioarg].
  destruct (parse_string_exact n _ b Hn Hok) as (b1 & -> & Hok1). cbn [bind].
  destruct (parse_string_exact (info_string t) _ b1 Hts Hok1) as (b2 & -> & Hok2). cbn [bind].
  destruct (read_u32_exact (u32 (i_bits t)) _ b2 (u32_lt _) Hok2) as (b3 & -> & Hok3). cbn [bind].
  destruct (type_roundtrip t Hpr) as [-> _]. cbn [bind].
  rewrite N.mod_small in * by exact Hcnt.
  destruct (read_u32_exact (nlen comp) _ b3 Hcnt Hok3) as (b4 & -> & Hok4). cbn [bind].
  rewrite wrap32_u32 by exact Hbits.
  assert (Hl4 : (length (flat_map marshal_ioarg comp ++ rest) < f)%nat).
  { unfold marshal_string in Hlen. rewrite !app_length, !be32_length in Hlen.
    rewrite app_length. lia. }
  destruct (repeat_parse_marshal f comp) with (gf := f) (rest := rest) (b := b4) as (b5 & -> & Hok5); auto.
  - rewrite Forall_forall in *. intros x Hx. apply IH; auto.
  - pose proof (flat_map_len comp). rewrite app_length in Hl4. lia.
  - cbn [bind]. exists b5. auto.
Qed.

Lemma check_in_true s i : i < s_len s -> smem s i = true -> check_in s i = Ok tt.
Proof.
  intros H1 H2. unfold check_in, seen_get. apply N.leb_gt in H1. rewrite H1.
  unfold smem in H2. rewrite H2. reflexivity.
Qed.

Lemma seen_set_some s o : o < s_len s -> exists s', seen_set s o = Some s'.
Proof. intros H. unfold seen_set. apply N.leb_gt in H. rewrite H. eauto. Qed.

Lemma op_of_code_code o : op_of_code (op_code o) = Some o.
Proof. destruct o; reflexivity. Qed.

Lemma marshal_norm_gate g : marshal_gate (norm_gate g) = marshal_gate g.
Proof. destruct g as [o i0 i1 out]. destruct o; reflexivity. Qed.

Lemma seen_set_chk_ok iw s o : (iw <= Z.of_N o)%Z -> seen_set_chk iw s o = seen_set s o.
Proof. intros H. unfold seen_set_chk. apply Z.ltb_ge in H. rewrite H. reflexivity. Qed.

Lemma gates_marshal iw gs : forall fuel ng b s gate acc (def : N -> Prop),
  (forall w, smem s w = true <-> def w) -> dbu (s_len s) def gs -> no_input_overwrite iw gs -> s_len s <= two32 ->
  gate + nlen gs <= ng -> rd_ok (flat_map marshal_gate gs, b) ->
  (length (flat_map marshal_gate gs) < fuel)%nat ->
  exists s', mpclc_gates true iw fuel ng (flat_map marshal_gate gs, b) s gate acc
             = Ok (rev acc ++ map norm_gate gs, s', gate + nlen gs)
     /\ s_len s' = s_len s /\ forall w, smem s' w = true <-> defs def gs w.
Proof.
  induction gs as [|g t IH]; intros fuel ng b s gate acc def Hdef Hdbu Hnio Hlen Hng Hok Hf;
    (destruct fuel as [|f]; [lia|]).
  - simpl. exists s. rewrite app_nil_r. replace (gate + nlen (@nil gateN)) with gate by (unfold nlen; simpl; lia).
    repeat split; auto.
    + intros H. left. apply Hdef; auto.
    + intros [H|(g & [] & _)]. apply Hdef; auto.
  - cbn [dbu] in Hdbu. destruct Hdbu as (Hi0 & Hd0 & Hi1 & Hout & Hrest).
    inversion Hnio as [|? ? Hio Hnio']; subst.
    assert (Hgate : (ng <=? gate) = false).
    { apply N.leb_gt. unfold nlen in Hng. simpl length in Hng. lia. }
    assert (Hn1 : gate + 1 + nlen t = gate + nlen (g :: t)) by (unfold nlen; simpl length; lia).
    destruct (seen_set_some s (g_out g) Hout) as (s1 & Hset).
    destruct (seen_set_ok _ _ _ Hset) as (_ & Hl1 & Hm1).
    assert (Hdef1 : forall w, smem s1 w = true <-> (def w \/ w = g_out g)).
    { intros w. rewrite Hm1, Hdef. reflexivity. }
    rewrite <- Hl1 in Hrest, Hlen.
    cbn [flat_map] in *. cbn [mpclc_gates].
    destruct g as [o i0 i1 out]. cbn [g_op g_in0 g_in1 g_out] in *.
    assert (Hrb : exists b1, read_byte (marshal_gate (mkG o i0 i1 out) ++ flat_map marshal_gate t, b)
                  = Some (op_code o, (tl (marshal_gate (mkG o i0 i1 out)) ++ flat_map marshal_gate t, b1))
                  /\ rd_ok (tl (marshal_gate (mkG o i0 i1 out)) ++ flat_map marshal_gate t, b1)).
    { destruct o; eexists; (split; [reflexivity|]);
        (eapply read_byte_spec; [exact Hok|reflexivity]). }
    destruct Hrb as (b1 & -> & Hok1). cbn [andb]. rewrite Hgate, op_of_code_code.
    assert (Hlt : (length (flat_map marshal_gate t) < f)%nat).
    { rewrite app_length in Hf. destruct o; simpl in Hf; lia. }
    destruct o.
    1-4: cbn [marshal_gate g_op g_in0 g_in1 g_out tl app] in *;
         match goal with |- context [read_full 12 (?l, _)] =>
           replace l with ((be32 i0 ++ be32 i1 ++ be32 out) ++ flat_map marshal_gate t) in *
             by (rewrite <- !app_assoc; reflexivity) end;
         destruct (read_full_exact_n 12 (be32 i0 ++ be32 i1 ++ be32 out) (flat_map marshal_gate t) b1 eq_refl Hok1)
           as (b2 & -> & Hok2); cbn [bind]; cbv zeta;
         change (firstn 4 (be32 i0 ++ be32 i1 ++ be32 out)) with (be32 i0);
         change (firstn 4 (skipn 4 (be32 i0 ++ be32 i1 ++ be32 out))) with (be32 i1);
         change (skipn 8 (be32 i0 ++ be32 i1 ++ be32 out)) with (be32 out);
         destruct (Hi1 ltac:(discriminate)) as [Hi1a Hi1b];
         rewrite !of_be32_be32 by (unfold two32 in *; lia);
         rewrite (check_in_true s i0) by (auto; apply Hdef; auto); cbn [bind];
         rewrite (check_in_true s i1) by (auto; apply Hdef; auto); cbn [bind];
         rewrite (seen_set_chk_ok iw s out Hio), Hset;
         match goal with |- context [mpclc_gates true _ _ _ _ _ _ (?g' :: _)] =>
           destruct (IH f ng b2 s1 (gate + 1) (g' :: acc) (fun w => def w \/ w = out) Hdef1 Hrest Hnio' Hlen
                       ltac:(lia) Hok2 Hlt) as (s' & -> & Hl' & Hm') end;
         exists s'; rewrite Hn1; (split; [cbn [rev map norm_gate g_op]; rewrite <- app_assoc; reflexivity|]);
         (split; [congruence|]); intros w; rewrite defs_cons; apply Hm'.
    cbn [marshal_gate g_op g_in0 g_in1 g_out tl app] in *.
    match goal with |- context [read_full 8 (?l, _)] =>
      replace l with ((be32 i0 ++ be32 out) ++ flat_map marshal_gate t) in *
        by (rewrite <- !app_assoc; reflexivity) end.
    destruct (read_full_exact_n 8 (be32 i0 ++ be32 out) (flat_map marshal_gate t) b1 eq_refl Hok1)
      as (b2 & -> & Hok2). cbn [bind]. cbv zeta.
    change (firstn 4 (be32 i0 ++ be32 out)) with (be32 i0).
    change (skipn 4 (be32 i0 ++ be32 out)) with (be32 out).
    rewrite !of_be32_be32 by (unfold two32 in *; lia).
    rewrite (check_in_true s i0) by (auto; apply Hdef; auto). cbn [bind].
    rewrite (seen_set_chk_ok iw s out Hio), Hset.
    destruct (IH f ng b2 s1 (gate + 1) (mkG INV i0 0 out :: acc) (fun w => def w \/ w = out) Hdef1 Hrest Hnio' Hlen
                ltac:(lia) Hok2 Hlt) as (s' & -> & Hl' & Hm').
    exists s'. rewrite Hn1. split; [cbn [rev map norm_gate g_op g_in0 g_out]; rewrite <- app_assoc; reflexivity|].
    split; [congruence|]. intros w. rewrite defs_cons. apply Hm'.
Qed.

(* size bounds of the format (uint32 fields), printable types, and the circuit invariant
   the parser checks ([parse_sound]: gate count, inputs defined before use, all wires assigned) *)
Definition wf_marshal (c : fcircuit) : Prop :=
  (c_numgates c < 4294967296)%Z /\ (c_numwires c < 4294967296)%Z /\
  nlen (c_inputs c) < two32 /\ nlen (c_outputs c) < two32 /\
  Forall wf_io (c_inputs c) /\ Forall wf_io (c_outputs c) /\ parse_sound c.

Lemma i_bits_set_bits x b : i_bits (set_bits x b) = b.
Proof. destruct x; reflexivity. Qed.

Lemma io_size_norm l : io_size (map norm_io l) = io_size l.
Proof.
  unfold io_size. generalize 0%Z. induction l as [|a t IH]; intros z; simpl; [reflexivity|].
  rewrite IH. destruct a as [n ty comp]. cbn [norm_io a_type]. rewrite i_bits_set_bits. reflexivity.
Qed.

Lemma u32_small z : (0 <= z < 4294967296)%Z -> u32 z = Z.to_N z.
Proof. intros H. unfold u32. rewrite Z.mod_small by lia. reflexivity. Qed.

Lemma all_seen_true s : (forall w, w < s_len s -> smem s w = true) -> all_seen s = true.
Proof.
  intros H. unfold all_seen. apply forallb_forall. intros w Hw. apply nrange_In in Hw. apply H. lia.
Qed.

Lemma info_string_set_bits t : printable t -> info_string (set_bits (strip t) (i_bits t)) = info_string t.
Proof.
  intros H. rewrite <- (strip_string t H). inversion H as [ty c b mb st el az Hb Hc Hr | c b mb st e az He Hr | c b mb st e az He]; subst.
  - destruct Hb as [-> | [-> | [-> | [-> | ->]]]]; reflexivity.
  - reflexivity.
  - reflexivity.
Qed.

Lemma marshal_norm_io a : wf_io a -> marshal_ioarg (norm_io a) = marshal_ioarg a.
Proof.
  induction a as [n t comp IH] using ioarg_ind'. intros Hwf.
  cbn [wf_io] in Hwf. destruct Hwf as (Hn & Hpr & Hts & Hbits & Hcnt & Hall). apply wf_io_all in Hall.
  cbn [norm_io marshal_ioarg]. rewrite info_string_set_bits by exact Hpr. rewrite i_bits_set_bits.
  unfold nlen. rewrite map_length.
  assert (Hfm : flat_map marshal_ioarg (map norm_io comp) = flat_map marshal_ioarg comp).
  { clear - IH Hall. induction comp as [|x r IHr]; [reflexivity|].
    inversion IH as [|? ? Hx Hr]; subst. inversion Hall as [|? ? Hwx Hwr]; subst.
    cbn [map flat_map]. rewrite (Hx Hwx). rewrite IHr; auto. }
  rewrite Hfm. reflexivity.
Qed.

Lemma flat_map_norm_io l : Forall wf_io l -> flat_map marshal_ioarg (map norm_io l) = flat_map marshal_ioarg l.
Proof.
  induction 1 as [|x r Hx Hr IH]; [reflexivity|]. cbn [map flat_map]. rewrite marshal_norm_io by exact Hx.
  rewrite IH. reflexivity.
Qed.

Lemma flat_map_norm_gate l : flat_map marshal_gate (map norm_gate l) = flat_map marshal_gate l.
Proof. induction l as [|g t IH]; [reflexivity|]. cbn [map flat_map]. rewrite marshal_norm_gate, IH. reflexivity. Qed.

Lemma marshal_norm c : wf_marshal c -> Marshal (norm c) = Marshal c.
Proof.
  intros (Hg & Hw & Hni & Hno & Hins & Houts & Hs). unfold Marshal, norm.
  cbn [c_numgates c_numwires c_inputs c_outputs c_gates].
  unfold nlen. rewrite !map_length. rewrite !flat_map_norm_io by assumption. rewrite flat_map_norm_gate. reflexivity.
Qed.

Lemma parse_marshal c : wf_marshal c -> ParseMPCLC (Marshal c) = Ok (norm c).
Proof.
  intros (Hg & Hw & Hni & Hno & Hins & Houts & Hs).
  destruct Hs as (Hw0 & Hiw & Hng & Hdbu & Hall & Hnio).
  destruct c as [ng nw ins outs gs]. cbn [c_numgates c_numwires c_inputs c_outputs c_gates] in *.
  assert (Hg0 : (0 <= ng)%Z) by lia.
  unfold ParseMPCLC, parse_mpclc, Marshal. cbn [c_numgates c_numwires c_inputs c_outputs c_gates].
  rewrite !N.mod_small by assumption.
  set (hdr := be32 (Z.to_N circuit_MAGIC) ++ be32 (u32 ng) ++ be32 (u32 nw) ++ be32 (nlen ins) ++ be32 (nlen outs)).
  set (body := flat_map marshal_ioarg ins ++ flat_map marshal_ioarg outs ++ flat_map marshal_gate gs).
  replace (be32 (Z.to_N circuit_MAGIC) ++ be32 (u32 ng) ++ be32 (u32 nw) ++ be32 (nlen ins) ++ be32 (nlen outs) ++ body)
    with (hdr ++ body) by (unfold hdr; rewrite <- !app_assoc; reflexivity).
  remember (S (length (hdr ++ body))) as fuel eqn:Efuel.
  destruct (read_full_exact_n 20 hdr body 0 eq_refl (rd_ok_init _)) as (b1 & -> & Hok1). cbn [bind]. cbv zeta.
  change (firstn 4 (skipn 4 hdr)) with (be32 (u32 ng)).
  change (firstn 4 (skipn 8 hdr)) with (be32 (u32 nw)).
  change (firstn 4 (skipn 12 hdr)) with (be32 (nlen ins)).
  change (skipn 16 hdr) with (be32 (nlen outs)).
  rewrite !of_be32_be32 by (try apply u32_lt; assumption).
  assert (Hfuel : (length body < fuel)%nat) by (subst fuel; rewrite app_length; lia).
  clear Efuel.
  (* inputs *)
  unfold parse_ioargs. unfold body in *.
  destruct (repeat_parse_marshal fuel ins) with (gf := fuel) (b := b1)
    (rest := flat_map marshal_ioarg outs ++ flat_map marshal_gate gs) as (b2 & -> & Hok2); auto.
  { rewrite Forall_forall in *. intros x Hx. apply parse_ioarg_marshal; auto. }
  { pose proof (flat_map_len ins). rewrite !app_length in *. lia. }
  cbn [bind].
  destruct (repeat_parse_marshal fuel outs) with (gf := fuel) (b := b2)
    (rest := flat_map marshal_gate gs) as (b3 & -> & Hok3); auto.
  { rewrite Forall_forall in *. intros x Hx. apply parse_ioarg_marshal; auto. }
  { rewrite !app_length in *. lia. }
  { pose proof (flat_map_len outs). rewrite !app_length in *. lia. }
  cbn [bind]. rewrite io_size_norm.
  rewrite (u32_small nw) by lia. rewrite (u32_small ng) by lia.
  destruct (mark_inputs (mkSeen (Z.to_N nw) PositiveSet.empty) (io_size ins)) as [s0|] eqn:Em.
  2:{ unfold mark_inputs in Em. cbn [s_len] in Em.
      destruct (Z.of_N (Z.to_N nw) <? io_size ins)%Z eqn:E; [apply Z.ltb_lt in E; lia|discriminate]. }
  destruct (mark_inputs_ok _ _ _ Em) as (Hl0 & _ & Hm0).
  destruct (gates_marshal (io_size ins) gs fuel (Z.to_N ng) b3 s0 0 [] (fun w => (Z.of_N w < io_size ins)%Z))
    as (s' & -> & Hl' & Hm'); auto.
  { rewrite Hl0. exact Hdbu. }
  { rewrite Hl0. unfold two32. lia. }
  { unfold nlen. lia. }
  { rewrite !app_length in *. lia. }
  cbn [bind].
  replace (0 + nlen gs =? Z.to_N ng) with true by (symmetry; apply N.eqb_eq; unfold nlen; lia).
  rewrite all_seen_true.
  2:{ intros w Hlt. apply Hm'. apply Hall. rewrite Hl', Hl0 in Hlt. exact Hlt. }
  cbn [negb]. unfold norm. cbn [c_numgates c_numwires c_inputs c_outputs c_gates rev app].
  rewrite !Z2N.id by lia. reflexivity.
Qed.

(* MPCLC round trip *)
Theorem mpclc_roundtrip c : wf_marshal c ->
  ParseMPCLC (Marshal c) = Ok (norm c) /\ Marshal (norm c) = Marshal c.
Proof. intros H. split; [apply parse_marshal|apply marshal_norm]; exact H. Qed.

(* ================================================================== *)
(* ParseBristol: soundness of an Ok result *)

Lemma bristol_ins_sound line : forall n base s l, bristol_ins line base n s = Ok l ->
  length l = n /\ Forall (fun v => v < s_len s /\ smem s v = true) l.
Proof.
  induction n as [|k IH]; intros base s l; simpl.
  - intros H; inversion H; subst. split; [reflexivity|constructor].
  - destruct (nth_error line base) as [f|]; [|discriminate].
    destruct (parse_uint32 f) as [v|]; [|discriminate].
    destruct (check_in s v) as [[]| | |] eqn:Ec; cbn [bind]; try discriminate.
    destruct (bristol_ins line (S base) k s) as [l'| | |] eqn:E; cbn [bind]; try discriminate.
    intros H; inversion H; subst. destruct (IH _ _ _ E) as [Hl Hf]. split; [simpl; lia|].
    constructor; auto. eapply check_in_ok; eauto.
Qed.

Lemma bristol_outs_sound iw line : forall n base s l s', bristol_outs iw line base n s = Ok (l, s') ->
  length l = n /\ s_len s' = s_len s /\ Forall (fun v => v < s_len s /\ (iw <= Z.of_N v)%Z) l /\
  forall w, smem s' w = true <-> (smem s w = true \/ In w l).
Proof.
  induction n as [|k IH]; intros base s l s'; simpl.
  - intros H; inversion H; subst. repeat split; auto. intros [H0|[]]; auto.
  - destruct (nth_error line base) as [f|]; [|discriminate].
    destruct (parse_uint32 f) as [v|]; [|discriminate].
    destruct (seen_set_chk iw s v) as [s1|] eqn:Ec; [|discriminate].
    destruct (seen_set_chk_some _ _ _ _ Ec) as [Es Hiv].
    destruct (seen_set_ok _ _ _ Es) as (Hv & Hl1 & Hm1).
    destruct (bristol_outs iw line (S base) k s1) as [[l' s'']| | |] eqn:E; cbn [bind]; try discriminate.
    intros H; inversion H; subst. destruct (IH _ _ _ _ E) as (Hl & Hlen & Hf & Hm).
    repeat split.
    + simpl; lia.
    + congruence.
    + constructor; auto. rewrite Hl1 in Hf. exact Hf.
    + rewrite Hm, Hm1. simpl. intros [[H0|H0]|H0]; auto.
    + rewrite Hm, Hm1. simpl. intros [H0|[H0|H0]]; auto.
Qed.

Lemma bristol_gate_line_sound iw line s g s' : bristol_gate_line iw line s = Ok (g, s') ->
  (iw <= Z.of_N (g_out g))%Z /\ g_in0 g < s_len s /\ smem s (g_in0 g) = true /\
  (g_op g <> INV -> g_in1 g < s_len s /\ smem s (g_in1 g) = true) /\
  g_out g < s_len s /\ s_len s' = s_len s /\
  forall w, smem s' w = true <-> (smem s w = true \/ w = g_out g).
Proof.
  unfold bristol_gate_line. destruct (length line <? 3)%nat; [discriminate|].
  destruct (nth_error line 0) as [f0|]; [|discriminate]. destruct (nth_error line 1) as [f1|]; [|discriminate].
  destruct (atoi f0) as [n1|]; [|discriminate]. destruct (atoi f1) as [n2|]; [|discriminate].
  destruct (_ || _); [discriminate|]. destruct (negb _); [discriminate|].
  destruct (bristol_ins line 2 (Z.to_nat n1) s) as [ins| | |] eqn:Ei; cbn [bind]; try discriminate.
  destruct (bristol_outs iw line (2 + Z.to_nat n1) (Z.to_nat n2) s) as [[outs s1]| | |] eqn:Eo; cbn [bind]; try discriminate.
  destruct (bristol_ins_sound _ _ _ _ _ Ei) as [_ Hins].
  destruct (bristol_outs_sound _ _ _ _ _ _ _ Eo) as (_ & Hlen & Houts & Hm).
  destruct (op_of_name (last line [])) as [o|]; [|discriminate].
  destruct (negb (length ins =? _)%nat) eqn:E1; [discriminate|].
  destruct (negb (length outs =? 1)%nat) eqn:E2; [discriminate|].
  apply negb_false_iff, Nat.eqb_eq in E1, E2.
  destruct ins as [|i0 rest]; [discriminate|]. destruct outs as [|o1 [|? ?]]; try discriminate.
  intros H; inversion H; subst; clear H. cbn [g_op g_in0 g_in1 g_out].
  inversion Hins as [|? ? [Ha Hb] Hrest]; subst. inversion Houts as [|? ? [Ho Hoi] _]; subst.
  repeat split; auto.
  - destruct rest as [|i1 ?]; [destruct o; simpl in E1; try discriminate; congruence|].
    inversion Hrest as [|? ? [Hc Hd] _]; subst. exact Hc.
  - destruct rest as [|i1 ?]; [destruct o; simpl in E1; try discriminate; congruence|].
    inversion Hrest as [|? ? [Hc Hd] _]; subst. exact Hd.
  - rewrite Hm. simpl. intros [H0|[H0|[]]]; auto.
  - rewrite Hm. simpl. intros [H0|H0]; auto.
Qed.

Lemma bristol_gates_sound iw ng lines : forall s gate gs s' n,
  bristol_gates iw ng lines s gate = Ok (gs, s', n) ->
  n = (gate + Z.of_nat (length gs))%Z /\ s_len s' = s_len s /\ no_input_overwrite iw gs /\
  forall def : N -> Prop, (forall w, smem s w = true <-> def w) ->
    dbu (s_len s) def gs /\ (forall w, smem s' w = true <-> defs def gs w).
Proof.
  induction lines as [|line rest IH]; intros s gate gs s' n; simpl.
  - intros H; inversion H; subst. split; [simpl; lia|]. split; [reflexivity|]. split; [constructor|].
    intros def H0. split; [exact I|]. intros w. split.
    + intros Hw. left. apply H0; auto.
    + intros [Hd|(g & [] & _)]. apply H0; auto.
  - destruct (ng <=? gate)%Z; [discriminate|].
    destruct (bristol_gate_line iw line s) as [[g s1]| | |] eqn:Eg; cbn [bind]; try discriminate.
    destruct (bristol_gates iw ng rest s1 (gate + 1)%Z) as [[[gs1 s2] n1]| | |] eqn:Er; cbn [bind]; try discriminate.
    intros H; inversion H; subst; clear H.
    destruct (bristol_gate_line_sound _ _ _ _ _ Eg) as (Hgi & H0 & H1 & H2 & H3 & Hl1 & Hm1).
    destruct (IH _ _ _ _ _ Er) as (-> & Hl2 & Hn2 & Hinv).
    split; [simpl length; lia|]. split; [congruence|]. split; [constructor; assumption|].
    intros def Hdef. destruct (Hinv (fun w => def w \/ w = g_out g)) as [Hd Hm].
    { intros w. rewrite Hm1, Hdef. reflexivity. }
    split.
    + rewrite Hl1 in Hd. simpl. repeat split; auto.
      * apply Hdef; auto.
      * apply H2; auto.
      * apply Hdef, H2; auto.
    + intros w. rewrite defs_cons. apply Hm.
Qed.

Lemma bristol_io_size pre fs : forall i l, bristol_io pre i fs = Ok l -> True.
Proof. auto. Qed.

Theorem bristol_sound bs c : ParseBristol bs = Ok c -> parse_sound c.
Proof.
  unfold ParseBristol.
  destruct (bristol_lines bs) as [|l1 rest1]; [discriminate|].
  destruct l1 as [|f0 [|f1 [|? ?]]]; try discriminate.
  destruct (atoi f0) as [ng|]; [|discriminate]. destruct (_ || _); [discriminate|].
  destruct (atoi f1) as [nw|]; [|discriminate].
  destruct ((nw <? 0)%Z || (maxInt32 <? nw)%Z) eqn:Enw; [discriminate|].
  apply orb_false_iff in Enw. destruct Enw as [Hnw0 _]. apply Z.ltb_ge in Hnw0.
  destruct rest1 as [|l2 rest2]; [discriminate|]. destruct l2 as [|g0 gt]; [discriminate|].
  destruct (atoi g0) as [niv|]; [|discriminate]. destruct (negb _); [discriminate|].
  destruct (bristol_io [78; 73] 1 gt) as [ins| | |]; cbn [bind]; try discriminate.
  destruct (io_size ins =? 0)%Z; [discriminate|].
  destruct (mark_inputs _ _) as [s0|] eqn:Em; [|discriminate].
  destruct (mark_inputs_ok _ _ _ Em) as (Hl0 & Hiw & Hm0).
  destruct rest2 as [|l3 rest3]; [discriminate|]. destruct l3 as [|h0 ht]; [discriminate|].
  destruct (atoi h0) as [nov|]; [|discriminate]. destruct (negb _); [discriminate|].
  destruct (bristol_io [78; 79] 1 ht) as [outs| | |]; cbn [bind]; try discriminate.
  destruct (bristol_gates _ ng rest3 s0 0%Z) as [[[gs s] gate]| | |] eqn:Eg; cbn [bind]; try discriminate.
  destruct (bristol_gates_sound _ _ _ _ _ _ _ _ Eg) as (-> & Hl & Hnio & Hinv).
  destruct (negb (_ =? ng)%Z) eqn:E1; [discriminate|]. destruct (negb (all_seen s)) eqn:E2; [discriminate|].
  apply negb_false_iff in E1, E2. apply Z.eqb_eq in E1.
  intros H; inversion H; subst c; clear H. unfold parse_sound.
  cbn [c_numwires c_numgates c_inputs c_gates].
  destruct (Hinv (fun w => (Z.of_N w < io_size ins)%Z) Hm0) as [Hd Hm].
  rewrite Hl0 in *. rewrite Z2N.id in Hiw by exact Hnw0. repeat split; auto.
  all: try lia.
  intros w Hw. apply Hm. apply all_seen_ok; auto. rewrite Hl. exact Hw.
Qed.

(* ================================================================== *)
(* Bristol text: lines, trimming, fields *)

Definition join (toks : list (list byte)) : list byte :=
  match toks with [] => [] | t :: r => t ++ flat_map (fun x => 32 :: x) r end.
Definition wordc (x : byte) : bool := negb (ascii_space x) && (x <? 128).
Definition word (t : list byte) : Prop := t <> [] /\ forallb wordc t = true.

Lemma wordc_nl x : wordc x = true -> (x =? 10) = false.
Proof.
  unfold wordc. intros H. apply andb_true_iff in H. destruct H as [H _]. apply negb_true_iff in H.
  destruct (N.eqb_spec x 10); [subst; discriminate|reflexivity].
Qed.

Lemma nl_lines_app body : forall rest cur, forallb (fun x => negb (x =? 10)) body = true ->
  nl_lines_aux (body ++ 10 :: rest) cur = (rev cur ++ body ++ [10]) :: nl_lines_aux rest [].
Proof.
  induction body as [|x t IH]; intros rest cur H; simpl.
  - reflexivity.
  - simpl in H. apply andb_true_iff in H. destruct H as [Hx Ht]. apply negb_true_iff in Hx. rewrite Hx.
    rewrite IH by exact Ht. simpl. rewrite <- app_assoc. reflexivity.
Qed.

Lemma uspace_len_ascii x t : x < 128 -> uspace_len (x :: t) = 0%nat.
Proof.
  intros H. unfold uspace_len. destruct t as [|b t']; [reflexivity|].
  assert ((x =? 194) = false) as -> by (apply N.eqb_neq; lia).
  assert ((x =? 225) = false) as -> by (apply N.eqb_neq; lia).
  assert ((x =? 226) = false) as -> by (apply N.eqb_neq; lia).
  assert ((x =? 227) = false) as -> by (apply N.eqb_neq; lia).
  simpl. destruct t'; reflexivity.
Qed.

Lemma uspace_len_rev_ascii b t : b < 128 -> uspace_len_rev (b :: t) = 0%nat.
Proof.
  intros H. unfold uspace_len_rev. destruct t as [|a t']; [reflexivity|].
  assert (E1 : (b =? 133) = false) by (apply N.eqb_neq; lia).
  assert (E2 : (b =? 160) = false) by (apply N.eqb_neq; lia).
  assert (E3 : (b =? 128) = false) by (apply N.eqb_neq; lia).
  assert (E4 : (b =? 159) = false) by (apply N.eqb_neq; lia).
  assert (E5 : (128 <=? b) = false) by (apply N.leb_gt; lia).
  assert (E6 : (b =? 168) = false) by (apply N.eqb_neq; lia).
  assert (E7 : (b =? 169) = false) by (apply N.eqb_neq; lia).
  assert (E8 : (b =? 175) = false) by (apply N.eqb_neq; lia).
  unfold uspace_len. rewrite E1, E2. cbn [orb]. rewrite andb_false_r. cbn [Nat.eqb].
  destruct t' as [|z t'']; [reflexivity|].
  rewrite E3, E4, E5, E6, E7, E8. cbn [orb andb]. rewrite !andb_false_r.
  destruct ((z =? 194) && ((a =? 133) || (a =? 160))); reflexivity.
Qed.

Lemma ltrim_word ulen fuel x t : ascii_space x = false -> ulen (x :: t) = 0%nat ->
  ltrim_gen ulen (S fuel) (x :: t) = x :: t.
Proof. intros H1 H2. simpl. rewrite H1, H2. reflexivity. Qed.

Lemma wordc_split x : wordc x = true -> ascii_space x = false /\ x < 128.
Proof.
  unfold wordc. intros H. apply andb_true_iff in H. destruct H as [H1 H2].
  apply negb_true_iff in H1. apply N.ltb_lt in H2. auto.
Qed.

(* a line made of words separated by single spaces is its own trimmed form *)
Lemma join_head_last toks : Forall word toks -> toks <> [] ->
  exists x t y t', join toks = x :: t /\ rev (join toks) = y :: t' /\ wordc x = true /\ wordc y = true.
Proof.
  intros Hw Hne. destruct toks as [|t0 r]; [congruence|]. inversion Hw as [|? ? [Hn0 Hc0] Hr]; subst.
  destruct t0 as [|x t0']; [congruence|]. cbn [join app].
  assert (Hx : wordc x = true) by (simpl in Hc0; apply andb_true_iff in Hc0; tauto).
  assert (Hlast : exists y t', rev ((x :: t0') ++ flat_map (fun z => 32 :: z) r) = y :: t' /\ wordc y = true).
  { clear Hw Hne Hn0. revert x t0' Hc0 Hx. induction Hr as [|t1 r' [Hn1 Hc1] Hr' IH]; intros x t0' Hc0 Hx.
    - simpl flat_map. rewrite app_nil_r. 
      destruct (rev (x :: t0')) as [|y t'] eqn:E.
      + apply (f_equal (@length byte)) in E. rewrite rev_length in E. discriminate.
      + exists y, t'. split; auto. rewrite forallb_forall in Hc0. apply Hc0. apply in_rev. rewrite E. left; reflexivity.
    - cbn [flat_map]. destruct t1 as [|x1 t1']; [congruence|].
      assert (Hx1 : wordc x1 = true) by (simpl in Hc1; apply andb_true_iff in Hc1; tauto).
      destruct (IH x1 t1' Hc1 Hx1) as (y & t' & E & Hy).
      rewrite rev_app_distr.
      exists y, (t' ++ [32] ++ rev (x :: t0')). split; [|exact Hy].
      transitivity ((rev ((x1 :: t1') ++ flat_map (fun z => 32 :: z) r') ++ [32]) ++ rev (x :: t0')); [reflexivity|].
      transitivity (((y :: t') ++ [32]) ++ rev (x :: t0')).
      { f_equal. f_equal. exact E. }
      simpl. rewrite <- app_assoc. reflexivity. }
  destruct Hlast as (y & t' & E & Hy). exists x, (t0' ++ flat_map (fun z => 32 :: z) r), y, t'. auto.
Qed.

Lemma trim_join toks : Forall word toks -> trim_space (join toks ++ [10]) = join toks.
Proof.
  intros Hw. destruct toks as [|t0 r] eqn:Et.
  - reflexivity.
  - rewrite <- Et in *. assert (Hne : toks <> []) by (subst; discriminate).
    destruct (join_head_last toks Hw Hne) as (x & t & y & t' & E1 & E2 & Hx & Hy).
    destruct (wordc_split _ Hx) as [Hx1 Hx2]. destruct (wordc_split _ Hy) as [Hy1 Hy2].
    unfold trim_space. rewrite E1. cbn [app length].
    rewrite (ltrim_word uspace_len (length (t ++ [10])) x (t ++ [10]) Hx1 (uspace_len_ascii x (t ++ [10]) Hx2)).
    assert (Hrev : rev (x :: t ++ [10]) = 10 :: y :: t').
    { change (x :: t ++ [10]) with ((x :: t) ++ [10]). rewrite rev_app_distr. rewrite <- E1, E2. reflexivity. }
    rewrite Hrev. cbn [length]. rewrite app_length, Nat.add_1_r.
    change (ltrim_gen uspace_len_rev (S (S (length t))) (10 :: y :: t'))
      with (ltrim_gen uspace_len_rev (S (length t)) (y :: t')).
    rewrite (ltrim_word uspace_len_rev (length t) y t' Hy1 (uspace_len_rev_ascii y t' Hy2)).
    rewrite <- E2, rev_involutive. exact E1.
Qed.

Lemma fields_aux_word t : forall rest cur, forallb wordc t = true ->
  fields_aux (t ++ rest) cur = fields_aux rest (rev t ++ cur).
Proof.
  induction t as [|x t' IH]; intros rest cur H; [reflexivity|].
  simpl in H. apply andb_true_iff in H. destruct H as [Hx Ht]. destruct (wordc_split _ Hx) as [Hs _].
  cbn [app fields_aux]. rewrite Hs. rewrite IH by exact Ht. simpl. rewrite <- app_assoc. reflexivity.
Qed.

Lemma fields_join toks : Forall word toks -> fields (join toks) = toks.
Proof.
  intros Hw. unfold fields. destruct toks as [|t0 r]; [reflexivity|].
  inversion Hw as [|? ? [Hn0 Hc0] Hr]; subst. cbn [join].
  rewrite fields_aux_word by exact Hc0. rewrite app_nil_r.
  revert t0 Hn0 Hc0 Hw. induction Hr as [|t1 r' [Hn1 Hc1] Hr' IH]; intros t0 Hn0 Hc0 Hw.
  - simpl. destruct (rev t0) eqn:E; [|rewrite <- E, rev_involutive; reflexivity].
    apply (f_equal (@length byte)) in E. rewrite rev_length in E. destruct t0; [congruence|discriminate].
  - cbn [flat_map app fields_aux]. change (ascii_space 32) with true. cbv iota.
    destruct (rev t0) eqn:E.
    { apply (f_equal (@length byte)) in E. rewrite rev_length in E. destruct t0; [congruence|discriminate]. }
    rewrite <- E, rev_involutive. f_equal.
    rewrite fields_aux_word by exact Hc1. rewrite app_nil_r. apply IH; auto. constructor; auto. split; auto.
Qed.

Definition is_nil {A} (l : list A) : bool := match l with [] => true | _ => false end.

Lemma join_nonl toks : Forall word toks -> forallb (fun x => negb (x =? 10)) (join toks) = true.
Proof.
  intros Hw. destruct toks as [|t0 r]; [reflexivity|]. inversion Hw as [|? ? [_ Hc0] Hr]; subst. cbn [join].
  rewrite forallb_app. apply andb_true_iff. split.
  - apply forallb_forall. intros x Hx. rewrite forallb_forall in Hc0. rewrite (wordc_nl x); auto.
  - clear Hw Hc0. induction Hr as [|t1 r' [_ Hc1] _ IH]; [reflexivity|].
    cbn [flat_map]. rewrite forallb_app. apply andb_true_iff. split; [|exact IH].
    simpl. apply forallb_forall. intros x Hx. rewrite forallb_forall in Hc1. rewrite (wordc_nl x); auto.
Qed.

Lemma join_nil_iff toks : Forall word toks -> is_nil (join toks) = is_nil toks.
Proof.
  intros Hw. destruct toks as [|t0 r]; [reflexivity|]. inversion Hw as [|? ? [Hn0 _] _]; subst.
  cbn [join]. destruct t0; [congruence|reflexivity].
Qed.

Lemma bristol_lines_join tl : Forall (Forall word) tl ->
  bristol_lines (flat_map (fun toks => join toks ++ [10]) tl) = filter (fun t => negb (is_nil t)) tl.
Proof.
  unfold bristol_lines. induction 1 as [|toks r Hw Hr IH]; [reflexivity|].
  cbn [flat_map]. rewrite <- app_assoc. cbn [app].
  rewrite nl_lines_app by (apply join_nonl; auto). cbn [rev app map].
  rewrite trim_join by exact Hw. cbn [filter].
  pose proof (join_nil_iff toks Hw) as Hn. unfold is_nil in Hn.
  destruct (join toks) as [|x t] eqn:Ej.
  - destruct toks; [|discriminate]. cbn [is_nil negb]. exact IH.
  - destruct toks as [|t0 r0]; [discriminate|]. cbn [is_nil negb map]. rewrite <- Ej, fields_join by exact Hw.
    f_equal. exact IH.
Qed.

(* ================================================================== *)
(* Bristol round trip *)

Definition io_toks (l : list ioarg) : list (list byte) :=
  dec_N (nlen l) :: map (fun a => dec_Z (i_bits (a_type a))) l.
Definition gate_toks (g : gateN) : list (list byte) :=
  match g_op g with
  | INV => [[49]; [49]; dec_N (g_in0 g); dec_N (g_out g); op_name INV]
  | o => [[50]; [49]; dec_N (g_in0 g); dec_N (g_in1 g); dec_N (g_out g); op_name o]
  end.

Fixpoint uint_args (pre : list byte) (i : nat) (l : list ioarg) : list ioarg :=
  match l with
  | [] => []
  | a :: r => uint_arg pre i (i_bits (a_type a)) :: uint_args pre (S i) r
  end.
(* what survives a round trip through the Bristol format: counts, sizes, gates *)
Definition bristol_norm (c : fcircuit) : fcircuit :=
  mkFC (c_numgates c) (c_numwires c) (uint_args [78; 73] 1 (c_inputs c)) (uint_args [78; 79] 1 (c_outputs c))
       (map norm_gate (c_gates c)).

Definition bits_ok (l : list ioarg) : Prop :=
  Forall (fun a => (0 <= i_bits (a_type a) < 2147483648)%Z) l /\ (Z.of_N (nlen l) < 9223372036854775807)%Z.
Definition wf_bristol (c : fcircuit) : Prop :=
  (c_numgates c <= maxInt32)%Z /\ (c_numwires c <= maxInt32)%Z /\
  bits_ok (c_inputs c) /\ bits_ok (c_outputs c) /\ (io_size (c_inputs c) <> 0)%Z /\ parse_sound c.

Lemma digits_word l : l <> [] -> forallb is_digit l = true -> word l.
Proof.
  intros Hne H. split; auto. apply forallb_forall. intros x Hx. rewrite forallb_forall in H.
  specialize (H x Hx). unfold is_digit in H. apply andb_true_iff in H. destruct H as [H1 H2].
  apply N.leb_le in H1, H2. unfold wordc, ascii_space. apply andb_true_iff. split.
  - apply negb_true_iff. apply orb_false_iff. split.
    + apply andb_false_iff. right. apply N.leb_gt. lia.
    + apply N.eqb_neq. lia.
  - apply N.ltb_lt. lia.
Qed.

Lemma dec_N_word n : word (dec_N n).
Proof. destruct (dec_N_spec n) as (H1 & H2 & _). apply digits_word; auto. Qed.
Lemma dec_Z_word z : (0 <= z)%Z -> word (dec_Z z).
Proof. intros H. rewrite dec_Z_nonneg by auto. apply dec_N_word. Qed.
Lemma op_name_word o : word (op_name o).
Proof. destruct o; split; try discriminate; reflexivity. Qed.

Lemma flat_map_map32 {A} (f : A -> list byte) l :
  flat_map (fun x => 32 :: x) (map f l) = flat_map (fun a => 32 :: f a) l.
Proof. induction l as [|a r IH]; [reflexivity|]. simpl. rewrite IH. reflexivity. Qed.

Lemma bristol_ioline_join l : bristol_ioline l = join (io_toks l) ++ [10].
Proof. unfold bristol_ioline, io_toks. cbn [join]. rewrite flat_map_map32, <- app_assoc. reflexivity. Qed.

Lemma bristol_gate_join g : bristol_gate g = join (gate_toks g) ++ [10].
Proof.
  destruct g as [o i0 i1 out]. unfold bristol_gate, gate_toks. cbn [g_op g_in0 g_in1 g_out].
  destruct o; cbn [join flat_map app]; rewrite <- ?app_assoc; cbn [app]; rewrite ?app_nil_r;
    repeat (rewrite <- ?app_assoc; cbn [app]); reflexivity.
Qed.

Lemma MarshalBristol_lines c :
  MarshalBristol c = flat_map (fun toks => join toks ++ [10])
    ([dec_Z (c_numgates c); dec_Z (c_numwires c)] :: io_toks (c_inputs c) :: io_toks (c_outputs c) :: [] ::
     map gate_toks (c_gates c)).
Proof.
  unfold MarshalBristol. cbn [flat_map]. rewrite !bristol_ioline_join.
  cbn [join flat_map app]. rewrite <- !app_assoc. cbn [app]. rewrite app_nil_r.
  repeat f_equal. induction (c_gates c) as [|g t IH]; [reflexivity|].
  cbn [map flat_map]. rewrite bristol_gate_join, IH. reflexivity.
Qed.

Lemma atoi_dec_N n : (Z.of_N n <= 9223372036854775807)%Z -> atoi (dec_N n) = Some (Z.of_N n).
Proof. intros H. unfold atoi. apply parse_int_dec. lia. Qed.
Lemma atoi_dec_Z z : (0 <= z <= 9223372036854775807)%Z -> atoi (dec_Z z) = Some z.
Proof. intros H. rewrite dec_Z_nonneg by lia. rewrite atoi_dec_N by lia. f_equal. lia. Qed.

Lemma gate_toks_filter gs :
  filter (fun t : list (list byte) => negb (is_nil t)) (map gate_toks gs) = map gate_toks gs.
Proof.
  induction gs as [|g t IH]; [reflexivity|]. cbn [map filter].
  destruct g as [o i0 i1 out]. destruct o; cbn [gate_toks g_op is_nil negb]; rewrite IH; reflexivity.
Qed.

Lemma bristol_io_marshal pre l : Forall (fun a => (0 <= i_bits (a_type a) < 2147483648)%Z) l ->
  forall i, bristol_io pre i (map (fun a => dec_Z (i_bits (a_type a))) l) = Ok (uint_args pre i l).
Proof.
  induction 1 as [|a r Ha Hr IH]; intros i; [reflexivity|]. cbn [map bristol_io uint_args].
  destruct (dec_Z_digits (i_bits (a_type a)) ltac:(lia)) as (_ & _ & ->).
  assert ((i_bits (a_type a) <=? 2147483647)%Z = true) as -> by (apply Z.leb_le; lia).
  assert ((i_bits (a_type a) <? 0)%Z = false) as -> by (apply Z.ltb_ge; lia).
  rewrite IH. reflexivity.
Qed.

Lemma io_size_uint_args pre l : forall i, io_size (uint_args pre i l) = io_size l.
Proof.
  unfold io_size. generalize 0%Z. induction l as [|a r IH]; intros z i; [reflexivity|].
  cbn [uint_args fold_left]. rewrite IH. reflexivity.
Qed.

Local Opaque dec_N check_in parse_uint32 seen_set seen_set_chk.

Lemma bristol_gate_line_marshal iw g s s1 def :
  (forall w, smem s w = true <-> def w) -> s_len s <= two32 ->
  g_in0 g < s_len s -> def (g_in0 g) -> (g_op g <> INV -> g_in1 g < s_len s /\ def (g_in1 g)) ->
  g_out g < s_len s -> (iw <= Z.of_N (g_out g))%Z -> seen_set s (g_out g) = Some s1 ->
  bristol_gate_line iw (gate_toks g) s = Ok (norm_gate g, s1).
Proof.
  intros Hdef Hlen Hi0 Hd0 Hi1 Hout Hio Hset0. destruct g as [o i0 i1 out].
  cbn [g_op g_in0 g_in1 g_out] in *. unfold two32 in Hlen.
  assert (Hc0 : check_in s i0 = Ok tt) by (apply check_in_true; auto; apply Hdef; auto).
  assert (Hp0 : parse_uint32 (dec_N i0) = Some i0) by (apply parse_uint32_dec; lia).
  assert (Hpo : parse_uint32 (dec_N out) = Some out) by (apply parse_uint32_dec; lia).
  assert (Hset : seen_set_chk iw s out = Some s1) by (rewrite seen_set_chk_ok; assumption).
  destruct o.
  1-4: destruct (Hi1 ltac:(discriminate)) as [Hi1a Hi1b];
       assert (Hc1 : check_in s i1 = Ok tt) by (apply check_in_true; auto; apply Hdef; auto);
       assert (Hp1 : parse_uint32 (dec_N i1) = Some i1) by (apply parse_uint32_dec; lia);
       unfold bristol_gate_line, gate_toks; simpl;
       rewrite Hp0, Hc0; simpl; rewrite Hp1, Hc1; simpl; rewrite Hpo, Hset; reflexivity.
  unfold bristol_gate_line, gate_toks; simpl.
  rewrite Hp0, Hc0. simpl. rewrite Hpo, Hset. reflexivity.
Qed.

Lemma bristol_gates_marshal iw gs : forall ng s gate (def : N -> Prop),
  (forall w, smem s w = true <-> def w) -> dbu (s_len s) def gs -> no_input_overwrite iw gs -> s_len s <= two32 ->
  (gate + Z.of_nat (length gs) <= ng)%Z ->
  exists s', bristol_gates iw ng (map gate_toks gs) s gate
             = Ok (map norm_gate gs, s', (gate + Z.of_nat (length gs))%Z)
     /\ s_len s' = s_len s /\ forall w, smem s' w = true <-> defs def gs w.
Proof.
  induction gs as [|g t IH]; intros ng s gate def Hdef Hdbu Hnio Hlen Hng.
  - simpl. exists s. rewrite Z.add_0_r. repeat split; auto.
    + intros H. left. apply Hdef; auto.
    + intros [H|(g & [] & _)]. apply Hdef; auto.
  - cbn [dbu] in Hdbu. destruct Hdbu as (Hi0 & Hd0 & Hi1 & Hout & Hrest).
    inversion Hnio as [|? ? Hio Hnio']; subst.
    assert (Hgate : (ng <=? gate)%Z = false) by (apply Z.leb_gt; simpl length in Hng; lia).
    destruct (seen_set_some s (g_out g) Hout) as (s1 & Hset).
    destruct (seen_set_ok _ _ _ Hset) as (_ & Hl1 & Hm1).
    assert (Hdef1 : forall w, smem s1 w = true <-> (def w \/ w = g_out g)).
    { intros w. rewrite Hm1, Hdef. reflexivity. }
    cbn [map bristol_gates]. rewrite Hgate.
    rewrite (bristol_gate_line_marshal iw g s s1 def Hdef Hlen Hi0 Hd0 Hi1 Hout Hio Hset). cbn [bind].
    rewrite <- Hl1 in Hrest, Hlen.
    destruct (IH ng s1 (gate + 1)%Z (fun w => def w \/ w = g_out g) Hdef1 Hrest Hnio' Hlen) as (s' & -> & Hl' & Hm').
    { simpl length in Hng. lia. }
    cbn [bind]. exists s'. split; [f_equal; f_equal; simpl length; lia|].
    split; [congruence|]. intros w. rewrite defs_cons. apply Hm'.
Qed.

Lemma bristol_ioline_norm pre l i : bristol_ioline (uint_args pre i l) = bristol_ioline l.
Proof.
  unfold bristol_ioline. f_equal.
  - f_equal. unfold nlen. f_equal. revert i. induction l; intros; simpl; auto.
  - f_equal. revert i. induction l as [|a r IH]; intros i; [reflexivity|]. cbn [uint_args flat_map]. rewrite IH. reflexivity.
Qed.

Lemma bristol_norm_gate g : bristol_gate (norm_gate g) = bristol_gate g.
Proof. destruct g as [o i0 i1 out]. destruct o; reflexivity. Qed.

Lemma marshal_bristol_norm c : MarshalBristol (bristol_norm c) = MarshalBristol c.
Proof.
  unfold MarshalBristol, bristol_norm. cbn [c_numgates c_numwires c_inputs c_outputs c_gates].
  rewrite !bristol_ioline_norm.
  assert (Hfm : flat_map bristol_gate (map norm_gate (c_gates c)) = flat_map bristol_gate (c_gates c)).
  { induction (c_gates c) as [|g t IH]; [reflexivity|]. cbn [map flat_map]. rewrite bristol_norm_gate, IH. reflexivity. }
  rewrite Hfm. reflexivity.
Qed.

Lemma io_toks_words l : bits_ok l -> Forall word (io_toks l).
Proof.
  intros [Hb _]. unfold io_toks. constructor; [apply dec_N_word|].
  induction Hb as [|a r Ha Hr IH]; [constructor|]. cbn [map]. constructor; auto. apply dec_Z_word. lia.
Qed.

Lemma gate_toks_words g : Forall word (gate_toks g).
Proof.
  destruct g as [o i0 i1 out]. unfold gate_toks. cbn [g_op g_in0 g_in1 g_out].
  assert (word [49]) by (split; [discriminate|reflexivity]).
  assert (word [50]) by (split; [discriminate|reflexivity]).
  destruct o; repeat constructor; auto; try apply dec_N_word; try apply op_name_word;
    try discriminate.
Qed.

Theorem bristol_roundtrip c : wf_bristol c ->
  ParseBristol (MarshalBristol c) = Ok (bristol_norm c) /\ MarshalBristol (bristol_norm c) = MarshalBristol c.
Proof.
  intros (Hg & Hw & Hbi & Hbo & Hnz & Hs). split; [|apply marshal_bristol_norm].
  destruct Hs as (Hw0 & Hiw & Hng & Hdbu & Hall & Hnio).
  destruct c as [ng nw ins outs gs]. cbn [c_numgates c_numwires c_inputs c_outputs c_gates] in *.
  assert (Hg0 : (0 <= ng)%Z) by lia. unfold maxInt32 in *.
  unfold ParseBristol. rewrite MarshalBristol_lines. cbn [c_numgates c_numwires c_inputs c_outputs c_gates].
  rewrite bristol_lines_join.
  2:{ constructor; [repeat constructor; apply dec_Z_word; lia|].
      constructor; [apply io_toks_words; auto|]. constructor; [apply io_toks_words; auto|].
      constructor; [constructor|]. apply Forall_forall. intros x Hx. apply in_map_iff in Hx.
      destruct Hx as (g & <- & _). apply gate_toks_words. }
  cbn [filter is_nil negb io_toks]. rewrite gate_toks_filter.
  rewrite !atoi_dec_Z by lia.
  assert ((ng <? 0)%Z || (maxInt32 <? ng)%Z = false) as ->
    by (apply orb_false_iff; split; [apply Z.ltb_ge|apply Z.ltb_ge]; unfold maxInt32; lia).
  assert ((nw <? 0)%Z || (maxInt32 <? nw)%Z = false) as ->
    by (apply orb_false_iff; split; [apply Z.ltb_ge|apply Z.ltb_ge]; unfold maxInt32; lia).
  destruct Hbi as [Hbi1 Hbi2]. destruct Hbo as [Hbo1 Hbo2].
  rewrite !atoi_dec_N by lia.
  assert (negb (1 + Z.of_N (nlen ins) =? Z.of_nat (length (io_toks ins)))%Z = false) as ->
    by (apply negb_false_iff, Z.eqb_eq; unfold io_toks; cbn [length]; rewrite map_length; unfold nlen; lia).
  rewrite bristol_io_marshal by exact Hbi1. cbn [bind]. rewrite io_size_uint_args.
  assert ((io_size ins =? 0)%Z = false) as -> by (apply Z.eqb_neq; exact Hnz).
  destruct (mark_inputs (mkSeen (Z.to_N nw) PositiveSet.empty) (io_size ins)) as [s0|] eqn:Em.
  2:{ unfold mark_inputs in Em. cbn [s_len] in Em.
      destruct (Z.of_N (Z.to_N nw) <? io_size ins)%Z eqn:E; [apply Z.ltb_lt in E; lia|discriminate]. }
  destruct (mark_inputs_ok _ _ _ Em) as (Hl0 & _ & Hm0).
  assert (negb (1 + Z.of_N (nlen outs) =? Z.of_nat (length (io_toks outs)))%Z = false) as ->
    by (apply negb_false_iff, Z.eqb_eq; unfold io_toks; cbn [length]; rewrite map_length; unfold nlen; lia).
  rewrite bristol_io_marshal by exact Hbo1. cbn [bind].
  destruct (bristol_gates_marshal (io_size ins) gs ng s0 0%Z (fun w => (Z.of_N w < io_size ins)%Z)) as (s' & -> & Hl' & Hm'); auto.
  { rewrite Hl0. exact Hdbu. }
  { rewrite Hl0. unfold two32. lia. }
  { lia. }
  cbn [bind].
  assert (negb (0 + Z.of_nat (length gs) =? ng)%Z = false) as -> by (apply negb_false_iff, Z.eqb_eq; lia).
  rewrite all_seen_true.
  2:{ intros w Hlt. apply Hm'. apply Hall. rewrite Hl', Hl0 in Hlt. exact Hlt. }
  reflexivity.
Qed.

(* ================================================================== *)
(* non-vacuity: the example circuit of MarshalProof.v (all gate kinds, struct with compound
   members, array) satisfies the hypotheses of both round-trip theorems *)
Lemma ex_parse_sound : parse_sound ex_circuit.
Proof.
  unfold parse_sound, ex_circuit. cbn [c_numwires c_numgates c_inputs c_gates].
  change (io_size _) with 3%Z. change (Z.to_N 8) with 8.
  split; [lia|]. split; [lia|]. split; [reflexivity|]. split.
  - cbn [dbu g_in0 g_in1 g_out g_op]. repeat split; try lia; try discriminate; auto; try (intros _; split; [lia|auto]).
    all: try (left; lia); try (right; lia); try (left; right; lia); try (left; left; right; lia); try (left; left; left; right; lia);
      try (left; left; left; left; lia).
  - split; [|repeat constructor; cbn; lia]. intros w Hw. unfold defs.
    assert (Hc : w = 0 \/ w = 1 \/ w = 2 \/ w = 3 \/ w = 4 \/ w = 5 \/ w = 6 \/ w = 7) by lia.
    destruct Hc as [-> | [-> | [-> | [-> | [-> | [-> | [-> | ->]]]]]]];
      first [ left; lia
            | right; eexists; split; [left; reflexivity|reflexivity]
            | right; eexists; split; [right; left; reflexivity|reflexivity]
            | right; eexists; split; [right; right; left; reflexivity|reflexivity]
            | right; eexists; split; [right; right; right; left; reflexivity|reflexivity]
            | right; eexists; split; [right; right; right; right; left; reflexivity|reflexivity] ].
Qed.

Lemma uint1_printable : printable uint1.
Proof. apply pr_base; [right; right; left; reflexivity|reflexivity|lia]. Qed.

Example ex_wf_marshal : wf_marshal ex_circuit.
Proof.
  unfold wf_marshal. split; [reflexivity|]. split; [reflexivity|]. split; [reflexivity|]. split; [reflexivity|].
  split; [|split; [|exact ex_parse_sound]].
  - unfold ex_circuit. cbn [c_inputs]. constructor; [|constructor; [|constructor]].
    + cbn [wf_io]. repeat split; try (cbn; lia); try exact uint1_printable.
      apply pr_base; [right; right; right; right; reflexivity|reflexivity|lia].
    + cbn [wf_io]. repeat split; try (cbn; lia).
      apply pr_array; [exact uint1_printable|lia].
  - unfold ex_circuit. cbn [c_outputs]. constructor; [|constructor].
    cbn [wf_io]. repeat split; try (cbn; lia).
    apply pr_base; [right; right; left; reflexivity|reflexivity|lia].
Qed.

Example ex_wf_bristol : wf_bristol ex_circuit.
Proof.
  unfold wf_bristol, bits_ok. split; [unfold maxInt32; cbn; lia|]. split; [unfold maxInt32; cbn; lia|].
  split; [split; [repeat constructor; cbn; lia|cbn; lia]|].
  split; [split; [repeat constructor; cbn; lia|cbn; lia]|].
  split; [discriminate|exact ex_parse_sound].
Qed.

(* ================================================================== *)
(* Circuit.MarshalFormat (dispatcher): whatever it writes is what the matching plain
   marshaller writes, hence parses back; any other format string writes nothing *)
Lemma marshal_format_roundtrip c f bs : MarshalFormat f c = Some bs ->
  (f = s_mpclc /\ bs = Marshal c /\ (wf_marshal c -> ParseMPCLC bs = Ok (norm c))) \/
  (f = s_bristol /\ bs = MarshalBristol c /\ (wf_bristol c -> ParseBristol bs = Ok (bristol_norm c))).
Proof.
  unfold MarshalFormat. destruct (list_eqb f s_mpclc) eqn:E1.
  - intros H; inversion H; subst. left. split; [|split; [reflexivity|intros Hw; apply mpclc_roundtrip; exact Hw]].
    unfold list_eqb in E1. apply andb_true_iff in E1. destruct E1 as [El Ec]. apply Nat.eqb_eq in El.
    unfold s_mpclc in *. do 6 (destruct f as [|? f]; try discriminate).
    simpl in Ec. repeat (apply andb_true_iff in Ec; destruct Ec as [?H Ec]).
    repeat match goal with H : (_ =? _) = true |- _ => apply N.eqb_eq in H; subst end. reflexivity.
  - destruct (list_eqb f s_bristol) eqn:E2; [|discriminate].
    intros H; inversion H; subst. right. split; [|split; [reflexivity|intros Hw; apply bristol_roundtrip; exact Hw]].
    unfold list_eqb in E2. apply andb_true_iff in E2. destruct E2 as [El Ec]. apply Nat.eqb_eq in El.
    unfold s_bristol in *. do 8 (destruct f as [|? f]; try discriminate).
    simpl in Ec. repeat (apply andb_true_iff in Ec; destruct Ec as [?H Ec]).
    repeat match goal with H : (_ =? _) = true |- _ => apply N.eqb_eq in H; subst end. reflexivity.
Qed.

(* ================================================================== *)
(* gates that write an input wire are rejected (commit 407ba55) *)
Lemma parse_rejects_input_overwrite bs c : ParseMPCLC bs = Ok c \/ ParseBristol bs = Ok c ->
  forall g, In g (c_gates c) -> (io_size (c_inputs c) <= Z.of_N (g_out g))%Z.
Proof.
  intros H. assert (Hs : parse_sound c).
  { destruct H as [H|H]; [exact (mpclc_sound true true bs c H)|exact (bristol_sound bs c H)]. }
  destruct Hs as (_ & _ & _ & _ & _ & Hn). unfold no_input_overwrite in Hn. rewrite Forall_forall in Hn. exact Hn.
Qed.

(* the step itself: whatever the state, an output id below the number of input wires is an error *)
Lemma seen_set_chk_rejects iw s o : (Z.of_N o < iw)%Z -> seen_set_chk iw s o = None.
Proof. Transparent seen_set_chk. intros H. unfold seen_set_chk. apply Z.ltb_lt in H. rewrite H. reflexivity. Qed.

(* XOR 0 0 0 on a 1-input circuit, in both formats: rejected *)
Example xor000_mpclc_rejected :
  ParseMPCLC (be32 (Z.to_N circuit_MAGIC) ++ be32 1 ++ be32 1 ++ be32 1 ++ be32 0 ++
              be32 0 ++ be32 2 ++ [117; 49] ++ be32 1 ++ be32 0 ++ [0] ++ be32 0 ++ be32 0 ++ be32 0) = Err.
Proof. vm_compute. reflexivity. Qed.
Example xor000_bristol_rejected :
  ParseBristol [49;32;49;10; 49;32;49;10; 49;32;49;10; 10; 50;32;49;32;48;32;48;32;48;32;88;79;82;10] = Err.
Proof. vm_compute. reflexivity. Qed.
