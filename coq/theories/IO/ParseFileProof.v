(* ParseFileProof.v — theorems about the front doors (IO/ParseFile.v): which parser circuit.Parse
   chooses for which file name, IsFilename agrees with it, the round trip through
   MarshalFormat(format) and Parse(base + "." + format), and Circuit.Stats after a parse. *)
From Coq Require Import ZArith NArith List Bool Arith Lia.
From Mpc Require Import Gen.Consts Circuit.Circuit IO.Marshal IO.MarshalProof IO.MarshalRoundTrip IO.ParseFile.
Import ListNotations.
Open Scope N_scope.

(* ------------------------------------------------------------------ *)
(* strings.HasSuffix *)

Lemma list_eqb_eq a : forall b, list_eqb a b = true <-> a = b.
Proof.
  unfold list_eqb. induction a as [|x a IH]; intros [|y b]; simpl; split; intros H;
    try reflexivity; try discriminate.
  - apply andb_true_iff in H. destruct H as [Hl Hc]. apply andb_true_iff in Hc. destruct Hc as [Hx Hc].
    apply N.eqb_eq in Hx. subst y. f_equal. apply IH. apply andb_true_iff. split; assumption.
  - inversion H; subst. apply andb_true_iff.
    assert (E : list_eqb b b = true) by (apply IH; reflexivity).
    unfold list_eqb in E. apply andb_true_iff in E. destruct E as [El Ec].
    split; [exact El|]. apply andb_true_iff. split; [apply N.eqb_refl | exact Ec].
Qed.

Lemma has_suffix_iff s suf : has_suffix s suf = true <-> exists base, s = base ++ suf.
Proof.
  unfold has_suffix. split.
  - intros H. apply andb_true_iff in H. destruct H as [Hl He]. apply list_eqb_eq in He.
    exists (firstn (length s - length suf) s).
    pose proof (firstn_skipn (length s - length suf) s) as F. rewrite He in F. symmetry. exact F.
  - intros [base ->]. apply andb_true_iff. split.
    + apply Nat.leb_le. rewrite app_length. lia.
    + apply list_eqb_eq. rewrite app_length.
      replace (length base + length suf - length suf)%nat with (length base + 0)%nat by lia.
      rewrite skipn_app, Nat.add_0_r, skipn_all, Nat.sub_diag. reflexivity.
Qed.

Lemma has_suffix_app base suf : has_suffix (base ++ suf) suf = true.
Proof. apply has_suffix_iff. exists base. reflexivity. Qed.

(* two suffixes of one string: one is a suffix of the other; decided on the reversed texts *)
Lemma rev_prefix_conflict (a b : list byte) x y (ra rb : list byte) :
  x <> y -> rev a ++ x :: ra <> rev a ++ y :: rb.
Proof. intros Hxy H. apply app_inv_head in H. inversion H. contradiction. Qed.

Lemma suffix_conflict s (suf1 suf2 : list byte) :
  has_suffix s suf1 = true -> has_suffix s suf2 = true ->
  exists b1 b2, rev suf1 ++ rev b1 = rev suf2 ++ rev b2.
Proof.
  intros H1 H2. apply has_suffix_iff in H1, H2. destruct H1 as [b1 E1], H2 as [b2 E2].
  exists b1, b2. rewrite <- !rev_app_distr. rewrite <- E1, <- E2. reflexivity.
Qed.

(* no file name ends in two of the three suffixes: the order of the tests in Parse and IsFilename
   does not matter, every name selects at most one parser *)
Lemma mpclc_not_circ s : has_suffix s s_dot_mpclc = true -> has_suffix s s_dot_circ = false.
Proof.
  intros H1. destruct (has_suffix s s_dot_circ) eqn:H2; [|reflexivity]. exfalso.
  destruct (suffix_conflict _ _ _ H1 H2) as (b1 & b2 & E). vm_compute in E. discriminate.
Qed.
Lemma mpclc_not_bristol s : has_suffix s s_dot_mpclc = true -> has_suffix s s_dot_bristol = false.
Proof.
  intros H1. destruct (has_suffix s s_dot_bristol) eqn:H2; [|reflexivity]. exfalso.
  destruct (suffix_conflict _ _ _ H1 H2) as (b1 & b2 & E). vm_compute in E. discriminate.
Qed.
Lemma bristol_not_circ s : has_suffix s s_dot_bristol = true -> has_suffix s s_dot_circ = false.
Proof.
  intros H1. destruct (has_suffix s s_dot_circ) eqn:H2; [|reflexivity]. exfalso.
  destruct (suffix_conflict _ _ _ H1 H2) as (b1 & b2 & E). vm_compute in E. discriminate.
Qed.

Theorem suffixes_exclusive s :
  (has_suffix s s_dot_mpclc = true -> has_suffix s s_dot_circ = false /\ has_suffix s s_dot_bristol = false) /\
  (has_suffix s s_dot_bristol = true -> has_suffix s s_dot_circ = false /\ has_suffix s s_dot_mpclc = false) /\
  (has_suffix s s_dot_circ = true -> has_suffix s s_dot_bristol = false /\ has_suffix s s_dot_mpclc = false).
Proof.
  split; [|split]; intros H; split.
  - apply mpclc_not_circ; assumption.
  - apply mpclc_not_bristol; assumption.
  - apply bristol_not_circ; assumption.
  - destruct (has_suffix s s_dot_mpclc) eqn:E; [|reflexivity]. rewrite (mpclc_not_bristol _ E) in H. discriminate.
  - destruct (has_suffix s s_dot_bristol) eqn:E; [|reflexivity]. rewrite (bristol_not_circ _ E) in H. discriminate.
  - destruct (has_suffix s s_dot_mpclc) eqn:E; [|reflexivity]. rewrite (mpclc_not_circ _ E) in H. discriminate.
Qed.

(* ------------------------------------------------------------------ *)
(* which parser for which name *)

Theorem select_parser_spec file :
  (select_parser file = SelMPCLC <-> has_suffix file s_dot_mpclc = true) /\
  (select_parser file = SelBristol <-> has_suffix file s_dot_circ = true \/ has_suffix file s_dot_bristol = true) /\
  (select_parser file = SelNone <-> IsFilename file = false).
Proof.
  unfold select_parser, IsFilename.
  destruct (has_suffix file s_dot_mpclc) eqn:Em.
  - rewrite (mpclc_not_circ _ Em), (mpclc_not_bristol _ Em). cbn.
    repeat split; intros; try reflexivity; try discriminate. destruct H; discriminate.
  - destruct (has_suffix file s_dot_circ), (has_suffix file s_dot_bristol); cbn;
      repeat split; intros; try reflexivity; try discriminate; auto; destruct H; discriminate.
Qed.

Theorem isfilename_iff_dispatch file : IsFilename file = true <-> select_parser file <> SelNone.
Proof.
  destruct (select_parser_spec file) as (_ & _ & H3). split.
  - intros H E. apply H3 in E. congruence.
  - intros H. destruct (IsFilename file) eqn:E; [reflexivity|]. exfalso. apply H. apply H3. reflexivity.
Qed.

(* for EVERY base name (also one that itself ends in another suffix, e.g. "x.circ" + ".mpclc") *)
Theorem parse_file_dispatch base bs :
  ParseFile (base ++ s_dot_mpclc) (Some bs) = ParseMPCLC bs /\
  ParseFile (base ++ s_dot_bristol) (Some bs) = ParseBristol bs /\
  ParseFile (base ++ s_dot_circ) (Some bs) = ParseBristol bs.
Proof.
  unfold ParseFile. repeat split.
  - assert (E : select_parser (base ++ s_dot_mpclc) = SelMPCLC)
      by (apply select_parser_spec; apply has_suffix_app).
    rewrite E. reflexivity.
  - assert (E : select_parser (base ++ s_dot_bristol) = SelBristol)
      by (apply select_parser_spec; right; apply has_suffix_app).
    rewrite E. reflexivity.
  - assert (E : select_parser (base ++ s_dot_circ) = SelBristol)
      by (apply select_parser_spec; left; apply has_suffix_app).
    rewrite E. reflexivity.
Qed.

Theorem parse_file_unsupported file content : IsFilename file = false -> ParseFile file content = Err.
Proof.
  intros H. apply select_parser_spec in H. unfold ParseFile. rewrite H. destruct content; reflexivity.
Qed.

Theorem parse_file_cases file content :
  ParseFile file content = Err \/
  (exists bs, content = Some bs /\ has_suffix file s_dot_mpclc = true /\ ParseFile file content = ParseMPCLC bs) \/
  (exists bs, content = Some bs /\ (has_suffix file s_dot_circ = true \/ has_suffix file s_dot_bristol = true) /\
              ParseFile file content = ParseBristol bs).
Proof.
  destruct content as [bs|]; [|left; reflexivity].
  unfold ParseFile. destruct (select_parser file) eqn:E.
  - right. right. exists bs. repeat split; try reflexivity. apply select_parser_spec. exact E.
  - right. left. exists bs. repeat split; try reflexivity. apply select_parser_spec. exact E.
  - left. reflexivity.
Qed.

Theorem parse_file_total file content : ok_or_err (ParseFile file content).
Proof.
  destruct (parse_file_cases file content) as [H | [(bs & _ & _ & H) | (bs & _ & _ & H)]]; rewrite H.
  - exact I.
  - apply mpclc_ok_or_err.
  - apply bristol_total.
Qed.

Theorem parse_file_sound file content c : ParseFile file content = Ok c -> parse_sound c.
Proof.
  destruct (parse_file_cases file content) as [H | [(bs & _ & _ & H) | (bs & _ & _ & H)]]; rewrite H; intros E.
  - discriminate.
  - exact (mpclc_sound true true bs c E).
  - exact (bristol_sound bs c E).
Qed.

(* the format names of MarshalFormat are the suffixes of Parse *)
Theorem front_door_roundtrip base f c bs :
  MarshalFormat f c = Some bs ->
  (f = s_mpclc /\ bs = Marshal c /\
   (wf_marshal c -> ParseFile (base ++ [46] ++ f) (Some bs) = Ok (norm c))) \/
  (f = s_bristol /\ bs = MarshalBristol c /\
   (wf_bristol c -> ParseFile (base ++ [46] ++ f) (Some bs) = Ok (bristol_norm c) /\
                    ParseFile (base ++ s_dot_circ) (Some bs) = Ok (bristol_norm c))).
Proof.
  intros H. destruct (marshal_format_roundtrip c f bs H) as [(Hf & Hb & Hr) | (Hf & Hb & Hr)].
  - left. repeat split; try assumption. intros Hwf. subst f.
    change ([46] ++ s_mpclc) with s_dot_mpclc.
    destruct (parse_file_dispatch base bs) as (E & _ & _). rewrite E. apply Hr. exact Hwf.
  - right. repeat split; try assumption; subst f.
    + change ([46] ++ s_bristol) with s_dot_bristol.
      destruct (parse_file_dispatch base bs) as (_ & E & _). rewrite E. apply Hr. assumption.
    + destruct (parse_file_dispatch base bs) as (_ & _ & E). rewrite E. apply Hr. assumption.
Qed.

(* ------------------------------------------------------------------ *)
(* Circuit.Stats after a parse *)

Definition cnt (o : op) (gs : list gateN) : N := count_op o gs.

Lemma op_code_vals : op_code XOR = 0 /\ op_code XNOR = 1 /\ op_code AND = 2 /\ op_code OR = 3 /\ op_code INV = 4.
Proof. vm_compute. repeat split. Qed.

(* rewrite the op codes to numerals and evaluate the closed tests / indices *)
Ltac opcodes :=
  destruct op_code_vals as (C0 & C1 & C2 & C3 & C4); rewrite ?C0, ?C1, ?C2, ?C3, ?C4;
  change (N.to_nat 0) with 0%nat; change (N.to_nat 1) with 1%nat; change (N.to_nat 2) with 2%nat;
  change (N.to_nat 3) with 3%nat; change (N.to_nat 4) with 4%nat; simpl N.eqb; cbn [stats_inc].

Lemma count_op_cons o g gs :
  count_op o (g :: gs) = (if N.eqb (op_code (g_op g)) (op_code o) then 1 else 0) + count_op o gs.
Proof.
  unfold count_op. cbn [filter]. destruct (N.eqb (op_code (g_op g)) (op_code o)).
  - unfold nlen. cbn [length]. lia.
  - lia.
Qed.

Lemma parse_stats_fold gs : forall a b c d e f g h,
  fold_left (fun st g => stats_inc st (N.to_nat (op_code (g_op g)))) gs [a; b; c; d; e; f; g; h] =
  [a + count_op XOR gs; b + count_op XNOR gs; c + count_op AND gs; d + count_op OR gs; e + count_op INV gs; f; g; h].
Proof.
  induction gs as [|x gs IH]; intros a b c d e f g h.
  - unfold count_op, nlen. cbn. rewrite !N.add_0_r. reflexivity.
  - cbn [fold_left]. rewrite !count_op_cons.
    destruct x as [o i0 i1 ou]. cbn [g_op]. destruct o; opcodes; rewrite IH; repeat (apply f_equal2; [lia|]); reflexivity.
Qed.

(* the histogram of gate kinds, and zero in the slots Count / NumLevels / MaxWidth *)
Theorem parse_stats_spec gs :
  parse_stats gs = [count_op XOR gs; count_op XNOR gs; count_op AND gs; count_op OR gs; count_op INV gs; 0; 0; 0].
Proof. unfold parse_stats. change stats_zero with [0;0;0;0;0;0;0;0]. rewrite parse_stats_fold. reflexivity. Qed.

Lemma count_ops_total gs :
  count_op XOR gs + count_op XNOR gs + count_op AND gs + count_op OR gs + count_op INV gs = nlen gs.
Proof.
  induction gs as [|x gs IH]; [reflexivity|]. rewrite !count_op_cons.
  replace (nlen (x :: gs)) with (1 + nlen gs) by (unfold nlen; cbn [length]; lia).
  rewrite <- IH. destruct x as [o i0 i1 ou]. cbn [g_op]. destruct o; opcodes; lia.
Qed.

Theorem stats_count_spec gs :
  stats_count (parse_stats gs) = nlen gs /\
  stats_numxor (parse_stats gs) + stats_numnonxor (parse_stats gs) = stats_count (parse_stats gs) /\
  stats_at (parse_stats gs) circuit_Count = 0 /\ stats_at (parse_stats gs) circuit_NumLevels = 0 /\
  stats_at (parse_stats gs) circuit_MaxWidth = 0.
Proof.
  rewrite parse_stats_spec. unfold stats_count, stats_numxor, stats_numnonxor, stats_at.
  vm_compute Z.to_nat. cbn [seq fold_left nth]. pose proof (count_ops_total gs). repeat split; lia.
Qed.

Theorem stats_cost_spec gs :
  stats_cost (parse_stats gs) = fold_right (fun g a => gate_cost (g_op g) + a) 0 gs.
Proof.
  rewrite parse_stats_spec. unfold stats_cost, stats_at. vm_compute Z.to_nat. cbn [nth].
  induction gs as [|x gs IH]; [reflexivity|]. cbn [fold_right]. rewrite <- IH. rewrite !count_op_cons.
  destruct x as [o i0 i1 ou]. cbn [g_op]. destruct o; opcodes; cbn [gate_cost]; lia.
Qed.

(* after a parse through ANY door, Stats.Count() is the header's gate count *)
Theorem parse_file_stats file content c st :
  ParseFileStats file content = Ok (c, st) ->
  parse_sound c /\ st = parse_stats (c_gates c) /\ Z.of_N (stats_count st) = c_numgates c /\
  stats_numxor st + stats_numnonxor st = stats_count st /\
  stats_cost st = fold_right (fun g a => gate_cost (g_op g) + a) 0 (c_gates c).
Proof.
  unfold ParseFileStats. destruct (ParseFile file content) as [c'| | |] eqn:E; cbn [bind]; try discriminate.
  intros H. injection H as Hc' Hst. subst c'. subst st.
  pose proof (parse_file_sound _ _ _ E) as Hs. split; [exact Hs|]. split; [reflexivity|].
  destruct (stats_count_spec (c_gates c)) as (Hc & Hx & _). split.
  - rewrite Hc. destruct Hs as (_ & _ & Hn & _). rewrite <- Hn. unfold nlen. lia.
  - split; [exact Hx | apply stats_cost_spec].
Qed.

(* the Stats are a function of the gate kinds only: the normal forms of both round trips have the
   Stats of the circuit that was written *)
Lemma count_op_norm o gs : count_op o (map norm_gate gs) = count_op o gs.
Proof.
  induction gs as [|x gs IH]; [reflexivity|]. cbn [map]. rewrite !count_op_cons, IH.
  destruct x as [o' i0 i1 ou]. unfold norm_gate. cbn [g_op]. destruct o'; reflexivity.
Qed.
Theorem stats_roundtrip c :
  parse_stats (c_gates (norm c)) = parse_stats (c_gates c) /\
  parse_stats (c_gates (bristol_norm c)) = parse_stats (c_gates c).
Proof. split; rewrite !parse_stats_spec; cbn [norm bristol_norm c_gates]; rewrite !count_op_norm; reflexivity. Qed.

(* ------------------------------------------------------------------ *)
(* a file of the binary format offered to the text parser *)

Definition c99 : byte := 99.   (* 'c', the first byte of MAGIC *)

Lemma nl_lines_first l : forall cur,
  nl_lines_aux l cur = [] \/ exists pre rest, nl_lines_aux l cur = (rev cur ++ pre ++ [10]) :: rest.
Proof.
  induction l as [|x t IH]; intros cur; cbn [nl_lines_aux]; [left; reflexivity|].
  destruct (x =? 10) eqn:E.
  - right. apply N.eqb_eq in E. subst x. exists [], (nl_lines_aux t []). cbn [rev app]. reflexivity.
  - destruct (IH (x :: cur)) as [H | (pre & rest & H)]; [left; exact H|].
    right. exists (x :: pre), rest. rewrite H. cbn [rev]. rewrite <- app_assoc. reflexivity.
Qed.

Lemma uspace_len_c99 u : uspace_len (c99 :: u) = 0%nat.
Proof. destruct u as [|b [|c t]]; reflexivity. Qed.

Lemma ltrim_c99 fuel u : ltrim_gen uspace_len (S fuel) (c99 :: u) = c99 :: u.
Proof. cbn [ltrim_gen]. change (ascii_space c99) with false. cbv iota. rewrite uspace_len_c99. reflexivity. Qed.

(* the right trim never eats a final 'c' (the list is reversed: 'c' is the LAST element) *)
Lemma rtrim_c99 fuel : forall l, exists l', ltrim_gen uspace_len_rev fuel (l ++ [c99]) = l' ++ [c99].
Proof.
  induction fuel as [|f IH]; intros l; [exists l; reflexivity|].
  destruct l as [|x l2].
  - exists []. reflexivity.
  - cbn [app ltrim_gen]. destruct (ascii_space x); [apply IH|].
    destruct l2 as [|a [|z l3]].
    + exists [x]. reflexivity.
    + cbn [app]. unfold uspace_len_rev. destruct (uspace_len [a; x] =? 2)%nat.
      * cbn [skipn]. apply (IH []).
      * change (uspace_len [c99; a; x]) with 0%nat. cbn. exists [x; a]. reflexivity.
    + cbn [app]. unfold uspace_len_rev. destruct (uspace_len [a; x] =? 2)%nat.
      * cbn [skipn]. apply (IH (z :: l3)).
      * destruct (uspace_len [z; a; x] =? 3)%nat.
        -- cbn [skipn]. apply IH.
        -- exists (x :: a :: z :: l3). reflexivity.
Qed.

Lemma trim_space_c99 u : exists u', trim_space (c99 :: u) = c99 :: u'.
Proof.
  unfold trim_space. cbn [length]. rewrite ltrim_c99. cbn [rev].
  destruct (rtrim_c99 (length (c99 :: u)) (rev u)) as (l' & H). rewrite H.
  rewrite rev_app_distr. cbn [rev app]. eauto.
Qed.

Lemma fields_aux_first l : forall cur, cur <> [] -> exists f rest, fields_aux l cur = (rev cur ++ f) :: rest.
Proof.
  induction l as [|x t IH]; intros cur Hc; cbn [fields_aux].
  - destruct cur; [congruence|]. exists [], []. rewrite app_nil_r. reflexivity.
  - destruct (ascii_space x).
    + destruct cur; [congruence|]. exists [], (fields_aux t []). rewrite app_nil_r. reflexivity.
    + destruct (IH (x :: cur) ltac:(discriminate)) as (f & rest & H).
      exists (x :: f), rest. rewrite H. cbn [rev]. rewrite <- app_assoc. reflexivity.
Qed.

Lemma bristol_lines_c99 t :
  bristol_lines (c99 :: t) = [] \/ exists f rest more, bristol_lines (c99 :: t) = ((c99 :: f) :: rest) :: more.
Proof.
  unfold bristol_lines. cbn [nl_lines_aux]. change (c99 =? 10) with false. cbv iota.
  destruct (nl_lines_first t [c99]) as [H | (pre & rest & H)]; rewrite H; [left; reflexivity|].
  right. cbn [rev app map]. destruct (trim_space_c99 (pre ++ [10])) as (u' & Ht). rewrite Ht. cbn [filter map].
  unfold fields at 1. cbn [fields_aux]. change (ascii_space c99) with false. cbv iota.
  destruct (fields_aux_first u' [c99] ltac:(discriminate)) as (f & rest' & Hf). rewrite Hf. cbn [rev app]. eauto.
Qed.

Lemma atoi_c99 f : atoi (c99 :: f) = None.
Proof. reflexivity. Qed.

Theorem bristol_rejects_c99 t : ParseBristol (c99 :: t) = Err.
Proof.
  unfold ParseBristol. destruct (bristol_lines_c99 t) as [H | (f & rest & more & H)]; rewrite H; [reflexivity|].
  destruct rest as [|f1 [|f2 r]]; try reflexivity; rewrite atoi_c99; reflexivity.
Qed.

Lemma marshal_head c : exists t, Marshal c = c99 :: t.
Proof. unfold Marshal. change (be32 (Z.to_N circuit_MAGIC)) with [c99; 114; 99; 0]. cbn [app]. eauto. Qed.

(* for EVERY circuit (no hypothesis): the binary file is rejected by the text parser *)
Theorem mpclc_file_as_bristol_rejected c : ParseBristol (Marshal c) = Err.
Proof. destruct (marshal_head c) as (t & ->). apply bristol_rejects_c99. Qed.

Theorem mpclc_file_under_bristol_name base c :
  ParseFile (base ++ s_dot_circ) (Some (Marshal c)) = Err /\
  ParseFile (base ++ s_dot_bristol) (Some (Marshal c)) = Err.
Proof.
  destruct (parse_file_dispatch base (Marshal c)) as (_ & E1 & E2).
  rewrite E1, E2, mpclc_file_as_bristol_rejected. split; reflexivity.
Qed.

Theorem mpclc_file_cross_rejected base c :
  ParseBristol (Marshal c) = Err /\
  ParseFile (base ++ s_dot_circ) (Some (Marshal c)) = Err /\
  ParseFile (base ++ s_dot_bristol) (Some (Marshal c)) = Err.
Proof. exact (conj (mpclc_file_as_bristol_rejected c) (mpclc_file_under_bristol_name base c)). Qed.

(* ------------------------------------------------------------------ *)
(* non-vacuity and examples *)

Example ex_front_door_mpclc :
  ParseFileStats ([120] ++ s_dot_mpclc) (Some (Marshal ex_circuit)) =
  Ok (norm ex_circuit, parse_stats (c_gates ex_circuit)).
Proof. vm_compute. reflexivity. Qed.
Example ex_front_door_circ :
  ParseFile ([120] ++ s_dot_circ) (Some (MarshalBristol ex_circuit)) = Ok (bristol_norm ex_circuit).
Proof. vm_compute. reflexivity. Qed.
(* the last suffix decides *)
Example ex_double_suffix :
  select_parser ([120] ++ s_dot_circ ++ s_dot_mpclc) = SelMPCLC /\
  select_parser ([120] ++ s_dot_mpclc ++ s_dot_circ) = SelBristol /\
  select_parser ([120] ++ s_dot_mpclc ++ [46; 98; 97; 107]) = SelNone /\      (* x.mpclc.bak *)
  select_parser (s_mpclc) = SelNone /\ select_parser s_dot_mpclc = SelMPCLC /\   (* "mpclc", ".mpclc" *)
  select_parser [] = SelNone.
Proof. vm_compute. repeat split. Qed.
(* the converse direction has no theorem: ParseMPCLC does not check MAGIC, a text file is read as
   a header with counts >= 2^27 (declared sizes outside the property) *)
Example ex_mpclc_under_circ : ParseFile ([120] ++ s_dot_circ) (Some (Marshal ex_circuit)) = Err.
Proof. apply (mpclc_file_under_bristol_name [120] ex_circuit). Qed.
Example ex_stats_nonzero : stats_cost (parse_stats (c_gates ex_circuit)) <> 0 /\
                           stats_count (parse_stats (c_gates ex_circuit)) <> 0.
Proof. vm_compute. split; discriminate. Qed.
