(* RunC18.v — executable entry point of the C18 model for the correspondence check.
   input  = (kind ...)
     kind 0: ()                       -> ((magic bytes)x5 ((id name byteLen)x4) round3PayloadLen)
     kind 1..5: (kind curve payload table)  decode Round1 / Round2 / Round3 /
                GarblerSession / EvaluatorSession
        payload = list of segments: (0 b...) literal bytes | (1 blob) | (2 n b) n copies of b
        blob    = ONE integer whose big-endian bytes are 0x01 ‖ data
        table   = for Round2: what elliptic.UnmarshalCompressed answers,
                  entries (x odd y) or (x odd) (no such point)
        output  = (1) error | (2) panic
                | (0 fields... reencode-class reencode-equals-input)
          fields R1: sid name ax ay        R2: sid name (x...) (y...)
                 R3: sid key tables inputs hints ciphertexts   (blobs)
                 GS: sid name scalar ax ay ainvx ainvy
                 ES: sid name ax ay (scalar...) (bit...)
     kind 6: (6 (bit...))             -> ((byte...) (bit...)) bitsToBytesLittle, and bytesToBitsLittle of it
     kind 7: (7 curve (op...))        op history over a store of returned byte strings:
                op = (0 vkind fields...) encode that value and keep the bytes | (1 j) decode slot j
                vkind 1..5 as above, fields as in the decode output
                -> (((class length)...) per Enc op, (decoded...) per Dec op), decoded = (0 fields...) | (1) | (2);
                   point decompression answers are the points of the encoded Round2 values
     kind 8: (8 ((L0 L1)...) (label...))  the output-decoding step of EvaluatorRound4: the Round3 output
                hints and the labels the evaluator holds on the output wires
                -> (1) error (a label that is neither hint of its wire, on ANY wire) | (0 (digest byte...))
     kind 9: (9 curve (byte...) answer)  elliptic.UnmarshalCompressed(curve, bytes); answer = () when it
                returned nil, (y) the Y it returned
                -> (0) rejected, as the specification demands | (1 x y) the point the encoding names
                 | (2) the answer is not that point | (3) rejected although the point exists
     kind 10: (10)                    -> ((id P B Gx Gy onCurve(G))x4) curve parameters and IsOnCurve
     kind 11: the argument validation of the four round functions (IO/Sha2pcRounds.v), the outcome
                classes of the cryptographic cores given as flags:
                (11 1 rngNil curveNil curve genOK sidOK)                                   GarblerRound1
                (11 2 rngNil curveNil curve (name...) ax ay choicesOK)                     EvaluatorRound2
                (11 3 rngNil curveNil curve stateNil scalarNil sidState sidMsg keyOK garbleOK
                      ax ay ainvx ainvy (px...) (py...) nWires)                            GarblerRound3
                (11 4 curveNil curve stateNil sidState sidMsg nScalars nBits nCts ax ay evalOK
                      ((L0 L1)...) (label...))                                             EvaluatorRound4
                -> (0 ...) Ok (round 4: the digest bytes) | (1 code) the named error | (2) panic *)
From Coq Require Import ZArith NArith List Bool.
From Mpc Require Import Gen.Consts Base.Sx Base.Codec IO.Sha2pcCodec IO.Sha2pcRounds.
Import ListNotations.

Definition curve_of_Z (z : Z) : curve :=
  if Z.eqb z 0 then P224 else if Z.eqb z 1 then P256 else if Z.eqb z 2 then P384 else P521.
Definition curve_id (c : curve) : Z :=
  match c with P224 => 0 | P256 => 1 | P384 => 2 | P521 => 3 end%Z.

(* ---- blobs: linear-time conversion between a byte string and the integer
   0x01 ‖ data (Base.Codec.be/of_be are quadratic on 700 kB fields) *)
(* peel bytes off the low end until only the leading 0x01 is left *)
Fixpoint blob_bytes_aux (fuel : nat) (n : N) (acc : list N) : list N :=
  match fuel with
  | O => acc
  | S f => if N.leb n 1 then acc
           else blob_bytes_aux f (N.shiftr n 8) (N.land n 255 :: acc)
  end.
Definition blob_bytes (n : N) : list N := blob_bytes_aux (S (N.to_nat (N.size n) / 8)) n [].
Definition bytes_blob (bs : list N) : N := of_be_s (1%N :: bs).

Definition seg_bytes (s : sx) : list N :=
  let k := getZ (nthx 0 s) in
  if Z.eqb k 0 then map getN (tl (getL s))
  else if Z.eqb k 1 then blob_bytes (getN (nthx 1 s))
  else repeat (getN (nthx 2 s)) (getnat (nthx 1 s)).

Definition payload_bytes (s : sx) : list N := flat_map seg_bytes (getL s).

(* ---- decompression table; a lookup that misses answers a point with
   Y = 0, which no curve point has, so a miss can never agree with Go *)
Fixpoint table_lookup (tbl : list sx) (x : N) (odd : bool) : option (N * N) :=
  match tbl with
  | [] => Some (x, 0%N)
  | e :: t =>
      if N.eqb (getN (nthx 0 e)) x && Bool.eqb (getB (nthx 1 e)) odd then
        match getL e with
        | [_; _; y] => Some (x, getN y)
        | _ => None
        end
      else table_lookup t x odd
  end.

Definition res_class {A} (r : res A) : Z :=
  match r with Ok _ => 0 | Err => 1 | Panic => 2 end%Z.

Definition reenc_obs (input : list N) (r : res (list N)) : list sx :=
  [SZ (res_class r); ofB (match r with Ok b => bytes_eqb b input | _ => false end)].

Definition decoded {A} (r : res A) (fields : A -> list sx) (reenc : A -> res (list N)) (input : list N) : sx :=
  match r with
  | Ok a => SL (SZ 0 :: fields a ++ reenc_obs input (reenc a))
  | Err => SL [SZ 1]
  | Panic => SL [SZ 2]
  end.

Definition all_curves := [P224; P256; P384; P521].

Definition consts_obs : sx :=
  SL [ SL (map ofLN [magicRound1; magicRound2; magicRound3; magicGarblerSession; magicEvalSession]);
       SL (map (fun c => SL [SZ (curve_id c); ofLN (curve_name c); ofnat (byteLen c)]) all_curves);
       ofnat round3PayloadLen ].

Definition fields_r1 (p : round1) : list sx := [ofN (r1_sid p); ofLN (r1_name p); ofN (r1_ax p); ofN (r1_ay p)].
Definition fields_r2 (p : round2) : list sx :=
  [ofN (r2_sid p); ofLN (r2_name p); ofLN (map fst (r2_choices p)); ofLN (map snd (r2_choices p))].
Definition fields_r3 (p : round3) : list sx :=
  [ofN (r3_sid p); ofN (bytes_blob (r3_key p));
   ofN (bytes_blob (encodeLabelList (r3_tables p)));
   ofN (bytes_blob (encodeLabelList (r3_inputs p)));
   ofN (bytes_blob (encodeLabelList (unpairs (r3_hints p))));
   ofN (bytes_blob (encodeLabelList (unpairs (r3_cts p))))].
Definition fields_gs (s : gsession) : list sx :=
  [ofN (gs_sid s); ofLN (gs_name s); ofN (gs_scalar s); ofN (gs_ax s); ofN (gs_ay s);
   ofN (gs_ainvx s); ofN (gs_ainvy s)].
Definition fields_es (s : esession) : list sx :=
  [ofN (es_sid s); ofLN (es_name s); ofN (es_ax s); ofN (es_ay s); ofLN (es_scalars s); ofLB (es_bits s)].

Definition fields_value (v : value) : list sx :=
  match v with
  | VR1 m => fields_r1 m | VR2 m => fields_r2 m | VR3 m => fields_r3 m
  | VGS s => fields_gs s | VES s => fields_es s
  end.

(* ---- values from their fields (kind 7) *)
Definition labels_of_blob (b : N) : list N :=
  let bs := blob_bytes b in split_be 16 (length bs / 16) bs.

Definition value_of_sx (k : Z) (f : list sx) : value :=
  let g i := nth i f (SZ 0) in
  if Z.eqb k 1 then VR1 (mkR1 (getN (g 0)) (getLN (g 1)) (getN (g 2)) (getN (g 3)))%nat
  else if Z.eqb k 2 then VR2 (mkR2 (getN (g 0)) (getLN (g 1)) (combine (getLN (g 2)) (getLN (g 3))))%nat
  else if Z.eqb k 3 then
    VR3 (mkR3 (getN (g 0)) (blob_bytes (getN (g 1))) (labels_of_blob (getN (g 2))) (labels_of_blob (getN (g 3)))
              (pairs (labels_of_blob (getN (g 4)))) (pairs (labels_of_blob (getN (g 5)))))%nat
  else if Z.eqb k 4 then
    VGS (mkGS (getN (g 0)) (getLN (g 1)) (getN (g 2)) (getN (g 3)) (getN (g 4)) (getN (g 5)) (getN (g 6)))%nat
  else VES (mkES (getN (g 0)) (getLN (g 1)) (getN (g 2)) (getN (g 3)) (getLN (g 4)) (getLB (g 5)))%nat.

Definition hop_of_sx (s : sx) : hop :=
  if Z.eqb (getZ (nthx 0 s)) 0 then HEnc (value_of_sx (getZ (nthx 1 s)) (tl (tl (getL s))))
  else HDec (getnat (nthx 1 s)).

(* decompression answers for a history: the points of its Round2 values; a
   miss answers Y = 0, which no curve point has *)
Definition history_points (ops : list hop) : list (N * N) :=
  flat_map (fun o => match o with HEnc (VR2 m) => r2_choices m | _ => [] end) ops.
Definition points_lookup (pts : list (N * N)) (x : N) (odd : bool) : option (N * N) :=
  match find (fun p => N.eqb (fst p) x && Bool.eqb (N.odd (snd p)) odd) pts with
  | Some p => Some p
  | None => Some (x, 0%N)
  end.

Definition res_value_obs (r : res value) : sx :=
  match r with
  | Ok v => SL (SZ 0 :: fields_value v)
  | Err => SL [SZ 1]
  | Panic => SL [SZ 2]
  end.

(* store and results in one pass (each value is encoded once); equal to
   (history_store, run_history) of the model: history_both_ok below *)
Fixpoint history_both (dec : curve -> N -> bool -> option (N * N)) (c : curve)
         (store : list (vkind * res (list N))) (ops : list hop)
  : list (vkind * res (list N)) * list (res value) :=
  match ops with
  | [] => (store, [])
  | HEnc v :: t => history_both dec c (store ++ [(kind_of v, encode_value c v)]) t
  | HDec j :: t => let '(st, rs) := history_both dec c store t in (st, decode_slot dec c store j :: rs)
  end.

Definition run_history_obs (c : curve) (ops : list hop) : sx :=
  let dec := fun (_ : curve) => points_lookup (history_points ops) in
  let '(st, rs) := history_both dec c [] ops in
  SL [ SL (map (fun e => SL [SZ (res_class (snd e));
                             ofnat (match snd e with Ok b => length b | _ => 0%nat end)]) st);
       SL (map res_value_obs rs) ].

(* ---- kind 9 / 10: compressed points and curve parameters *)
Definition uc_obs (v : uc_verdict) : sx :=
  match v with
  | UCReject => SL [SZ 0]
  | UCAccept x y => SL [SZ 1; ofN x; ofN y]
  | UCBadAnswer => SL [SZ 2]
  | UCMissed => SL [SZ 3]
  end.

Definition curves_obs : sx :=
  SL (map (fun c => SL [SZ (curve_id c); ofN (curve_p c); ofN (curve_b c);
                        ofN (fst (curve_g c)); ofN (snd (curve_g c)); ofB (on_curve c (curve_g c))]) all_curves).

(* ---- kind 11: the rounds with their validation; the cores are stand-ins
   whose outcome class is an input *)
Definition rerr_code (e : rerr) : Z :=
  match e with
  | ENilRandom => 1 | ENilCurve => 2 | EInvalidGarblerSession => 3 | EInvalidEvaluatorState => 4
  | ESessionMismatch => 5 | ECurveMismatch => 6 | EInputBits => 7 | ERandom => 8
  | EPointNotOnCurve => 9 | EPointCount => 10 | EBundle => 11 | EGarble => 12 | EEval => 13
  | EHintCount => 14 | EUnknownLabel => 15 | EOutputLength => 16 | EDecode => 17 | EEncode => 18
  end%Z.

Definition vres_obs {A} (r : vres A) (f : A -> list sx) : sx :=
  match r with
  | VOk a => SL (SZ 0 :: f a)
  | VErr e => SL [SZ 1; SZ (rerr_code e)]
  | VPanic => SL [SZ 2]
  end.

Definition flag_core {A} (ok : bool) (a : A) : vres A := if ok then VOk a else VErr ERandom.
Definition opt_of {A} (isnil : bool) (a : A) : option A := if isnil then None else Some a.

Definition run_round_validation (inp : sx) : sx :=
  let fn := getZ (nthx 1 inp) in
  if Z.eqb fn 1 then
    let c := curve_of_Z (getZ (nthx 4 inp)) in
    vres_obs (GarblerRound1_v unit (fun _ c' => flag_core (getB (nthx 5 inp)) (1%N, curve_g c', curve_g c'))
                              (fun _ => flag_core (getB (nthx 6 inp)) 7%N)
                              (opt_of (getB (nthx 2 inp)) tt) (opt_of (getB (nthx 3 inp)) c))
             (fun _ => [])
  else if Z.eqb fn 2 then
    let c := curve_of_Z (getZ (nthx 4 inp)) in
    vres_obs (EvaluatorRound2_v unit (fun _ _ _ _ _ => flag_core (getB (nthx 8 inp)) ([], []))
                                (opt_of (getB (nthx 2 inp)) tt) (opt_of (getB (nthx 3 inp)) c)
                                (mkR1 0 (getLN (nthx 5 inp)) (getN (nthx 6 inp)) (getN (nthx 7 inp))) (repeat 0%N 32%nat))
             (fun _ => [])
  else if Z.eqb fn 3 then
    let c := curve_of_Z (getZ (nthx 4 inp)) in
    let st := mkGS (getN (nthx 7 inp)) (curve_name c) 1 (getN (nthx 11 inp)) (getN (nthx 12 inp)) (getN (nthx 13 inp)) (getN (nthx 14 inp)) in
    let req := mkR2 (getN (nthx 8 inp)) (curve_name c) (combine (getLN (nthx 15 inp)) (getLN (nthx 16 inp))) in
    let nw := getnat (nthx 17 inp) in
    vres_obs (GarblerRound3_v unit (fun _ => flag_core (getB (nthx 9 inp)) (repeat 0%N 32%nat))
                              (fun _ _ => flag_core (getB (nthx 10 inp))
                                            (repeat (0%N, 0%N) 256%nat, repeat (0%N, 0%N) nw, repeat (0%N, 0%N) 256%nat, []))
                              (fun _ _ pts _ => map (fun _ => (0%N, 0%N)) pts)
                              (opt_of (getB (nthx 2 inp)) tt) (opt_of (getB (nthx 3 inp)) c)
                              (opt_of (getB (nthx 5 inp)) st) (getB (nthx 6 inp)) (repeat 0%N 32%nat) req)
             (fun _ => [])
  else
    let c := curve_of_Z (getZ (nthx 3 inp)) in
    let st := mkES (getN (nthx 5 inp)) (curve_name c) (getN (nthx 10 inp)) (getN (nthx 11 inp))
                   (repeat 1%N (getnat (nthx 7 inp))) (repeat false (getnat (nthx 8 inp))) in
    let hints := map (fun p => (getN (nthx 0 p), getN (nthx 1 p))) (getL (nthx 13 inp)) in
    let msg := mkR3 (getN (nthx 6 inp)) [] [] [] hints (repeat (0%N, 0%N) (getnat (nthx 9 inp))) in
    let outl := getLN (nthx 14 inp) in
    vres_obs (EvaluatorRound4_v (fun _ _ _ => [])
                                (fun _ _ _ _ => if getB (nthx 12 inp) then VOk outl else VErr EEval)
                                (opt_of (getB (nthx 2 inp)) c) (opt_of (getB (nthx 4 inp)) st) msg)
             (fun d => [ofLN d]).

Definition run_c18 (inp : sx) : sx :=
  let kind := getZ (nthx 0 inp) in
  if Z.eqb kind 0 then consts_obs
  else if Z.eqb kind 9 then
    uc_obs (unmarshal_compressed (curve_of_Z (getZ (nthx 1 inp))) (getLN (nthx 2 inp))
              (match getL (nthx 3 inp) with y :: _ => Some (getN y) | [] => None end))
  else if Z.eqb kind 10 then curves_obs
  else if Z.eqb kind 11 then run_round_validation inp
  else if Z.eqb kind 6 then
    let by_ := bitsToBytesLittle (getLB (nthx 1 inp)) in
    SL [ofLN by_; ofLB (bytesToBitsLittle by_)]
  else if Z.eqb kind 8 then
    let hints := map (fun p => (getN (nthx 0 p), getN (nthx 1 p))) (getL (nthx 1 inp)) in
    match (_ <- guard (length hints =? outputHintCount)%nat ;; decode_outputs hints (getLN (nthx 2 inp))) with
    | Ok bits => SL [SZ 0; ofLN (bitsToBytesLittle bits)]
    | Err => SL [SZ 1]
    | Panic => SL [SZ 2]
    end
  else if Z.eqb kind 7 then
    run_history_obs (curve_of_Z (getZ (nthx 1 inp))) (map hop_of_sx (getL (nthx 2 inp)))
  else
    let c := curve_of_Z (getZ (nthx 1 inp)) in
    let data := payload_bytes (nthx 2 inp) in
    let tbl := getL (nthx 3 inp) in
    if Z.eqb kind 1 then
      decoded (DecodeRound1 c data)
        fields_r1
        (EncodeRound1 c) data
    else if Z.eqb kind 2 then
      decoded (DecodeRound2 (fun _ => table_lookup tbl) c data)
        fields_r2
        (EncodeRound2 c) data
    else if Z.eqb kind 3 then
      decoded (DecodeRound3 data)
        fields_r3
        EncodeRound3 data
    else if Z.eqb kind 4 then
      decoded (DecodeGarblerSession c data)
        fields_gs
        (EncodeGarblerSession c) data
    else if Z.eqb kind 5 then
      decoded (DecodeEvaluatorSession c data)
        fields_es
        (EncodeEvaluatorSession c) data
    else sx_err 9.

(* the constants the model defines itself (not integer constants of
   Gen/Consts.v): the harness reports the Go values in its kind-0 case, which
   [run_c18] must reproduce; here they are tied to the documented values *)
Lemma c18_consts_ok :
  map byteLen all_curves = [28; 32; 48; 66]%nat /\
  N.of_nat round3PayloadLen = 707146%N /\
  map (fun c => N.of_nat (length (curve_name c))) all_curves = [5; 5; 5; 5]%N /\
  N.of_nat evaluatorChoiceSignBytes = ((N.of_nat evaluatorCiphertextCount + 7) / 8)%N /\
  N.of_nat garbledTableByteLen = (N.of_nat garbledTableLabelCount * N.of_nat labelByteLen)%N.
Proof. vm_compute. repeat split; reflexivity. Qed.

Lemma history_both_ok dec c : forall ops store,
  history_both dec c store ops = (history_store c store ops, run_history dec c store ops).
Proof.
  induction ops as [|[v|j] ops IH]; intros store; cbn [history_both history_store run_history].
  - reflexivity.
  - apply IH.
  - rewrite IH. reflexivity.
Qed.

Lemma blob_example :
  blob_bytes 0x01000203ff%N = [0; 2; 3; 255]%N /\ bytes_blob [0; 2; 3; 255]%N = 0x01000203ff%N.
Proof. vm_compute. split; reflexivity. Qed.
