(* RunC18.v — executable entry point of the C18 model for the correspondence check.
   input  = (kind ...)
     kind 0: ()                       -> ((magic bytes)x5 ((id name byteLen)x4) round3PayloadLen)
     kind 1..5: (kind curve payload table)  decode Round1 / Round2 / Round3 /
                GarblerSession / EvaluatorSession
        payload = list of segments: (0 b...) literal bytes | (1 blob) | (2 n b) n copies of b
        blob    = ONE integer whose big-endian bytes are 0x01 ‖ data
        table   = for Round2: what elliptic.UnmarshalCompressed answers,
                  entries (x odd y) or (x odd) (no such point)
        output  = (1) error | (2) panic
                | (0 fields... reencode-class reencode-equals-input)
          fields R1: sid name ax ay        R2: sid name (x...) (y...)
                 R3: sid key tables inputs hints ciphertexts   (blobs)
                 GS: sid name scalar ax ay ainvx ainvy
                 ES: sid name ax ay (scalar...) (bit...)
     kind 6: (6 (bit...))             -> ((byte...) (bit...)) bitsToBytesLittle, and bytesToBitsLittle of it *)
From Coq Require Import ZArith NArith List Bool.
From Mpc Require Import Gen.Consts Base.Sx Base.Codec IO.Sha2pcCodec.
Import ListNotations.

Definition curve_of_Z (z : Z) : curve :=
  if Z.eqb z 0 then P224 else if Z.eqb z 1 then P256 else if Z.eqb z 2 then P384 else P521.
Definition curve_id (c : curve) : Z :=
  match c with P224 => 0 | P256 => 1 | P384 => 2 | P521 => 3 end%Z.

(* ---- blobs: linear-time conversion between a byte string and the integer
   0x01 ‖ data (Base.Codec.be/of_be are quadratic on 700 kB fields) *)
(* peel bytes off the low end until only the leading 0x01 is left *)
Fixpoint blob_bytes_aux (fuel : nat) (n : N) (acc : list N) : list N :=
  match fuel with
  | O => acc
  | S f => if N.leb n 1 then acc
           else blob_bytes_aux f (N.shiftr n 8) (N.land n 255 :: acc)
  end.
Definition blob_bytes (n : N) : list N := blob_bytes_aux (S (N.to_nat (N.size n) / 8)) n [].
Definition bytes_blob (bs : list N) : N := of_be_s (1%N :: bs).

Definition seg_bytes (s : sx) : list N :=
  let k := getZ (nthx 0 s) in
  if Z.eqb k 0 then map getN (tl (getL s))
  else if Z.eqb k 1 then blob_bytes (getN (nthx 1 s))
  else repeat (getN (nthx 2 s)) (getnat (nthx 1 s)).

Definition payload_bytes (s : sx) : list N := flat_map seg_bytes (getL s).

(* ---- decompression table; a lookup that misses answers a point with
   Y = 0, which no curve point has, so a miss can never agree with Go *)
Fixpoint table_lookup (tbl : list sx) (x : N) (odd : bool) : option (N * N) :=
  match tbl with
  | [] => Some (x, 0%N)
  | e :: t =>
      if N.eqb (getN (nthx 0 e)) x && Bool.eqb (getB (nthx 1 e)) odd then
        match getL e with
        | [_; _; y] => Some (x, getN y)
        | _ => None
        end
      else table_lookup t x odd
  end.

Definition res_class {A} (r : res A) : Z :=
  match r with Ok _ => 0 | Err => 1 | Panic => 2 end%Z.

Definition reenc_obs (input : list N) (r : res (list N)) : list sx :=
  [SZ (res_class r); ofB (match r with Ok b => bytes_eqb b input | _ => false end)].

Definition decoded {A} (r : res A) (fields : A -> list sx) (reenc : A -> res (list N)) (input : list N) : sx :=
  match r with
  | Ok a => SL (SZ 0 :: fields a ++ reenc_obs input (reenc a))
  | Err => SL [SZ 1]
  | Panic => SL [SZ 2]
  end.

Definition all_curves := [P224; P256; P384; P521].

Definition consts_obs : sx :=
  SL [ SL (map ofLN [magicRound1; magicRound2; magicRound3; magicGarblerSession; magicEvalSession]);
       SL (map (fun c => SL [SZ (curve_id c); ofLN (curve_name c); ofnat (byteLen c)]) all_curves);
       ofnat round3PayloadLen ].

Definition run_c18 (inp : sx) : sx :=
  let kind := getZ (nthx 0 inp) in
  if Z.eqb kind 0 then consts_obs
  else if Z.eqb kind 6 then
    let by_ := bitsToBytesLittle (getLB (nthx 1 inp)) in
    SL [ofLN by_; ofLB (bytesToBitsLittle by_)]
  else
    let c := curve_of_Z (getZ (nthx 1 inp)) in
    let data := payload_bytes (nthx 2 inp) in
    let tbl := getL (nthx 3 inp) in
    if Z.eqb kind 1 then
      decoded (DecodeRound1 c data)
        (fun p => [ofN (r1_sid p); ofLN (r1_name p); ofN (r1_ax p); ofN (r1_ay p)])
        (EncodeRound1 c) data
    else if Z.eqb kind 2 then
      decoded (DecodeRound2 (fun _ => table_lookup tbl) c data)
        (fun p => [ofN (r2_sid p); ofLN (r2_name p); ofLN (map fst (r2_choices p)); ofLN (map snd (r2_choices p))])
        (EncodeRound2 c) data
    else if Z.eqb kind 3 then
      decoded (DecodeRound3 data)
        (fun p => [ofN (r3_sid p); ofN (bytes_blob (r3_key p));
                   ofN (bytes_blob (encodeLabelList (r3_tables p)));
                   ofN (bytes_blob (encodeLabelList (r3_inputs p)));
                   ofN (bytes_blob (encodeLabelList (unpairs (r3_hints p))));
                   ofN (bytes_blob (encodeLabelList (unpairs (r3_cts p))))])
        EncodeRound3 data
    else if Z.eqb kind 4 then
      decoded (DecodeGarblerSession c data)
        (fun s => [ofN (gs_sid s); ofLN (gs_name s); ofN (gs_scalar s); ofN (gs_ax s); ofN (gs_ay s);
                   ofN (gs_ainvx s); ofN (gs_ainvy s)])
        (EncodeGarblerSession c) data
    else if Z.eqb kind 5 then
      decoded (DecodeEvaluatorSession c data)
        (fun s => [ofN (es_sid s); ofLN (es_name s); ofN (es_ax s); ofN (es_ay s);
                   ofLN (es_scalars s); ofLB (es_bits s)])
        (EncodeEvaluatorSession c) data
    else sx_err 9.

(* the constants the model defines itself (not integer constants of
   Gen/Consts.v): the harness reports the Go values in its kind-0 case, which
   [run_c18] must reproduce; here they are tied to the documented values *)
Lemma c18_consts_ok :
  map byteLen all_curves = [28; 32; 48; 66]%nat /\
  N.of_nat round3PayloadLen = 707146%N /\
  map (fun c => N.of_nat (length (curve_name c))) all_curves = [5; 5; 5; 5]%N /\
  N.of_nat evaluatorChoiceSignBytes = ((N.of_nat evaluatorCiphertextCount + 7) / 8)%N /\
  N.of_nat garbledTableByteLen = (N.of_nat garbledTableLabelCount * N.of_nat labelByteLen)%N.
Proof. vm_compute. repeat split; reflexivity. Qed.

Lemma blob_example :
  blob_bytes 0x01000203ff%N = [0; 2; 3; 255]%N /\ bytes_blob [0; 2; 3; 255]%N = 0x01000203ff%N.
Proof. vm_compute. split; reflexivity. Qed.
