(* IO/IOArgProof.v — proofs about the model IO/IOArg.v (property C13). *)
From Coq Require Import ZArith NArith List Bool Lia ZifyBool.
From Coq Require String Ascii.
From Mpc Require Import Gen.Consts IO.IOArg.
Import ListNotations.
Open Scope Z_scope.

(* ------------------------------------------------------------------ *)
(** * Bits *)

Lemma set_bit_spec r i b k :
  0 <= k -> Z.testbit (set_bit r i b) k = if k =? Z.of_nat i then b else Z.testbit r k.
Proof.
  intros Hk. unfold set_bit. destruct b.
  - rewrite Z.setbit_eqb by lia. rewrite Z.eqb_sym. destruct (k =? Z.of_nat i); reflexivity.
  - rewrite Z.clearbit_eqb. rewrite Z.eqb_sym.
    destruct (k =? Z.of_nat i); simpl; [apply andb_false_r | apply andb_true_r].
Qed.

Lemma copy_bits_spec n : forall r off inp k,
  0 <= k ->
  Z.testbit (copy_bits r off inp n) k =
  if (Z.of_nat off <=? k) && (k <? Z.of_nat (off + n))
  then Z.testbit inp (k - Z.of_nat off) else Z.testbit r k.
Proof.
  unfold copy_bits. induction n as [|n IH]; intros r off inp k Hk.
  - simpl. destruct (Z.of_nat off <=? k) eqn:E1, (k <? Z.of_nat (off + 0)) eqn:E2; simpl; try reflexivity; lia.
  - rewrite seq_S, fold_left_app. simpl fold_left at 1. simpl.
    rewrite set_bit_spec by lia. rewrite IH by lia.
    destruct (k =? Z.of_nat (off + n)) eqn:E.
    + apply Z.eqb_eq in E. subst k.
      replace (Z.of_nat off <=? Z.of_nat (off + n)) with true by (symmetry; apply Z.leb_le; lia).
      replace (Z.of_nat (off + n) <? Z.of_nat (off + S n)) with true by (symmetry; apply Z.ltb_lt; lia).
      simpl. f_equal. lia.
    + apply Z.eqb_neq in E.
      destruct (Z.of_nat off <=? k) eqn:E1; simpl; try reflexivity.
      destruct (k <? Z.of_nat (off + n)) eqn:E2, (k <? Z.of_nat (off + S n)) eqn:E3; try reflexivity; lia.
Qed.

Lemma mask_of_spec n : forall k, 0 <= k -> Z.testbit (mask_of n) k = (k <? Z.of_nat n).
Proof.
  unfold mask_of. induction n as [|n IH]; intros k Hk.
  - simpl. rewrite Z.testbit_0_l. symmetry. apply Z.ltb_ge. lia.
  - rewrite seq_S, fold_left_app. cbn [fold_left Nat.add]. rewrite set_bit_spec by lia. rewrite IH by lia.
    destruct (k =? Z.of_nat n) eqn:E.
    + symmetry. apply Z.ltb_lt. apply Z.eqb_eq in E. lia.
    + apply Z.eqb_neq in E. destruct (k <? Z.of_nat n) eqn:E1, (k <? Z.of_nat (S n)) eqn:E2; try reflexivity; lia.
Qed.

Lemma mask_of_ones n : mask_of n = Z.ones (Z.of_nat n).
Proof.
  apply Z.bits_inj'. intros k Hk. rewrite mask_of_spec by lia.
  destruct (k <? Z.of_nat n) eqn:E.
  - rewrite Z.ones_spec_low; [reflexivity | lia].
  - rewrite Z.ones_spec_high; [reflexivity | lia].
Qed.

Lemma land_mask_of z n : Z.land z (mask_of n) = z mod 2 ^ Z.of_nat n.
Proof. rewrite mask_of_ones. apply Z.land_ones. lia. Qed.

(* wires *)
Lemma wires_length r n : length (wires r n) = n.
Proof. unfold wires. rewrite map_length, seq_length. reflexivity. Qed.

Lemma wires_ext r r' n :
  (forall k, 0 <= k < Z.of_nat n -> Z.testbit r k = Z.testbit r' k) -> wires r n = wires r' n.
Proof.
  intros H. unfold wires. apply map_ext_in. intros i Hi. apply in_seq in Hi. apply H. lia.
Qed.

Lemma seq_add_map a b : seq a b = map (fun i => (a + i)%nat) (seq 0 b).
Proof.
  induction b as [|b IH]; [reflexivity|].
  rewrite !seq_S, map_app, IH. simpl. reflexivity.
Qed.

Lemma wires_app r a b : wires r (a + b) = wires r a ++ wires (Z.shiftr r (Z.of_nat a)) b.
Proof.
  unfold wires. rewrite seq_app, map_app. f_equal. simpl.
  rewrite (seq_add_map a b), map_map. apply map_ext. intros i. rewrite Z.shiftr_spec by lia. f_equal. lia.
Qed.

Lemma wires_S r n : wires r (S n) = wires r n ++ [Z.testbit r (Z.of_nat n)].
Proof. unfold wires. rewrite seq_S, map_app. reflexivity. Qed.

Lemma wires_nth r n i : (i < n)%nat -> nth i (wires r n) false = Z.testbit r (Z.of_nat i).
Proof.
  intros H. unfold wires.
  rewrite (nth_indep _ false (Z.testbit r (Z.of_nat 0))) by (rewrite map_length, seq_length; lia).
  rewrite (map_nth (fun i => Z.testbit r (Z.of_nat i))). rewrite seq_nth by lia. reflexivity.
Qed.

(* the unsigned number a wire vector spells, least significant bit first *)
Fixpoint from_bits (l : list bool) : Z :=
  match l with
  | [] => 0
  | b :: l' => Z.b2z b + 2 * from_bits l'
  end.

Lemma from_bits_app l1 l2 : from_bits (l1 ++ l2) = from_bits l1 + 2 ^ Z.of_nat (length l1) * from_bits l2.
Proof.
  induction l1 as [|b l1 IH]; cbn [from_bits app length].
  - rewrite Z.pow_0_r. lia.
  - rewrite IH. rewrite Nat2Z.inj_succ, Z.pow_succ_r by lia. ring.
Qed.

(* two's complement: the wires of z, read as an unsigned number, are z mod 2^n *)
Lemma from_bits_wires z n : from_bits (wires z n) = z mod 2 ^ Z.of_nat n.
Proof.
  induction n as [|n IH].
  - simpl. rewrite Z.mod_1_r. reflexivity.
  - rewrite wires_S, from_bits_app, wires_length, IH. cbn [from_bits].
    rewrite Nat2Z.inj_succ, Z.pow_succ_r by lia.
    rewrite Z.testbit_spec' by lia.
    assert (H2 : 0 < 2 ^ Z.of_nat n) by (apply Z.pow_pos_nonneg; lia).
    set (p := 2 ^ Z.of_nat n) in *.
    rewrite (Z.mul_comm 2 p), Z.rem_mul_r by lia. lia.
Qed.

Lemma from_bits_range l : 0 <= from_bits l < 2 ^ Z.of_nat (length l).
Proof.
  induction l as [|b l IH]; cbn [from_bits length].
  - simpl. lia.
  - rewrite Nat2Z.inj_succ, Z.pow_succ_r by lia. destruct b; simpl Z.b2z; lia.
Qed.

Lemma testbit_nonneg_lt z n k : 0 <= z < 2 ^ n -> n <= k -> Z.testbit z k = false.
Proof.
  intros [H0 H1] Hk. destruct (Z.eq_dec z 0) as [->|Hz]; [apply Z.testbit_0_l|].
  assert (0 <= n) by (destruct (Z_lt_le_dec n 0) as [Hn|]; [rewrite Z.pow_neg_r in H1 by lia; lia | lia]).
  assert (2 ^ n <= 2 ^ k) by (apply Z.pow_le_mono_r; lia).
  apply Z.bits_above_log2; [lia|]. apply Z.log2_lt_pow2; lia.
Qed.

Lemma testbit_neg_ge z n k : - 2 ^ n <= z < 0 -> 0 <= n <= k -> Z.testbit z k = true.
Proof.
  intros [H0 H1] Hk.
  replace z with (- (- z)) by lia. rewrite Z.bits_opp by lia.
  rewrite (testbit_nonneg_lt (Z.pred (- z)) n k); [reflexivity | lia | lia].
Qed.

(* two numbers with the same bits below n and no bits at or above n are equal *)
Lemma wires_inj a b n :
  0 <= a < 2 ^ Z.of_nat n -> 0 <= b < 2 ^ Z.of_nat n -> wires a n = wires b n -> a = b.
Proof.
  intros Ha Hb H.
  rewrite <- (Z.mod_small a (2 ^ Z.of_nat n)) by lia.
  rewrite <- (Z.mod_small b (2 ^ Z.of_nat n)) by lia.
  rewrite <- !from_bits_wires. rewrite H. reflexivity.
Qed.

(* ------------------------------------------------------------------ *)
(** * IOArg.Parse: compound arguments *)

Definition total_bits (cs : list ioarg) : nat :=
  fold_right (fun a acc => (i_bits (a_type a) + acc)%nat) O cs.

(* the values Parse computes for the members, one input string each *)
Fixpoint member_values (P : ioarg -> list (list N) -> res Z) (cs : list ioarg) (ins : list (list N))
  : option (list Z) :=
  match cs, ins with
  | [], _ => Some []
  | a :: cs', s :: ins' =>
      match P a [s] with
      | Ok x => option_map (cons x) (member_values P cs' ins')
      | _ => None
      end
  | _ :: _, [] => None
  end.

(* the wires of the members, in declaration order *)
Definition member_wires (cs : list ioarg) (rs : list Z) : list bool :=
  concat (map (fun ax => wires (snd ax) (i_bits (a_type (fst ax)))) (combine cs rs)).

Lemma wires_copy_bits result offset x b :
  wires (copy_bits result offset x b) (offset + b) = wires result offset ++ wires x b.
Proof.
  rewrite wires_app. f_equal.
  - apply wires_ext. intros k Hk. rewrite copy_bits_spec by lia.
    destruct (Z.of_nat offset <=? k) eqn:E; [lia | reflexivity].
  - apply wires_ext. intros k Hk. rewrite Z.shiftr_spec by lia. rewrite copy_bits_spec by lia.
    destruct (Z.of_nat offset <=? k + Z.of_nat offset) eqn:E1; [|lia].
    destruct (k + Z.of_nat offset <? Z.of_nat (offset + b)) eqn:E2; [|lia].
    simpl. f_equal. lia.
Qed.

Lemma parse_members_wires P : forall cs ins result offset r,
  parse_members P cs ins result offset = Ok r ->
  exists rs, member_values P cs ins = Some rs /\ length rs = length cs /\
    wires r (offset + total_bits cs) = wires result offset ++ member_wires cs rs.
Proof.
  induction cs as [|a cs IH]; intros ins result offset r H; simpl in H.
  - inversion H; subst. exists []. repeat split.
    unfold member_wires. simpl. rewrite Nat.add_0_r, app_nil_r. reflexivity.
  - destruct ins as [|s ins]; [discriminate|].
    simpl member_values. destruct (P a [s]) as [x| |] eqn:EP; try discriminate.
    apply IH in H. destruct H as (rs & Hv & Hl & Hw).
    exists (x :: rs). rewrite Hv. repeat split; [simpl; lia|].
    unfold member_wires in *. simpl. rewrite Nat.add_assoc, Hw, wires_copy_bits, app_assoc. reflexivity.
Qed.

(* Theorem (1), compound part: the wires of a compound argument are the
   wires of its members, each on its own Type.Bits wires, in declaration order *)
Lemma parse_compound_wires t c cs ins r :
  parse (IOArg t (c :: cs)) ins = Ok r ->
  length ins = length (c :: cs) /\
  exists rs, member_values parse (c :: cs) ins = Some rs /\ length rs = length (c :: cs) /\
    wires r (total_bits (c :: cs)) = member_wires (c :: cs) rs.
Proof.
  intros H. cbn [parse] in H.
  destruct (Nat.eqb (length ins) (length (c :: cs))) eqn:EL; simpl negb in H; cbv iota in H; [|discriminate].
  apply Nat.eqb_eq in EL. split; [exact EL|].
  apply parse_members_wires in H. destruct H as (rs & Hv & Hl & Hw).
  exists rs. repeat split; auto.
Qed.

(* member i's wires do not depend on the other members' inputs: they are
   located at a position fixed by the types alone *)
Fixpoint offset_of (cs : list ioarg) (i : nat) : nat :=
  match i, cs with
  | S j, a :: cs' => (i_bits (a_type a) + offset_of cs' j)%nat
  | _, _ => O
  end.

Definition segment {A} (l : list A) (off n : nat) : list A := firstn n (skipn off l).

Lemma member_wires_segment : forall cs rs i a x,
  length rs = length cs -> nth_error cs i = Some a -> nth_error rs i = Some x ->
  segment (member_wires cs rs) (offset_of cs i) (i_bits (a_type a)) = wires x (i_bits (a_type a)).
Proof.
  unfold segment, member_wires.
  induction cs as [|c cs IH]; intros rs i a x Hl Ha Hx; [destruct i; discriminate|].
  destruct rs as [|y rs]; [discriminate|]. simpl in Hl.
  destruct i as [|i]; simpl in *.
  - inversion Ha; inversion Hx; subst.
    rewrite firstn_app, wires_length, Nat.sub_diag, firstn_O, app_nil_r.
    rewrite firstn_all2; [reflexivity | rewrite wires_length; lia].
  - rewrite skipn_app, wires_length.
    rewrite skipn_all2 by (rewrite wires_length; lia).
    replace (i_bits (a_type c) + offset_of cs i - i_bits (a_type c))%nat with (offset_of cs i) by lia.
    simpl. apply IH; auto.
Qed.

Lemma member_values_nth P : forall cs ins rs j a s,
  member_values P cs ins = Some rs ->
  nth_error cs j = Some a -> nth_error ins j = Some s ->
  exists x, P a [s] = Ok x /\ nth_error rs j = Some x.
Proof.
  induction cs as [|c cs IH]; intros ins rs j a s Hv Ha Hs; [destruct j; discriminate|].
  destruct ins as [|s0 ins]; [destruct j; discriminate|].
  simpl in Hv. destruct (P c [s0]) as [x0| |] eqn:EP; try discriminate.
  destruct (member_values P cs ins) as [rs0|] eqn:EV; try discriminate.
  simpl in Hv. inversion Hv; subst rs.
  destruct j as [|j]; simpl in *.
  - inversion Ha; inversion Hs; subst. exists x0. auto.
  - eapply IH; eauto.
Qed.

(* Theorem (3) for Parse: whatever the other members' inputs are, the wires
   of member j are the wires of Parse on member j alone *)
Lemma parse_member_independent t c cs ins r j a s :
  parse (IOArg t (c :: cs)) ins = Ok r ->
  nth_error (c :: cs) j = Some a -> nth_error ins j = Some s ->
  exists x, parse a [s] = Ok x /\
    segment (wires r (total_bits (c :: cs))) (offset_of (c :: cs) j) (i_bits (a_type a))
    = wires x (i_bits (a_type a)).
Proof.
  intros H Ha Hs. apply parse_compound_wires in H.
  destruct H as (Hl & rs & Hv & Hlr & Hw).
  destruct (member_values_nth _ _ _ _ _ _ _ Hv Ha Hs) as (x & Hx & Hn).
  exists x. split; [exact Hx|]. rewrite Hw. apply member_wires_segment; auto.
Qed.

Lemma parse_independent t c cs ins ins' r r' j a s :
  parse (IOArg t (c :: cs)) ins = Ok r -> parse (IOArg t (c :: cs)) ins' = Ok r' ->
  nth_error (c :: cs) j = Some a -> nth_error ins j = Some s -> nth_error ins' j = Some s ->
  segment (wires r (total_bits (c :: cs))) (offset_of (c :: cs) j) (i_bits (a_type a))
  = segment (wires r' (total_bits (c :: cs))) (offset_of (c :: cs) j) (i_bits (a_type a)).
Proof.
  intros H H' Ha Hs Hs'.
  destruct (parse_member_independent _ _ _ _ _ _ _ _ H Ha Hs) as (x & Hx & E).
  destruct (parse_member_independent _ _ _ _ _ _ _ _ H' Ha Hs') as (x' & Hx' & E').
  rewrite E, E'. congruence.
Qed.

(* ------------------------------------------------------------------ *)
(** * IOArg.Parse: scalars *)

Lemma parse_leaf_arg t s : parse (IOArg t []) [s] = parse_leaf t s.
Proof. reflexivity. Qed.

Lemma parse_int b s : parse (leaf_arg (TyInt b)) [s] = match set_string s with Some z => Ok z | None => Err end.
Proof. reflexivity. Qed.

Lemma parse_uint b s : parse (leaf_arg (TyUint b)) [s] = match set_string s with Some z => Ok z | None => Err end.
Proof. reflexivity. Qed.

(* Theorem (1), integers: every spelling SetString reads as z puts the
   two's complement of z on the wires: as an unsigned number, z mod 2^b *)
Lemma parse_int_bits (signed : bool) b s z :
  set_string s = Some z ->
  exists r, parse (leaf_arg (if signed then TyInt b else TyUint b)) [s] = Ok r /\
    wires r b = wires z b /\ from_bits (wires r b) = z mod 2 ^ Z.of_nat b.
Proof.
  intros H. exists z. destruct signed; [rewrite parse_int | rewrite parse_uint];
    rewrite H; repeat split; apply from_bits_wires.
Qed.

Lemma parse_bool s :
  parse (leaf_arg TyBool) [s] =
  if mem_str s bool_false_spellings then Ok 0
  else if mem_str s bool_true_spellings then Ok 1 else Err.
Proof. reflexivity. Qed.

Lemma parse_bool_bits s r : parse (leaf_arg TyBool) [s] = Ok r ->
  (mem_str s bool_false_spellings = true /\ wires r 1 = [false]) \/
  (mem_str s bool_true_spellings = true /\ wires r 1 = [true]).
Proof.
  rewrite parse_bool. destruct (mem_str s bool_false_spellings).
  - intros H; inversion H; subst. left. auto.
  - destruct (mem_str s bool_true_spellings); intros H; inversion H; subst. right. auto.
Qed.

(* ------------------------------------------------------------------ *)
(** * IOArg.Parse: arrays and slices *)

Lemma i_bits_info_of t : i_bits (info_of t) = bits_of t.
Proof. destruct t; reflexivity. Qed.

Definition pack_step (val : Z) (count elSize : nat) (result : Z) (i : nat) : Z :=
  Z.lor result
        (Z.shiftl (Z.land (Z.shiftr val (Z.of_nat ((count - i - 1) * elSize))) (mask_of elSize))
                  (Z.of_nat (i * elSize))).

Lemma parse_array_pack_fold val count e :
  parse_array_pack val count e = fold_left (pack_step val count e) (seq 0 count) 0.
Proof. reflexivity. Qed.

Definition chunk (val : Z) (count e i : nat) : Z := Z.shiftr val (Z.of_nat ((count - i - 1) * e)).

Lemma pack_prefix val count e : forall m,
  let r := fold_left (pack_step val count e) (seq 0 m) 0 in
  0 <= r /\ (forall k, Z.of_nat (m * e) <= k -> Z.testbit r k = false) /\
  wires r (m * e) = concat (map (fun i => wires (chunk val count e i) e) (seq 0 m)).
Proof.
  induction m as [|m IH]; intros r.
  - subst r. simpl. repeat split; try lia. intros. apply Z.testbit_0_l.
  - subst r. rewrite seq_S, fold_left_app. cbn [fold_left Nat.add].
    set (rm := fold_left (pack_step val count e) (seq 0 m) 0) in *.
    destruct IH as (Hnn & Hhi & Hw).
    assert (Hstep : pack_step val count e rm m
                    = Z.lor rm (Z.shiftl (Z.land (chunk val count e m) (mask_of e)) (Z.of_nat (m * e))))
      by reflexivity.
    rewrite Hstep. clear Hstep.
    set (X := Z.land (chunk val count e m) (mask_of e)).
    assert (HX : 0 <= X < 2 ^ Z.of_nat e).
    { subst X. rewrite land_mask_of. apply Z.mod_pos_bound. apply Z.pow_pos_nonneg; lia. }
    assert (HXb : forall k, 0 <= k < Z.of_nat e -> Z.testbit X k = Z.testbit (chunk val count e m) k).
    { intros k Hk. subst X. rewrite Z.land_spec, mask_of_spec by lia.
      replace (k <? Z.of_nat e) with true by lia. apply andb_true_r. }
    repeat split.
    + apply Z.lor_nonneg. split; [exact Hnn|]. apply Z.shiftl_nonneg. lia.
    + intros k Hk. rewrite Z.lor_spec, Hhi by lia. rewrite Z.shiftl_spec by lia.
      simpl. apply (testbit_nonneg_lt X (Z.of_nat e)); [exact HX | lia].
    + replace (S m * e)%nat with (m * e + e)%nat by lia.
      rewrite wires_app, map_app, concat_app. simpl. rewrite app_nil_r. f_equal.
      * rewrite <- Hw. apply wires_ext. intros k Hk.
        rewrite Z.lor_spec, Z.shiftl_spec_low by lia. apply orb_false_r.
      * apply wires_ext. intros k Hk.
        rewrite Z.shiftr_spec, Z.lor_spec, Hhi, Z.shiftl_spec by lia. simpl.
        replace (k + Z.of_nat (m * e) - Z.of_nat (m * e)) with k by lia. apply HXb. lia.
Qed.

Lemma parse_array_pack_spec val count e :
  let r := parse_array_pack val count e in
  0 <= r < 2 ^ Z.of_nat (count * e) /\
  wires r (count * e) = concat (map (fun i => wires (chunk val count e i) e) (seq 0 count)).
Proof.
  intros r. subst r. rewrite parse_array_pack_fold.
  destruct (pack_prefix val count e count) as (Hnn & Hhi & Hw).
  set (r := fold_left _ _ _) in *. split; [|exact Hw]. split; [exact Hnn|].
  destruct (Z_lt_le_dec r (2 ^ Z.of_nat (count * e))) as [|Hge]; [assumption|exfalso].
  assert (Hpos : 0 < r) by (assert (0 < 2 ^ Z.of_nat (count * e)) by (apply Z.pow_pos_nonneg; lia); lia).
  pose proof (Z.bit_log2 r Hpos) as Hb.
  rewrite Hhi in Hb; [discriminate|].
  apply Z.log2_le_pow2; lia.
Qed.

Lemma map_const_repeat_gen : forall e s, map (fun _ : nat => false) (seq s e) = repeat false e.
Proof. induction e as [|e IH]; intros s; simpl; [reflexivity | rewrite IH; reflexivity]. Qed.
Lemma map_const_repeat e : map (fun _ : nat => false) (seq 0 e) = repeat false e.
Proof. apply map_const_repeat_gen. Qed.

(* the literal's value, left-aligned to [count] elements when it has fewer ([k]) *)
Lemma chunk_padded val count k e i :
  (k <= count)%nat -> (i < count)%nat ->
  wires (chunk (Z.shiftl val (Z.of_nat ((count - k) * e))) count e i) e =
  if (i <? k)%nat then wires (chunk val k e i) e else repeat false e.
Proof.
  intros Hk Hi. unfold chunk. destruct (i <? k)%nat eqn:E.
  - apply Nat.ltb_lt in E. rewrite Z.shiftr_shiftl_r by nia.
    f_equal. f_equal. nia.
  - apply Nat.ltb_ge in E. rewrite Z.shiftr_shiftl_l by nia.
    assert (He : (e <= (count - k) * e - (count - i - 1) * e)%nat) by nia.
    unfold wires. rewrite <- (map_const_repeat e). apply map_ext_in. intros j Hj. apply in_seq in Hj.
    apply Z.shiftl_spec_low. nia.
Qed.

Lemma parse_tyarray el n s :
  parse (leaf_arg (TyArray el n)) [s] = parse_array (info_of (TyArray el n)) s.
Proof. reflexivity. Qed.
Lemma parse_tyslice el n s :
  parse (leaf_arg (TySlice el n)) [s] = parse_array (info_of (TySlice el n)) s.
Proof. reflexivity. Qed.

(* number of elements a literal denotes *)
Definition literal_elems (s : list N) (val : Z) (e : nat) : nat := ceil_div (literal_bit_len s val) e.

(* element i of the array as Parse reads the literal: the literal is a
   big-endian sequence of k e-bit elements; a short literal is followed by
   zero elements *)
Definition array_elem_wires (val : Z) (k e i : nat) : list bool :=
  if (i <? k)%nat then wires (chunk val k e i) e else repeat false e.

(* Theorem (1), arrays *)
Lemma parse_array_bits el n s val r :
  (0 < bits_of el)%nat -> (0 < n)%nat ->
  set_string s = Some val ->
  parse (leaf_arg (TyArray el n)) [s] = Ok r ->
  let e := bits_of el in
  let k := literal_elems s val e in
  (k <= n)%nat /\ 0 <= r < 2 ^ Z.of_nat (n * e) /\
  wires r (n * e) = concat (map (array_elem_wires val k e) (seq 0 n)).
Proof.
  intros He Hn Hs H e k. rewrite parse_tyarray in H. unfold parse_array in H.
  cbn [i_elem info_of i_asize] in H. rewrite i_bits_info_of in H.
  replace (kind_is (Info types_TArray (n * bits_of el) n (Some (info_of el)) [] true) types_TArray) with true in H by reflexivity.
  replace (kind_is (Info types_TArray (n * bits_of el) n (Some (info_of el)) [] true) types_TSlice) with false in H by reflexivity.
  destruct (Nat.eqb n 0) eqn:En; [apply Nat.eqb_eq in En; lia|]. simpl andb in H. cbv iota in H.
  rewrite Hs in H. fold e in H.
  destruct (Nat.eqb e 0) eqn:Ee; [apply Nat.eqb_eq in Ee; lia|].
  fold (literal_elems s val e) in H. fold k in H.
  destruct (n <? k)%nat eqn:Ek; [discriminate|]. apply Nat.ltb_ge in Ek.
  inversion H; subst r. clear H.
  destruct (parse_array_pack_spec (Z.shiftl val (Z.of_nat ((n - k) * e))) n e) as (Hr & Hw).
  split; [exact Ek|]. split; [exact Hr|]. rewrite Hw.
  f_equal. apply map_ext_in. intros i Hi. apply in_seq in Hi.
  unfold array_elem_wires. apply chunk_padded; lia.
Qed.

Lemma parse_empty_array_bits el s : parse (leaf_arg (TyArray el 0)) [s] = Ok 0.
Proof. reflexivity. Qed.

(* Theorem (1), slices: the literal determines the element count *)
Lemma parse_slice_bits el n s val r :
  (0 < bits_of el)%nat ->
  set_string s = Some val ->
  parse (leaf_arg (TySlice el n)) [s] = Ok r ->
  let e := bits_of el in
  let k := literal_elems s val e in
  0 <= r < 2 ^ Z.of_nat (k * e) /\
  wires r (k * e) = concat (map (array_elem_wires val k e) (seq 0 k)).
Proof.
  intros He Hs H e k. rewrite parse_tyslice in H. unfold parse_array in H.
  cbn [i_elem info_of i_asize] in H. rewrite i_bits_info_of in H.
  replace (kind_is (Info types_TSlice (n * bits_of el) n (Some (info_of el)) [] true) types_TArray) with false in H by reflexivity.
  replace (kind_is (Info types_TSlice (n * bits_of el) n (Some (info_of el)) [] true) types_TSlice) with true in H by reflexivity.
  simpl andb in H. cbv iota in H.
  rewrite Hs in H. fold e in H.
  destruct (Nat.eqb e 0) eqn:Ee; [apply Nat.eqb_eq in Ee; lia|].
  fold (literal_elems s val e) in H. fold k in H.
  rewrite Nat.ltb_irrefl in H.
  inversion H; subst r. clear H.
  destruct (parse_array_pack_spec (Z.shiftl val (Z.of_nat ((k - k) * e))) k e) as (Hr & Hw).
  split; [exact Hr|]. rewrite Hw.
  f_equal. apply map_ext_in. intros i Hi. apply in_seq in Hi.
  unfold array_elem_wires. apply chunk_padded; lia.
Qed.

(* the value of an array literal: its elements, first element most significant *)
Definition be_step (e : nat) (acc x : Z) : Z := acc * 2 ^ Z.of_nat e + x.
Definition be_value (e : nat) (l : list Z) : Z := fold_left (be_step e) l 0.

Lemma be_fold e : forall l acc,
  Forall (fun x => 0 <= x < 2 ^ Z.of_nat e) l ->
  exists b, 0 <= b < 2 ^ Z.of_nat (length l * e) /\
            fold_left (be_step e) l 0 = b /\
            fold_left (be_step e) l acc = acc * 2 ^ Z.of_nat (length l * e) + b.
Proof.
  induction l as [|x l IH]; intros acc HF.
  - exists 0. simpl. repeat split; lia.
  - inversion HF as [|? ? Hx HF']; subst. cbn [fold_left length].
    destruct (IH (be_step e acc x) HF') as (b & Hb & Eb & E).
    destruct (IH (be_step e 0 x) HF') as (b' & _ & Eb' & E').
    assert (Hbb : b' = b) by congruence.
    rewrite Hbb in *. clear Hbb Eb'.
    assert (Hp : 2 ^ Z.of_nat (S (length l) * e) = 2 ^ Z.of_nat e * 2 ^ Z.of_nat (length l * e)).
    { rewrite <- Z.pow_add_r by lia. f_equal. lia. }
    assert (0 < 2 ^ Z.of_nat (length l * e)) by (apply Z.pow_pos_nonneg; lia).
    exists (x * 2 ^ Z.of_nat (length l * e) + b). repeat split.
    + nia.
    + rewrite Hp. nia.
    + rewrite E'. rewrite ?Eb. unfold be_step. ring.
    + rewrite E, Hp. unfold be_step. ring.
Qed.

Lemma be_value_range e l :
  Forall (fun x => 0 <= x < 2 ^ Z.of_nat e) l -> 0 <= be_value e l < 2 ^ Z.of_nat (length l * e).
Proof. intros HF. destruct (be_fold e l 0 HF) as (b & Hb & E & _). unfold be_value. rewrite E. exact Hb. Qed.

Lemma be_value_app e a b :
  Forall (fun x => 0 <= x < 2 ^ Z.of_nat e) b ->
  be_value e (a ++ b) = be_value e a * 2 ^ Z.of_nat (length b * e) + be_value e b.
Proof.
  intros HF. unfold be_value. rewrite fold_left_app.
  destruct (be_fold e b (fold_left (be_step e) a 0) HF) as (x & _ & E0 & E). rewrite E, E0. reflexivity.
Qed.

Lemma wires_add_high P x e : wires (P * 2 ^ Z.of_nat e + x) e = wires x e.
Proof.
  apply wires_ext. intros k Hk.
  rewrite <- (Z.mod_pow2_bits_low (P * 2 ^ Z.of_nat e + x) (Z.of_nat e)) by lia.
  rewrite <- (Z.mod_pow2_bits_low x (Z.of_nat e) k) by lia.
  f_equal. rewrite Z.add_comm, Z.mod_add; [reflexivity|].
  apply Z.pow_nonzero; lia.
Qed.

Lemma firstn_S_nth {A} (d : A) : forall l i, (i < length l)%nat -> firstn (S i) l = firstn i l ++ [nth i l d].
Proof.
  induction l as [|x l IH]; intros i Hi; simpl in Hi; [lia|].
  destruct i; [reflexivity|]. simpl. f_equal. apply IH. lia.
Qed.

(* element i of the literal that spells the element list l is l[i] *)
Lemma chunk_be_value e l i :
  Forall (fun x => 0 <= x < 2 ^ Z.of_nat e) l -> (i < length l)%nat ->
  wires (chunk (be_value e l) (length l) e i) e = wires (nth i l 0) e.
Proof.
  intros HF Hi. unfold chunk.
  rewrite <- (firstn_skipn (S i) l) at 1.
  assert (HFs : Forall (fun x => 0 <= x < 2 ^ Z.of_nat e) (skipn (S i) l)).
  { apply Forall_forall. intros x Hx. rewrite Forall_forall in HF. apply HF.
    rewrite <- (firstn_skipn (S i) l). apply in_or_app. right. exact Hx. }
  rewrite be_value_app by exact HFs.
  rewrite skipn_length.
  replace (length l - S i)%nat with (length l - i - 1)%nat by lia.
  pose proof (be_value_range e _ HFs) as Hr. rewrite skipn_length in Hr.
  replace (length l - S i)%nat with (length l - i - 1)%nat in Hr by lia.
  set (s := Z.of_nat ((length l - i - 1) * e)) in *.
  assert (Hs0 : 0 <= s) by (unfold s; apply Nat2Z.is_nonneg).
  assert (0 < 2 ^ s) by (apply Z.pow_pos_nonneg; lia).
  rewrite Z.shiftr_div_pow2 by lia.
  rewrite Z.div_add_l by lia. rewrite (Z.div_small (be_value e (skipn (S i) l))) by lia.
  rewrite Z.add_0_r.
  rewrite (firstn_S_nth 0) by lia.
  rewrite be_value_app by (constructor; [rewrite Forall_forall in HF; apply HF, nth_In; lia | constructor]).
  simpl length. rewrite Nat.mul_1_l.
  replace (be_value e [nth i l 0]) with (nth i l 0) by (unfold be_value, be_step; simpl; lia).
  apply wires_add_high.
Qed.

(* ------------------------------------------------------------------ *)
(** * IOArg.Set *)

(* nothing has been written at or above ofs yet *)
Definition clean (r : Z) (ofs : nat) : Prop := forall k, Z.of_nat ofs <= k -> Z.testbit r k = false.

Lemma clean_0 : clean 0 0.
Proof. intros k _. apply Z.testbit_0_l. Qed.

Lemma fold_set_bits_spec (f : nat -> bool) n : forall r off k,
  0 <= k ->
  Z.testbit (fold_left (fun r i => set_bit r (off + i) (f i)) (seq 0 n) r) k =
  if (Z.of_nat off <=? k) && (k <? Z.of_nat (off + n))
  then f (Z.to_nat (k - Z.of_nat off)) else Z.testbit r k.
Proof.
  induction n as [|n IH]; intros r off k Hk.
  - simpl. destruct (Z.of_nat off <=? k) eqn:E1, (k <? Z.of_nat (off + 0)) eqn:E2; simpl; try reflexivity; lia.
  - rewrite seq_S, fold_left_app. cbn [fold_left Nat.add].
    rewrite set_bit_spec by lia. rewrite IH by lia.
    destruct (k =? Z.of_nat (off + n)) eqn:E.
    + replace (Z.of_nat off <=? k) with true by lia.
      replace (k <? Z.of_nat (off + S n)) with true by lia.
      simpl. f_equal. lia.
    + destruct (Z.of_nat off <=? k) eqn:E1; simpl; try reflexivity.
      destruct (k <? Z.of_nat (off + n)) eqn:E2, (k <? Z.of_nat (off + S n)) eqn:E3; try reflexivity; lia.
Qed.

(* what a correct setInt does on a result that is clean above ofs *)
Definition si_spec (SI : info -> Z -> Z -> nat -> Z) (t : info) (z : Z) : Prop :=
  forall result ofs, clean result ofs ->
    clean (SI t result z ofs) (ofs + i_bits t) /\
    wires (SI t result z ofs) (ofs + i_bits t) = wires result ofs ++ wires z (i_bits t).

(* the Go integer kinds: int8 … uint64 *)
Definition go_int_range (z : Z) : Prop := - 2 ^ 63 <= z < 2 ^ 64.

Lemma go_int_bit z i : go_int_range z -> (64 <= i)%nat -> Z.testbit z (Z.of_nat i) = (z <? 0).
Proof.
  intros [H1 H2] Hi. destruct (z <? 0) eqn:E.
  - apply (testbit_neg_ge z 63); lia.
  - apply (testbit_nonneg_lt z 64); lia.
Qed.

Lemma set_int_fixed_spec t z : go_int_range z -> si_spec set_int_fixed t z.
Proof.
  intros Hz result ofs Hc. unfold set_int_fixed.
  set (f := fun i : nat => if (i <? 64)%nat then Z.testbit (uint64_conv z) (Z.of_nat i) else z <? 0).
  assert (Hf : forall i, f i = Z.testbit z (Z.of_nat i)).
  { intros i. unfold f. destruct (i <? 64)%nat eqn:E.
    - apply Nat.ltb_lt in E. unfold uint64_conv. apply Z.mod_pow2_bits_low. lia.
    - apply Nat.ltb_ge in E. symmetry. apply go_int_bit; assumption. }
  split.
  - intros k Hk. rewrite (fold_set_bits_spec f) by lia.
    replace (k <? Z.of_nat (ofs + i_bits t)) with false by lia. rewrite andb_false_r. apply Hc. lia.
  - rewrite wires_app. f_equal.
    + apply wires_ext. intros k Hk. rewrite (fold_set_bits_spec f) by lia.
      replace (Z.of_nat ofs <=? k) with false by lia. reflexivity.
    + apply wires_ext. intros k Hk. rewrite Z.shiftr_spec by lia.
      rewrite (fold_set_bits_spec f) by lia.
      replace (Z.of_nat ofs <=? k + Z.of_nat ofs) with true by lia.
      replace (k + Z.of_nat ofs <? Z.of_nat (ofs + i_bits t)) with true by lia.
      simpl. rewrite Hf. f_equal. lia.
Qed.

(* the values on which the 64-bit write of the pre-fix setInt was harmless *)
Definition no_hazard (bits : nat) (z : Z) : Prop :=
  (0 <= z < 2 ^ 64 /\ z < 2 ^ Z.of_nat bits) \/ (bits = 64%nat /\ go_int_range z).

Lemma set_int_old_spec t z : no_hazard (i_bits t) z -> si_spec set_int_old t z.
Proof.
  intros Hz result ofs Hc. unfold set_int_old.
  assert (Hlow : forall k, 0 <= k < 64 -> Z.testbit (uint64_conv z) k = Z.testbit z k).
  { intros k Hk. unfold uint64_conv. apply Z.mod_pow2_bits_low. lia. }
  split.
  - intros k Hk. rewrite copy_bits_spec by lia.
    destruct ((Z.of_nat ofs <=? k) && (k <? Z.of_nat (ofs + 64))) eqn:E.
    + destruct Hz as [[Hz1 Hz2]|[Hb Hr]]; [|lia].
      rewrite Hlow by lia. apply (testbit_nonneg_lt z (Z.of_nat (i_bits t))); lia.
    + apply Hc. lia.
  - rewrite wires_app. f_equal.
    + apply wires_ext. intros k Hk. rewrite copy_bits_spec by lia.
      replace (Z.of_nat ofs <=? k) with false by lia. reflexivity.
    + apply wires_ext. intros k Hk. rewrite Z.shiftr_spec by lia.
      rewrite copy_bits_spec by lia.
      replace (Z.of_nat ofs <=? k + Z.of_nat ofs) with true by lia. simpl.
      destruct (k + Z.of_nat ofs <? Z.of_nat (ofs + 64)) eqn:E.
      * replace (k + Z.of_nat ofs - Z.of_nat ofs) with k by lia. apply Hlow. lia.
      * rewrite Hc by lia. symmetry.
        destruct Hz as [[Hz1 Hz2]|[Hb Hr]]; [|lia].
        apply (testbit_nonneg_lt z 64); lia.
Qed.

(* the canonical wires of a Go value for a well-formed leaf type *)
Definition bytes_wires (e : nat) (l : list N) : list bool :=
  concat (map (fun x => wires (Z.of_N x) e) l).

Definition gin_wires (t : ty) (v : gin) : list bool :=
  match t, v with
  | TyBool, GBool b => [b]
  | TyInt b, GInt z | TyUint b, GInt z => wires z b
  | TyArray el n, GBytes l => bytes_wires (bits_of el) l ++ repeat false ((n - length l) * bits_of el)
  | TyArray el n, GNil => repeat false (n * bits_of el)
  | TySlice el n, GBytes l => bytes_wires (bits_of el) l
  | TySlice el n, GNil => []
  | _, _ => []
  end.

Definition is_int_ty (t : ty) : bool := match t with TyInt _ | TyUint _ => true | _ => false end.

(* the Go values of a leaf type (what a caller of Set may pass for it) *)
Definition gin_domain (t : ty) (v : gin) : Prop :=
  match t, v with
  | TyBool, GBool _ => True
  | TyInt b, GInt z => go_int_range z /\ - 2 ^ (Z.of_nat b - 1) <= z < 2 ^ (Z.of_nat b - 1) /\ (0 < b)%nat
  | TyUint b, GInt z => go_int_range z /\ 0 <= z < 2 ^ Z.of_nat b
  | TyArray el n, GBytes l =>
      is_int_ty el = true /\ (8 <= bits_of el)%nat /\ (length l <= n)%nat /\ Forall (fun x => (x < 256)%N) l
  | TyArray el n, GNil => is_int_ty el = true \/ n = O
  | TySlice el n, GBytes l =>
      is_int_ty el = true /\ (8 <= bits_of el)%nat /\ length l = n /\ Forall (fun x => (x < 256)%N) l
  | TySlice el n, GNil => is_int_ty el = true /\ n = O
  | _, _ => False
  end.

(* the integer members whose Go value met the 64-bit write of the pre-fix
   setInt without harm *)
Definition gin_no_hazard (t : ty) (v : gin) : Prop :=
  match t, v with
  | TyInt b, GInt z | TyUint b, GInt z => no_hazard b z
  | _, _ => True
  end.

Section SetProofs.
  Variable SI : info -> Z -> Z -> nat -> Z.
  (* SI is correct on bytes for element types of at least 8 bits *)
  Hypothesis SI_bytes : forall el x, (8 <= i_bits el)%nat -> (x < 256)%N -> si_spec SI el (Z.of_N x).

  Lemma set_bytes_spec el : (8 <= i_bits el)%nat -> forall l result ofs,
    Forall (fun x => (x < 256)%N) l -> clean result ofs ->
    let '(r', ofs') := set_bytes SI el result l ofs in
    ofs' = (ofs + length l * i_bits el)%nat /\ clean r' ofs' /\
    wires r' ofs' = wires result ofs ++ bytes_wires (i_bits el) l.
  Proof.
    intros He. induction l as [|x l IH]; intros result ofs HF Hc.
    - simpl. rewrite Nat.add_0_r. unfold bytes_wires. simpl. rewrite app_nil_r. auto.
    - inversion HF as [|? ? Hx HF']; subst. cbn [set_bytes].
      destruct (SI_bytes el x He Hx result ofs Hc) as (Hc1 & Hw1).
      specialize (IH (SI el result (Z.of_N x) ofs) (ofs + i_bits el)%nat HF' Hc1).
      destruct (set_bytes SI el (SI el result (Z.of_N x) ofs) l (ofs + i_bits el)) as [r' ofs'].
      destruct IH as (Eo & Hc' & Hw'). split; [simpl; lia|]. split; [exact Hc'|].
      rewrite Hw', Hw1. unfold bytes_wires. simpl. rewrite app_assoc. reflexivity.
  Qed.

  (* clean results can be extended by untouched zero wires *)
  Lemma clean_wires_zero r ofs n : clean r ofs -> wires r (ofs + n) = wires r ofs ++ repeat false n.
  Proof.
    intros Hc. rewrite wires_app. f_equal. unfold wires.
    rewrite <- (map_const_repeat n). apply map_ext_in. intros i Hi.
    rewrite Z.shiftr_spec by lia. apply Hc. lia.
  Qed.

  Lemma clean_mono r a b : clean r a -> (a <= b)%nat -> clean r b.
  Proof. intros H Hab k Hk. apply H. lia. Qed.

  Lemma is_int_ty_intkind el : is_int_ty el = true -> is_intkind (info_of el) = true.
  Proof. destruct el; simpl; intros H; try discriminate; reflexivity. Qed.

  (* one leaf member: Set writes the canonical wires of the value on the
     member's own wires and leaves the result clean above them *)
  Lemma set_leaf_spec t v result ofs :
    gin_domain t v ->
    (forall b z, (t = TyInt b \/ t = TyUint b) -> v = GInt z -> si_spec SI (info_of t) z) ->
    clean result ofs ->
    exists r', set_leaf SI (info_of t) result v ofs = Ok (r', (ofs + bits_of t)%nat) /\
      clean r' (ofs + bits_of t) /\
      wires r' (ofs + bits_of t) = wires result ofs ++ gin_wires t v.
  Proof.
    intros Hd HSI Hc. destruct t as [| b | b | b | el n | el n | fs]; destruct v as [| bv | z | l |];
      simpl in Hd; try contradiction.
    - (* bool *)
      exists (set_bit result ofs bv). split; [reflexivity|]. simpl bits_of. split.
      + intros k Hk. rewrite set_bit_spec by lia. replace (k =? Z.of_nat ofs) with false by lia. apply Hc. lia.
      + replace (ofs + 1)%nat with (S ofs) by lia. rewrite wires_S. f_equal.
        * apply wires_ext. intros k Hk. rewrite set_bit_spec by lia.
          replace (k =? Z.of_nat ofs) with false by lia. reflexivity.
        * simpl. rewrite set_bit_spec by lia. rewrite Z.eqb_refl. reflexivity.
    - (* int *)
      destruct (HSI b z (or_introl eq_refl) eq_refl result ofs Hc) as (Hc' & Hw).
      exists (SI (info_of (TyInt b)) result z ofs). split; [reflexivity|]. split; [exact Hc'|exact Hw].
    - (* uint *)
      destruct (HSI b z (or_intror eq_refl) eq_refl result ofs Hc) as (Hc' & Hw).
      exists (SI (info_of (TyUint b)) result z ofs). split; [reflexivity|]. split; [exact Hc'|exact Hw].
    - (* array, nil *)
      exists result. split.
      + unfold set_leaf. cbn [info_of].
        replace (is_intkind (Info types_TArray (n * bits_of el) n (Some (info_of el)) [] true)) with false by reflexivity.
        replace (kind_is (Info types_TArray (n * bits_of el) n (Some (info_of el)) [] true) types_TBool) with false by reflexivity.
        replace (kind_is (Info types_TArray (n * bits_of el) n (Some (info_of el)) [] true) types_TArray) with true by reflexivity.
        cbn [i_asize i_elem]. destruct (Nat.eqb n 0) eqn:En.
        * apply Nat.eqb_eq in En. subst n. simpl. rewrite Nat.add_0_r. reflexivity.
        * unfold set_array. cbn [i_elem]. destruct Hd as [Hd|Hd]; [|apply Nat.eqb_neq in En; lia].
          rewrite (is_int_ty_intkind el Hd). simpl. rewrite i_bits_info_of. reflexivity.
      + simpl bits_of. split; [eapply clean_mono; [exact Hc|lia]|].
        simpl gin_wires. apply clean_wires_zero. exact Hc.
    - (* array, bytes *)
      destruct Hd as (Hel & He & Hl & HF).
      assert (He' : (8 <= i_bits (info_of el))%nat) by (rewrite i_bits_info_of; exact He).
      pose proof (set_bytes_spec (info_of el) He' l result ofs HF Hc) as Hsb.
      destruct (set_bytes SI (info_of el) result l ofs) as [r' ofs'] eqn:Esb.
      destruct Hsb as (Eo & Hc' & Hw'). rewrite i_bits_info_of in *.
      exists r'. split.
      + unfold set_leaf. cbn [info_of].
        replace (is_intkind (Info types_TArray (n * bits_of el) n (Some (info_of el)) [] true)) with false by reflexivity.
        replace (kind_is (Info types_TArray (n * bits_of el) n (Some (info_of el)) [] true) types_TBool) with false by reflexivity.
        replace (kind_is (Info types_TArray (n * bits_of el) n (Some (info_of el)) [] true) types_TArray) with true by reflexivity.
        cbn [i_asize i_elem]. destruct (Nat.eqb n 0) eqn:En.
        * apply Nat.eqb_eq in En. subst n. destruct l; [|simpl in Hl; lia].
          simpl in Esb. injection Esb as Er Eo'. subst r'. f_equal. f_equal. simpl. lia.
        * unfold set_array. cbn [i_elem]. rewrite (is_int_ty_intkind el Hel).
          rewrite i_bits_info_of. replace (bits_of el <? 8)%nat with false by (symmetry; apply Nat.ltb_ge; lia).
          rewrite Esb. replace (n <? length l)%nat with false by (symmetry; apply Nat.ltb_ge; lia).
          reflexivity.
      + simpl bits_of. split.
        * eapply clean_mono; [exact Hc'|]. subst ofs'. nia.
        * simpl gin_wires.
          replace (ofs + n * bits_of el)%nat with (ofs' + (n - length l) * bits_of el)%nat by (subst ofs'; nia).
          rewrite (clean_wires_zero r' ofs' _ Hc'), Hw', app_assoc. reflexivity.
    - (* slice, nil *)
      destruct Hd as (Hel & Hn). subst n. exists result. split.
      + unfold set_leaf. cbn [info_of].
        replace (is_intkind (Info types_TSlice (0 * bits_of el) 0 (Some (info_of el)) [] true)) with false by reflexivity.
        replace (kind_is (Info types_TSlice (0 * bits_of el) 0 (Some (info_of el)) [] true) types_TBool) with false by reflexivity.
        replace (kind_is (Info types_TSlice (0 * bits_of el) 0 (Some (info_of el)) [] true) types_TArray) with false by reflexivity.
        replace (kind_is (Info types_TSlice (0 * bits_of el) 0 (Some (info_of el)) [] true) types_TSlice) with true by reflexivity.
        unfold set_array. cbn [i_elem i_asize]. rewrite (is_int_ty_intkind el Hel). simpl.
        rewrite Nat.add_0_r. reflexivity.
      + simpl bits_of. rewrite Nat.add_0_r. split; [exact Hc|]. simpl. rewrite app_nil_r. reflexivity.
    - (* slice, bytes *)
      destruct Hd as (Hel & He & Hl & HF).
      assert (He' : (8 <= i_bits (info_of el))%nat) by (rewrite i_bits_info_of; exact He).
      pose proof (set_bytes_spec (info_of el) He' l result ofs HF Hc) as Hsb.
      destruct (set_bytes SI (info_of el) result l ofs) as [r' ofs'] eqn:Esb.
      destruct Hsb as (Eo & Hc' & Hw'). rewrite i_bits_info_of in *.
      exists r'. subst n. simpl bits_of. rewrite <- Eo. split.
      + unfold set_leaf. cbn [info_of].
        replace (is_intkind (Info types_TSlice (length l * bits_of el) (length l) (Some (info_of el)) [] true)) with false by reflexivity.
        replace (kind_is (Info types_TSlice (length l * bits_of el) (length l) (Some (info_of el)) [] true) types_TBool) with false by reflexivity.
        replace (kind_is (Info types_TSlice (length l * bits_of el) (length l) (Some (info_of el)) [] true) types_TArray) with false by reflexivity.
        replace (kind_is (Info types_TSlice (length l * bits_of el) (length l) (Some (info_of el)) [] true) types_TSlice) with true by reflexivity.
        unfold set_array. cbn [i_elem i_asize]. rewrite (is_int_ty_intkind el Hel).
        rewrite i_bits_info_of. replace (bits_of el <? 8)%nat with false by (symmetry; apply Nat.ltb_ge; lia).
        rewrite Esb. rewrite Nat.ltb_irrefl. reflexivity.
      + split; [exact Hc'|]. simpl gin_wires. exact Hw'.
  Qed.
End SetProofs.

Definition sum_bits (ms : list ty) : nat := fold_right (fun m acc => (bits_of m + acc)%nat) O ms.

Definition gins_wires (ms : list ty) (vs : list gin) : list bool :=
  concat (map (fun mv => gin_wires (fst mv) (snd mv)) (combine ms vs)).

Definition member_ok (SI : info -> Z -> Z -> nat -> Z) (m : ty) (v : gin) : Prop :=
  gin_domain m v /\
  (forall b z, (m = TyInt b \/ m = TyUint b) -> v = GInt z -> si_spec SI (info_of m) z).

Lemma Forall2_len {A B} (R : A -> B -> Prop) l1 l2 : Forall2 R l1 l2 -> length l1 = length l2.
Proof. induction 1; simpl; congruence. Qed.

Section SetCompound.
  Variable SI : info -> Z -> Z -> nat -> Z.
  Hypothesis SI_bytes : forall el x, (8 <= i_bits el)%nat -> (x < 256)%N -> si_spec SI el (Z.of_N x).

  Lemma set_members_spec : forall ms vs result ofs,
    Forall2 (member_ok SI) ms vs -> clean result ofs ->
    exists r', set_members (fun a => set_at SI a) (map leaf_arg ms) vs result ofs
               = Ok (r', (ofs + sum_bits ms)%nat) /\
      clean r' (ofs + sum_bits ms) /\
      wires r' (ofs + sum_bits ms) = wires result ofs ++ gins_wires ms vs.
  Proof.
    induction ms as [|m ms IH]; intros vs result ofs HF Hc; inversion HF as [|? v ? vs' [Hd HS] HF']; subst.
    - exists result. simpl. rewrite Nat.add_0_r. unfold gins_wires. simpl. rewrite app_nil_r. auto.
    - destruct (set_leaf_spec SI SI_bytes m v result ofs Hd HS Hc) as (r1 & E1 & Hc1 & Hw1).
      destruct (IH vs' r1 (ofs + bits_of m)%nat HF' Hc1) as (r' & E' & Hc' & Hw').
      exists r'. cbn [map set_members].
      replace (set_at SI (leaf_arg m) result [v] ofs) with (set_leaf SI (info_of m) result v ofs) by reflexivity.
      rewrite E1. simpl sum_bits. rewrite Nat.add_assoc. split; [exact E'|]. split; [exact Hc'|].
      rewrite Hw', Hw1. unfold gins_wires. simpl. rewrite app_assoc. reflexivity.
  Qed.

  (* Theorem (2)/(1) for Set: a compound argument, Go values in their domain *)
  Lemma set_compound_wires t m ms vs :
    Forall2 (member_ok SI) (m :: ms) vs ->
    exists r, set_gen SI (IOArg t (map leaf_arg (m :: ms))) vs = Ok r /\
      wires r (sum_bits (m :: ms)) = gins_wires (m :: ms) vs.
  Proof.
    intros HF. destruct (set_members_spec (m :: ms) vs 0 0%nat HF clean_0) as (r & E & _ & Hw).
    exists r. split; [|exact Hw].
    assert (Hl : Nat.eqb (length vs) (length (map leaf_arg (m :: ms))) = true)
      by (rewrite map_length; apply Nat.eqb_eq; symmetry; eapply Forall2_len; eauto).
    unfold set_gen. cbn [map set_at] in *. rewrite Hl. simpl negb. cbv iota. rewrite E. reflexivity.
  Qed.

  Lemma set_single_wires m v :
    member_ok SI m v ->
    exists r, set_gen SI (leaf_arg m) [v] = Ok r /\ wires r (bits_of m) = gin_wires m v.
  Proof.
    intros [Hd HS]. destruct (set_leaf_spec SI SI_bytes m v 0 0%nat Hd HS clean_0) as (r & E & _ & Hw).
    exists r. unfold set_gen. replace (set_at SI (leaf_arg m) 0 [v] 0) with (set_leaf SI (info_of m) 0 v 0%nat) by reflexivity.
    rewrite E. split; [reflexivity | exact Hw].
  Qed.
End SetCompound.

Lemma byte_go_range x : (x < 256)%N -> go_int_range (Z.of_N x).
Proof. unfold go_int_range. lia. Qed.

Lemma fixed_bytes : forall el x, (8 <= i_bits el)%nat -> (x < 256)%N -> si_spec set_int_fixed el (Z.of_N x).
Proof. intros. apply set_int_fixed_spec, byte_go_range. assumption. Qed.

Lemma old_bytes : forall el x, (8 <= i_bits el)%nat -> (x < 256)%N -> si_spec set_int_old el (Z.of_N x).
Proof.
  intros el x He Hx. apply set_int_old_spec. left.
  assert (2 ^ 8 <= 2 ^ Z.of_nat (i_bits el)) by (apply Z.pow_le_mono_r; lia). lia.
Qed.

Lemma member_ok_fixed m v : gin_domain m v -> member_ok set_int_fixed m v.
Proof.
  intros Hd. split; [exact Hd|]. intros b z Hm Hv. subst v.
  apply set_int_fixed_spec. destruct Hm as [-> | ->]; simpl in Hd; tauto.
Qed.

Lemma member_ok_old m v : gin_domain m v -> gin_no_hazard m v -> member_ok set_int_old m v.
Proof.
  intros Hd Hh. split; [exact Hd|]. intros b z Hm Hv. subst v.
  apply set_int_old_spec. destruct Hm as [-> | ->]; simpl in *; exact Hh.
Qed.

(* ------------------------------------------------------------------ *)
(** * Set (Go values) and Parse (text) put the same bits on the wires *)

Lemma parse_array_eval el n s val :
  (0 < bits_of el)%nat -> (0 < n)%nat -> set_string s = Some val ->
  let e := bits_of el in let k := literal_elems s val e in
  parse (leaf_arg (TyArray el n)) [s] =
  if (n <? k)%nat then Err else Ok (parse_array_pack (Z.shiftl val (Z.of_nat ((n - k) * e))) n e).
Proof.
  intros He Hn Hs e k. rewrite parse_tyarray. unfold parse_array.
  cbn [i_elem info_of i_asize]. rewrite i_bits_info_of.
  replace (kind_is (Info types_TArray (n * bits_of el) n (Some (info_of el)) [] true) types_TArray) with true by reflexivity.
  replace (kind_is (Info types_TArray (n * bits_of el) n (Some (info_of el)) [] true) types_TSlice) with false by reflexivity.
  destruct (Nat.eqb n 0) eqn:En; [apply Nat.eqb_eq in En; lia|]. simpl andb. cbv iota.
  rewrite Hs. fold e.
  destruct (Nat.eqb e 0) eqn:Ee; [apply Nat.eqb_eq in Ee; lia|]. reflexivity.
Qed.

Lemma parse_slice_eval el n s val :
  (0 < bits_of el)%nat -> set_string s = Some val ->
  let e := bits_of el in let k := literal_elems s val e in
  parse (leaf_arg (TySlice el n)) [s] = Ok (parse_array_pack (Z.shiftl val (Z.of_nat ((k - k) * e))) k e).
Proof.
  intros He Hs e k. rewrite parse_tyslice. unfold parse_array.
  cbn [i_elem info_of i_asize]. rewrite i_bits_info_of.
  replace (kind_is (Info types_TSlice (n * bits_of el) n (Some (info_of el)) [] true) types_TArray) with false by reflexivity.
  replace (kind_is (Info types_TSlice (n * bits_of el) n (Some (info_of el)) [] true) types_TSlice) with true by reflexivity.
  simpl andb. cbv iota. rewrite Hs. fold e.
  destruct (Nat.eqb e 0) eqn:Ee; [apply Nat.eqb_eq in Ee; lia|].
  fold (literal_elems s val e). fold k. rewrite Nat.ltb_irrefl. reflexivity.
Qed.

Lemma map_nth_seq {A B} (g : A -> B) (d : A) : forall l,
  map g l = map (fun i => g (nth i l d)) (seq 0 (length l)).
Proof.
  induction l as [|x l IH]; [reflexivity|].
  simpl. f_equal. rewrite <- seq_shift, map_map. exact IH.
Qed.

Lemma concat_zero_elems (f : nat -> list bool) e : forall m s,
  (forall i, (s <= i < s + m)%nat -> f i = repeat false e) ->
  concat (map f (seq s m)) = repeat false (m * e).
Proof.
  induction m as [|m IH]; intros s H; [reflexivity|].
  simpl. rewrite H by lia. rewrite IH by (intros; apply H; lia).
  rewrite <- repeat_app. reflexivity.
Qed.

(* the wires of an array literal that spells the element list l, short or full *)
Lemma array_literal_wires e n (l : list Z) :
  Forall (fun x => 0 <= x < 2 ^ Z.of_nat e) l -> (length l <= n)%nat ->
  concat (map (array_elem_wires (be_value e l) (length l) e) (seq 0 n))
  = concat (map (fun x => wires x e) l) ++ repeat false ((n - length l) * e).
Proof.
  intros HF Hl.
  replace n with (length l + (n - length l))%nat at 1 by lia.
  rewrite seq_app, map_app, concat_app. f_equal.
  - rewrite (map_nth_seq (fun x => wires x e) 0 l). f_equal.
    apply map_ext_in. intros i Hi. apply in_seq in Hi. unfold array_elem_wires.
    replace (i <? length l)%nat with true by (symmetry; apply Nat.ltb_lt; lia).
    apply chunk_be_value; [exact HF | lia].
  - apply concat_zero_elems. intros i Hi. unfold array_elem_wires.
    replace (i <? length l)%nat with false by (symmetry; apply Nat.ltb_ge; lia). reflexivity.
Qed.

Lemma lN_eqb_eq : forall a b, lN_eqb a b = true -> a = b.
Proof.
  induction a as [|x a IH]; intros [|y b] H; simpl in H; try discriminate; [reflexivity|].
  apply andb_true_iff in H. destruct H as [H1 H2]. apply N.eqb_eq in H1. f_equal; auto.
Qed.

Lemma bool_spellings_disjoint s :
  mem_str s bool_true_spellings = true -> mem_str s bool_false_spellings = false.
Proof.
  unfold mem_str, bool_true_spellings. simpl existsb. rewrite !orb_true_iff.
  intros [H|[H|[H|H]]]; try discriminate; apply lN_eqb_eq in H; subst s; reflexivity.
Qed.

(* "the string s is a textual form of the Go value v of leaf type t" *)
Definition spells (t : ty) (s : list N) (v : gin) : Prop :=
  match t, v with
  | TyBool, GBool b => mem_str s (if b then bool_true_spellings else bool_false_spellings) = true
  | TyInt _, GInt z | TyUint _, GInt z => set_string s = Some z
  | TyArray el _, GBytes l | TySlice el _, GBytes l =>
      let val := be_value (bits_of el) (map Z.of_N l) in
      set_string s = Some val /\ literal_elems s val (bits_of el) = length l
  | TyArray el _, GNil | TySlice el _, GNil =>
      (0 < bits_of el)%nat /\ set_string s = Some 0 /\ literal_elems s 0 (bits_of el) = O
  | _, _ => False
  end.

Lemma bytes_in_range e l :
  (8 <= e)%nat -> Forall (fun x => (x < 256)%N) l ->
  Forall (fun x => 0 <= x < 2 ^ Z.of_nat e) (map Z.of_N l).
Proof.
  intros He HF. apply Forall_forall. intros z Hz. apply in_map_iff in Hz. destruct Hz as (x & <- & Hx).
  rewrite Forall_forall in HF. specialize (HF x Hx).
  assert (2 ^ 8 <= 2 ^ Z.of_nat e) by (apply Z.pow_le_mono_r; lia). lia.
Qed.

(* one leaf: the wires of Parse on a spelling of v are the canonical wires of v *)
Lemma parse_leaf_canonical t s v :
  gin_domain t v -> spells t s v ->
  exists r, parse (leaf_arg t) [s] = Ok r /\ wires r (bits_of t) = gin_wires t v.
Proof.
  intros Hd Hs. destruct t as [| b | b | b | el n | el n | fs]; destruct v as [| bv | z | l |];
    simpl in Hd, Hs; try contradiction.
  - (* bool *)
    rewrite parse_bool. destruct bv.
    + rewrite (bool_spellings_disjoint s Hs), Hs. exists 1. auto.
    + rewrite Hs. exists 0. auto.
  - rewrite parse_int, Hs. exists z. auto.
  - rewrite parse_uint, Hs. exists z. auto.
  - (* array, nil *)
    destruct Hs as (He & Hs & Hk). destruct n as [|n].
    + exists 0. split; reflexivity.
    + destruct Hd as [Hel|]; [|lia].
      rewrite (parse_array_eval el (S n) s 0 He ltac:(lia) Hs). rewrite Hk. simpl Nat.ltb. cbv iota.
      eexists. split; [reflexivity|].
      destruct (parse_array_pack_spec (Z.shiftl 0 (Z.of_nat ((S n - 0) * bits_of el))) (S n) (bits_of el)) as (_ & Hw).
      change (bits_of (TyArray el (S n))) with (S n * bits_of el)%nat. rewrite Hw. cbn [gin_wires].
      apply concat_zero_elems. intros i Hi. unfold chunk. rewrite Z.shiftl_0_l, Z.shiftr_0_l.
      unfold wires. rewrite <- (map_const_repeat (bits_of el)). apply map_ext. intros. apply Z.testbit_0_l.
  - (* array, bytes *)
    destruct Hd as (Hel & He & Hl & HF). destruct Hs as (Hs & Hk).
    destruct n as [|n].
    + destruct l; [|simpl in Hl; lia]. exists 0. split; reflexivity.
    + rewrite (parse_array_eval el (S n) s _ ltac:(lia) ltac:(lia) Hs). rewrite Hk.
      replace (S n <? length l)%nat with false by (symmetry; apply Nat.ltb_ge; lia).
      eexists. split; [reflexivity|].
      set (val := be_value (bits_of el) (map Z.of_N l)) in *.
      destruct (parse_array_pack_spec (Z.shiftl val (Z.of_nat ((S n - length l) * bits_of el))) (S n) (bits_of el)) as (_ & Hw).
      change (bits_of (TyArray el (S n))) with (S n * bits_of el)%nat. rewrite Hw. cbn [gin_wires].
      rewrite (map_ext_in _ (array_elem_wires val (length l) (bits_of el))).
      2:{ intros i Hi. apply in_seq in Hi. apply chunk_padded; lia. }
      pose proof (array_literal_wires (bits_of el) (S n) (map Z.of_N l)
                    (bytes_in_range _ _ He HF) ltac:(rewrite map_length; lia)) as HA.
      rewrite map_length in HA. unfold val. rewrite HA.
      unfold bytes_wires. rewrite map_map. reflexivity.
  - (* slice, nil *)
    destruct Hd as (Hel & Hn). destruct Hs as (He & Hs & Hk). subst n.
    rewrite (parse_slice_eval el 0 s 0 He Hs). eexists. split; reflexivity.
  - (* slice, bytes *)
    destruct Hd as (Hel & He & Hl & HF). destruct Hs as (Hs & Hk).
    rewrite (parse_slice_eval el n s _ ltac:(lia) Hs). rewrite Hk.
    eexists. split; [reflexivity|].
    set (val := be_value (bits_of el) (map Z.of_N l)) in *.
    destruct (parse_array_pack_spec (Z.shiftl val (Z.of_nat ((length l - length l) * bits_of el))) (length l) (bits_of el)) as (_ & Hw).
    subst n. change (bits_of (TySlice el (length l))) with (length l * bits_of el)%nat. rewrite Hw. cbn [gin_wires].
    rewrite (map_ext_in _ (array_elem_wires val (length l) (bits_of el))).
    2:{ intros i Hi. apply in_seq in Hi. apply chunk_padded; lia. }
    pose proof (array_literal_wires (bits_of el) (length l) (map Z.of_N l)
                  (bytes_in_range _ _ He HF) ltac:(rewrite map_length; lia)) as HA.
    rewrite map_length in HA. unfold val. rewrite HA.
    rewrite Nat.sub_diag. simpl. rewrite app_nil_r.
    unfold bytes_wires. rewrite map_map. reflexivity.
Qed.

(* members, their textual forms and their Go-value forms *)
Inductive members_spelled : list ty -> list (list N) -> list gin -> Prop :=
| ms_nil : members_spelled [] [] []
| ms_cons m s v ms ss vs :
    gin_domain m v -> spells m s v -> members_spelled ms ss vs ->
    members_spelled (m :: ms) (s :: ss) (v :: vs).

Lemma members_spelled_domain ms ss vs : members_spelled ms ss vs -> Forall2 gin_domain ms vs.
Proof. induction 1; constructor; auto. Qed.

Lemma members_spelled_length ms ss vs : members_spelled ms ss vs -> length ss = length ms.
Proof. induction 1; simpl; congruence. Qed.

Lemma parse_members_canonical : forall ms ss vs, members_spelled ms ss vs ->
  forall result offset,
  exists r, parse_members (fun a => parse a) (map leaf_arg ms) ss result offset = Ok r /\
    wires r (offset + sum_bits ms) = wires result offset ++ gins_wires ms vs.
Proof.
  induction 1 as [|m s v ms ss vs Hd Hs HM IH]; intros result offset.
  - exists result. simpl. rewrite Nat.add_0_r. unfold gins_wires. simpl. rewrite app_nil_r. auto.
  - destruct (parse_leaf_canonical m s v Hd Hs) as (x & Ex & Hx).
    cbn [map parse_members]. rewrite Ex. cbn [a_type leaf_arg]. rewrite i_bits_info_of.
    destruct (IH (copy_bits result offset x (bits_of m)) (offset + bits_of m)%nat) as (r & Er & Hr).
    exists r. split; [exact Er|]. simpl sum_bits. rewrite Nat.add_assoc, Hr, wires_copy_bits, Hx.
    unfold gins_wires. simpl. rewrite app_assoc. reflexivity.
Qed.

(* Theorem (2), setInt as it is now: for every compound argument, all members'
   values in their domain, every spelling: Set and Parse put the same bits on
   the argument's wires, namely the canonical wires of the members in order *)
Lemma set_eq_parse_fixed_compound t m ms ss vs :
  members_spelled (m :: ms) ss vs ->
  exists rs rp,
    set_fixed (IOArg t (map leaf_arg (m :: ms))) vs = Ok rs /\
    parse (IOArg t (map leaf_arg (m :: ms))) ss = Ok rp /\
    wires rs (sum_bits (m :: ms)) = gins_wires (m :: ms) vs /\
    wires rp (sum_bits (m :: ms)) = gins_wires (m :: ms) vs.
Proof.
  intros HM.
  assert (HF : Forall2 (member_ok set_int_fixed) (m :: ms) vs).
  { pose proof (members_spelled_domain _ _ _ HM) as HD.
    clear HM. induction HD; constructor; auto using member_ok_fixed. }
  destruct (set_compound_wires set_int_fixed fixed_bytes t m ms vs HF) as (rs & Es & Hws).
  destruct (parse_members_canonical _ _ _ HM 0 0%nat) as (rp & Ep & Hwp).
  exists rs, rp. split; [exact Es|]. split; [|split; [exact Hws | exact Hwp]].
  assert (Hl : Nat.eqb (length ss) (length (map leaf_arg (m :: ms))) = true)
    by (rewrite map_length; apply Nat.eqb_eq; apply (members_spelled_length _ _ _ HM)).
  cbn [map parse] in *. rewrite Hl. simpl negb. cbv iota.
  exact Ep.
Qed.

(* … and on the PRE-FIX setInt (regression record) when no integer member meets the 64-bit write *)
Lemma set_eq_parse_old_compound t m ms ss vs :
  members_spelled (m :: ms) ss vs -> Forall2 gin_no_hazard (m :: ms) vs ->
  exists rs rp,
    set_old (IOArg t (map leaf_arg (m :: ms))) vs = Ok rs /\
    parse (IOArg t (map leaf_arg (m :: ms))) ss = Ok rp /\
    wires rs (sum_bits (m :: ms)) = wires rp (sum_bits (m :: ms)).
Proof.
  intros HM HN.
  assert (HF : Forall2 (member_ok set_int_old) (m :: ms) vs).
  { pose proof (members_spelled_domain _ _ _ HM) as HD.
    clear HM. revert HN. induction HD; intros HN; inversion HN; subst; constructor; auto using member_ok_old. }
  destruct (set_compound_wires set_int_old old_bytes t m ms vs HF) as (rs & Es & Hws).
  destruct (parse_members_canonical _ _ _ HM 0 0%nat) as (rp & Ep & Hwp).
  exists rs, rp. split; [exact Es|]. split; [|rewrite Hws; symmetry; exact Hwp].
  assert (Hl : Nat.eqb (length ss) (length (map leaf_arg (m :: ms))) = true)
    by (rewrite map_length; apply Nat.eqb_eq; apply (members_spelled_length _ _ _ HM)).
  cbn [map parse] in *. rewrite Hl. simpl negb. cbv iota.
  exact Ep.
Qed.

(* single (non-compound) arguments *)
Lemma set_eq_parse_fixed_single m s v :
  gin_domain m v -> spells m s v ->
  exists rs rp, set_fixed (leaf_arg m) [v] = Ok rs /\ parse (leaf_arg m) [s] = Ok rp /\
    wires rs (bits_of m) = wires rp (bits_of m).
Proof.
  intros Hd Hs.
  destruct (set_single_wires set_int_fixed fixed_bytes m v (member_ok_fixed m v Hd)) as (rs & Es & Hws).
  destruct (parse_leaf_canonical m s v Hd Hs) as (rp & Ep & Hwp).
  exists rs, rp. repeat split; auto. congruence.
Qed.

Lemma set_eq_parse_old_single m s v :
  gin_domain m v -> spells m s v -> gin_no_hazard m v ->
  exists rs rp, set_old (leaf_arg m) [v] = Ok rs /\ parse (leaf_arg m) [s] = Ok rp /\
    wires rs (bits_of m) = wires rp (bits_of m).
Proof.
  intros Hd Hs Hh.
  destruct (set_single_wires set_int_old old_bytes m v (member_ok_old m v Hd Hh)) as (rs & Es & Hws).
  destruct (parse_leaf_canonical m s v Hd Hs) as (rp & Ep & Hwp).
  exists rs, rp. repeat split; auto. congruence.
Qed.

(* Theorem (3) for Set as it is now: member j's wires are the canonical wires of
   its own value, whatever the other members' values are *)
Lemma gins_wires_segment : forall ms vs j m v,
  Forall2 (fun m v => length (gin_wires m v) = bits_of m) ms vs ->
  nth_error ms j = Some m -> nth_error vs j = Some v ->
  segment (gins_wires ms vs) (sum_bits (firstn j ms)) (bits_of m) = gin_wires m v.
Proof.
  unfold segment, gins_wires.
  induction ms as [|m0 ms IH]; intros vs j m v HF Hm Hv; [destruct j; discriminate|].
  inversion HF as [|? v0 ? vs0 Hl0 HF']; subst.
  destruct j as [|j]; simpl in *.
  - inversion Hm; inversion Hv; subst.
    rewrite firstn_app, Hl0, Nat.sub_diag, firstn_O, app_nil_r.
    apply firstn_all2. lia.
  - rewrite skipn_app, Hl0. rewrite skipn_all2 by lia.
    replace (bits_of m0 + sum_bits (firstn j ms) - bits_of m0)%nat with (sum_bits (firstn j ms)) by lia.
    simpl. apply IH; auto.
Qed.

Lemma bytes_wires_length e l : length (bytes_wires e l) = (length l * e)%nat.
Proof.
  unfold bytes_wires. induction l as [|x l IH]; [reflexivity|].
  simpl. rewrite app_length, wires_length, IH. reflexivity.
Qed.

Lemma gin_wires_length m v : gin_domain m v -> length (gin_wires m v) = bits_of m.
Proof.
  destruct m as [| b | b | b | el n | el n | fs]; destruct v as [| bv | z | l |]; simpl; try contradiction;
    intros Hd; try reflexivity; try apply wires_length.
  - apply repeat_length.
  - destruct Hd as (_ & _ & Hl & _). rewrite app_length, bytes_wires_length, repeat_length. nia.
  - destruct Hd as (_ & ->). reflexivity.
  - destruct Hd as (_ & _ & <- & _). apply bytes_wires_length.
Qed.

Lemma set_fixed_member_independent t m ms vs j mj vj :
  Forall2 gin_domain (m :: ms) vs ->
  nth_error (m :: ms) j = Some mj -> nth_error vs j = Some vj ->
  exists r, set_fixed (IOArg t (map leaf_arg (m :: ms))) vs = Ok r /\
    segment (wires r (sum_bits (m :: ms))) (sum_bits (firstn j (m :: ms))) (bits_of mj) = gin_wires mj vj.
Proof.
  intros HD Hm Hv.
  assert (HF : Forall2 (member_ok set_int_fixed) (m :: ms) vs)
    by (clear Hm Hv; induction HD; constructor; auto using member_ok_fixed).
  destruct (set_compound_wires set_int_fixed fixed_bytes t m ms vs HF) as (r & Es & Hw).
  exists r. split; [exact Es|]. rewrite Hw. apply gins_wires_segment; auto.
  clear Hm Hv HF Es Hw. induction HD; constructor; auto using gin_wires_length.
Qed.

(* Theorem (3) for Set as it is now *)
Lemma set_fixed_independent t m ms vs vs' j mj vj :
  Forall2 gin_domain (m :: ms) vs -> Forall2 gin_domain (m :: ms) vs' ->
  nth_error (m :: ms) j = Some mj -> nth_error vs j = Some vj -> nth_error vs' j = Some vj ->
  exists r r', set_fixed (IOArg t (map leaf_arg (m :: ms))) vs = Ok r /\
               set_fixed (IOArg t (map leaf_arg (m :: ms))) vs' = Ok r' /\
    segment (wires r (sum_bits (m :: ms))) (sum_bits (firstn j (m :: ms))) (bits_of mj)
    = segment (wires r' (sum_bits (m :: ms))) (sum_bits (firstn j (m :: ms))) (bits_of mj).
Proof.
  intros HD HD' Hm Hv Hv'.
  destruct (set_fixed_member_independent t m ms vs j mj vj HD Hm Hv) as (r & E & H).
  destruct (set_fixed_member_independent t m ms vs' j mj vj HD' Hm Hv') as (r' & E' & H').
  exists r, r'. repeat split; auto. congruence.
Qed.

(* ------------------------------------------------------------------ *)
(** * The pre-fix setInt (before 19f0a68): refutations (F8), regression record *)

Definition f8_members : list ty := [TyInt 8; TyArray (TyUint 8) 4].
Definition f8_arg : ioarg := IOArg (info_of (TyStruct f8_members)) (map leaf_arg f8_members).

(* int8(-1) followed by a [4]byte given nil: the byte array's wires carry
   the ones setInt spilled, Parse puts zeros there *)
Lemma set_old_spill_witness :
  set_old f8_arg [GInt (-1); GNil] = Ok (2 ^ 64 - 1) /\
  parse f8_arg [[45; 49]%N; [48]%N] = Ok 255 /\
  wires (2 ^ 64 - 1) 40 <> wires 255 40.
Proof.
  split; [vm_compute; reflexivity|]. split; [vm_compute; reflexivity|]. vm_compute. discriminate.
Qed.

Lemma f8_in_domain : members_spelled f8_members [[45; 49]%N; [48]%N] [GInt (-1); GNil].
Proof.
  repeat constructor; simpl; try lia; try reflexivity.
Qed.

Lemma set_eq_parse_old_refuted :
  exists t m ms ss vs rs rp,
    members_spelled (m :: ms) ss vs /\
    set_old (IOArg t (map leaf_arg (m :: ms))) vs = Ok rs /\
    parse (IOArg t (map leaf_arg (m :: ms))) ss = Ok rp /\
    wires rs (sum_bits (m :: ms)) <> wires rp (sum_bits (m :: ms)).
Proof.
  exists (info_of (TyStruct f8_members)), (TyInt 8), [TyArray (TyUint 8) 4],
         [[45; 49]%N; [48]%N], [GInt (-1); GNil], (2 ^ 64 - 1), 255.
  split; [exact f8_in_domain|].
  destruct set_old_spill_witness as (H1 & H2 & H3). repeat split; assumption.
Qed.

(* changing the int8 member from 0 to -1 changes the wires of the byte array *)
Lemma set_old_independent_refuted :
  exists t m ms vs vs' j mj vj r r',
    Forall2 gin_domain (m :: ms) vs /\ Forall2 gin_domain (m :: ms) vs' /\
    nth_error (m :: ms) j = Some mj /\ nth_error vs j = Some vj /\ nth_error vs' j = Some vj /\
    set_old (IOArg t (map leaf_arg (m :: ms))) vs = Ok r /\
    set_old (IOArg t (map leaf_arg (m :: ms))) vs' = Ok r' /\
    segment (wires r (sum_bits (m :: ms))) (sum_bits (firstn j (m :: ms))) (bits_of mj)
    <> segment (wires r' (sum_bits (m :: ms))) (sum_bits (firstn j (m :: ms))) (bits_of mj).
Proof.
  exists (info_of (TyStruct f8_members)), (TyInt 8), [TyArray (TyUint 8) 4],
         [GInt 0; GNil], [GInt (-1); GNil], 1%nat, (TyArray (TyUint 8) 4), GNil, 0, (2 ^ 64 - 1).
  assert (D0 : gin_domain (TyInt 8) (GInt 0)) by (simpl; unfold go_int_range; lia).
  assert (D1 : gin_domain (TyInt 8) (GInt (-1))) by (simpl; unfold go_int_range; lia).
  assert (D2 : gin_domain (TyArray (TyUint 8) 4) GNil) by (simpl; auto).
  split; [constructor; [exact D0 | constructor; [exact D2 | constructor]]|].
  split; [constructor; [exact D1 | constructor; [exact D2 | constructor]]|].
  split; [reflexivity|]. split; [reflexivity|]. split; [reflexivity|].
  split; [vm_compute; reflexivity|].
  split; [vm_compute; reflexivity|].
  vm_compute. discriminate.
Qed.

(* a negative value of an int wider than 64 bits is not sign-extended *)
Lemma set_old_wide_refuted :
  exists b z s rs rp,
    gin_domain (TyInt b) (GInt z) /\ spells (TyInt b) s (GInt z) /\
    set_old (leaf_arg (TyInt b)) [GInt z] = Ok rs /\ parse (leaf_arg (TyInt b)) [s] = Ok rp /\
    wires rs b <> wires rp b.
Proof.
  exists 70%nat, (-1), [45; 49]%N, (2 ^ 64 - 1), (-1).
  split; [simpl; unfold go_int_range; lia|].
  split; [reflexivity|].
  split; [vm_compute; reflexivity|].
  split; [vm_compute; reflexivity|].
  vm_compute. discriminate.
Qed.

(* ------------------------------------------------------------------ *)
(** * mpc.Result *)

Definition map_fst {A B} (r : res (A * B)) : res A :=
  match r with Ok (a, _) => Ok a | Err => Err | Panic => Panic end.

(* Theorem (5), purity of Result as it is now: for every type whatsoever and
   every value, the argument is left as it was *)
Lemma result_fixed_arg_unchanged t r o r' : result_fixed t r = Ok (o, r') -> r' = r.
Proof.
  unfold result_fixed, result_gen.
  destruct (kind_is t types_TArray || kind_is t types_TSlice).
  - destruct (i_elem t) as [el|]; [|discriminate].
    destruct (elem_go_type el) as [[ek ew]|]; [|discriminate].
    destruct (result_items _ _ _ _ _ _); intros H; inversion H; reflexivity.
  - unfold result_scalar.
    destruct (kind_is t types_TString); [intros H; inversion H; reflexivity|].
    destruct (kind_is t types_TUint).
    { destruct (go_width (i_bits t)); intros H; inversion H; reflexivity. }
    destruct (kind_is t types_TInt).
    { destruct (Nat.eqb (i_bits t) 0); [discriminate|].
      unfold result_tint_fixed. destruct (Z.testbit r (Z.of_nat (i_bits t) - 1));
        destruct (go_width (i_bits t)); intros H; inversion H; reflexivity. }
    destruct (kind_is t types_TBool); intros H; inversion H; reflexivity.
Qed.

(* … hence decoding is repeatable *)
Lemma result_fixed_repeatable t r o r' :
  result_fixed t r = Ok (o, r') -> result_fixed t r' = Ok (o, r').
Proof. intros H. pose proof (result_fixed_arg_unchanged _ _ _ _ H). subst r'. exact H. Qed.

(* the pre-fix Result computed the same Go value as the fixed one (first call) *)
Lemma result_scalar_value_eq t r :
  map_fst (result_scalar result_tint_old t r) = map_fst (result_scalar result_tint_fixed t r).
Proof.
  unfold result_scalar.
  destruct (kind_is t types_TString); [reflexivity|].
  destruct (kind_is t types_TUint); [reflexivity|].
  destruct (kind_is t types_TInt); [|reflexivity].
  destruct (Nat.eqb (i_bits t) 0); [reflexivity|].
  unfold result_tint_old, result_tint_fixed.
  destruct (Z.testbit r (Z.of_nat (i_bits t) - 1)); destruct (go_width (i_bits t)); reflexivity.
Qed.

Lemma result_items_eq el r mask e : forall idx,
  result_items result_tint_old el r mask e idx = result_items result_tint_fixed el r mask e idx.
Proof.
  induction idx as [|i idx IH]; [reflexivity|]. simpl.
  pose proof (result_scalar_value_eq el (Z.land (Z.shiftr r (Z.of_nat (i * e))) mask)) as H.
  destruct (result_scalar result_tint_old el _) as [[v a]| |];
    destruct (result_scalar result_tint_fixed el _) as [[v' a']| |]; simpl in H; try discriminate;
    try reflexivity.
  inversion H; subst. rewrite IH. reflexivity.
Qed.

Lemma result_old_value_eq t r : map_fst (result_old t r) = map_fst (result_fixed t r).
Proof.
  unfold result_old, result_fixed, result_gen.
  destruct (kind_is t types_TArray || kind_is t types_TSlice).
  - destruct (i_elem t) as [el|]; [|reflexivity].
    destruct (elem_go_type el) as [[ek ew]|]; [|reflexivity].
    rewrite result_items_eq. reflexivity.
  - apply result_scalar_value_eq.
Qed.

(* arrays and slices: the pre-fix Result already left its argument alone *)
Lemma result_old_array_arg_unchanged t r o r' :
  kind_is t types_TArray || kind_is t types_TSlice = true ->
  result_old t r = Ok (o, r') -> r' = r.
Proof.
  unfold result_old, result_gen. intros ->.
  destruct (i_elem t) as [el|]; [|discriminate].
  destruct (elem_go_type el) as [[ek ew]|]; [|discriminate].
  destruct (result_items _ _ _ _ _ _); intros H; inversion H; reflexivity.
Qed.

(* the pre-fix Result on a signed integer whose sign bit is clear *)
Lemma result_old_tint_partial b r :
  Z.testbit r (Z.of_nat b - 1) = false ->
  result_old (info_of (TyInt b)) r = result_fixed (info_of (TyInt b)) r.
Proof.
  intros H. unfold result_old, result_fixed, result_gen. cbn [info_of].
  replace (kind_is (Info types_TInt b 0 None [] true) types_TArray || kind_is (Info types_TInt b 0 None [] true) types_TSlice) with false by reflexivity.
  unfold result_scalar.
  replace (kind_is (Info types_TInt b 0 None [] true) types_TString) with false by reflexivity.
  replace (kind_is (Info types_TInt b 0 None [] true) types_TUint) with false by reflexivity.
  replace (kind_is (Info types_TInt b 0 None [] true) types_TInt) with true by reflexivity.
  cbn [i_bits]. unfold result_tint_old, result_tint_fixed. rewrite H. reflexivity.
Qed.

(* F7 (before 8d9a986): the pre-fix Result negated the caller's big.Int: 5-bit signed -16 is
   the wire value 16; the first call returns -16 and leaves -16 behind, the
   second call returns -48 *)
Lemma result_old_f7_witness :
  result_old (info_of (TyInt 5)) 16 = Ok (OInt true 8 (-16), -16) /\
  result_old (info_of (TyInt 5)) (-16) = Ok (OInt true 8 (-48), -48) /\
  result_fixed (info_of (TyInt 5)) 16 = Ok (OInt true 8 (-16), 16).
Proof. repeat split; vm_compute; reflexivity. Qed.

Lemma result_old_mutates_refuted :
  exists t r o r', result_old t r = Ok (o, r') /\ r' <> r.
Proof.
  exists (info_of (TyInt 5)), 16, (OInt true 8 (-16)), (-16).
  split; [apply result_old_f7_witness | discriminate].
Qed.

Lemma result_old_repeatable_refuted :
  exists t r o r' o2 r2, result_old t r = Ok (o, r') /\ result_old t r' = Ok (o2, r2) /\ o2 <> o.
Proof.
  exists (info_of (TyInt 5)), 16, (OInt true 8 (-16)), (-16), (OInt true 8 (-48)), (-48).
  split; [apply result_old_f7_witness|]. split; [apply result_old_f7_witness|]. discriminate.
Qed.

(* -- Result inverts the encoding -- *)

Lemma testbit_top x n : 0 <= n -> 0 <= x < 2 ^ (n + 1) -> Z.testbit x n = (2 ^ n <=? x).
Proof.
  intros Hn Hx. rewrite Z.pow_add_r, Z.pow_1_r in Hx by lia.
  assert (Hp : 0 < 2 ^ n) by (apply Z.pow_pos_nonneg; lia).
  destruct (2 ^ n <=? x) eqn:E.
  - apply Z.testbit_true; [lia|].
    replace x with (1 * 2 ^ n + (x - 2 ^ n)) by ring.
    rewrite Z.div_add_l by lia. rewrite Z.div_small by lia. reflexivity.
  - apply Z.testbit_false; [lia|]. rewrite Z.div_small by lia. reflexivity.
Qed.

Definition go_int (signed : bool) (b : nat) (z : Z) : gout :=
  match go_width b with O => OBig z | w => OInt signed w z end.

Lemma go_width_cases b :
  (go_width b = O /\ (64 < b)%nat) \/
  (exists w, go_width b = S w /\ (b <= S w <= 64)%nat).
Proof.
  unfold go_width.
  destruct (b <=? 8)%nat eqn:E1; [right; exists 7%nat; split; [reflexivity|apply Nat.leb_le in E1; lia]|].
  destruct (b <=? 16)%nat eqn:E2; [right; exists 15%nat; split; [reflexivity|apply Nat.leb_le in E2; lia]|].
  destruct (b <=? 32)%nat eqn:E3; [right; exists 31%nat; split; [reflexivity|apply Nat.leb_le in E3; lia]|].
  destruct (b <=? 64)%nat eqn:E4; [right; exists 63%nat; split; [reflexivity|apply Nat.leb_le in E4; lia]|].
  left. split; [reflexivity|]. apply Nat.leb_gt in E4. lia.
Qed.

Lemma wrap_s_id w z : (0 < w)%nat -> - 2 ^ (Z.of_nat w - 1) <= z < 2 ^ (Z.of_nat w - 1) -> wrap_s w z = z.
Proof.
  intros Hw Hz. unfold wrap_s.
  assert (Hp : 2 ^ Z.of_nat w = 2 * 2 ^ (Z.of_nat w - 1)).
  { replace (Z.of_nat w) with (Z.succ (Z.of_nat w - 1)) at 1 by lia. apply Z.pow_succ_r. lia. }
  rewrite Z.mod_small by lia. lia.
Qed.

Lemma pow2_le_mono a b : 0 <= a <= b -> 2 ^ a <= 2 ^ b.
Proof. intros. apply Z.pow_le_mono_r; lia. Qed.

Lemma big_int64_id z : - 2 ^ 63 <= z < 2 ^ 63 -> big_int64 z = z.
Proof.
  intros Hz. unfold big_int64.
  assert (Hs : Z.abs z < 2 ^ 64) by lia.
  rewrite (Z.mod_small (Z.abs z)) by lia.
  destruct (z <? 0) eqn:E.
  - replace (- Z.abs z) with z by lia. apply wrap_s_id; simpl; lia.
  - replace (Z.abs z) with z by lia. apply wrap_s_id; simpl; lia.
Qed.

(* Theorem (5), signed integers, Result as it is now: the wire value of z decodes to
   z, as the Go type chosen for the width; the argument is unchanged *)
Lemma result_fixed_int_inverse b z :
  (0 < b)%nat -> - 2 ^ (Z.of_nat b - 1) <= z < 2 ^ (Z.of_nat b - 1) ->
  result_fixed (info_of (TyInt b)) (z mod 2 ^ Z.of_nat b)
  = Ok (go_int true b z, z mod 2 ^ Z.of_nat b).
Proof.
  intros Hb Hz. unfold result_fixed, result_gen. cbn [info_of].
  replace (kind_is (Info types_TInt b 0 None [] true) types_TArray || kind_is (Info types_TInt b 0 None [] true) types_TSlice) with false by reflexivity.
  unfold result_scalar.
  replace (kind_is (Info types_TInt b 0 None [] true) types_TString) with false by reflexivity.
  replace (kind_is (Info types_TInt b 0 None [] true) types_TUint) with false by reflexivity.
  replace (kind_is (Info types_TInt b 0 None [] true) types_TInt) with true by reflexivity.
  cbn [i_bits]. replace (Nat.eqb b 0) with false by (symmetry; apply Nat.eqb_neq; lia).
  assert (Hp : 2 ^ Z.of_nat b = 2 * 2 ^ (Z.of_nat b - 1)).
  { replace (Z.of_nat b) with (Z.succ (Z.of_nat b - 1)) at 1 by lia. apply Z.pow_succ_r. lia. }
  assert (Hpp : 0 < 2 ^ (Z.of_nat b - 1)) by (apply Z.pow_pos_nonneg; lia).
  set (r := z mod 2 ^ Z.of_nat b).
  assert (Hr : 0 <= r < 2 ^ Z.of_nat b) by (apply Z.mod_pos_bound; lia).
  assert (Hv : fst (result_tint_fixed b r) = z /\ snd (result_tint_fixed b r) = r).
  { unfold result_tint_fixed. rewrite testbit_top by (replace (Z.of_nat b - 1 + 1) with (Z.of_nat b) by lia; lia).
    destruct (Z_lt_le_dec z 0) as [Hn|Hn].
    - assert (r = z + 2 ^ Z.of_nat b).
      { unfold r. symmetry. apply Z.mod_unique with (q := -1); lia. }
      replace (2 ^ (Z.of_nat b - 1) <=? r) with true by lia. simpl. lia.
    - assert (r = z) by (unfold r; apply Z.mod_small; lia).
      replace (2 ^ (Z.of_nat b - 1) <=? r) with false by lia. simpl. lia. }
  destruct (result_tint_fixed b r) as [v r'] eqn:ETI. simpl in Hv. destruct Hv; subst v r'.
  unfold go_int. destruct (go_width_cases b) as [[-> _]|(w & -> & Hw)]; [reflexivity|].
  f_equal. f_equal. f_equal.
  assert (2 ^ (Z.of_nat b - 1) <= 2 ^ (Z.of_nat (S w) - 1)) by (apply pow2_le_mono; lia).
  assert (2 ^ (Z.of_nat (S w) - 1) <= 2 ^ 63) by (apply pow2_le_mono; lia).
  rewrite big_int64_id by lia. apply wrap_s_id; lia.
Qed.

(* unsigned integers (the same before and after the fix) *)
Lemma result_uint_inverse TI b z :
  0 <= z < 2 ^ Z.of_nat b ->
  result_gen TI (info_of (TyUint b)) z = Ok (go_int false b z, z).
Proof.
  intros Hz. unfold result_gen. cbn [info_of].
  replace (kind_is (Info types_TUint b 0 None [] true) types_TArray || kind_is (Info types_TUint b 0 None [] true) types_TSlice) with false by reflexivity.
  unfold result_scalar.
  replace (kind_is (Info types_TUint b 0 None [] true) types_TString) with false by reflexivity.
  replace (kind_is (Info types_TUint b 0 None [] true) types_TUint) with true by reflexivity.
  cbn [i_bits]. unfold go_int. destruct (go_width_cases b) as [[-> _]|(w & -> & Hw)]; [reflexivity|].
  f_equal. f_equal. f_equal.
  assert (2 ^ Z.of_nat b <= 2 ^ Z.of_nat (S w)) by (apply pow2_le_mono; lia).
  assert (2 ^ Z.of_nat (S w) <= 2 ^ 64) by (apply (pow2_le_mono (Z.of_nat (S w)) 64); lia).
  unfold wrap_u, big_uint64. rewrite Z.abs_eq by lia. rewrite (Z.mod_small z (2 ^ 64)) by lia.
  rewrite Z.mod_small by lia. reflexivity.
Qed.

Lemma result_bool_inverse TI (v : bool) :
  result_gen TI (info_of TyBool) (Z.b2z v) = Ok (OBool v, Z.b2z v).
Proof. destruct v; reflexivity. Qed.

(* the pre-fix Result on signed integers: the decoded value is right, the
   argument is left changed exactly when the value is negative *)
Lemma result_old_int_value b z :
  (0 < b)%nat -> - 2 ^ (Z.of_nat b - 1) <= z < 2 ^ (Z.of_nat b - 1) ->
  map_fst (result_old (info_of (TyInt b)) (z mod 2 ^ Z.of_nat b)) = Ok (go_int true b z).
Proof.
  intros Hb Hz. rewrite result_old_value_eq, result_fixed_int_inverse by assumption. reflexivity.
Qed.

(* ------------------------------------------------------------------ *)
(** * Sizes, InputSizes *)

Lemma pos_size_nat_spec p : 2 ^ (Z.of_nat (Pos.size_nat p) - 1) <= Zpos p < 2 ^ Z.of_nat (Pos.size_nat p).
Proof.
  induction p as [p IH|p IH|]; cbn [Pos.size_nat].
  - rewrite Nat2Z.inj_succ. replace (Z.succ (Z.of_nat (Pos.size_nat p)) - 1) with (Z.succ (Z.of_nat (Pos.size_nat p) - 1)) by lia.
    assert (0 < Z.of_nat (Pos.size_nat p)) by (destruct p; simpl; lia).
    rewrite !Z.pow_succ_r by lia. lia.
  - rewrite Nat2Z.inj_succ. replace (Z.succ (Z.of_nat (Pos.size_nat p)) - 1) with (Z.succ (Z.of_nat (Pos.size_nat p) - 1)) by lia.
    assert (0 < Z.of_nat (Pos.size_nat p)) by (destruct p; simpl; lia).
    rewrite !Z.pow_succ_r by lia. lia.
  - simpl. lia.
Qed.

(* BitLen: the width InputSizes infers from a decimal/binary/octal spelling
   holds the unsigned value, and no smaller width does *)
Lemma bit_len_spec z : 0 <= z -> z < 2 ^ Z.of_nat (bit_len z) /\ (0 < z -> 2 ^ (Z.of_nat (bit_len z) - 1) <= z).
Proof.
  intros Hz. destruct z as [|p|p]; [simpl; lia | | lia].
  pose proof (pos_size_nat_spec p). simpl bit_len. lia.
Qed.

(* bitLen (since a0b0be5): the inferred width holds every uint64 value *)
Lemma bit_len_loop_fixed_spec z : 0 <= z -> forall k,
  z < 2 ^ (Z.of_nat k + 1) -> z < 2 ^ Z.of_nat (bit_len_loop_fixed k z).
Proof.
  intros Hz. induction k as [|k IH]; intros Hk.
  - simpl in *. lia.
  - cbn [bit_len_loop_fixed]. destruct (Z.testbit z (Z.of_nat (S k))) eqn:E.
    + replace (Z.of_nat (S k + 1)) with (Z.of_nat (S k) + 1) by lia. exact Hk.
    + apply IH. rewrite testbit_top in E by lia.
      replace (Z.of_nat k + 1) with (Z.of_nat (S k)) by lia. lia.
Qed.

Lemma bit_len_fixed_holds z : 0 <= z < 2 ^ 64 -> z < 2 ^ Z.of_nat (bit_len_fixed z).
Proof. intros Hz. apply bit_len_loop_fixed_spec; [lia|]. simpl. lia. Qed.

(* bitLen before a0b0be5 never tested bit 1 (F13), regression record *)
Lemma bit_len_old_refuted : exists z, 0 <= z < 2 ^ 64 /\ ~ z < 2 ^ Z.of_nat (bit_len_old z).
Proof. exists 2. split; [lia|]. vm_compute. intros H; discriminate H. Qed.

Lemma bit_len_loop_partial z : 0 <= z -> (z < 2 \/ 4 <= z) -> forall k,
  z < 2 ^ (Z.of_nat k + 2) -> z < 2 ^ Z.of_nat (bit_len_loop k z).
Proof.
  intros Hz Hd. induction k as [|k IH]; intros Hk.
  - simpl in *. lia.
  - cbn [bit_len_loop]. destruct (Z.testbit z (Z.of_nat (S k + 1))) eqn:E.
    + replace (Z.of_nat (S k + 2)) with (Z.of_nat (S k) + 2) by lia. exact Hk.
    + apply IH. rewrite testbit_top in E.
      * replace (Z.of_nat k + 2) with (Z.of_nat (S k + 1)) by lia. lia.
      * lia.
      * replace (Z.of_nat (S k + 1) + 1) with (Z.of_nat (S k) + 2) by lia. lia.
Qed.

Lemma bit_len_old_partial z :
  0 <= z < 2 ^ 64 -> z <> 2 -> z <> 3 -> z < 2 ^ Z.of_nat (bit_len_old z).
Proof. intros Hz H2 H3. apply bit_len_loop_partial; [lia | lia |]. simpl. lia. Qed.

(* Sizes on one integer Go value *)
Lemma sizes_fixed_int z : go_int_range z ->
  sizes_fixed [GInt z] = Ok [bit_len_fixed (uint64_conv z)] /\
  uint64_conv z < 2 ^ Z.of_nat (bit_len_fixed (uint64_conv z)).
Proof.
  intros Hz. split; [reflexivity|]. apply bit_len_fixed_holds. unfold uint64_conv. apply Z.mod_pos_bound. lia.
Qed.

(* Sizes of a byte array is exactly what Set writes for it *)
Lemma sizes_bytes BL l : sizes_gen BL [GBytes l] = Ok [(length l * 8)%nat].
Proof. reflexivity. Qed.

(* InputSizes on a spelling SetString reads: the size is the bit length Parse
   itself assigns to the literal, so a slice instantiated from it has exactly
   the number of elements Parse writes *)
Lemma input_size_literal s z :
  set_string s = Some z ->
  mem_str s bool_false_spellings = false -> mem_str s bool_true_spellings = false ->
  match_hex_input s = None ->
  input_size s = Ok (literal_bit_len s z).
Proof.
  intros Hs Hf Ht Hm. unfold input_size.
  destruct (lN_eqb s s_underscore) eqn:Eu.
  { apply lN_eqb_eq in Eu. subst s. discriminate Hs. }
  rewrite Hf, Ht. simpl orb. cbv iota. unfold literal_bit_len.
  destruct (has_prefix s_0x s); [reflexivity|]. rewrite Hm, Hs. reflexivity.
Qed.

Lemma input_size_slice_elems s z e :
  input_size s = Ok (literal_bit_len s z) ->
  array_size_for (literal_bit_len s z) e = literal_elems s z e.
Proof. reflexivity. Qed.

(* the size inferred from the magnitude leaves no room for a sign bit (F14) *)
Lemma input_size_signed_refuted :
  exists s z n, set_string s = Some z /\ input_size s = Ok n /\
    ~ (- 2 ^ (Z.of_nat n - 1) <= z < 2 ^ (Z.of_nat n - 1)).
Proof.
  exists [49; 50; 56]%N, 128, 8%nat. split; [reflexivity|]. split; [reflexivity|]. simpl. lia.
Qed.

(* unsigned: the inferred width holds the value *)
Lemma input_size_unsigned s z :
  set_string s = Some z -> 0 <= z ->
  mem_str s bool_false_spellings = false -> mem_str s bool_true_spellings = false ->
  match_hex_input s = None -> has_prefix s_0x s = false ->
  exists n, input_size s = Ok n /\ z < 2 ^ Z.of_nat n.
Proof.
  intros Hs Hz Hf Ht Hm Hp. exists (bit_len z). split.
  - rewrite (input_size_literal s z Hs Hf Ht Hm). unfold literal_bit_len. rewrite Hp. reflexivity.
  - apply bit_len_spec. exact Hz.
Qed.

(* ------------------------------------------------------------------ *)
(** * mpc.Result on arrays and slices *)

(* the wire value of an array: element i on wires [i*w, (i+1)*w) *)
Definition le_value (w : nat) (l : list Z) : Z :=
  fold_right (fun x acc => x + 2 ^ Z.of_nat w * acc) 0 l.

Lemma le_chunk w : forall l i,
  Forall (fun x => 0 <= x < 2 ^ Z.of_nat w) l -> (i < length l)%nat ->
  Z.land (Z.shiftr (le_value w l) (Z.of_nat (i * w))) (mask_of w) = nth i l 0.
Proof.
  assert (Hp : 0 < 2 ^ Z.of_nat w) by (apply Z.pow_pos_nonneg; lia).
  induction l as [|x l IH]; intros i HF Hi; [simpl in Hi; lia|].
  inversion HF as [|? ? Hx HF']; subst. cbn [le_value fold_right]. fold (le_value w l).
  destruct i as [|i].
  - simpl Z.of_nat. rewrite Z.shiftr_0_r, land_mask_of.
    replace (x + 2 ^ Z.of_nat w * le_value w l) with (x + le_value w l * 2 ^ Z.of_nat w) by ring.
    rewrite Z.mod_add by lia. apply Z.mod_small. exact Hx.
  - replace (Z.of_nat (S i * w)) with (Z.of_nat w + Z.of_nat (i * w)) by lia.
    rewrite <- Z.shiftr_shiftr by lia.
    replace (Z.shiftr (x + 2 ^ Z.of_nat w * le_value w l) (Z.of_nat w)) with (le_value w l).
    + simpl nth. apply IH; [exact HF' | simpl in Hi; lia].
    + rewrite Z.shiftr_div_pow2 by lia. rewrite (Z.mul_comm (2 ^ Z.of_nat w)), Z.div_add by lia.
      rewrite Z.div_small by lia. lia.
Qed.

Definition scalar_out (TI : nat -> Z -> Z * Z) (t : info) (u : Z) : gout :=
  match result_scalar TI t u with Ok (o, _) => o | _ => OUnsupported end.

Lemma result_items_spec TI el r w (us : list Z) : forall idx,
  (forall i, In i idx -> exists o a,
      result_scalar TI el (Z.land (Z.shiftr r (Z.of_nat (i * w))) (mask_of w)) = Ok (o, a) /\
      Z.land (Z.shiftr r (Z.of_nat (i * w))) (mask_of w) = nth i us 0) ->
  result_items TI el r (mask_of w) w idx = Ok (map (fun i => scalar_out TI el (nth i us 0)) idx).
Proof.
  induction idx as [|i idx IH]; intros H; [reflexivity|].
  cbn [result_items map]. destruct (H i (or_introl eq_refl)) as (o & a & E & En).
  rewrite E. rewrite IH by (intros j Hj; apply H; right; exact Hj).
  assert (Eo : scalar_out TI el (nth i us 0) = o) by (unfold scalar_out; rewrite <- En, E; reflexivity).
  rewrite Eo. reflexivity.
Qed.

(* Theorem (5), arrays and slices: for every element type Result supports,
   element i of the Go slice is Result of the i-th element's wire value; the
   argument is unchanged (before and after the fix alike) *)
Lemma result_array_inverse TI (slice : bool) el n ek ew (us : list Z) :
  elem_go_type (info_of el) = Some (ek, ew) ->
  Forall (fun x => 0 <= x < 2 ^ Z.of_nat (bits_of el)) us -> length us = n ->
  (forall u, In u us -> exists o a, result_scalar TI (info_of el) u = Ok (o, a)) ->
  result_gen TI (info_of (if slice then TySlice el n else TyArray el n)) (le_value (bits_of el) us)
  = Ok (OSlice ek ew (map (scalar_out TI (info_of el)) us), le_value (bits_of el) us).
Proof.
  intros Hty HF Hl Hel. unfold result_gen.
  assert (Hk : kind_is (info_of (if slice then TySlice el n else TyArray el n)) types_TArray
               || kind_is (info_of (if slice then TySlice el n else TyArray el n)) types_TSlice = true)
    by (destruct slice; reflexivity).
  rewrite Hk.
  replace (i_elem (info_of (if slice then TySlice el n else TyArray el n))) with (Some (info_of el)) by (destruct slice; reflexivity).
  replace (i_asize (info_of (if slice then TySlice el n else TyArray el n))) with n by (destruct slice; reflexivity).
  rewrite Hty, i_bits_info_of.
  rewrite (result_items_spec TI (info_of el) (le_value (bits_of el) us) (bits_of el) us).
  - rewrite <- Hl. rewrite <- (map_nth_seq (scalar_out TI (info_of el)) 0 us). reflexivity.
  - intros i Hi. apply in_seq in Hi.
    assert (Hc := le_chunk (bits_of el) us i HF ltac:(lia)).
    destruct (Hel (nth i us 0)) as (o & a & E); [apply nth_In; lia|].
    exists o, a. rewrite Hc. auto.
Qed.

(* signed elements: wire values z mod 2^b decode to the element values *)
Lemma result_fixed_int_array_inverse (slice : bool) b n (zs : list Z) :
  (0 < b)%nat -> length zs = n ->
  Forall (fun z => - 2 ^ (Z.of_nat b - 1) <= z < 2 ^ (Z.of_nat b - 1)) zs ->
  let r := le_value b (map (fun z => z mod 2 ^ Z.of_nat b) zs) in
  exists ek ew,
    result_fixed (info_of (if slice then TySlice (TyInt b) n else TyArray (TyInt b) n)) r
    = Ok (OSlice ek ew (map (go_int true b) zs), r).
Proof.
  intros Hb Hl HF r.
  assert (Hp : 0 < 2 ^ Z.of_nat b) by (apply Z.pow_pos_nonneg; lia).
  destruct (elem_go_type (info_of (TyInt b))) as [[ek ew]|] eqn:Ety.
  2:{ unfold elem_go_type in Ety. simpl in Ety.
      replace (kind_is (Info types_TInt b 0 None [] true) types_TString) with false in Ety by reflexivity.
      replace (kind_is (Info types_TInt b 0 None [] true) types_TUint) with false in Ety by reflexivity.
      replace (kind_is (Info types_TInt b 0 None [] true) types_TInt) with true in Ety by reflexivity.
      destruct (go_width b); discriminate. }
  exists ek, ew. unfold result_fixed, r.
  rewrite (result_array_inverse result_tint_fixed slice (TyInt b) n ek ew _ Ety).
  - f_equal. f_equal. f_equal. rewrite map_map. apply map_ext_in. intros z Hz.
    rewrite Forall_forall in HF. unfold scalar_out.
    pose proof (result_fixed_int_inverse b z Hb (HF z Hz)) as E.
    unfold result_fixed, result_gen in E. cbn [info_of] in *.
    replace (kind_is (Info types_TInt b 0 None [] true) types_TArray || kind_is (Info types_TInt b 0 None [] true) types_TSlice) with false in E by reflexivity.
    rewrite E. reflexivity.
  - apply Forall_forall. intros u Hu. apply in_map_iff in Hu. destruct Hu as (z & <- & _).
    simpl bits_of. apply Z.mod_pos_bound. exact Hp.
  - rewrite map_length. exact Hl.
  - intros u Hu. apply in_map_iff in Hu. destruct Hu as (z & <- & Hz).
    rewrite Forall_forall in HF.
    pose proof (result_fixed_int_inverse b z Hb (HF z Hz)) as E.
    unfold result_fixed, result_gen in E. cbn [info_of] in *.
    replace (kind_is (Info types_TInt b 0 None [] true) types_TArray || kind_is (Info types_TInt b 0 None [] true) types_TSlice) with false in E by reflexivity.
    eauto.
Qed.

(* ------------------------------------------------------------------ *)
(** * Independence of the pre-fix Set where the 64-bit write is harmless *)

Lemma member_ok_old_all ms vs :
  Forall2 gin_domain ms vs -> Forall2 gin_no_hazard ms vs -> Forall2 (member_ok set_int_old) ms vs.
Proof. intros HD; induction HD; intros HN; inversion HN; subst; constructor; auto using member_ok_old. Qed.

Lemma gin_wires_length_all ms vs :
  Forall2 gin_domain ms vs -> Forall2 (fun m v => length (gin_wires m v) = bits_of m) ms vs.
Proof. intros HD; induction HD; constructor; auto using gin_wires_length. Qed.

Lemma set_old_independent_partial t m ms vs vs' j mj vj :
  Forall2 gin_domain (m :: ms) vs -> Forall2 gin_domain (m :: ms) vs' ->
  Forall2 gin_no_hazard (m :: ms) vs -> Forall2 gin_no_hazard (m :: ms) vs' ->
  nth_error (m :: ms) j = Some mj -> nth_error vs j = Some vj -> nth_error vs' j = Some vj ->
  exists r r', set_old (IOArg t (map leaf_arg (m :: ms))) vs = Ok r /\
               set_old (IOArg t (map leaf_arg (m :: ms))) vs' = Ok r' /\
    segment (wires r (sum_bits (m :: ms))) (sum_bits (firstn j (m :: ms))) (bits_of mj)
    = segment (wires r' (sum_bits (m :: ms))) (sum_bits (firstn j (m :: ms))) (bits_of mj).
Proof.
  intros HD HD' HN HN' Hm Hv Hv'.
  pose proof (member_ok_old_all _ _ HD HN) as HF.
  pose proof (member_ok_old_all _ _ HD' HN') as HF'.
  pose proof (gin_wires_length_all _ _ HD) as HL.
  pose proof (gin_wires_length_all _ _ HD') as HL'.
  destruct (set_compound_wires set_int_old old_bytes t m ms vs HF) as (r & Es & Hw).
  destruct (set_compound_wires set_int_old old_bytes t m ms vs' HF') as (r' & Es' & Hw').
  exists r, r'. split; [exact Es|]. split; [exact Es'|]. rewrite Hw, Hw'.
  rewrite (gins_wires_segment _ _ _ _ _ HL Hm Hv), (gins_wires_segment _ _ _ _ _ HL' Hm Hv'). reflexivity.
Qed.

(* ------------------------------------------------------------------ *)
(** * Non-vacuity: the hypotheses of the theorems are met by ordinary inputs *)

(* the compound example of circuit/ioarg_test.go: uint32, [8]byte, empty []byte, uint32 *)
Definition ex_members : list ty :=
  [TyUint 32; TyArray (TyUint 8) 8; TySlice (TyUint 8) 0; TyUint 32].
Definition ex_strings : list (list N) :=
  [ [48;120;50;49;50;50;50;51;50;52];                               (* "0x21222324" *)
    [48;120;97;48;97;49;97;50;97;51;97;52;97;53;97;54;97;55];       (* "0xa0a1a2a3a4a5a6a7" *)
    [48];                                                           (* "0" *)
    [48;120;51;49;51;50;51;51;51;52] ]%N.                           (* "0x31323334" *)
Definition ex_values : list gin :=
  [GInt 555885348; GBytes [160;161;162;163;164;165;166;167]%N; GNil; GInt 825373492].

Example ex_members_spelled : members_spelled ex_members ex_strings ex_values.
Proof.
  unfold ex_members, ex_strings, ex_values.
  constructor; [simpl; unfold go_int_range; lia | reflexivity |].
  constructor; [simpl; repeat split; try lia; repeat constructor | split; vm_compute; reflexivity |].
  constructor; [simpl; auto | simpl; repeat split; try lia; vm_compute; reflexivity |].
  constructor; [simpl; unfold go_int_range; lia | reflexivity |].
  constructor.
Qed.

Example ex_no_hazard : Forall2 gin_no_hazard ex_members ex_values.
Proof.
  unfold ex_members, ex_values.
  constructor; [left; simpl; lia|]. constructor; [exact I|]. constructor; [exact I|].
  constructor; [left; simpl; lia|]. constructor.
Qed.

(* a short literal: two bytes for a [4]byte, in 0x and in binary spelling *)
Example ex_short_literal :
  spells (TyArray (TyUint 8) 4) [48;120;97;48;97;49]%N (GBytes [160;161]%N) /\
  spells (TyArray (TyUint 8) 4) [48;98;49;48;49;48;48;48;48;48;49;48;49;48;48;48;48;49]%N (GBytes [160;161]%N) /\
  gin_domain (TyArray (TyUint 8) 4) (GBytes [160;161]%N).
Proof.
  split; [split; vm_compute; reflexivity|]. split; [split; vm_compute; reflexivity|].
  simpl. repeat split; try lia. repeat constructor.
Qed.

(* negative values, spelled in decimal and in hex, are in the domain of Set *)
Example ex_negative :
  spells (TyInt 8) [45;49;50;56]%N (GInt (-128)) /\ spells (TyInt 8) [45;48;120;56;48]%N (GInt (-128)) /\
  gin_domain (TyInt 8) (GInt (-128)).
Proof. split; [reflexivity|]. split; [reflexivity|]. simpl. unfold go_int_range. lia. Qed.

(* ------------------------------------------------------------------ *)
(** * Inferred sizes composed with InstantiateWithSizes *)

(* the unsized template of a type, as the compiler resolves `int`, `uint`,
   `[]T` (arrays and slices of unspecified length) and structs of those *)
Fixpoint template_of (t : ty) : info :=
  match t with
  | TyBool => info_of TyBool
  | TyInt _ => Info types_TInt 0 0 None [] false
  | TyUint _ => Info types_TUint 0 0 None [] false
  | TyString b => info_of (TyString b)
  | TyArray el _ | TySlice el _ => Info types_TSlice 0 0 (Some (info_of el)) [] false
  | TyStruct fs => Info types_TStruct 0 0 None (map template_of fs) false
  end.

(* the type a leaf template becomes for an inferred size *)
Definition resize (t : ty) (sz : nat) : ty :=
  match t with
  | TyInt _ => TyInt sz
  | TyUint _ => TyUint sz
  | TyArray el _ | TySlice el _ => TySlice el (array_size_for sz (bits_of el))
  | _ => t
  end.

Definition is_struct (t : ty) : bool := match t with TyStruct _ => true | _ => false end.

(* leaf templates this development instantiates: bool, int, uint, arrays and
   slices of non-struct elements of non-zero width *)
Definition leaf_template_ok (t : ty) : Prop :=
  match t with
  | TyBool | TyInt _ | TyUint _ => True
  | TyArray el _ | TySlice el _ => is_struct el = false /\ (0 < bits_of el)%nat
  | _ => False
  end.

Lemma concrete_info_of el : is_struct el = false -> concrete_of (info_of el) = true.
Proof. destruct el; simpl; intros H; try discriminate; reflexivity. Qed.

(* one leaf: InstantiateWithSizes of the template with the inferred size first
   in the list is the concrete type [resize t sz] *)
Lemma instantiate_leaf t sz rest :
  leaf_template_ok t -> instantiate (template_of t) (sz :: rest) = Ok (info_of (resize t sz)).
Proof.
  destruct t as [| b | b | b | el n | el n | fs]; simpl leaf_template_ok; intros H; try contradiction;
    try reflexivity.
  - destruct H as (Hs & He). cbn [template_of instantiate resize info_of].
    replace (types_TSlice =? types_TBool) with false by reflexivity.
    replace ((types_TSlice =? types_TInt) || (types_TSlice =? types_TUint) || (types_TSlice =? types_TFloat)) with false by reflexivity.
    replace (types_TSlice =? types_TStruct) with false by reflexivity.
    replace (types_TSlice =? types_TArray) with false by reflexivity.
    replace (types_TSlice =? types_TSlice) with true by reflexivity.
    rewrite (concrete_info_of el Hs), i_bits_info_of. simpl negb. cbv iota.
    replace (Nat.eqb (bits_of el) 0) with false by (symmetry; apply Nat.eqb_neq; lia). reflexivity.
  - destruct H as (Hs & He). cbn [template_of instantiate resize info_of].
    replace (types_TSlice =? types_TBool) with false by reflexivity.
    replace ((types_TSlice =? types_TInt) || (types_TSlice =? types_TUint) || (types_TSlice =? types_TFloat)) with false by reflexivity.
    replace (types_TSlice =? types_TStruct) with false by reflexivity.
    replace (types_TSlice =? types_TArray) with false by reflexivity.
    replace (types_TSlice =? types_TSlice) with true by reflexivity.
    rewrite (concrete_info_of el Hs), i_bits_info_of. simpl negb. cbv iota.
    replace (Nat.eqb (bits_of el) 0) with false by (symmetry; apply Nat.eqb_neq; lia). reflexivity.
Qed.

(* member i of a FLAT struct gets size i *)
Fixpoint resize_all (ms : list ty) (szs : list nat) : list ty :=
  match ms, szs with
  | m :: ms', s :: szs' => resize m s :: resize_all ms' szs'
  | _, _ => []
  end.

Lemma inst_fields_flat : forall ms szs acc,
  Forall leaf_template_ok ms -> (length ms <= length szs)%nat ->
  inst_fields (fun f => instantiate f) (map template_of ms) szs acc
  = Ok (map info_of (resize_all ms szs), (acc + sum_bits (resize_all ms szs))%nat).
Proof.
  induction ms as [|m ms IH]; intros szs acc HF Hl.
  - simpl. rewrite Nat.add_0_r. reflexivity.
  - inversion HF as [|? ? Hm HF']; subst. destruct szs as [|s szs]; [simpl in Hl; lia|].
    cbn [map inst_fields resize_all]. rewrite (instantiate_leaf m s szs Hm).
    rewrite IH by (auto; simpl in Hl; lia). rewrite i_bits_info_of.
    simpl sum_bits. rewrite Nat.add_assoc. reflexivity.
Qed.

(* Theorem (4), whole FLAT struct templates: every member list of leaf
   templates, every size list at least as long: the instantiated struct has
   member i of the width/length inferred from input i, and Bits = their sum *)
Lemma instantiate_flat_struct ms szs :
  ms <> [] -> Forall leaf_template_ok ms -> (length ms <= length szs)%nat ->
  instantiate (template_of (TyStruct ms)) szs
  = Ok (Info types_TStruct (sum_bits (resize_all ms szs)) 0 None
             (map info_of (resize_all ms szs)) true).
Proof.
  intros Hne HF Hl. destruct szs as [|s0 szs]; [destruct ms; [congruence | simpl in Hl; lia]|].
  cbn [template_of instantiate].
  replace (types_TStruct =? types_TBool) with false by reflexivity.
  replace ((types_TStruct =? types_TInt) || (types_TStruct =? types_TUint) || (types_TStruct =? types_TFloat)) with false by reflexivity.
  replace (types_TStruct =? types_TStruct) with true by reflexivity.
  rewrite (inst_fields_flat ms (s0 :: szs) 0 HF Hl). reflexivity.
Qed.

(* F15: with a NESTED struct the sizes overlap: struct{struct{uint,uint},uint}
   with sizes [10,1,3]: the last member is instantiated from size 1, not 3 *)
Definition f15_ty : ty := TyStruct [TyStruct [TyUint 0; TyUint 0]; TyUint 0].
Lemma instantiate_nested_refuted :
  exists t szs t',
    instantiate (template_of t) szs = Ok t' /\ length szs = length (leaves t) /\
    Forall leaf_template_ok (leaves t) /\
    (fix flat (i : info) : list info :=
       match i with Info _ _ _ _ fs _ =>
         if kind_is i types_TStruct then flat_map flat fs else [i] end) t'
    <> map info_of (resize_all (leaves t) szs).
Proof.
  exists f15_ty, [10; 1; 3]%nat.
  eexists. split; [vm_compute; reflexivity|]. split; [reflexivity|].
  split; [repeat constructor|]. vm_compute. discriminate.
Qed.

(* InputSizes is element-wise *)
Lemma input_sizes_each : forall ss szs,
  Forall2 (fun s n => input_size s = Ok n) ss szs -> input_sizes ss = Ok szs.
Proof.
  induction 1 as [|s n ss szs Hs HF IH]; [reflexivity|]. simpl. rewrite Hs, IH. reflexivity.
Qed.

(* Theorem (4) end to end, one unsized uint argument: every spelling of z >= 0
   (other than the bool spellings / 0x literals): the inferred size
   instantiates uintN, Parse accepts the spelling for it, and the wires spell
   exactly z: nothing is lost *)
Lemma unsized_uint_lossless s z :
  set_string s = Some z -> 0 <= z ->
  mem_str s bool_false_spellings = false -> mem_str s bool_true_spellings = false ->
  match_hex_input s = None -> has_prefix s_0x s = false ->
  exists n r,
    input_sizes [s] = Ok [n] /\
    instantiate (template_of (TyUint 0)) [n] = Ok (info_of (TyUint n)) /\
    parse (leaf_arg (TyUint n)) [s] = Ok r /\ from_bits (wires r n) = z.
Proof.
  intros Hs Hz Hf Ht Hm Hp.
  destruct (input_size_unsigned s z Hs Hz Hf Ht Hm Hp) as (n & Hn & Hlt).
  exists n, z. split; [apply input_sizes_each; repeat constructor; exact Hn|].
  split; [reflexivity|]. split; [rewrite parse_uint, Hs; reflexivity|].
  rewrite from_bits_wires. apply Z.mod_small. lia.
Qed.

(* … one unsized array/slice argument: every literal, every element type of
   non-zero width: the inferred size instantiates a slice of exactly the k
   elements Parse reads from the literal, and Parse puts them, in order, on
   its k*e wires *)
Lemma unsized_slice_lossless el s val :
  is_struct el = false -> (0 < bits_of el)%nat ->
  set_string s = Some val ->
  mem_str s bool_false_spellings = false -> mem_str s bool_true_spellings = false ->
  match_hex_input s = None ->
  let e := bits_of el in let k := literal_elems s val e in
  exists sz r,
    input_sizes [s] = Ok [sz] /\
    instantiate (template_of (TySlice el 0)) [sz] = Ok (info_of (TySlice el k)) /\
    parse (leaf_arg (TySlice el k)) [s] = Ok r /\
    0 <= r < 2 ^ Z.of_nat (k * e) /\
    wires r (k * e) = concat (map (array_elem_wires val k e) (seq 0 k)).
Proof.
  intros Hst He Hs Hf Ht Hm e k.
  pose proof (input_size_literal s val Hs Hf Ht Hm) as Hsz.
  exists (literal_bit_len s val).
  rewrite (parse_slice_eval el k s val He Hs). fold e. fold k. eexists.
  split; [apply input_sizes_each; repeat constructor; exact Hsz|].
  split; [rewrite (instantiate_leaf (TySlice el 0) _ [] (conj Hst He)); reflexivity|].
  split; [reflexivity|].
  destruct (parse_array_pack_spec (Z.shiftl val (Z.of_nat ((k - k) * e))) k e) as (Hr & Hw).
  split; [exact Hr|]. rewrite Hw. f_equal. apply map_ext_in. intros i Hi. apply in_seq in Hi.
  unfold array_elem_wires. apply chunk_padded; lia.
Qed.

(* Sizes composed with InstantiateWithSizes and Set, one unsized uint argument
   and one Go value: the instantiated uintN holds the value Set writes *)
Lemma unsized_uint_sizes_lossless z :
  0 <= z < 2 ^ 64 ->
  exists n r,
    sizes [GInt z] = Ok [n] /\
    instantiate (template_of (TyUint 0)) [n] = Ok (info_of (TyUint n)) /\
    set (leaf_arg (TyUint n)) [GInt z] = Ok r /\ from_bits (wires r n) = z.
Proof.
  intros Hz.
  assert (Hu : uint64_conv z = z) by (unfold uint64_conv; apply Z.mod_small; lia).
  set (n := bit_len_fixed z).
  assert (Hn : z < 2 ^ Z.of_nat n) by (apply bit_len_fixed_holds; lia).
  assert (Hd : gin_domain (TyUint n) (GInt z)) by (simpl; unfold go_int_range; lia).
  destruct (set_single_wires set_int_fixed fixed_bytes (TyUint n) (GInt z) (member_ok_fixed _ _ Hd)) as (r & Er & Hw).
  exists n, r. split; [unfold sizes, bit_len_now; simpl; rewrite Hu; reflexivity|].
  split; [reflexivity|]. split; [exact Er|].
  simpl bits_of in Hw. simpl gin_wires in Hw. rewrite Hw, from_bits_wires. apply Z.mod_small. lia.
Qed.

(* ------------------------------------------------------------------ *)
(** * IO.Split *)

Lemma split_one_spec inp bit n : forall k, 0 <= k ->
  Z.testbit (split_one inp bit n) k = (k <? Z.of_nat n) && Z.testbit inp (Z.of_nat bit + k).
Proof.
  unfold split_one. induction n as [|n IH]; intros k Hk.
  - simpl. rewrite Z.testbit_0_l. replace (k <? 0) with false by lia. reflexivity.
  - rewrite seq_S, fold_left_app. cbn [fold_left Nat.add].
    set (r := fold_left _ (seq 0 n) 0) in *.
    destruct (Z.testbit inp (Z.of_nat (bit + n))) eqn:E.
    + rewrite set_bit_spec by lia. destruct (k =? Z.of_nat n) eqn:Ek.
      * replace (k <? Z.of_nat (S n)) with true by lia.
        replace (Z.of_nat bit + k) with (Z.of_nat (bit + n)) by lia. rewrite E. reflexivity.
      * rewrite IH by lia.
        replace (k <? Z.of_nat (S n)) with (k <? Z.of_nat n) by lia. reflexivity.
    + rewrite IH by lia. destruct (k =? Z.of_nat n) eqn:Ek.
      * replace (k <? Z.of_nat n) with false by lia.
        replace (Z.of_nat bit + k) with (Z.of_nat (bit + n)) by lia. rewrite E. rewrite !andb_false_r. reflexivity.
      * replace (k <? Z.of_nat (S n)) with (k <? Z.of_nat n) by lia. reflexivity.
Qed.

Lemma split_one_range inp bit n : 0 <= split_one inp bit n < 2 ^ Z.of_nat n.
Proof.
  assert (Hn : 0 <= split_one inp bit n).
  { apply Z.bits_iff_nonneg_ex. exists (Z.of_nat n). intros m Hm. rewrite split_one_spec by lia.
    replace (m <? Z.of_nat n) with false by lia. reflexivity. }
  split; [exact Hn|].
  destruct (Z_lt_le_dec (split_one inp bit n) (2 ^ Z.of_nat n)) as [|Hge]; [assumption|exfalso].
  assert (Hpos : 0 < split_one inp bit n)
    by (assert (0 < 2 ^ Z.of_nat n) by (apply Z.pow_pos_nonneg; lia); lia).
  pose proof (Z.bit_log2 _ Hpos) as Hb. rewrite split_one_spec in Hb by (apply Z.log2_nonneg).
  assert (Z.of_nat n <= Z.log2 (split_one inp bit n)) by (apply Z.log2_le_pow2; lia).
  replace (Z.log2 (split_one inp bit n) <? Z.of_nat n) with false in Hb by lia. discriminate.
Qed.

Lemma split_from_nth : forall io inp bit j a,
  nth_error io j = Some a ->
  nth_error (split_from io inp bit) j
  = Some (split_one inp (bit + offset_of io j) (i_bits (a_type a))).
Proof.
  induction io as [|c io IH]; intros inp bit j a H; [destruct j; discriminate|].
  destruct j as [|j]; simpl in *.
  - inversion H; subst. rewrite Nat.add_0_r. reflexivity.
  - rewrite (IH inp _ j a H). f_equal. f_equal. lia.
Qed.

(* every argument list (ill-formed ones included), every value (negative ones
   included): part j of Split is a non-negative number below 2^Bits_j whose
   wires are the wires of the value at member j's offset *)
Lemma split_member io inp j a :
  nth_error io j = Some a ->
  exists x, nth_error (split io inp) j = Some x /\
    0 <= x < 2 ^ Z.of_nat (i_bits (a_type a)) /\
    wires x (i_bits (a_type a)) = wires (Z.shiftr inp (Z.of_nat (offset_of io j))) (i_bits (a_type a)).
Proof.
  intros H. unfold split. rewrite (split_from_nth io inp 0 j a H). eexists. split; [reflexivity|].
  split; [apply split_one_range|].
  apply wires_ext. intros k Hk. rewrite split_one_spec, Z.shiftr_spec by lia.
  replace (k <? Z.of_nat (i_bits (a_type a))) with true by lia. simpl. f_equal. lia.
Qed.

Lemma segment_wires r a n c : segment (wires r (a + n + c)) a n = wires (Z.shiftr r (Z.of_nat a)) n.
Proof.
  unfold segment. rewrite <- Nat.add_assoc, wires_app.
  rewrite skipn_app, wires_length, Nat.sub_diag. rewrite skipn_all2 by (rewrite wires_length; lia).
  simpl. rewrite wires_app, firstn_app, wires_length, Nat.sub_diag, firstn_O, app_nil_r.
  apply firstn_all2. rewrite wires_length. lia.
Qed.

(* ------------------------------------------------------------------ *)
(** * Set on arbitrary (also ill-formed) arguments never disturbs lower wires *)

Fixpoint ioarg_ind' (P : ioarg -> Prop)
         (H : forall t cs, Forall P cs -> P (IOArg t cs)) (a : ioarg) {struct a} : P a :=
  match a with
  | IOArg t cs =>
      H t cs ((fix go (l : list ioarg) : Forall P l :=
                 match l with
                 | [] => Forall_nil P
                 | x :: l' => Forall_cons x (ioarg_ind' P H x) (go l')
                 end) cs)
  end.

Definition keeps_below (result r' : Z) (ofs : nat) : Prop :=
  forall k, 0 <= k < Z.of_nat ofs -> Z.testbit r' k = Z.testbit result k.

Lemma set_int_fixed_keeps t result z ofs : keeps_below result (set_int_fixed t result z ofs) ofs.
Proof.
  intros k Hk. unfold set_int_fixed.
  rewrite (fold_set_bits_spec (fun i => if (i <? 64)%nat then Z.testbit (uint64_conv z) (Z.of_nat i) else z <? 0)) by lia.
  replace (Z.of_nat ofs <=? k) with false by lia. reflexivity.
Qed.

Lemma set_bytes_fixed_keeps el : forall l result ofs r' ofs',
  set_bytes set_int_fixed el result l ofs = (r', ofs') -> (ofs <= ofs')%nat /\ keeps_below result r' ofs.
Proof.
  induction l as [|x l IH]; intros result ofs r' ofs' H; simpl in H.
  - inversion H; subst. split; [lia | intros k _; reflexivity].
  - apply IH in H. destruct H as (Hle & Hk). split; [lia|].
    intros k Hkk. rewrite Hk by lia. apply set_int_fixed_keeps. exact Hkk.
Qed.

Lemma set_leaf_fixed_keeps t result v ofs r' ofs' :
  set_leaf set_int_fixed t result v ofs = Ok (r', ofs') -> (ofs <= ofs')%nat /\ keeps_below result r' ofs.
Proof.
  unfold set_leaf. destruct (is_intkind t).
  { unfold set_int. destruct v; try discriminate. intros H; inversion H; subst.
    split; [lia | apply set_int_fixed_keeps]. }
  destruct (kind_is t types_TBool).
  { unfold set_bool. destruct v; try discriminate. intros H; inversion H; subst. split; [lia|].
    intros k Hk. rewrite set_bit_spec by lia. replace (k =? Z.of_nat ofs) with false by lia. reflexivity. }
  assert (HA : forall c r o, set_array set_int_fixed t result v ofs = Ok (c, r, o) ->
               (ofs <= o)%nat /\ keeps_below result r ofs).
  { unfold set_array. intros c r o. destruct (i_elem t) as [el|]; [|discriminate].
    destruct (is_intkind el); [|discriminate]. destruct v; try discriminate.
    - intros H; inversion H; subst. split; [lia | intros k _; reflexivity].
    - destruct (i_bits el <? 8)%nat; [discriminate|].
      destruct (set_bytes set_int_fixed el result l ofs) as [r1 o1] eqn:E.
      intros H; inversion H; subst. eapply set_bytes_fixed_keeps; eauto. }
  destruct (kind_is t types_TArray).
  { destruct (Nat.eqb (i_asize t) 0).
    - intros H; inversion H; subst. split; [lia | intros k _; reflexivity].
    - destruct (set_array set_int_fixed t result v ofs) as [[[c r] o]| |] eqn:E; try discriminate.
      destruct (i_asize t <? c)%nat; [discriminate|]. destruct (i_elem t); [|discriminate].
      intros H; inversion H; subst. destruct (HA _ _ _ eq_refl) as (_ & Hk). split; [lia | exact Hk]. }
  destruct (kind_is t types_TSlice); [|discriminate].
  destruct (set_array set_int_fixed t result v ofs) as [[[c r] o]| |] eqn:E; try discriminate.
  destruct (i_asize t <? c)%nat; [discriminate|].
  intros H; inversion H; subst. apply (HA _ _ _ eq_refl).
Qed.

Lemma set_members_keeps (S : ioarg -> Z -> list gin -> nat -> res (Z * nat)) : forall cs,
  Forall (fun a => forall result inputs ofs r' ofs',
            S a result inputs ofs = Ok (r', ofs') -> (ofs <= ofs')%nat /\ keeps_below result r' ofs) cs ->
  forall ins result ofs r' ofs',
    set_members S cs ins result ofs = Ok (r', ofs') -> (ofs <= ofs')%nat /\ keeps_below result r' ofs.
Proof.
  induction cs as [|c cs IH]; intros HF ins result ofs r' ofs' H; simpl in H.
  - inversion H; subst. split; [lia | intros k _; reflexivity].
  - inversion HF as [|? ? Hc HF']; subst. destruct ins as [|v ins]; [discriminate|].
    destruct (S c result [v] ofs) as [[r1 o1]| |] eqn:E; try discriminate.
    destruct (Hc _ _ _ _ _ E) as (Hle1 & Hk1).
    destruct (IH HF' _ _ _ _ _ H) as (Hle2 & Hk2). split; [lia|].
    intros k Hk. rewrite Hk2 by lia. apply Hk1. exact Hk.
Qed.

(* every argument (nested or ill-formed included), every input list, every
   starting offset: Set only writes at or above its offset: whatever comes
   later never disturbs the wires of what was written before *)
Lemma set_at_fixed_keeps : forall io result inputs ofs r' ofs',
  set_at set_int_fixed io result inputs ofs = Ok (r', ofs') ->
  (ofs <= ofs')%nat /\ keeps_below result r' ofs.
Proof.
  induction io as [t cs IH] using ioarg_ind'. intros result inputs ofs r' ofs' H.
  destruct cs as [|c cs].
  - cbn [set_at] in H. destruct inputs as [|v [|]]; try discriminate.
    eapply set_leaf_fixed_keeps; eauto.
  - cbn [set_at] in H. destruct (negb (Nat.eqb (length inputs) (length (c :: cs)))); [discriminate|].
    eapply (set_members_keeps (fun a => set_at set_int_fixed a)); eauto.
Qed.

Lemma total_bits_split : forall cs j a,
  nth_error cs j = Some a ->
  exists c, total_bits cs = (offset_of cs j + i_bits (a_type a) + c)%nat.
Proof.
  induction cs as [|c0 cs IH]; intros j a H; [destruct j; discriminate|].
  destruct j as [|j]; simpl in *.
  - inversion H; subst. exists (total_bits cs). lia.
  - destruct (IH j a H) as (c & E). exists c. rewrite E. lia.
Qed.

(* Split undoes the packing of Parse: for every compound argument whatsoever,
   part j of Split (Parse inputs) has the wires of Parse on member j alone *)
Lemma parse_split_roundtrip t c cs ins r j a s :
  parse (IOArg t (c :: cs)) ins = Ok r ->
  nth_error (c :: cs) j = Some a -> nth_error ins j = Some s ->
  exists x p, parse a [s] = Ok x /\ nth_error (split (c :: cs) r) j = Some p /\
    0 <= p < 2 ^ Z.of_nat (i_bits (a_type a)) /\
    wires p (i_bits (a_type a)) = wires x (i_bits (a_type a)).
Proof.
  intros H Ha Hs.
  destruct (parse_member_independent _ _ _ _ _ _ _ _ H Ha Hs) as (x & Hx & Hseg).
  destruct (split_member (c :: cs) r j a Ha) as (p & Hp & Hr & Hw).
  exists x, p. split; [exact Hx|]. split; [exact Hp|]. split; [exact Hr|].
  rewrite Hw, <- Hseg. destruct (total_bits_split _ _ _ Ha) as (c0 & E). rewrite E.
  symmetry. apply segment_wires.
Qed.

(* ------------------------------------------------------------------ *)
(** * End to end: a whole flat struct of unsized uint members, text form *)

Definition plain_spelling (s : list N) (z : Z) : Prop :=
  set_string s = Some z /\ 0 <= z /\
  mem_str s bool_false_spellings = false /\ mem_str s bool_true_spellings = false /\
  match_hex_input s = None /\ has_prefix s_0x s = false.

Definition uint_wires (zs : list Z) (szs : list nat) : list bool :=
  concat (map (fun zn => wires (fst zn) (snd zn)) (combine zs szs)).

Lemma resize_all_uints : forall (ss : list (list N)) szs, length ss = length szs ->
  resize_all (map (fun _ => TyUint 0) ss) szs = map TyUint szs.
Proof.
  induction ss as [|s ss IH]; intros [|n szs] H; simpl in *; try discriminate; [reflexivity|].
  f_equal. apply IH. lia.
Qed.

Lemma parse_members_uints : forall ss zs, Forall2 plain_spelling ss zs ->
  forall result offset,
  exists szs r,
    Forall2 (fun s n => input_size s = Ok n) ss szs /\
    Forall2 (fun z n => z < 2 ^ Z.of_nat n) zs szs /\
    parse_members (fun a => parse a) (map leaf_arg (map TyUint szs)) ss result offset = Ok r /\
    wires r (offset + sum_bits (map TyUint szs)) = wires result offset ++ uint_wires zs szs.
Proof.
  induction 1 as [|s z ss zs (Hs & Hz & Hf & Ht & Hm & Hp) HF IH]; intros result offset.
  - exists [], result. repeat split; try constructor. simpl. rewrite Nat.add_0_r.
    unfold uint_wires. simpl. rewrite app_nil_r. reflexivity.
  - destruct (input_size_unsigned s z Hs Hz Hf Ht Hm Hp) as (n & Hn & Hlt).
    destruct (IH (copy_bits result offset z n) (offset + n)%nat) as (szs & r & H1 & H2 & H3 & H4).
    exists (n :: szs), r. split; [constructor; assumption|]. split; [constructor; assumption|].
    cbn [map parse_members]. rewrite parse_uint, Hs. cbn [a_type leaf_arg info_of i_bits].
    split; [exact H3|]. simpl sum_bits. rewrite Nat.add_assoc, H4, wires_copy_bits.
    unfold uint_wires. simpl. rewrite app_assoc. reflexivity.
Qed.

(* every non-empty list of spellings of non-negative integers: InputSizes,
   InstantiateWithSizes of the struct template with one unsized uint member per
   input, and Parse of the instantiated compound argument succeed; member i has
   the width inferred from input i, holds its value, and the wires are the
   values in declaration order *)
Lemma unsized_uint_struct_lossless s0 ss z0 zs :
  Forall2 plain_spelling (s0 :: ss) (z0 :: zs) ->
  exists szs t r,
    input_sizes (s0 :: ss) = Ok szs /\ length szs = length (s0 :: ss) /\
    instantiate (template_of (TyStruct (map (fun _ => TyUint 0) (s0 :: ss)))) szs = Ok t /\
    t = Info types_TStruct (sum_bits (map TyUint szs)) 0 None (map info_of (map TyUint szs)) true /\
    parse (IOArg t (map leaf_arg (map TyUint szs))) (s0 :: ss) = Ok r /\
    wires r (sum_bits (map TyUint szs)) = uint_wires (z0 :: zs) szs /\
    Forall2 (fun z n => z < 2 ^ Z.of_nat n) (z0 :: zs) szs.
Proof.
  intros HF. destruct (parse_members_uints _ _ HF 0 0%nat) as (szs & r & H1 & H2 & H3 & H4).
  assert (Hl : length (s0 :: ss) = length szs) by (eapply Forall2_len; eauto).
  exists szs. eexists. exists r.
  split; [apply input_sizes_each; exact H1|]. split; [symmetry; exact Hl|].
  split.
  { rewrite instantiate_flat_struct.
    - rewrite (resize_all_uints (s0 :: ss) szs Hl). reflexivity.
    - simpl. discriminate.
    - apply Forall_forall. intros m Hm. apply in_map_iff in Hm. destruct Hm as (? & <- & _). exact I.
    - rewrite map_length. lia. }
  split; [reflexivity|].
  destruct szs as [|n szs]; [simpl in Hl; discriminate|].
  split.
  { cbn [map parse]. cbn [map] in H3.
    replace (Nat.eqb (length (s0 :: ss)) (length (leaf_arg (TyUint n) :: map leaf_arg (map TyUint szs)))) with true.
    - simpl negb. cbv iota. exact H3.
    - symmetry. apply Nat.eqb_eq. simpl. rewrite !map_length. simpl in Hl. lia. }
  split; [exact H4 | exact H2].
Qed.

Example ex_plain_spellings :
  Forall2 plain_spelling [[50;53;53]; [48;98;49;48;49]; [48;111;55]]%N [255; 5; 7].
Proof. repeat constructor; try reflexivity; lia. Qed.

Example ex_flat_template :
  Forall leaf_template_ok [TyBool; TyInt 0; TyUint 0; TySlice (TyUint 8) 0; TyArray (TyInt 16) 0].
Proof. repeat constructor. Qed.

(* ------------------------------------------------------------------ *)
(** * Sizes of a Go value = InputSizes of its text *)

Lemma testbit_true_ge z n : 0 <= z -> 0 <= n -> Z.testbit z n = true -> 2 ^ n <= z.
Proof.
  intros Hz Hn H. apply Z.testbit_true in H; [|exact Hn].
  assert (Hp : 0 < 2 ^ n) by (apply Z.pow_pos_nonneg; lia).
  assert (Hq : 1 <= z / 2 ^ n).
  { destruct (Z_lt_le_dec (z / 2 ^ n) 1) as [Hlt|]; [|assumption].
    assert (z / 2 ^ n = 0) by (pose proof (Z.div_pos z (2 ^ n) Hz Hp); lia).
    rewrite H0 in H. discriminate. }
  pose proof (Z.mul_div_le z (2 ^ n) Hp). nia.
Qed.

Lemma bit_len_loop_fixed_lower z : 0 < z -> forall k,
  2 ^ (Z.of_nat (bit_len_loop_fixed k z) - 1) <= z.
Proof.
  intros Hz. induction k as [|k IH]; cbn [bit_len_loop_fixed].
  - simpl. lia.
  - destruct (Z.testbit z (Z.of_nat (S k))) eqn:E; [|exact IH].
    replace (Z.of_nat (S k + 1) - 1) with (Z.of_nat (S k)) by lia.
    apply testbit_true_ge; lia.
Qed.

Lemma bit_width_unique z a b :
  2 ^ (Z.of_nat a - 1) <= z < 2 ^ Z.of_nat a -> 2 ^ (Z.of_nat b - 1) <= z < 2 ^ Z.of_nat b ->
  (0 < a)%nat -> (0 < b)%nat -> a = b.
Proof.
  intros Ha Hb Pa Pb.
  destruct (Nat.lt_trichotomy a b) as [H|[H|H]]; [exfalso|exact H|exfalso].
  - assert (2 ^ Z.of_nat a <= 2 ^ (Z.of_nat b - 1)) by (apply Z.pow_le_mono_r; lia). lia.
  - assert (2 ^ Z.of_nat b <= 2 ^ (Z.of_nat a - 1)) by (apply Z.pow_le_mono_r; lia). lia.
Qed.

Lemma bit_len_loop_fixed_pos k z : (0 < bit_len_loop_fixed k z)%nat.
Proof. induction k as [|k IH]; cbn [bit_len_loop_fixed]; [lia|]. destruct (Z.testbit z (Z.of_nat (S k))); lia. Qed.

(* bitLen agrees with big.Int.BitLen on every non-zero uint64; bitLen(0) = 1 *)
Lemma bit_len_fixed_eq_bit_len z : 0 < z < 2 ^ 64 -> bit_len_fixed z = bit_len z.
Proof.
  intros Hz.
  destruct (bit_len_spec z ltac:(lia)) as (Hu & Hl).
  apply (bit_width_unique z).
  - split; [apply bit_len_loop_fixed_lower; lia | apply bit_len_fixed_holds; lia].
  - split; [apply Hl; lia | exact Hu].
  - apply bit_len_loop_fixed_pos.
  - destruct z; simpl; try lia. destruct p; simpl; lia.
Qed.

Lemma bit_len_fixed_zero : bit_len_fixed 0 = 1%nat.
Proof. reflexivity. Qed.

Lemma bool_spelling_values s z :
  set_string s = Some z ->
  mem_str s bool_false_spellings || mem_str s bool_true_spellings = true ->
  (s = s_0 /\ z = 0) \/ (s = s_1 /\ z = 1).
Proof.
  intros Hs H. unfold mem_str, bool_false_spellings, bool_true_spellings in H. simpl existsb in H.
  repeat rewrite orb_true_iff in H.
  destruct H as [[H|[H|[H|H]]]|[H|[H|[H|H]]]]; try discriminate; apply lN_eqb_eq in H; subst s;
    vm_compute in Hs; try discriminate; inversion Hs; auto.
Qed.

(* Theorem (4), Go value versus text: every uint64 value z INCLUDING 0, every
   spelling of it that SetString reads (not a 0x literal, not the repeat form;
   0 is written "0"): circuit.Sizes of the Go value and circuit.InputSizes of
   the text infer the same size (for 0: one bit, bitLen(0) = 1 and "0" -> 1) *)
Lemma sizes_eq_input_sizes s z :
  0 <= z < 2 ^ 64 -> set_string s = Some z ->
  match_hex_input s = None -> has_prefix s_0x s = false ->
  (z = 0 -> s = s_0) ->
  exists n, sizes [GInt z] = Ok [n] /\ input_sizes [s] = Ok [n] /\ (0 < n)%nat.
Proof.
  intros Hz Hs Hm Hp H0.
  assert (Hu : uint64_conv z = z) by (unfold uint64_conv; apply Z.mod_small; lia).
  exists (bit_len_fixed z).
  split; [unfold sizes, bit_len_now; simpl; rewrite Hu; reflexivity|].
  split; [|apply bit_len_loop_fixed_pos].
  destruct (mem_str s bool_false_spellings || mem_str s bool_true_spellings) eqn:Eb.
  - destruct (bool_spelling_values s z Hs Eb) as [[-> ->]|[-> ->]]; reflexivity.
  - apply orb_false_iff in Eb. destruct Eb as (Ef & Et).
    assert (Hz0 : 0 < z).
    { destruct (Z.eq_dec z 0) as [E|]; [|lia]. rewrite (H0 E) in Ef. discriminate Ef. }
    apply input_sizes_each. repeat constructor.
    rewrite (input_size_literal s z Hs Ef Et Hm). unfold literal_bit_len. rewrite Hp.
    f_equal. symmetry. apply bit_len_fixed_eq_bit_len. lia.
Qed.

(* the value 0: one wire, from the Go value and from the text alike *)
Example sizes_of_zero :
  sizes [GInt 0] = Ok [1%nat] /\ input_sizes [s_0] = Ok [1%nat] /\ bit_len_now 0 = 1%nat /\
  instantiate (template_of (TyUint 0)) [1%nat] = Ok (info_of (TyUint 1)) /\
  (exists n, sizes [GInt 0] = Ok [n] /\ input_sizes [s_0] = Ok [n] /\ (0 < n)%nat).
Proof.
  repeat split; try reflexivity.
  apply (sizes_eq_input_sizes s_0 0); try reflexivity; try lia.
Qed.

(* the case of seeded defect C13-6: the text "-5" of a single int32 argument is
   the NEGATIVE big.Int -5 (BitLen 3); over the 32 wires of the argument
   (Bit(i), i < Type.Bits, two's complement) it has the bits of 0xfffffffb,
   exactly what Set(int32(-5)) writes; a consumer that stops at BitLen reads 3 *)
Example ex_negative_text_full_width :
  parse (leaf_arg (TyInt 32)) [[45; 53]%N] = Ok (-5) /\
  set (leaf_arg (TyInt 32)) [GInt (-5)] = Ok 4294967291 /\
  wires (-5) 32 = wires 4294967291 32 /\
  from_bits (wires (-5) 32) = 4294967291 /\
  from_bits (wires (-5) (bit_len (-5))) = 3.
Proof. repeat split; vm_compute; reflexivity. Qed.

(* ------------------------------------------------------------------ *)
(** * IOArg.Set on a caller-supplied destination *)

(* every previous content of the destination (nil, zero, all ones, an earlier
   encoding), every argument (ill-formed included), every input list: Set on
   the reused destination is Set on a fresh one — value, error or panic alike *)
Lemma set_into_ignores_prev SI prev io inputs : set_into_gen SI prev io inputs = set_gen SI io inputs.
Proof. destruct prev; reflexivity. Qed.

Lemma set_into_now_ignores_prev prev io inputs : set_into prev io inputs = set io inputs.
Proof. apply set_into_ignores_prev. Qed.

(* the history of the seeded defect C13-7: uint16, [4]byte; first the full array
   a1 a2 a3 44, then the short array [44] on the same destination *)
Example ex_set_history :
  let arg := IOArg (info_of (TyStruct [TyUint 16; TyArray (TyUint 8) 4]))
                   (map leaf_arg [TyUint 16; TyArray (TyUint 8) 4]) in
  set_into None arg [GInt 45107; GBytes [161; 162; 163; 68]%N] = Ok 75469598863411 /\
  set_into (Some 75469598863411) arg [GInt 45107; GBytes [68]%N] = Ok 4501555 /\
  set arg [GInt 45107; GBytes [68]%N] = Ok 4501555.
Proof. repeat split; vm_compute; reflexivity. Qed.

(* ------------------------------------------------------------------ *)
(** * InstantiateWithSizes on structs that mix declared-width and unsized members *)

(* a member: (declared?, type).  A declared member keeps its concrete Info in
   the template, an unsized one is the template of its kind *)
Definition mtemplate (m : bool * ty) : info := if fst m then info_of (snd m) else template_of (snd m).
Definition mresize (m : bool * ty) (sz : nat) : ty := if fst m then snd m else resize (snd m) sz.

Definition declared_ok (t : ty) : Prop :=
  match t with
  | TyBool | TyInt _ | TyUint _ => True
  | TyArray el _ => is_struct el = false
  | _ => False
  end.

Definition member_ok_mixed (m : bool * ty) : Prop :=
  if fst m then declared_ok (snd m) else leaf_template_ok (snd m).

(* the frame statement: a concrete (declared-width) type is left exactly as it
   is, whatever size is inferred for the value written for it *)
Lemma instantiate_declared_frame t sz rest :
  declared_ok t -> instantiate (info_of t) (sz :: rest) = Ok (info_of t).
Proof.
  destruct t as [| b | b | b | el n | el n | fs]; simpl declared_ok; intros H; try contradiction;
    try reflexivity.
  cbn [info_of instantiate].
  replace (types_TArray =? types_TBool) with false by reflexivity.
  replace ((types_TArray =? types_TInt) || (types_TArray =? types_TUint) || (types_TArray =? types_TFloat)) with false by reflexivity.
  replace (types_TArray =? types_TStruct) with false by reflexivity.
  replace (types_TArray =? types_TArray) with true by reflexivity.
  rewrite (concrete_info_of el H). simpl negb. cbv iota.
  replace (concrete_of (Info types_TArray (n * bits_of el) n (Some (info_of el)) [] true)) with true by reflexivity.
  reflexivity.
Qed.

Lemma instantiate_member m sz rest :
  member_ok_mixed m -> instantiate (mtemplate m) (sz :: rest) = Ok (info_of (mresize m sz)).
Proof.
  destruct m as [[|] t]; unfold member_ok_mixed, mtemplate, mresize; simpl fst; simpl snd; intros H.
  - apply instantiate_declared_frame. exact H.
  - apply instantiate_leaf. exact H.
Qed.

Fixpoint mresize_all (ms : list (bool * ty)) (szs : list nat) : list ty :=
  match ms, szs with
  | m :: ms', s :: szs' => mresize m s :: mresize_all ms' szs'
  | _, _ => []
  end.

Lemma inst_fields_mixed : forall ms szs acc,
  Forall member_ok_mixed ms -> (length ms <= length szs)%nat ->
  inst_fields (fun f => instantiate f) (map mtemplate ms) szs acc
  = Ok (map info_of (mresize_all ms szs), (acc + sum_bits (mresize_all ms szs))%nat).
Proof.
  induction ms as [|m ms IH]; intros szs acc HF Hl.
  - simpl. rewrite Nat.add_0_r. reflexivity.
  - inversion HF as [|? ? Hm HF']; subst. destruct szs as [|s szs]; [simpl in Hl; lia|].
    cbn [map inst_fields mresize_all]. rewrite (instantiate_member m s szs Hm).
    rewrite IH by (auto; simpl in Hl; lia). rewrite i_bits_info_of.
    simpl sum_bits. rewrite Nat.add_assoc. reflexivity.
Qed.

(* Theorem (4), flat structs mixing declared-width members (bool, intN, uintN,
   [n]T) with unsized ones (int, uint, []T), in every order: every declared
   member is unchanged, every unsized member i takes size i, Bits is the sum *)
Lemma instantiate_mixed_struct ms szs b0 a0 :
  ms <> [] -> Forall member_ok_mixed ms -> (length ms <= length szs)%nat ->
  instantiate (Info types_TStruct b0 a0 None (map mtemplate ms) false) szs
  = Ok (Info types_TStruct (sum_bits (mresize_all ms szs)) a0 None
             (map info_of (mresize_all ms szs)) true).
Proof.
  intros Hne HF Hl. destruct szs as [|s0 szs]; [destruct ms; [congruence | simpl in Hl; lia]|].
  cbn [instantiate].
  replace (types_TStruct =? types_TBool) with false by reflexivity.
  replace ((types_TStruct =? types_TInt) || (types_TStruct =? types_TUint) || (types_TStruct =? types_TFloat)) with false by reflexivity.
  replace (types_TStruct =? types_TStruct) with true by reflexivity.
  rewrite (inst_fields_mixed ms (s0 :: szs) 0 HF Hl). reflexivity.
Qed.

Lemma mresize_all_declared : forall ms szs i t,
  (length ms <= length szs)%nat -> nth_error ms i = Some (true, t) ->
  nth_error (mresize_all ms szs) i = Some t.
Proof.
  induction ms as [|m ms IH]; intros szs i t Hl H; [destruct i; discriminate|].
  destruct szs as [|s szs]; [simpl in Hl; lia|]. destruct i as [|i]; simpl in *.
  - inversion H; subst. reflexivity.
  - apply IH; [lia | exact H].
Qed.

(* the example of seeded defect C13-9: struct{a int32; k [4]byte; n uint} with the
   sizes of 5, 0x0102, 100: a stays int32, k stays [4]uint8, n becomes uint7 *)
Example ex_mixed_struct :
  instantiate (Info types_TStruct 0 0 None
                 (map mtemplate [(true, TyInt 32); (true, TyArray (TyUint 8) 4); (false, TyUint 0)]) false)
              [3; 16; 7]%nat
  = Ok (Info types_TStruct 71 0 None
          (map info_of [TyInt 32; TyArray (TyUint 8) 4; TyUint 7]) true).
Proof. vm_compute. reflexivity. Qed.

(* ------------------------------------------------------------------ *)
(** * The string constants of the model are the Go literals *)
Module StrConst.
Import String Ascii.
Definition str (s : string) : list N := map N_of_ascii (list_ascii_of_string s).

Lemma string_constants :
  s_0 = str "0" /\ s_1 = str "1" /\ s_f = str "f" /\ s_t = str "t" /\
  s_false = str "false" /\ s_true = str "true" /\ s_0x = str "0x" /\ s_underscore = str "_".
Proof. repeat split; reflexivity. Qed.
End StrConst.
