(* IO/IOArg.v — executable model of the input/output value codec of
   markkurossi/mpc (property C13):

     circuit/ioarg.go   IOArg.Parse, IOArg.Set (set/setArray/setIntArray/setInt/
                        setBool), Sizes, bitLen, InputSizes, IO.Split
     result.go          mpc.Result
     types/types.go     Info (the fields these functions inspect),
                        Info.Concrete, Info.InstantiateWithSizes
     types/parse.go     types.Parse (as [info_of]: the Info it builds for a type)
     math/big           Int.SetString(s, 0) (natconv.go nat.scan, intconv.go scanSign),
                        BitLen, Bit, SetBit, Lsh, Rsh, And, Or, Uint64, Int64

   *big.Int is [Z]; Bit/SetBit/And/Or/Rsh of math/big have two's-complement
   semantics on negative numbers, which is what Z.testbit/Z.setbit/Z.land/
   Z.lor/Z.shiftr provide.  Go strings are [list N] (bytes).  Pointer mutation
   is state passing: [result] returns the decoded Go value together with the
   value of its *argument after the call*.  Errors are [Err], run-time panics
   (nil dereference, division by zero, negative bit index) are [Panic].

   There are no proofs in this file (IO/IOArgProof.v has them).

   === CODE VERSIONS ========================================================
   Three places of the Go code were repaired in /repo (notes/C13-findings.md):
       setInt's bit loop     19f0a68   [set_int_fixed]      (before: [set_int_old],     F8)
       Result, case TInt     8d9a986   [result_tint_fixed]  (before: [result_tint_old], F7)
       bitLen used by Sizes  a0b0be5   [bit_len_fixed]      (before: [bit_len_old],     F13)
   [set_int_now], [result_tint_now], [bit_len_now] (section "NOW" at the end of
   the file) select what /repo contains now — the [_fixed] definitions; [set],
   [sizes], [result] and [run_c13] use only the [_now] instances.  The [_old]
   definitions model the code before the fix commits; they are kept, with their
   refutation witnesses in IOArgProof.v, as a regression record (reverting a fix
   makes the correspondence fail and the old witnesses say why).
   ========================================================================= *)
From Coq Require Import ZArith NArith List Bool.
From Mpc Require Import Gen.Consts.
Import ListNotations.
Open Scope Z_scope.

(* ------------------------------------------------------------------ *)
(** * Results of Go functions that may fail *)

Inductive res (A : Type) : Type :=
| Ok (a : A)
| Err          (* the function returned a non-nil error *)
| Panic.       (* the function panicked *)
Arguments Ok {A} a.
Arguments Err {A}.
Arguments Panic {A}.

Definition bind {A B} (r : res A) (f : A -> res B) : res B :=
  match r with Ok a => f a | Err => Err | Panic => Panic end.

(* ------------------------------------------------------------------ *)
(** * Strings *)

(* Go strings are byte lists; the literals the code compares against
   (IOArgProof.v checks them against Coq string literals) *)
Definition s_0 : list N := [48%N].                          (* "0" *)
Definition s_1 : list N := [49%N].                          (* "1" *)
Definition s_f : list N := [102%N].                         (* "f" *)
Definition s_t : list N := [116%N].                         (* "t" *)
Definition s_false : list N := [102; 97; 108; 115; 101]%N.  (* "false" *)
Definition s_true : list N := [116; 114; 117; 101]%N.       (* "true" *)
Definition s_0x : list N := [48; 120]%N.                    (* "0x" *)
Definition s_underscore : list N := [95%N].                 (* "_" *)

Fixpoint lN_eqb (a b : list N) : bool :=
  match a, b with
  | [], [] => true
  | x :: a', y :: b' => N.eqb x y && lN_eqb a' b'
  | _, _ => false
  end.

(* strings.HasPrefix *)
Fixpoint has_prefix (p s : list N) : bool :=
  match p, s with
  | [], _ => true
  | x :: p', y :: s' => N.eqb x y && has_prefix p' s'
  | _ :: _, [] => false
  end.

Definition is_digit (c : N) : bool := (48 <=? c)%N && (c <=? 57)%N.
Definition is_xdigit (c : N) : bool :=
  is_digit c || ((97 <=? c)%N && (c <=? 102)%N) || ((65 <=? c)%N && (c <=? 70)%N).

(* ------------------------------------------------------------------ *)
(** * math/big: Int.SetString(s, 0) *)

(* natconv.go nat.scan: "convert rune into digit value d1" (MaxBase+1 = 63) *)
Definition digit_val (ch : N) : N :=
  if is_digit ch then (ch - 48)%N
  else if (97 <=? ch)%N && (ch <=? 122)%N then (ch - 97 + 10)%N
  else if (65 <=? ch)%N && (ch <=? 90)%N then (ch - 65 + 10)%N
  else 63%N.

(* [prev] of nat.scan: '.', '0' (a digit) or '_' *)
Inductive prevk := PDot | PDigit | PUnder.
Definition is_pdigit (p : prevk) := match p with PDigit => true | _ => false end.
Definition is_punder (p : prevk) := match p with PUnder => true | _ => false end.

(* the digit loop of nat.scan for base b (base argument 0, so '_' is a
   separator).  A character that is not a digit of the base ends the number;
   SetString then fails because input remains: [None].  Otherwise
   (accumulated value, saw a digit, prev, invalSep). *)
Fixpoint scan_digits (b : N) (s : list N) (acc : N) (any : bool) (prev : prevk) (inv : bool)
  : option (N * bool * prevk * bool) :=
  match s with
  | [] => Some (acc, any, prev, inv)
  | ch :: rest =>
      if (ch =? 95)%N then scan_digits b rest acc any PUnder (inv || negb (is_pdigit prev))
      else let d := digit_val ch in
           if (b <=? d)%N then None
           else scan_digits b rest (acc * b + d)%N true PDigit inv
  end.

(* end of nat.scan: separator errors, "no digits" (count == 0), lone octal prefix *)
Definition scan_finish (prefix0 : bool) (r : option (N * bool * prevk * bool)) : option N :=
  match r with
  | None => None
  | Some (acc, any, prev, inv) =>
      if inv || is_punder prev then None
      else if any then Some acc
      else if prefix0 then Some 0%N else None
  end.

(* nat.scan(r, 0, false) followed by the "entire content consumed" test *)
Definition nat_scan (s : list N) : option N :=
  match s with
  | c0 :: rest0 =>
      if (c0 =? 48)%N then
        match rest0 with
        | [] => Some 0%N                                   (* "0": count = 1 *)
        | c :: rest =>
            if (c =? 98)%N || (c =? 66)%N then scan_finish false (scan_digits 2 rest 0 false PDigit false)
            else if (c =? 111)%N || (c =? 79)%N then scan_finish false (scan_digits 8 rest 0 false PDigit false)
            else if (c =? 120)%N || (c =? 88)%N then scan_finish false (scan_digits 16 rest 0 false PDigit false)
            else scan_finish true (scan_digits 8 rest0 0 false PDigit false)   (* octal prefix "0" *)
        end
      else scan_finish false (scan_digits 10 s 0 false PDot false)
  | [] => scan_finish false (scan_digits 10 [] 0 false PDot false)
  end.

(* Int.SetString(s, 0): scanSign, nat.scan, "0 has no sign" *)
Definition set_string (s : list N) : option Z :=
  match s with
  | [] => None                                             (* scanSign: EOF *)
  | c :: rest =>
      let neg := (c =? 45)%N in
      let body := if (c =? 45)%N || (c =? 43)%N then rest else s in
      match nat_scan body with
      | None => None
      | Some n => Some (if neg then - Z.of_N n else Z.of_N n)
      end
  end.

(* Int.BitLen: length of the absolute value *)
Definition bit_len (z : Z) : nat :=
  match z with
  | Z0 => O
  | Zpos p => Pos.size_nat p
  | Zneg p => Pos.size_nat p
  end.

(* Int.SetBit(x, i, b) *)
Definition set_bit (r : Z) (i : nat) (b : bool) : Z :=
  if b then Z.setbit r (Z.of_nat i) else Z.clearbit r (Z.of_nat i).

(* for i := 0; i < n; i++ { result.SetBit(result, offset+i, input.Bit(i)) }
   (the member copy loop of IOArg.Parse; also the loop of setInt, where
   (ival>>i)&1 is bit i of ival) *)
Definition copy_bits (result : Z) (offset : nat) (input : Z) (n : nat) : Z :=
  fold_left (fun r i => set_bit r (offset + i) (Z.testbit input (Z.of_nat i))) (seq 0 n) result.

(* mask := 0; for i := 0; i < elSize; i++ { mask.SetBit(mask, i, 1) } *)
Definition mask_of (elSize : nat) : Z :=
  fold_left (fun m i => set_bit m i true) (seq 0 elSize) 0.

(* the wires an argument value is put on: inputs.Bit(i), i < n
   (circuit/garbler.go, evaluator.go, computer.go, gmw/network.go) *)
Definition wires (r : Z) (n : nat) : list bool :=
  map (fun i => Z.testbit r (Z.of_nat i)) (seq 0 n).

(* ------------------------------------------------------------------ *)
(** * types.Info, circuit.IOArg *)

(* Info: Type, Bits, ArraySize, ElementType (nil = None), Struct (field types),
   IsConcrete.  ID, MinBits, Offset and names are not inspected by the
   functions modelled here. *)
Inductive info : Type :=
| Info (kind : Z) (bits : nat) (asize : nat) (elem : option info) (fields : list info) (concrete : bool).

Definition i_kind (t : info) := match t with Info k _ _ _ _ _ => k end.
Definition i_bits (t : info) := match t with Info _ b _ _ _ _ => b end.
Definition i_asize (t : info) := match t with Info _ _ a _ _ _ => a end.
Definition i_elem (t : info) := match t with Info _ _ _ e _ _ => e end.
Definition i_fields (t : info) := match t with Info _ _ _ _ f _ => f end.
Definition i_flag (t : info) := match t with Info _ _ _ _ _ c => c end.

Definition kind_is (t : info) (k : Z) : bool := Z.eqb (i_kind t) k.
Definition is_intkind (t : info) : bool := kind_is t types_TInt || kind_is t types_TUint.

Inductive ioarg : Type :=
| IOArg (t : info) (compound : list ioarg).
Definition a_type (a : ioarg) := match a with IOArg t _ => t end.
Definition a_compound (a : ioarg) := match a with IOArg _ c => c end.

(* ------------------------------------------------------------------ *)
(** * IOArg.Parse (circuit/ioarg.go) *)

Definition bool_false_spellings := [s_0; s_f; s_false].
Definition bool_true_spellings := [s_1; s_t; s_true].
Definition mem_str (s : list N) (l : list (list N)) : bool := existsb (lN_eqb s) l.

(* for i := 0; i < count; i++ { next := (val >> (count-i-1)*elSize) & mask;
                                result |= next << i*elSize } *)
Definition parse_array_pack (val : Z) (count elSize : nat) : Z :=
  let mask := mask_of elSize in
  fold_left (fun result i =>
               Z.lor result
                     (Z.shiftl (Z.land (Z.shiftr val (Z.of_nat ((count - i - 1) * elSize))) mask)
                               (Z.of_nat (i * elSize))))
            (seq 0 count) 0.

(* the bit length Parse assigns to an array literal: a "0x" literal counts
   its digits (leading zeros are elements), every other spelling uses BitLen *)
Definition literal_bit_len (s : list N) (val : Z) : nat :=
  if has_prefix s_0x s then ((length s - 2) * 4)%nat else bit_len val.

Definition ceil_div (a b : nat) : nat :=
  (if Nat.eqb (a mod b) 0 then a / b else a / b + 1)%nat.

(* case types.TArray, types.TSlice of Parse *)
Definition parse_array (t : info) (s : list N) : res Z :=
  match i_elem t with
  | None => Panic                                   (* io.Type.ElementType.Bits on nil *)
  | Some el =>
      let count := i_asize t in
      let elSize := i_bits el in
      if kind_is t types_TArray && Nat.eqb count 0 then Ok 0
      else match set_string s with
           | None => Err
           | Some val =>
               let bitLen := literal_bit_len s val in
               if Nat.eqb elSize 0 then Panic       (* bitLen / elSize: integer divide by zero *)
               else
                 let valElCount := ceil_div bitLen elSize in
                 let count := if kind_is t types_TSlice then valElCount else count in
                 if (count <? valElCount)%nat then Err
                 else
                   let pad := (count - valElCount)%nat in
                   let val := Z.shiftl val (Z.of_nat (pad * elSize)) in
                   Ok (parse_array_pack val count elSize)
           end
  end.

(* the non-compound part of Parse, one input string *)
Definition parse_leaf (t : info) (s : list N) : res Z :=
  if is_intkind t then
    match set_string s with Some z => Ok z | None => Err end
  else if kind_is t types_TBool then
    if mem_str s bool_false_spellings then Ok 0
    else if mem_str s bool_true_spellings then Ok 1
    else Err
  else if kind_is t types_TArray || kind_is t types_TSlice then parse_array t s
  else Err.

(* the member loop of Parse; P is Parse itself (on one member and one string) *)
Section ParseMembers.
  Variable P : ioarg -> list (list N) -> res Z.
  Fixpoint parse_members (cs : list ioarg) (ins : list (list N)) (result : Z) (offset : nat) : res Z :=
    match cs with
    | [] => Ok result
    | arg :: cs' =>
        match ins with
        | [] => Err                                    (* excluded by the length test *)
        | s :: ins' =>
            match P arg [s] with
            | Ok input =>
                let b := i_bits (a_type arg) in
                parse_members cs' ins' (copy_bits result offset input b) (offset + b)%nat
            | Err => Err
            | Panic => Panic
            end
        end
    end.
End ParseMembers.

Fixpoint parse (io : ioarg) (inputs : list (list N)) {struct io} : res Z :=
  match io with
  | IOArg t [] =>
      match inputs with
      | [s] => parse_leaf t s
      | _ => Err
      end
  | IOArg t comp =>
      if negb (Nat.eqb (length inputs) (length comp)) then Err
      else parse_members (fun a => parse a) comp inputs 0 0%nat
  end.

(* ------------------------------------------------------------------ *)
(** * IOArg.Set (circuit/ioarg.go) *)

(* the Go values Set and Sizes distinguish *)
Inductive gin : Type :=
| GNil
| GBool (b : bool)
| GInt (z : Z)            (* int8 … uint64 with mathematical value z; uint64(v) = z mod 2^64 *)
| GBytes (l : list N)     (* []byte *)
| GOther.                 (* anything else (int, string, …) *)

Definition uint64_conv (z : Z) : Z := z mod 2 ^ 64.

(* -- setInt, the bit loop BEFORE 19f0a68 (regression record) -------------------------------
     for i := 0; i < 64; i++ { result.SetBit(result, ofs+i, uint((ival>>i)&0x1)) }  *)
Definition set_int_old (t : info) (result : Z) (z : Z) (ofs : nat) : Z :=
  copy_bits result ofs (uint64_conv z) 64.

(* -- setInt, the bit loop AS WRITTEN NOW (since 19f0a68) ----
     for i := 0; i < int(t.Bits); i++ {
         bit := uint(0); if i < 64 { bit = uint((ival>>i)&1) } else if neg { bit = 1 }
         result.SetBit(result, ofs+i, bit) }        neg: a signed Go value < 0 *)
Definition set_int_fixed (t : info) (result : Z) (z : Z) (ofs : nat) : Z :=
  fold_left (fun r i =>
               set_bit r (ofs + i)
                       (if (i <? 64)%nat then Z.testbit (uint64_conv z) (Z.of_nat i) else (z <? 0)))
            (seq 0 (i_bits t)) result.

Section SetGen.
  Variable SI : info -> Z -> Z -> nat -> Z.     (* the bit loop of setInt *)

  Definition set_int (t : info) (result : Z) (v : gin) (ofs : nat) : res (Z * nat) :=
    match v with
    | GInt z => Ok (SI t result z ofs, (ofs + i_bits t)%nat)
    | _ => Err
    end.

  Definition set_bool (result : Z) (v : gin) (ofs : nat) : res (Z * nat) :=
    match v with
    | GBool b => Ok (set_bit result ofs b, (ofs + 1)%nat)
    | _ => Err
    end.

  (* setIntArray's loop over the bytes *)
  Fixpoint set_bytes (el : info) (result : Z) (l : list N) (ofs : nat) : Z * nat :=
    match l with
    | [] => (result, ofs)
    | b :: l' => set_bytes el (SI el result (Z.of_N b) ofs) l' (ofs + i_bits el)%nat
    end.

  (* setArray + setIntArray: (number of values, result, ofs) *)
  Definition set_array (t : info) (result : Z) (v : gin) (ofs : nat) : res (nat * Z * nat) :=
    match i_elem t with
    | None => Panic
    | Some el =>
        if is_intkind el then
          match v with
          | GBytes l =>
              if (i_bits el <? 8)%nat then Err
              else let '(r, o) := set_bytes el result l ofs in Ok (length l, r, o)
          | GNil => Ok (O, result, ofs)
          | _ => Err
          end
        else Err
    end.

  (* the non-compound part of IOArg.set, one input value *)
  Definition set_leaf (t : info) (result : Z) (v : gin) (ofs : nat) : res (Z * nat) :=
    if is_intkind t then set_int t result v ofs
    else if kind_is t types_TBool then set_bool result v ofs
    else if kind_is t types_TArray then
      let count := i_asize t in
      if Nat.eqb count 0 then Ok (result, ofs)
      else match set_array t result v ofs with
           | Ok (c, r, _) =>
               if (count <? c)%nat then Err
               else match i_elem t with
                    | Some el => Ok (r, (ofs + count * i_bits el)%nat)
                    | None => Panic
                    end
           | Err => Err
           | Panic => Panic
           end
    else if kind_is t types_TSlice then
      let count := i_asize t in
      match set_array t result v ofs with
      | Ok (c, r, o) => if (count <? c)%nat then Err else Ok (r, o)
      | Err => Err
      | Panic => Panic
      end
    else Err.

  Section SetMembers.
    Variable S : ioarg -> Z -> list gin -> nat -> res (Z * nat).
    Fixpoint set_members (cs : list ioarg) (ins : list gin) (result : Z) (ofs : nat) : res (Z * nat) :=
      match cs with
      | [] => Ok (result, ofs)
      | arg :: cs' =>
          match ins with
          | [] => Err
          | v :: ins' =>
              match S arg result [v] ofs with
              | Ok (r, o) => set_members cs' ins' r o
              | Err => Err
              | Panic => Panic
              end
          end
      end.
  End SetMembers.

  (* IOArg.set *)
  Fixpoint set_at (io : ioarg) (result : Z) (inputs : list gin) (ofs : nat) {struct io}
    : res (Z * nat) :=
    match io with
    | IOArg t [] =>
        match inputs with
        | [v] => set_leaf t result v ofs
        | _ => Err
        end
    | IOArg t comp =>
        if negb (Nat.eqb (length inputs) (length comp)) then Err
        else set_members (fun a => set_at a) comp inputs result ofs
    end.

  (* IOArg.Set(nil, inputs) *)
  Definition set_gen (io : ioarg) (inputs : list gin) : res Z :=
    match set_at io 0 inputs 0%nat with
    | Ok (r, _) => Ok r
    | Err => Err
    | Panic => Panic
    end.

  (* IOArg.Set(result, inputs) with a caller-supplied destination.  [prev] is
     the content of *result before the call (None: result == nil).
         if result == nil { result = new(big.Int) } else { result.SetInt64(0) }
     both branches leave the value 0 in the destination before io.set runs. *)
  Definition set_dest (prev : option Z) : Z :=
    match prev with
    | None => 0          (* new(big.Int) *)
    | Some _ => 0        (* result.SetInt64(0) *)
    end.

  Definition set_into_gen (prev : option Z) (io : ioarg) (inputs : list gin) : res Z :=
    match set_at io (set_dest prev) inputs 0%nat with
    | Ok (r, _) => Ok r
    | Err => Err
    | Panic => Panic
    end.
End SetGen.

(* ------------------------------------------------------------------ *)
(** * Sizes, bitLen, InputSizes (circuit/ioarg.go) *)

(* -- bitLen BEFORE a0b0be5 (regression record):  for i := 63; i > 1; i-- { if v&(1<<i) != 0 { return i+1 } }; return 1
   [k] counts the remaining iterations, i = k + 1 *)
Fixpoint bit_len_loop (k : nat) (v : Z) : nat :=
  match k with
  | O => 1%nat
  | S k' => if Z.testbit v (Z.of_nat (k + 1)) then (k + 2)%nat else bit_len_loop k' v
  end.
Definition bit_len_old (v : Z) : nat := bit_len_loop 62 v.

(* -- bitLen AS WRITTEN NOW (since a0b0be5): for i := 63; i > 0; i-- *)
Fixpoint bit_len_loop_fixed (k : nat) (v : Z) : nat :=
  match k with
  | O => 1%nat
  | S k' => if Z.testbit v (Z.of_nat k) then (k + 1)%nat else bit_len_loop_fixed k' v
  end.
Definition bit_len_fixed (v : Z) : nat := bit_len_loop_fixed 63 v.

Section SizesGen.
  Variable BL : Z -> nat.
  Fixpoint sizes_gen (inputs : list gin) : res (list nat) :=
    match inputs with
    | [] => Ok []
    | v :: rest =>
        match (match v with
               | GNil => Some O
               | GBool _ => Some 1%nat
               | GInt z => Some (BL (uint64_conv z))
               | GBytes l => Some (length l * 8)%nat
               | GOther => None
               end) with
        | None => Err
        | Some n => bind (sizes_gen rest) (fun r => Ok (n :: r))
        end
    end.
End SizesGen.

(* decimal value of a digit string (strconv.Atoi on [[:digit:]]+) *)
Definition dec_value (ds : list N) : N := fold_left (fun a d => (a * 10 + (d - 48))%N) ds 0%N.

Fixpoint span_digits (s : list N) : list N * list N :=
  match s with
  | c :: rest => if is_digit c then let '(a, b) := span_digits rest in (c :: a, b) else ([], s)
  | [] => ([], [])
  end.

(* reHexInput: one or more decimal digits, the letter x, then zero or more hex digits, anchored at both ends: Some (m[1], m[2]) *)
Definition match_hex_input (s : list N) : option (list N * list N) :=
  let '(ds, rest) := span_digits s in
  match ds, rest with
  | _ :: _, c :: xs => if (c =? 120)%N && forallb is_xdigit xs then Some (ds, xs) else None
  | _, _ => None
  end.

Definition input_size (s : list N) : res nat :=
  if lN_eqb s s_underscore then Ok O
  else if mem_str s bool_false_spellings || mem_str s bool_true_spellings then Ok 1%nat
  else if has_prefix s_0x s then Ok ((length s - 2) * 4)%nat
  else match match_hex_input s with
       | Some (ds, xs) =>
           let count := dec_value ds in
           if (count <? 2 ^ 63)%N then Ok (N.to_nat count * length xs * 4)%nat
           else Err                                  (* strconv.Atoi: value out of range *)
       | None =>
           match set_string s with
           | Some z => Ok (bit_len z)
           | None => Err
           end
       end.

Fixpoint input_sizes (inputs : list (list N)) : res (list nat) :=
  match inputs with
  | [] => Ok []
  | s :: rest =>
      match input_size s with
      | Ok n => bind (input_sizes rest) (fun r => Ok (n :: r))
      | Err => Err
      | Panic => Panic
      end
  end.

(* ------------------------------------------------------------------ *)
(** * IO.Split (circuit/ioarg.go) *)

Definition split_one (inp : Z) (bit n : nat) : Z :=
  fold_left (fun r i => if Z.testbit inp (Z.of_nat (bit + i)) then set_bit r i true else r)
            (seq 0 n) 0.

Fixpoint split_from (io : list ioarg) (inp : Z) (bit : nat) : list Z :=
  match io with
  | [] => []
  | a :: rest =>
      let n := i_bits (a_type a) in
      split_one inp bit n :: split_from rest inp (bit + n)%nat
  end.
Definition split (io : list ioarg) (inp : Z) : list Z := split_from io inp 0%nat.

(* ------------------------------------------------------------------ *)
(** * mpc.Result (result.go) *)

(* the Go value returned *)
Inductive gout : Type :=
| OBool (b : bool)
| OInt (signed : bool) (w : nat) (z : Z)     (* int8…int64 / uint8…uint64 *)
| OBig (z : Z)                               (* *big.Int *)
| OStr (bytes : list N)                      (* string (its bytes) *)
| OSlice (ek ew : nat) (items : list gout)   (* []T, T = element kind/width, see [elem_go_type] *)
| OUnsupported.                              (* the default branch: a formatted message *)

(* Int.Uint64 / Int.Int64: the low 64 bits of |x|, the sign applied with wrap-around *)
Definition wrap_u (w : nat) (z : Z) : Z := z mod 2 ^ Z.of_nat w.
Definition wrap_s (w : nat) (z : Z) : Z :=
  (z + 2 ^ (Z.of_nat w - 1)) mod 2 ^ Z.of_nat w - 2 ^ (Z.of_nat w - 1).
Definition big_uint64 (x : Z) : Z := Z.abs x mod 2 ^ 64.
Definition big_int64 (x : Z) : Z :=
  wrap_s 64 (if x <? 0 then - (Z.abs x mod 2 ^ 64) else Z.abs x mod 2 ^ 64).

(* the Go integer width chosen for a bit size; 0 = *big.Int *)
Definition go_width (bits : nat) : nat :=
  if (bits <=? 8)%nat then 8%nat else if (bits <=? 16)%nat then 16%nat
  else if (bits <=? 32)%nat then 32%nat else if (bits <=? 64)%nat then 64%nat else O.

(* -- case types.TInt, the sign step BEFORE 8d9a986 (regression record)
     if result.Bit(bits-1) == 1 { tmp := 1<<bits; result.Sub(tmp, result); result.Neg(result) }
   returns (the value the conversions below read, the caller's big.Int afterwards) *)
Definition result_tint_old (bits : nat) (r : Z) : Z * Z :=
  if Z.testbit r (Z.of_nat bits - 1)
  then let r' := - (2 ^ Z.of_nat bits - r) in (r', r')
  else (r, r).

(* -- AS WRITTEN NOW (since 8d9a986): result = tmp.Sub(tmp, result); result.Neg(result)
   (the local variable is re-pointed to the fresh tmp; the caller's value is not written) *)
Definition result_tint_fixed (bits : nat) (r : Z) : Z * Z :=
  if Z.testbit r (Z.of_nat bits - 1)
  then (- (2 ^ Z.of_nat bits - r), r)
  else (r, r).

(* unicode.IsPrint for r < 256 (unicode/graphic.go, tables.go properties[]) *)
Definition is_print_latin1 (r : Z) : bool :=
  ((32 <=? r) && (r <=? 126)) || ((161 <=? r) && (r <=? 255) && negb (r =? 173)).

Definition hex_digit (d : Z) : N := if d <? 10 then Z.to_N (48 + d) else Z.to_N (97 + d - 10).

(* str += string(r) (UTF-8)  or  str += fmt.Sprintf("\\u%04x", r), for 0 <= r < 256;
   the backslash itself is escaped as well (\u005c), so every '\' of the output starts an escape *)
Definition string_rune (r : Z) : list N :=
  if is_print_latin1 r && negb (r =? 92) then      (* unicode.IsPrint(r) && r != '\\' (F44 repaired) *)
    if r <? 128 then [Z.to_N r]
    else [Z.to_N (192 + r / 64); Z.to_N (128 + r mod 64)]
  else [92%N; 117%N; 48%N; 48%N; hex_digit (r / 16); hex_digit (r mod 16)].

Section ResultGen.
  Variable TI : nat -> Z -> Z * Z.       (* the sign step of case TInt *)

  (* the cases of Result that are not arrays *)
  Definition result_scalar (t : info) (r : Z) : res (gout * Z) :=
    let bits := i_bits t in
    if kind_is t types_TString then
      Ok (OStr (flat_map (fun i => string_rune (Z.land (Z.shiftr r (Z.of_nat (i * 8))) 255))
                         (seq 0 (bits / 8))), r)
    else if kind_is t types_TUint then
      match go_width bits with
      | O => Ok (OBig r, r)
      | w => Ok (OInt false w (wrap_u w (big_uint64 r)), r)
      end
    else if kind_is t types_TInt then
      if Nat.eqb bits 0 then Panic                 (* result.Bit(-1): negative bit index *)
      else
        let '(v, r') := TI bits r in
        match go_width bits with
        | O => Ok (OBig v, r')
        | w => Ok (OInt true w (wrap_s w (big_int64 v)), r')
        end
    else if kind_is t types_TBool then Ok (OBool (negb (big_uint64 r =? 0)), r)
    else Ok (OUnsupported, r).

  (* elementType of the array case: Some (kind tag, width); None = reflect.TypeOf(nil),
     on which reflect.SliceOf panics.  tags: 1 bool, 2 intN, 3 uintN, 4 *big.Int, 5 string *)
  Definition elem_go_type (el : info) : option (nat * nat) :=
    if kind_is el types_TString then Some (5%nat, O)
    else if kind_is el types_TUint then
      match go_width (i_bits el) with O => Some (4%nat, O) | w => Some (3%nat, w) end
    else if kind_is el types_TInt then
      match go_width (i_bits el) with O => Some (4%nat, O) | w => Some (2%nat, w) end
    else if kind_is el types_TBool then Some (1%nat, O)
    else None.

  Fixpoint result_items (el : info) (r mask : Z) (elSize : nat) (idx : list nat) : res (list gout) :=
    match idx with
    | [] => Ok []
    | i :: rest =>
        match result_scalar el (Z.land (Z.shiftr r (Z.of_nat (i * elSize))) mask) with
        | Ok (v, _) => bind (result_items el r mask elSize rest) (fun l => Ok (v :: l))
        | Err => Err
        | Panic => Panic
        end
    end.

  (* mpc.Result(result, IOArg{Type: t}) = (Go value, *result afterwards) *)
  Definition result_gen (t : info) (r : Z) : res (gout * Z) :=
    if kind_is t types_TArray || kind_is t types_TSlice then
      match i_elem t with
      | None => Panic
      | Some el =>
          let count := i_asize t in
          let elSize := i_bits el in
          let mask := mask_of elSize in
          match elem_go_type el with
          | None => Panic
          | Some (ek, ew) =>
              match result_items el r mask elSize (seq 0 count) with
              | Ok items => Ok (OSlice ek ew items, r)
              | Err => Err
              | Panic => Panic
              end
          end
      end
    else result_scalar t r.
End ResultGen.

(* ------------------------------------------------------------------ *)
(** * types.Info.Concrete, InstantiateWithSizes (types/types.go) *)

Fixpoint concrete_of (t : info) : bool :=
  match t with
  | Info k _ _ _ fs c =>
      if Z.eqb k types_TStruct
      then (fix all (l : list info) : bool :=
              match l with [] => true | f :: l' => concrete_of f && all l' end) fs
      else c
  end.

Definition array_size_for (size elBits : nat) : nat := ceil_div size elBits.

(* the struct loop of InstantiateWithSizes: field idx is instantiated with
   sizes[idx:] (so a nested struct field does NOT consume the sizes of its own
   members for the fields that follow it); I is InstantiateWithSizes itself.
   Returns the instantiated fields and structBits. *)
Section InstFields.
  Variable I : info -> list nat -> res info.
  Fixpoint inst_fields (l : list info) (sz : list nat) (acc : nat) {struct l}
    : res (list info * nat) :=
    match l with
    | [] => Ok ([], acc)
    | f :: l' =>
        match sz with
        | [] => Err                                   (* idx >= len(sizes) *)
        | _ :: sz' =>
            match I f sz with
            | Ok f' =>
                match inst_fields l' sz' (acc + i_bits f')%nat with
                | Ok (r, tot) => Ok (f' :: r, tot)
                | Err => Err
                | Panic => Panic
                end
            | Err => Err
            | Panic => Panic
            end
        end
    end.
End InstFields.

(* InstantiateWithSizes *)
Fixpoint instantiate (t : info) (sizes : list nat) {struct t} : res info :=
  match t with
  | Info k b a e fs c =>
      match sizes with
      | [] => Err
      | s0 :: _ =>
          if Z.eqb k types_TBool then Ok (Info k b a e fs true)
          else if Z.eqb k types_TInt || Z.eqb k types_TUint || Z.eqb k types_TFloat then
            Ok (Info k (if c then b else s0) a e fs true)
          else if Z.eqb k types_TStruct then
            match inst_fields (fun f => instantiate f) fs sizes 0%nat with
            | Ok (fs', tot) => Ok (Info k tot a e fs' true)
            | Err => Err
            | Panic => Panic
            end
          else if Z.eqb k types_TArray then
            match e with
            | None => Panic
            | Some el =>
                if negb (concrete_of el) then Err
                else if concrete_of t then Ok (Info k b a e fs true)
                else if Nat.eqb (i_bits el) 0 then Panic
                else let n := array_size_for s0 (i_bits el) in
                     Ok (Info k (n * i_bits el) n e fs true)
            end
          else if Z.eqb k types_TSlice then
            match e with
            | None => Panic
            | Some el =>
                if negb (concrete_of el) then Err
                else if Nat.eqb (i_bits el) 0 then Panic
                else let n := array_size_for s0 (i_bits el) in
                     Ok (Info k (n * i_bits el) n e fs true)
            end
          else Err
      end
  end.

(* ------------------------------------------------------------------ *)
(** * Well-formed types: the Info that types.Parse / the compiler build *)

Inductive ty : Type :=
| TyBool
| TyInt (b : nat)
| TyUint (b : nat)
| TyString (b : nat)
| TyArray (e : ty) (n : nat)
| TySlice (e : ty) (n : nat)
| TyStruct (fs : list ty).

Fixpoint bits_of (t : ty) : nat :=
  match t with
  | TyBool => 1%nat
  | TyInt b | TyUint b | TyString b => b
  | TyArray e n | TySlice e n => (n * bits_of e)%nat
  | TyStruct fs => (fix sum (l : list ty) : nat :=
                      match l with [] => O | f :: l' => (bits_of f + sum l')%nat end) fs
  end.

Fixpoint info_of (t : ty) : info :=
  match t with
  | TyBool => Info types_TBool 1 0 None [] true
  | TyInt b => Info types_TInt b 0 None [] true
  | TyUint b => Info types_TUint b 0 None [] true
  | TyString b => Info types_TString b 0 None [] true
  | TyArray e n => Info types_TArray (n * bits_of e) n (Some (info_of e)) [] true
  | TySlice e n => Info types_TSlice (n * bits_of e) n (Some (info_of e)) [] true
  | TyStruct fs => Info types_TStruct (bits_of t) 0 None (map info_of fs) true
  end.

(* compiler/ast/package.go flattenStruct: the non-struct leaves in declaration order *)
Fixpoint leaves (t : ty) : list ty :=
  match t with
  | TyStruct fs => flat_map leaves fs
  | _ => [t]
  end.

Definition leaf_arg (t : ty) : ioarg := IOArg (info_of t) [].

(* the IOArg the compiler builds for a main() argument of type t *)
Definition ioarg_of (t : ty) : ioarg :=
  match t with
  | TyStruct _ => IOArg (info_of t) (map leaf_arg (leaves t))
  | _ => leaf_arg t
  end.

(* ------------------------------------------------------------------ *)
(** * NOW: what /repo contains at present *)

Definition set_int_now := set_int_fixed.             (* before 19f0a68: set_int_old *)
Definition result_tint_now := result_tint_fixed.     (* before 8d9a986: result_tint_old *)
Definition bit_len_now := bit_len_fixed.             (* before a0b0be5: bit_len_old *)

Definition set := set_gen set_int_now.
Definition set_into := set_into_gen set_int_now.
Definition sizes := sizes_gen bit_len_now.
Definition result := result_gen result_tint_now.

(* explicit names of the two versions (set = set_fixed etc. by definition) *)
Definition set_fixed := set_gen set_int_fixed.
Definition set_old := set_gen set_int_old.
Definition sizes_fixed := sizes_gen bit_len_fixed.
Definition sizes_old := sizes_gen bit_len_old.
Definition result_fixed := result_gen result_tint_fixed.
Definition result_old := result_gen result_tint_old.
