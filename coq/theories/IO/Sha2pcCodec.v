(* Sha2pcCodec.v — executable model of the sha2pc wire/state encodings
   (sha2pc/encoding.go, sha2pc/bits.go, constants of sha2pc/params.go) and of
   the four protocol rounds as a state machine (sha2pc/garbler.go,
   sha2pc/evaluator.go) with the cryptographic content opaque.

   bytes = list N (one N per byte).  Every function is total; the outcome type
   has three classes: Ok, Err (the Go function returns a non-nil error) and
   Panic (the Go function would hit a run-time panic: slice bounds / index out
   of range).  Raw Go slice expressions and index expressions are modelled by
   the *checked* [slice] / [index] below, which return Panic when the Go
   expression would; Sha2pcProof.v proves that no decoder reaches Panic on any
   byte string (the guards in front of the slices suffice).

   Elliptic-curve arithmetic is outside the model: points are pairs of
   integers, compressed-point decompression (elliptic.UnmarshalCompressed) is
   the Section variable [decompress].  No proofs here. *)
From Coq Require Import ZArith NArith List Bool Arith.
From Mpc Require Import Gen.Consts Base.Codec.
Import ListNotations.
Open Scope N_scope.

Notation bytes := (list N) (only parsing).

Inductive res (A : Type) : Type := Ok (a : A) | Err | Panic.
Arguments Ok {A} a.
Arguments Err {A}.
Arguments Panic {A}.

Definition bind {A B} (r : res A) (f : A -> res B) : res B :=
  match r with Ok a => f a | Err => Err | Panic => Panic end.
Notation "' pat <- c1 ;; c2" :=
  (bind c1 (fun x => match x with pat => c2 end))
  (at level 61, pat pattern, c1 at next level, right associativity).
Notation "x <- c1 ;; c2" := (bind c1 (fun x => c2))
  (at level 61, c1 at next level, right associativity).

Definition guard (b : bool) : res unit := if b then Ok tt else Err.

Fixpoint list_eqb {A} (eqb : A -> A -> bool) (a b : list A) : bool :=
  match a, b with
  | [], [] => true
  | x :: a', y :: b' => eqb x y && list_eqb eqb a' b'
  | _, _ => false
  end.
Definition bytes_eqb (a b : bytes) : bool := list_eqb N.eqb a b.

(* ---------- fixed-width big-endian integers by shifts ----------
   (binary.BigEndian.PutUint64/Uint64, big.Int.Bytes/SetBytes).  Equal to
   Base.Codec.be / of_be / N_to_bits on every argument (Sha2pcProof.v:
   be_s_be, of_be_s_of_be, byte_bits_N_to_bits); written with shifts so that
   the extracted model is linear in the field width. *)
Fixpoint be_s (k : nat) (x : N) : bytes :=
  match k with
  | O => []
  | S k' => be_s k' (N.shiftr x 8) ++ [N.land x 255]
  end.
Definition of_be_s (l : bytes) : N := fold_left (fun acc b => N.shiftl acc 8 + b) l 0.
Fixpoint byte_bits (k : nat) (x : N) : list bool :=
  match k with
  | O => []
  | S k' => N.odd x :: byte_bits k' (N.div2 x)
  end.

(* ---------- curves (crypto/elliptic P-224/P-256/P-384/P-521) ---------- *)
Inductive curve := P224 | P256 | P384 | P521.

Definition curve_eqb (a b : curve) : bool :=
  match a, b with
  | P224, P224 | P256, P256 | P384, P384 | P521, P521 => true
  | _, _ => false
  end.

(* curve.Params().BitSize *)
Definition bitSize (c : curve) : nat :=
  match c with P224 => 224 | P256 => 256 | P384 => 384 | P521 => 521 end%nat.

(* encoding.go curveByteLen: (BitSize + 7) / 8 *)
Definition byteLen (c : curve) : nat := ((bitSize c + 7) / 8)%nat.

(* curve.Params().Name as ASCII bytes: "P-224" "P-256" "P-384" "P-521" *)
Definition curve_name (c : curve) : bytes :=
  match c with
  | P224 => [80; 45; 50; 50; 52]
  | P256 => [80; 45; 50; 53; 54]
  | P384 => [80; 45; 51; 56; 52]
  | P521 => [80; 45; 53; 50; 49]
  end.

(* ---------- constants ---------- *)
(* encoding.go: magic strings *)
Definition magicRound1 : bytes := [82; 49].          (* "R1" *)
Definition magicRound2 : bytes := [82; 50].          (* "R2" *)
Definition magicRound3 : bytes := [82; 51].          (* "R3" *)
Definition magicGarblerSession : bytes := [71; 83].  (* "GS" *)
Definition magicEvalSession : bytes := [69; 83].     (* "ES" *)

(* params.go, through the regenerated Gen/Consts.v *)
Definition sessionIDBytes : nat := Z.to_nat sha2pc_sessionIDBytes.
Definition hashInputBitCount : nat := Z.to_nat sha2pc_hashInputBitCount.
Definition labelByteLen : nat := Z.to_nat sha2pc_labelByteLen.
Definition garblingKeyBytes : nat := Z.to_nat sha2pc_garblingKeyBytes.
Definition garbledTableLabelCount : nat := Z.to_nat sha2pc_garbledTableLabelCount.
Definition garbledTableByteLen : nat := Z.to_nat sha2pc_garbledTableByteLen.
Definition garblerInputLabelCount : nat := Z.to_nat sha2pc_garblerInputLabelCount.
Definition garblerInputLabelBytes : nat := Z.to_nat sha2pc_garblerInputLabelBytes.
Definition evaluatorCiphertextCount : nat := Z.to_nat sha2pc_evaluatorCiphertextCount.
Definition ciphertextBytes : nat := Z.to_nat sha2pc_ciphertextBytes.
Definition outputHintCount : nat := Z.to_nat sha2pc_outputHintCount.
Definition outputHintBytes : nat := Z.to_nat sha2pc_outputHintBytes.
Definition evaluatorChoiceSignBytes : nat := Z.to_nat sha2pc_evaluatorChoiceSignBytes.
Definition chunkSizeLimit : N := Z.to_N sha2pc_chunkSizeLimit.

(* params.go round3PayloadLen *)
Definition round3PayloadLen : nat :=
  (length magicRound3 + sessionIDBytes + garblingKeyBytes + garbledTableByteLen
   + garblerInputLabelBytes + outputHintBytes + ciphertextBytes)%nat.

(* ---------- bits.go ---------- *)
(* bytesToBitsLittle: bit k of byte i is element 8*i+k *)
Definition bytesToBitsLittle (data : bytes) : list bool :=
  flat_map (fun b => byte_bits 8 b) data.

(* bitsToBytesLittle: (len+7)/8 bytes, bit idx goes to byte idx/8 bit idx%8 *)
Fixpoint bitsToBytesLittle (bits : list bool) : bytes :=
  match bits with
  | b0 :: b1 :: b2 :: b3 :: b4 :: b5 :: b6 :: b7 :: t =>
      bits_to_N [b0; b1; b2; b3; b4; b5; b6; b7] :: bitsToBytesLittle t
  | [] => []
  | l => [bits_to_N l]
  end.

(* ---------- checked Go slice / index expressions ---------- *)
(* data[lo:hi] *)
Definition slice (data : bytes) (lo hi : nat) : res bytes :=
  if (lo <=? hi)%nat && (hi <=? length data)%nat
  then Ok (firstn (hi - lo) (skipn lo data)) else Panic.
(* data[i] *)
Definition index (data : bytes) (i : nat) : res N :=
  match nth_error data i with Some b => Ok b | None => Panic end.

(* ---------- bytes.Reader / io.ReadFull / encoding/binary ---------- *)
(* a reader is the list of unread bytes *)

(* io.ReadFull(r, buf) with len(buf) = k; k = 0 never fails *)
Definition read_full (k : nat) (r : bytes) : res (bytes * bytes) :=
  if (k <=? length r)%nat then Ok (firstn k r, skipn k r) else Err.

(* binary.PutUvarint *)
Fixpoint put_uvarint_fuel (fuel : nat) (x : N) : bytes :=
  match fuel with
  | O => []
  | S f => if x <? 128 then [x] else (N.lor (N.land x 127) 128) :: put_uvarint_fuel f (N.shiftr x 7)
  end.
Definition put_uvarint (x : N) : bytes := put_uvarint_fuel 10 x.

(* binary.ReadUvarint: at most MaxVarintLen64 = 10 bytes, the tenth at most 1 *)
Fixpoint read_uvarint_from (i fuel : nat) (x s : N) (r : bytes) : res (N * bytes) :=
  match fuel with
  | O => Err                                   (* errOverflow *)
  | S f =>
      match r with
      | [] => Err                              (* io.EOF / io.ErrUnexpectedEOF *)
      | b :: r' =>
          if b <? 128 then
            if (i =? 9)%nat && (1 <? b) then Err
            else Ok (N.lor x (N.shiftl b s), r')
          else read_uvarint_from (S i) f (N.lor x (N.shiftl (N.land b 127) s)) (s + 7) r'
      end
  end.
Definition read_uvarint (r : bytes) : res (N * bytes) := read_uvarint_from 0 10 0 0 r.

(* encoding.go writeChunk / readChunk *)
Definition write_chunk (data : bytes) : bytes :=
  put_uvarint (N.of_nat (length data)) ++ data.

Definition read_chunk (r : bytes) : res (bytes * bytes) :=
  '(n, r1) <- read_uvarint r ;;
  (* before - r.Len() != PutUvarint(scratch, length): not minimally encoded *)
  _ <- guard (length r - length r1 =? length (put_uvarint n))%nat ;;
  (* "length > chunkSizeLimit" on the uint64 value, then "int64(length) >
     int64(r.Len())" (length <= 2^20 by then): unsigned comparisons, in N here;
     every value up to 2^64-1 above the limit or the remaining bytes is an
     error, in particular the ones >= 2^63 (Sha2pcProof.read_chunk_rejects_large) *)
  if chunkSizeLimit <? n then Err
  else if N.of_nat (length r1) <? n then Err
  else match r1 with
       | [] => Err                             (* r.Read(data) at EOF, n = 0 *)
       | _ => Ok (firstn (N.to_nat n) r1, skipn (N.to_nat n) r1)
       end.

(* "if reader.Len() != 0 { error: trailing bytes }" *)
Definition no_trailing (r : bytes) : res unit := guard (length r =? 0)%nat.

(* encoding.go writeFixedBigInt: copy(tmp[byteLen-len(value):], value) panics
   when v.Bytes() is longer than byteLen, i.e. v >= 256^byteLen *)
Definition write_fixed (bl : nat) (v : N) : res bytes :=
  if 256 ^ N.of_nat bl <=? v then Panic else Ok (be_s bl v).

(* encoding.go readFixedBigInt *)
Definition read_fixed (bl : nat) (r : bytes) : res (N * bytes) :=
  '(b, r') <- read_full bl r ;; Ok (of_be_s b, r').

Fixpoint write_fixed_list (bl : nat) (vs : list N) : res bytes :=
  match vs with
  | [] => Ok []
  | v :: t => b <- write_fixed bl v ;; bt <- write_fixed_list bl t ;; Ok (b ++ bt)
  end.

Fixpoint read_fixed_list (bl : nat) (k : nat) (r : bytes) : res (list N * bytes) :=
  match k with
  | O => Ok ([], r)
  | S k' => '(v, r1) <- read_fixed bl r ;; '(vs, r2) <- read_fixed_list bl k' r1 ;; Ok (v :: vs, r2)
  end.

(* consecutive fixed-width big-endian fields of a buffer whose length the
   caller has checked to be a multiple: bytes.Reader.Read into a w-byte array,
   or data[i*w:(i+1)*w] *)
Fixpoint split_be (w : nat) (k : nat) (data : bytes) : list N :=
  match k with
  | O => []
  | S k' => of_be_s (firstn w data) :: split_be w k' (skipn w data)
  end.

Fixpoint pairs (l : list N) : list (N * N) :=
  match l with
  | a :: b :: t => (a, b) :: pairs t
  | _ => []
  end.
Definition unpairs (l : list (N * N)) : list N := flat_map (fun p => [fst p; snd p]) l.

(* ====================================================================== *)
(* messages and states (sha2pc/roundtypes.go, garbler.go, evaluator.go,
   ot/co_helpers.go)                                                      *)

Record round1 := mkR1 { r1_sid : N; r1_name : bytes; r1_ax : N; r1_ay : N }.

Record round2 := mkR2 { r2_sid : N; r2_name : bytes; r2_choices : list (N * N) }.

(* GarbledTables is [][]ot.Label with one row per gate of the embedded
   circuit (0/1/2/3 labels by gate kind); the circuit is not in Coq, the model
   carries the rows concatenated in gate order.  Labels are 128-bit numbers
   (D0 high), ciphertext halves 16-byte strings read big-endian. *)
Record round3 := mkR3 {
  r3_sid : N; r3_key : bytes; r3_tables : list N; r3_inputs : list N;
  r3_hints : list (N * N); r3_cts : list (N * N) }.

Record gsession := mkGS {
  gs_sid : N; gs_name : bytes; gs_scalar : N; gs_ax : N; gs_ay : N;
  gs_ainvx : N; gs_ainvy : N }.

Record esession := mkES {
  es_sid : N; es_name : bytes; es_ax : N; es_ay : N;
  es_scalars : list N; es_bits : list bool }.

(* "if CurveName == "" { CurveName = name }; if CurveName != name { error }" *)
Definition check_name (c : curve) (name : bytes) : res bytes :=
  let name' := match name with [] => curve_name c | _ => name end in
  if bytes_eqb name' (curve_name c) then Ok name' else Err.

(* ---------- Round 1 ---------- *)
(* encodeOTSetup *)
Definition encodeOTSetup (c : curve) (name : bytes) (ax ay : N) : res bytes :=
  name' <- check_name c name ;;
  bx <- write_fixed (byteLen c) ax ;;
  by_ <- write_fixed (byteLen c) ay ;;
  Ok (write_chunk name' ++ bx ++ by_).

Definition EncodeRound1 (c : curve) (p : round1) : res bytes :=
  ot <- encodeOTSetup c (r1_name p) (r1_ax p) (r1_ay p) ;;
  Ok (magicRound1 ++ be_s 8 (r1_sid p) ++ ot).

(* decodeOTSetup *)
Definition decodeOTSetup (c : curve) (r : bytes) : res (bytes * N * N * bytes) :=
  '(name, r1) <- read_chunk r ;;
  _ <- guard (bytes_eqb name (curve_name c)) ;;
  '(x, r2) <- read_fixed (byteLen c) r1 ;;
  '(y, r3) <- read_fixed (byteLen c) r2 ;;
  Ok (name, x, y, r3).

(* DecodeRound1 *)
Definition DecodeRound1 (c : curve) (data : bytes) : res round1 :=
  '(magic, r1) <- read_full 2 data ;;
  _ <- guard (bytes_eqb magic magicRound1) ;;
  '(sid, r2) <- read_full 8 r1 ;;
  '(name, x, y, rest) <- decodeOTSetup c r2 ;;
  _ <- guard (bytes_eqb name (curve_name c)) ;;
  _ <- no_trailing rest ;;
  Ok (mkR1 (of_be_s sid) name x y).

(* ---------- Round 2 ---------- *)
(* packPointSigns: parity of Y of point i in bit i%8 of byte i/8 *)
Definition packPointSigns (pts : list (N * N)) : bytes :=
  bitsToBytesLittle (map (fun p => N.odd (snd p)) pts).

(* pointSign: signs[idx/8] is an unguarded index expression *)
Definition pointSign (signs : bytes) (idx : nat) : res bool :=
  match signs with
  | [] => Ok false
  | _ => b <- index signs (idx / 8) ;; Ok (N.testbit b (N.of_nat (idx mod 8)))
  end.

(* encodePoints *)
Definition encodePoints (c : curve) (pts : list (N * N)) : res bytes :=
  _ <- guard (length pts =? evaluatorCiphertextCount)%nat ;;
  xs <- write_fixed_list (byteLen c) (map fst pts) ;;
  let signs := packPointSigns pts in
  _ <- guard (length signs =? evaluatorChoiceSignBytes)%nat ;;
  Ok (xs ++ signs).

(* EncodeRound2: the payload's CurveName field is not consulted *)
Definition EncodeRound2 (c : curve) (p : round2) : res bytes :=
  pts <- encodePoints c (r2_choices p) ;;
  Ok (magicRound2 ++ be_s 8 (r2_sid p) ++ write_chunk (curve_name c) ++ pts).

Section Decompress.
  (* elliptic.UnmarshalCompressed(curve, 0x02|0x03 ‖ X): None = not a point *)
  Variable decompress : curve -> N -> bool -> option (N * N).

  (* decodePoints: first loop data[offset:offset+byteLen], second loop
     pointSign + UnmarshalCompressed *)
  Fixpoint decodePoints_xs (bl : nat) (k : nat) (offset : nat) (data : bytes) : res (list N) :=
    match k with
    | O => Ok []
    | S k' => b <- slice data offset (offset + bl) ;;
              t <- decodePoints_xs bl k' (offset + bl) data ;;
              Ok (of_be_s b :: t)
    end.

  Fixpoint decodePoints_pts (c : curve) (signs : bytes) (i : nat) (xs : list N) : res (list (N * N)) :=
    match xs with
    | [] => Ok []
    | x :: t =>
        odd <- pointSign signs i ;;
        match decompress c x odd with
        | None => Err
        | Some p => ps <- decodePoints_pts c signs (S i) t ;; Ok (p :: ps)
        end
    end.

  Definition decodePoints (c : curve) (data : bytes) : res (list (N * N)) :=
    let bl := byteLen c in
    let expected := (evaluatorCiphertextCount * bl + evaluatorChoiceSignBytes)%nat in
    _ <- guard (length data =? expected)%nat ;;
    xs <- decodePoints_xs bl evaluatorCiphertextCount 0 data ;;
    signs <- slice data (evaluatorCiphertextCount * bl) (length data) ;;
    decodePoints_pts c signs 0 xs.

  Definition DecodeRound2 (c : curve) (data : bytes) : res round2 :=
    '(magic, r1) <- read_full 2 data ;;
    _ <- guard (bytes_eqb magic magicRound2) ;;
    '(sid, r2) <- read_full 8 r1 ;;
    '(name, rest) <- read_chunk r2 ;;
    _ <- guard (bytes_eqb name (curve_name c)) ;;
    pts <- decodePoints c rest ;;
    Ok (mkR2 (of_be_s sid) name pts).
End Decompress.

(* ---------- Round 3 ---------- *)
Definition encodeLabelList (ls : list N) : bytes := flat_map (be_s 16) ls.

(* The Round3 codec is written over its size parameters (so that the proofs
   never evaluate the 686624-byte table size in unary) and instantiated with
   the constants of params.go below. *)
Section R3Gen.
  Variables (kSid kKey wLab nTabB nTab nInB nIn nHintB nHint nCtB nCt total : nat).

  (* encodeGarbledTables (flattened rows), encodeLabels, encodeOutputHints,
     encodeCiphertexts, then the total-length check of EncodeRound3 *)
  Definition EncodeRound3_gen (p : round3) : res bytes :=
    _ <- guard (length (r3_tables p) =? nTab)%nat ;;
    _ <- guard (length (r3_inputs p) =? nIn)%nat ;;
    _ <- guard (length (r3_hints p) =? nHint)%nat ;;
    _ <- guard (length (r3_cts p) =? nCt)%nat ;;
    let out := magicRound3 ++ be_s 8 (r3_sid p) ++ r3_key p
               ++ encodeLabelList (r3_tables p) ++ encodeLabelList (r3_inputs p)
               ++ encodeLabelList (unpairs (r3_hints p)) ++ encodeLabelList (unpairs (r3_cts p)) in
    _ <- guard (length out =? total)%nat ;;
    Ok out.

  (* decodeGarbledTables / decodeLabels / decodeOutputHints / decodeCiphertexts:
     each re-checks the exact length of the sub-slice it is given *)
  Definition decodeLabelBlock (nbytes count : nat) (data : bytes) : res (list N) :=
    _ <- guard (length data =? nbytes)%nat ;;
    Ok (split_be wLab count data).

  Definition DecodeRound3_gen (data : bytes) : res round3 :=
    _ <- guard (length data =? total)%nat ;;
    let offset := 0%nat in
    magic <- slice data offset (offset + length magicRound3) ;;
    _ <- guard (bytes_eqb magic magicRound3) ;;
    let offset := (offset + length magicRound3)%nat in
    sid <- slice data offset (offset + kSid) ;;
    let offset := (offset + kSid)%nat in
    key <- slice data offset (offset + kKey) ;;
    let offset := (offset + kKey)%nat in
    let end_ := (offset + nTabB)%nat in
    tb <- slice data offset end_ ;;
    tables <- decodeLabelBlock nTabB nTab tb ;;
    let offset := end_ in
    let end_ := (offset + nInB)%nat in
    ib <- slice data offset end_ ;;
    inputs <- decodeLabelBlock nInB (nInB / wLab) ib ;;
    let offset := end_ in
    let end_ := (offset + nHintB)%nat in
    hb <- slice data offset end_ ;;
    hints <- decodeLabelBlock nHintB (2 * nHint) hb ;;
    let offset := end_ in
    let end_ := (offset + nCtB)%nat in
    cb <- slice data offset end_ ;;
    cts <- decodeLabelBlock nCtB (2 * nCt) cb ;;
    Ok (mkR3 (of_be_s sid) key tables inputs (pairs hints) (pairs cts)).
End R3Gen.

Definition EncodeRound3 : round3 -> res bytes :=
  (* nTab nIn nHint nCt total *)
  EncodeRound3_gen garbledTableLabelCount garblerInputLabelCount outputHintCount
                   evaluatorCiphertextCount round3PayloadLen.

Definition DecodeRound3 : bytes -> res round3 :=
  (* kSid kKey wLab nTabB nTab nInB nHintB nHint nCtB nCt total *)
  DecodeRound3_gen sessionIDBytes garblingKeyBytes labelByteLen garbledTableByteLen garbledTableLabelCount
                   garblerInputLabelBytes outputHintBytes outputHintCount
                   ciphertextBytes evaluatorCiphertextCount round3PayloadLen.

(* ---------- garbler session ---------- *)
(* encodeCOSenderSetup *)
Definition encodeCOSenderSetup (c : curve) (s : gsession) : res bytes :=
  name' <- check_name c (gs_name s) ;;
  fs <- write_fixed_list (byteLen c) [gs_scalar s; gs_ax s; gs_ay s; gs_ainvx s; gs_ainvy s] ;;
  Ok (write_chunk name' ++ fs).

Definition EncodeGarblerSession (c : curve) (s : gsession) : res bytes :=
  setup <- encodeCOSenderSetup c s ;;
  Ok (magicGarblerSession ++ be_s 8 (gs_sid s) ++ write_chunk setup).

(* decodeCOSenderSetup: a fresh reader over the chunk *)
Definition decodeCOSenderSetup (c : curve) (sid : N) (data : bytes) : res gsession :=
  '(name, r1) <- read_chunk data ;;
  _ <- guard (bytes_eqb name (curve_name c)) ;;
  '(fs, rest) <- read_fixed_list (byteLen c) 5 r1 ;;
  _ <- no_trailing rest ;;
  match fs with
  | [s; ax; ay; ix; iy] => Ok (mkGS sid name s ax ay ix iy)
  | _ => Err
  end.

Definition DecodeGarblerSession (c : curve) (data : bytes) : res gsession :=
  '(magic, r1) <- read_full 2 data ;;
  _ <- guard (bytes_eqb magic magicGarblerSession) ;;
  '(sid, r2) <- read_full 8 r1 ;;
  '(chunk, rest) <- read_chunk r2 ;;
  _ <- no_trailing rest ;;
  decodeCOSenderSetup c (of_be_s sid) chunk.

(* ---------- evaluator session ---------- *)
(* encodeChoiceBundle *)
Definition encodeChoiceBundle (c : curve) (s : esession) : res bytes :=
  name' <- check_name c (es_name s) ;;
  a <- write_fixed_list (byteLen c) [es_ax s; es_ay s] ;;
  _ <- guard (length (es_scalars s) =? evaluatorCiphertextCount)%nat ;;
  _ <- guard (length (es_bits s) =? evaluatorCiphertextCount)%nat ;;
  ss <- write_fixed_list (byteLen c) (es_scalars s) ;;
  let bitBytes := bitsToBytesLittle (es_bits s) in
  _ <- guard (length bitBytes =? evaluatorChoiceSignBytes)%nat ;;
  Ok (write_chunk name' ++ a ++ ss ++ bitBytes).

Definition EncodeEvaluatorSession (c : curve) (s : esession) : res bytes :=
  data <- encodeChoiceBundle c s ;;
  Ok (magicEvalSession ++ be_s 8 (es_sid s) ++ write_chunk data).

(* decodeChoiceBundle *)
Definition decodeChoiceBundle (c : curve) (sid : N) (data : bytes) : res esession :=
  '(name, r1) <- read_chunk data ;;
  _ <- guard (bytes_eqb name (curve_name c)) ;;
  '(a, r2) <- read_fixed_list (byteLen c) 2 r1 ;;
  '(scalars, r3) <- read_fixed_list (byteLen c) evaluatorCiphertextCount r2 ;;
  '(raw, rest) <- read_full evaluatorChoiceSignBytes r3 ;;
  _ <- no_trailing rest ;;
  let bits := bytesToBitsLittle raw in
  _ <- guard (evaluatorCiphertextCount <=? length bits)%nat ;;
  Ok (mkES sid name (nth 0 a 0) (nth 1 a 0) scalars (firstn evaluatorCiphertextCount bits)).

Definition DecodeEvaluatorSession (c : curve) (data : bytes) : res esession :=
  '(magic, r1) <- read_full 2 data ;;
  _ <- guard (bytes_eqb magic magicEvalSession) ;;
  '(sid, r2) <- read_full 8 r1 ;;
  '(chunk, rest) <- read_chunk r2 ;;
  _ <- no_trailing rest ;;
  decodeChoiceBundle c (of_be_s sid) chunk.

(* ====================================================================== *)
(* op histories over a store of returned byte strings.  A process that keeps
   several sessions alive calls the encoders several times and holds every
   returned []byte (checkpoints, messages not yet sent) before decoding any of
   them.  [HEnc v] appends Encode v to the store, [HDec j] decodes slot j with
   the decoder of the kind that was stored there.  In this pure model a stored
   byte string cannot change afterwards; the Go encoders must behave the same
   (a returned slice must be owned by the caller, not alias a reused buffer). *)
Inductive value :=
| VR1 (m : round1) | VR2 (m : round2) | VR3 (m : round3) | VGS (s : gsession) | VES (s : esession).
Inductive vkind := KR1 | KR2 | KR3 | KGS | KES.
Definition kind_of (v : value) : vkind :=
  match v with VR1 _ => KR1 | VR2 _ => KR2 | VR3 _ => KR3 | VGS _ => KGS | VES _ => KES end.

Inductive hop := HEnc (v : value) | HDec (slot : nat).

Section History.
  Variable decompress : curve -> N -> bool -> option (N * N).
  Variable c : curve.

  Definition encode_value (v : value) : res bytes :=
    match v with
    | VR1 m => EncodeRound1 c m
    | VR2 m => EncodeRound2 c m
    | VR3 m => EncodeRound3 m
    | VGS s => EncodeGarblerSession c s
    | VES s => EncodeEvaluatorSession c s
    end.

  Definition decode_kind (k : vkind) (b : bytes) : res value :=
    match k with
    | KR1 => m <- DecodeRound1 c b ;; Ok (VR1 m)
    | KR2 => m <- DecodeRound2 decompress c b ;; Ok (VR2 m)
    | KR3 => m <- DecodeRound3 b ;; Ok (VR3 m)
    | KGS => s <- DecodeGarblerSession c b ;; Ok (VGS s)
    | KES => s <- DecodeEvaluatorSession c b ;; Ok (VES s)
    end.

  Definition decode_slot (store : list (vkind * res bytes)) (j : nat) : res value :=
    match nth_error store j with
    | Some (k, Ok b) => decode_kind k b
    | Some (_, Err) => Err
    | Some (_, Panic) => Panic
    | None => Err
    end.

  (* one result per HDec op, in order *)
  Fixpoint run_history (store : list (vkind * res bytes)) (ops : list hop) : list (res value) :=
    match ops with
    | [] => []
    | HEnc v :: t => run_history (store ++ [(kind_of v, encode_value v)]) t
    | HDec j :: t => decode_slot store j :: run_history store t
    end.

  (* the store after the ops (what the Enc ops returned) *)
  Fixpoint history_store (store : list (vkind * res bytes)) (ops : list hop) : list (vkind * res bytes) :=
    match ops with
    | [] => store
    | HEnc v :: t => history_store (store ++ [(kind_of v, encode_value v)]) t
    | HDec _ :: t => history_store store t
    end.
End History.

(* ====================================================================== *)
(* the four rounds (garbler.go, evaluator.go); cryptographic content opaque *)

Section Rounds.
  Variable RND : Type.            (* a randomness source (io.Reader contents) *)
  Variable c : curve.

  (* ot.GenerateCOSenderSetup: scalar a, A = g^a, A^{-a} *)
  Variable gen_sender : RND -> N * (N * N) * (N * N).
  (* the 8 bytes read after it *)
  Variable read_sid : RND -> N.
  (* ot.BuildCOChoices: Err when A is not on the curve; scalars and points *)
  Variable build_choices : RND -> N -> N -> list bool -> res (list N * list (N * N)).
  (* the 32 key bytes, then Circuit.Garble(rng, key): wire label pairs of the
     garbler inputs, evaluator inputs, outputs; flattened table rows *)
  Variable read_key : RND -> bytes.
  Variable garble_circ : RND -> bytes ->
    res (list (N * N) * list (N * N) * list (N * N) * list N).
  (* ot.EncryptCOCiphertexts *)
  Variable encrypt_co : gsession -> list (N * N) -> list (N * N) -> res (list (N * N)).
  (* ot.DecryptCOCiphertexts *)
  Variable decrypt_co : esession -> list (N * N) -> res (list N).
  (* Circuit.Eval(key, garbler labels ‖ evaluator labels ‖ 0.., tables):
     labels of the output wires *)
  Variable eval_circ : bytes -> list N -> list N -> list N -> res (list N).

  Definition pick2 (w : N * N) (b : bool) : N := if b then snd w else fst w.

  (* GarblerRound1 *)
  Definition GarblerRound1 (rng : RND) : round1 * gsession :=
    let '(a, (ax, ay), (ix, iy)) := gen_sender rng in
    let sid := read_sid rng in
    (mkR1 sid (curve_name c) ax ay, mkGS sid (curve_name c) a ax ay ix iy).

  (* EvaluatorRound2 *)
  Definition EvaluatorRound2 (rng : RND) (msg : round1) (b : bytes) : res (round2 * esession) :=
    _ <- guard (bytes_eqb (r1_name msg) (curve_name c)) ;;
    let bits := bytesToBitsLittle b in
    _ <- guard (length bits =? hashInputBitCount)%nat ;;
    '(scalars, points) <- build_choices rng (r1_ax msg) (r1_ay msg) bits ;;
    Ok (mkR2 (r1_sid msg) (curve_name c) points,
        mkES (r1_sid msg) (curve_name c) (r1_ax msg) (r1_ay msg) scalars bits).

  (* GarblerRound3 *)
  Definition GarblerRound3 (rng : RND) (st : gsession) (a : bytes) (req : round2) : res round3 :=
    _ <- guard (r2_sid req =? gs_sid st) ;;
    let key := read_key rng in
    '(gin, ein, outw, tables) <- garble_circ rng key ;;
    let bits := bytesToBitsLittle a in
    _ <- guard (length bits =? hashInputBitCount)%nat ;;
    let garblerLabels := map (fun p => pick2 (fst p) (snd p)) (combine gin bits) in
    cts <- encrypt_co st (r2_choices req) ein ;;
    Ok (mkR3 (gs_sid st) key tables garblerLabels outw cts).

  (* circuit.BitFromLabel *)
  Definition bitFromLabel (w : N * N) (l : N) : res bool :=
    if l =? fst w then Ok false else if l =? snd w then Ok true else Err.

  Fixpoint decode_outputs (hints : list (N * N)) (ls : list N) : res (list bool) :=
    match hints with
    | [] => Ok []
    | w :: ws =>
        b <- bitFromLabel w (hd 0 ls) ;;
        bs <- decode_outputs ws (tl ls) ;;
        Ok (b :: bs)
    end.

  (* EvaluatorRound4 *)
  Definition EvaluatorRound4 (st : esession) (msg : round3) : res bytes :=
    _ <- guard (negb (length (es_scalars st) =? 0)%nat) ;;
    _ <- guard (r3_sid msg =? es_sid st) ;;
    labels <- decrypt_co st (r3_cts msg) ;;
    outl <- eval_circ (r3_key msg) (r3_inputs msg) labels (r3_tables msg) ;;
    _ <- guard (length (r3_hints msg) =? outputHintCount)%nat ;;
    outputBits <- decode_outputs (r3_hints msg) outl ;;
    let out := bitsToBytesLittle outputBits in
    _ <- guard (length out =? 32)%nat ;;
    Ok out.

  (* ---- a complete run in which every message crosses the wire encoded, and
     either party may be restarted from its serialised session at any round
     boundary: [gs_restarts] = number of times the garbler's session goes
     through Encode/Decode between rounds 1 and 3, [es_restarts] likewise for
     the evaluator between rounds 2 and 4; [wire] = messages are serialised *)
  Variable decompress : curve -> N -> bool -> option (N * N).

  Fixpoint iter_res {A} (n : nat) (f : A -> res A) (a : A) : res A :=
    match n with O => Ok a | S n' => a' <- f a ;; iter_res n' f a' end.

  Definition thru_gs (s : gsession) : res gsession :=
    b <- EncodeGarblerSession c s ;; DecodeGarblerSession c b.
  Definition thru_es (s : esession) : res esession :=
    b <- EncodeEvaluatorSession c s ;; DecodeEvaluatorSession c b.
  Definition thru_r1 (m : round1) : res round1 := b <- EncodeRound1 c m ;; DecodeRound1 c b.
  Definition thru_r2 (m : round2) : res round2 := b <- EncodeRound2 c m ;; DecodeRound2 decompress c b.
  Definition thru_r3 (m : round3) : res round3 := b <- EncodeRound3 m ;; DecodeRound3 b.

  Definition opt_thru {A} (on : bool) (f : A -> res A) (a : A) : res A := if on then f a else Ok a.

  (* restart points: g1 = garbler restarted after round 1 (before round 2
     arrives), g2 = garbler restarted after round 2 (before round 3), e2 =
     evaluator restarted after round 2, e3 = evaluator restarted after round 3
     arrives; w1 w2 w3 = the message crosses the wire in encoded form *)
  Definition run_protocol (g1 g2 e2 e3 : nat) (w1 w2 w3 : bool)
             (rg1 re2 rg3 : RND) (a b : bytes) : res bytes :=
    let '(m1, gs) := GarblerRound1 rg1 in
    gs <- iter_res g1 thru_gs gs ;;
    m1 <- opt_thru w1 thru_r1 m1 ;;
    '(m2, es) <- EvaluatorRound2 re2 m1 b ;;
    es <- iter_res e2 thru_es es ;;
    m2 <- opt_thru w2 thru_r2 m2 ;;
    gs <- iter_res g2 thru_gs gs ;;
    m3 <- GarblerRound3 rg3 gs a m2 ;;
    m3 <- opt_thru w3 thru_r3 m3 ;;
    es <- iter_res e3 thru_es es ;;
    EvaluatorRound4 es m3.
End Rounds.
