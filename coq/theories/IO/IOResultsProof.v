(* IO/IOResultsProof.v — theorems about IO/IOResults.v (property C13):
   mpc.Results is mpc.Result per output (exactly when it returns), is pure and
   repeatable, returns the raw values for nil outputs, panics exactly when the
   outputs list is too short; the runners' pipeline Outputs.Split -> Results
   inverts IOArg.Parse and IOArg.Set for whole output lists; IO.Size; the text
   mpc.PrintResults prints with the default base reads back as the value. *)
From Coq Require Import ZArith NArith List Bool Lia.
From Mpc Require Import Gen.Consts IO.IOArg IO.IOArgProof IO.IOResults.
Import ListNotations.
Open Scope Z_scope.

(* ------------------------------------------------------------------ *)
(** * mpc.Result never returns an error (it has no error result in Go) *)

Lemma result_scalar_not_err TI t r : result_scalar TI t r <> Err.
Proof.
  unfold result_scalar.
  destruct (kind_is t types_TString); [discriminate|].
  destruct (kind_is t types_TUint); [destruct (go_width (i_bits t)); discriminate|].
  destruct (kind_is t types_TInt).
  { destruct (Nat.eqb (i_bits t) 0); [discriminate|]. destruct (TI (i_bits t) r).
    destruct (go_width (i_bits t)); discriminate. }
  destruct (kind_is t types_TBool); discriminate.
Qed.

Lemma result_items_not_err TI el r mask e : forall idx, result_items TI el r mask e idx <> Err.
Proof.
  induction idx as [|i idx IH]; simpl; [discriminate|].
  destruct (result_scalar TI el _) as [[v a]| |] eqn:E.
  - destruct (result_items TI el r mask e idx); simpl; try discriminate. contradiction.
  - exfalso. exact (result_scalar_not_err _ _ _ E).
  - discriminate.
Qed.

Lemma result_gen_not_err TI t r : result_gen TI t r <> Err.
Proof.
  unfold result_gen. destruct (kind_is t types_TArray || kind_is t types_TSlice).
  - destruct (i_elem t) as [el|]; [|discriminate].
    destruct (elem_go_type el) as [[ek ew]|]; [|discriminate].
    destruct (result_items _ _ _ _ _ _) eqn:E; try discriminate.
    exfalso. exact (result_items_not_err _ _ _ _ _ _ E).
  - apply result_scalar_not_err.
Qed.

(* ------------------------------------------------------------------ *)
(** * mpc.Results *)

Section ResultsProofs.
  Variable R : info -> Z -> res (gout * Z).

  (* Results returns exactly when there is an output for every value and
     Result returns for every (value, output) pair; the values are those *)
  Lemma results_some_iff : forall rs outs l,
    results_some R outs rs = Ok l <->
    (length rs <= length outs)%nat /\
    Forall2 (fun ro x => R (a_type (snd ro)) (fst ro) = Ok x) (combine rs outs) l.
  Proof.
    induction rs as [|r rs IH]; intros outs l.
    - simpl. split.
      + intros H. inversion H. split; [lia|constructor].
      + intros [_ H]. inversion H. reflexivity.
    - destruct outs as [|o outs]; simpl.
      + split; [discriminate|]. intros [H _]. lia.
      + destruct (R (a_type o) r) as [x| |] eqn:E.
        * destruct (results_some R outs rs) as [l'| |] eqn:E2; simpl.
          -- split.
             ++ intros H. inversion H; subst. destruct (proj1 (IH outs l') E2) as [Hl HF].
                split; [lia|]. constructor; [exact E | exact HF].
             ++ intros [Hl HF]. inversion HF as [|? x0 ? l0 Hx HF']; subst. simpl in Hx.
                assert (E3 : results_some R outs rs = Ok l0) by (apply IH; split; [lia|exact HF']).
                congruence.
          -- split; [discriminate|]. intros [Hl HF]. inversion HF as [|? x0 ? l0 Hx HF']; subst.
             assert (E3 : results_some R outs rs = Ok l0) by (apply IH; split; [lia|exact HF']).
             congruence.
          -- split; [discriminate|]. intros [Hl HF]. inversion HF as [|? x0 ? l0 Hx HF']; subst.
             assert (E3 : results_some R outs rs = Ok l0) by (apply IH; split; [lia|exact HF']).
             congruence.
        * split; [discriminate|]. intros [_ HF]. inversion HF; subst. simpl in *. congruence.
        * split; [discriminate|]. intros [_ HF]. inversion HF; subst. simpl in *. congruence.
  Qed.

  Lemma results_nil_iff : forall rs l,
    results_nil R rs = Ok l <-> Forall2 (fun r x => R results_default_info r = Ok x) rs l.
  Proof.
    induction rs as [|r rs IH]; intros l; simpl.
    - split; [intros H; inversion H; constructor | intros H; inversion H; reflexivity].
    - destruct (R results_default_info r) as [x| |] eqn:E.
      + destruct (results_nil R rs) as [l'| |] eqn:E2; simpl.
        * split.
          -- intros H. inversion H; subst. constructor; [exact E | apply IH; reflexivity].
          -- intros HF. inversion HF as [|? x0 ? l0 Hx HF']; subst. apply IH in HF'. congruence.
        * split; [discriminate|]. intros HF. inversion HF as [|? x0 ? l0 Hx HF']; subst. apply IH in HF'. congruence.
        * split; [discriminate|]. intros HF. inversion HF as [|? x0 ? l0 Hx HF']; subst. apply IH in HF'. congruence.
      + split; [discriminate|]. intros HF. inversion HF; subst. congruence.
      + split; [discriminate|]. intros HF. inversion HF; subst. congruence.
  Qed.

  (* R never returns an error: with too few outputs Results panics *)
  Hypothesis R_not_err : forall t r, R t r <> Err.

  Lemma results_some_not_err : forall rs outs, results_some R outs rs <> Err.
  Proof.
    induction rs as [|r rs IH]; intros outs; simpl; [discriminate|].
    destruct outs as [|o outs]; [discriminate|].
    destruct (R (a_type o) r) as [x| |] eqn:E; [|exfalso; exact (R_not_err _ _ E)|discriminate].
    destruct (results_some R outs rs) eqn:E2; simpl; try discriminate. exfalso. exact (IH _ E2).
  Qed.

  Lemma results_some_short : forall rs outs,
    (length outs < length rs)%nat -> results_some R outs rs = Panic.
  Proof.
    intros rs outs Hl. destruct (results_some R outs rs) as [l| |] eqn:E; [| |reflexivity].
    - apply results_some_iff in E. lia.
    - exfalso. exact (results_some_not_err _ _ E).
  Qed.
End ResultsProofs.

(* Results (plural) with an outputs list: it returns exactly when there are
   at least as many outputs as values and Result returns on every pair, and
   then value i is Result(values[i], outputs[i]) *)
Lemma results_per_output rs outs l :
  results (Some outs) rs = Ok l <->
  (length rs <= length outs)%nat /\
  Forall2 (fun ro x => result (a_type (snd ro)) (fst ro) = Ok x) (combine rs outs) l.
Proof. apply results_some_iff. Qed.

Lemma results_short_outputs rs outs :
  (length outs < length rs)%nat -> results (Some outs) rs = Panic.
Proof. apply results_some_short. intros t r. apply result_gen_not_err. Qed.

(* nil outputs: every value, whatever it is (negative, wider than 1024 bits),
   comes back as the *big.Int it was *)
Lemma result_default r : result results_default_info r = Ok (OBig r, r).
Proof. reflexivity. Qed.

Lemma results_nil_outputs rs : results None rs = Ok (map (fun r => (OBig r, r)) rs).
Proof.
  apply results_nil_iff. induction rs as [|r rs IH]; simpl; constructor; [apply result_default | exact IH].
Qed.

(* purity and repeatability of Results: whatever outputs and values, the
   values after the call are the values, and a second call on them returns
   the same Go values *)
Lemma Forall2_result_snd (T : list (Z * ioarg)) : forall l,
  Forall2 (fun ro x => result (a_type (snd ro)) (fst ro) = Ok x) T l -> map snd l = map fst T.
Proof.
  induction T as [|[r o] T IH]; intros l H; inversion H as [|? x ? l' Hx HF]; subst; [reflexivity|].
  simpl. destruct x as [v a]. simpl in Hx. apply result_fixed_arg_unchanged in Hx. subst a.
  simpl. f_equal. apply IH. exact HF.
Qed.

Lemma map_fst_combine {A B} : forall (a : list A) (b : list B),
  (length a <= length b)%nat -> map fst (combine a b) = a.
Proof.
  induction a as [|x a IH]; intros [|y b] H; simpl in *; try reflexivity; try lia.
  f_equal. apply IH. lia.
Qed.

Lemma results_arg_unchanged outputs rs l : results outputs rs = Ok l -> map snd l = rs.
Proof.
  destruct outputs as [outs|]; intros H.
  - apply results_per_output in H. destruct H as [Hl HF].
    rewrite (Forall2_result_snd _ _ HF). apply map_fst_combine. exact Hl.
  - rewrite results_nil_outputs in H. inversion H; subst. rewrite map_map. simpl. apply map_id.
Qed.

Lemma results_repeatable outputs rs l : results outputs rs = Ok l -> results outputs (map snd l) = Ok l.
Proof. intros H. rewrite (results_arg_unchanged _ _ _ H). exact H. Qed.

(* ------------------------------------------------------------------ *)
(** * The Go value an encoded member decodes to *)

(* two's-complement reading of an e-bit element value (a byte given for an
   int8 element: 200 is -56) *)
Definition elem_out (el : ty) (x : Z) : gout :=
  match el with
  | TyInt b => go_int true b (wrap_s b x)
  | TyUint b => go_int false b x
  | _ => OUnsupported
  end.

(* (element kind tag, Go width) of the slice Result builds: 1 bool, 2 intN, 3 uintN, 4 *big.Int, 5 string *)
Definition elem_tag (el : ty) : nat * nat :=
  match el with
  | TyInt b => match go_width b with O => (4%nat, O) | w => (2%nat, w) end
  | TyUint b => match go_width b with O => (4%nat, O) | w => (3%nat, w) end
  | TyBool => (1%nat, O)
  | TyString _ => (5%nat, O)
  | _ => (O, O)
  end.

(* the element values of an array given n elements long: the bytes, then zeros *)
Definition pad_elems (n : nat) (l : list N) : list Z := map Z.of_N l ++ repeat 0 (n - length l).

Definition out_slice (el : ty) (us : list Z) : gout :=
  OSlice (fst (elem_tag el)) (snd (elem_tag el)) (map (elem_out el) us).

(* the Go value mpc.Result must return for the Go value v given for an
   argument of leaf type m *)
Definition decoded (m : ty) (v : gin) : gout :=
  match m, v with
  | TyBool, GBool b => OBool b
  | TyInt b, GInt z => go_int true b z
  | TyUint b, GInt z => go_int false b z
  | TyArray el n, GBytes l | TySlice el n, GBytes l => out_slice el (pad_elems n l)
  | TyArray el n, GNil | TySlice el n, GNil => out_slice el (pad_elems n [])
  | _, _ => OUnsupported
  end.

(* output types Result decodes element-wise: integer elements of non-zero width *)
Definition out_ok (m : ty) : Prop :=
  match m with
  | TyArray el _ | TySlice el _ => is_int_ty el = true /\ (0 < bits_of el)%nat
  | _ => True
  end.

Lemma pow2_split b : (0 < b)%nat -> 2 ^ Z.of_nat b = 2 * 2 ^ (Z.of_nat b - 1).
Proof. intros Hb. replace (Z.of_nat b) with (Z.succ (Z.of_nat b - 1)) at 1 by lia. apply Z.pow_succ_r. lia. Qed.

Lemma wrap_s_spec b x :
  (0 < b)%nat -> 0 <= x < 2 ^ Z.of_nat b ->
  - 2 ^ (Z.of_nat b - 1) <= wrap_s b x < 2 ^ (Z.of_nat b - 1) /\ wrap_s b x mod 2 ^ Z.of_nat b = x.
Proof.
  intros Hb Hx. unfold wrap_s. pose proof (pow2_split b Hb) as Hp.
  assert (Hh : 0 < 2 ^ (Z.of_nat b - 1)) by (apply Z.pow_pos_nonneg; lia).
  set (h := 2 ^ (Z.of_nat b - 1)) in *. set (M := 2 ^ Z.of_nat b) in *.
  pose proof (Z.mod_pos_bound (x + h) M ltac:(lia)) as Hm. split; [lia|].
  rewrite Zminus_mod_idemp_l. replace (x + h - h) with x by ring. apply Z.mod_small. lia.
Qed.

Lemma result_is_scalar TI t r :
  kind_is t types_TArray || kind_is t types_TSlice = false -> result_gen TI t r = result_scalar TI t r.
Proof. intros H. unfold result_gen. rewrite H. reflexivity. Qed.

(* one element: Result of its e-bit wire value is its two's-complement reading *)
Lemma scalar_out_elem el x :
  is_int_ty el = true -> (0 < bits_of el)%nat -> 0 <= x < 2 ^ Z.of_nat (bits_of el) ->
  result_scalar result_tint_now (info_of el) x = Ok (elem_out el x, x).
Proof.
  intros Hel Hb Hx. destruct el as [| b | b | b | e n | e n | fs]; try discriminate; simpl bits_of in *.
  - destruct (wrap_s_spec b x Hb Hx) as [Hr Hm].
    pose proof (result_fixed_int_inverse b (wrap_s b x) Hb Hr) as E. rewrite Hm in E.
    unfold result_fixed in E. rewrite result_is_scalar in E by reflexivity. exact E.
  - pose proof (result_uint_inverse result_tint_now b x Hx) as E.
    rewrite result_is_scalar in E by reflexivity. exact E.
Qed.

Lemma elem_go_type_tag el : is_int_ty el = true -> elem_go_type (info_of el) = Some (elem_tag el).
Proof.
  intros Hel. destruct el as [| b | b | b | e n | e n | fs]; try discriminate; unfold elem_go_type; cbn [info_of].
  - replace (kind_is (Info types_TInt b 0 None [] true) types_TString) with false by reflexivity.
    replace (kind_is (Info types_TInt b 0 None [] true) types_TUint) with false by reflexivity.
    replace (kind_is (Info types_TInt b 0 None [] true) types_TInt) with true by reflexivity.
    cbn [i_bits elem_tag]. destruct (go_width b); reflexivity.
  - replace (kind_is (Info types_TUint b 0 None [] true) types_TString) with false by reflexivity.
    replace (kind_is (Info types_TUint b 0 None [] true) types_TUint) with true by reflexivity.
    cbn [i_bits elem_tag]. destruct (go_width b); reflexivity.
Qed.

(* the canonical wires of element lists *)
Lemma from_bits_elems e : forall us,
  Forall (fun x => 0 <= x < 2 ^ Z.of_nat e) us ->
  from_bits (concat (map (fun x => wires x e) us)) = le_value e us.
Proof.
  induction us as [|x us IH]; intros HF; [reflexivity|].
  inversion HF as [|? ? Hx HF']; subst. cbn [map concat le_value fold_right]. fold (le_value e us).
  rewrite from_bits_app, wires_length, from_bits_wires, IH by exact HF'.
  rewrite Z.mod_small by exact Hx. reflexivity.
Qed.

Lemma wires_zero e : wires 0 e = repeat false e.
Proof. unfold wires. rewrite <- (map_const_repeat e). apply map_ext. intros. apply Z.testbit_0_l. Qed.

Lemma repeat_false_elems e : forall k, repeat false (k * e) = concat (map (fun x => wires x e) (repeat 0 k)).
Proof.
  induction k as [|k IH]; [reflexivity|]. cbn [repeat map concat]. rewrite <- IH, wires_zero.
  rewrite <- repeat_app. reflexivity.
Qed.

Lemma array_wires_elems e n l :
  bytes_wires e l ++ repeat false ((n - length l) * e) = concat (map (fun x => wires x e) (pad_elems n l)).
Proof.
  unfold pad_elems, bytes_wires. rewrite map_app, concat_app, map_map, <- repeat_false_elems. reflexivity.
Qed.

Lemma pad_elems_range e n l :
  (8 <= e)%nat -> Forall (fun x => (x < 256)%N) l ->
  Forall (fun x => 0 <= x < 2 ^ Z.of_nat e) (pad_elems n l).
Proof.
  intros He HF. unfold pad_elems. apply Forall_app. split; [apply bytes_in_range; assumption|].
  apply Forall_forall. intros x Hx. apply repeat_spec in Hx. subst x.
  assert (0 < 2 ^ Z.of_nat e) by (apply Z.pow_pos_nonneg; lia). lia.
Qed.

Lemma zeros_range e k : Forall (fun x => 0 <= x < 2 ^ Z.of_nat e) (repeat 0 k).
Proof.
  apply Forall_forall. intros x Hx. apply repeat_spec in Hx. subst x.
  assert (0 < 2 ^ Z.of_nat e) by (apply Z.pow_pos_nonneg; lia). lia.
Qed.

(* an array or slice of n integer elements: Result of the elements' wire
   value is the slice of their two's-complement readings *)
Lemma result_elems (slice : bool) el n us :
  is_int_ty el = true -> (0 < bits_of el)%nat ->
  Forall (fun x => 0 <= x < 2 ^ Z.of_nat (bits_of el)) us -> length us = n ->
  result (info_of (if slice then TySlice el n else TyArray el n)) (le_value (bits_of el) us)
  = Ok (out_slice el us, le_value (bits_of el) us).
Proof.
  intros Hel Hb HF Hl. unfold result.
  rewrite (result_array_inverse result_tint_now slice el n (fst (elem_tag el)) (snd (elem_tag el)) us).
  - unfold out_slice. f_equal. f_equal. f_equal. apply map_ext_in. intros u Hu.
    rewrite Forall_forall in HF. unfold scalar_out. rewrite scalar_out_elem by auto. reflexivity.
  - rewrite elem_go_type_tag by exact Hel. destruct (elem_tag el); reflexivity.
  - exact HF.
  - exact Hl.
  - intros u Hu. rewrite Forall_forall in HF. eexists _, _. apply scalar_out_elem; auto.
Qed.

(* one member: the non-negative number its canonical wires spell decodes to
   the value that was given, the argument unchanged *)
Lemma decode_member m v :
  gin_domain m v -> out_ok m ->
  result (info_of m) (from_bits (gin_wires m v)) = Ok (decoded m v, from_bits (gin_wires m v)).
Proof.
  intros Hd Ho. destruct m as [| b | b | b | el n | el n | fs]; destruct v as [| bv | z | l |];
    simpl in Hd; try contradiction; cbn [gin_wires decoded].
  - (* bool *) destruct bv; reflexivity.
  - (* int *) destruct Hd as (_ & Hr & Hb). rewrite from_bits_wires.
    exact (result_fixed_int_inverse b z Hb Hr).
  - (* uint *) destruct Hd as (_ & Hr). rewrite from_bits_wires, Z.mod_small by exact Hr.
    exact (result_uint_inverse result_tint_now b z Hr).
  - (* array, nil *) destruct Ho as (Hel & Hb).
    replace (repeat false (n * bits_of el)) with (concat (map (fun x => wires x (bits_of el)) (pad_elems n []))).
    2:{ unfold pad_elems. simpl. rewrite Nat.sub_0_r. symmetry. apply repeat_false_elems. }
    assert (HF : Forall (fun x => 0 <= x < 2 ^ Z.of_nat (bits_of el)) (pad_elems n []))
      by (unfold pad_elems; simpl; apply zeros_range).
    rewrite from_bits_elems by exact HF.
    apply (result_elems false el n _ Hel Hb HF). unfold pad_elems. simpl. rewrite repeat_length. lia.
  - (* array, bytes *) destruct Ho as (Hel & Hb). destruct Hd as (_ & He & Hl & HFl).
    rewrite array_wires_elems.
    pose proof (pad_elems_range (bits_of el) n l He HFl) as HF.
    rewrite from_bits_elems by exact HF.
    apply (result_elems false el n _ Hel Hb HF). unfold pad_elems.
    rewrite app_length, map_length, repeat_length. lia.
  - (* slice, nil *) destruct Ho as (Hel & Hb). destruct Hd as (_ & ->).
    change (from_bits []) with (le_value (bits_of el) (pad_elems 0 [])).
    apply (result_elems true el 0 _ Hel Hb); [constructor | reflexivity].
  - (* slice, bytes *) destruct Ho as (Hel & Hb). destruct Hd as (_ & He & Hl & HFl).
    replace (bytes_wires (bits_of el) l) with (concat (map (fun x => wires x (bits_of el)) (pad_elems n l))).
    2:{ rewrite <- array_wires_elems. rewrite Hl, Nat.sub_diag. simpl. apply app_nil_r. }
    pose proof (pad_elems_range (bits_of el) n l He HFl) as HF.
    rewrite from_bits_elems by exact HF.
    apply (result_elems true el n _ Hel Hb HF). unfold pad_elems.
    rewrite app_length, map_length, repeat_length. lia.
Qed.

(* ------------------------------------------------------------------ *)
(** * Outputs.Split followed by Results inverts Parse and Set *)

(* the (Go value, argument after the call) list for members ms given values vs *)
Definition decoded_all (ms : list ty) (vs : list gin) : list (gout * Z) :=
  map (fun mv => (decoded (fst mv) (snd mv), from_bits (gin_wires (fst mv) (snd mv)))) (combine ms vs).

Lemma app_eq_len {A} : forall (a c b d : list A), length a = length c -> a ++ b = c ++ d -> a = c /\ b = d.
Proof.
  induction a as [|x a IH]; intros [|y c] b d Hl H; simpl in *; try discriminate; [auto|].
  inversion H; subst. destruct (IH c b d ltac:(lia) H2). subst. auto.
Qed.

Lemma gins_wires_cons m ms v vs : gins_wires (m :: ms) (v :: vs) = gin_wires m v ++ gins_wires ms vs.
Proof. reflexivity. Qed.

(* Split of any value (negative, with bits above the outputs) whose output
   wires are the canonical wires of the members: part j is the non-negative
   number member j's wires spell *)
Lemma split_from_canonical : forall ms vs, Forall2 gin_domain ms vs -> forall raw bit,
  wires (Z.shiftr raw (Z.of_nat bit)) (sum_bits ms) = gins_wires ms vs ->
  split_from (map leaf_arg ms) raw bit
  = map (fun mv => from_bits (gin_wires (fst mv) (snd mv))) (combine ms vs).
Proof.
  induction 1 as [|m v ms vs Hd HF IH]; intros raw bit Hw; [reflexivity|].
  cbn [map split_from combine fst snd a_type leaf_arg]. rewrite i_bits_info_of.
  simpl sum_bits in Hw. rewrite wires_app, gins_wires_cons in Hw.
  apply app_eq_len in Hw; [|rewrite wires_length; symmetry; apply gin_wires_length; exact Hd].
  destruct Hw as [Hw1 Hw2]. f_equal.
  - rewrite <- Hw1.
    pose proof (split_one_range raw bit (bits_of m)) as Hr.
    rewrite <- (Z.mod_small _ _ Hr), <- from_bits_wires. f_equal.
    apply wires_ext. intros k Hk. rewrite split_one_spec, Z.shiftr_spec by lia.
    replace (k <? Z.of_nat (bits_of m)) with true by lia. simpl. f_equal. lia.
  - apply IH. rewrite <- Hw2. f_equal. rewrite Z.shiftr_shiftr by lia. f_equal. lia.
Qed.

Lemma results_canonical : forall ms vs, Forall2 gin_domain ms vs -> Forall out_ok ms ->
  results (Some (map leaf_arg ms))
          (map (fun mv => from_bits (gin_wires (fst mv) (snd mv))) (combine ms vs))
  = Ok (decoded_all ms vs).
Proof.
  induction 1 as [|m v ms vs Hd HF IH]; intros Ho; [reflexivity|].
  inversion Ho as [|? ? Hom Ho']; subst. specialize (IH Ho').
  unfold results, results_gen in *. cbn [map combine results_some fst snd a_type leaf_arg].
  rewrite (decode_member m v Hd Hom). rewrite IH. reflexivity.
Qed.

(* THE OUTPUT PIPELINE: every list of leaf output types, every in-domain value
   list, every raw result value whose output wires carry the canonical wires
   of the values (whatever it has above them, negative or not): Split then
   Results returns exactly the values, output by output *)
Lemma output_values_canonical ms vs raw :
  Forall2 gin_domain ms vs -> Forall out_ok ms ->
  wires raw (sum_bits ms) = gins_wires ms vs ->
  output_values (map leaf_arg ms) raw = Ok (decoded_all ms vs).
Proof.
  intros HD Ho Hw. unfold output_values, split.
  rewrite (split_from_canonical ms vs HD raw 0); [apply results_canonical; assumption|].
  simpl Z.of_nat. rewrite Z.shiftr_0_r. exact Hw.
Qed.

(* output j is the value of member j alone *)
Lemma decoded_all_nth : forall ms vs j mj vj,
  nth_error ms j = Some mj -> nth_error vs j = Some vj ->
  nth_error (decoded_all ms vs) j = Some (decoded mj vj, from_bits (gin_wires mj vj)).
Proof.
  unfold decoded_all. induction ms as [|m ms IH]; intros vs j mj vj Hm Hv; [destruct j; discriminate|].
  destruct vs as [|v vs]; [destruct j; discriminate|]. destruct j as [|j]; simpl in *.
  - inversion Hm; inversion Hv; subst. reflexivity.
  - apply IH; assumption.
Qed.

(* text -> Parse -> wires -> Split -> Results, a compound argument *)
Lemma roundtrip_text t m ms ss vs :
  members_spelled (m :: ms) ss vs -> Forall out_ok (m :: ms) ->
  exists rp, parse (IOArg t (map leaf_arg (m :: ms))) ss = Ok rp /\
    output_values (map leaf_arg (m :: ms)) rp = Ok (decoded_all (m :: ms) vs).
Proof.
  intros HM Ho. destruct (set_eq_parse_fixed_compound t m ms ss vs HM) as (rs & rp & _ & Ep & _ & Hw).
  exists rp. split; [exact Ep|].
  apply output_values_canonical; [apply (members_spelled_domain _ _ _ HM) | exact Ho | exact Hw].
Qed.

(* Go values -> Set -> wires -> Split -> Results, a compound argument *)
Lemma roundtrip_value t m ms vs :
  Forall2 gin_domain (m :: ms) vs -> Forall out_ok (m :: ms) ->
  exists rs, set (IOArg t (map leaf_arg (m :: ms))) vs = Ok rs /\
    output_values (map leaf_arg (m :: ms)) rs = Ok (decoded_all (m :: ms) vs).
Proof.
  intros HD Ho.
  assert (HF : Forall2 (member_ok set_int_fixed) (m :: ms) vs).
  { clear Ho. induction HD; constructor; auto using member_ok_fixed. }
  destruct (set_compound_wires set_int_fixed fixed_bytes t m ms vs HF) as (rs & Es & Hw).
  exists rs. split; [exact Es|]. apply output_values_canonical; assumption.
Qed.

Lemma gins_wires_single m v : gins_wires [m] [v] = gin_wires m v.
Proof. unfold gins_wires. simpl. apply app_nil_r. Qed.

(* a single (non-compound) argument; Parse may return a negative big.Int *)
Lemma roundtrip_text_single m s v :
  gin_domain m v -> spells m s v -> out_ok m ->
  exists rp, parse (leaf_arg m) [s] = Ok rp /\
    output_values [leaf_arg m] rp = Ok [(decoded m v, from_bits (gin_wires m v))].
Proof.
  intros Hd Hs Ho. destruct (parse_leaf_canonical m s v Hd Hs) as (rp & Ep & Hw).
  exists rp. split; [exact Ep|].
  apply (output_values_canonical [m] [v] rp); [constructor; [exact Hd|constructor] | constructor; [exact Ho|constructor] |].
  rewrite gins_wires_single. simpl sum_bits. rewrite Nat.add_0_r. exact Hw.
Qed.

Lemma roundtrip_value_single m v :
  gin_domain m v -> out_ok m ->
  exists rs, set (leaf_arg m) [v] = Ok rs /\
    output_values [leaf_arg m] rs = Ok [(decoded m v, from_bits (gin_wires m v))].
Proof.
  intros Hd Ho.
  destruct (set_single_wires set_int_fixed fixed_bytes m v (member_ok_fixed m v Hd)) as (rs & Es & Hw).
  exists rs. split; [exact Es|].
  apply (output_values_canonical [m] [v] rs); [constructor; [exact Hd|constructor] | constructor; [exact Ho|constructor] |].
  rewrite gins_wires_single. simpl sum_bits. rewrite Nat.add_0_r. exact Hw.
Qed.

(* non-vacuity: the example members of IOArgProof (int13 = -5, bool, [4]uint8
   given 2 bytes, uint70, …) are decodable, and a concrete run *)
Example ex_roundtrip :
  output_values (map leaf_arg [TyInt 8; TyBool; TyArray (TyInt 8) 3; TyUint 70])
                (Z.lor 251 (Z.lor (Z.shiftl 1 8) (Z.lor (Z.shiftl 200 9) (Z.shiftl (2 ^ 69) 33))))
  = Ok (decoded_all [TyInt 8; TyBool; TyArray (TyInt 8) 3; TyUint 70]
                    [GInt (-5); GBool true; GBytes [200%N]; GInt (2 ^ 69)]).
Proof. vm_compute. reflexivity. Qed.

Example ex_decoded :
  map fst (decoded_all [TyInt 8; TyBool; TyArray (TyInt 8) 3; TyUint 70]
                       [GInt (-5); GBool true; GBytes [200%N]; GInt (2 ^ 69)])
  = [OInt true 8 (-5); OBool true; OSlice 2 8 [OInt true 8 (-56); OInt true 8 0; OInt true 8 0]; OBig (2 ^ 69)].
Proof. vm_compute. reflexivity. Qed.

(* ------------------------------------------------------------------ *)
(** * IO.Size, IOArg.Len *)

Lemma io_size_total io : io_size io = total_bits io.
Proof.
  unfold io_size, total_bits.
  assert (H : forall l acc, fold_left (fun sum a => (sum + i_bits (a_type a))%nat) l acc
                            = (acc + fold_right (fun a acc => (i_bits (a_type a) + acc)%nat) O l)%nat).
  { induction l as [|a l IH]; intros acc; simpl; [lia|]. rewrite IH. lia. }
  rewrite H. reflexivity.
Qed.

Lemma io_size_leaves ms : io_size (map leaf_arg ms) = sum_bits ms.
Proof.
  rewrite io_size_total. unfold total_bits, sum_bits. induction ms as [|m ms IH]; simpl; [reflexivity|].
  rewrite IH, i_bits_info_of. reflexivity.
Qed.

Lemma ioarg_len_spec t cs : ioarg_len (IOArg t cs) = match cs with [] => 1%nat | _ => length cs end.
Proof. destruct cs; reflexivity. Qed.

(* ------------------------------------------------------------------ *)
(** * Array literals of EVERY element type: text -> Parse -> Result *)

(* element types Result decodes: bool, intN (N > 0), uintN, stringN *)
Definition elem_ok (el : ty) : Prop :=
  match el with
  | TyBool | TyUint _ | TyString _ => True
  | TyInt b => (0 < b)%nat
  | _ => False
  end.

Lemma elem_go_type_ok el : elem_ok el -> elem_go_type (info_of el) = Some (elem_tag el).
Proof.
  intros Hel. destruct el as [| b | b | b | e n | e n | fs]; try contradiction.
  - reflexivity.
  - apply elem_go_type_tag. reflexivity.
  - apply elem_go_type_tag. reflexivity.
  - reflexivity.
Qed.

Lemma result_scalar_elem_ok el u : elem_ok el -> exists o a, result_scalar result_tint_now (info_of el) u = Ok (o, a).
Proof.
  intros Hel. destruct el as [| b | b | b | e n | e n | fs]; try contradiction; unfold result_scalar; cbn [info_of].
  - eexists _, _. reflexivity.
  - replace (kind_is (Info types_TInt b 0 None [] true) types_TString) with false by reflexivity.
    replace (kind_is (Info types_TInt b 0 None [] true) types_TUint) with false by reflexivity.
    replace (kind_is (Info types_TInt b 0 None [] true) types_TInt) with true by reflexivity.
    cbn [i_bits]. simpl in Hel. replace (Nat.eqb b 0) with false by (symmetry; apply Nat.eqb_neq; lia).
    destruct (result_tint_now b u). destruct (go_width b); eexists _, _; reflexivity.
  - replace (kind_is (Info types_TUint b 0 None [] true) types_TString) with false by reflexivity.
    replace (kind_is (Info types_TUint b 0 None [] true) types_TUint) with true by reflexivity.
    cbn [i_bits]. destruct (go_width b); eexists _, _; reflexivity.
  - eexists _, _. reflexivity.
Qed.

(* element i of a literal read as k e-bit groups, first group most
   significant; zero after the literal's last group *)
Definition literal_elem (val : Z) (k e i : nat) : Z :=
  (if (i <? k)%nat then chunk val k e i else 0) mod 2 ^ Z.of_nat e.

Lemma wires_mod x e : wires (x mod 2 ^ Z.of_nat e) e = wires x e.
Proof. apply wires_ext. intros k Hk. apply Z.mod_pow2_bits_low. lia. Qed.

Lemma literal_elem_wires val k e i : wires (literal_elem val k e i) e = array_elem_wires val k e i.
Proof.
  unfold literal_elem, array_elem_wires. rewrite wires_mod. destruct (i <? k)%nat; [reflexivity|apply wires_zero].
Qed.

Lemma literal_elem_range val k e i : 0 <= literal_elem val k e i < 2 ^ Z.of_nat e.
Proof. unfold literal_elem. apply Z.mod_pos_bound. apply Z.pow_pos_nonneg; lia. Qed.

(* the value Parse returned is the little-endian packing of the literal's elements *)
Lemma packed_elems r val k e n :
  0 <= r < 2 ^ Z.of_nat (n * e) ->
  wires r (n * e) = concat (map (array_elem_wires val k e) (seq 0 n)) ->
  r = le_value e (map (literal_elem val k e) (seq 0 n)).
Proof.
  intros Hr Hw. rewrite <- (Z.mod_small r _ Hr), <- from_bits_wires, Hw.
  rewrite <- from_bits_elems.
  - rewrite map_map. f_equal. f_equal. apply map_ext. intros i. symmetry. apply literal_elem_wires.
  - apply Forall_forall. intros x Hx. apply in_map_iff in Hx. destruct Hx as (i & <- & _). apply literal_elem_range.
Qed.

(* ARRAYS: every element type Result decodes (bool, any intN/uintN also wider
   than 64 bits, stringN), every length n > 0, every literal Parse accepts in
   any spelling: the Go slice Result returns for the parsed value has element
   i = Result of the literal's i-th element, in order, zero elements after a
   short literal; the argument is unchanged *)
Lemma parse_array_result el n s val r :
  elem_ok el -> (0 < bits_of el)%nat -> (0 < n)%nat -> set_string s = Some val ->
  parse (leaf_arg (TyArray el n)) [s] = Ok r ->
  let e := bits_of el in let k := literal_elems s val e in
  result (info_of (TyArray el n)) r
  = Ok (OSlice (fst (elem_tag el)) (snd (elem_tag el))
               (map (fun i => scalar_out result_tint_now (info_of el) (literal_elem val k e i)) (seq 0 n)), r).
Proof.
  intros Hel He Hn Hs Hp e k.
  destruct (parse_array_bits el n s val r He Hn Hs Hp) as (_ & Hr & Hw). fold e in Hr, Hw. fold k in Hw.
  rewrite (packed_elems r val k e n Hr Hw). unfold result, e.
  rewrite (result_array_inverse result_tint_now false el n (fst (elem_tag el)) (snd (elem_tag el))).
  - rewrite map_map. reflexivity.
  - rewrite elem_go_type_ok by exact Hel. destruct (elem_tag el); reflexivity.
  - apply Forall_forall. intros x Hx. apply in_map_iff in Hx. destruct Hx as (i & <- & _). apply literal_elem_range.
  - rewrite map_length, seq_length. reflexivity.
  - intros u _. apply result_scalar_elem_ok. exact Hel.
Qed.

(* SLICES: the literal determines the element count k; the instantiated slice type has k elements *)
Lemma parse_slice_result el s val r :
  elem_ok el -> (0 < bits_of el)%nat -> set_string s = Some val ->
  let e := bits_of el in let k := literal_elems s val e in
  parse (leaf_arg (TySlice el k)) [s] = Ok r ->
  result (info_of (TySlice el k)) r
  = Ok (OSlice (fst (elem_tag el)) (snd (elem_tag el))
               (map (fun i => scalar_out result_tint_now (info_of el) (literal_elem val k e i)) (seq 0 k)), r).
Proof.
  intros Hel He Hs e k Hp.
  destruct (parse_slice_bits el k s val r He Hs Hp) as (Hr & Hw). fold e in Hr, Hw. fold k in Hr, Hw.
  rewrite (packed_elems r val k e k Hr Hw). unfold result, e.
  rewrite (result_array_inverse result_tint_now true el k (fst (elem_tag el)) (snd (elem_tag el))).
  - rewrite map_map. reflexivity.
  - rewrite elem_go_type_ok by exact Hel. destruct (elem_tag el); reflexivity.
  - apply Forall_forall. intros x Hx. apply in_map_iff in Hx. destruct Hx as (i & <- & _). apply literal_elem_range.
  - rewrite map_length, seq_length. reflexivity.
  - intros u _. apply result_scalar_elem_ok. exact Hel.
Qed.

(* non-vacuity and a reading aid: [5]bool given "0b10110" is [true false true true false];
   [3]int70 given "-1" keeps only the low 70 bits in the last element: [0 0 -1] *)
Example ex_bool_array_literal :
  exists r, parse (leaf_arg (TyArray TyBool 5)) [[48; 98; 49; 48; 49; 49; 48]%N] = Ok r /\
    result (info_of (TyArray TyBool 5)) r
    = Ok (OSlice 1 0 [OBool true; OBool false; OBool true; OBool true; OBool false], r).
Proof. eexists. split; [vm_compute; reflexivity|]. vm_compute. reflexivity. Qed.

(* ------------------------------------------------------------------ *)
(** * mpc.PrintResults: the text printed with the default base reads back *)

Definition dvalue (b : N) (l : list N) (acc : N) : N :=
  fold_left (fun a c => (a * b + digit_val c)%N) l acc.

Definition valid_digit (b c : N) : Prop := c <> 95%N /\ (digit_val c < b)%N.

Lemma digit_char_range d : (d < 36)%N ->
  ((48 <= digit_char d <= 57)%N /\ digit_char d = (48 + d)%N /\ (d < 10)%N) \/
  ((97 <= digit_char d <= 122)%N /\ digit_char d = (87 + d)%N /\ (10 <= d)%N).
Proof.
  intros Hd. unfold digit_char. destruct (N.ltb_spec d 10); [left|right]; lia.
Qed.

Lemma digit_val_char d : (d < 36)%N -> digit_val (digit_char d) = d.
Proof.
  intros Hd. destruct (digit_char_range d Hd) as [(Hr & E & Hlt)|(Hr & E & Hge)]; unfold digit_val, is_digit.
  - replace (48 <=? digit_char d)%N with true by (symmetry; apply N.leb_le; lia).
    replace (digit_char d <=? 57)%N with true by (symmetry; apply N.leb_le; lia). simpl. lia.
  - replace (digit_char d <=? 57)%N with false by (symmetry; apply N.leb_gt; lia).
    rewrite andb_false_r.
    replace (97 <=? digit_char d)%N with true by (symmetry; apply N.leb_le; lia).
    replace (digit_char d <=? 122)%N with true by (symmetry; apply N.leb_le; lia). simpl. lia.
Qed.

Lemma digit_char_valid b d : (b <= 36)%N -> (d < b)%N -> valid_digit b (digit_char d).
Proof.
  intros Hb Hd. split; [|rewrite digit_val_char by lia; exact Hd].
  destruct (digit_char_range d ltac:(lia)) as [(Hr & _)|(Hr & _)]; lia.
Qed.

(* nat.scan's digit loop on a string of digits of the base without separators *)
Lemma scan_digits_valid b : forall l acc any prev inv,
  Forall (valid_digit b) l ->
  scan_digits b l acc any prev inv
  = Some (dvalue b l acc, any || match l with [] => false | _ => true end,
          match l with [] => prev | _ => PDigit end, inv).
Proof.
  induction l as [|c l IH]; intros acc any prev inv HF.
  - simpl. rewrite orb_false_r. reflexivity.
  - inversion HF as [|? ? [Hc Hd] HF']; subst. cbn [scan_digits].
    replace (c =? 95)%N with false by (symmetry; apply N.eqb_neq; exact Hc).
    replace (b <=? digit_val c)%N with false by (symmetry; apply N.leb_gt; exact Hd).
    rewrite IH by exact HF'. rewrite orb_true_r. destruct l; reflexivity.
Qed.

Lemma digits_fuel_acc b : forall f n acc, digits_fuel f b n acc = digits_fuel f b n [] ++ acc.
Proof.
  induction f as [|f IH]; intros n acc; [reflexivity|]. cbn [digits_fuel].
  destruct (n <? b)%N; [reflexivity|].
  rewrite (IH _ (_ :: acc)), (IH _ [_]), <- app_assoc. reflexivity.
Qed.

Lemma digits_fuel_S f b n acc :
  digits_fuel (S f) b n acc
  = if (n <? b)%N then digit_char n :: acc else digits_fuel f b (n / b)%N (digit_char (n mod b)%N :: acc).
Proof. reflexivity. Qed.

(* the digits of n: valid, non-empty, with value n, leading digit non-zero for n > 0 *)
Lemma digits_fuel_spec b : (2 <= b <= 36)%N -> forall f n, (n < 2 ^ N.of_nat f)%N ->
  let l := digits_fuel (S f) b n [] in
  Forall (valid_digit b) l /\ dvalue b l 0 = n /\
  exists c rest, l = c :: rest /\ ((0 < n)%N -> c <> 48%N) /\ c <> 45%N /\ c <> 43%N.
Proof.
  intros Hb. induction f as [|f IH]; intros n Hn l.
  - assert (n = 0%N) by (simpl in Hn; lia). subst n. subst l. cbn [digits_fuel].
    replace (0 <? b)%N with true by (symmetry; apply N.ltb_lt; lia).
    split; [constructor; [apply digit_char_valid; lia|constructor]|].
    split; [reflexivity|]. exists (digit_char 0), []. repeat split; try lia; discriminate.
  - subst l. rewrite digits_fuel_S. destruct (N.ltb_spec n b) as [Hlt|Hge].
    + split; [constructor; [apply digit_char_valid; lia|constructor]|].
      split; [unfold dvalue; simpl; rewrite digit_val_char by lia; lia|].
      exists (digit_char n), []. split; [reflexivity|].
      destruct (digit_char_range n ltac:(lia)) as [(Hr & E & _)|(Hr & E & _)]; repeat split; lia.
    + rewrite digits_fuel_acc.
      assert (Hq : (n / b < 2 ^ N.of_nat f)%N).
      { apply N.div_lt_upper_bound; [lia|].
        replace (N.of_nat (S f)) with (N.succ (N.of_nat f)) in Hn by lia. rewrite N.pow_succ_r' in Hn. nia. }
      destruct (IH (n / b)%N Hq) as (HF & Hv & c & rest & El & Hc0 & Hc1 & Hc2).
      split; [apply Forall_app; split; [exact HF|constructor; [apply digit_char_valid; [lia|apply N.mod_lt; lia]|constructor]]|].
      split.
      * unfold dvalue in *. rewrite fold_left_app, Hv. simpl.
        rewrite digit_val_char by (assert (n mod b < b)%N by (apply N.mod_lt; lia); lia).
        rewrite (N.div_mod' n b) at 3. lia.
      * exists c, (rest ++ [digit_char (n mod b)]). rewrite El. split; [reflexivity|].
        split; [|split; assumption]. intros _. apply Hc0.
        apply N.div_str_pos. lia.
Qed.

Lemma format_nat_spec b n : (2 <= b <= 36)%N ->
  Forall (valid_digit b) (format_nat b n) /\ dvalue b (format_nat b n) 0 = n /\
  exists c rest, format_nat b n = c :: rest /\ ((0 < n)%N -> c <> 48%N) /\ c <> 45%N /\ c <> 43%N.
Proof.
  intros Hb. unfold format_nat. apply digits_fuel_spec; [exact Hb|].
  rewrite N2Nat.id. apply N.size_gt.
Qed.

Lemma format_nat_zero b : (2 <= b)%N -> format_nat b 0 = [48%N].
Proof. intros Hb. unfold format_nat. simpl. replace (0 <? b)%N with true by (symmetry; apply N.ltb_lt; lia). reflexivity. Qed.

(* nat.scan on decimal digits *)
Lemma nat_scan_decimal n : nat_scan (format_nat 10 n) = Some n.
Proof.
  destruct (N.eq_dec n 0) as [->|Hn]; [reflexivity|].
  destruct (format_nat_spec 10 n ltac:(lia)) as (HF & Hv & c & rest & El & Hc0 & _).
  rewrite El in *. unfold nat_scan.
  replace (c =? 48)%N with false by (symmetry; apply N.eqb_neq; apply Hc0; lia).
  rewrite scan_digits_valid by exact HF. unfold scan_finish. cbn [orb is_punder]. rewrite Hv. reflexivity.
Qed.

(* nat.scan on "0x" followed by hex digits *)
Lemma nat_scan_hex l : Forall (valid_digit 16) l -> l <> [] ->
  nat_scan (48 :: 120 :: l)%N = Some (dvalue 16 l 0).
Proof.
  intros HF Hne. unfold nat_scan.
  change (48 =? 48)%N with true. cbv iota.
  change ((120 =? 98)%N || (120 =? 66)%N) with false.
  change ((120 =? 111)%N || (120 =? 79)%N) with false.
  change ((120 =? 120)%N || (120 =? 88)%N) with true. cbv iota.
  rewrite scan_digits_valid by exact HF. destruct l; [contradiction|]. unfold scan_finish. cbn [orb is_punder]. reflexivity.
Qed.

(* Int.SetString(s, 0) reads the decimal text of every integer back *)
Lemma set_string_decimal z : set_string (format_int 10 z) = Some z.
Proof.
  unfold format_int. destruct (Z.ltb_spec z 0) as [Hneg|Hpos].
  - unfold set_string. change (45 =? 45)%N with true. simpl orb. cbv iota.
    rewrite nat_scan_decimal. f_equal. lia.
  - destruct (format_nat_spec 10 (Z.to_N z) ltac:(lia)) as (_ & _ & c & rest & El & _ & Hc1 & Hc2).
    pose proof (nat_scan_decimal (Z.to_N z)) as Hs. rewrite El in *. unfold set_string.
    replace (c =? 45)%N with false by (symmetry; apply N.eqb_neq; exact Hc1).
    replace (c =? 43)%N with false by (symmetry; apply N.eqb_neq; exact Hc2).
    simpl orb. cbv iota. rewrite Hs. f_equal. lia.
Qed.

(* … and "0x" followed by the hexadecimal text of every non-negative integer *)
Lemma set_string_hex z : 0 <= z -> set_string ([48; 120]%N ++ format_int 16 z) = Some z.
Proof.
  intros Hz. unfold format_int. replace (z <? 0) with false by lia.
  destruct (format_nat_spec 16 (Z.to_N z) ltac:(lia)) as (HF & Hv & c & rest & El & _).
  cbn [app]. unfold set_string. change (48 =? 45)%N with false. change (48 =? 43)%N with false.
  simpl orb. cbv iota. rewrite nat_scan_hex; [|exact HF|rewrite El; discriminate].
  rewrite Hv. f_equal. lia.
Qed.

(* what PrintResults prints for integers when -base is not given *)
Lemma print_value_int signed w z : print_value 0 (OInt signed w z) = format_int 10 z.
Proof. reflexivity. Qed.
Lemma print_value_big z : print_value 0 (OBig z) = [48; 120]%N ++ format_int 16 z.
Proof. reflexivity. Qed.

(* every intN / uintN output (N <= 64: a Go integer), every value: the printed
   text is accepted by SetString(s, 0) and is the value *)
Lemma print_int_reparse signed w z : set_string (print_value 0 (OInt signed w z)) = Some z.
Proof. rewrite print_value_int. apply set_string_decimal. Qed.

(* every *big.Int output (N > 64), every NON-NEGATIVE value *)
Lemma print_big_reparse z : 0 <= z -> set_string (print_value 0 (OBig z)) = Some z.
Proof. intros Hz. rewrite print_value_big. apply set_string_hex. exact Hz. Qed.

(* … a negative *big.Int is printed "0x-…", which SetString rejects *)
Lemma print_big_negative_refuted : exists z, z < 0 /\ set_string (print_value 0 (OBig z)) = None.
Proof. exists (-1). split; [lia|]. vm_compute. reflexivity. Qed.

(* with -base 10 every integer output reads back, negative *big.Int included *)
Lemma print_base10_reparse o z :
  (exists signed w, o = OInt signed w z) \/ o = OBig z -> set_string (print_value 10 o) = Some z.
Proof. intros [(sg & w & ->)| ->]; apply set_string_decimal. Qed.

(* in terms of the argument types: the text printed for an integer output
   read by IOArg.Parse for the same type gives the value *)
Lemma print_parse_roundtrip (signed : bool) b z :
  (b <= 64)%nat \/ 0 <= z ->
  parse (leaf_arg (if signed then TyInt b else TyUint b)) [print_value 0 (go_int signed b z)] = Ok z.
Proof.
  intros H.
  assert (E : set_string (print_value 0 (go_int signed b z)) = Some z).
  { unfold go_int. destruct (go_width_cases b) as [[-> Hb]|(w & -> & Hw)].
    - apply print_big_reparse. lia.
    - apply print_int_reparse. }
  destruct signed; [rewrite parse_int | rewrite parse_uint]; rewrite E; reflexivity.
Qed.

(* -- byte arrays: printed as hex, first element first; as an array literal
      ("0x" in front) the text denotes the same elements -- *)

Lemma hex_bytes_length l : length (hex_bytes l) = (2 * length l)%nat.
Proof. induction l as [|x l IH]; simpl; [reflexivity|]. rewrite IH. lia. Qed.

Lemma hex_bytes_valid l : Forall (fun x => (x < 256)%N) l -> Forall (valid_digit 16) (hex_bytes l).
Proof.
  induction 1 as [|x l Hx HF IH]; [constructor|]. cbn [hex_bytes flat_map app].
  constructor; [apply digit_char_valid; [lia|apply N.div_lt_upper_bound; lia]|].
  constructor; [apply digit_char_valid; [lia|apply N.mod_lt; lia]|exact IH].
Qed.

Lemma hex_bytes_value : forall l acc, Forall (fun x => (x < 256)%N) l ->
  dvalue 16 (hex_bytes l) acc = fold_left (fun a x => (a * 256 + x)%N) l acc.
Proof.
  induction l as [|x l IH]; intros acc HF; [reflexivity|].
  inversion HF as [|? ? Hx HF']; subst. cbn [hex_bytes flat_map app].
  change (flat_map _ l) with (hex_bytes l). unfold dvalue in *. cbn [fold_left].
  rewrite IH by exact HF'. f_equal.
  rewrite !digit_val_char.
  - rewrite (N.div_mod' x 16) at 3. lia.
  - assert (x mod 16 < 16)%N by (apply N.mod_lt; lia). lia.
  - assert (x / 16 < 16)%N by (apply N.div_lt_upper_bound; lia). lia.
Qed.

Lemma be_value_bytes : forall l acc,
  Z.of_N (fold_left (fun a x => (a * 256 + x)%N) l acc) = fold_left (be_step 8) (map Z.of_N l) (Z.of_N acc).
Proof.
  induction l as [|x l IH]; intros acc; [reflexivity|]. cbn [fold_left map]. rewrite IH. f_equal.
  unfold be_step. change (2 ^ Z.of_nat 8) with 256. lia.
Qed.

Lemma ceil_div_mul n : ceil_div (n * 8) 8 = n.
Proof. unfold ceil_div. rewrite Nat.mod_mul, Nat.div_mul by lia. reflexivity. Qed.

(* every non-empty byte array output: PrintResults prints hex_bytes; "0x" +
   that text, parsed for the same array type, puts the same bytes on the wires *)
Lemma print_bytes_reparse l :
  l <> [] -> Forall (fun x => (x < 256)%N) l ->
  let m := TyArray (TyUint 8) (length l) in
  print_value 0 (decoded m (GBytes l)) = hex_bytes l /\
  exists r, parse (leaf_arg m) [[48; 120]%N ++ hex_bytes l] = Ok r /\
    wires r (bits_of m) = gin_wires m (GBytes l).
Proof.
  intros Hne HF m. split.
  - unfold m. cbn [decoded]. unfold out_slice, pad_elems. rewrite Nat.sub_diag. simpl repeat. rewrite app_nil_r.
    cbn [elem_tag fst snd]. change (go_width 8) with 8%nat. cbn [print_value fst snd].
    change (Nat.eqb 3 3 && Nat.eqb 8 8) with true. cbv iota. f_equal.
    unfold slice_bytes. rewrite !map_map. rewrite <- (map_id l) at 2. apply map_ext. intros x.
    cbn [elem_out]. unfold go_int. change (go_width 8) with 8%nat. cbv iota. apply N2Z.id.
  - apply parse_leaf_canonical.
    + simpl. repeat split; try lia. exact HF.
    + cbn [spells bits_of].
      assert (Es : set_string ([48; 120]%N ++ hex_bytes l) = Some (be_value 8 (map Z.of_N l))).
      { cbn [app]. unfold set_string. change (48 =? 45)%N with false. change (48 =? 43)%N with false.
        simpl orb. cbv iota. rewrite nat_scan_hex.
        - rewrite hex_bytes_value by exact HF. f_equal. unfold be_value. apply (be_value_bytes l 0).
        - apply hex_bytes_valid. exact HF.
        - destruct l; [contradiction|discriminate]. }
      split; [exact Es|].
      unfold literal_elems, literal_bit_len. change (has_prefix s_0x ([48; 120]%N ++ hex_bytes l)) with true. cbv iota.
      rewrite app_length, hex_bytes_length. simpl length.
      replace ((2 + 2 * length l - 2) * 4)%nat with (length l * 8)%nat by lia. apply ceil_div_mul.
Qed.

Example ex_print_bytes :
  print_value 0 (decoded (TyArray (TyUint 8) 3) (GBytes [161; 2; 3]%N)) = [97; 49; 48; 50; 48; 51]%N.   (* "a10203" *)
Proof. vm_compute. reflexivity. Qed.

(* ------------------------------------------------------------------ *)
(** * Sizes / InputSizes of whole argument lists (compound values) *)

(* InputSizes is computed input by input: the list is accepted exactly when
   every input is, and size i depends on input i alone *)
Lemma input_sizes_iff : forall ss ns,
  input_sizes ss = Ok ns <-> Forall2 (fun s n => input_size s = Ok n) ss ns.
Proof.
  intros ss ns. split; [|apply input_sizes_each]. revert ns.
  induction ss as [|s ss IH]; intros ns H; simpl in H.
  - inversion H. constructor.
  - destruct (input_size s) as [n| |] eqn:E; try discriminate.
    destruct (input_sizes ss) as [r| |]; simpl in H; try discriminate.
    inversion H; subst. constructor; [exact E | apply IH; reflexivity].
Qed.

Lemma sizes_cons v vs n ns : sizes [v] = Ok [n] -> sizes vs = Ok ns -> sizes (v :: vs) = Ok (n :: ns).
Proof.
  unfold sizes. intros H1 H2. cbn [sizes_gen] in *. rewrite H2.
  destruct v; simpl in *; inversion H1; reflexivity.
Qed.

Lemma sizes_uncons v vs l : sizes (v :: vs) = Ok l ->
  exists n ns, l = n :: ns /\ sizes [v] = Ok [n] /\ sizes vs = Ok ns.
Proof.
  unfold sizes. cbn [sizes_gen]. intros H.
  destruct v; simpl in *; try discriminate;
    destruct (sizes_gen bit_len_now vs) as [r| |]; simpl in *; try discriminate;
    inversion H; subst; eexists _, _; repeat split; reflexivity.
Qed.

(* … and so is Sizes *)
Lemma sizes_iff : forall vs ns,
  sizes vs = Ok ns <-> Forall2 (fun v n => sizes [v] = Ok [n]) vs ns.
Proof.
  intros vs ns. split.
  - revert ns. induction vs as [|v vs IH]; intros ns H.
    + inversion H. constructor.
    + destruct (sizes_uncons v vs ns H) as (n & ns' & -> & H1 & H2). constructor; [exact H1 | apply IH; exact H2].
  - induction 1 as [|v n vs ns H1 HF IH]; [reflexivity|]. apply sizes_cons; assumption.
Qed.

(* "the text s is a spelling of the Go value v" for the size inference:
   a uint64 in any plain spelling (0 written "0"), a bool in any of its
   spellings, a byte slice as a 0x literal with two digits per byte (the
   empty slice "0x"), nil as "_" *)
Inductive size_spelled : gin -> list N -> Prop :=
| ssp_int z s :
    0 <= z < 2 ^ 64 -> set_string s = Some z -> match_hex_input s = None ->
    has_prefix s_0x s = false -> (z = 0 -> s = s_0) -> size_spelled (GInt z) s
| ssp_bool (b : bool) s :
    mem_str s (if b then bool_true_spellings else bool_false_spellings) = true -> size_spelled (GBool b) s
| ssp_bytes l : size_spelled (GBytes l) ([48; 120]%N ++ hex_bytes l)
| ssp_nil : size_spelled GNil s_underscore.

Lemma size_spelled_one v s : size_spelled v s -> exists n, sizes [v] = Ok [n] /\ input_size s = Ok n.
Proof.
  intros H. destruct H as [z s Hz Hs Hm Hp H0 | b s Hb | l | ].
  - destruct (sizes_eq_input_sizes s z Hz Hs Hm Hp H0) as (n & E1 & E2 & _).
    exists n. split; [exact E1|]. apply input_sizes_iff in E2. inversion E2; subst. assumption.
  - exists 1%nat. split; [reflexivity|].
    assert (Hc : In s (bool_true_spellings ++ bool_false_spellings)).
    { unfold mem_str in Hb. destruct b; simpl existsb in Hb; repeat rewrite orb_true_iff in Hb;
        destruct Hb as [Hb|[Hb|[Hb|Hb]]]; try discriminate; apply lN_eqb_eq in Hb; subst s; simpl; tauto. }
    simpl in Hc. destruct Hc as [<-|[<-|[<-|[<-|[<-|[<-|[]]]]]]]; reflexivity.
  - exists (length l * 8)%nat. split; [apply (sizes_bytes bit_len_now)|].
    unfold input_size. cbn [app].
    change (lN_eqb (48 :: 120 :: hex_bytes l)%N s_underscore) with false. cbv iota.
    change (mem_str (48 :: 120 :: hex_bytes l)%N bool_false_spellings) with false.
    change (mem_str (48 :: 120 :: hex_bytes l)%N bool_true_spellings) with false.
    change (has_prefix s_0x (48 :: 120 :: hex_bytes l)%N) with true. cbn [orb]. cbv iota.
    cbn [length]. rewrite hex_bytes_length. f_equal. lia.
  - exists O. split; reflexivity.
Qed.

(* Go values versus text for WHOLE argument lists: every list of Go values
   (uint64 incl. 0, bool, []byte of any length, nil), every list of spellings
   of them: circuit.Sizes and circuit.InputSizes infer the same size list *)
Lemma sizes_eq_input_sizes_list : forall vs ss,
  Forall2 size_spelled vs ss -> exists ns, sizes vs = Ok ns /\ input_sizes ss = Ok ns /\ length ns = length vs.
Proof.
  induction 1 as [|v s vs ss H HF IH].
  - exists []. repeat split.
  - destruct IH as (ns & E1 & E2 & El). destruct (size_spelled_one v s H) as (n & H1 & H2).
    exists (n :: ns). split; [apply sizes_cons; assumption|]. split; [|simpl; lia].
    apply input_sizes_iff. constructor; [exact H2 | apply input_sizes_iff; exact E2].
Qed.

Example ex_size_spelled :
  Forall2 size_spelled [GInt 300; GBool true; GBytes [161; 2]%N; GNil; GInt 0]
          [[51; 48; 48]%N; [116]%N; [48; 120; 97; 49; 48; 50]%N; s_underscore; s_0] /\
  sizes [GInt 300; GBool true; GBytes [161; 2]%N; GNil; GInt 0] = Ok [9; 1; 16; 0; 1]%nat.
Proof.
  split; [|reflexivity].
  constructor; [apply ssp_int; try reflexivity; [lia | intros; discriminate]|].
  constructor; [apply (ssp_bool true); reflexivity|].
  constructor; [apply (ssp_bytes [161; 2]%N)|].
  constructor; [apply ssp_nil|].
  constructor; [apply ssp_int; try reflexivity; lia|constructor].
Qed.

(* ------------------------------------------------------------------ *)
(** * mpc.Result on string outputs *)

(* the wire value of a stringN output holding the bytes l: byte i on wires [8i, 8i+8) *)
Definition str_value (l : list N) : Z := le_value 8 (map Z.of_N l).

(* the Go string Result builds: one rune per byte, printable as itself (UTF-8), anything else \u00XX *)
Definition render (l : list N) : list N := flat_map (fun x => string_rune (Z.of_N x)) l.

Lemma mask_of_8 : mask_of 8 = 255.
Proof. reflexivity. Qed.

(* every string width that is a multiple of 8, every byte content (NUL
   bytes anywhere, bytes >= 0x80): Result renders exactly one rune per byte, in
   order, byte 0 first; the argument is unchanged *)
Lemma result_string l :
  Forall (fun x => (x < 256)%N) l ->
  result (info_of (TyString (length l * 8))) (str_value l) = Ok (OStr (render l), str_value l).
Proof.
  intros HF. unfold result, result_gen. cbn [info_of].
  replace (kind_is (Info types_TString (length l * 8) 0 None [] true) types_TArray
           || kind_is (Info types_TString (length l * 8) 0 None [] true) types_TSlice) with false by reflexivity.
  unfold result_scalar.
  replace (kind_is (Info types_TString (length l * 8) 0 None [] true) types_TString) with true by reflexivity.
  cbn [i_bits]. rewrite Nat.div_mul by lia. f_equal. f_equal. f_equal.
  unfold render. rewrite !flat_map_concat_map. f_equal.
  rewrite <- (map_length Z.of_N l).
  rewrite <- (map_map Z.of_N string_rune), (map_nth_seq string_rune 0 (map Z.of_N l)).
  apply map_ext_in. intros i Hi. apply in_seq in Hi. f_equal.
  rewrite <- mask_of_8. apply (le_chunk 8); [|lia].
  apply bytes_in_range; [lia|exact HF].
Qed.

(* reading the first rune back: every '\' of the output starts a 6-character escape *)
Definition unhex (c : N) : N := if (c <? 58)%N then (c - 48)%N else (c - 87)%N.
Definition unrender_head (out : list N) : option (N * list N) :=
  match out with
  | [] => None
  | c :: rest =>
      if (c =? 92)%N then
        match rest with
        | _ :: _ :: _ :: h1 :: h2 :: rest' => Some ((unhex h1 * 16 + unhex h2)%N, rest')
        | _ => None
        end
      else if (c <? 128)%N then Some (c, rest)
      else match rest with
           | d :: rest' => Some (((c - 192) * 64 + (d - 128))%N, rest')
           | [] => None
           end
  end.

Lemma unrender_head_rune : forall x, (x < 256)%N ->
  forall rest, unrender_head (string_rune (Z.of_N x) ++ rest) = Some (x, rest).
Proof.
  assert (H : Forall (fun x => forall rest,
                        unrender_head (string_rune (Z.of_N x) ++ rest) = Some (x, rest))
                     (map N.of_nat (seq 0 256))).
  { cbv [seq map N.of_nat Pos.of_succ_nat Pos.succ].
    repeat (constructor; [intros rest; reflexivity|]). constructor. }
  intros x Hx. rewrite Forall_forall in H. apply H.
  rewrite <- (N2Nat.id x). apply in_map. apply in_seq. lia.
Qed.

(* LOSSLESS: every two byte contents (of any lengths, any bytes) that render
   to the same Go string are equal *)
Lemma render_injective : forall l1 l2,
  Forall (fun x => (x < 256)%N) l1 -> Forall (fun x => (x < 256)%N) l2 ->
  render l1 = render l2 -> l1 = l2.
Proof.
  induction l1 as [|x l1 IH]; intros [|y l2] H1 H2 E.
  - reflexivity.
  - exfalso. inversion H2; subst. unfold render in E. cbn [flat_map] in E.
    pose proof (unrender_head_rune y ltac:(assumption) (render l2)) as Hy.
    unfold render in Hy. rewrite <- E in Hy. discriminate.
  - exfalso. inversion H1; subst. unfold render in E. cbn [flat_map] in E.
    pose proof (unrender_head_rune x ltac:(assumption) (render l1)) as Hx.
    unfold render in Hx. rewrite E in Hx. discriminate.
  - inversion H1; inversion H2; subst.
    pose proof (unrender_head_rune x ltac:(assumption) (render l1)) as Hx.
    pose proof (unrender_head_rune y ltac:(assumption) (render l2)) as Hy.
    unfold render in *. cbn [flat_map] in E. rewrite E in Hx. rewrite Hx in Hy. inversion Hy; subst.
    f_equal. apply IH; assumption.
Qed.

Example ex_result_string :
  result (info_of (TyString 24)) (str_value [97; 0; 233]%N)
  = Ok (OStr [97; 92; 117; 48; 48; 48; 48; 195; 169]%N, str_value [97; 0; 233]%N).   (* "a\u0000é" *)
Proof. vm_compute. reflexivity. Qed.

(* at the level of Result: two contents (any bytes, the backslash included)
   that decode to the same Go string are the same content *)
Lemma result_string_lossless l1 l2 :
  Forall (fun x => (x < 256)%N) l1 -> Forall (fun x => (x < 256)%N) l2 ->
  map_fst (result (info_of (TyString (length l1 * 8))) (str_value l1))
  = map_fst (result (info_of (TyString (length l2 * 8))) (str_value l2)) ->
  l1 = l2.
Proof.
  intros H1 H2 E. rewrite (result_string l1 H1), (result_string l2 H2) in E. simpl in E.
  inversion E. apply render_injective; assumption.
Qed.

(* the former F44 pair: now two different Go strings *)
Example ex_backslash_pair :
  map_fst (result (info_of (TyString 56)) (str_value [92; 117; 48; 48; 48; 48; 0]%N))
  <> map_fst (result (info_of (TyString 56)) (str_value [0; 92; 117; 48; 48; 48; 48]%N)).
Proof. vm_compute. discriminate. Qed.
