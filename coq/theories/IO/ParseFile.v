(* ParseFile.v — executable model of the FRONT DOORS of the circuit readers and of what a parse
   leaves in Circuit.Stats:
     circuit/parser.go  : IsFilename, Parse(file) (os.Open, dispatch on the file-name suffix),
                          `stats[op]++` in the gate loops of ParseMPCLC / ParseBristol
     circuit/circuit.go : Stats (array [MaxWidth+1]uint64), Stats.Count, NumXOR, NumNonXOR, Cost,
                          Circuit.Cost
   The parsers themselves are IO/Marshal.v.  No proofs in this file.

   Library behaviour written into the model: strings.HasSuffix(s, suf) = len(s) >= len(suf) &&
   s[len(s)-len(suf):] == suf (byte-wise); os.Open either fails (content = None) or gives a reader
   that delivers the bytes of the file (a regular file: what is asked for, as bytes.Reader).
   The uint64 counters are modelled unbounded (every count is below the length of the input). *)
From Coq Require Import ZArith NArith List Bool Arith.
From Mpc Require Import Gen.Consts Circuit.Circuit IO.Marshal.
Import ListNotations.
Open Scope N_scope.

(* ------------------------------------------------------------------ *)
(* strings.HasSuffix *)
Definition has_suffix (s suffix : list byte) : bool :=
  (length suffix <=? length s)%nat && list_eqb (skipn (length s - length suffix) s) suffix.

Definition s_dot_circ : list byte := [46; 99; 105; 114; 99].          (* ".circ" *)
Definition s_dot_bristol : list byte := 46 :: s_bristol.               (* ".bristol" *)
Definition s_dot_mpclc : list byte := 46 :: s_mpclc.                   (* ".mpclc" *)

(* IsFilename *)
Definition IsFilename (file : list byte) : bool :=
  has_suffix file s_dot_circ || has_suffix file s_dot_bristol || has_suffix file s_dot_mpclc.

(* the if / else-if chain of Parse *)
Inductive parser_sel := SelBristol | SelMPCLC | SelNone.
Definition select_parser (file : list byte) : parser_sel :=
  if has_suffix file s_dot_circ || has_suffix file s_dot_bristol then SelBristol
  else if has_suffix file s_dot_mpclc then SelMPCLC
  else SelNone.

(* Parse(file).  content = None: os.Open fails (the error is returned before the suffix is
   looked at); SelNone: "unsupported circuit format". *)
Definition ParseFile (file : list byte) (content : option (list byte)) : res fcircuit :=
  match content with
  | None => Err
  | Some bs =>
      match select_parser file with
      | SelBristol => ParseBristol bs
      | SelMPCLC => ParseMPCLC bs
      | SelNone => Err
      end
  end.

(* ------------------------------------------------------------------ *)
(* Circuit.Stats as the parsers leave it: `var stats Stats` (all zero), then `stats[op]++` for
   every accepted gate, in file order *)
Definition stats_t := list N.
Definition stats_zero : stats_t := repeat 0 (Z.to_nat (circuit_MaxWidth + 1)).

Fixpoint stats_inc (st : stats_t) (i : nat) : stats_t :=
  match st, i with
  | [], _ => []                                  (* index out of range: cannot happen for i <= INV *)
  | x :: t, O => (x + 1) :: t
  | x :: t, S k => x :: stats_inc t k
  end.

Definition parse_stats (gs : list gateN) : stats_t :=
  fold_left (fun st g => stats_inc st (N.to_nat (op_code (g_op g)))) gs stats_zero.

Definition stats_at (st : stats_t) (i : Z) : N := nth (Z.to_nat i) st 0.

(* Stats.Count: for i := XOR; i < Count; i++ { result += stats[i] } *)
Definition stats_count (st : stats_t) : N :=
  fold_left (fun a i => a + nth i st 0)
            (seq (Z.to_nat circuit_XOR) (Z.to_nat (circuit_Count - circuit_XOR))) 0.
(* Stats.NumXOR, Stats.NumNonXOR, Stats.Cost *)
Definition stats_numxor (st : stats_t) : N := stats_at st circuit_XOR + stats_at st circuit_XNOR.
Definition stats_numnonxor (st : stats_t) : N :=
  stats_at st circuit_AND + stats_at st circuit_OR + stats_at st circuit_INV.
Definition stats_cost (st : stats_t) : N :=
  (stats_at st circuit_AND + stats_at st circuit_INV) * 2 + stats_at st circuit_OR * 3.

(* the relative cost of one gate that Stats.Cost adds up *)
Definition gate_cost (o : op) : N :=
  match o with XOR | XNOR => 0 | AND | INV => 2 | OR => 3 end.
Definition count_op (o : op) (gs : list gateN) : N :=
  nlen (filter (fun g => N.eqb (op_code (g_op g)) (op_code o)) gs).

(* Parse(file) together with the Stats of the returned circuit *)
Definition ParseFileStats (file : list byte) (content : option (list byte)) : res (fcircuit * stats_t) :=
  do c <- ParseFile file content; Ok (c, parse_stats (c_gates c)).
