(* Sha2pcProof.v — theorems about the sha2pc codec / round model
   (IO/Sha2pcCodec.v).  Property C18. *)
From Coq Require Import ZArith NArith List Bool Arith Lia ZifyN ZifyNat.
From Mpc Require Import Gen.Consts Base.Codec Base.CodecProof IO.Sha2pcCodec.
Import ListNotations.
Open Scope N_scope.

(* ====================================================================== *)
(* shift-based primitives = Base.Codec primitives                          *)

Lemma be_s_be k : forall x, be_s k x = be k x.
Proof.
  induction k as [|k IH]; intros x; cbn [be_s be]; [reflexivity|].
  rewrite IH, N.shiftr_div_pow2. change (2 ^ 8) with 256.
  change 255 with (N.ones 8). rewrite N.land_ones. reflexivity.
Qed.

Lemma of_be_s_of_be l : of_be_s l = of_be l.
Proof.
  unfold of_be_s, of_be. generalize 0. induction l as [|b l IH]; intros a; cbn [fold_left]; [reflexivity|].
  rewrite IH, N.shiftl_mul_pow2. reflexivity.
Qed.

Lemma byte_bits_N_to_bits k : forall x, byte_bits k x = N_to_bits k x.
Proof.
  induction k as [|k IH]; intros x; cbn [byte_bits N_to_bits]; [reflexivity|].
  rewrite IH, N.div2_div. reflexivity.
Qed.

Lemma be_s_length k x : length (be_s k x) = k.
Proof. rewrite be_s_be. apply be_length. Qed.

Lemma of_be_s_be_s k x : x < 256 ^ N.of_nat k -> of_be_s (be_s k x) = x.
Proof. intros H. rewrite of_be_s_of_be, be_s_be, of_be_be. apply N.mod_small; exact H. Qed.

Lemma bits_to_N_byte_bits k : forall x, bits_to_N (byte_bits k x) = x mod 2 ^ N.of_nat k.
Proof.
  induction k as [|k IH]; intros x; cbn [byte_bits bits_to_N].
  - cbn. rewrite N.mod_1_r. reflexivity.
  - rewrite IH, Nat2N.inj_succ, N.pow_succ_r'.
    assert (Hp : 2 ^ N.of_nat k <> 0) by (apply N.pow_nonzero; lia).
    rewrite N.mod_mul_r by lia.
    rewrite N.div2_div.
    replace (if N.odd x then 1 else 0) with (x mod 2).
    2:{ rewrite <- N.bit0_mod, N.bit0_odd. destruct (N.odd x); reflexivity. }
    lia.
Qed.

Lemma byte_bits_length k x : length (byte_bits k x) = k.
Proof. revert x; induction k as [|k IH]; intros x; cbn [byte_bits length]; [reflexivity|]. rewrite IH. reflexivity. Qed.

(* ====================================================================== *)
(* res monad                                                               *)

Lemma bytes_eqb_refl a : bytes_eqb a a = true.
Proof. unfold bytes_eqb. induction a as [|x a IH]; cbn [list_eqb]; [reflexivity|]. rewrite N.eqb_refl, IH. reflexivity. Qed.

Lemma bytes_eqb_eq a : forall b, bytes_eqb a b = true <-> a = b.
Proof.
  unfold bytes_eqb.
  induction a as [|x a IH]; intros [|y b]; cbn [list_eqb]; split; intros H; try reflexivity; try discriminate.
  - apply andb_prop in H. destruct H as [H1 H2]. apply N.eqb_eq in H1. apply IH in H2. subst. reflexivity.
  - injection H as -> ->. rewrite N.eqb_refl. apply (proj2 (IH b)). reflexivity.
Qed.

Lemma bytes_eqb_neq a b : a <> b -> bytes_eqb a b = false.
Proof. intros H. destruct (bytes_eqb a b) eqn:E; [|reflexivity]. apply bytes_eqb_eq in E. contradiction. Qed.

Definition not_panic {A} (r : res A) : Prop := r <> Panic.

Lemma bind_not_panic {A B} (r : res A) (f : A -> res B) :
  not_panic r -> (forall a, r = Ok a -> not_panic (f a)) -> not_panic (bind r f).
Proof. unfold not_panic. destruct r; cbn; intros H1 H2; [apply H2; reflexivity|discriminate|contradiction]. Qed.

Lemma guard_not_panic b : not_panic (guard b).
Proof. destruct b; discriminate. Qed.

(* ====================================================================== *)
(* bits.go                                                                 *)

Lemma bitsToBytesLittle_8 b0 b1 b2 b3 b4 b5 b6 b7 t :
  bitsToBytesLittle (b0 :: b1 :: b2 :: b3 :: b4 :: b5 :: b6 :: b7 :: t)
  = bits_to_N [b0; b1; b2; b3; b4; b5; b6; b7] :: bitsToBytesLittle t.
Proof. reflexivity. Qed.

Lemma byte_bits_8 b : byte_bits 8 b =
  [N.odd b; N.odd (N.div2 b); N.odd (N.div2 (N.div2 b)); N.odd (N.div2 (N.div2 (N.div2 b)));
   N.odd (N.div2 (N.div2 (N.div2 (N.div2 b)))); N.odd (N.div2 (N.div2 (N.div2 (N.div2 (N.div2 b)))));
   N.odd (N.div2 (N.div2 (N.div2 (N.div2 (N.div2 (N.div2 b))))));
   N.odd (N.div2 (N.div2 (N.div2 (N.div2 (N.div2 (N.div2 (N.div2 b)))))))].
Proof. reflexivity. Qed.

(* bitsToBytesLittle (bytesToBitsLittle bs) = bs for byte values *)
Theorem bits_bytes_roundtrip bs :
  Forall (fun b => b < 256) bs -> bitsToBytesLittle (bytesToBitsLittle bs) = bs.
Proof.
  induction 1 as [|b bs Hb _ IH]; [reflexivity|].
  unfold bytesToBitsLittle in *. cbn [flat_map].
  pose proof (bits_to_N_byte_bits 8 b) as E. rewrite byte_bits_8 in *.
  cbn [app]. rewrite bitsToBytesLittle_8, IH, E.
  change (2 ^ N.of_nat 8) with 256. rewrite N.mod_small by exact Hb. reflexivity.
Qed.

Lemma bytesToBitsLittle_length bs : length (bytesToBitsLittle bs) = (8 * length bs)%nat.
Proof.
  unfold bytesToBitsLittle. induction bs as [|b bs IH]; [reflexivity|].
  cbn [flat_map length]. rewrite app_length, byte_bits_length, IH. lia.
Qed.

(* a short final group is padded with false bits *)
Lemma byte_bits_of_bits l : (length l <= 8)%nat ->
  byte_bits 8 (bits_to_N l) = l ++ repeat false (8 - length l).
Proof.
  intros H.
  destruct l as [|b0 [|b1 [|b2 [|b3 [|b4 [|b5 [|b6 [|b7 [|b8 l]]]]]]]]]; cbn [length] in H; try lia;
    repeat match goal with b : bool |- _ => destruct b end; vm_compute; reflexivity.
Qed.

(* the partial-byte case: (len+7)/8 bytes, the bits come back followed by
   fewer than 8 false padding bits *)
Theorem bytes_bits_roundtrip_pad : forall bits,
  exists pad, (pad < 8)%nat /\
    bytesToBitsLittle (bitsToBytesLittle bits) = bits ++ repeat false pad /\
    (length bits + pad = 8 * length (bitsToBytesLittle bits))%nat /\
    length (bitsToBytesLittle bits) = ((length bits + 7) / 8)%nat.
Proof.
  intros bits. remember (length bits) as n eqn:Hn. revert bits Hn.
  induction n as [n IH] using lt_wf_ind. intros bits Hn.
  destruct bits as [|b0 [|b1 [|b2 [|b3 [|b4 [|b5 [|b6 [|b7 t]]]]]]]].
  1:{ exists 0%nat. cbn. subst. repeat split; lia. }
  8:{ destruct (IH (length t)) with (bits := t) as (pad & Hp & E & L & L2); [cbn in Hn; lia|reflexivity|].
      exists pad. rewrite bitsToBytesLittle_8. unfold bytesToBitsLittle in *. cbn [flat_map].
      rewrite E. rewrite (byte_bits_of_bits [b0; b1; b2; b3; b4; b5; b6; b7]) by (cbn; lia).
      cbn [length Nat.sub repeat app]. subst n. cbn [length] in *.
      assert (D : forall m, ((8 + m + 7) / 8 = S ((m + 7) / 8))%nat).
      { intros m. replace (8 + m + 7)%nat with (1 * 8 + (m + 7))%nat by lia.
        rewrite Nat.div_add_l by lia. lia. }
      specialize (D (length t)). cbn [Nat.add] in D.
      repeat split; try lia. }
  all: subst n; match goal with |- context [bitsToBytesLittle ?l] =>
         exists (8 - length l)%nat; change (bitsToBytesLittle l) with [bits_to_N l];
         unfold bytesToBitsLittle; cbn [flat_map]; rewrite app_nil_r, byte_bits_of_bits by (cbn; lia);
         cbn; repeat split; lia end.
Qed.

Corollary firstn_bytes_bits bits :
  firstn (length bits) (bytesToBitsLittle (bitsToBytesLittle bits)) = bits.
Proof.
  destruct (bytes_bits_roundtrip_pad bits) as (pad & _ & E & _). rewrite E.
  rewrite firstn_app, Nat.sub_diag, firstn_all. cbn. apply app_nil_r.
Qed.

(* ====================================================================== *)
(* list helpers                                                            *)

Lemma firstn_len_app {A} (a b : list A) : firstn (length a) (a ++ b) = a.
Proof. induction a as [|x a IH]; cbn; [destruct b; reflexivity|]. rewrite IH. reflexivity. Qed.

Lemma skipn_len_app {A} (a b : list A) : skipn (length a) (a ++ b) = b.
Proof. induction a as [|x a IH]; cbn; [reflexivity|exact IH]. Qed.

Lemma firstn_k_app {A} k (a b : list A) : length a = k -> firstn k (a ++ b) = a.
Proof. intros <-. apply firstn_len_app. Qed.

Lemma skipn_k_app {A} k (a b : list A) : length a = k -> skipn k (a ++ b) = b.
Proof. intros <-. apply skipn_len_app. Qed.

(* ====================================================================== *)
(* uvarint / chunks / fixed-width integers                                 *)

Lemma land_shift_zero a b s : a < 2 ^ s -> N.land a (b * 2 ^ s) = 0.
Proof.
  intros H. apply N.bits_inj_0. intros k. rewrite N.land_spec.
  destruct (N.lt_ge_cases k s) as [Hk|Hk].
  - rewrite N.mul_pow2_bits_low by exact Hk. apply andb_false_r.
  - replace (N.testbit a k) with false; [reflexivity|]. symmetry.
    destruct (N.eq_dec a 0) as [->|Ha]; [apply N.bits_0|].
    apply N.bits_above_log2. apply N.log2_lt_pow2; [lia|].
    eapply N.lt_le_trans; [exact H|]. apply N.pow_le_mono_r; lia.
Qed.

Lemma lor_shiftl_add a b s : a < 2 ^ s -> N.lor a (N.shiftl b s) = a + b * 2 ^ s.
Proof.
  intros H. rewrite N.shiftl_mul_pow2.
  pose proof (land_shift_zero a b s H) as Z.
  rewrite <- N.lxor_lor by exact Z. symmetry. apply N.add_nocarry_lxor. exact Z.
Qed.

Lemma lor_128 m : m < 128 -> N.lor m 128 = m + 128.
Proof.
  intros H. change (N.lor m 128) with (N.lor m (N.shiftl 1 7)).
  rewrite lor_shiftl_add by exact H. reflexivity.
Qed.

Lemma uvarint_cont_byte x :
  let b := N.lor (N.land x 127) 128 in (b <? 128) = false /\ N.land b 127 = x mod 128.
Proof.
  cbv zeta. change 127 with (N.ones 7). rewrite !N.land_ones. change (2 ^ 7) with 128.
  pose proof (N.mod_lt x 128 ltac:(lia)) as Hm.
  rewrite lor_128 by exact Hm. split.
  - apply N.ltb_ge. lia.
  - replace (x mod 128 + 128) with (x mod 128 + 1 * 128) by lia.
    rewrite N.mod_add by lia. apply N.mod_small; exact Hm.
Qed.

Lemma put_uvarint_fuel_S f x : put_uvarint_fuel (S f) x =
  if x <? 128 then [x] else (N.lor (N.land x 127) 128) :: put_uvarint_fuel f (N.shiftr x 7).
Proof. reflexivity. Qed.

Lemma read_uvarint_from_S i f x s b r : read_uvarint_from i (S f) x s (b :: r) =
  if b <? 128 then (if (i =? 9)%nat && (1 <? b) then Err else Ok (N.lor x (N.shiftl b s), r))
  else read_uvarint_from (S i) f (N.lor x (N.shiftl (N.land b 127) s)) (s + 7) r.
Proof. reflexivity. Qed.

Lemma read_put_uvarint : forall fuel i x acc rest,
  (i + S fuel = 10)%nat -> x < 2 ^ (64 - 7 * N.of_nat i) -> acc < 2 ^ (7 * N.of_nat i) ->
  read_uvarint_from i (S fuel) acc (7 * N.of_nat i) (put_uvarint_fuel (S fuel) x ++ rest)
  = Ok (acc + x * 2 ^ (7 * N.of_nat i), rest).
Proof.
  induction fuel as [|fuel IH]; intros i x acc rest Hi Hx Hacc.
  - assert (i = 9)%nat by lia. subst i. change (64 - 7 * N.of_nat 9) with 1 in Hx.
    assert (Hx' : x < 2) by exact Hx.
    cbn [put_uvarint_fuel]. replace (x <? 128) with true by (symmetry; apply N.ltb_lt; lia).
    cbn [app read_uvarint_from]. replace (x <? 128) with true by (symmetry; apply N.ltb_lt; lia).
    replace (1 <? x) with false by (symmetry; apply N.ltb_ge; lia).
    rewrite andb_false_r. rewrite lor_shiftl_add by exact Hacc. reflexivity.
  - rewrite put_uvarint_fuel_S. destruct (x <? 128) eqn:E.
    + cbn [app]. rewrite read_uvarint_from_S. rewrite E.
      replace (i =? 9)%nat with false by (symmetry; apply Nat.eqb_neq; lia).
      cbn [andb]. rewrite lor_shiftl_add by exact Hacc. reflexivity.
    + apply N.ltb_ge in E.
      pose proof (uvarint_cont_byte x) as [B1 B2]. cbv zeta in B1, B2.
      rewrite <- app_comm_cons. rewrite read_uvarint_from_S. rewrite B1, B2.
      replace (7 * N.of_nat i + 7) with (7 * N.of_nat (S i)) by lia.
      pose proof (N.mod_lt x 128 ltac:(lia)) as Hm.
      assert (P7 : 2 ^ (7 * N.of_nat (S i)) = 2 ^ (7 * N.of_nat i) * 128).
      { replace (7 * N.of_nat (S i)) with (7 * N.of_nat i + 7) by lia. rewrite N.pow_add_r. reflexivity. }
      rewrite lor_shiftl_add by exact Hacc.
      rewrite IH.
      * f_equal. f_equal. rewrite N.shiftr_div_pow2. change (2 ^ 7) with 128. rewrite P7.
        pose proof (N.div_mod x 128 ltac:(lia)) as D. nia.
      * lia.
      * rewrite N.shiftr_div_pow2. change (2 ^ 7) with 128.
        apply N.div_lt_upper_bound; [lia|].
        replace (64 - 7 * N.of_nat i) with ((64 - 7 * N.of_nat (S i)) + 7) in Hx by lia.
        rewrite N.pow_add_r in Hx. change (2 ^ 7) with 128 in Hx. lia.
      * rewrite P7. assert (0 < 2 ^ (7 * N.of_nat i)) by (apply N.neq_0_lt_0, N.pow_nonzero; lia). nia.
Qed.

Lemma read_uvarint_put n rest : n < 2 ^ 64 -> read_uvarint (put_uvarint n ++ rest) = Ok (n, rest).
Proof.
  intros H. unfold read_uvarint, put_uvarint.
  change 0 with (7 * N.of_nat 0) at 2.
  rewrite read_put_uvarint; [|lia|exact H|cbn; lia].
  cbn. rewrite N.mul_1_r. reflexivity.
Qed.

Lemma chunkSizeLimit_val : chunkSizeLimit = 1048576.
Proof. reflexivity. Qed.

Lemma read_chunk_write_chunk data rest :
  N.of_nat (length data) <= chunkSizeLimit -> data ++ rest <> [] ->
  read_chunk (write_chunk data ++ rest) = Ok (data, rest).
Proof.
  intros Hl Hne. unfold read_chunk, write_chunk. rewrite <- app_assoc.
  rewrite read_uvarint_put by (rewrite chunkSizeLimit_val in Hl; change (2 ^ 64) with 18446744073709551616; lia).
  cbn [bind].
  replace (chunkSizeLimit <? N.of_nat (length data)) with false by (symmetry; apply N.ltb_ge; exact Hl).
  replace (N.of_nat (length (data ++ rest)) <? N.of_nat (length data)) with false
    by (symmetry; apply N.ltb_ge; rewrite app_length; lia).
  destruct (data ++ rest) eqn:E; [contradiction|]. rewrite <- E.
  rewrite Nat2N.id, firstn_len_app, skipn_len_app. reflexivity.
Qed.

Lemma read_full_app k a r : length a = k -> read_full k (a ++ r) = Ok (a, r).
Proof.
  intros <-. unfold read_full. rewrite app_length.
  replace (length a <=? length a + length r)%nat with true by (symmetry; apply Nat.leb_le; lia).
  rewrite firstn_len_app, skipn_len_app. reflexivity.
Qed.

Lemma write_fixed_ok bl v : v < 256 ^ N.of_nat bl -> write_fixed bl v = Ok (be_s bl v).
Proof. intros H. unfold write_fixed. replace (256 ^ N.of_nat bl <=? v) with false by (symmetry; apply N.leb_gt; exact H). reflexivity. Qed.

Lemma read_fixed_be bl v r : v < 256 ^ N.of_nat bl -> read_fixed bl (be_s bl v ++ r) = Ok (v, r).
Proof.
  intros H. unfold read_fixed. rewrite read_full_app by apply be_s_length. cbn [bind].
  rewrite of_be_s_be_s by exact H. reflexivity.
Qed.

Definition fits (bl : nat) (v : N) : Prop := v < 256 ^ N.of_nat bl.

Lemma write_fixed_list_ok bl vs : Forall (fits bl) vs -> write_fixed_list bl vs = Ok (flat_map (be_s bl) vs).
Proof.
  induction 1 as [|v vs Hv _ IH]; [reflexivity|]. cbn [write_fixed_list flat_map].
  rewrite write_fixed_ok by exact Hv. cbn [bind]. rewrite IH. reflexivity.
Qed.

Lemma read_fixed_list_ok bl vs r : Forall (fits bl) vs ->
  read_fixed_list bl (length vs) (flat_map (be_s bl) vs ++ r) = Ok (vs, r).
Proof.
  induction 1 as [|v vs Hv _ IH]; [reflexivity|]. cbn [length read_fixed_list flat_map].
  rewrite <- app_assoc, read_fixed_be by exact Hv. cbn [bind]. rewrite IH. reflexivity.
Qed.

Lemma flat_map_be_s_length bl vs : length (flat_map (be_s bl) vs) = (bl * length vs)%nat.
Proof. induction vs as [|v vs IH]; cbn [flat_map length]; [lia|]. rewrite app_length, be_s_length, IH. lia. Qed.

Lemma curve_name_length c : length (curve_name c) = 5%nat.
Proof. destruct c; reflexivity. Qed.

Lemma curve_name_nonempty c : curve_name c <> [].
Proof. destruct c; discriminate. Qed.

Lemma curve_name_inj c c' : curve_name c = curve_name c' -> c = c'.
Proof. destruct c, c'; intros H; try reflexivity; discriminate. Qed.

Lemma check_name_ok c : check_name c (curve_name c) = Ok (curve_name c).
Proof. unfold check_name. destruct c; reflexivity. Qed.

Lemma write_chunk_name c : write_chunk (curve_name c) = 5 :: curve_name c.
Proof. destruct c; reflexivity. Qed.

Lemma read_chunk_name c rest : read_chunk (write_chunk (curve_name c) ++ rest) = Ok (curve_name c, rest).
Proof.
  apply read_chunk_write_chunk.
  - rewrite curve_name_length, chunkSizeLimit_val. lia.
  - destruct c; discriminate.
Qed.

Lemma byteLen_pos c : (28 <= byteLen c <= 66)%nat.
Proof. destruct c; cbv; lia. Qed.

(* ====================================================================== *)
(* Round 1                                                                 *)

Definition wf_r1 (c : curve) (m : round1) : Prop :=
  r1_sid m < 2 ^ 64 /\ r1_name m = curve_name c /\ fits (byteLen c) (r1_ax m) /\ fits (byteLen c) (r1_ay m).

Lemma sid_fits sid : sid < 2 ^ 64 -> sid < 256 ^ N.of_nat 8.
Proof. intros H. exact H. Qed.

Theorem r1_roundtrip c m : wf_r1 c m ->
  exists b, EncodeRound1 c m = Ok b /\ DecodeRound1 c b = Ok m /\ length b = (16 + 2 * byteLen c)%nat.
Proof.
  destruct m as [sid name ax ay]. intros (Hs & Hn & Hx & Hy). cbn in Hs, Hn, Hx, Hy. subst name.
  unfold EncodeRound1, encodeOTSetup. cbn [r1_sid r1_name r1_ax r1_ay].
  rewrite check_name_ok. cbn [bind]. rewrite !write_fixed_ok by assumption. cbn [bind].
  eexists. split; [reflexivity|]. split.
  - unfold DecodeRound1. rewrite read_full_app by reflexivity. cbn [bind].
    rewrite bytes_eqb_refl. cbn [guard bind].
    rewrite read_full_app by apply be_s_length. cbn [bind].
    unfold decodeOTSetup. rewrite <- ?app_assoc. rewrite read_chunk_name. cbn [bind].
    rewrite bytes_eqb_refl. cbn [guard bind].
    rewrite read_fixed_be by exact Hx. cbn [bind].
    rewrite <- (app_nil_r (be_s (byteLen c) ay)). rewrite read_fixed_be by exact Hy. cbn [bind].
    rewrite bytes_eqb_refl. cbn [guard bind]. rewrite of_be_s_be_s by (apply sid_fits; exact Hs). reflexivity.
  - rewrite write_chunk_name. rewrite !app_length. change (length magicRound1) with 2%nat.
    cbn [length]. rewrite !be_s_length, curve_name_length. lia.
Qed.

(* ====================================================================== *)
(* garbler session                                                         *)

Definition wf_gs (c : curve) (s : gsession) : Prop :=
  gs_sid s < 2 ^ 64 /\ gs_name s = curve_name c /\
  Forall (fits (byteLen c)) [gs_scalar s; gs_ax s; gs_ay s; gs_ainvx s; gs_ainvy s].

Theorem gs_roundtrip c s : wf_gs c s ->
  exists b, EncodeGarblerSession c s = Ok b /\ DecodeGarblerSession c b = Ok s /\
            length b = (18 + 5 * byteLen c)%nat.
Proof.
  destruct s as [sid name sc ax ay ix iy]. intros (Hs & Hn & Hf). cbn in Hs, Hn, Hf. subst name.
  unfold EncodeGarblerSession, encodeCOSenderSetup. cbn [gs_sid gs_name gs_scalar gs_ax gs_ay gs_ainvx gs_ainvy].
  rewrite check_name_ok. cbn [bind]. rewrite write_fixed_list_ok by exact Hf. cbn [bind].
  set (fs := flat_map (be_s (byteLen c)) [sc; ax; ay; ix; iy]).
  assert (Lfs : length fs = (5 * byteLen c)%nat) by (unfold fs; rewrite flat_map_be_s_length; cbn [length]; lia).
  set (inner := write_chunk (curve_name c) ++ fs).
  assert (Li : length inner = (6 + 5 * byteLen c)%nat).
  { unfold inner. rewrite write_chunk_name, app_length. cbn [length]. rewrite curve_name_length. lia. }
  pose proof (byteLen_pos c) as Hbl.
  eexists. split; [reflexivity|]. split.
  - unfold DecodeGarblerSession. rewrite read_full_app by reflexivity. cbn [bind].
    rewrite bytes_eqb_refl. cbn [guard bind].
    rewrite read_full_app by apply be_s_length. cbn [bind].
    rewrite <- (app_nil_r (write_chunk inner)).
    rewrite read_chunk_write_chunk.
    2:{ rewrite Li, chunkSizeLimit_val. lia. }
    2:{ rewrite app_nil_r. intros E. rewrite E in Li. cbn in Li. lia. }
    cbn [bind]. unfold decodeCOSenderSetup, inner. rewrite read_chunk_name. cbn [bind].
    rewrite bytes_eqb_refl. cbn [guard bind].
    rewrite <- (app_nil_r fs). unfold fs.
    change 5%nat with (length [sc; ax; ay; ix; iy]).
    rewrite read_fixed_list_ok by exact Hf. cbn [bind].
    rewrite of_be_s_be_s by (apply sid_fits; exact Hs). reflexivity.
  - rewrite !app_length, be_s_length. change (length magicGarblerSession) with 2%nat.
    unfold write_chunk. rewrite app_length, Li.
    cbn [length]. assert (length (put_uvarint (N.of_nat (6 + 5 * byteLen c))) = 2%nat) by (destruct c; reflexivity).
    lia.
Qed.

(* ====================================================================== *)
(* evaluator session                                                       *)

Definition wf_es (c : curve) (s : esession) : Prop :=
  es_sid s < 2 ^ 64 /\ es_name s = curve_name c /\
  fits (byteLen c) (es_ax s) /\ fits (byteLen c) (es_ay s) /\
  length (es_scalars s) = evaluatorCiphertextCount /\ Forall (fits (byteLen c)) (es_scalars s) /\
  length (es_bits s) = evaluatorCiphertextCount.

(* 48 + 258*byteLen + the uvarint of the inner length (3 bytes for P-521) *)
Definition es_len (c : curve) : nat :=
  (match c with P521 => 51 | _ => 50 end + 258 * byteLen c)%nat.

Lemma reader_read_all k a : length a = k -> a <> [] -> reader_read k a = Ok (a, []).
Proof.
  intros <- Hne. unfold reader_read. destruct a as [|x a]; [contradiction|].
  rewrite firstn_all, skipn_all, Nat.sub_diag. cbn [repeat]. rewrite app_nil_r. reflexivity.
Qed.

Lemma sign_bytes_length bits : length bits = evaluatorCiphertextCount ->
  length (bitsToBytesLittle bits) = evaluatorChoiceSignBytes.
Proof.
  intros H. destruct (bytes_bits_roundtrip_pad bits) as (pad & _ & _ & _ & L). rewrite L, H. reflexivity.
Qed.

Theorem es_roundtrip c s : wf_es c s ->
  exists b, EncodeEvaluatorSession c s = Ok b /\ DecodeEvaluatorSession c b = Ok s /\
            length b = es_len c.
Proof.
  destruct s as [sid name ax ay scalars bits]. intros (Hs & Hn & Hx & Hy & Ls & Fs & Lb).
  cbn [es_sid es_name es_ax es_ay es_scalars es_bits] in *. subst name.
  unfold EncodeEvaluatorSession, encodeChoiceBundle. cbn [es_sid es_name es_ax es_ay es_scalars es_bits].
  rewrite check_name_ok. cbn [bind].
  rewrite write_fixed_list_ok by (repeat constructor; assumption). cbn [bind].
  rewrite Ls, Lb, Nat.eqb_refl. cbn [guard bind].
  rewrite write_fixed_list_ok by exact Fs. cbn [bind].
  pose proof (sign_bytes_length bits Lb) as Lsig. rewrite Lsig, Nat.eqb_refl. cbn [guard bind].
  set (sig := bitsToBytesLittle bits) in *.
  set (ss := flat_map (be_s (byteLen c)) scalars).
  set (aa := flat_map (be_s (byteLen c)) [ax; ay]).
  assert (Lss : length ss = (256 * byteLen c)%nat).
  { unfold ss. rewrite flat_map_be_s_length, Ls. change evaluatorCiphertextCount with 256%nat. lia. }
  assert (Laa : length aa = (2 * byteLen c)%nat) by (unfold aa; rewrite flat_map_be_s_length; cbn [length]; lia).
  assert (Lsig' : length sig = 32%nat) by exact Lsig.
  set (inner := write_chunk (curve_name c) ++ aa ++ ss ++ sig).
  assert (Li : length inner = (38 + 258 * byteLen c)%nat).
  { unfold inner. rewrite write_chunk_name, !app_length. cbn [length]. rewrite curve_name_length. lia. }
  pose proof (byteLen_pos c) as Hbl.
  eexists. split; [reflexivity|]. split.
  - unfold DecodeEvaluatorSession. rewrite read_full_app by reflexivity. cbn [bind].
    rewrite bytes_eqb_refl. cbn [guard bind].
    rewrite read_full_app by apply be_s_length. cbn [bind].
    rewrite <- (app_nil_r (write_chunk inner)).
    rewrite read_chunk_write_chunk.
    2:{ rewrite Li, chunkSizeLimit_val. lia. }
    2:{ rewrite app_nil_r. intros E. rewrite E in Li. cbn in Li. lia. }
    cbn [bind]. unfold decodeChoiceBundle, inner. rewrite read_chunk_name. cbn [bind].
    rewrite bytes_eqb_refl. cbn [guard bind].
    unfold aa. change 2%nat with (length [ax; ay]) at 1.
    rewrite read_fixed_list_ok by (repeat constructor; assumption). cbn [bind].
    unfold ss. rewrite <- Ls. rewrite read_fixed_list_ok by exact Fs. cbn [bind].
    rewrite reader_read_all; [|exact Lsig|intros E; rewrite E in Lsig'; discriminate]. cbn [bind].
    rewrite bytesToBitsLittle_length, Lsig'. rewrite Ls.
    change (evaluatorCiphertextCount <=? 8 * 32)%nat with true. cbn [guard bind nth].
    unfold sig. rewrite <- Lb, firstn_bytes_bits.
    rewrite of_be_s_be_s by (apply sid_fits; exact Hs). reflexivity.
  - rewrite !app_length, be_s_length. change (length magicEvalSession) with 2%nat.
    unfold write_chunk. rewrite app_length, Li. unfold es_len.
    assert (length (put_uvarint (N.of_nat (38 + 258 * byteLen c))) = match c with P521 => 3 | _ => 2 end%nat)
      by (destruct c; reflexivity).
    destruct c; lia.
Qed.

(* ====================================================================== *)
(* Round 2                                                                 *)

Lemma slice_eq data pre mid post lo hi :
  data = pre ++ mid ++ post -> lo = length pre -> hi = (lo + length mid)%nat ->
  slice data lo hi = Ok mid.
Proof.
  intros -> -> ->. unfold slice. rewrite !app_length.
  replace (length pre <=? length pre + length mid)%nat with true by (symmetry; apply Nat.leb_le; lia).
  replace (length pre + length mid <=? length pre + (length mid + length post))%nat with true
    by (symmetry; apply Nat.leb_le; lia).
  cbn [andb]. rewrite skipn_len_app.
  replace (length pre + length mid - length pre)%nat with (length mid) by lia.
  rewrite firstn_len_app. reflexivity.
Qed.

Lemma nth_byte_bits : forall k j x, (j < k)%nat -> nth j (byte_bits k x) false = N.testbit x (N.of_nat j).
Proof.
  induction k as [|k IH]; intros j x H; [lia|]. cbn [byte_bits].
  destruct j as [|j]; cbn [nth].
  - symmetry. apply N.bit0_odd.
  - rewrite IH by lia. rewrite N.div2_spec, N.shiftr_spec', N.add_1_r, Nat2N.inj_succ. reflexivity.
Qed.

Lemma testbit_nth : forall bs i, (i / 8 < length bs)%nat ->
  nth i (bytesToBitsLittle bs) false = N.testbit (nth (i / 8) bs 0) (N.of_nat (i mod 8)).
Proof.
  unfold bytesToBitsLittle.
  induction bs as [|b bs IH]; intros i H; [cbn in H; lia|].
  cbn [flat_map]. destruct (Nat.lt_ge_cases i 8) as [Hi|Hi].
  - rewrite app_nth1 by (rewrite byte_bits_length; exact Hi).
    rewrite Nat.div_small, Nat.mod_small by exact Hi. cbn [nth]. apply nth_byte_bits; exact Hi.
  - rewrite app_nth2 by (rewrite byte_bits_length; exact Hi). rewrite byte_bits_length.
    assert (Hd : (i / 8 = S ((i - 8) / 8))%nat).
    { replace i with ((i - 8) + 1 * 8)%nat at 1 by lia. rewrite Nat.div_add by lia. lia. }
    assert (Hm : (i mod 8 = (i - 8) mod 8)%nat).
    { replace i with ((i - 8) + 1 * 8)%nat at 1 by lia. rewrite Nat.mod_add by lia. reflexivity. }
    rewrite Hd, Hm. cbn [nth]. apply IH. cbn [length] in H. lia.
Qed.

Lemma pointSign_pack all i d : (i < length all)%nat ->
  pointSign (packPointSigns all) i = Ok (N.odd (snd (nth i all d))).
Proof.
  intros Hi. unfold packPointSigns.
  set (bits := map (fun p : N * N => N.odd (snd p)) all).
  assert (Lb : length bits = length all) by (unfold bits; apply map_length).
  destruct (bytes_bits_roundtrip_pad bits) as (pad & Hp & E & L1 & L2).
  assert (Hq : (i / 8 < length (bitsToBytesLittle bits))%nat).
  { apply Nat.div_lt_upper_bound; lia. }
  unfold pointSign. destruct (bitsToBytesLittle bits) as [|s0 sr] eqn:Es; [cbn in Hq; lia|].
  rewrite <- Es in *. unfold index.
  destruct (nth_error (bitsToBytesLittle bits) (i / 8)) as [b|] eqn:En.
  2:{ apply nth_error_None in En. lia. }
  cbn [bind]. f_equal.
  apply (nth_error_nth _ _ 0) in En. rewrite <- En, <- testbit_nth by exact Hq.
  rewrite E, app_nth1 by lia. unfold bits.
  rewrite (nth_indep _ false (N.odd (snd d))) by (rewrite map_length; exact Hi).
  rewrite (map_nth (fun p : N * N => N.odd (snd p))). reflexivity.
Qed.

Section R2.
  Variable decompress : curve -> N -> bool -> option (N * N).

  Definition point_ok (c : curve) (p : N * N) : Prop :=
    fits (byteLen c) (fst p) /\ decompress c (fst p) (N.odd (snd p)) = Some p.

  Definition wf_r2 (c : curve) (m : round2) : Prop :=
    r2_sid m < 2 ^ 64 /\ r2_name m = curve_name c /\
    length (r2_choices m) = evaluatorCiphertextCount /\ Forall (point_ok c) (r2_choices m).

  Lemma decodePoints_xs_ok bl : forall vs pre post,
    Forall (fits bl) vs ->
    decodePoints_xs bl (length vs) (length pre) (pre ++ flat_map (be_s bl) vs ++ post) = Ok vs.
  Proof.
    induction vs as [|v vs IH]; intros pre post F; [reflexivity|].
    inversion F as [|? ? Hv F']; subst. cbn [length decodePoints_xs flat_map].
    rewrite (slice_eq _ pre (be_s bl v) (flat_map (be_s bl) vs ++ post)).
    2:{ rewrite <- app_assoc. reflexivity. }
    2:{ reflexivity. }
    2:{ rewrite be_s_length. reflexivity. }
    cbn [bind].
    replace (length pre + bl)%nat with (length (pre ++ be_s bl v)) by (rewrite app_length, be_s_length; reflexivity).
    replace (pre ++ (be_s bl v ++ flat_map (be_s bl) vs) ++ post)
      with ((pre ++ be_s bl v) ++ flat_map (be_s bl) vs ++ post) by (rewrite <- !app_assoc; reflexivity).
    rewrite IH by exact F'. cbn [bind]. rewrite of_be_s_be_s by exact Hv. reflexivity.
  Qed.

  Lemma decodePoints_pts_ok c all : forall l pre,
    all = pre ++ l -> Forall (point_ok c) l ->
    decodePoints_pts decompress c (packPointSigns all) (length pre) (map fst l) = Ok l.
  Proof.
    induction l as [|p l IH]; intros pre E F; [reflexivity|].
    inversion F as [|? ? [Hf Hd] F']; subst. cbn [map decodePoints_pts].
    rewrite (pointSign_pack _ _ p) by (rewrite app_length; cbn [length]; lia).
    cbn [bind]. rewrite app_nth2, Nat.sub_diag by lia. cbn [nth]. rewrite Hd.
    specialize (IH (pre ++ [p])). rewrite app_length in IH. cbn [length] in IH.
    replace (length pre + 1)%nat with (S (length pre)) in IH by lia.
    rewrite IH; [reflexivity| rewrite <- app_assoc; reflexivity | exact F'].
  Qed.

  Theorem r2_roundtrip c m : wf_r2 c m ->
    exists b, EncodeRound2 c m = Ok b /\ DecodeRound2 decompress c b = Ok m /\
              length b = (48 + 256 * byteLen c)%nat.
  Proof.
    destruct m as [sid name pts]. intros (Hs & Hn & Lp & Fp). cbn [r2_sid r2_name r2_choices] in *. subst name.
    unfold EncodeRound2, encodePoints. cbn [r2_sid r2_choices].
    rewrite Lp, Nat.eqb_refl. cbn [guard bind].
    assert (Fx : Forall (fits (byteLen c)) (map fst pts)).
    { apply Forall_map. eapply Forall_impl; [|exact Fp]. intros p [H _]; exact H. }
    rewrite write_fixed_list_ok by exact Fx. cbn [bind].
    assert (Lsig : length (packPointSigns pts) = evaluatorChoiceSignBytes).
    { apply sign_bytes_length. rewrite map_length. exact Lp. }
    rewrite Lsig, Nat.eqb_refl. cbn [guard bind].
    set (xs := flat_map (be_s (byteLen c)) (map fst pts)).
    assert (Lxs : length xs = (evaluatorCiphertextCount * byteLen c)%nat).
    { unfold xs. rewrite flat_map_be_s_length, map_length, Lp. lia. }
    eexists. split; [reflexivity|]. split.
    - unfold DecodeRound2. rewrite read_full_app by reflexivity. cbn [bind].
      rewrite bytes_eqb_refl. cbn [guard bind].
      rewrite read_full_app by apply be_s_length. cbn [bind].
      rewrite read_chunk_name. cbn [bind]. rewrite bytes_eqb_refl. cbn [guard bind].
      unfold decodePoints. rewrite app_length, Lxs, Lsig, Nat.eqb_refl. cbn [guard bind].
      assert (E1 : decodePoints_xs (byteLen c) evaluatorCiphertextCount 0 (xs ++ packPointSigns pts) = Ok (map fst pts)).
      { rewrite <- Lp, <- (map_length fst pts).
        apply (decodePoints_xs_ok (byteLen c) (map fst pts) [] (packPointSigns pts) Fx). }
      rewrite E1. cbn [bind].
      rewrite (slice_eq _ xs (packPointSigns pts) []); [|rewrite app_nil_r; reflexivity|exact (eq_sym Lxs)|rewrite Lsig; reflexivity].
      cbn [bind].
      pose proof (decodePoints_pts_ok c pts pts [] eq_refl Fp) as E2. cbn [length] in E2.
      rewrite E2. cbn [bind].
      rewrite of_be_s_be_s by (apply sid_fits; exact Hs). reflexivity.
    - rewrite write_chunk_name, !app_length. change (length magicRound2) with 2%nat.
      cbn [length]. rewrite be_s_length, curve_name_length, Lxs, Lsig.
      change evaluatorCiphertextCount with 256%nat. change evaluatorChoiceSignBytes with 32%nat. lia.
  Qed.
End R2.


(* ====================================================================== *)
(* Round 3                                                                 *)

Definition fits2 (w : nat) (p : N * N) : Prop := fits w (fst p) /\ fits w (snd p).

Definition wf_r3 (m : round3) : Prop :=
  r3_sid m < 2 ^ 64 /\ length (r3_key m) = garblingKeyBytes /\
  length (r3_tables m) = garbledTableLabelCount /\ Forall (fits 16) (r3_tables m) /\
  length (r3_inputs m) = garblerInputLabelCount /\ Forall (fits 16) (r3_inputs m) /\
  length (r3_hints m) = outputHintCount /\ Forall (fits2 16) (r3_hints m) /\
  length (r3_cts m) = evaluatorCiphertextCount /\ Forall (fits2 16) (r3_cts m).

Lemma split_be_flat w : forall vs, Forall (fits w) vs ->
  split_be w (length vs) (flat_map (be_s w) vs) = vs.
Proof.
  induction 1 as [|v vs Hv _ IH]; [reflexivity|]. cbn [length split_be flat_map].
  rewrite firstn_k_app, skipn_k_app by apply be_s_length. rewrite IH, of_be_s_be_s by exact Hv. reflexivity.
Qed.

Lemma pairs_unpairs l : pairs (unpairs l) = l.
Proof. unfold unpairs. induction l as [|[a b] l IH]; [reflexivity|]. cbn [flat_map app fst snd pairs]. rewrite IH. reflexivity. Qed.

Lemma unpairs_length l : length (unpairs l) = (2 * length l)%nat.
Proof. unfold unpairs. induction l as [|p l IH]; [reflexivity|]. cbn [flat_map app length]. rewrite IH. lia. Qed.

Lemma unpairs_fits w l : Forall (fits2 w) l -> Forall (fits w) (unpairs l).
Proof. unfold unpairs. induction 1 as [|p l [H1 H2] _ IH]; [constructor|]. cbn [flat_map app]. repeat constructor; assumption. Qed.

Lemma encodeLabelList_length ls : length (encodeLabelList ls) = (16 * length ls)%nat.
Proof. apply flat_map_be_s_length. Qed.

Lemma decodeLabelBlock_ok nb count ls : Forall (fits 16) ls -> length ls = count -> nb = (16 * count)%nat ->
  decodeLabelBlock 16 nb count (encodeLabelList ls) = Ok ls.
Proof.
  intros F L ->. unfold decodeLabelBlock. rewrite encodeLabelList_length, L, Nat.eqb_refl. cbn [guard bind].
  rewrite <- L. unfold encodeLabelList. rewrite split_be_flat by exact F. reflexivity.
Qed.

Section R3.
  (* the size parameters as variables; instantiated with params.go below *)
  Variables (kKey nTabB nTab nInB nIn nHintB nHint nCtB nCt total : nat).
  Hypothesis HtabB : nTabB = (16 * nTab)%nat.
  Hypothesis HinB : nInB = (16 * nIn)%nat.
  Hypothesis HhintB : nHintB = (16 * (2 * nHint))%nat.
  Hypothesis HctB : nCtB = (16 * (2 * nCt))%nat.
  Hypothesis Htotal : total = (length magicRound3 + 8 + kKey + nTabB + nInB + nHintB + nCtB)%nat.

  Theorem r3_roundtrip_gen m :
    r3_sid m < 2 ^ 64 -> length (r3_key m) = kKey ->
    length (r3_tables m) = nTab -> Forall (fits 16) (r3_tables m) ->
    length (r3_inputs m) = nIn -> Forall (fits 16) (r3_inputs m) ->
    length (r3_hints m) = nHint -> Forall (fits2 16) (r3_hints m) ->
    length (r3_cts m) = nCt -> Forall (fits2 16) (r3_cts m) ->
    exists b, EncodeRound3_gen nTab nIn nHint nCt total m = Ok b /\
              DecodeRound3_gen 8 kKey 16 nTabB nTab nInB nHintB nHint nCtB nCt total b = Ok m /\
              length b = total.
  Proof.
    destruct m as [sid key tables inputs hints cts].
    cbn [r3_sid r3_key r3_tables r3_inputs r3_hints r3_cts].
    intros Hs Lk Lt Ft Li Fi Lh Fh Lc Fc.
    change (length magicRound3) with 2%nat in Htotal.
    set (T := encodeLabelList tables). set (I := encodeLabelList inputs).
    set (H := encodeLabelList (unpairs hints)). set (C := encodeLabelList (unpairs cts)).
    assert (LT : length T = nTabB) by (unfold T; rewrite encodeLabelList_length, Lt; lia).
    assert (LI : length I = nInB) by (unfold I; rewrite encodeLabelList_length, Li; lia).
    assert (LH : length H = nHintB) by (unfold H; rewrite encodeLabelList_length, unpairs_length, Lh; lia).
    assert (LC : length C = nCtB) by (unfold C; rewrite encodeLabelList_length, unpairs_length, Lc; lia).
    set (out := magicRound3 ++ be_s 8 sid ++ key ++ T ++ I ++ H ++ C).
    assert (Lout : length out = total).
    { unfold out. rewrite !app_length, be_s_length, Lk, LT, LI, LH, LC. change (length magicRound3) with 2%nat. lia. }
    assert (Enc : EncodeRound3_gen nTab nIn nHint nCt total (mkR3 sid key tables inputs hints cts) = Ok out).
    { unfold EncodeRound3_gen. cbn [r3_sid r3_key r3_tables r3_inputs r3_hints r3_cts].
      rewrite Lt, Li, Lh, Lc, !Nat.eqb_refl. cbn [guard bind].
      fold T I H C. fold out. rewrite Lout, Nat.eqb_refl. reflexivity. }
    exists out. split; [exact Enc|]. split; [|exact Lout].
    assert (Lm : length magicRound3 = 2%nat) by reflexivity.
    assert (Ls8 : length (be_s 8 sid) = 8%nat) by apply be_s_length.
    unfold DecodeRound3_gen. rewrite Lout, Nat.eqb_refl. cbn [guard bind]. cbv zeta.
    rewrite Lm.
    rewrite (slice_eq out [] magicRound3 (be_s 8 sid ++ key ++ T ++ I ++ H ++ C)); [|reflexivity|reflexivity|reflexivity].
    cbn [bind]. rewrite bytes_eqb_refl. cbn [guard bind].
    rewrite (slice_eq out magicRound3 (be_s 8 sid) (key ++ T ++ I ++ H ++ C));
      [|reflexivity|reflexivity|rewrite Ls8; reflexivity].
    cbn [bind].
    rewrite (slice_eq out (magicRound3 ++ be_s 8 sid) key (T ++ I ++ H ++ C));
      [|unfold out; rewrite <- !app_assoc; reflexivity|rewrite app_length, Ls8, Lm; reflexivity|rewrite Lk; reflexivity].
    cbn [bind].
    rewrite (slice_eq out (magicRound3 ++ be_s 8 sid ++ key) T (I ++ H ++ C));
      [|unfold out; rewrite <- !app_assoc; reflexivity
       |rewrite !app_length, Ls8, Lk, Lm; lia|rewrite LT; reflexivity].
    cbn [bind]. unfold T at 1. rewrite decodeLabelBlock_ok by (assumption || lia). cbn [bind].
    rewrite (slice_eq out (magicRound3 ++ be_s 8 sid ++ key ++ T) I (H ++ C));
      [|unfold out; rewrite <- !app_assoc; reflexivity
       |rewrite !app_length, Ls8, Lk, LT, Lm; lia|rewrite LI; reflexivity].
    cbn [bind]. unfold I at 1.
    assert (Ediv : (nInB / 16)%nat = nIn) by (rewrite HinB, Nat.mul_comm; apply Nat.div_mul; lia).
    rewrite Ediv. rewrite decodeLabelBlock_ok by (assumption || lia). cbn [bind].
    rewrite (slice_eq out (magicRound3 ++ be_s 8 sid ++ key ++ T ++ I) H C);
      [|unfold out; rewrite <- !app_assoc; reflexivity
       |rewrite !app_length, Ls8, Lk, LT, LI, Lm; lia|rewrite LH; reflexivity].
    cbn [bind]. unfold H at 1.
    rewrite decodeLabelBlock_ok; [|apply unpairs_fits; exact Fh|rewrite unpairs_length, Lh; reflexivity|exact HhintB].
    cbn [bind].
    rewrite (slice_eq out (magicRound3 ++ be_s 8 sid ++ key ++ T ++ I ++ H) C []);
      [|unfold out; rewrite <- !app_assoc, app_nil_r; reflexivity
       |rewrite !app_length, Ls8, Lk, LT, LI, LH, Lm; lia|rewrite LC; reflexivity].
    cbn [bind]. unfold C at 1.
    rewrite decodeLabelBlock_ok; [|apply unpairs_fits; exact Fc|rewrite unpairs_length, Lc; reflexivity|exact HctB].
    cbn [bind]. rewrite !pairs_unpairs, of_be_s_be_s by (apply sid_fits; exact Hs). reflexivity.
  Qed.
End R3.

(* relations between the constants of params.go, on the regenerated values;
   the 686624-byte table size is never evaluated in unary *)
Lemma consts_rel :
  sessionIDBytes = 8%nat /\ labelByteLen = 16%nat /\
  garbledTableByteLen = (16 * garbledTableLabelCount)%nat /\
  garblerInputLabelBytes = (16 * garblerInputLabelCount)%nat /\
  outputHintBytes = (16 * (2 * outputHintCount))%nat /\
  ciphertextBytes = (16 * (2 * evaluatorCiphertextCount))%nat.
Proof.
  assert (Big : garbledTableByteLen = (16 * garbledTableLabelCount)%nat).
  { apply Nat2Z.inj. rewrite Nat2Z.inj_mul. unfold garbledTableByteLen, garbledTableLabelCount.
    rewrite !Z2Nat.id by (unfold sha2pc_garbledTableByteLen, sha2pc_garbledTableLabelCount; lia).
    reflexivity. }
  split; [reflexivity|]. split; [reflexivity|]. split; [exact Big|].
  repeat split; vm_compute; reflexivity.
Qed.

Theorem r3_roundtrip m : wf_r3 m ->
  exists b, EncodeRound3 m = Ok b /\ DecodeRound3 b = Ok m /\ length b = round3PayloadLen.
Proof.
  intros (Hs & Lk & Lt & Ft & Li & Fi & Lh & Fh & Lc & Fc).
  destruct consts_rel as (Csid & Clab & Ctb & Cib & Chb & Ccb).
  assert (Htot : round3PayloadLen = (length magicRound3 + 8 + garblingKeyBytes + garbledTableByteLen
            + garblerInputLabelBytes + outputHintBytes + ciphertextBytes)%nat).
  { unfold round3PayloadLen. rewrite Csid. reflexivity. }
  pose proof (r3_roundtrip_gen garblingKeyBytes garbledTableByteLen garbledTableLabelCount
           garblerInputLabelBytes garblerInputLabelCount outputHintBytes outputHintCount
           ciphertextBytes evaluatorCiphertextCount round3PayloadLen Ctb Cib Chb Ccb Htot m
           Hs Lk Lt Ft Li Fi Lh Fh Lc Fc) as G.
  unfold EncodeRound3, DecodeRound3. rewrite Csid, Clab. exact G.
Qed.

(* ====================================================================== *)
(* rejection: wrong magic, wrong length, other curve                        *)

Lemma round3_len_ge : (2 <= round3PayloadLen)%nat.
Proof.
  unfold round3PayloadLen. change (length magicRound3) with 2%nat.
  generalize sessionIDBytes garblingKeyBytes garbledTableByteLen garblerInputLabelBytes outputHintBytes ciphertextBytes.
  intros; lia.
Qed.

Lemma magic_reject_prefix (A : Type) magic data (k : bytes * bytes -> res A) :
  firstn 2 data <> magic ->
  ('(m, r1) <- read_full 2 data ;; _ <- guard (bytes_eqb m magic) ;; k (m, r1)) = Err.
Proof.
  intros H. unfold read_full. destruct (2 <=? length data)%nat; [|reflexivity].
  cbn [bind]. rewrite bytes_eqb_neq by exact H. reflexivity.
Qed.

Theorem reject_magic_r1 c data : firstn 2 data <> magicRound1 -> DecodeRound1 c data = Err.
Proof.
  intros H. unfold DecodeRound1, read_full. destruct (2 <=? length data)%nat; [|reflexivity].
  cbn [bind]. rewrite bytes_eqb_neq by exact H. reflexivity.
Qed.

Theorem reject_magic_r2 dec c data : firstn 2 data <> magicRound2 -> DecodeRound2 dec c data = Err.
Proof.
  intros H. unfold DecodeRound2, read_full. destruct (2 <=? length data)%nat; [|reflexivity].
  cbn [bind]. rewrite bytes_eqb_neq by exact H. reflexivity.
Qed.

Theorem reject_magic_gs c data : firstn 2 data <> magicGarblerSession -> DecodeGarblerSession c data = Err.
Proof.
  intros H. unfold DecodeGarblerSession, read_full. destruct (2 <=? length data)%nat; [|reflexivity].
  cbn [bind]. rewrite bytes_eqb_neq by exact H. reflexivity.
Qed.

Theorem reject_magic_es c data : firstn 2 data <> magicEvalSession -> DecodeEvaluatorSession c data = Err.
Proof.
  intros H. unfold DecodeEvaluatorSession, read_full. destruct (2 <=? length data)%nat; [|reflexivity].
  cbn [bind]. rewrite bytes_eqb_neq by exact H. reflexivity.
Qed.

Theorem reject_length_r3 data : length data <> round3PayloadLen -> DecodeRound3 data = Err.
Proof.
  intros H. unfold DecodeRound3, DecodeRound3_gen.
  replace (length data =? round3PayloadLen)%nat with false by (symmetry; apply Nat.eqb_neq; exact H).
  reflexivity.
Qed.

Theorem reject_magic_r3 data : firstn 2 data <> magicRound3 -> DecodeRound3 data = Err.
Proof.
  intros H. unfold DecodeRound3, DecodeRound3_gen.
  destruct (length data =? round3PayloadLen)%nat eqn:E; [|reflexivity].
  apply Nat.eqb_eq in E. cbn [guard bind]. cbv zeta. change (length magicRound3) with 2%nat.
  unfold slice at 1. pose proof round3_len_ge as G.
  replace ((0 <=? 0 + 2)%nat && (0 + 2 <=? length data)%nat) with true
    by (symmetry; apply andb_true_intro; split; apply Nat.leb_le; [|rewrite E; revert G; generalize round3PayloadLen; intros]; lia).
  cbn [bind Nat.add Nat.sub skipn]. rewrite bytes_eqb_neq by exact H. reflexivity.
Qed.

Lemma Ok_inj {A} (a b : A) : Ok a = Ok b -> a = b.
Proof. intros H. congruence. Qed.

(* a Round2 payload is rejected when its total length is wrong, provided
   its curve-name chunk is in the canonical (minimal uvarint) form *)
Theorem reject_length_r2_canonical dec c sid8 rest :
  length sid8 = 8%nat -> length rest <> (evaluatorCiphertextCount * byteLen c + evaluatorChoiceSignBytes)%nat ->
  DecodeRound2 dec c (magicRound2 ++ sid8 ++ write_chunk (curve_name c) ++ rest) = Err.
Proof.
  intros L8 H. unfold DecodeRound2. rewrite read_full_app by reflexivity. cbn [bind].
  rewrite bytes_eqb_refl. cbn [guard bind]. rewrite read_full_app by exact L8. cbn [bind].
  rewrite read_chunk_name. cbn [bind]. rewrite bytes_eqb_refl. cbn [guard bind].
  unfold decodePoints.
  replace (length rest =? _)%nat with false by (symmetry; apply Nat.eqb_neq; exact H). reflexivity.
Qed.

(* the encoding of one curve is rejected by the decoder of another *)
Theorem reject_curve_r1 c c' m b : c <> c' -> wf_r1 c m -> EncodeRound1 c m = Ok b -> DecodeRound1 c' b = Err.
Proof.
  intros Hc (Hs & Hn & Hx & Hy). destruct m as [sid name ax ay]. cbn [r1_sid r1_name r1_ax r1_ay] in *. subst name.
  unfold EncodeRound1, encodeOTSetup. cbn [r1_sid r1_name r1_ax r1_ay].
  rewrite check_name_ok. cbn [bind]. rewrite !write_fixed_ok by assumption. cbn [bind].
  intros E. apply Ok_inj in E. subst b.
  unfold DecodeRound1. rewrite read_full_app by reflexivity. cbn [bind].
  rewrite bytes_eqb_refl. cbn [guard bind]. rewrite read_full_app by apply be_s_length. cbn [bind].
  unfold decodeOTSetup. rewrite <- ?app_assoc. rewrite read_chunk_name. cbn [bind].
  rewrite bytes_eqb_neq; [reflexivity|]. intros E. apply Hc. apply curve_name_inj. exact E.
Qed.

Theorem reject_curve_r2 dec c c' m b : c <> c' -> EncodeRound2 c m = Ok b -> DecodeRound2 dec c' b = Err.
Proof.
  intros Hc. unfold EncodeRound2. destruct (encodePoints c (r2_choices m)) as [pts| |]; cbn [bind]; try discriminate.
  intros E. apply Ok_inj in E. subst b.
  unfold DecodeRound2. rewrite read_full_app by reflexivity. cbn [bind].
  rewrite bytes_eqb_refl. cbn [guard bind]. rewrite read_full_app by apply be_s_length. cbn [bind].
  rewrite read_chunk_name. cbn [bind].
  rewrite bytes_eqb_neq; [reflexivity|]. intros E. apply Hc. apply curve_name_inj. exact E.
Qed.

Theorem reject_curve_gs c c' s b : c <> c' -> wf_gs c s -> EncodeGarblerSession c s = Ok b ->
  DecodeGarblerSession c' b = Err.
Proof.
  intros Hc (Hs & Hn & Hf). destruct s as [sid name sc ax ay ix iy].
  cbn [gs_sid gs_name gs_scalar gs_ax gs_ay gs_ainvx gs_ainvy] in *. subst name.
  unfold EncodeGarblerSession, encodeCOSenderSetup. cbn [gs_sid gs_name gs_scalar gs_ax gs_ay gs_ainvx gs_ainvy].
  rewrite check_name_ok. cbn [bind]. rewrite write_fixed_list_ok by exact Hf. cbn [bind].
  intros E. apply Ok_inj in E. subst b.
  set (inner := write_chunk (curve_name c) ++ flat_map (be_s (byteLen c)) [sc; ax; ay; ix; iy]).
  assert (Li : length inner = (6 + 5 * byteLen c)%nat).
  { unfold inner. rewrite write_chunk_name, app_length, flat_map_be_s_length. cbn [length]. rewrite curve_name_length. lia. }
  pose proof (byteLen_pos c) as Hbl.
  unfold DecodeGarblerSession. rewrite read_full_app by reflexivity. cbn [bind].
  rewrite bytes_eqb_refl. cbn [guard bind]. rewrite read_full_app by apply be_s_length. cbn [bind].
  rewrite <- (app_nil_r (write_chunk inner)). rewrite read_chunk_write_chunk.
  2:{ rewrite Li, chunkSizeLimit_val. lia. }
  2:{ rewrite app_nil_r. intros E. rewrite E in Li. cbn in Li. lia. }
  cbn [bind]. unfold decodeCOSenderSetup, inner. rewrite read_chunk_name. cbn [bind].
  rewrite bytes_eqb_neq; [reflexivity|]. intros E. apply Hc. apply curve_name_inj. exact E.
Qed.

Theorem reject_curve_es c c' s b : c <> c' -> wf_es c s -> EncodeEvaluatorSession c s = Ok b ->
  DecodeEvaluatorSession c' b = Err.
Proof.
  intros Hc W. destruct (es_roundtrip c s W) as (b' & E & _ & Lb'). rewrite E. intros E'. apply Ok_inj in E'. subst b.
  revert E. destruct W as (Hs & Hn & Hx & Hy & Ls & Fs & Lb). destruct s as [sid name ax ay scalars bits].
  cbn [es_sid es_name es_ax es_ay es_scalars es_bits] in *. subst name.
  unfold EncodeEvaluatorSession. destruct (encodeChoiceBundle c _) as [inner| |] eqn:Ei; cbn [bind]; try discriminate.
  intros E. apply Ok_inj in E. subst b'.
  assert (Hin : exists tl, inner = write_chunk (curve_name c) ++ tl).
  { revert Ei. unfold encodeChoiceBundle. cbn [es_sid es_name es_ax es_ay es_scalars es_bits].
    rewrite check_name_ok. cbn [bind].
    repeat match goal with |- context [bind ?r _] => destruct r; cbn [bind]; try discriminate end.
    intros E. apply Ok_inj in E. subst inner. eexists. reflexivity. }
  destruct Hin as (tl & ->).
  assert (Li : N.of_nat (length (write_chunk (curve_name c) ++ tl)) <= chunkSizeLimit).
  { rewrite !app_length, be_s_length in Lb'. unfold write_chunk at 1 in Lb'. rewrite app_length in Lb'.
    change (length magicEvalSession) with 2%nat in Lb'.
    rewrite chunkSizeLimit_val.
    remember (length (write_chunk (curve_name c) ++ tl)) as L eqn:EL.
    remember (length (put_uvarint (N.of_nat L))) as U eqn:EU. clear EL EU.
    unfold es_len in Lb'. pose proof (byteLen_pos c) as Hb.
    remember (byteLen c) as bl eqn:Ebl. clear Ebl. destruct c; lia. }
  unfold DecodeEvaluatorSession. rewrite read_full_app by reflexivity. cbn [bind].
  rewrite bytes_eqb_refl. cbn [guard bind]. rewrite read_full_app by apply be_s_length. cbn [bind].
  rewrite <- (app_nil_r (write_chunk (write_chunk (curve_name c) ++ tl))). rewrite read_chunk_write_chunk.
  2:{ exact Li. }
  2:{ rewrite write_chunk_name. discriminate. }
  cbn [bind]. unfold decodeChoiceBundle. rewrite read_chunk_name. cbn [bind].
  rewrite bytes_eqb_neq; [reflexivity|]. intros E. apply Hc. apply curve_name_inj. exact E.
Qed.

(* ====================================================================== *)
(* no decoder reaches a run-time panic, on any byte string                 *)

Lemma np_read_full k r : not_panic (read_full k r).
Proof. unfold read_full, not_panic. destruct (k <=? length r)%nat; discriminate. Qed.

Lemma np_read_uvarint_from : forall fuel i x s r, not_panic (read_uvarint_from i fuel x s r).
Proof.
  unfold not_panic. induction fuel as [|f IH]; intros i x s r; cbn [read_uvarint_from]; [discriminate|].
  destruct r as [|b r]; [discriminate|]. destruct (b <? 128).
  - destruct ((i =? 9)%nat && (1 <? b)); discriminate.
  - apply IH.
Qed.

Lemma np_read_chunk r : not_panic (read_chunk r).
Proof.
  unfold read_chunk. apply bind_not_panic; [apply np_read_uvarint_from|]. intros [n r1] _.
  unfold not_panic. destruct (chunkSizeLimit <? n); [discriminate|].
  destruct (N.of_nat (length r1) <? n); [discriminate|]. destruct r1; discriminate.
Qed.

Lemma np_read_fixed bl r : not_panic (read_fixed bl r).
Proof. unfold read_fixed. apply bind_not_panic; [apply np_read_full|]. intros [b r'] _. discriminate. Qed.

Lemma np_read_fixed_list bl : forall k r, not_panic (read_fixed_list bl k r).
Proof.
  induction k as [|k IH]; intros r; cbn [read_fixed_list]; [discriminate|].
  apply bind_not_panic; [apply np_read_fixed|]. intros [v r1] _.
  apply bind_not_panic; [apply IH|]. intros [vs r2] _. discriminate.
Qed.

Lemma np_reader_read k r : not_panic (reader_read k r).
Proof. unfold reader_read, not_panic. destruct r; discriminate. Qed.

Theorem no_panic_r1 c data : not_panic (DecodeRound1 c data).
Proof.
  unfold DecodeRound1. apply bind_not_panic; [apply np_read_full|]. intros [magic r1] _.
  apply bind_not_panic; [apply guard_not_panic|]. intros _ _.
  apply bind_not_panic; [apply np_read_full|]. intros [sid r2] _.
  apply bind_not_panic.
  - unfold decodeOTSetup. apply bind_not_panic; [apply np_read_chunk|]. intros [name r3] _.
    apply bind_not_panic; [apply guard_not_panic|]. intros _ _.
    apply bind_not_panic; [apply np_read_fixed|]. intros [x r4] _.
    apply bind_not_panic; [apply np_read_fixed|]. intros [y r5] _. discriminate.
  - intros [[[name x] y] r'] _. apply bind_not_panic; [apply guard_not_panic|]. intros _ _. discriminate.
Qed.

Theorem no_panic_gs c data : not_panic (DecodeGarblerSession c data).
Proof.
  unfold DecodeGarblerSession. apply bind_not_panic; [apply np_read_full|]. intros [magic r1] _.
  apply bind_not_panic; [apply guard_not_panic|]. intros _ _.
  apply bind_not_panic; [apply np_read_full|]. intros [sid r2] _.
  apply bind_not_panic; [apply np_read_chunk|]. intros [chunk r3] _.
  unfold decodeCOSenderSetup. apply bind_not_panic; [apply np_read_chunk|]. intros [name r4] _.
  apply bind_not_panic; [apply guard_not_panic|]. intros _ _.
  apply bind_not_panic; [apply np_read_fixed_list|]. intros [fs r5] _.
  unfold not_panic. destruct fs as [|? [|? [|? [|? [|? [|? ?]]]]]]; discriminate.
Qed.

Theorem no_panic_es c data : not_panic (DecodeEvaluatorSession c data).
Proof.
  unfold DecodeEvaluatorSession. apply bind_not_panic; [apply np_read_full|]. intros [magic r1] _.
  apply bind_not_panic; [apply guard_not_panic|]. intros _ _.
  apply bind_not_panic; [apply np_read_full|]. intros [sid r2] _.
  apply bind_not_panic; [apply np_read_chunk|]. intros [chunk r3] _.
  unfold decodeChoiceBundle. apply bind_not_panic; [apply np_read_chunk|]. intros [name r4] _.
  apply bind_not_panic; [apply guard_not_panic|]. intros _ _.
  apply bind_not_panic; [apply np_read_fixed_list|]. intros [a r5] _.
  apply bind_not_panic; [apply np_read_fixed_list|]. intros [sc r6] _.
  apply bind_not_panic; [apply np_reader_read|]. intros [raw r7] _.
  apply bind_not_panic; [apply guard_not_panic|]. intros _ _. discriminate.
Qed.

(* Round2: the slice and index expressions of decodePoints are in bounds
   because of the exact length check in front of them *)
Lemma np_slice data lo hi : (lo <= hi)%nat -> (hi <= length data)%nat -> exists b, slice data lo hi = Ok b /\ length b = (hi - lo)%nat.
Proof.
  intros H1 H2. unfold slice.
  replace ((lo <=? hi)%nat && (hi <=? length data)%nat) with true
    by (symmetry; apply andb_true_intro; split; apply Nat.leb_le; assumption).
  eexists. split; [reflexivity|]. rewrite firstn_length, skipn_length. lia.
Qed.

Lemma decodePoints_xs_np bl data : forall k off, (off + k * bl <= length data)%nat ->
  exists xs, decodePoints_xs bl k off data = Ok xs /\ length xs = k.
Proof.
  induction k as [|k IH]; intros off H; cbn [decodePoints_xs]; [exists []; split; reflexivity|].
  destruct (np_slice data off (off + bl)) as (b & -> & _); [lia|lia|]. cbn [bind].
  destruct (IH (off + bl)%nat) as (xs & -> & L); [lia|]. cbn [bind].
  eexists. split; [reflexivity|]. cbn [length]. rewrite L. reflexivity.
Qed.

Lemma np_pointSign signs i : (i / 8 < length signs)%nat -> not_panic (pointSign signs i).
Proof.
  intros H. unfold pointSign. destruct signs as [|s0 sr] eqn:E; [discriminate|]. rewrite <- E in *.
  unfold index. destruct (nth_error signs (i / 8)) eqn:En; [discriminate|].
  apply nth_error_None in En. lia.
Qed.

Lemma np_decodePoints_pts dec c signs : forall xs i, (i + length xs <= 8 * length signs)%nat ->
  not_panic (decodePoints_pts dec c signs i xs).
Proof.
  induction xs as [|x xs IH]; intros i H; cbn [decodePoints_pts]; [discriminate|]. cbn [length] in H.
  apply bind_not_panic.
  - apply np_pointSign. apply Nat.div_lt_upper_bound; lia.
  - intros odd _. destruct (dec c x odd); [|discriminate].
    apply bind_not_panic; [apply IH; lia|]. intros ps _. discriminate.
Qed.

Theorem no_panic_r2 dec c data : not_panic (DecodeRound2 dec c data).
Proof.
  unfold DecodeRound2. apply bind_not_panic; [apply np_read_full|]. intros [magic r1] _.
  apply bind_not_panic; [apply guard_not_panic|]. intros _ _.
  apply bind_not_panic; [apply np_read_full|]. intros [sid r2] _.
  apply bind_not_panic; [apply np_read_chunk|]. intros [name rest] _.
  apply bind_not_panic; [apply guard_not_panic|]. intros _ _.
  apply bind_not_panic; [|intros pts _; discriminate].
  unfold decodePoints.
  destruct (length rest =? evaluatorCiphertextCount * byteLen c + evaluatorChoiceSignBytes)%nat eqn:E;
    [|discriminate].
  apply Nat.eqb_eq in E. cbn [guard bind].
  destruct (decodePoints_xs_np (byteLen c) rest evaluatorCiphertextCount 0) as (xs & -> & Lx); [lia|]. cbn [bind].
  destruct (np_slice rest (evaluatorCiphertextCount * byteLen c) (length rest)) as (signs & -> & Ls); [lia|lia|].
  cbn [bind]. apply np_decodePoints_pts. rewrite Lx, Ls, E.
  change evaluatorCiphertextCount with 256%nat. change evaluatorChoiceSignBytes with 32%nat. lia.
Qed.

Section R3np.
  Variables (kSid kKey wLab nTabB nTab nInB nHintB nHint nCtB nCt total : nat).
  Hypothesis Htotal : total = (length magicRound3 + kSid + kKey + nTabB + nInB + nHintB + nCtB)%nat.

  Lemma np_decodeLabelBlock nb k d : not_panic (decodeLabelBlock wLab nb k d).
  Proof. unfold decodeLabelBlock. apply bind_not_panic; [apply guard_not_panic|]. intros _ _. discriminate. Qed.

  Theorem no_panic_r3_gen data :
    not_panic (DecodeRound3_gen kSid kKey wLab nTabB nTab nInB nHintB nHint nCtB nCt total data).
  Proof.
    unfold DecodeRound3_gen. change (length magicRound3) with 2%nat in *.
    destruct (length data =? total)%nat eqn:E; [|discriminate]. apply Nat.eqb_eq in E.
    cbn [guard bind]. cbv zeta.
    repeat first
      [ apply np_decodeLabelBlock
      | apply guard_not_panic
      | match goal with
        | |- not_panic (bind (slice data ?lo ?hi) _) =>
            let b := fresh "b" in let Hb := fresh "Hb" in
            destruct (np_slice data lo hi) as (b & Hb & _); [lia|lia|]; rewrite Hb; cbn [bind]
        | |- not_panic (bind _ _) => apply bind_not_panic; [|intros ? _]
        end ].
    discriminate.
  Qed.
End R3np.

Theorem no_panic_r3 data : not_panic (DecodeRound3 data).
Proof. unfold DecodeRound3. apply no_panic_r3_gen. reflexivity. Qed.

(* ====================================================================== *)
(* resumption and protocol correctness                                     *)

Lemma bind_ok_inv {A B} (r : res A) (f : A -> res B) b :
  bind r f = Ok b -> exists a, r = Ok a /\ f a = Ok b.
Proof. destruct r; cbn; intros H; try discriminate. eexists; split; [reflexivity|exact H]. Qed.

Lemma guard_ok_inv b u : guard b = Ok u -> b = true.
Proof. destruct b; [reflexivity|discriminate]. Qed.

Lemma pick2_fits w p b : fits2 w p -> fits w (pick2 p b).
Proof. intros [H1 H2]. destruct b; assumption. Qed.

Lemma Forall_pick2_combine w : forall (ws : list (N * N)) (bs : list bool),
  Forall (fits2 w) ws -> Forall (fits w) (map (fun p => pick2 (fst p) (snd p)) (combine ws bs)).
Proof.
  induction ws as [|x ws IH]; intros bs F; [constructor|]. destruct bs as [|b bs]; [constructor|].
  inversion F; subst. cbn [combine map fst snd]. constructor; [apply pick2_fits; assumption|apply IH; assumption].
Qed.

Section Resume.
  Variable RND : Type.
  Variable c : curve.
  Variable gen_sender : RND -> N * (N * N) * (N * N).
  Variable read_sid : RND -> N.
  Variable build_choices : RND -> N -> N -> list bool -> res (list N * list (N * N)).
  Variable read_key : RND -> bytes.
  Variable garble_circ : RND -> bytes -> res (list (N * N) * list (N * N) * list (N * N) * list N).
  Variable encrypt_co : gsession -> list (N * N) -> list (N * N) -> res (list (N * N)).
  Variable decrypt_co : esession -> list (N * N) -> res (list N).
  Variable eval_circ : bytes -> list N -> list N -> list N -> res (list N).
  Variable decompress : curve -> N -> bool -> option (N * N).

  (* what the encodings need from the opaque cryptographic parts: values fit
     their fixed-width fields, counts are the protocol's, and the evaluator's
     points are ones UnmarshalCompressed gives back *)
  Hypothesis sender_fits : forall rng,
    let '(a, (ax, ay), (ix, iy)) := gen_sender rng in Forall (fits (byteLen c)) [a; ax; ay; ix; iy].
  Hypothesis sid_range : forall rng, read_sid rng < 2 ^ 64.
  Hypothesis choices_wf : forall rng ax ay bits scalars points,
    build_choices rng ax ay bits = Ok (scalars, points) ->
    length scalars = evaluatorCiphertextCount /\ Forall (fits (byteLen c)) scalars /\
    length points = evaluatorCiphertextCount /\ Forall (point_ok decompress c) points.
  Hypothesis key_len : forall rng, length (read_key rng) = garblingKeyBytes.
  Hypothesis garble_wf : forall rng key gin ein outw tables,
    garble_circ rng key = Ok (gin, ein, outw, tables) ->
    length gin = hashInputBitCount /\ Forall (fits2 16) gin /\
    length outw = outputHintCount /\ Forall (fits2 16) outw /\
    length tables = garbledTableLabelCount /\ Forall (fits 16) tables.
  Hypothesis encrypt_wf : forall st pts ein cts,
    encrypt_co st pts ein = Ok cts -> length cts = evaluatorCiphertextCount /\ Forall (fits2 16) cts.

  Notation GR1 := (GarblerRound1 RND c gen_sender read_sid).
  Notation ER2 := (EvaluatorRound2 RND c build_choices).
  Notation GR3 := (GarblerRound3 RND read_key garble_circ encrypt_co).
  Notation ER4 := (EvaluatorRound4 decrypt_co eval_circ).
  Notation RUN := (run_protocol RND c gen_sender read_sid build_choices read_key garble_circ
                                encrypt_co decrypt_co eval_circ decompress).

  Lemma thru_gs_ok s : wf_gs c s -> thru_gs c s = Ok s.
  Proof. intros W. destruct (gs_roundtrip c s W) as (b & E & D & _). unfold thru_gs. rewrite E. exact D. Qed.
  Lemma thru_es_ok s : wf_es c s -> thru_es c s = Ok s.
  Proof. intros W. destruct (es_roundtrip c s W) as (b & E & D & _). unfold thru_es. rewrite E. exact D. Qed.
  Lemma thru_r1_ok m : wf_r1 c m -> thru_r1 c m = Ok m.
  Proof. intros W. destruct (r1_roundtrip c m W) as (b & E & D & _). unfold thru_r1. rewrite E. exact D. Qed.
  Lemma thru_r2_ok m : wf_r2 decompress c m -> thru_r2 c decompress m = Ok m.
  Proof. intros W. destruct (r2_roundtrip decompress c m W) as (b & E & D & _). unfold thru_r2. rewrite E. exact D. Qed.
  Lemma thru_r3_ok m : wf_r3 m -> thru_r3 m = Ok m.
  Proof. intros W. destruct (r3_roundtrip m W) as (b & E & D & _). unfold thru_r3. rewrite E. exact D. Qed.

  Lemma iter_res_ok {A} (f : A -> res A) a : f a = Ok a -> forall n, iter_res n f a = Ok a.
  Proof. intros H. induction n as [|n IH]; [reflexivity|]. cbn [iter_res]. rewrite H. exact IH. Qed.

  Lemma opt_thru_ok {A} (f : A -> res A) a on : f a = Ok a -> opt_thru on f a = Ok a.
  Proof. intros H. destruct on; [exact H|reflexivity]. Qed.

  (* round 1 produces encodable values *)
  Lemma round1_wf rng m gs : GR1 rng = (m, gs) -> wf_r1 c m /\ wf_gs c gs /\ gs_sid gs = r1_sid m.
  Proof.
    unfold GarblerRound1. pose proof (sender_fits rng) as F. pose proof (sid_range rng) as S.
    destruct (gen_sender rng) as [[a [ax ay]] [ix iy]]. intros E. injection E as <- <-.
    inversion F as [|? ? Fa F1]; subst. inversion F1 as [|? ? Fax F2]; subst. inversion F2 as [|? ? Fay F3]; subst.
    repeat split; cbn; try assumption; try reflexivity.
  Qed.

  Lemma round2_wf rng m1 b m2 es : wf_r1 c m1 -> ER2 rng m1 b = Ok (m2, es) ->
    wf_r2 decompress c m2 /\ wf_es c es /\ r2_sid m2 = r1_sid m1 /\ es_sid es = r1_sid m1.
  Proof.
    intros (Hs & Hn & Hx & Hy). unfold EvaluatorRound2. intros E.
    apply bind_ok_inv in E. destruct E as (u1 & G1 & E).
    apply bind_ok_inv in E. destruct E as (u2 & G2 & E). apply guard_ok_inv in G2. apply Nat.eqb_eq in G2.
    apply bind_ok_inv in E. destruct E as ([scalars points] & B & E).
    apply Ok_inj in E. injection E as <- <-.
    destruct (choices_wf _ _ _ _ _ _ B) as (L1 & F1 & L2 & F2).
    repeat split; cbn [r2_sid r2_name r2_choices es_sid es_name es_ax es_ay es_scalars es_bits]; try assumption; try reflexivity.
  Qed.

  Lemma round3_wf rng gs a m2 m3 : wf_gs c gs -> GR3 rng gs a m2 = Ok m3 -> wf_r3 m3 /\ r3_sid m3 = gs_sid gs.
  Proof.
    intros (Hs & _). unfold GarblerRound3. intros E.
    apply bind_ok_inv in E. destruct E as (u1 & G1 & E).
    apply bind_ok_inv in E. destruct E as ([[[gin ein] outw] tables] & Gb & E).
    apply bind_ok_inv in E. destruct E as (u2 & G2 & E). apply guard_ok_inv in G2. apply Nat.eqb_eq in G2.
    apply bind_ok_inv in E. destruct E as (cts & Ec & E). apply Ok_inj in E. subst m3.
    destruct (garble_wf _ _ _ _ _ _ Gb) as (Lg & Fg & Lo & Fo & Lt & Ft).
    destruct (encrypt_wf _ _ _ _ Ec) as (Lc & Fc).
    split; [|reflexivity].
    repeat split; cbn [r3_sid r3_key r3_tables r3_inputs r3_hints r3_cts]; try assumption.
    - apply key_len.
    - rewrite map_length, combine_length, Lg, G2. apply Nat.min_id.
    - apply Forall_pick2_combine. exact Fg.
  Qed.

  (* C18_resume: serialising any message and restarting either party from its
     serialised session any number of times at any round boundary does not
     change the run *)
  Theorem resume_same g1 g2 e2 e3 w1 w2 w3 rg1 re2 rg3 a b :
    RUN g1 g2 e2 e3 w1 w2 w3 rg1 re2 rg3 a b = RUN 0%nat 0%nat 0%nat 0%nat false false false rg1 re2 rg3 a b.
  Proof.
    unfold run_protocol. destruct (GR1 rg1) as [m1 gs] eqn:E1.
    destruct (round1_wf _ _ _ E1) as (W1 & Wg & _).
    rewrite (iter_res_ok _ _ (thru_gs_ok gs Wg)). rewrite (opt_thru_ok _ _ w1 (thru_r1_ok m1 W1)).
    cbn [iter_res opt_thru bind].
    destruct (ER2 re2 m1 b) as [[m2 es]| |] eqn:E2; cbn [bind]; try reflexivity.
    destruct (round2_wf _ _ _ _ _ W1 E2) as (W2 & We & _).
    rewrite (iter_res_ok _ _ (thru_es_ok es We) e2). rewrite (opt_thru_ok _ _ w2 (thru_r2_ok m2 W2)).
    rewrite (iter_res_ok _ _ (thru_gs_ok gs Wg) g2). cbn [bind].
    destruct (GR3 rg3 gs a m2) as [m3| |] eqn:E3; cbn [bind]; try reflexivity.
    destruct (round3_wf _ _ _ _ _ Wg E3) as (W3 & _).
    rewrite (opt_thru_ok _ _ w3 (thru_r3_ok m3 W3)). rewrite (iter_res_ok _ _ (thru_es_ok es We) e3).
    reflexivity.
  Qed.

  (* messages / states of another session are refused by the rounds *)
  Theorem reject_session_round3 rng st a req : r2_sid req <> gs_sid st -> GR3 rng st a req = Err.
  Proof. intros H. unfold GarblerRound3. replace (r2_sid req =? gs_sid st) with false by (symmetry; apply N.eqb_neq; exact H). reflexivity. Qed.

  Theorem reject_session_round4 st msg : r3_sid msg <> es_sid st -> ER4 st msg = Err.
  Proof.
    intros H. unfold EvaluatorRound4. destruct (negb (length (es_scalars st) =? 0)%nat); [|reflexivity].
    cbn [guard bind]. replace (r3_sid msg =? es_sid st) with false by (symmetry; apply N.eqb_neq; exact H). reflexivity.
  Qed.

  (* a Round1 message of another curve is refused by round 2 *)
  Theorem reject_curve_round2 rng msg b : r1_name msg <> curve_name c -> ER2 rng msg b = Err.
  Proof. intros H. unfold EvaluatorRound2. rewrite bytes_eqb_neq by exact H. reflexivity. Qed.

  (* ---- correctness of the honest run ---- *)
  (* plain evaluation of the embedded circuit on garbler bits ‖ evaluator bits *)
  Variable circ_eval : list bool -> list bool.

  (* [C01] garbled evaluation on the labels selected by the inputs decodes,
     through the output hints, to the plain evaluation *)
  Hypothesis garbled_eval_correct : forall rng key gin ein outw tables xa xb,
    garble_circ rng key = Ok (gin, ein, outw, tables) ->
    length xa = hashInputBitCount -> length xb = hashInputBitCount ->
    exists outl,
      eval_circ key (map (fun p => pick2 (fst p) (snd p)) (combine gin xa))
                    (map (fun p => pick2 (fst p) (snd p)) (combine ein xb)) tables = Ok outl /\
      decode_outputs outw outl = Ok (circ_eval (xa ++ xb)).
  Hypothesis garble_total : forall rng key, exists gin ein outw tables,
    garble_circ rng key = Ok (gin, ein, outw, tables).
  (* [C06, CO OT as ideal OT] the receiver's choices built against the
     sender's A always succeed, encryption succeeds, and decryption returns
     exactly the label selected by each choice bit *)
  Hypothesis co_ot_correct : forall rng1 rng2 sid sid' bits ein,
    let '(a, (ax, ay), (ix, iy)) := gen_sender rng1 in
    length bits = hashInputBitCount ->
    exists scalars points cts,
      build_choices rng2 ax ay bits = Ok (scalars, points) /\
      encrypt_co (mkGS sid (curve_name c) a ax ay ix iy) points ein = Ok cts /\
      decrypt_co (mkES sid' (curve_name c) ax ay scalars bits) cts
      = Ok (map (fun p => pick2 (fst p) (snd p)) (combine ein bits)).
  Hypothesis circ_out_len : forall x, length (circ_eval x) = outputHintCount.

  Theorem protocol_correct rg1 re2 rg3 a b :
    length a = 32%nat -> length b = 32%nat ->
    RUN 0%nat 0%nat 0%nat 0%nat false false false rg1 re2 rg3 a b
    = Ok (bitsToBytesLittle (circ_eval (bytesToBitsLittle a ++ bytesToBitsLittle b))).
  Proof.
    intros La Lb. unfold run_protocol.
    assert (Lba : length (bytesToBitsLittle a) = hashInputBitCount) by (rewrite bytesToBitsLittle_length, La; reflexivity).
    assert (Lbb : length (bytesToBitsLittle b) = hashInputBitCount) by (rewrite bytesToBitsLittle_length, Lb; reflexivity).
    destruct (GR1 rg1) as [m1 gs] eqn:E1. cbn [iter_res opt_thru bind].
    pose proof (round1_wf _ _ _ E1) as (W1 & Wg & _).
    revert E1. unfold GarblerRound1.
    destruct (garble_total rg3 (read_key rg3)) as (gin & ein & outw & tables & Gb).
    pose proof (co_ot_correct rg1 re2 (read_sid rg1) (read_sid rg1) (bytesToBitsLittle b) ein) as OT.
    pose proof (choices_wf re2) as CW.
    destruct (gen_sender rg1) as [[sa [ax ay]] [ix iy]].
    intros E1. injection E1 as <- <-.
    destruct (OT Lbb) as (scalars & points & cts & Bc & Ec & Dc).
    destruct (CW _ _ _ _ _ Bc) as (Ls & _ & _ & _).
    unfold EvaluatorRound2. cbn [r1_name r1_sid r1_ax r1_ay].
    rewrite bytes_eqb_refl. cbn [guard bind]. rewrite Lbb, Nat.eqb_refl. cbn [guard bind].
    rewrite Bc. cbn [bind].
    unfold GarblerRound3. cbn [r2_sid gs_sid r2_choices]. rewrite N.eqb_refl. cbn [guard bind].
    rewrite Gb. cbn [bind]. rewrite Lba, Nat.eqb_refl. cbn [guard bind]. rewrite Ec. cbn [bind].
    unfold EvaluatorRound4. cbn [es_scalars es_sid r3_sid r3_cts r3_key r3_inputs r3_tables r3_hints].
    rewrite Ls. change (negb (evaluatorCiphertextCount =? 0)%nat) with true. cbn [guard bind].
    rewrite N.eqb_refl. cbn [guard bind]. rewrite Dc. cbn [bind].
    destruct (garbled_eval_correct _ _ _ _ _ _ _ _ Gb Lba Lbb) as (outl & Ev & Dec).
    rewrite Ev. cbn [bind].
    destruct (garble_wf _ _ _ _ _ _ Gb) as (_ & _ & Lo & _).
    rewrite Lo, Nat.eqb_refl. cbn [guard bind]. rewrite Dec. cbn [bind].
    destruct (bytes_bits_roundtrip_pad (circ_eval (bytesToBitsLittle a ++ bytesToBitsLittle b))) as (pad & _ & _ & _ & L).
    rewrite L, circ_out_len. change ((outputHintCount + 7) / 8 =? 32)%nat with true. reflexivity.
  Qed.

  (* with the (unproved, harness-checked) fact that the embedded circuit
     computes SHA-256(a xor b): the evaluator outputs that digest, whatever the
     restart points *)
  Variable sha256xor : bytes -> bytes -> bytes.
  Hypothesis circuit_computes_sha256xor : forall a b, length a = 32%nat -> length b = 32%nat ->
    circ_eval (bytesToBitsLittle a ++ bytesToBitsLittle b) = bytesToBitsLittle (sha256xor a b).
  Hypothesis sha256xor_bytes : forall a b, Forall (fun x => x < 256) (sha256xor a b).

  Theorem protocol_sha256 g1 g2 e2 e3 w1 w2 w3 rg1 re2 rg3 a b :
    length a = 32%nat -> length b = 32%nat ->
    RUN g1 g2 e2 e3 w1 w2 w3 rg1 re2 rg3 a b = Ok (sha256xor a b).
  Proof.
    intros La Lb. rewrite resume_same, protocol_correct by assumption.
    rewrite circuit_computes_sha256xor by assumption. rewrite bits_bytes_roundtrip by apply sha256xor_bytes.
    reflexivity.
  Qed.
End Resume.

(* ====================================================================== *)
(* witnesses: the decoders accept byte strings that are not an encoder's
   output (wrong total length), so "wrong length -> error" holds for Round3
   only; and the well-formedness predicates are inhabited                  *)

Definition r1_trailing : bytes :=
  magicRound1 ++ be_s 8 7 ++ write_chunk (curve_name P224) ++ repeat 0 56 ++ [9].
Example r1_trailing_accepted :
  DecodeRound1 P224 r1_trailing = Ok (mkR1 7 (curve_name P224) 0 0) /\
  (length r1_trailing =? 16 + 2 * byteLen P224)%nat = false.
Proof. vm_compute. split; reflexivity. Qed.

(* Round2 with the curve-name length written as the two-byte uvarint 0x85 0x00 *)
Definition dec_any : curve -> N -> bool -> option (N * N) := fun _ x odd => Some (x, if odd then 1 else 0).
Definition r2_nonminimal : bytes :=
  magicRound2 ++ be_s 8 7 ++ [133; 0] ++ curve_name P224 ++ repeat 0 (256 * 28) ++ repeat 0 32.
Example r2_nonminimal_accepted :
  DecodeRound2 dec_any P224 r2_nonminimal = Ok (mkR2 7 (curve_name P224) (repeat (0, 0) 256)) /\
  (length r2_nonminimal =? 48 + 256 * byteLen P224)%nat = false.
Proof. vm_compute. split; reflexivity. Qed.

Definition gs_trailing : bytes :=
  magicGarblerSession ++ be_s 8 7 ++ write_chunk (write_chunk (curve_name P224) ++ repeat 0 140) ++ [9].
Example gs_trailing_accepted :
  DecodeGarblerSession P224 gs_trailing = Ok (mkGS 7 (curve_name P224) 0 0 0 0 0) /\
  (length gs_trailing =? 18 + 5 * byteLen P224)%nat = false.
Proof. vm_compute. split; reflexivity. Qed.

(* evaluator session whose choice-bit field holds 1 byte instead of 32 *)
Definition es_short : bytes :=
  magicEvalSession ++ be_s 8 7
  ++ write_chunk (write_chunk (curve_name P224) ++ repeat 0 (258 * 28) ++ [255]).
Example es_short_accepted :
  DecodeEvaluatorSession P224 es_short
  = Ok (mkES 7 (curve_name P224) 0 0 (repeat 0 256) (repeat true 8 ++ repeat false 248)) /\
  (length es_short <? es_len P224)%nat = true.
Proof. vm_compute. split; reflexivity. Qed.

Theorem reject_length_refuted :
  (exists c data m, DecodeRound1 c data = Ok m /\ length data <> (16 + 2 * byteLen c)%nat) /\
  (exists dec c data m, DecodeRound2 dec c data = Ok m /\ length data <> (48 + 256 * byteLen c)%nat) /\
  (exists c data s, DecodeGarblerSession c data = Ok s /\ length data <> (18 + 5 * byteLen c)%nat) /\
  (exists c data s, DecodeEvaluatorSession c data = Ok s /\ (length data < es_len c)%nat).
Proof.
  split; [|split; [|split]].
  - exists P224, r1_trailing, (mkR1 7 (curve_name P224) 0 0). destruct r1_trailing_accepted as (A & B).
    split; [exact A|]. apply Nat.eqb_neq. exact B.
  - exists dec_any, P224, r2_nonminimal, (mkR2 7 (curve_name P224) (repeat (0, 0) 256)).
    destruct r2_nonminimal_accepted as (A & B). split; [exact A|]. apply Nat.eqb_neq. exact B.
  - exists P224, gs_trailing, (mkGS 7 (curve_name P224) 0 0 0 0 0).
    destruct gs_trailing_accepted as (A & B). split; [exact A|]. apply Nat.eqb_neq. exact B.
  - exists P224, es_short. eexists. destruct es_short_accepted as (A & B). split; [exact A|]. apply Nat.ltb_lt. exact B.
Qed.

(* the well-formedness predicates are inhabited on every curve *)
Example wf_inhabited c :
  wf_r1 c (mkR1 1 (curve_name c) 2 3) /\ wf_gs c (mkGS 1 (curve_name c) 2 3 4 5 6) /\
  wf_es c (mkES 1 (curve_name c) 2 3 (repeat 4 256) (repeat true 256)) /\
  wf_r2 dec_any c (mkR2 1 (curve_name c) (repeat (5, 1) 256)).
Proof.
  assert (F : forall v, v < 256 -> fits (byteLen c) v).
  { intros v Hv. unfold fits. eapply N.lt_le_trans; [exact Hv|].
    rewrite <- (N.pow_1_r 256) at 1. apply N.pow_le_mono_r; [lia|]. pose proof (byteLen_pos c). lia. }
  repeat split; cbn [r1_sid r1_name r1_ax r1_ay gs_sid gs_name gs_scalar gs_ax gs_ay gs_ainvx gs_ainvy
                     es_sid es_name es_ax es_ay es_scalars es_bits r2_sid r2_name r2_choices fst snd];
    try reflexivity; try (apply F; lia); try (repeat constructor; apply F; lia);
    try (apply Forall_forall; intros x Hx; apply repeat_spec in Hx; subst x; try split; try (apply F; cbn; lia); reflexivity).
Qed.
