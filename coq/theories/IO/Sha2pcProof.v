(* Sha2pcProof.v — theorems about the sha2pc codec / round model
   (IO/Sha2pcCodec.v).  Property C18. *)
From Coq Require Import ZArith NArith List Bool Arith Lia ZifyN ZifyNat.
From Mpc Require Import Gen.Consts Base.Codec Base.CodecProof IO.Sha2pcCodec.
Import ListNotations.
Open Scope N_scope.

(* ====================================================================== *)
(* shift-based primitives = Base.Codec primitives                          *)

Lemma be_s_be k : forall x, be_s k x = be k x.
Proof.
  induction k as [|k IH]; intros x; cbn [be_s be]; [reflexivity|].
  rewrite IH, N.shiftr_div_pow2. change (2 ^ 8) with 256.
  change 255 with (N.ones 8). rewrite N.land_ones. reflexivity.
Qed.

Lemma of_be_s_of_be l : of_be_s l = of_be l.
Proof.
  unfold of_be_s, of_be. generalize 0. induction l as [|b l IH]; intros a; cbn [fold_left]; [reflexivity|].
  rewrite IH, N.shiftl_mul_pow2. reflexivity.
Qed.

Lemma byte_bits_N_to_bits k : forall x, byte_bits k x = N_to_bits k x.
Proof.
  induction k as [|k IH]; intros x; cbn [byte_bits N_to_bits]; [reflexivity|].
  rewrite IH, N.div2_div. reflexivity.
Qed.

Lemma be_s_length k x : length (be_s k x) = k.
Proof. rewrite be_s_be. apply be_length. Qed.

Lemma of_be_s_be_s k x : x < 256 ^ N.of_nat k -> of_be_s (be_s k x) = x.
Proof. intros H. rewrite of_be_s_of_be, be_s_be, of_be_be. apply N.mod_small; exact H. Qed.

Lemma bits_to_N_byte_bits k : forall x, bits_to_N (byte_bits k x) = x mod 2 ^ N.of_nat k.
Proof.
  induction k as [|k IH]; intros x; cbn [byte_bits bits_to_N].
  - cbn. rewrite N.mod_1_r. reflexivity.
  - rewrite IH, Nat2N.inj_succ, N.pow_succ_r'.
    assert (Hp : 2 ^ N.of_nat k <> 0) by (apply N.pow_nonzero; lia).
    rewrite N.mod_mul_r by lia.
    rewrite N.div2_div.
    replace (if N.odd x then 1 else 0) with (x mod 2).
    2:{ rewrite <- N.bit0_mod, N.bit0_odd. destruct (N.odd x); reflexivity. }
    lia.
Qed.

Lemma byte_bits_length k x : length (byte_bits k x) = k.
Proof. revert x; induction k as [|k IH]; intros x; cbn [byte_bits length]; [reflexivity|]. rewrite IH. reflexivity. Qed.

(* ====================================================================== *)
(* res monad                                                               *)

Lemma bytes_eqb_refl a : bytes_eqb a a = true.
Proof. unfold bytes_eqb. induction a as [|x a IH]; cbn [list_eqb]; [reflexivity|]. rewrite N.eqb_refl, IH. reflexivity. Qed.

Lemma bytes_eqb_eq a : forall b, bytes_eqb a b = true <-> a = b.
Proof.
  unfold bytes_eqb.
  induction a as [|x a IH]; intros [|y b]; cbn [list_eqb]; split; intros H; try reflexivity; try discriminate.
  - apply andb_prop in H. destruct H as [H1 H2]. apply N.eqb_eq in H1. apply IH in H2. subst. reflexivity.
  - injection H as -> ->. rewrite N.eqb_refl. apply (proj2 (IH b)). reflexivity.
Qed.

Lemma bytes_eqb_neq a b : a <> b -> bytes_eqb a b = false.
Proof. intros H. destruct (bytes_eqb a b) eqn:E; [|reflexivity]. apply bytes_eqb_eq in E. contradiction. Qed.

Definition not_panic {A} (r : res A) : Prop := r <> Panic.

Lemma bind_not_panic {A B} (r : res A) (f : A -> res B) :
  not_panic r -> (forall a, r = Ok a -> not_panic (f a)) -> not_panic (bind r f).
Proof. unfold not_panic. destruct r; cbn; intros H1 H2; [apply H2; reflexivity|discriminate|contradiction]. Qed.

Lemma guard_not_panic b : not_panic (guard b).
Proof. destruct b; discriminate. Qed.

(* ====================================================================== *)
(* bits.go                                                                 *)

Lemma bitsToBytesLittle_8 b0 b1 b2 b3 b4 b5 b6 b7 t :
  bitsToBytesLittle (b0 :: b1 :: b2 :: b3 :: b4 :: b5 :: b6 :: b7 :: t)
  = bits_to_N [b0; b1; b2; b3; b4; b5; b6; b7] :: bitsToBytesLittle t.
Proof. reflexivity. Qed.

Lemma byte_bits_8 b : byte_bits 8 b =
  [N.odd b; N.odd (N.div2 b); N.odd (N.div2 (N.div2 b)); N.odd (N.div2 (N.div2 (N.div2 b)));
   N.odd (N.div2 (N.div2 (N.div2 (N.div2 b)))); N.odd (N.div2 (N.div2 (N.div2 (N.div2 (N.div2 b)))));
   N.odd (N.div2 (N.div2 (N.div2 (N.div2 (N.div2 (N.div2 b))))));
   N.odd (N.div2 (N.div2 (N.div2 (N.div2 (N.div2 (N.div2 (N.div2 b)))))))].
Proof. reflexivity. Qed.

(* bitsToBytesLittle (bytesToBitsLittle bs) = bs for byte values *)
Theorem bits_bytes_roundtrip bs :
  Forall (fun b => b < 256) bs -> bitsToBytesLittle (bytesToBitsLittle bs) = bs.
Proof.
  induction 1 as [|b bs Hb _ IH]; [reflexivity|].
  unfold bytesToBitsLittle in *. cbn [flat_map].
  pose proof (bits_to_N_byte_bits 8 b) as E. rewrite byte_bits_8 in *.
  cbn [app]. rewrite bitsToBytesLittle_8, IH, E.
  change (2 ^ N.of_nat 8) with 256. rewrite N.mod_small by exact Hb. reflexivity.
Qed.

Lemma bytesToBitsLittle_length bs : length (bytesToBitsLittle bs) = (8 * length bs)%nat.
Proof.
  unfold bytesToBitsLittle. induction bs as [|b bs IH]; [reflexivity|].
  cbn [flat_map length]. rewrite app_length, byte_bits_length, IH. lia.
Qed.

(* a short final group is padded with false bits *)
Lemma byte_bits_of_bits l : (length l <= 8)%nat ->
  byte_bits 8 (bits_to_N l) = l ++ repeat false (8 - length l).
Proof.
  intros H.
  destruct l as [|b0 [|b1 [|b2 [|b3 [|b4 [|b5 [|b6 [|b7 [|b8 l]]]]]]]]]; cbn [length] in H; try lia;
    repeat match goal with b : bool |- _ => destruct b end; vm_compute; reflexivity.
Qed.

(* the partial-byte case: (len+7)/8 bytes, the bits come back followed by
   fewer than 8 false padding bits *)
Theorem bytes_bits_roundtrip_pad : forall bits,
  exists pad, (pad < 8)%nat /\
    bytesToBitsLittle (bitsToBytesLittle bits) = bits ++ repeat false pad /\
    (length bits + pad = 8 * length (bitsToBytesLittle bits))%nat /\
    length (bitsToBytesLittle bits) = ((length bits + 7) / 8)%nat.
Proof.
  intros bits. remember (length bits) as n eqn:Hn. revert bits Hn.
  induction n as [n IH] using lt_wf_ind. intros bits Hn.
  destruct bits as [|b0 [|b1 [|b2 [|b3 [|b4 [|b5 [|b6 [|b7 t]]]]]]]].
  1:{ exists 0%nat. cbn. subst. repeat split; lia. }
  8:{ destruct (IH (length t)) with (bits := t) as (pad & Hp & E & L & L2); [cbn in Hn; lia|reflexivity|].
      exists pad. rewrite bitsToBytesLittle_8. unfold bytesToBitsLittle in *. cbn [flat_map].
      rewrite E. rewrite (byte_bits_of_bits [b0; b1; b2; b3; b4; b5; b6; b7]) by (cbn; lia).
      cbn [length Nat.sub repeat app]. subst n. cbn [length] in *.
      assert (D : forall m, ((8 + m + 7) / 8 = S ((m + 7) / 8))%nat).
      { intros m. replace (8 + m + 7)%nat with (1 * 8 + (m + 7))%nat by lia.
        rewrite Nat.div_add_l by lia. lia. }
      specialize (D (length t)). cbn [Nat.add] in D.
      repeat split; try lia. }
  all: subst n; match goal with |- context [bitsToBytesLittle ?l] =>
         exists (8 - length l)%nat; change (bitsToBytesLittle l) with [bits_to_N l];
         unfold bytesToBitsLittle; cbn [flat_map]; rewrite app_nil_r, byte_bits_of_bits by (cbn; lia);
         cbn; repeat split; lia end.
Qed.

Corollary firstn_bytes_bits bits :
  firstn (length bits) (bytesToBitsLittle (bitsToBytesLittle bits)) = bits.
Proof.
  destruct (bytes_bits_roundtrip_pad bits) as (pad & _ & E & _). rewrite E.
  rewrite firstn_app, Nat.sub_diag, firstn_all. cbn. apply app_nil_r.
Qed.

(* ====================================================================== *)
(* list helpers                                                            *)

Lemma firstn_len_app {A} (a b : list A) : firstn (length a) (a ++ b) = a.
Proof. induction a as [|x a IH]; cbn; [destruct b; reflexivity|]. rewrite IH. reflexivity. Qed.

Lemma skipn_len_app {A} (a b : list A) : skipn (length a) (a ++ b) = b.
Proof. induction a as [|x a IH]; cbn; [reflexivity|exact IH]. Qed.

Lemma firstn_k_app {A} k (a b : list A) : length a = k -> firstn k (a ++ b) = a.
Proof. intros <-. apply firstn_len_app. Qed.

Lemma skipn_k_app {A} k (a b : list A) : length a = k -> skipn k (a ++ b) = b.
Proof. intros <-. apply skipn_len_app. Qed.

(* ====================================================================== *)
(* uvarint / chunks / fixed-width integers                                 *)

Lemma land_shift_zero a b s : a < 2 ^ s -> N.land a (b * 2 ^ s) = 0.
Proof.
  intros H. apply N.bits_inj_0. intros k. rewrite N.land_spec.
  destruct (N.lt_ge_cases k s) as [Hk|Hk].
  - rewrite N.mul_pow2_bits_low by exact Hk. apply andb_false_r.
  - replace (N.testbit a k) with false; [reflexivity|]. symmetry.
    destruct (N.eq_dec a 0) as [->|Ha]; [apply N.bits_0|].
    apply N.bits_above_log2. apply N.log2_lt_pow2; [lia|].
    eapply N.lt_le_trans; [exact H|]. apply N.pow_le_mono_r; lia.
Qed.

Lemma lor_shiftl_add a b s : a < 2 ^ s -> N.lor a (N.shiftl b s) = a + b * 2 ^ s.
Proof.
  intros H. rewrite N.shiftl_mul_pow2.
  pose proof (land_shift_zero a b s H) as Z.
  rewrite <- N.lxor_lor by exact Z. symmetry. apply N.add_nocarry_lxor. exact Z.
Qed.

Lemma lor_128 m : m < 128 -> N.lor m 128 = m + 128.
Proof.
  intros H. change (N.lor m 128) with (N.lor m (N.shiftl 1 7)).
  rewrite lor_shiftl_add by exact H. reflexivity.
Qed.

Lemma uvarint_cont_byte x :
  let b := N.lor (N.land x 127) 128 in (b <? 128) = false /\ N.land b 127 = x mod 128.
Proof.
  cbv zeta. change 127 with (N.ones 7). rewrite !N.land_ones. change (2 ^ 7) with 128.
  pose proof (N.mod_lt x 128 ltac:(lia)) as Hm.
  rewrite lor_128 by exact Hm. split.
  - apply N.ltb_ge. lia.
  - replace (x mod 128 + 128) with (x mod 128 + 1 * 128) by lia.
    rewrite N.mod_add by lia. apply N.mod_small; exact Hm.
Qed.

Lemma put_uvarint_fuel_S f x : put_uvarint_fuel (S f) x =
  if x <? 128 then [x] else (N.lor (N.land x 127) 128) :: put_uvarint_fuel f (N.shiftr x 7).
Proof. reflexivity. Qed.

Lemma read_uvarint_from_S i f x s b r : read_uvarint_from i (S f) x s (b :: r) =
  if b <? 128 then (if (i =? 9)%nat && (1 <? b) then Err else Ok (N.lor x (N.shiftl b s), r))
  else read_uvarint_from (S i) f (N.lor x (N.shiftl (N.land b 127) s)) (s + 7) r.
Proof. reflexivity. Qed.

Lemma read_put_uvarint : forall fuel i x acc rest,
  (i + S fuel = 10)%nat -> x < 2 ^ (64 - 7 * N.of_nat i) -> acc < 2 ^ (7 * N.of_nat i) ->
  read_uvarint_from i (S fuel) acc (7 * N.of_nat i) (put_uvarint_fuel (S fuel) x ++ rest)
  = Ok (acc + x * 2 ^ (7 * N.of_nat i), rest).
Proof.
  induction fuel as [|fuel IH]; intros i x acc rest Hi Hx Hacc.
  - assert (i = 9)%nat by lia. subst i. change (64 - 7 * N.of_nat 9) with 1 in Hx.
    assert (Hx' : x < 2) by exact Hx.
    cbn [put_uvarint_fuel]. replace (x <? 128) with true by (symmetry; apply N.ltb_lt; lia).
    cbn [app read_uvarint_from]. replace (x <? 128) with true by (symmetry; apply N.ltb_lt; lia).
    replace (1 <? x) with false by (symmetry; apply N.ltb_ge; lia).
    rewrite andb_false_r. rewrite lor_shiftl_add by exact Hacc. reflexivity.
  - rewrite put_uvarint_fuel_S. destruct (x <? 128) eqn:E.
    + cbn [app]. rewrite read_uvarint_from_S. rewrite E.
      replace (i =? 9)%nat with false by (symmetry; apply Nat.eqb_neq; lia).
      cbn [andb]. rewrite lor_shiftl_add by exact Hacc. reflexivity.
    + apply N.ltb_ge in E.
      pose proof (uvarint_cont_byte x) as [B1 B2]. cbv zeta in B1, B2.
      rewrite <- app_comm_cons. rewrite read_uvarint_from_S. rewrite B1, B2.
      replace (7 * N.of_nat i + 7) with (7 * N.of_nat (S i)) by lia.
      pose proof (N.mod_lt x 128 ltac:(lia)) as Hm.
      assert (P7 : 2 ^ (7 * N.of_nat (S i)) = 2 ^ (7 * N.of_nat i) * 128).
      { replace (7 * N.of_nat (S i)) with (7 * N.of_nat i + 7) by lia. rewrite N.pow_add_r. reflexivity. }
      rewrite lor_shiftl_add by exact Hacc.
      rewrite IH.
      * f_equal. f_equal. rewrite N.shiftr_div_pow2. change (2 ^ 7) with 128. rewrite P7.
        pose proof (N.div_mod x 128 ltac:(lia)) as D. nia.
      * lia.
      * rewrite N.shiftr_div_pow2. change (2 ^ 7) with 128.
        apply N.div_lt_upper_bound; [lia|].
        replace (64 - 7 * N.of_nat i) with ((64 - 7 * N.of_nat (S i)) + 7) in Hx by lia.
        rewrite N.pow_add_r in Hx. change (2 ^ 7) with 128 in Hx. lia.
      * rewrite P7. assert (0 < 2 ^ (7 * N.of_nat i)) by (apply N.neq_0_lt_0, N.pow_nonzero; lia). nia.
Qed.

Lemma read_uvarint_put n rest : n < 2 ^ 64 -> read_uvarint (put_uvarint n ++ rest) = Ok (n, rest).
Proof.
  intros H. unfold read_uvarint, put_uvarint.
  change 0 with (7 * N.of_nat 0) at 2.
  rewrite read_put_uvarint; [|lia|exact H|cbn; lia].
  cbn. rewrite N.mul_1_r. reflexivity.
Qed.

(* no lemma here evaluates sha2pc_chunkSizeLimit: the limit is whatever the
   regenerated Gen/Consts.v says; everything that needs "the encoders' chunks
   fit the limit" takes it from [chunk_limit_ok] below *)
Lemma read_chunk_write_chunk data rest :
  N.of_nat (length data) <= chunkSizeLimit -> N.of_nat (length data) < 2 ^ 64 -> data ++ rest <> [] ->
  read_chunk (write_chunk data ++ rest) = Ok (data, rest).
Proof.
  intros Hl H64 Hne. unfold read_chunk, write_chunk. rewrite <- app_assoc.
  rewrite read_uvarint_put by exact H64.
  cbn [bind].
  replace (length (put_uvarint (N.of_nat (length data)) ++ data ++ rest) - length (data ++ rest))%nat
    with (length (put_uvarint (N.of_nat (length data)))) by (rewrite (app_length (put_uvarint _)); lia).
  rewrite Nat.eqb_refl. cbn [guard bind].
  replace (chunkSizeLimit <? N.of_nat (length data)) with false by (symmetry; apply N.ltb_ge; exact Hl).
  replace (N.of_nat (length (data ++ rest)) <? N.of_nat (length data)) with false
    by (symmetry; apply N.ltb_ge; rewrite app_length; lia).
  destruct (data ++ rest) eqn:E; [contradiction|]. rewrite <- E.
  rewrite Nat2N.id, firstn_len_app, skipn_len_app. reflexivity.
Qed.

Lemma read_full_app k a r : length a = k -> read_full k (a ++ r) = Ok (a, r).
Proof.
  intros <-. unfold read_full. rewrite app_length.
  replace (length a <=? length a + length r)%nat with true by (symmetry; apply Nat.leb_le; lia).
  rewrite firstn_len_app, skipn_len_app. reflexivity.
Qed.

Lemma write_fixed_ok bl v : v < 256 ^ N.of_nat bl -> write_fixed bl v = Ok (be_s bl v).
Proof. intros H. unfold write_fixed. replace (256 ^ N.of_nat bl <=? v) with false by (symmetry; apply N.leb_gt; exact H). reflexivity. Qed.

Lemma read_fixed_be bl v r : v < 256 ^ N.of_nat bl -> read_fixed bl (be_s bl v ++ r) = Ok (v, r).
Proof.
  intros H. unfold read_fixed. rewrite read_full_app by apply be_s_length. cbn [bind].
  rewrite of_be_s_be_s by exact H. reflexivity.
Qed.

Definition fits (bl : nat) (v : N) : Prop := v < 256 ^ N.of_nat bl.

Lemma write_fixed_list_ok bl vs : Forall (fits bl) vs -> write_fixed_list bl vs = Ok (flat_map (be_s bl) vs).
Proof.
  induction 1 as [|v vs Hv _ IH]; [reflexivity|]. cbn [write_fixed_list flat_map].
  rewrite write_fixed_ok by exact Hv. cbn [bind]. rewrite IH. reflexivity.
Qed.

Lemma read_fixed_list_ok bl vs r : Forall (fits bl) vs ->
  read_fixed_list bl (length vs) (flat_map (be_s bl) vs ++ r) = Ok (vs, r).
Proof.
  induction 1 as [|v vs Hv _ IH]; [reflexivity|]. cbn [length read_fixed_list flat_map].
  rewrite <- app_assoc, read_fixed_be by exact Hv. cbn [bind]. rewrite IH. reflexivity.
Qed.

Lemma flat_map_be_s_length bl vs : length (flat_map (be_s bl) vs) = (bl * length vs)%nat.
Proof. induction vs as [|v vs IH]; cbn [flat_map length]; [lia|]. rewrite app_length, be_s_length, IH. lia. Qed.

Lemma curve_name_length c : length (curve_name c) = 5%nat.
Proof. destruct c; reflexivity. Qed.

Lemma curve_name_nonempty c : curve_name c <> [].
Proof. destruct c; discriminate. Qed.

Lemma curve_name_inj c c' : curve_name c = curve_name c' -> c = c'.
Proof. destruct c, c'; intros H; try reflexivity; discriminate. Qed.

Lemma check_name_ok c : check_name c (curve_name c) = Ok (curve_name c).
Proof. unfold check_name. destruct c; reflexivity. Qed.

Lemma write_chunk_name c : write_chunk (curve_name c) = 5 :: curve_name c.
Proof. destruct c; reflexivity. Qed.

Lemma byteLen_pos c : (28 <= byteLen c <= 66)%nat.
Proof. destruct c; cbv; lia. Qed.

(* ---- the chunk-size limit.  The largest chunk an encoder writes for curve c
   is the evaluator session's choice bundle: 6 + 2*byteLen + 256*byteLen + 32
   bytes (the garbler session's is 6 + 5*byteLen, the curve name 5).
   readChunk refuses chunks above chunkSizeLimit, writeChunk has no bound: the
   encodings round-trip iff the limit covers these sizes on every supported
   curve.  [chunk_limit_ok] is a hypothesis of every theorem below that needs
   it; it is discharged for the regenerated constant, by computation, only in
   Props/C18.v (C18_limit_covers_all_encodings), so that a limit that is too
   small breaks exactly that obligation. *)
Definition max_chunk (c : curve) : nat := (38 + 258 * byteLen c)%nat.
Definition chunk_limit_ok : Prop := forall c, N.of_nat (max_chunk c) <= chunkSizeLimit.
Definition chunk_limit_check : bool :=
  forallb (fun c => N.of_nat (max_chunk c) <=? chunkSizeLimit) [P224; P256; P384; P521].
Lemma chunk_limit_ok_of_check : chunk_limit_check = true -> chunk_limit_ok.
Proof.
  unfold chunk_limit_check. intros H c. rewrite forallb_forall in H.
  apply N.leb_le. apply H. destruct c; cbn; auto.
Qed.

Section LimitOK.
Hypothesis limit_ok : chunk_limit_ok.

Lemma chunk_fits n c : (n <= max_chunk c)%nat -> N.of_nat n <= chunkSizeLimit /\ N.of_nat n < 2 ^ 64.
Proof.
  intros H. pose proof (limit_ok c) as L. pose proof (byteLen_pos c) as B. unfold max_chunk in *.
  change (2 ^ 64) with 18446744073709551616. split; lia.
Qed.

Lemma read_chunk_name c rest : read_chunk (write_chunk (curve_name c) ++ rest) = Ok (curve_name c, rest).
Proof.
  destruct (chunk_fits (length (curve_name c)) c) as [A B].
  { rewrite curve_name_length. unfold max_chunk. lia. }
  apply read_chunk_write_chunk; [exact A|exact B|].
  destruct c; discriminate.
Qed.


(* ====================================================================== *)
(* Round 1                                                                 *)

Definition wf_r1 (c : curve) (m : round1) : Prop :=
  r1_sid m < 2 ^ 64 /\ r1_name m = curve_name c /\ fits (byteLen c) (r1_ax m) /\ fits (byteLen c) (r1_ay m).

Lemma sid_fits sid : sid < 2 ^ 64 -> sid < 256 ^ N.of_nat 8.
Proof. intros H. exact H. Qed.

Theorem r1_roundtrip c m : wf_r1 c m ->
  exists b, EncodeRound1 c m = Ok b /\ DecodeRound1 c b = Ok m /\ length b = (16 + 2 * byteLen c)%nat.
Proof.
  destruct m as [sid name ax ay]. intros (Hs & Hn & Hx & Hy). cbn in Hs, Hn, Hx, Hy. subst name.
  unfold EncodeRound1, encodeOTSetup. cbn [r1_sid r1_name r1_ax r1_ay].
  rewrite check_name_ok. cbn [bind]. rewrite !write_fixed_ok by assumption. cbn [bind].
  eexists. split; [reflexivity|]. split.
  - unfold DecodeRound1. rewrite read_full_app by reflexivity. cbn [bind].
    rewrite bytes_eqb_refl. cbn [guard bind].
    rewrite read_full_app by apply be_s_length. cbn [bind].
    unfold decodeOTSetup. rewrite <- ?app_assoc. rewrite read_chunk_name. cbn [bind].
    rewrite bytes_eqb_refl. cbn [guard bind].
    rewrite read_fixed_be by exact Hx. cbn [bind].
    rewrite <- (app_nil_r (be_s (byteLen c) ay)). rewrite read_fixed_be by exact Hy. cbn [bind].
    rewrite bytes_eqb_refl. cbn [guard bind no_trailing length Nat.eqb].
    rewrite of_be_s_be_s by (apply sid_fits; exact Hs). reflexivity.
  - rewrite write_chunk_name. rewrite !app_length. change (length magicRound1) with 2%nat.
    cbn [length]. rewrite !be_s_length, curve_name_length. lia.
Qed.

(* ====================================================================== *)
(* garbler session                                                         *)

Definition wf_gs (c : curve) (s : gsession) : Prop :=
  gs_sid s < 2 ^ 64 /\ gs_name s = curve_name c /\
  Forall (fits (byteLen c)) [gs_scalar s; gs_ax s; gs_ay s; gs_ainvx s; gs_ainvy s].

Theorem gs_roundtrip c s : wf_gs c s ->
  exists b, EncodeGarblerSession c s = Ok b /\ DecodeGarblerSession c b = Ok s /\
            length b = (18 + 5 * byteLen c)%nat.
Proof.
  destruct s as [sid name sc ax ay ix iy]. intros (Hs & Hn & Hf). cbn in Hs, Hn, Hf. subst name.
  unfold EncodeGarblerSession, encodeCOSenderSetup. cbn [gs_sid gs_name gs_scalar gs_ax gs_ay gs_ainvx gs_ainvy].
  rewrite check_name_ok. cbn [bind]. rewrite write_fixed_list_ok by exact Hf. cbn [bind].
  set (fs := flat_map (be_s (byteLen c)) [sc; ax; ay; ix; iy]).
  assert (Lfs : length fs = (5 * byteLen c)%nat) by (unfold fs; rewrite flat_map_be_s_length; cbn [length]; lia).
  set (inner := write_chunk (curve_name c) ++ fs).
  assert (Li : length inner = (6 + 5 * byteLen c)%nat).
  { unfold inner. rewrite write_chunk_name, app_length. cbn [length]. rewrite curve_name_length. lia. }
  pose proof (byteLen_pos c) as Hbl.
  eexists. split; [reflexivity|]. split.
  - unfold DecodeGarblerSession. rewrite read_full_app by reflexivity. cbn [bind].
    rewrite bytes_eqb_refl. cbn [guard bind].
    rewrite read_full_app by apply be_s_length. cbn [bind].
    rewrite <- (app_nil_r (write_chunk inner)).
    destruct (chunk_fits (length inner) c) as [CA CB]; [rewrite Li; unfold max_chunk; lia|].
    rewrite read_chunk_write_chunk; [|exact CA|exact CB|].
    2:{ rewrite app_nil_r. intros E. rewrite E in Li. cbn in Li. lia. }
    cbn [bind no_trailing length Nat.eqb guard]. unfold decodeCOSenderSetup, inner. rewrite read_chunk_name. cbn [bind].
    rewrite bytes_eqb_refl. cbn [guard bind].
    rewrite <- (app_nil_r fs). unfold fs.
    change 5%nat with (length [sc; ax; ay; ix; iy]).
    rewrite read_fixed_list_ok by exact Hf. cbn [bind no_trailing length Nat.eqb guard].
    rewrite of_be_s_be_s by (apply sid_fits; exact Hs). reflexivity.
  - rewrite !app_length, be_s_length. change (length magicGarblerSession) with 2%nat.
    unfold write_chunk. rewrite app_length, Li.
    cbn [length]. assert (length (put_uvarint (N.of_nat (6 + 5 * byteLen c))) = 2%nat) by (destruct c; reflexivity).
    lia.
Qed.

(* ====================================================================== *)
(* evaluator session                                                       *)

Definition wf_es (c : curve) (s : esession) : Prop :=
  es_sid s < 2 ^ 64 /\ es_name s = curve_name c /\
  fits (byteLen c) (es_ax s) /\ fits (byteLen c) (es_ay s) /\
  length (es_scalars s) = evaluatorCiphertextCount /\ Forall (fits (byteLen c)) (es_scalars s) /\
  length (es_bits s) = evaluatorCiphertextCount.

(* 48 + 258*byteLen + the uvarint of the inner length (3 bytes for P-521) *)
Definition es_len (c : curve) : nat :=
  (match c with P521 => 51 | _ => 50 end + 258 * byteLen c)%nat.

Lemma sign_bytes_length bits : length bits = evaluatorCiphertextCount ->
  length (bitsToBytesLittle bits) = evaluatorChoiceSignBytes.
Proof.
  intros H. destruct (bytes_bits_roundtrip_pad bits) as (pad & _ & _ & _ & L). rewrite L, H. reflexivity.
Qed.

Theorem es_roundtrip c s : wf_es c s ->
  exists b, EncodeEvaluatorSession c s = Ok b /\ DecodeEvaluatorSession c b = Ok s /\
            length b = es_len c.
Proof.
  destruct s as [sid name ax ay scalars bits]. intros (Hs & Hn & Hx & Hy & Ls & Fs & Lb).
  cbn [es_sid es_name es_ax es_ay es_scalars es_bits] in *. subst name.
  unfold EncodeEvaluatorSession, encodeChoiceBundle. cbn [es_sid es_name es_ax es_ay es_scalars es_bits].
  rewrite check_name_ok. cbn [bind].
  rewrite write_fixed_list_ok by (repeat constructor; assumption). cbn [bind].
  rewrite Ls, Lb, Nat.eqb_refl. cbn [guard bind].
  rewrite write_fixed_list_ok by exact Fs. cbn [bind].
  pose proof (sign_bytes_length bits Lb) as Lsig. rewrite Lsig, Nat.eqb_refl. cbn [guard bind].
  set (sig := bitsToBytesLittle bits) in *.
  set (ss := flat_map (be_s (byteLen c)) scalars).
  set (aa := flat_map (be_s (byteLen c)) [ax; ay]).
  assert (Lss : length ss = (256 * byteLen c)%nat).
  { unfold ss. rewrite flat_map_be_s_length, Ls. change evaluatorCiphertextCount with 256%nat. lia. }
  assert (Laa : length aa = (2 * byteLen c)%nat) by (unfold aa; rewrite flat_map_be_s_length; cbn [length]; lia).
  assert (Lsig' : length sig = 32%nat) by exact Lsig.
  set (inner := write_chunk (curve_name c) ++ aa ++ ss ++ sig).
  assert (Li : length inner = (38 + 258 * byteLen c)%nat).
  { unfold inner. rewrite write_chunk_name, !app_length. cbn [length]. rewrite curve_name_length. lia. }
  pose proof (byteLen_pos c) as Hbl.
  eexists. split; [reflexivity|]. split.
  - unfold DecodeEvaluatorSession. rewrite read_full_app by reflexivity. cbn [bind].
    rewrite bytes_eqb_refl. cbn [guard bind].
    rewrite read_full_app by apply be_s_length. cbn [bind].
    rewrite <- (app_nil_r (write_chunk inner)).
    destruct (chunk_fits (length inner) c) as [CA CB]; [rewrite Li; unfold max_chunk; lia|].
    rewrite read_chunk_write_chunk; [|exact CA|exact CB|].
    2:{ rewrite app_nil_r. intros E. rewrite E in Li. cbn in Li. lia. }
    cbn [bind no_trailing length Nat.eqb guard]. unfold decodeChoiceBundle, inner. rewrite read_chunk_name. cbn [bind].
    rewrite bytes_eqb_refl. cbn [guard bind].
    unfold aa. change 2%nat with (length [ax; ay]) at 1.
    rewrite read_fixed_list_ok by (repeat constructor; assumption). cbn [bind].
    unfold ss. rewrite <- Ls. rewrite read_fixed_list_ok by exact Fs. cbn [bind].
    rewrite <- (app_nil_r sig). rewrite read_full_app by exact Lsig. cbn [bind no_trailing length Nat.eqb guard].
    rewrite bytesToBitsLittle_length, Lsig'. rewrite Ls.
    change (evaluatorCiphertextCount <=? 8 * 32)%nat with true. cbn [guard bind nth].
    unfold sig. rewrite <- Lb, firstn_bytes_bits.
    rewrite of_be_s_be_s by (apply sid_fits; exact Hs). reflexivity.
  - rewrite !app_length, be_s_length. change (length magicEvalSession) with 2%nat.
    unfold write_chunk. rewrite app_length, Li. unfold es_len.
    assert (length (put_uvarint (N.of_nat (38 + 258 * byteLen c))) = match c with P521 => 3 | _ => 2 end%nat)
      by (destruct c; reflexivity).
    destruct c; lia.
Qed.

(* ====================================================================== *)
(* Round 2                                                                 *)

Lemma slice_eq data pre mid post lo hi :
  data = pre ++ mid ++ post -> lo = length pre -> hi = (lo + length mid)%nat ->
  slice data lo hi = Ok mid.
Proof.
  intros -> -> ->. unfold slice. rewrite !app_length.
  replace (length pre <=? length pre + length mid)%nat with true by (symmetry; apply Nat.leb_le; lia).
  replace (length pre + length mid <=? length pre + (length mid + length post))%nat with true
    by (symmetry; apply Nat.leb_le; lia).
  cbn [andb]. rewrite skipn_len_app.
  replace (length pre + length mid - length pre)%nat with (length mid) by lia.
  rewrite firstn_len_app. reflexivity.
Qed.

Lemma nth_byte_bits : forall k j x, (j < k)%nat -> nth j (byte_bits k x) false = N.testbit x (N.of_nat j).
Proof.
  induction k as [|k IH]; intros j x H; [lia|]. cbn [byte_bits].
  destruct j as [|j]; cbn [nth].
  - symmetry. apply N.bit0_odd.
  - rewrite IH by lia. rewrite N.div2_spec, N.shiftr_spec', N.add_1_r, Nat2N.inj_succ. reflexivity.
Qed.

Lemma testbit_nth : forall bs i, (i / 8 < length bs)%nat ->
  nth i (bytesToBitsLittle bs) false = N.testbit (nth (i / 8) bs 0) (N.of_nat (i mod 8)).
Proof.
  unfold bytesToBitsLittle.
  induction bs as [|b bs IH]; intros i H; [cbn in H; lia|].
  cbn [flat_map]. destruct (Nat.lt_ge_cases i 8) as [Hi|Hi].
  - rewrite app_nth1 by (rewrite byte_bits_length; exact Hi).
    rewrite Nat.div_small, Nat.mod_small by exact Hi. cbn [nth]. apply nth_byte_bits; exact Hi.
  - rewrite app_nth2 by (rewrite byte_bits_length; exact Hi). rewrite byte_bits_length.
    assert (Hd : (i / 8 = S ((i - 8) / 8))%nat).
    { replace i with ((i - 8) + 1 * 8)%nat at 1 by lia. rewrite Nat.div_add by lia. lia. }
    assert (Hm : (i mod 8 = (i - 8) mod 8)%nat).
    { replace i with ((i - 8) + 1 * 8)%nat at 1 by lia. rewrite Nat.mod_add by lia. reflexivity. }
    rewrite Hd, Hm. cbn [nth]. apply IH. cbn [length] in H. lia.
Qed.

Lemma pointSign_pack all i d : (i < length all)%nat ->
  pointSign (packPointSigns all) i = Ok (N.odd (snd (nth i all d))).
Proof.
  intros Hi. unfold packPointSigns.
  set (bits := map (fun p : N * N => N.odd (snd p)) all).
  assert (Lb : length bits = length all) by (unfold bits; apply map_length).
  destruct (bytes_bits_roundtrip_pad bits) as (pad & Hp & E & L1 & L2).
  assert (Hq : (i / 8 < length (bitsToBytesLittle bits))%nat).
  { apply Nat.div_lt_upper_bound; lia. }
  unfold pointSign. destruct (bitsToBytesLittle bits) as [|s0 sr] eqn:Es; [cbn in Hq; lia|].
  rewrite <- Es in *. unfold index.
  destruct (nth_error (bitsToBytesLittle bits) (i / 8)) as [b|] eqn:En.
  2:{ apply nth_error_None in En. lia. }
  cbn [bind]. f_equal.
  apply (nth_error_nth _ _ 0) in En. rewrite <- En, <- testbit_nth by exact Hq.
  rewrite E, app_nth1 by lia. unfold bits.
  rewrite (nth_indep _ false (N.odd (snd d))) by (rewrite map_length; exact Hi).
  rewrite (map_nth (fun p : N * N => N.odd (snd p))). reflexivity.
Qed.

Section R2.
  Variable decompress : curve -> N -> bool -> option (N * N).

  Definition point_ok (c : curve) (p : N * N) : Prop :=
    fits (byteLen c) (fst p) /\ decompress c (fst p) (N.odd (snd p)) = Some p.

  Definition wf_r2 (c : curve) (m : round2) : Prop :=
    r2_sid m < 2 ^ 64 /\ r2_name m = curve_name c /\
    length (r2_choices m) = evaluatorCiphertextCount /\ Forall (point_ok c) (r2_choices m).

  Lemma decodePoints_xs_ok bl : forall vs pre post,
    Forall (fits bl) vs ->
    decodePoints_xs bl (length vs) (length pre) (pre ++ flat_map (be_s bl) vs ++ post) = Ok vs.
  Proof.
    induction vs as [|v vs IH]; intros pre post F; [reflexivity|].
    inversion F as [|? ? Hv F']; subst. cbn [length decodePoints_xs flat_map].
    rewrite (slice_eq _ pre (be_s bl v) (flat_map (be_s bl) vs ++ post)).
    2:{ rewrite <- app_assoc. reflexivity. }
    2:{ reflexivity. }
    2:{ rewrite be_s_length. reflexivity. }
    cbn [bind].
    replace (length pre + bl)%nat with (length (pre ++ be_s bl v)) by (rewrite app_length, be_s_length; reflexivity).
    replace (pre ++ (be_s bl v ++ flat_map (be_s bl) vs) ++ post)
      with ((pre ++ be_s bl v) ++ flat_map (be_s bl) vs ++ post) by (rewrite <- !app_assoc; reflexivity).
    rewrite IH by exact F'. cbn [bind]. rewrite of_be_s_be_s by exact Hv. reflexivity.
  Qed.

  Lemma decodePoints_pts_ok c all : forall l pre,
    all = pre ++ l -> Forall (point_ok c) l ->
    decodePoints_pts decompress c (packPointSigns all) (length pre) (map fst l) = Ok l.
  Proof.
    induction l as [|p l IH]; intros pre E F; [reflexivity|].
    inversion F as [|? ? [Hf Hd] F']; subst. cbn [map decodePoints_pts].
    rewrite (pointSign_pack _ _ p) by (rewrite app_length; cbn [length]; lia).
    cbn [bind]. rewrite app_nth2, Nat.sub_diag by lia. cbn [nth]. rewrite Hd.
    specialize (IH (pre ++ [p])). rewrite app_length in IH. cbn [length] in IH.
    replace (length pre + 1)%nat with (S (length pre)) in IH by lia.
    rewrite IH; [reflexivity| rewrite <- app_assoc; reflexivity | exact F'].
  Qed.

  Theorem r2_roundtrip c m : wf_r2 c m ->
    exists b, EncodeRound2 c m = Ok b /\ DecodeRound2 decompress c b = Ok m /\
              length b = (48 + 256 * byteLen c)%nat.
  Proof.
    destruct m as [sid name pts]. intros (Hs & Hn & Lp & Fp). cbn [r2_sid r2_name r2_choices] in *. subst name.
    unfold EncodeRound2, encodePoints. cbn [r2_sid r2_choices].
    rewrite Lp, Nat.eqb_refl. cbn [guard bind].
    assert (Fx : Forall (fits (byteLen c)) (map fst pts)).
    { apply Forall_map. eapply Forall_impl; [|exact Fp]. intros p [H _]; exact H. }
    rewrite write_fixed_list_ok by exact Fx. cbn [bind].
    assert (Lsig : length (packPointSigns pts) = evaluatorChoiceSignBytes).
    { apply sign_bytes_length. rewrite map_length. exact Lp. }
    rewrite Lsig, Nat.eqb_refl. cbn [guard bind].
    set (xs := flat_map (be_s (byteLen c)) (map fst pts)).
    assert (Lxs : length xs = (evaluatorCiphertextCount * byteLen c)%nat).
    { unfold xs. rewrite flat_map_be_s_length, map_length, Lp. lia. }
    eexists. split; [reflexivity|]. split.
    - unfold DecodeRound2. rewrite read_full_app by reflexivity. cbn [bind].
      rewrite bytes_eqb_refl. cbn [guard bind].
      rewrite read_full_app by apply be_s_length. cbn [bind].
      rewrite read_chunk_name. cbn [bind]. rewrite bytes_eqb_refl. cbn [guard bind].
      unfold decodePoints. rewrite app_length, Lxs, Lsig, Nat.eqb_refl. cbn [guard bind].
      assert (E1 : decodePoints_xs (byteLen c) evaluatorCiphertextCount 0 (xs ++ packPointSigns pts) = Ok (map fst pts)).
      { rewrite <- Lp, <- (map_length fst pts).
        apply (decodePoints_xs_ok (byteLen c) (map fst pts) [] (packPointSigns pts) Fx). }
      rewrite E1. cbn [bind].
      rewrite (slice_eq _ xs (packPointSigns pts) []); [|rewrite app_nil_r; reflexivity|exact (eq_sym Lxs)|rewrite Lsig; reflexivity].
      cbn [bind].
      pose proof (decodePoints_pts_ok c pts pts [] eq_refl Fp) as E2. cbn [length] in E2.
      rewrite E2. cbn [bind].
      rewrite of_be_s_be_s by (apply sid_fits; exact Hs). reflexivity.
    - rewrite write_chunk_name, !app_length. change (length magicRound2) with 2%nat.
      cbn [length]. rewrite be_s_length, curve_name_length, Lxs, Lsig.
      change evaluatorCiphertextCount with 256%nat. change evaluatorChoiceSignBytes with 32%nat. lia.
  Qed.
End R2.


(* ====================================================================== *)
(* Round 3                                                                 *)

Definition fits2 (w : nat) (p : N * N) : Prop := fits w (fst p) /\ fits w (snd p).

Definition wf_r3 (m : round3) : Prop :=
  r3_sid m < 2 ^ 64 /\ length (r3_key m) = garblingKeyBytes /\
  length (r3_tables m) = garbledTableLabelCount /\ Forall (fits 16) (r3_tables m) /\
  length (r3_inputs m) = garblerInputLabelCount /\ Forall (fits 16) (r3_inputs m) /\
  length (r3_hints m) = outputHintCount /\ Forall (fits2 16) (r3_hints m) /\
  length (r3_cts m) = evaluatorCiphertextCount /\ Forall (fits2 16) (r3_cts m).

Lemma split_be_flat w : forall vs, Forall (fits w) vs ->
  split_be w (length vs) (flat_map (be_s w) vs) = vs.
Proof.
  induction 1 as [|v vs Hv _ IH]; [reflexivity|]. cbn [length split_be flat_map].
  rewrite firstn_k_app, skipn_k_app by apply be_s_length. rewrite IH, of_be_s_be_s by exact Hv. reflexivity.
Qed.

Lemma pairs_unpairs l : pairs (unpairs l) = l.
Proof. unfold unpairs. induction l as [|[a b] l IH]; [reflexivity|]. cbn [flat_map app fst snd pairs]. rewrite IH. reflexivity. Qed.

Lemma unpairs_length l : length (unpairs l) = (2 * length l)%nat.
Proof. unfold unpairs. induction l as [|p l IH]; [reflexivity|]. cbn [flat_map app length]. rewrite IH. lia. Qed.

Lemma unpairs_fits w l : Forall (fits2 w) l -> Forall (fits w) (unpairs l).
Proof. unfold unpairs. induction 1 as [|p l [H1 H2] _ IH]; [constructor|]. cbn [flat_map app]. repeat constructor; assumption. Qed.

Lemma encodeLabelList_length ls : length (encodeLabelList ls) = (16 * length ls)%nat.
Proof. apply flat_map_be_s_length. Qed.

Lemma decodeLabelBlock_ok nb count ls : Forall (fits 16) ls -> length ls = count -> nb = (16 * count)%nat ->
  decodeLabelBlock 16 nb count (encodeLabelList ls) = Ok ls.
Proof.
  intros F L ->. unfold decodeLabelBlock. rewrite encodeLabelList_length, L, Nat.eqb_refl. cbn [guard bind].
  rewrite <- L. unfold encodeLabelList. rewrite split_be_flat by exact F. reflexivity.
Qed.

Section R3.
  (* the size parameters as variables; instantiated with params.go below *)
  Variables (kKey nTabB nTab nInB nIn nHintB nHint nCtB nCt total : nat).
  Hypothesis HtabB : nTabB = (16 * nTab)%nat.
  Hypothesis HinB : nInB = (16 * nIn)%nat.
  Hypothesis HhintB : nHintB = (16 * (2 * nHint))%nat.
  Hypothesis HctB : nCtB = (16 * (2 * nCt))%nat.
  Hypothesis Htotal : total = (length magicRound3 + 8 + kKey + nTabB + nInB + nHintB + nCtB)%nat.

  Theorem r3_roundtrip_gen m :
    r3_sid m < 2 ^ 64 -> length (r3_key m) = kKey ->
    length (r3_tables m) = nTab -> Forall (fits 16) (r3_tables m) ->
    length (r3_inputs m) = nIn -> Forall (fits 16) (r3_inputs m) ->
    length (r3_hints m) = nHint -> Forall (fits2 16) (r3_hints m) ->
    length (r3_cts m) = nCt -> Forall (fits2 16) (r3_cts m) ->
    exists b, EncodeRound3_gen nTab nIn nHint nCt total m = Ok b /\
              DecodeRound3_gen 8 kKey 16 nTabB nTab nInB nHintB nHint nCtB nCt total b = Ok m /\
              length b = total.
  Proof.
    destruct m as [sid key tables inputs hints cts].
    cbn [r3_sid r3_key r3_tables r3_inputs r3_hints r3_cts].
    intros Hs Lk Lt Ft Li Fi Lh Fh Lc Fc.
    change (length magicRound3) with 2%nat in Htotal.
    set (T := encodeLabelList tables). set (I := encodeLabelList inputs).
    set (H := encodeLabelList (unpairs hints)). set (C := encodeLabelList (unpairs cts)).
    assert (LT : length T = nTabB) by (unfold T; rewrite encodeLabelList_length, Lt; lia).
    assert (LI : length I = nInB) by (unfold I; rewrite encodeLabelList_length, Li; lia).
    assert (LH : length H = nHintB) by (unfold H; rewrite encodeLabelList_length, unpairs_length, Lh; lia).
    assert (LC : length C = nCtB) by (unfold C; rewrite encodeLabelList_length, unpairs_length, Lc; lia).
    set (out := magicRound3 ++ be_s 8 sid ++ key ++ T ++ I ++ H ++ C).
    assert (Lout : length out = total).
    { unfold out. rewrite !app_length, be_s_length, Lk, LT, LI, LH, LC. change (length magicRound3) with 2%nat. lia. }
    assert (Enc : EncodeRound3_gen nTab nIn nHint nCt total (mkR3 sid key tables inputs hints cts) = Ok out).
    { unfold EncodeRound3_gen. cbn [r3_sid r3_key r3_tables r3_inputs r3_hints r3_cts].
      rewrite Lt, Li, Lh, Lc, !Nat.eqb_refl. cbn [guard bind].
      fold T I H C. fold out. rewrite Lout, Nat.eqb_refl. reflexivity. }
    exists out. split; [exact Enc|]. split; [|exact Lout].
    assert (Lm : length magicRound3 = 2%nat) by reflexivity.
    assert (Ls8 : length (be_s 8 sid) = 8%nat) by apply be_s_length.
    unfold DecodeRound3_gen. rewrite Lout, Nat.eqb_refl. cbn [guard bind]. cbv zeta.
    rewrite Lm.
    rewrite (slice_eq out [] magicRound3 (be_s 8 sid ++ key ++ T ++ I ++ H ++ C)); [|reflexivity|reflexivity|reflexivity].
    cbn [bind]. rewrite bytes_eqb_refl. cbn [guard bind].
    rewrite (slice_eq out magicRound3 (be_s 8 sid) (key ++ T ++ I ++ H ++ C));
      [|reflexivity|reflexivity|rewrite Ls8; reflexivity].
    cbn [bind].
    rewrite (slice_eq out (magicRound3 ++ be_s 8 sid) key (T ++ I ++ H ++ C));
      [|unfold out; rewrite <- !app_assoc; reflexivity|rewrite app_length, Ls8, Lm; reflexivity|rewrite Lk; reflexivity].
    cbn [bind].
    rewrite (slice_eq out (magicRound3 ++ be_s 8 sid ++ key) T (I ++ H ++ C));
      [|unfold out; rewrite <- !app_assoc; reflexivity
       |rewrite !app_length, Ls8, Lk, Lm; lia|rewrite LT; reflexivity].
    cbn [bind]. unfold T at 1. rewrite decodeLabelBlock_ok by (assumption || lia). cbn [bind].
    rewrite (slice_eq out (magicRound3 ++ be_s 8 sid ++ key ++ T) I (H ++ C));
      [|unfold out; rewrite <- !app_assoc; reflexivity
       |rewrite !app_length, Ls8, Lk, LT, Lm; lia|rewrite LI; reflexivity].
    cbn [bind]. unfold I at 1.
    assert (Ediv : (nInB / 16)%nat = nIn) by (rewrite HinB, Nat.mul_comm; apply Nat.div_mul; lia).
    rewrite Ediv. rewrite decodeLabelBlock_ok by (assumption || lia). cbn [bind].
    rewrite (slice_eq out (magicRound3 ++ be_s 8 sid ++ key ++ T ++ I) H C);
      [|unfold out; rewrite <- !app_assoc; reflexivity
       |rewrite !app_length, Ls8, Lk, LT, LI, Lm; lia|rewrite LH; reflexivity].
    cbn [bind]. unfold H at 1.
    rewrite decodeLabelBlock_ok; [|apply unpairs_fits; exact Fh|rewrite unpairs_length, Lh; reflexivity|exact HhintB].
    cbn [bind].
    rewrite (slice_eq out (magicRound3 ++ be_s 8 sid ++ key ++ T ++ I ++ H) C []);
      [|unfold out; rewrite <- !app_assoc, app_nil_r; reflexivity
       |rewrite !app_length, Ls8, Lk, LT, LI, LH, Lm; lia|rewrite LC; reflexivity].
    cbn [bind]. unfold C at 1.
    rewrite decodeLabelBlock_ok; [|apply unpairs_fits; exact Fc|rewrite unpairs_length, Lc; reflexivity|exact HctB].
    cbn [bind]. rewrite !pairs_unpairs, of_be_s_be_s by (apply sid_fits; exact Hs). reflexivity.
  Qed.
End R3.

(* relations between the constants of params.go, on the regenerated values;
   the 686624-byte table size is never evaluated in unary *)
Lemma consts_rel :
  sessionIDBytes = 8%nat /\ labelByteLen = 16%nat /\
  garbledTableByteLen = (16 * garbledTableLabelCount)%nat /\
  garblerInputLabelBytes = (16 * garblerInputLabelCount)%nat /\
  outputHintBytes = (16 * (2 * outputHintCount))%nat /\
  ciphertextBytes = (16 * (2 * evaluatorCiphertextCount))%nat.
Proof.
  assert (Big : garbledTableByteLen = (16 * garbledTableLabelCount)%nat).
  { apply Nat2Z.inj. rewrite Nat2Z.inj_mul. unfold garbledTableByteLen, garbledTableLabelCount.
    rewrite !Z2Nat.id by (unfold sha2pc_garbledTableByteLen, sha2pc_garbledTableLabelCount; lia).
    reflexivity. }
  split; [reflexivity|]. split; [reflexivity|]. split; [exact Big|].
  repeat split; vm_compute; reflexivity.
Qed.

Theorem r3_roundtrip m : wf_r3 m ->
  exists b, EncodeRound3 m = Ok b /\ DecodeRound3 b = Ok m /\ length b = round3PayloadLen.
Proof.
  intros (Hs & Lk & Lt & Ft & Li & Fi & Lh & Fh & Lc & Fc).
  destruct consts_rel as (Csid & Clab & Ctb & Cib & Chb & Ccb).
  assert (Htot : round3PayloadLen = (length magicRound3 + 8 + garblingKeyBytes + garbledTableByteLen
            + garblerInputLabelBytes + outputHintBytes + ciphertextBytes)%nat).
  { unfold round3PayloadLen. rewrite Csid. reflexivity. }
  pose proof (r3_roundtrip_gen garblingKeyBytes garbledTableByteLen garbledTableLabelCount
           garblerInputLabelBytes garblerInputLabelCount outputHintBytes outputHintCount
           ciphertextBytes evaluatorCiphertextCount round3PayloadLen Ctb Cib Chb Ccb Htot m
           Hs Lk Lt Ft Li Fi Lh Fh Lc Fc) as G.
  unfold EncodeRound3, DecodeRound3. rewrite Csid, Clab. exact G.
Qed.

(* ====================================================================== *)
(* rejection: wrong magic, wrong length, other curve                        *)

Lemma round3_len_ge : (2 <= round3PayloadLen)%nat.
Proof.
  unfold round3PayloadLen. change (length magicRound3) with 2%nat.
  generalize sessionIDBytes garblingKeyBytes garbledTableByteLen garblerInputLabelBytes outputHintBytes ciphertextBytes.
  intros; lia.
Qed.

Lemma magic_reject_prefix (A : Type) magic data (k : bytes * bytes -> res A) :
  firstn 2 data <> magic ->
  ('(m, r1) <- read_full 2 data ;; _ <- guard (bytes_eqb m magic) ;; k (m, r1)) = Err.
Proof.
  intros H. unfold read_full. destruct (2 <=? length data)%nat; [|reflexivity].
  cbn [bind]. rewrite bytes_eqb_neq by exact H. reflexivity.
Qed.

Theorem reject_magic_r1 c data : firstn 2 data <> magicRound1 -> DecodeRound1 c data = Err.
Proof.
  intros H. unfold DecodeRound1, read_full. destruct (2 <=? length data)%nat; [|reflexivity].
  cbn [bind]. rewrite bytes_eqb_neq by exact H. reflexivity.
Qed.

Theorem reject_magic_r2 dec c data : firstn 2 data <> magicRound2 -> DecodeRound2 dec c data = Err.
Proof.
  intros H. unfold DecodeRound2, read_full. destruct (2 <=? length data)%nat; [|reflexivity].
  cbn [bind]. rewrite bytes_eqb_neq by exact H. reflexivity.
Qed.

Theorem reject_magic_gs c data : firstn 2 data <> magicGarblerSession -> DecodeGarblerSession c data = Err.
Proof.
  intros H. unfold DecodeGarblerSession, read_full. destruct (2 <=? length data)%nat; [|reflexivity].
  cbn [bind]. rewrite bytes_eqb_neq by exact H. reflexivity.
Qed.

Theorem reject_magic_es c data : firstn 2 data <> magicEvalSession -> DecodeEvaluatorSession c data = Err.
Proof.
  intros H. unfold DecodeEvaluatorSession, read_full. destruct (2 <=? length data)%nat; [|reflexivity].
  cbn [bind]. rewrite bytes_eqb_neq by exact H. reflexivity.
Qed.

Theorem reject_length_r3 data : length data <> round3PayloadLen -> DecodeRound3 data = Err.
Proof.
  intros H. unfold DecodeRound3, DecodeRound3_gen.
  replace (length data =? round3PayloadLen)%nat with false by (symmetry; apply Nat.eqb_neq; exact H).
  reflexivity.
Qed.

Theorem reject_magic_r3 data : firstn 2 data <> magicRound3 -> DecodeRound3 data = Err.
Proof.
  intros H. unfold DecodeRound3, DecodeRound3_gen.
  destruct (length data =? round3PayloadLen)%nat eqn:E; [|reflexivity].
  apply Nat.eqb_eq in E. cbn [guard bind]. cbv zeta. change (length magicRound3) with 2%nat.
  unfold slice at 1. pose proof round3_len_ge as G.
  replace ((0 <=? 0 + 2)%nat && (0 + 2 <=? length data)%nat) with true
    by (symmetry; apply andb_true_intro; split; apply Nat.leb_le; [|rewrite E; revert G; generalize round3PayloadLen; intros]; lia).
  cbn [bind Nat.add Nat.sub skipn]. rewrite bytes_eqb_neq by exact H. reflexivity.
Qed.

Lemma Ok_inj {A} (a b : A) : Ok a = Ok b -> a = b.
Proof. intros H. congruence. Qed.

(* a Round2 payload is rejected when its total length is wrong, provided
   its curve-name chunk is in the canonical (minimal uvarint) form *)
Theorem reject_length_r2_canonical dec c sid8 rest :
  length sid8 = 8%nat -> length rest <> (evaluatorCiphertextCount * byteLen c + evaluatorChoiceSignBytes)%nat ->
  DecodeRound2 dec c (magicRound2 ++ sid8 ++ write_chunk (curve_name c) ++ rest) = Err.
Proof.
  intros L8 H. unfold DecodeRound2. rewrite read_full_app by reflexivity. cbn [bind].
  rewrite bytes_eqb_refl. cbn [guard bind]. rewrite read_full_app by exact L8. cbn [bind].
  rewrite read_chunk_name. cbn [bind]. rewrite bytes_eqb_refl. cbn [guard bind].
  unfold decodePoints.
  replace (length rest =? _)%nat with false by (symmetry; apply Nat.eqb_neq; exact H). reflexivity.
Qed.

(* the encoding of one curve is rejected by the decoder of another *)
Theorem reject_curve_r1 c c' m b : c <> c' -> wf_r1 c m -> EncodeRound1 c m = Ok b -> DecodeRound1 c' b = Err.
Proof.
  intros Hc (Hs & Hn & Hx & Hy). destruct m as [sid name ax ay]. cbn [r1_sid r1_name r1_ax r1_ay] in *. subst name.
  unfold EncodeRound1, encodeOTSetup. cbn [r1_sid r1_name r1_ax r1_ay].
  rewrite check_name_ok. cbn [bind]. rewrite !write_fixed_ok by assumption. cbn [bind].
  intros E. apply Ok_inj in E. subst b.
  unfold DecodeRound1. rewrite read_full_app by reflexivity. cbn [bind].
  rewrite bytes_eqb_refl. cbn [guard bind]. rewrite read_full_app by apply be_s_length. cbn [bind].
  unfold decodeOTSetup. rewrite <- ?app_assoc. rewrite read_chunk_name. cbn [bind].
  rewrite bytes_eqb_neq; [reflexivity|]. intros E. apply Hc. apply curve_name_inj. exact E.
Qed.

Theorem reject_curve_r2 dec c c' m b : c <> c' -> EncodeRound2 c m = Ok b -> DecodeRound2 dec c' b = Err.
Proof.
  intros Hc. unfold EncodeRound2. destruct (encodePoints c (r2_choices m)) as [pts| |]; cbn [bind]; try discriminate.
  intros E. apply Ok_inj in E. subst b.
  unfold DecodeRound2. rewrite read_full_app by reflexivity. cbn [bind].
  rewrite bytes_eqb_refl. cbn [guard bind]. rewrite read_full_app by apply be_s_length. cbn [bind].
  rewrite read_chunk_name. cbn [bind].
  rewrite bytes_eqb_neq; [reflexivity|]. intros E. apply Hc. apply curve_name_inj. exact E.
Qed.

Theorem reject_curve_gs c c' s b : c <> c' -> wf_gs c s -> EncodeGarblerSession c s = Ok b ->
  DecodeGarblerSession c' b = Err.
Proof.
  intros Hc (Hs & Hn & Hf). destruct s as [sid name sc ax ay ix iy].
  cbn [gs_sid gs_name gs_scalar gs_ax gs_ay gs_ainvx gs_ainvy] in *. subst name.
  unfold EncodeGarblerSession, encodeCOSenderSetup. cbn [gs_sid gs_name gs_scalar gs_ax gs_ay gs_ainvx gs_ainvy].
  rewrite check_name_ok. cbn [bind]. rewrite write_fixed_list_ok by exact Hf. cbn [bind].
  intros E. apply Ok_inj in E. subst b.
  set (inner := write_chunk (curve_name c) ++ flat_map (be_s (byteLen c)) [sc; ax; ay; ix; iy]).
  assert (Li : length inner = (6 + 5 * byteLen c)%nat).
  { unfold inner. rewrite write_chunk_name, app_length, flat_map_be_s_length. cbn [length]. rewrite curve_name_length. lia. }
  pose proof (byteLen_pos c) as Hbl.
  unfold DecodeGarblerSession. rewrite read_full_app by reflexivity. cbn [bind].
  rewrite bytes_eqb_refl. cbn [guard bind]. rewrite read_full_app by apply be_s_length. cbn [bind].
  rewrite <- (app_nil_r (write_chunk inner)).
  destruct (chunk_fits (length inner) c) as [CA CB]; [rewrite Li; unfold max_chunk; lia|].
  rewrite read_chunk_write_chunk; [|exact CA|exact CB|].
  2:{ rewrite app_nil_r. intros E. rewrite E in Li. cbn in Li. lia. }
  cbn [bind no_trailing length Nat.eqb guard]. unfold decodeCOSenderSetup, inner. rewrite read_chunk_name. cbn [bind].
  rewrite bytes_eqb_neq; [reflexivity|]. intros E. apply Hc. apply curve_name_inj. exact E.
Qed.

Theorem reject_curve_es c c' s b : c <> c' -> wf_es c s -> EncodeEvaluatorSession c s = Ok b ->
  DecodeEvaluatorSession c' b = Err.
Proof.
  intros Hc W. destruct s as [sid name ax ay scalars bits]. destruct W as (Hs & Hn & Hx & Hy & Ls & Fs & Lb).
  cbn [es_sid es_name es_ax es_ay es_scalars es_bits] in *. subst name.
  unfold EncodeEvaluatorSession, encodeChoiceBundle. cbn [es_sid es_name es_ax es_ay es_scalars es_bits].
  rewrite check_name_ok. cbn [bind].
  rewrite write_fixed_list_ok by (repeat constructor; assumption). cbn [bind].
  rewrite Ls, Lb, Nat.eqb_refl. cbn [guard bind].
  rewrite write_fixed_list_ok by exact Fs. cbn [bind].
  pose proof (sign_bytes_length bits Lb) as Lsig. rewrite Lsig, Nat.eqb_refl. cbn [guard bind].
  set (tl := flat_map (be_s (byteLen c)) [ax; ay] ++ flat_map (be_s (byteLen c)) scalars ++ bitsToBytesLittle bits).
  intros E. apply Ok_inj in E. subst b.
  assert (Li : length (write_chunk (curve_name c) ++ tl) = max_chunk c).
  { unfold tl, max_chunk. rewrite write_chunk_name, !app_length, !flat_map_be_s_length, Ls, Lsig.
    cbn [length]. rewrite curve_name_length.
    change evaluatorCiphertextCount with 256%nat. change evaluatorChoiceSignBytes with 32%nat. lia. }
  destruct (chunk_fits _ c (Nat.eq_le_incl _ _ Li)) as [CA CB].
  unfold DecodeEvaluatorSession. rewrite read_full_app by reflexivity. cbn [bind].
  rewrite bytes_eqb_refl. cbn [guard bind]. rewrite read_full_app by apply be_s_length. cbn [bind].
  rewrite <- (app_nil_r (write_chunk (write_chunk (curve_name c) ++ tl))).
  rewrite read_chunk_write_chunk; [|exact CA|exact CB|rewrite write_chunk_name; discriminate].
  cbn [bind no_trailing length Nat.eqb guard]. unfold decodeChoiceBundle. rewrite read_chunk_name. cbn [bind].
  rewrite bytes_eqb_neq; [reflexivity|]. intros E. apply Hc. apply curve_name_inj. exact E.
Qed.

(* ====================================================================== *)
(* no decoder reaches a run-time panic, on any byte string                 *)

Lemma np_read_full k r : not_panic (read_full k r).
Proof. unfold read_full, not_panic. destruct (k <=? length r)%nat; discriminate. Qed.

Lemma np_read_uvarint_from : forall fuel i x s r, not_panic (read_uvarint_from i fuel x s r).
Proof.
  unfold not_panic. induction fuel as [|f IH]; intros i x s r; cbn [read_uvarint_from]; [discriminate|].
  destruct r as [|b r]; [discriminate|]. destruct (b <? 128).
  - destruct ((i =? 9)%nat && (1 <? b)); discriminate.
  - apply IH.
Qed.

Lemma np_read_chunk r : not_panic (read_chunk r).
Proof.
  unfold read_chunk. apply bind_not_panic; [apply np_read_uvarint_from|]. intros [n r1] _.
  apply bind_not_panic; [apply guard_not_panic|]. intros _ _.
  unfold not_panic. destruct (chunkSizeLimit <? n); [discriminate|].
  destruct (N.of_nat (length r1) <? n); [discriminate|]. destruct r1; discriminate.
Qed.

Lemma np_read_fixed bl r : not_panic (read_fixed bl r).
Proof. unfold read_fixed. apply bind_not_panic; [apply np_read_full|]. intros [b r'] _. discriminate. Qed.

Lemma np_read_fixed_list bl : forall k r, not_panic (read_fixed_list bl k r).
Proof.
  induction k as [|k IH]; intros r; cbn [read_fixed_list]; [discriminate|].
  apply bind_not_panic; [apply np_read_fixed|]. intros [v r1] _.
  apply bind_not_panic; [apply IH|]. intros [vs r2] _. discriminate.
Qed.

Theorem no_panic_r1 c data : not_panic (DecodeRound1 c data).
Proof.
  unfold DecodeRound1. apply bind_not_panic; [apply np_read_full|]. intros [magic r1] _.
  apply bind_not_panic; [apply guard_not_panic|]. intros _ _.
  apply bind_not_panic; [apply np_read_full|]. intros [sid r2] _.
  apply bind_not_panic.
  - unfold decodeOTSetup. apply bind_not_panic; [apply np_read_chunk|]. intros [name r3] _.
    apply bind_not_panic; [apply guard_not_panic|]. intros _ _.
    apply bind_not_panic; [apply np_read_fixed|]. intros [x r4] _.
    apply bind_not_panic; [apply np_read_fixed|]. intros [y r5] _. discriminate.
  - intros [[[name x] y] r'] _. apply bind_not_panic; [apply guard_not_panic|]. intros _ _.
    apply bind_not_panic; [apply guard_not_panic|]. intros _ _. discriminate.
Qed.

Theorem no_panic_gs c data : not_panic (DecodeGarblerSession c data).
Proof.
  unfold DecodeGarblerSession. apply bind_not_panic; [apply np_read_full|]. intros [magic r1] _.
  apply bind_not_panic; [apply guard_not_panic|]. intros _ _.
  apply bind_not_panic; [apply np_read_full|]. intros [sid r2] _.
  apply bind_not_panic; [apply np_read_chunk|]. intros [chunk r3] _.
  apply bind_not_panic; [apply guard_not_panic|]. intros _ _.
  unfold decodeCOSenderSetup. apply bind_not_panic; [apply np_read_chunk|]. intros [name r4] _.
  apply bind_not_panic; [apply guard_not_panic|]. intros _ _.
  apply bind_not_panic; [apply np_read_fixed_list|]. intros [fs r5] _.
  apply bind_not_panic; [apply guard_not_panic|]. intros _ _.
  unfold not_panic. destruct fs as [|? [|? [|? [|? [|? [|? ?]]]]]]; discriminate.
Qed.

Theorem no_panic_es c data : not_panic (DecodeEvaluatorSession c data).
Proof.
  unfold DecodeEvaluatorSession. apply bind_not_panic; [apply np_read_full|]. intros [magic r1] _.
  apply bind_not_panic; [apply guard_not_panic|]. intros _ _.
  apply bind_not_panic; [apply np_read_full|]. intros [sid r2] _.
  apply bind_not_panic; [apply np_read_chunk|]. intros [chunk r3] _.
  apply bind_not_panic; [apply guard_not_panic|]. intros _ _.
  unfold decodeChoiceBundle. apply bind_not_panic; [apply np_read_chunk|]. intros [name r4] _.
  apply bind_not_panic; [apply guard_not_panic|]. intros _ _.
  apply bind_not_panic; [apply np_read_fixed_list|]. intros [a r5] _.
  apply bind_not_panic; [apply np_read_fixed_list|]. intros [sc r6] _.
  apply bind_not_panic; [apply np_read_full|]. intros [raw r7] _.
  apply bind_not_panic; [apply guard_not_panic|]. intros _ _.
  apply bind_not_panic; [apply guard_not_panic|]. intros _ _. discriminate.
Qed.

(* Round2: the slice and index expressions of decodePoints are in bounds
   because of the exact length check in front of them *)
Lemma np_slice data lo hi : (lo <= hi)%nat -> (hi <= length data)%nat -> exists b, slice data lo hi = Ok b /\ length b = (hi - lo)%nat.
Proof.
  intros H1 H2. unfold slice.
  replace ((lo <=? hi)%nat && (hi <=? length data)%nat) with true
    by (symmetry; apply andb_true_intro; split; apply Nat.leb_le; assumption).
  eexists. split; [reflexivity|]. rewrite firstn_length, skipn_length. lia.
Qed.

Lemma decodePoints_xs_np bl data : forall k off, (off + k * bl <= length data)%nat ->
  exists xs, decodePoints_xs bl k off data = Ok xs /\ length xs = k.
Proof.
  induction k as [|k IH]; intros off H; cbn [decodePoints_xs]; [exists []; split; reflexivity|].
  destruct (np_slice data off (off + bl)) as (b & -> & _); [lia|lia|]. cbn [bind].
  destruct (IH (off + bl)%nat) as (xs & -> & L); [lia|]. cbn [bind].
  eexists. split; [reflexivity|]. cbn [length]. rewrite L. reflexivity.
Qed.

Lemma np_pointSign signs i : (i / 8 < length signs)%nat -> not_panic (pointSign signs i).
Proof.
  intros H. unfold pointSign. destruct signs as [|s0 sr] eqn:E; [discriminate|]. rewrite <- E in *.
  unfold index. destruct (nth_error signs (i / 8)) eqn:En; [discriminate|].
  apply nth_error_None in En. lia.
Qed.

Lemma np_decodePoints_pts dec c signs : forall xs i, (i + length xs <= 8 * length signs)%nat ->
  not_panic (decodePoints_pts dec c signs i xs).
Proof.
  induction xs as [|x xs IH]; intros i H; cbn [decodePoints_pts]; [discriminate|]. cbn [length] in H.
  apply bind_not_panic.
  - apply np_pointSign. apply Nat.div_lt_upper_bound; lia.
  - intros odd _. destruct (dec c x odd); [|discriminate].
    apply bind_not_panic; [apply IH; lia|]. intros ps _. discriminate.
Qed.

Theorem no_panic_r2 dec c data : not_panic (DecodeRound2 dec c data).
Proof.
  unfold DecodeRound2. apply bind_not_panic; [apply np_read_full|]. intros [magic r1] _.
  apply bind_not_panic; [apply guard_not_panic|]. intros _ _.
  apply bind_not_panic; [apply np_read_full|]. intros [sid r2] _.
  apply bind_not_panic; [apply np_read_chunk|]. intros [name rest] _.
  apply bind_not_panic; [apply guard_not_panic|]. intros _ _.
  apply bind_not_panic; [|intros pts _; discriminate].
  unfold decodePoints.
  destruct (length rest =? evaluatorCiphertextCount * byteLen c + evaluatorChoiceSignBytes)%nat eqn:E;
    [|discriminate].
  apply Nat.eqb_eq in E. cbn [guard bind].
  destruct (decodePoints_xs_np (byteLen c) rest evaluatorCiphertextCount 0) as (xs & -> & Lx); [lia|]. cbn [bind].
  destruct (np_slice rest (evaluatorCiphertextCount * byteLen c) (length rest)) as (signs & -> & Ls); [lia|lia|].
  cbn [bind]. apply np_decodePoints_pts. rewrite Lx, Ls, E.
  change evaluatorCiphertextCount with 256%nat. change evaluatorChoiceSignBytes with 32%nat. lia.
Qed.

Section R3np.
  Variables (kSid kKey wLab nTabB nTab nInB nHintB nHint nCtB nCt total : nat).
  Hypothesis Htotal : total = (length magicRound3 + kSid + kKey + nTabB + nInB + nHintB + nCtB)%nat.

  Lemma np_decodeLabelBlock nb k d : not_panic (decodeLabelBlock wLab nb k d).
  Proof. unfold decodeLabelBlock. apply bind_not_panic; [apply guard_not_panic|]. intros _ _. discriminate. Qed.

  Theorem no_panic_r3_gen data :
    not_panic (DecodeRound3_gen kSid kKey wLab nTabB nTab nInB nHintB nHint nCtB nCt total data).
  Proof.
    unfold DecodeRound3_gen. change (length magicRound3) with 2%nat in *.
    destruct (length data =? total)%nat eqn:E; [|discriminate]. apply Nat.eqb_eq in E.
    cbn [guard bind]. cbv zeta.
    repeat first
      [ apply np_decodeLabelBlock
      | apply guard_not_panic
      | match goal with
        | |- not_panic (bind (slice data ?lo ?hi) _) =>
            let b := fresh "b" in let Hb := fresh "Hb" in
            destruct (np_slice data lo hi) as (b & Hb & _); [lia|lia|]; rewrite Hb; cbn [bind]
        | |- not_panic (bind _ _) => apply bind_not_panic; [|intros ? _]
        end ].
    discriminate.
  Qed.
End R3np.

Theorem no_panic_r3 data : not_panic (DecodeRound3 data).
Proof. unfold DecodeRound3. apply no_panic_r3_gen. reflexivity. Qed.

(* ====================================================================== *)
(* resumption and protocol correctness                                     *)

Lemma bind_ok_inv {A B} (r : res A) (f : A -> res B) b :
  bind r f = Ok b -> exists a, r = Ok a /\ f a = Ok b.
Proof. destruct r; cbn; intros H; try discriminate. eexists; split; [reflexivity|exact H]. Qed.

Lemma guard_ok_inv b u : guard b = Ok u -> b = true.
Proof. destruct b; [reflexivity|discriminate]. Qed.

Lemma pick2_fits w p b : fits2 w p -> fits w (pick2 p b).
Proof. intros [H1 H2]. destruct b; assumption. Qed.

Lemma Forall_pick2_combine w : forall (ws : list (N * N)) (bs : list bool),
  Forall (fits2 w) ws -> Forall (fits w) (map (fun p => pick2 (fst p) (snd p)) (combine ws bs)).
Proof.
  induction ws as [|x ws IH]; intros bs F; [constructor|]. destruct bs as [|b bs]; [constructor|].
  inversion F; subst. cbn [combine map fst snd]. constructor; [apply pick2_fits; assumption|apply IH; assumption].
Qed.

Section Resume.
  Variable RND : Type.
  Variable c : curve.
  Variable gen_sender : RND -> N * (N * N) * (N * N).
  Variable read_sid : RND -> N.
  Variable build_choices : RND -> N -> N -> list bool -> res (list N * list (N * N)).
  Variable read_key : RND -> bytes.
  Variable garble_circ : RND -> bytes -> res (list (N * N) * list (N * N) * list (N * N) * list N).
  Variable encrypt_co : gsession -> list (N * N) -> list (N * N) -> res (list (N * N)).
  Variable decrypt_co : esession -> list (N * N) -> res (list N).
  Variable eval_circ : bytes -> list N -> list N -> list N -> res (list N).
  Variable decompress : curve -> N -> bool -> option (N * N).

  (* what the encodings need from the opaque cryptographic parts: values fit
     their fixed-width fields, counts are the protocol's, and the evaluator's
     points are ones UnmarshalCompressed gives back *)
  Hypothesis sender_fits : forall rng,
    let '(a, (ax, ay), (ix, iy)) := gen_sender rng in Forall (fits (byteLen c)) [a; ax; ay; ix; iy].
  Hypothesis sid_range : forall rng, read_sid rng < 2 ^ 64.
  Hypothesis choices_wf : forall rng ax ay bits scalars points,
    build_choices rng ax ay bits = Ok (scalars, points) ->
    length scalars = evaluatorCiphertextCount /\ Forall (fits (byteLen c)) scalars /\
    length points = evaluatorCiphertextCount /\ Forall (point_ok decompress c) points.
  Hypothesis key_len : forall rng, length (read_key rng) = garblingKeyBytes.
  Hypothesis garble_wf : forall rng key gin ein outw tables,
    garble_circ rng key = Ok (gin, ein, outw, tables) ->
    length gin = hashInputBitCount /\ Forall (fits2 16) gin /\
    length outw = outputHintCount /\ Forall (fits2 16) outw /\
    length tables = garbledTableLabelCount /\ Forall (fits 16) tables.
  Hypothesis encrypt_wf : forall st pts ein cts,
    encrypt_co st pts ein = Ok cts -> length cts = evaluatorCiphertextCount /\ Forall (fits2 16) cts.

  Notation GR1 := (GarblerRound1 RND c gen_sender read_sid).
  Notation ER2 := (EvaluatorRound2 RND c build_choices).
  Notation GR3 := (GarblerRound3 RND read_key garble_circ encrypt_co).
  Notation ER4 := (EvaluatorRound4 decrypt_co eval_circ).
  Notation RUN := (run_protocol RND c gen_sender read_sid build_choices read_key garble_circ
                                encrypt_co decrypt_co eval_circ decompress).

  Lemma thru_gs_ok s : wf_gs c s -> thru_gs c s = Ok s.
  Proof. intros W. destruct (gs_roundtrip c s W) as (b & E & D & _). unfold thru_gs. rewrite E. exact D. Qed.
  Lemma thru_es_ok s : wf_es c s -> thru_es c s = Ok s.
  Proof. intros W. destruct (es_roundtrip c s W) as (b & E & D & _). unfold thru_es. rewrite E. exact D. Qed.
  Lemma thru_r1_ok m : wf_r1 c m -> thru_r1 c m = Ok m.
  Proof. intros W. destruct (r1_roundtrip c m W) as (b & E & D & _). unfold thru_r1. rewrite E. exact D. Qed.
  Lemma thru_r2_ok m : wf_r2 decompress c m -> thru_r2 c decompress m = Ok m.
  Proof. intros W. destruct (r2_roundtrip decompress c m W) as (b & E & D & _). unfold thru_r2. rewrite E. exact D. Qed.
  Lemma thru_r3_ok m : wf_r3 m -> thru_r3 m = Ok m.
  Proof. intros W. destruct (r3_roundtrip m W) as (b & E & D & _). unfold thru_r3. rewrite E. exact D. Qed.

  Lemma iter_res_ok {A} (f : A -> res A) a : f a = Ok a -> forall n, iter_res n f a = Ok a.
  Proof. intros H. induction n as [|n IH]; [reflexivity|]. cbn [iter_res]. rewrite H. exact IH. Qed.

  Lemma opt_thru_ok {A} (f : A -> res A) a on : f a = Ok a -> opt_thru on f a = Ok a.
  Proof. intros H. destruct on; [exact H|reflexivity]. Qed.

  (* round 1 produces encodable values *)
  Lemma round1_wf rng m gs : GR1 rng = (m, gs) -> wf_r1 c m /\ wf_gs c gs /\ gs_sid gs = r1_sid m.
  Proof.
    unfold GarblerRound1. pose proof (sender_fits rng) as F. pose proof (sid_range rng) as S.
    destruct (gen_sender rng) as [[a [ax ay]] [ix iy]]. intros E. injection E as <- <-.
    inversion F as [|? ? Fa F1]; subst. inversion F1 as [|? ? Fax F2]; subst. inversion F2 as [|? ? Fay F3]; subst.
    repeat split; cbn; try assumption; try reflexivity.
  Qed.

  Lemma round2_wf rng m1 b m2 es : wf_r1 c m1 -> ER2 rng m1 b = Ok (m2, es) ->
    wf_r2 decompress c m2 /\ wf_es c es /\ r2_sid m2 = r1_sid m1 /\ es_sid es = r1_sid m1.
  Proof.
    intros (Hs & Hn & Hx & Hy). unfold EvaluatorRound2. intros E.
    apply bind_ok_inv in E. destruct E as (u1 & G1 & E).
    apply bind_ok_inv in E. destruct E as (u2 & G2 & E). apply guard_ok_inv in G2. apply Nat.eqb_eq in G2.
    apply bind_ok_inv in E. destruct E as ([scalars points] & B & E).
    apply Ok_inj in E. injection E as <- <-.
    destruct (choices_wf _ _ _ _ _ _ B) as (L1 & F1 & L2 & F2).
    repeat split; cbn [r2_sid r2_name r2_choices es_sid es_name es_ax es_ay es_scalars es_bits]; try assumption; try reflexivity.
  Qed.

  Lemma round3_wf rng gs a m2 m3 : wf_gs c gs -> GR3 rng gs a m2 = Ok m3 -> wf_r3 m3 /\ r3_sid m3 = gs_sid gs.
  Proof.
    intros (Hs & _). unfold GarblerRound3. intros E.
    apply bind_ok_inv in E. destruct E as (u1 & G1 & E).
    apply bind_ok_inv in E. destruct E as ([[[gin ein] outw] tables] & Gb & E).
    apply bind_ok_inv in E. destruct E as (u2 & G2 & E). apply guard_ok_inv in G2. apply Nat.eqb_eq in G2.
    apply bind_ok_inv in E. destruct E as (cts & Ec & E). apply Ok_inj in E. subst m3.
    destruct (garble_wf _ _ _ _ _ _ Gb) as (Lg & Fg & Lo & Fo & Lt & Ft).
    destruct (encrypt_wf _ _ _ _ Ec) as (Lc & Fc).
    split; [|reflexivity].
    repeat split; cbn [r3_sid r3_key r3_tables r3_inputs r3_hints r3_cts]; try assumption.
    - apply key_len.
    - rewrite map_length, combine_length, Lg, G2. apply Nat.min_id.
    - apply Forall_pick2_combine. exact Fg.
  Qed.

  (* C18_resume: serialising any message and restarting either party from its
     serialised session any number of times at any round boundary does not
     change the run *)
  Theorem resume_same g1 g2 e2 e3 w1 w2 w3 rg1 re2 rg3 a b :
    RUN g1 g2 e2 e3 w1 w2 w3 rg1 re2 rg3 a b = RUN 0%nat 0%nat 0%nat 0%nat false false false rg1 re2 rg3 a b.
  Proof.
    unfold run_protocol. destruct (GR1 rg1) as [m1 gs] eqn:E1.
    destruct (round1_wf _ _ _ E1) as (W1 & Wg & _).
    rewrite (iter_res_ok _ _ (thru_gs_ok gs Wg)). rewrite (opt_thru_ok _ _ w1 (thru_r1_ok m1 W1)).
    cbn [iter_res opt_thru bind].
    destruct (ER2 re2 m1 b) as [[m2 es]| |] eqn:E2; cbn [bind]; try reflexivity.
    destruct (round2_wf _ _ _ _ _ W1 E2) as (W2 & We & _).
    rewrite (iter_res_ok _ _ (thru_es_ok es We) e2). rewrite (opt_thru_ok _ _ w2 (thru_r2_ok m2 W2)).
    rewrite (iter_res_ok _ _ (thru_gs_ok gs Wg) g2). cbn [bind].
    destruct (GR3 rg3 gs a m2) as [m3| |] eqn:E3; cbn [bind]; try reflexivity.
    destruct (round3_wf _ _ _ _ _ Wg E3) as (W3 & _).
    rewrite (opt_thru_ok _ _ w3 (thru_r3_ok m3 W3)). rewrite (iter_res_ok _ _ (thru_es_ok es We) e3).
    reflexivity.
  Qed.

  (* messages / states of another session are refused by the rounds *)
  Theorem reject_session_round3 rng st a req : r2_sid req <> gs_sid st -> GR3 rng st a req = Err.
  Proof. intros H. unfold GarblerRound3. replace (r2_sid req =? gs_sid st) with false by (symmetry; apply N.eqb_neq; exact H). reflexivity. Qed.

  Theorem reject_session_round4 st msg : r3_sid msg <> es_sid st -> ER4 st msg = Err.
  Proof.
    intros H. unfold EvaluatorRound4. destruct (negb (length (es_scalars st) =? 0)%nat); [|reflexivity].
    cbn [guard bind]. replace (r3_sid msg =? es_sid st) with false by (symmetry; apply N.eqb_neq; exact H). reflexivity.
  Qed.

  (* a Round1 message of another curve is refused by round 2 *)
  Theorem reject_curve_round2 rng msg b : r1_name msg <> curve_name c -> ER2 rng msg b = Err.
  Proof. intros H. unfold EvaluatorRound2. rewrite bytes_eqb_neq by exact H. reflexivity. Qed.

End Resume.

(* ---- correctness of the honest (uninterrupted) run.  Only what the proof
   needs of the cryptographic parts; instantiated from C01 and the CO model of
   C06 in IO/Sha2pcInstProof.v *)
Section Correct.
  Variable RND : Type.
  Variable c : curve.
  Variable gen_sender : RND -> N * (N * N) * (N * N).
  Variable read_sid : RND -> N.
  Variable build_choices : RND -> N -> N -> list bool -> res (list N * list (N * N)).
  Variable read_key : RND -> bytes.
  Variable garble_circ : RND -> bytes -> res (list (N * N) * list (N * N) * list (N * N) * list N).
  Variable encrypt_co : gsession -> list (N * N) -> list (N * N) -> res (list (N * N)).
  Variable decrypt_co : esession -> list (N * N) -> res (list N).
  Variable eval_circ : bytes -> list N -> list N -> list N -> res (list N).
  Variable decompress : curve -> N -> bool -> option (N * N).

  Notation RUN := (run_protocol RND c gen_sender read_sid build_choices read_key garble_circ
                                encrypt_co decrypt_co eval_circ decompress).

  (* plain evaluation of the embedded circuit on garbler bits ‖ evaluator bits *)
  Variable circ_eval : list bool -> list bool.

  (* [C01] garbled evaluation on the labels selected by the inputs decodes,
     through the output hints, to the plain evaluation *)
  Hypothesis garbled_eval_correct : forall rng key gin ein outw tables xa xb,
    garble_circ rng key = Ok (gin, ein, outw, tables) ->
    length xa = hashInputBitCount -> length xb = hashInputBitCount ->
    exists outl,
      eval_circ key (map (fun p => pick2 (fst p) (snd p)) (combine gin xa))
                    (map (fun p => pick2 (fst p) (snd p)) (combine ein xb)) tables = Ok outl /\
      decode_outputs outw outl = Ok (circ_eval (xa ++ xb)).
  Hypothesis garble_total : forall rng key, exists gin ein outw tables,
    garble_circ rng key = Ok (gin, ein, outw, tables) /\
    length ein = hashInputBitCount /\ length outw = outputHintCount.
  (* [C06, CO OT as ideal OT] the receiver's choices built against the
     sender's A succeed, encryption succeeds, and decryption returns exactly
     the label selected by each choice bit *)
  Hypothesis co_ot_correct : forall rng1 rng2 sid sid' bits ein,
    let '(a, (ax, ay), (ix, iy)) := gen_sender rng1 in
    length bits = hashInputBitCount -> length ein = length bits ->
    exists scalars points cts,
      build_choices rng2 ax ay bits = Ok (scalars, points) /\
      length scalars = length bits /\
      encrypt_co (mkGS sid (curve_name c) a ax ay ix iy) points ein = Ok cts /\
      decrypt_co (mkES sid' (curve_name c) ax ay scalars bits) cts
      = Ok (map (fun p => pick2 (fst p) (snd p)) (combine ein bits)).
  Hypothesis circ_out_len : forall x, length (circ_eval x) = outputHintCount.

  Theorem protocol_correct rg1 re2 rg3 a b :
    length a = 32%nat -> length b = 32%nat ->
    RUN 0%nat 0%nat 0%nat 0%nat false false false rg1 re2 rg3 a b
    = Ok (bitsToBytesLittle (circ_eval (bytesToBitsLittle a ++ bytesToBitsLittle b))).
  Proof.
    intros La Lb. unfold run_protocol.
    assert (Lba : length (bytesToBitsLittle a) = hashInputBitCount) by (rewrite bytesToBitsLittle_length, La; reflexivity).
    assert (Lbb : length (bytesToBitsLittle b) = hashInputBitCount) by (rewrite bytesToBitsLittle_length, Lb; reflexivity).
    destruct (GarblerRound1 RND c gen_sender read_sid rg1) as [m1 gs] eqn:E1. cbn [iter_res opt_thru bind].
    revert E1. unfold GarblerRound1.
    destruct (garble_total rg3 (read_key rg3)) as (gin & ein & outw & tables & Gb & Lein & Lo).
    pose proof (co_ot_correct rg1 re2 (read_sid rg1) (read_sid rg1) (bytesToBitsLittle b) ein) as OT.
    destruct (gen_sender rg1) as [[sa [ax ay]] [ix iy]].
    intros E1. injection E1 as <- <-.
    destruct (OT Lbb) as (scalars & points & cts & Bc & Ls & Ec & Dc); [congruence|].
    unfold EvaluatorRound2. cbn [r1_name r1_sid r1_ax r1_ay].
    rewrite bytes_eqb_refl. cbn [guard bind]. rewrite Lbb, Nat.eqb_refl. cbn [guard bind].
    rewrite Bc. cbn [bind].
    unfold GarblerRound3. cbn [r2_sid gs_sid r2_choices]. rewrite N.eqb_refl. cbn [guard bind].
    rewrite Gb. cbn [bind]. rewrite Lba, Nat.eqb_refl. cbn [guard bind]. rewrite Ec. cbn [bind].
    unfold EvaluatorRound4. cbn [es_scalars es_sid r3_sid r3_cts r3_key r3_inputs r3_tables r3_hints].
    rewrite Ls, Lbb. change (negb (hashInputBitCount =? 0)%nat) with true. cbn [guard bind].
    rewrite N.eqb_refl. cbn [guard bind]. rewrite Dc. cbn [bind].
    destruct (garbled_eval_correct _ _ _ _ _ _ _ _ Gb Lba Lbb) as (outl & Ev & Dec).
    rewrite Ev. cbn [bind].
    rewrite Lo, Nat.eqb_refl. cbn [guard bind]. rewrite Dec. cbn [bind].
    destruct (bytes_bits_roundtrip_pad (circ_eval (bytesToBitsLittle a ++ bytesToBitsLittle b))) as (pad & _ & _ & _ & L).
    rewrite L, circ_out_len. change ((outputHintCount + 7) / 8 =? 32)%nat with true. reflexivity.
  Qed.

  (* with the (unproved, harness-checked) fact that the embedded circuit
     computes SHA-256(a xor b) *)
  Variable sha256xor : bytes -> bytes -> bytes.
  Hypothesis circuit_computes_sha256xor : forall a b, length a = 32%nat -> length b = 32%nat ->
    circ_eval (bytesToBitsLittle a ++ bytesToBitsLittle b) = bytesToBitsLittle (sha256xor a b).
  Hypothesis sha256xor_bytes : forall a b, Forall (fun x => x < 256) (sha256xor a b).

  Theorem protocol_sha256_plain rg1 re2 rg3 a b :
    length a = 32%nat -> length b = 32%nat ->
    RUN 0%nat 0%nat 0%nat 0%nat false false false rg1 re2 rg3 a b = Ok (sha256xor a b).
  Proof.
    intros La Lb. rewrite protocol_correct by assumption.
    rewrite circuit_computes_sha256xor by assumption. rewrite bits_bytes_roundtrip by apply sha256xor_bytes.
    reflexivity.
  Qed.
End Correct.

(* whatever the restart points: resume_same + protocol_sha256_plain *)
Theorem protocol_sha256 RND c gen_sender read_sid build_choices read_key garble_circ encrypt_co decrypt_co
        eval_circ decompress :
  (forall rng, let '(a, (ax, ay), (ix, iy)) := gen_sender rng in Forall (fits (byteLen c)) [a; ax; ay; ix; iy]) ->
  (forall rng, read_sid rng < 2 ^ 64) ->
  (forall rng ax ay bits scalars points,
     build_choices rng ax ay bits = Ok (scalars, points) ->
     length scalars = evaluatorCiphertextCount /\ Forall (fits (byteLen c)) scalars /\
     length points = evaluatorCiphertextCount /\ Forall (point_ok decompress c) points) ->
  (forall rng, length (read_key rng) = garblingKeyBytes) ->
  (forall rng key gin ein outw tables,
     garble_circ rng key = Ok (gin, ein, outw, tables) ->
     length gin = hashInputBitCount /\ Forall (fits2 16) gin /\
     length outw = outputHintCount /\ Forall (fits2 16) outw /\
     length tables = garbledTableLabelCount /\ Forall (fits 16) tables) ->
  (forall st pts ein cts,
     encrypt_co st pts ein = Ok cts -> length cts = evaluatorCiphertextCount /\ Forall (fits2 16) cts) ->
  forall circ_eval : list bool -> list bool,
  (forall rng key gin ein outw tables xa xb,
     garble_circ rng key = Ok (gin, ein, outw, tables) ->
     length xa = hashInputBitCount -> length xb = hashInputBitCount ->
     exists outl,
       eval_circ key (map (fun p => pick2 (fst p) (snd p)) (combine gin xa))
                     (map (fun p => pick2 (fst p) (snd p)) (combine ein xb)) tables = Ok outl /\
       decode_outputs outw outl = Ok (circ_eval (xa ++ xb))) ->
  (forall rng key, exists gin ein outw tables,
     garble_circ rng key = Ok (gin, ein, outw, tables) /\
     length ein = hashInputBitCount /\ length outw = outputHintCount) ->
  (forall rng1 rng2 sid sid' bits ein,
     let '(a, (ax, ay), (ix, iy)) := gen_sender rng1 in
     length bits = hashInputBitCount -> length ein = length bits ->
     exists scalars points cts,
       build_choices rng2 ax ay bits = Ok (scalars, points) /\
       length scalars = length bits /\
       encrypt_co (mkGS sid (curve_name c) a ax ay ix iy) points ein = Ok cts /\
       decrypt_co (mkES sid' (curve_name c) ax ay scalars bits) cts
       = Ok (map (fun p => pick2 (fst p) (snd p)) (combine ein bits))) ->
  (forall x, length (circ_eval x) = outputHintCount) ->
  forall sha256xor : bytes -> bytes -> bytes,
  (forall a b, length a = 32%nat -> length b = 32%nat ->
     circ_eval (bytesToBitsLittle a ++ bytesToBitsLittle b) = bytesToBitsLittle (sha256xor a b)) ->
  (forall a b, Forall (fun x => x < 256) (sha256xor a b)) ->
  forall g1 g2 e2 e3 w1 w2 w3 rg1 re2 rg3 a b,
    length a = 32%nat -> length b = 32%nat ->
    run_protocol RND c gen_sender read_sid build_choices read_key garble_circ encrypt_co decrypt_co
                 eval_circ decompress g1 g2 e2 e3 w1 w2 w3 rg1 re2 rg3 a b
    = Ok (sha256xor a b).
Proof.
  intros H1 H2 H3 H4 H5 H6 ce H7 H8 H9 H10 sx H11 H12 g1 g2 e2 e3 w1 w2 w3 rg1 re2 rg3 a b La Lb.
  rewrite (resume_same RND c gen_sender read_sid build_choices read_key garble_circ encrypt_co decrypt_co
             eval_circ decompress H1 H2 H3 H4 H5 H6).
  apply (protocol_sha256_plain RND c gen_sender read_sid build_choices read_key garble_circ encrypt_co
           decrypt_co eval_circ decompress ce H7 H8 H9 H10 sx H11 H12); assumption.
Qed.



(* ====================================================================== *)
(* inversion: what an accepted byte string looks like                      *)

Definition is_bytes (l : bytes) : Prop := Forall (fun b => b < 256) l.

Lemma is_bytes_app a b : is_bytes (a ++ b) <-> is_bytes a /\ is_bytes b.
Proof. apply Forall_app. Qed.

Lemma read_full_inv k r a r' : read_full k r = Ok (a, r') -> r = a ++ r' /\ length a = k.
Proof.
  unfold read_full. destruct (k <=? length r)%nat eqn:E; [|discriminate].
  intros H. apply Ok_inj in H. injection H as <- <-. apply Nat.leb_le in E.
  split; [symmetry; apply firstn_skipn|]. rewrite firstn_length. lia.
Qed.

Lemma be_s_of_be_s : forall l, is_bytes l -> be_s (length l) (of_be_s l) = l.
Proof.
  intros l. rewrite be_s_be, of_be_s_of_be.
  induction l as [|b l IH] using rev_ind; intros H; [reflexivity|].
  apply is_bytes_app in H. destruct H as [Hl Hb]. inversion Hb as [|? ? Hb' _]; subst.
  rewrite app_length, of_be_app. cbn [length]. rewrite Nat.add_comm. cbn [Nat.add be].
  replace ((of_be l * 256 + b) / 256) with (of_be l) by (apply (N.div_unique _ 256 _ b); lia).
  replace ((of_be l * 256 + b) mod 256) with b by (apply (N.mod_unique _ 256 (of_be l) b); lia).
  rewrite IH by exact Hl. reflexivity.
Qed.

Lemma of_be_s_fits l : is_bytes l -> fits (length l) (of_be_s l).
Proof.
  rewrite of_be_s_of_be. unfold fits.
  induction l as [|b l IH] using rev_ind; intros H; [cbn; lia|].
  apply is_bytes_app in H. destruct H as [Hl Hb]. inversion Hb as [|? ? Hb' _]; subst.
  rewrite app_length, of_be_app. cbn [length]. rewrite Nat.add_comm. cbn [Nat.add].
  rewrite Nat2N.inj_succ, N.pow_succ_r'. specialize (IH Hl). lia.
Qed.

Lemma read_fixed_inv bl r v r' : read_fixed bl r = Ok (v, r') ->
  exists f, r = f ++ r' /\ length f = bl /\ v = of_be_s f.
Proof.
  unfold read_fixed. intros H. apply bind_ok_inv in H. destruct H as ([f r1] & R & H).
  apply Ok_inj in H. injection H as <- <-. apply read_full_inv in R. destruct R as [-> L].
  exists f. repeat split; assumption.
Qed.

Lemma read_fixed_list_inv bl : forall k r vs r', read_fixed_list bl k r = Ok (vs, r') ->
  exists fs, r = concat fs ++ r' /\ length fs = k /\ Forall (fun f => length f = bl) fs /\ vs = map of_be_s fs.
Proof.
  induction k as [|k IH]; intros r vs r' H; cbn [read_fixed_list] in H.
  - apply Ok_inj in H. injection H as <- <-. exists []. repeat split; constructor.
  - apply bind_ok_inv in H. destruct H as ([v r1] & R & H).
    apply bind_ok_inv in H. destruct H as ([vs' r2] & R2 & H). apply Ok_inj in H. injection H as <- <-.
    apply read_fixed_inv in R. destruct R as (f & -> & Lf & ->).
    apply IH in R2. destruct R2 as (fs & -> & Lfs & Ffs & ->).
    exists (f :: fs). cbn [concat map length]. rewrite <- app_assoc. repeat split; try congruence.
    constructor; assumption.
Qed.

Lemma concat_length_fixed {A} bl (fs : list (list A)) :
  Forall (fun f => length f = bl) fs -> length (concat fs) = (bl * length fs)%nat.
Proof. induction 1 as [|f fs Hf _ IH]; [cbn; lia|]. cbn [concat length]. rewrite app_length, IH, Hf. lia. Qed.

Lemma flat_map_be_s_of_be_s bl fs : Forall (fun f => length f = bl) fs -> is_bytes (concat fs) ->
  flat_map (be_s bl) (map of_be_s fs) = concat fs /\ Forall (fits bl) (map of_be_s fs).
Proof.
  induction 1 as [|f fs Hf _ IH]; intros B; [split; constructor|].
  cbn [concat] in B. apply is_bytes_app in B. destruct B as [Bf Bfs].
  destruct (IH Bfs) as [E F]. cbn [map flat_map concat]. rewrite E. split.
  - f_equal. rewrite <- Hf. apply be_s_of_be_s. exact Bf.
  - constructor; [rewrite <- Hf; apply of_be_s_fits; exact Bf|exact F].
Qed.

(* ---- uvarint: what ReadUvarint consumed; if it consumed exactly as many
   bytes as PutUvarint writes for the value, it consumed PutUvarint's bytes *)
Lemma read_uvarint_from_inv : forall fuel i acc s r v r1,
  read_uvarint_from i fuel acc s r = Ok (v, r1) -> acc < 2 ^ s ->
  exists pre x, r = pre ++ r1 /\ pre <> [] /\ v = acc + x * 2 ^ s /\
    (is_bytes r -> length pre = length (put_uvarint_fuel fuel x) -> pre = put_uvarint_fuel fuel x).
Proof.
  induction fuel as [|fuel IH]; intros i acc s r v r1 H Hacc; [discriminate|].
  destruct r as [|b r']; [discriminate|]. rewrite read_uvarint_from_S in H.
  destruct (b <? 128) eqn:Eb.
  - destruct ((i =? 9)%nat && (1 <? b)); [discriminate|]. apply Ok_inj in H. injection H as <- <-.
    exists [b], b. rewrite lor_shiftl_add by exact Hacc. repeat split; try discriminate.
    intros _ _. rewrite put_uvarint_fuel_S, Eb. reflexivity.
  - apply N.ltb_ge in Eb.
    assert (Hm : N.land b 127 = b mod 128) by (change 127 with (N.ones 7); rewrite N.land_ones; reflexivity).
    rewrite Hm in H. pose proof (N.mod_lt b 128 ltac:(lia)) as Hlt.
    rewrite lor_shiftl_add in H by exact Hacc.
    assert (P7 : 2 ^ (s + 7) = 2 ^ s * 128) by (rewrite N.pow_add_r; reflexivity).
    assert (Hp : 0 < 2 ^ s) by (apply N.neq_0_lt_0, N.pow_nonzero; lia).
    apply IH in H; [|rewrite P7; nia].
    destruct H as (pre' & x' & -> & Hne & -> & Hmin).
    exists (b :: pre'), (b mod 128 + 128 * x'). repeat split; try discriminate.
    + rewrite P7. lia.
    + intros B L. inversion B as [|? ? Bb Br]; subst. rewrite put_uvarint_fuel_S in *.
      set (x := b mod 128 + 128 * x') in *.
      assert (Xm : x mod 128 = b mod 128).
      { unfold x. symmetry. apply (N.mod_unique _ 128 x' (b mod 128)); lia. }
      assert (Xd : N.shiftr x 7 = x').
      { rewrite N.shiftr_div_pow2. change (2 ^ 7) with 128. unfold x.
        symmetry. apply (N.div_unique _ 128 x' (b mod 128)); lia. }
      destruct (x <? 128) eqn:Ex.
      * cbn [length] in L. destruct pre'; [contradiction|discriminate].
      * assert (Hb : N.lor (N.land x 127) 128 = b).
        { change 127 with (N.ones 7). rewrite N.land_ones. change (2 ^ 7) with 128.
          rewrite Xm, lor_128 by exact Hlt.
          pose proof (N.div_mod b 128 ltac:(lia)) as D.
          assert (b / 128 = 1) by (apply N.le_antisymm; [apply N.lt_succ_r; apply N.div_lt_upper_bound; lia|apply N.div_le_lower_bound; lia]).
          lia. }
        rewrite Hb, Xd in *. f_equal. cbn [length] in L. apply Hmin; [exact Br|lia].
Qed.

Lemma read_chunk_inv r d rest : read_chunk r = Ok (d, rest) ->
  exists pre, r = pre ++ d ++ rest /\ length pre = length (put_uvarint (N.of_nat (length d))) /\
    N.of_nat (length d) <= chunkSizeLimit /\
    (is_bytes r -> pre = put_uvarint (N.of_nat (length d))).
Proof.
  unfold read_chunk. intros H. apply bind_ok_inv in H. destruct H as ([n r1] & U & H).
  apply bind_ok_inv in H. destruct H as (u & G & H). apply guard_ok_inv in G. apply Nat.eqb_eq in G.
  destruct (chunkSizeLimit <? n) eqn:E1; [discriminate|]. apply N.ltb_ge in E1.
  destruct (N.of_nat (length r1) <? n) eqn:E2; [discriminate|]. apply N.ltb_ge in E2.
  destruct r1 as [|b0 r1'] eqn:Er1; [discriminate|]. rewrite <- Er1 in *. clear Er1.
  apply Ok_inj in H. injection H as <- <-.
  unfold read_uvarint in U. apply read_uvarint_from_inv in U; [|cbn; lia].
  destruct U as (pre & x & -> & Hne & Hv & Hmin). rewrite N.mul_1_r, N.add_0_l in Hv. subst x.
  rewrite app_length in G. replace (length pre + length r1 - length r1)%nat with (length pre) in G by lia.
  assert (Ln : length (firstn (N.to_nat n) r1) = N.to_nat n) by (rewrite firstn_length; lia).
  rewrite Ln, N2Nat.id. exists pre. rewrite firstn_skipn. repeat split; try assumption.
  intros B. apply Hmin; assumption.
Qed.

Lemma put_uvarint_small n : n < 128 -> put_uvarint n = [n].
Proof. intros H. unfold put_uvarint. rewrite put_uvarint_fuel_S. replace (n <? 128) with true by (symmetry; apply N.ltb_lt; exact H). reflexivity. Qed.

Lemma no_trailing_inv r u : no_trailing r = Ok u -> r = [].
Proof. unfold no_trailing. intros H. apply guard_ok_inv in H. apply Nat.eqb_eq in H. destruct r; [reflexivity|discriminate]. Qed.

Lemma guard_eqb_inv a b u : guard (bytes_eqb a b) = Ok u -> a = b.
Proof. intros H. apply guard_ok_inv in H. apply bytes_eqb_eq. exact H. Qed.

Lemma put_uvarint_5 : put_uvarint 5 = [5].
Proof. reflexivity. Qed.

(* the curve-name chunk *)
Lemma read_name_chunk_inv c r name rest : read_chunk r = Ok (name, rest) -> name = curve_name c ->
  exists pre, r = pre ++ curve_name c ++ rest /\ length pre = 1%nat /\ (is_bytes r -> pre = [5]).
Proof.
  intros H ->. apply read_chunk_inv in H. destruct H as (pre & -> & L & _ & M).
  rewrite curve_name_length in *. change (N.of_nat 5) with 5 in *. rewrite put_uvarint_5 in *.
  exists pre. repeat split; assumption.
Qed.

(* ---- Round 1 *)
Lemma r1_inv c bs m : DecodeRound1 c bs = Ok m ->
  exists sid8 pre x y,
    bs = magicRound1 ++ sid8 ++ pre ++ curve_name c ++ x ++ y /\
    length sid8 = 8%nat /\ length pre = 1%nat /\ length x = byteLen c /\ length y = byteLen c /\
    m = mkR1 (of_be_s sid8) (curve_name c) (of_be_s x) (of_be_s y) /\
    (is_bytes bs -> pre = [5]).
Proof.
  unfold DecodeRound1. intros H.
  apply bind_ok_inv in H. destruct H as ([magic r1] & R1 & H). apply read_full_inv in R1. destruct R1 as [-> Lm].
  apply bind_ok_inv in H. destruct H as (u1 & G1 & H). apply guard_eqb_inv in G1. subst magic.
  apply bind_ok_inv in H. destruct H as ([sid r2] & R2 & H). apply read_full_inv in R2. destruct R2 as [-> Ls].
  apply bind_ok_inv in H. destruct H as ([[[name x] y] rest] & D & H).
  apply bind_ok_inv in H. destruct H as (u2 & G2 & H). apply guard_eqb_inv in G2.
  apply bind_ok_inv in H. destruct H as (u3 & T & H). apply no_trailing_inv in T. subst rest.
  apply Ok_inj in H. subst m.
  unfold decodeOTSetup in D.
  apply bind_ok_inv in D. destruct D as ([name' r3] & C & D).
  apply bind_ok_inv in D. destruct D as (u4 & G4 & D). apply guard_eqb_inv in G4.
  apply bind_ok_inv in D. destruct D as ([xv r4] & X & D). apply read_fixed_inv in X. destruct X as (fx & -> & Lx & ->).
  apply bind_ok_inv in D. destruct D as ([yv r5] & Y & D). apply read_fixed_inv in Y. destruct Y as (fy & -> & Ly & ->).
  apply Ok_inj in D. injection D as E1 E2 E3 E4. subst name x y r5.
  destruct (read_name_chunk_inv c _ _ _ C G4) as (pre & -> & Lp & M).
  rewrite !app_nil_r in *.
  exists sid, pre, fx, fy. subst name'. repeat split; try assumption.
  intros B. apply M. apply is_bytes_app in B. destruct B as [_ B]. apply is_bytes_app in B. destruct B as [_ B]. exact B.
Qed.

Theorem r1_accept_length c bs m : DecodeRound1 c bs = Ok m -> length bs = (16 + 2 * byteLen c)%nat.
Proof.
  intros H. apply r1_inv in H. destruct H as (sid8 & pre & x & y & -> & Ls & Lp & Lx & Ly & _).
  rewrite !app_length, curve_name_length, Ls, Lp, Lx, Ly. change (length magicRound1) with 2%nat. lia.
Qed.

Theorem r1_canonical c bs m : is_bytes bs -> DecodeRound1 c bs = Ok m ->
  EncodeRound1 c m = Ok bs /\ wf_r1 c m.
Proof.
  intros B H. apply r1_inv in H. destruct H as (sid8 & pre & x & y & E & Ls & Lp & Lx & Ly & -> & M).
  specialize (M B). subst pre bs.
  apply is_bytes_app in B. destruct B as [_ B]. apply is_bytes_app in B. destruct B as [Bs B].
  apply is_bytes_app in B. destruct B as [_ B]. apply is_bytes_app in B. destruct B as [_ B].
  apply is_bytes_app in B. destruct B as [Bx By].
  assert (Fx : fits (byteLen c) (of_be_s x)) by (rewrite <- Lx; apply of_be_s_fits; exact Bx).
  assert (Fy : fits (byteLen c) (of_be_s y)) by (rewrite <- Ly; apply of_be_s_fits; exact By).
  split.
  - unfold EncodeRound1, encodeOTSetup. cbn [r1_sid r1_name r1_ax r1_ay]. rewrite check_name_ok. cbn [bind].
    rewrite !write_fixed_ok by assumption. cbn [bind]. rewrite write_chunk_name.
    rewrite <- Ls, <- Lx at 1. rewrite <- Ly at 1. rewrite !be_s_of_be_s by assumption. reflexivity.
  - repeat split; cbn [r1_sid r1_name r1_ax r1_ay]; try assumption.
    pose proof (of_be_s_fits sid8 Bs) as F. rewrite Ls in F. exact F.
Qed.

(* ---- garbler session *)
Lemma put_uvarint_len2 c : length (put_uvarint (N.of_nat (6 + 5 * byteLen c))) = 2%nat.
Proof. destruct c; reflexivity. Qed.

Lemma gs_inv c bs s : DecodeGarblerSession c bs = Ok s ->
  exists sid8 pre1 pre2 fs,
    let chunk := pre2 ++ curve_name c ++ concat fs in
    bs = magicGarblerSession ++ sid8 ++ pre1 ++ chunk /\
    length sid8 = 8%nat /\ length pre2 = 1%nat /\ length fs = 5%nat /\
    Forall (fun f => length f = byteLen c) fs /\
    length pre1 = length (put_uvarint (N.of_nat (length chunk))) /\
    (exists a b c0 d e, map of_be_s fs = [a; b; c0; d; e] /\ s = mkGS (of_be_s sid8) (curve_name c) a b c0 d e) /\
    (is_bytes bs -> pre2 = [5] /\ pre1 = put_uvarint (N.of_nat (length chunk))).
Proof.
  unfold DecodeGarblerSession. intros H.
  apply bind_ok_inv in H. destruct H as ([magic r1] & R1 & H). apply read_full_inv in R1. destruct R1 as [-> Lm].
  apply bind_ok_inv in H. destruct H as (u1 & G1 & H). apply guard_eqb_inv in G1. subst magic.
  apply bind_ok_inv in H. destruct H as ([sid r2] & R2 & H). apply read_full_inv in R2. destruct R2 as [-> Ls].
  apply bind_ok_inv in H. destruct H as ([chunk rest] & C & H).
  apply bind_ok_inv in H. destruct H as (u3 & T & H). apply no_trailing_inv in T. subst rest.
  apply read_chunk_inv in C. destruct C as (pre1 & -> & L1 & _ & M1).
  unfold decodeCOSenderSetup in H.
  apply bind_ok_inv in H. destruct H as ([name r3] & C2 & H).
  apply bind_ok_inv in H. destruct H as (u4 & G4 & H). apply guard_eqb_inv in G4.
  apply bind_ok_inv in H. destruct H as ([vs rest] & F & H).
  apply bind_ok_inv in H. destruct H as (u5 & T & H). apply no_trailing_inv in T. subst rest.
  apply read_fixed_list_inv in F. destruct F as (fs & -> & Lfs & Ffs & ->).
  destruct (read_name_chunk_inv c _ _ _ C2 G4) as (pre2 & -> & Lp2 & M2). subst name.
  rewrite !app_nil_r in *.
  exists sid, pre1, pre2, fs. cbv zeta. repeat split; try assumption.
  - destruct (map of_be_s fs) as [|a [|b [|c0 [|d [|e [|? ?]]]]]] eqn:E; try discriminate.
    apply Ok_inj in H. subst s. do 5 eexists. split; reflexivity.
  - apply M2. apply is_bytes_app in H0. destruct H0 as [_ B]. apply is_bytes_app in B. destruct B as [_ B].
    apply is_bytes_app in B. destruct B as [_ B]. exact B.
  - apply M1. apply is_bytes_app in H0. destruct H0 as [_ B]. apply is_bytes_app in B. destruct B as [_ B]. exact B.
Qed.

Theorem gs_accept_length c bs s : DecodeGarblerSession c bs = Ok s -> length bs = (18 + 5 * byteLen c)%nat.
Proof.
  intros H. apply gs_inv in H. destruct H as (sid8 & pre1 & pre2 & fs & H). cbv zeta in H.
  destruct H as (-> & Ls & Lp2 & Lfs & Ffs & L1 & _).
  assert (Lc : length (pre2 ++ curve_name c ++ concat fs) = (6 + 5 * byteLen c)%nat).
  { rewrite !app_length, curve_name_length, Lp2, (concat_length_fixed _ _ Ffs), Lfs. lia. }
  rewrite Lc, put_uvarint_len2 in L1.
  rewrite app_length, app_length, app_length, Lc, Ls, L1. change (length magicGarblerSession) with 2%nat. lia.
Qed.

Theorem gs_canonical c bs s : is_bytes bs -> DecodeGarblerSession c bs = Ok s ->
  EncodeGarblerSession c s = Ok bs /\ wf_gs c s.
Proof.
  intros B H. apply gs_inv in H. destruct H as (sid8 & pre1 & pre2 & fs & H). cbv zeta in H.
  destruct H as (E & Ls & Lp2 & Lfs & Ffs & L1 & (a & b & c0 & d & e & Em & ->) & M).
  destruct (M B) as [-> ->]. subst bs.
  apply is_bytes_app in B. destruct B as [_ B]. apply is_bytes_app in B. destruct B as [Bs B].
  apply is_bytes_app in B. destruct B as [_ B]. apply is_bytes_app in B. destruct B as [_ B].
  apply is_bytes_app in B. destruct B as [_ B].
  destruct (flat_map_be_s_of_be_s _ _ Ffs B) as [Ef Ff]. rewrite Em in Ef, Ff.
  split.
  - unfold EncodeGarblerSession, encodeCOSenderSetup. cbn [gs_sid gs_name gs_scalar gs_ax gs_ay gs_ainvx gs_ainvy].
    rewrite check_name_ok. cbn [bind]. rewrite write_fixed_list_ok by exact Ff. cbn [bind].
    rewrite Ef, write_chunk_name. rewrite <- Ls at 1. rewrite be_s_of_be_s by exact Bs. reflexivity.
  - repeat split; cbn [gs_sid gs_name gs_scalar gs_ax gs_ay gs_ainvx gs_ainvy]; try assumption.
    pose proof (of_be_s_fits sid8 Bs) as F. rewrite Ls in F. exact F.
Qed.

(* ---- evaluator session *)
Lemma put_uvarint_len_es c : length (put_uvarint (N.of_nat (38 + 258 * byteLen c))) = match c with P521 => 3 | _ => 2 end%nat.
Proof. destruct c; reflexivity. Qed.

Lemma es_inv c bs s : DecodeEvaluatorSession c bs = Ok s ->
  exists sid8 pre1 pre2 fa fsc raw,
    let chunk := pre2 ++ curve_name c ++ concat fa ++ concat fsc ++ raw in
    bs = magicEvalSession ++ sid8 ++ pre1 ++ chunk /\
    length sid8 = 8%nat /\ length pre2 = 1%nat /\ length fa = 2%nat /\ length fsc = evaluatorCiphertextCount /\
    Forall (fun f => length f = byteLen c) fa /\ Forall (fun f => length f = byteLen c) fsc /\
    length raw = evaluatorChoiceSignBytes /\
    length pre1 = length (put_uvarint (N.of_nat (length chunk))) /\
    s = mkES (of_be_s sid8) (curve_name c) (nth 0 (map of_be_s fa) 0) (nth 1 (map of_be_s fa) 0)
             (map of_be_s fsc) (firstn evaluatorCiphertextCount (bytesToBitsLittle raw)) /\
    (is_bytes bs -> pre2 = [5] /\ pre1 = put_uvarint (N.of_nat (length chunk))).
Proof.
  unfold DecodeEvaluatorSession. intros H.
  apply bind_ok_inv in H. destruct H as ([magic r1] & R1 & H). apply read_full_inv in R1. destruct R1 as [-> Lm].
  apply bind_ok_inv in H. destruct H as (u1 & G1 & H). apply guard_eqb_inv in G1. subst magic.
  apply bind_ok_inv in H. destruct H as ([sid r2] & R2 & H). apply read_full_inv in R2. destruct R2 as [-> Ls].
  apply bind_ok_inv in H. destruct H as ([chunk rest] & C & H).
  apply bind_ok_inv in H. destruct H as (u3 & T & H). apply no_trailing_inv in T. subst rest.
  apply read_chunk_inv in C. destruct C as (pre1 & -> & L1 & _ & M1).
  unfold decodeChoiceBundle in H.
  apply bind_ok_inv in H. destruct H as ([name r3] & C2 & H).
  apply bind_ok_inv in H. destruct H as (u4 & G4 & H). apply guard_eqb_inv in G4.
  apply bind_ok_inv in H. destruct H as ([va r4] & Fa & H).
  apply bind_ok_inv in H. destruct H as ([vsc r5] & Fs & H).
  apply bind_ok_inv in H. destruct H as ([raw rest] & Rr & H).
  apply bind_ok_inv in H. destruct H as (u5 & T & H). apply no_trailing_inv in T. subst rest.
  apply bind_ok_inv in H. destruct H as (u6 & _ & H). apply Ok_inj in H. subst s.
  apply read_fixed_list_inv in Fa. destruct Fa as (fa & -> & Lfa & Ffa & ->).
  apply read_fixed_list_inv in Fs. destruct Fs as (fsc & -> & Lfsc & Ffsc & ->).
  apply read_full_inv in Rr. destruct Rr as [-> Lraw].
  destruct (read_name_chunk_inv c _ _ _ C2 G4) as (pre2 & -> & Lp2 & M2). subst name.
  rewrite !app_nil_r in *.
  exists sid, pre1, pre2, fa, fsc, raw. cbv zeta. repeat split; try assumption.
  - apply M2. apply is_bytes_app in H. destruct H as [_ B]. apply is_bytes_app in B. destruct B as [_ B].
    apply is_bytes_app in B. destruct B as [_ B]. exact B.
  - apply M1. apply is_bytes_app in H. destruct H as [_ B]. apply is_bytes_app in B. destruct B as [_ B]. exact B.
Qed.

Theorem es_accept_length c bs s : DecodeEvaluatorSession c bs = Ok s -> length bs = es_len c.
Proof.
  intros H. apply es_inv in H. destruct H as (sid8 & pre1 & pre2 & fa & fsc & raw & H). cbv zeta in H.
  destruct H as (-> & Ls & Lp2 & Lfa & Lfsc & Ffa & Ffsc & Lraw & L1 & _).
  assert (Lc : length (pre2 ++ curve_name c ++ concat fa ++ concat fsc ++ raw) = (38 + 258 * byteLen c)%nat).
  { rewrite !app_length, curve_name_length, Lp2, (concat_length_fixed _ _ Ffa), (concat_length_fixed _ _ Ffsc), Lfa, Lfsc, Lraw.
    change evaluatorCiphertextCount with 256%nat. change evaluatorChoiceSignBytes with 32%nat. lia. }
  rewrite Lc, put_uvarint_len_es in L1.
  rewrite app_length, app_length, app_length, Lc, Ls, L1. change (length magicEvalSession) with 2%nat.
  unfold es_len. destruct c; lia.
Qed.

Theorem es_canonical c bs s : is_bytes bs -> DecodeEvaluatorSession c bs = Ok s ->
  EncodeEvaluatorSession c s = Ok bs /\ wf_es c s.
Proof.
  intros B H. apply es_inv in H. destruct H as (sid8 & pre1 & pre2 & fa & fsc & raw & H). cbv zeta in H.
  destruct H as (E & Ls & Lp2 & Lfa & Lfsc & Ffa & Ffsc & Lraw & L1 & -> & M).
  destruct (M B) as [-> ->]. subst bs.
  apply is_bytes_app in B. destruct B as [_ B]. apply is_bytes_app in B. destruct B as [Bs B].
  apply is_bytes_app in B. destruct B as [_ B]. apply is_bytes_app in B. destruct B as [_ B].
  apply is_bytes_app in B. destruct B as [_ B]. apply is_bytes_app in B. destruct B as [Ba B].
  apply is_bytes_app in B. destruct B as [Bsc Braw].
  destruct (flat_map_be_s_of_be_s _ _ Ffa Ba) as [Efa Ffa'].
  destruct (flat_map_be_s_of_be_s _ _ Ffsc Bsc) as [Efsc Ffsc'].
  assert (Lbits : length (bytesToBitsLittle raw) = evaluatorCiphertextCount).
  { rewrite bytesToBitsLittle_length, Lraw. reflexivity. }
  assert (Ebits : firstn evaluatorCiphertextCount (bytesToBitsLittle raw) = bytesToBitsLittle raw).
  { rewrite <- Lbits. apply firstn_all. }
  rewrite Ebits.
  destruct fa as [|f0 [|f1 [|? ?]]]; try discriminate. cbn [map nth] in *.
  assert (Efa2 : flat_map (be_s (byteLen c)) [of_be_s f0; of_be_s f1] = concat [f0; f1]) by exact Efa.
  split.
  - unfold EncodeEvaluatorSession, encodeChoiceBundle. cbn [es_sid es_name es_ax es_ay es_scalars es_bits].
    rewrite check_name_ok. cbn [bind]. rewrite write_fixed_list_ok by exact Ffa'. cbn [bind].
    rewrite map_length, Lfsc, Lbits, Nat.eqb_refl. cbn [guard bind].
    rewrite write_fixed_list_ok by exact Ffsc'. cbn [bind].
    rewrite (bits_bytes_roundtrip raw Braw), Lraw, Nat.eqb_refl. cbn [guard bind].
    rewrite Efa2, Efsc, write_chunk_name. rewrite <- Ls at 1. rewrite be_s_of_be_s by exact Bs. reflexivity.
  - inversion Ffa' as [|? ? F0 F1']; subst. inversion F1' as [|? ? F1 _]; subst.
    repeat split; cbn [es_sid es_name es_ax es_ay es_scalars es_bits]; try assumption.
    + pose proof (of_be_s_fits sid8 Bs) as F. rewrite Ls in F. exact F.
    + rewrite map_length. exact Lfsc.
Qed.

(* ---- Round 2 and Round 3: the exact length is checked by the decoder *)
Theorem r2_accept_length dec c bs m : DecodeRound2 dec c bs = Ok m -> length bs = (48 + 256 * byteLen c)%nat.
Proof.
  unfold DecodeRound2. intros H.
  apply bind_ok_inv in H. destruct H as ([magic r1] & R1 & H). apply read_full_inv in R1. destruct R1 as [-> Lm].
  apply bind_ok_inv in H. destruct H as (u1 & G1 & H).
  apply bind_ok_inv in H. destruct H as ([sid r2] & R2 & H). apply read_full_inv in R2. destruct R2 as [-> Ls].
  apply bind_ok_inv in H. destruct H as ([name rest] & C & H).
  apply bind_ok_inv in H. destruct H as (u2 & G2 & H). apply guard_eqb_inv in G2.
  apply bind_ok_inv in H. destruct H as (pts & D & H).
  destruct (read_name_chunk_inv c _ _ _ C G2) as (pre & -> & Lp & _).
  unfold decodePoints in D. apply bind_ok_inv in D. destruct D as (u3 & G3 & _).
  apply guard_ok_inv in G3. apply Nat.eqb_eq in G3.
  rewrite !app_length, curve_name_length, Lm, Ls, Lp, G3.
  change evaluatorCiphertextCount with 256%nat. change evaluatorChoiceSignBytes with 32%nat. lia.
Qed.

Theorem r3_accept_length bs m : DecodeRound3 bs = Ok m -> length bs = round3PayloadLen.
Proof.
  intros H. destruct (Nat.eq_dec (length bs) round3PayloadLen) as [E|E]; [exact E|].
  rewrite (reject_length_r3 bs E) in H. discriminate.
Qed.

(* ---- C18_reject_length: wrong total length => error, every byte string, all five decoders *)
Lemma not_ok_err {A} (r : res A) : not_panic r -> (forall a, r <> Ok a) -> r = Err.
Proof. destruct r; intros H1 H2; [exfalso; apply (H2 a); reflexivity|reflexivity|exfalso; apply H1; reflexivity]. Qed.

Theorem reject_length dec c bs :
  (length bs <> (16 + 2 * byteLen c)%nat -> DecodeRound1 c bs = Err) /\
  (length bs <> (48 + 256 * byteLen c)%nat -> DecodeRound2 dec c bs = Err) /\
  (length bs <> round3PayloadLen -> DecodeRound3 bs = Err) /\
  (length bs <> (18 + 5 * byteLen c)%nat -> DecodeGarblerSession c bs = Err) /\
  (length bs <> es_len c -> DecodeEvaluatorSession c bs = Err).
Proof.
  repeat split; intros H.
  - apply not_ok_err; [apply no_panic_r1|]. intros m E. apply H. eapply r1_accept_length; exact E.
  - apply not_ok_err; [apply no_panic_r2|]. intros m E. apply H. eapply r2_accept_length; exact E.
  - apply reject_length_r3; exact H.
  - apply not_ok_err; [apply no_panic_gs|]. intros m E. apply H. eapply gs_accept_length; exact E.
  - apply not_ok_err; [apply no_panic_es|]. intros m E. apply H. eapply es_accept_length; exact E.
Qed.

(* a strict prefix (and any strict extension) of a valid encoding is rejected *)
Theorem reject_strict_prefix dec c :
  (forall m b p, wf_r1 c m -> EncodeRound1 c m = Ok b -> length p <> length b -> DecodeRound1 c p = Err) /\
  (forall m b p, wf_r2 dec c m -> EncodeRound2 c m = Ok b -> length p <> length b -> DecodeRound2 dec c p = Err) /\
  (forall m b p, wf_r3 m -> EncodeRound3 m = Ok b -> length p <> length b -> DecodeRound3 p = Err) /\
  (forall s b p, wf_gs c s -> EncodeGarblerSession c s = Ok b -> length p <> length b -> DecodeGarblerSession c p = Err) /\
  (forall s b p, wf_es c s -> EncodeEvaluatorSession c s = Ok b -> length p <> length b -> DecodeEvaluatorSession c p = Err).
Proof.
  repeat split; intros m b p W E L.
  - destruct (r1_roundtrip c m W) as (b' & E' & _ & Lb). rewrite E in E'. apply Ok_inj in E'. subst b'.
    apply (reject_length dec c p). congruence.
  - destruct (r2_roundtrip dec c m W) as (b' & E' & _ & Lb). rewrite E in E'. apply Ok_inj in E'. subst b'.
    apply (reject_length dec c p). congruence.
  - destruct (r3_roundtrip m W) as (b' & E' & _ & Lb). rewrite E in E'. apply Ok_inj in E'. subst b'.
    apply (reject_length dec c p). congruence.
  - destruct (gs_roundtrip c m W) as (b' & E' & _ & Lb). rewrite E in E'. apply Ok_inj in E'. subst b'.
    apply (reject_length dec c p). congruence.
  - destruct (es_roundtrip c m W) as (b' & E' & _ & Lb). rewrite E in E'. apply Ok_inj in E'. subst b'.
    apply (reject_length dec c p). congruence.
Qed.

(* ====================================================================== *)
(* regression records.  The decoders as they were before the fixes in /repo
   (832c61e minimal uvarint in readChunk, ad7f790 io.ReadFull + trailing
   check in decodeChoiceBundle, 19366c8 trailing-byte checks): the witnesses
   that refuted "wrong length => error" then, and are rejected now.        *)

Definition read_chunk_old (r : bytes) : res (bytes * bytes) :=
  '(n, r1) <- read_uvarint r ;;
  if chunkSizeLimit <? n then Err
  else if N.of_nat (length r1) <? n then Err
  else match r1 with
       | [] => Err
       | _ => Ok (firstn (N.to_nat n) r1, skipn (N.to_nat n) r1)
       end.

(* a single bytes.Reader.Read: fewer bytes without an error *)
Definition reader_read (k : nat) (r : bytes) : res (bytes * bytes) :=
  match r with
  | [] => Err
  | _ => let got := firstn k r in Ok (got ++ repeat 0 (k - length got), skipn k r)
  end.

Definition DecodeRound1_old (c : curve) (data : bytes) : res round1 :=
  '(magic, r1) <- read_full 2 data ;;
  _ <- guard (bytes_eqb magic magicRound1) ;;
  '(sid, r2) <- read_full 8 r1 ;;
  '(name, r3) <- read_chunk_old r2 ;;
  _ <- guard (bytes_eqb name (curve_name c)) ;;
  '(x, r4) <- read_fixed (byteLen c) r3 ;;
  '(y, _) <- read_fixed (byteLen c) r4 ;;
  Ok (mkR1 (of_be_s sid) name x y).

Definition DecodeRound2_old dec (c : curve) (data : bytes) : res round2 :=
  '(magic, r1) <- read_full 2 data ;;
  _ <- guard (bytes_eqb magic magicRound2) ;;
  '(sid, r2) <- read_full 8 r1 ;;
  '(name, rest) <- read_chunk_old r2 ;;
  _ <- guard (bytes_eqb name (curve_name c)) ;;
  pts <- decodePoints dec c rest ;;
  Ok (mkR2 (of_be_s sid) name pts).

Definition DecodeGarblerSession_old (c : curve) (data : bytes) : res gsession :=
  '(magic, r1) <- read_full 2 data ;;
  _ <- guard (bytes_eqb magic magicGarblerSession) ;;
  '(sid, r2) <- read_full 8 r1 ;;
  '(chunk, _) <- read_chunk_old r2 ;;
  '(name, r3) <- read_chunk_old chunk ;;
  _ <- guard (bytes_eqb name (curve_name c)) ;;
  '(fs, _) <- read_fixed_list (byteLen c) 5 r3 ;;
  match fs with
  | [s; ax; ay; ix; iy] => Ok (mkGS (of_be_s sid) name s ax ay ix iy)
  | _ => Err
  end.

Definition DecodeEvaluatorSession_old (c : curve) (data : bytes) : res esession :=
  '(magic, r1) <- read_full 2 data ;;
  _ <- guard (bytes_eqb magic magicEvalSession) ;;
  '(sid, r2) <- read_full 8 r1 ;;
  '(chunk, _) <- read_chunk_old r2 ;;
  '(name, r3) <- read_chunk_old chunk ;;
  _ <- guard (bytes_eqb name (curve_name c)) ;;
  '(a, r4) <- read_fixed_list (byteLen c) 2 r3 ;;
  '(scalars, r5) <- read_fixed_list (byteLen c) evaluatorCiphertextCount r4 ;;
  '(raw, _) <- reader_read evaluatorChoiceSignBytes r5 ;;
  Ok (mkES (of_be_s sid) name (nth 0 a 0) (nth 1 a 0) scalars
           (firstn evaluatorCiphertextCount (bytesToBitsLittle raw))).

Definition r1_trailing : bytes :=
  magicRound1 ++ be_s 8 7 ++ write_chunk (curve_name P224) ++ repeat 0 56 ++ [9].
Example r1_trailing_record :
  DecodeRound1_old P224 r1_trailing = Ok (mkR1 7 (curve_name P224) 0 0) /\
  (length r1_trailing =? 16 + 2 * byteLen P224)%nat = false /\
  DecodeRound1 P224 r1_trailing = Err.
Proof. vm_compute. repeat split; reflexivity. Qed.

(* Round2 with the curve-name length written as the two-byte uvarint 0x85 0x00 *)
Definition dec_any : curve -> N -> bool -> option (N * N) := fun _ x odd => Some (x, if odd then 1 else 0).
Definition r2_nonminimal : bytes :=
  magicRound2 ++ be_s 8 7 ++ [133; 0] ++ curve_name P224 ++ repeat 0 (256 * 28) ++ repeat 0 32.
Example r2_nonminimal_record :
  DecodeRound2_old dec_any P224 r2_nonminimal = Ok (mkR2 7 (curve_name P224) (repeat (0, 0) 256)) /\
  (length r2_nonminimal =? 48 + 256 * byteLen P224)%nat = false /\
  DecodeRound2 dec_any P224 r2_nonminimal = Err.
Proof. vm_compute. repeat split; reflexivity. Qed.

Definition gs_trailing : bytes :=
  magicGarblerSession ++ be_s 8 7 ++ write_chunk (write_chunk (curve_name P224) ++ repeat 0 140) ++ [9].
Example gs_trailing_record :
  DecodeGarblerSession_old P224 gs_trailing = Ok (mkGS 7 (curve_name P224) 0 0 0 0 0) /\
  (length gs_trailing =? 18 + 5 * byteLen P224)%nat = false /\
  DecodeGarblerSession P224 gs_trailing = Err.
Proof. vm_compute. repeat split; reflexivity. Qed.

(* evaluator session whose choice-bit field holds 1 byte instead of 32 *)
Definition es_short : bytes :=
  magicEvalSession ++ be_s 8 7
  ++ write_chunk (write_chunk (curve_name P224) ++ repeat 0 (258 * 28) ++ [255]).
Example es_short_record :
  DecodeEvaluatorSession_old P224 es_short
  = Ok (mkES 7 (curve_name P224) 0 0 (repeat 0 256) (repeat true 8 ++ repeat false 248)) /\
  (length es_short <? es_len P224)%nat = true /\
  DecodeEvaluatorSession P224 es_short = Err.
Proof. vm_compute. repeat split; reflexivity. Qed.

(* the well-formedness predicates are inhabited on every curve *)
Example wf_inhabited c :
  wf_r1 c (mkR1 1 (curve_name c) 2 3) /\ wf_gs c (mkGS 1 (curve_name c) 2 3 4 5 6) /\
  wf_es c (mkES 1 (curve_name c) 2 3 (repeat 4 256) (repeat true 256)) /\
  wf_r2 dec_any c (mkR2 1 (curve_name c) (repeat (5, 1) 256)).
Proof.
  assert (F : forall v, v < 256 -> fits (byteLen c) v).
  { intros v Hv. unfold fits. eapply N.lt_le_trans; [exact Hv|].
    rewrite <- (N.pow_1_r 256) at 1. apply N.pow_le_mono_r; [lia|]. pose proof (byteLen_pos c). lia. }
  repeat split; cbn [r1_sid r1_name r1_ax r1_ay gs_sid gs_name gs_scalar gs_ax gs_ay gs_ainvx gs_ainvy
                     es_sid es_name es_ax es_ay es_scalars es_bits r2_sid r2_name r2_choices fst snd];
    try reflexivity; try (apply F; lia); try (repeat constructor; apply F; lia);
    try (apply Forall_forall; intros x Hx; apply repeat_spec in Hx; subst x; try split; try (apply F; cbn; lia); reflexivity).
Qed.

(* ====================================================================== *)
(* non-vacuity of the hypotheses of resume_same (C18_resume): a (constant)
   choice of the opaque cryptographic functions satisfies all six, on every
   curve                                                                   *)
Definition nv_gen_sender (_ : unit) : N * (N * N) * (N * N) := (1, (2, 3), (4, 5)).
Definition nv_read_sid (_ : unit) : N := 7.
Definition nv_build_choices (_ : unit) (_ _ : N) (_ : list bool) : res (list N * list (N * N)) :=
  Ok (repeat 4 evaluatorCiphertextCount, repeat (5, 1) evaluatorCiphertextCount).
Definition nv_read_key (_ : unit) : bytes := repeat 0 garblingKeyBytes.
Definition nv_garble (_ : unit) (_ : bytes) : res (list (N * N) * list (N * N) * list (N * N) * list N) :=
  Ok (repeat (1, 2) hashInputBitCount, repeat (3, 4) hashInputBitCount, repeat (5, 6) outputHintCount,
      repeat 7 garbledTableLabelCount).
Definition nv_encrypt (_ : gsession) (_ _ : list (N * N)) : res (list (N * N)) :=
  Ok (repeat (8, 9) evaluatorCiphertextCount).

Example resume_hypotheses_inhabited c :
  (forall rng, let '(a, (ax, ay), (ix, iy)) := nv_gen_sender rng in Forall (fits (byteLen c)) [a; ax; ay; ix; iy]) /\
  (forall rng, nv_read_sid rng < 2 ^ 64) /\
  (forall rng ax ay bits scalars points,
     nv_build_choices rng ax ay bits = Ok (scalars, points) ->
     length scalars = evaluatorCiphertextCount /\ Forall (fits (byteLen c)) scalars /\
     length points = evaluatorCiphertextCount /\ Forall (point_ok dec_any c) points) /\
  (forall rng, length (nv_read_key rng) = garblingKeyBytes) /\
  (forall rng key gin ein outw tables,
     nv_garble rng key = Ok (gin, ein, outw, tables) ->
     length gin = hashInputBitCount /\ Forall (fits2 16) gin /\
     length outw = outputHintCount /\ Forall (fits2 16) outw /\
     length tables = garbledTableLabelCount /\ Forall (fits 16) tables) /\
  (forall st pts ein cts,
     nv_encrypt st pts ein = Ok cts -> length cts = evaluatorCiphertextCount /\ Forall (fits2 16) cts).
Proof.
  assert (F : forall w v, (1 <= w)%nat -> v < 256 -> fits w v).
  { intros w v Hw Hv. unfold fits. eapply N.lt_le_trans; [exact Hv|].
    rewrite <- (N.pow_1_r 256) at 1. apply N.pow_le_mono_r; lia. }
  pose proof (byteLen_pos c) as Hb.
  assert (FR : forall A (P : A -> Prop) x n, P x -> Forall P (repeat x n)).
  { intros A P x n Hx. apply Forall_forall. intros y Hy. apply repeat_spec in Hy. subst y. exact Hx. }
  split; [|split; [|split; [|split; [|split]]]].
  - intros rng. repeat constructor; apply F; lia.
  - intros rng. reflexivity.
  - intros rng ax ay bits scalars points H. unfold nv_build_choices in H. apply Ok_inj in H.
    pose proof (f_equal fst H) as E1. pose proof (f_equal snd H) as E2. cbn [fst snd] in E1, E2. subst scalars points.
    split; [apply repeat_length|]. split; [apply FR; apply F; lia|]. split; [apply repeat_length|].
    apply FR. split; [apply F; [lia|cbn [fst]; lia]|reflexivity].
  - intros rng. apply repeat_length.
  - intros rng key gin ein outw tables H. unfold nv_garble in H. apply Ok_inj in H.
    pose proof (f_equal (fun t => fst (fst (fst t))) H) as E1.
    pose proof (f_equal (fun t => snd (fst t)) H) as E3.
    pose proof (f_equal snd H) as E4. cbn [fst snd] in E1, E3, E4. subst gin outw tables.
    split; [apply repeat_length|]. split; [apply FR; split; apply F; cbn [fst snd]; lia|].
    split; [apply repeat_length|]. split; [apply FR; split; apply F; cbn [fst snd]; lia|].
    split; [apply repeat_length|]. apply FR. apply F; lia.
  - intros st pts ein cts H. unfold nv_encrypt in H. apply Ok_inj in H. subst cts.
    split; [apply repeat_length|]. apply FR; split; apply F; cbn [fst snd]; lia.
Qed.

(* ====================================================================== *)
(* Round 3 is canonical: accepted bytes re-encode to themselves            *)

Lemma slice_inv data lo hi b : slice data lo hi = Ok b ->
  (lo <= hi)%nat /\ (hi <= length data)%nat /\ b = firstn (hi - lo) (skipn lo data).
Proof.
  unfold slice. destruct ((lo <=? hi)%nat && (hi <=? length data)%nat) eqn:E; [|discriminate].
  apply andb_prop in E. destruct E as [E1 E2]. apply Nat.leb_le in E1. apply Nat.leb_le in E2.
  intros H. apply Ok_inj in H. subst b. repeat split; assumption.
Qed.

Lemma split_be_length w : forall k d, length (split_be w k d) = k.
Proof. induction k as [|k IH]; intros d; cbn [split_be length]; [reflexivity|]. rewrite IH. reflexivity. Qed.

Lemma is_bytes_firstn n l : is_bytes l -> is_bytes (firstn n l).
Proof. intros H. rewrite <- (firstn_skipn n l) in H. apply is_bytes_app in H. apply H. Qed.

Lemma is_bytes_skipn n l : is_bytes l -> is_bytes (skipn n l).
Proof. intros H. rewrite <- (firstn_skipn n l) in H. apply is_bytes_app in H. apply H. Qed.

Lemma flat_split_be w : forall k d, length d = (w * k)%nat -> is_bytes d ->
  flat_map (be_s w) (split_be w k d) = d /\ Forall (fits w) (split_be w k d).
Proof.
  induction k as [|k IH]; intros d L B; cbn [split_be flat_map].
  - rewrite Nat.mul_0_r in L. destruct d; [split; constructor|discriminate].
  - assert (Lf : length (firstn w d) = w) by (rewrite firstn_length; lia).
    destruct (IH (skipn w d)) as [E F]; [rewrite skipn_length; lia|apply is_bytes_skipn; exact B|].
    rewrite E. split.
    + rewrite <- Lf at 1. rewrite be_s_of_be_s by (apply is_bytes_firstn; exact B). apply firstn_skipn.
    + constructor; [|exact F]. rewrite <- Lf at 1. apply of_be_s_fits. apply is_bytes_firstn; exact B.
Qed.

Lemma unpairs_pairs : forall n l, length l = (2 * n)%nat -> unpairs (pairs l) = l /\ length (pairs l) = n.
Proof.
  unfold unpairs. induction n as [|n IH]; intros l L.
  - destruct l; [split; reflexivity|discriminate].
  - destruct l as [|a [|b l]]; try (cbn in L; lia).
    destruct (IH l) as [E Ln]; [cbn in L; lia|]. cbn [pairs flat_map app fst snd length]. rewrite E, Ln. split; reflexivity.
Qed.

Section R3canon.
  Variables (kKey nTabB nTab nInB nIn nHintB nHint nCtB nCt total : nat).
  Hypothesis HtabB : nTabB = (16 * nTab)%nat.
  Hypothesis HinB : nInB = (16 * nIn)%nat.
  Hypothesis HhintB : nHintB = (16 * (2 * nHint))%nat.
  Hypothesis HctB : nCtB = (16 * (2 * nCt))%nat.
  Hypothesis Htotal : total = (length magicRound3 + 8 + kKey + nTabB + nInB + nHintB + nCtB)%nat.

  Theorem r3_canonical_gen bs m : is_bytes bs ->
    DecodeRound3_gen 8 kKey 16 nTabB nTab nInB nHintB nHint nCtB nCt total bs = Ok m ->
    EncodeRound3_gen nTab nIn nHint nCt total m = Ok bs.
  Proof.
    intros B H. unfold DecodeRound3_gen in H. change (length magicRound3) with 2%nat in *.
    apply bind_ok_inv in H. destruct H as (u0 & G0 & H). apply guard_ok_inv in G0. apply Nat.eqb_eq in G0.
    cbv zeta in H.
    apply bind_ok_inv in H. destruct H as (magic & S1 & H). apply slice_inv in S1. destruct S1 as (_ & _ & ->).
    apply bind_ok_inv in H. destruct H as (u1 & G1 & H). apply guard_eqb_inv in G1.
    apply bind_ok_inv in H. destruct H as (sid & S2 & H). apply slice_inv in S2. destruct S2 as (_ & _ & ->).
    apply bind_ok_inv in H. destruct H as (key & S3 & H). apply slice_inv in S3. destruct S3 as (_ & _ & ->).
    apply bind_ok_inv in H. destruct H as (tb & S4 & H). apply slice_inv in S4. destruct S4 as (_ & _ & ->).
    apply bind_ok_inv in H. destruct H as (tables & D4 & H).
    apply bind_ok_inv in H. destruct H as (ib & S5 & H). apply slice_inv in S5. destruct S5 as (_ & _ & ->).
    apply bind_ok_inv in H. destruct H as (inputs & D5 & H).
    apply bind_ok_inv in H. destruct H as (hb & S6 & H). apply slice_inv in S6. destruct S6 as (_ & _ & ->).
    apply bind_ok_inv in H. destruct H as (hints & D6 & H).
    apply bind_ok_inv in H. destruct H as (cb & S7 & H). apply slice_inv in S7. destruct S7 as (_ & _ & ->).
    apply bind_ok_inv in H. destruct H as (cts & D7 & H). apply Ok_inj in H. subst m.
    (* the seven consecutive pieces *)
    set (d1 := skipn 2 bs) in *. set (d2 := skipn 8 d1) in *. set (d3 := skipn kKey d2) in *.
    set (d4 := skipn nTabB d3) in *. set (d5 := skipn nInB d4) in *. set (d6 := skipn nHintB d5) in *.
    assert (K : forall a b (l : list N), skipn (a + b) l = skipn b (skipn a l)).
    { induction a as [|a IHa]; intros b l; [reflexivity|]. destruct l as [|x l]; [cbn [Nat.add skipn]; rewrite skipn_nil; reflexivity|]. cbn [Nat.add skipn]. apply IHa. }
    replace (0 + 2 - 0)%nat with 2%nat in * by lia. change (skipn 0 bs) with bs in G1.
    change (0 + 2)%nat with 2%nat in *.
    repeat match goal with
    | H : context [firstn (?a + ?k - ?a)] |- _ => replace (a + k - a)%nat with k in H by lia
    end.
    repeat rewrite K in D4. repeat rewrite K in D5. repeat rewrite K in D6. repeat rewrite K in D7.
    fold d1 d2 d3 d4 d5 d6 in D4, D5, D6, D7.
    assert (E : bs = firstn 2 bs ++ firstn 8 d1 ++ firstn kKey d2 ++ firstn nTabB d3 ++ firstn nInB d4
                     ++ firstn nHintB d5 ++ d6).
    { unfold d6, d5, d4, d3, d2, d1. rewrite !firstn_skipn. reflexivity. }
    assert (L1 : length d1 = (total - 2)%nat) by (unfold d1; rewrite skipn_length; lia).
    assert (L2 : length d2 = (total - 2 - 8)%nat) by (unfold d2; rewrite skipn_length; lia).
    assert (L3 : length d3 = (total - 2 - 8 - kKey)%nat) by (unfold d3; rewrite skipn_length; lia).
    assert (L4 : length d4 = (total - 2 - 8 - kKey - nTabB)%nat) by (unfold d4; rewrite skipn_length; lia).
    assert (L5 : length d5 = (total - 2 - 8 - kKey - nTabB - nInB)%nat) by (unfold d5; rewrite skipn_length; lia).
    assert (L6 : length d6 = nCtB) by (unfold d6; rewrite skipn_length; lia).
    assert (E7 : firstn nCtB d6 = d6) by (rewrite <- L6; apply firstn_all).
    rewrite E7 in D7.
    assert (B1 : is_bytes d1) by (apply is_bytes_skipn; exact B).
    assert (B2 : is_bytes d2) by (apply is_bytes_skipn; exact B1).
    assert (B3 : is_bytes d3) by (apply is_bytes_skipn; exact B2).
    assert (B4 : is_bytes d4) by (apply is_bytes_skipn; exact B3).
    assert (B5 : is_bytes d5) by (apply is_bytes_skipn; exact B4).
    assert (B6 : is_bytes d6) by (apply is_bytes_skipn; exact B5).
    unfold decodeLabelBlock in D4, D5, D6, D7.
    apply bind_ok_inv in D4. destruct D4 as (? & _ & D4). apply Ok_inj in D4. subst tables.
    apply bind_ok_inv in D5. destruct D5 as (? & _ & D5). apply Ok_inj in D5. subst inputs.
    apply bind_ok_inv in D6. destruct D6 as (? & _ & D6). apply Ok_inj in D6. subst hints.
    apply bind_ok_inv in D7. destruct D7 as (? & _ & D7). apply Ok_inj in D7. subst cts.
    assert (Ediv : (nInB / 16)%nat = nIn) by (rewrite HinB, Nat.mul_comm; apply Nat.div_mul; lia).
    rewrite Ediv.
    destruct (flat_split_be 16 nTab (firstn nTabB d3)) as [ET _]; [rewrite firstn_length; lia|apply is_bytes_firstn; exact B3|].
    destruct (flat_split_be 16 nIn (firstn nInB d4)) as [EI _]; [rewrite firstn_length; lia|apply is_bytes_firstn; exact B4|].
    destruct (flat_split_be 16 (2 * nHint) (firstn nHintB d5)) as [EH _]; [rewrite firstn_length; lia|apply is_bytes_firstn; exact B5|].
    destruct (flat_split_be 16 (2 * nCt) d6) as [EC _]; [lia|exact B6|].
    destruct (unpairs_pairs nHint (split_be 16 (2 * nHint) (firstn nHintB d5)) (split_be_length _ _ _)) as [UH LH].
    destruct (unpairs_pairs nCt (split_be 16 (2 * nCt) d6) (split_be_length _ _ _)) as [UC LC].
    repeat match goal with
    | |- context [firstn (?a + ?k - ?a)] => replace (a + k - a)%nat with k by lia
    end.
    repeat rewrite K. fold d1 d2.
    unfold EncodeRound3_gen. cbn [r3_sid r3_key r3_tables r3_inputs r3_hints r3_cts].
    rewrite !split_be_length, LH, LC, !Nat.eqb_refl. cbn [guard bind].
    unfold encodeLabelList. rewrite UH, UC, ET, EI, EH, EC.
    assert (Ls : length (firstn 8 d1) = 8%nat) by (rewrite firstn_length; lia).
    pose proof (be_s_of_be_s (firstn 8 d1) (is_bytes_firstn _ _ B1)) as Eb. rewrite Ls in Eb.
    rewrite Eb, <- G1, <- E, G0, Nat.eqb_refl. reflexivity.
  Qed.
End R3canon.

Theorem r3_canonical bs m : is_bytes bs -> DecodeRound3 bs = Ok m -> EncodeRound3 m = Ok bs.
Proof.
  intros B H. destruct consts_rel as (Csid & Clab & Ctb & Cib & Chb & Ccb).
  assert (Htot : round3PayloadLen = (length magicRound3 + 8 + garblingKeyBytes + garbledTableByteLen
            + garblerInputLabelBytes + outputHintBytes + ciphertextBytes)%nat).
  { unfold round3PayloadLen. rewrite Csid. reflexivity. }
  unfold DecodeRound3 in H. rewrite Csid, Clab in H.
  pose proof (r3_canonical_gen garblingKeyBytes garbledTableByteLen garbledTableLabelCount
           garblerInputLabelBytes garblerInputLabelCount outputHintBytes outputHintCount
           ciphertextBytes evaluatorCiphertextCount round3PayloadLen Ctb Cib Chb Ccb Htot bs m B H) as G.
  unfold EncodeRound3. exact G.
Qed.

(* ====================================================================== *)
(* rounds are functions: sessions running in one process are independent.
   In Gallina the result of a round depends on (state, message, randomness)
   only, by construction; the statements below spell out what that means for
   two sessions whose rounds are interleaved and for a retried round 3.  The
   Go implementation could violate it through aliasing (a Round3Payload
   pointing into memory that a later Garble reuses): that is what the harness
   checks ("overlapping-sessions", "round3-retry", "interleaved-sessions"). *)
Section Independent.
  Variable RND : Type.
  Variable c : curve.
  Variable gen_sender : RND -> N * (N * N) * (N * N).
  Variable read_sid : RND -> N.
  Variable build_choices : RND -> N -> N -> list bool -> res (list N * list (N * N)).
  Variable read_key : RND -> bytes.
  Variable garble_circ : RND -> bytes -> res (list (N * N) * list (N * N) * list (N * N) * list N).
  Variable encrypt_co : gsession -> list (N * N) -> list (N * N) -> res (list (N * N)).
  Variable decrypt_co : esession -> list (N * N) -> res (list N).
  Variable eval_circ : bytes -> list N -> list N -> list N -> res (list N).
  Variable decompress : curve -> N -> bool -> option (N * N).

  Notation GR1 := (GarblerRound1 RND c gen_sender read_sid).
  Notation ER2 := (EvaluatorRound2 RND c build_choices).
  Notation GR3 := (GarblerRound3 RND read_key garble_circ encrypt_co).
  Notation ER4 := (EvaluatorRound4 decrypt_co eval_circ).
  Notation RUN := (run_protocol RND c gen_sender read_sid build_choices read_key garble_circ
                                encrypt_co decrypt_co eval_circ decompress
                                0%nat 0%nat 0%nat 0%nat false false false).

  (* two sessions A and B in one process, every round of A followed by the
     same round of B; both Round3 payloads exist before either is evaluated *)
  Definition run_two_interleaved (rg1A re2A rg3A : RND) (aA bA : bytes)
                                 (rg1B re2B rg3B : RND) (aB bB : bytes) : res bytes * res bytes :=
    let '(m1A, gsA) := GR1 rg1A in
    let '(m1B, gsB) := GR1 rg1B in
    let r2A := ER2 re2A m1A bA in
    let r2B := ER2 re2B m1B bB in
    let r3A := '(m2, es) <- r2A ;; m3 <- GR3 rg3A gsA aA m2 ;; Ok (es, m3) in
    let r3B := '(m2, es) <- r2B ;; m3 <- GR3 rg3B gsB aB m2 ;; Ok (es, m3) in
    let outA := '(es, m3) <- r3A ;; ER4 es m3 in
    let outB := '(es, m3) <- r3B ;; ER4 es m3 in
    (outA, outB).

  Theorem sessions_independent rg1A re2A rg3A aA bA rg1B re2B rg3B aB bB :
    run_two_interleaved rg1A re2A rg3A aA bA rg1B re2B rg3B aB bB
    = (RUN rg1A re2A rg3A aA bA, RUN rg1B re2B rg3B aB bB).
  Proof.
    unfold run_two_interleaved, run_protocol.
    destruct (GR1 rg1A) as [m1A gsA]. destruct (GR1 rg1B) as [m1B gsB].
    cbn [iter_res opt_thru bind]. f_equal.
    - destruct (ER2 re2A m1A bA) as [[m2 es]| |]; cbn [bind]; try reflexivity.
      destruct (GR3 rg3A gsA aA m2); reflexivity.
    - destruct (ER2 re2B m1B bB) as [[m2 es]| |]; cbn [bind]; try reflexivity.
      destruct (GR3 rg3B gsB aB m2); reflexivity.
  Qed.

  (* a retried round 3 (fresh randomness) does not touch the first payload *)
  Theorem round3_retry_keeps_first rng rng' st a req es :
    (let p1 := GR3 rng st a req in
     let p2 := GR3 rng' st a req in
     (m <- p1 ;; ER4 es m, m <- p2 ;; ER4 es m))
    = (m <- GR3 rng st a req ;; ER4 es m, m <- GR3 rng' st a req ;; ER4 es m).
  Proof. reflexivity. Qed.
End Independent.

(* ====================================================================== *)
(* op histories: decoding slot j gives the j-th encoded value, whatever was
   encoded later.  Trivial in the pure model (a stored byte string cannot
   change) — which is the point: the harness runs the same histories on the
   Go encoders, holding the returned slices, and must observe the same
   decoded values; an encoder whose result aliases a reused buffer disagrees. *)
Section HistoryThm.
  Variable decompress : curve -> N -> bool -> option (N * N).
  Variable c : curve.

  Definition wf_value (v : value) : Prop :=
    match v with
    | VR1 m => wf_r1 c m | VR2 m => wf_r2 decompress c m | VR3 m => wf_r3 m
    | VGS s => wf_gs c s | VES s => wf_es c s
    end.

  Definition stored (v : value) : vkind * res bytes := (kind_of v, encode_value c v).

  Lemma decode_stored v : wf_value v ->
    match stored v with (k, Ok b) => decode_kind decompress c k b = Ok v | _ => False end.
  Proof.
    destruct v as [m|m|m|s|s]; intros W; cbn [stored kind_of encode_value decode_kind].
    - destruct (r1_roundtrip c m W) as (b & -> & D & _). rewrite D. reflexivity.
    - destruct (r2_roundtrip decompress c m W) as (b & -> & D & _). rewrite D. reflexivity.
    - destruct (r3_roundtrip m W) as (b & -> & D & _). rewrite D. reflexivity.
    - destruct (gs_roundtrip c s W) as (b & -> & D & _). rewrite D. reflexivity.
    - destruct (es_roundtrip c s W) as (b & -> & D & _). rewrite D. reflexivity.
  Qed.

  Lemma decode_slot_stored vals j : Forall wf_value vals ->
    decode_slot decompress c (map stored vals) j
    = match nth_error vals j with Some v => Ok v | None => Err end.
  Proof.
    intros F. unfold decode_slot. rewrite nth_error_map.
    destruct (nth_error vals j) as [v|] eqn:E; cbn [option_map]; [|reflexivity].
    assert (W : wf_value v) by (eapply Forall_forall; [exact F|eapply nth_error_In; exact E]).
    pose proof (decode_stored v W) as D. destruct (stored v) as [k [b| |]]; [exact D|contradiction|contradiction].
  Qed.

  (* what a history must print: slot j holds the j-th encoded value *)
  Fixpoint history_spec (vals : list value) (ops : list hop) : list (res value) :=
    match ops with
    | [] => []
    | HEnc v :: t => history_spec (vals ++ [v]) t
    | HDec j :: t => (match nth_error vals j with Some v => Ok v | None => Err end) :: history_spec vals t
    end.

  Definition hop_wf (o : hop) : Prop := match o with HEnc v => wf_value v | HDec _ => True end.

  Theorem history_decodes_own_value : forall ops vals,
    Forall wf_value vals -> Forall hop_wf ops ->
    run_history decompress c (map stored vals) ops = history_spec vals ops.
  Proof.
    induction ops as [|[v|j] ops IH]; intros vals Fv Fo; [reflexivity| |];
      inversion Fo as [|? ? Ho Fo']; subst; cbn [run_history history_spec].
    - change [(kind_of v, encode_value c v)] with (map stored [v]). rewrite <- map_app.
      apply IH; [apply Forall_app; split; [exact Fv|constructor; [exact Ho|constructor]]|exact Fo'].
    - rewrite decode_slot_stored by exact Fv. f_equal. apply IH; assumption.
  Qed.

  (* in particular: a later encode never changes what an earlier slot decodes to *)
  Corollary later_encodes_do_not_matter vals more j v :
    Forall wf_value vals -> Forall wf_value more -> nth_error vals j = Some v ->
    run_history decompress c (map stored vals) (map HEnc more ++ [HDec j]) = [Ok v].
  Proof.
    intros Fv Fm E. rewrite history_decodes_own_value; [|exact Fv|].
    - revert vals Fv E. induction more as [|w more IH]; intros vals Fv E; cbn [map app history_spec].
      + rewrite E. reflexivity.
      + inversion Fm; subst. apply IH; [assumption|apply Forall_app; split; [exact Fv|repeat constructor; assumption]|].
        rewrite nth_error_app1; [exact E|]. apply nth_error_Some. congruence.
    - apply Forall_app. split; [|repeat constructor].
      apply Forall_forall. intros o Ho. apply in_map_iff in Ho. destruct Ho as (w & <- & Hw).
      eapply Forall_forall in Fm; [exact Fm|exact Hw].
  Qed.
End HistoryThm.

(* ====================================================================== *)
(* length prefixes.  readChunk compares the decoded uvarint as an UNSIGNED
   64-bit value with chunkSizeLimit, and only then with the remaining bytes;
   the model compares in N.  For EVERY value the uvarint may decode to
   (the whole range up to 2^64-1, in particular >= 2^63 where a signed
   conversion would turn negative) a length above the limit or above the
   remaining bytes is an error — of readChunk and of every decoder that
   reaches the field. *)
Lemma read_chunk_rejects_large r n r1 :
  read_uvarint r = Ok (n, r1) -> chunkSizeLimit < n \/ N.of_nat (length r1) < n ->
  read_chunk r = Err.
Proof.
  intros U H. unfold read_chunk. rewrite U. cbn [bind].
  destruct (guard (length r - length r1 =? length (put_uvarint n))%nat) as [[]| |] eqn:G; cbn [bind];
    try reflexivity; [|destruct (length r - length r1 =? length (put_uvarint n))%nat; discriminate].
  destruct (chunkSizeLimit <? n) eqn:E1; [reflexivity|]. apply N.ltb_ge in E1.
  destruct H as [H|H]; [lia|].
  replace (N.of_nat (length r1) <? n) with true by (symmetry; apply N.ltb_lt; exact H). reflexivity.
Qed.

Theorem reject_length_prefix dec c sid8 rest n r1 :
  length sid8 = 8%nat -> read_uvarint rest = Ok (n, r1) ->
  chunkSizeLimit < n \/ N.of_nat (length r1) < n ->
  DecodeRound1 c (magicRound1 ++ sid8 ++ rest) = Err /\
  DecodeRound2 dec c (magicRound2 ++ sid8 ++ rest) = Err /\
  DecodeGarblerSession c (magicGarblerSession ++ sid8 ++ rest) = Err /\
  DecodeEvaluatorSession c (magicEvalSession ++ sid8 ++ rest) = Err.
Proof.
  intros L U H. pose proof (read_chunk_rejects_large rest n r1 U H) as RC.
  repeat split.
  - unfold DecodeRound1. rewrite read_full_app by reflexivity. cbn [bind]. rewrite bytes_eqb_refl. cbn [guard bind].
    rewrite read_full_app by exact L. cbn [bind]. unfold decodeOTSetup. rewrite RC. reflexivity.
  - unfold DecodeRound2. rewrite read_full_app by reflexivity. cbn [bind]. rewrite bytes_eqb_refl. cbn [guard bind].
    rewrite read_full_app by exact L. cbn [bind]. rewrite RC. reflexivity.
  - unfold DecodeGarblerSession. rewrite read_full_app by reflexivity. cbn [bind]. rewrite bytes_eqb_refl. cbn [guard bind].
    rewrite read_full_app by exact L. cbn [bind]. rewrite RC. reflexivity.
  - unfold DecodeEvaluatorSession. rewrite read_full_app by reflexivity. cbn [bind]. rewrite bytes_eqb_refl. cbn [guard bind].
    rewrite read_full_app by exact L. cbn [bind]. rewrite RC. reflexivity.
Qed.

(* the nested curve-name prefix inside a session chunk *)
Theorem reject_nested_length_prefix c sid chunk n r1 :
  read_uvarint chunk = Ok (n, r1) -> chunkSizeLimit < n \/ N.of_nat (length r1) < n ->
  decodeCOSenderSetup c sid chunk = Err /\ decodeChoiceBundle c sid chunk = Err.
Proof.
  intros U H. pose proof (read_chunk_rejects_large chunk n r1 U H) as RC.
  split; [unfold decodeCOSenderSetup|unfold decodeChoiceBundle]; rewrite RC; reflexivity.
Qed.

(* the boundary values the harness puts into every length-prefixed field,
   in their minimal encodings, in front of 40 payload bytes: each is an error
   of readChunk; 2^63 is the ten-byte uvarint 80 80 80 80 80 80 80 80 80 01 *)
Definition prefix_boundary_values : list N :=
  [41; 1048576; 1048577; 2 ^ 31 - 1; 2 ^ 31; 2 ^ 32 - 1; 2 ^ 32; 2 ^ 62; 2 ^ 63 - 1; 2 ^ 63; 2 ^ 63 + 1; 2 ^ 64 - 1].
Example prefix_boundary_values_rejected :
  forallb (fun v => match read_chunk (put_uvarint v ++ repeat 7 40) with Err => true | _ => false end)
          prefix_boundary_values = true /\
  put_uvarint (2 ^ 63) = [128; 128; 128; 128; 128; 128; 128; 128; 128; 1] /\
  read_uvarint (put_uvarint (2 ^ 64 - 1) ++ [9]) = Ok (2 ^ 64 - 1, [9]) /\
  read_uvarint ([255; 255; 255; 255; 255; 255; 255; 255; 255; 2] ++ [9]) = Err /\
  read_uvarint (repeat 128 10 ++ [0]) = Err.
Proof. vm_compute. repeat split; reflexivity. Qed.

End LimitOK.
