(* RunC13.v — executable entry point of the C13 model for the correspondence
   check.  One case = (op args...):

     (0 ioarg (str...))      IOArg.Parse          -> (1 value (wire bits...)) | (-1 code)
     (1 ioarg (gin...))      IOArg.Set(nil, ...)  -> (1 value (wire bits...)) | (-1 code)
     (2 (gin...))            circuit.Sizes        -> (1 (sizes...))           | (-1 code)
     (3 (str...))            circuit.InputSizes   -> (1 (sizes...))           | (-1 code)
     (4 (ioarg...) value)    IO.Split             -> (values...)
     (5 info value)          mpc.Result twice on the same *big.Int
                                                  -> ((out1 arg1) (out2 arg2)) | (-1 code)
     (6 info (sizes...))     Info.InstantiateWithSizes -> (1 info)            | (-1 code)
     (7 str)                 big.Int.SetString(s, 0)   -> (1 value)           | (-1 1)
     (8 ioarg (prev?) (gin...))  IOArg.Set(result, ...) on a destination holding prev
                             (() = nil)          -> (1 value (wire bits...)) | (-1 code)
     (9 (outs?) (value...))  mpc.Results(values, outputs); outs? = () for a nil IO,
                             ((ioarg...)) for a non-nil one
                                                  -> (1 ((out arg-after)...))  | (-1 code)
     (10 (ioarg...) raw)     mpc.Results(outputs.Split(raw), outputs)
                                                  -> (1 ((out arg-after)...))  | (-1 code)
     (11 (ioarg...))         IO.Size, IOArg.Len of every argument -> (size (len...))
     (12 (outs?) (value...) base)  mpc.PrintResults: the text after "Result[i]: " per value
                                                  -> (1 (str...))             | (-1 code)
     (13 str)                types.Parse(text)    -> (1 info)                 | (-1 code)
     (14 info)               Info.String()        -> str

   info  = (kind bits arraysize (elem?) (fields...) concrete)
   ioarg = (info (compound...))
   str   = (bytes...)
   gin   = (0) nil | (1 b) bool | (2 z) int8…uint64 | (3 (bytes...)) []byte | (4) other
   out   = (1 b) bool | (2 signed width z) intN/uintN | (3 z) *big.Int | (4 (bytes...)) string
         | (5 ekind ewidth (items...)) slice | (6) unsupported-type message
   code  = 1 error return, 2 panic.
   The wire bits are bit i of the value for i < Type.Bits of the argument.
   Only the [_now] instances of the model (the code as it is in /repo) are used. *)
From Coq Require Import ZArith NArith List Bool.
From Mpc Require Import Gen.Consts Base.Sx IO.IOArg IO.IOResults IO.IOTypes.
Import ListNotations.
Open Scope Z_scope.

Fixpoint info_of_sx (s : sx) : info :=
  match s with
  | SL (k :: b :: a :: SL e :: SL fs :: c :: _) =>
      Info (getZ k) (getnat b) (getnat a)
           (match e with [] => None | x :: _ => Some (info_of_sx x) end)
           (map info_of_sx fs) (getB c)
  | _ => Info 0 0 0 None [] false
  end.

Fixpoint sx_of_info (t : info) : sx :=
  match t with
  | Info k b a e fs c =>
      SL [SZ k; ofnat b; ofnat a;
          SL (match e with None => [] | Some x => [sx_of_info x] end);
          SL (map sx_of_info fs); ofB c]
  end.

Fixpoint ioarg_of_sx (s : sx) : ioarg :=
  match s with
  | SL (t :: SL cs :: _) => IOArg (info_of_sx t) (map ioarg_of_sx cs)
  | _ => IOArg (Info 0 0 0 None [] false) []
  end.

Definition gin_of_sx (s : sx) : gin :=
  let tag := getZ (nthx 0 s) in
  if tag =? 0 then GNil
  else if tag =? 1 then GBool (getB (nthx 1 s))
  else if tag =? 2 then GInt (getZ (nthx 1 s))
  else if tag =? 3 then GBytes (getLN (nthx 1 s))
  else GOther.

Fixpoint sx_of_gout (o : gout) : sx :=
  match o with
  | OBool b => SL [SZ 1; ofB b]
  | OInt s w z => SL [SZ 2; ofB s; ofnat w; SZ z]
  | OBig z => SL [SZ 3; SZ z]
  | OStr l => SL [SZ 4; ofLN l]
  | OSlice ek ew items => SL [SZ 5; ofnat ek; ofnat ew; SL (map sx_of_gout items)]
  | OUnsupported => SL [SZ 6]
  end.

Definition sx_of_res {A} (f : A -> sx) (r : res A) : sx :=
  match r with
  | Ok a => f a
  | Err => sx_err 1
  | Panic => sx_err 2
  end.

Definition sx_value_wires (n : nat) (z : Z) : sx := SL [SZ 1; SZ z; ofLB (wires z n)].

Definition strs_of_sx (s : sx) : list (list N) := map getLN (getL s).

(* (outs?) : () = nil IO, ((ioarg...)) = non-nil IO *)
Definition outs_of_sx (s : sx) : option (list ioarg) :=
  match getL s with
  | [] => None
  | l :: _ => Some (map ioarg_of_sx (getL l))
  end.

Definition sx_of_results (l : list (gout * Z)) : sx :=
  SL [SZ 1; SL (map (fun x => SL [sx_of_gout (fst x); SZ (snd x)]) l)].

Definition run_c13 (inp : sx) : sx :=
  let op := getZ (nthx 0 inp) in
  if op =? 0 then
    let io := ioarg_of_sx (nthx 1 inp) in
    sx_of_res (sx_value_wires (i_bits (a_type io))) (parse io (strs_of_sx (nthx 2 inp)))
  else if op =? 1 then
    let io := ioarg_of_sx (nthx 1 inp) in
    sx_of_res (sx_value_wires (i_bits (a_type io))) (set io (map gin_of_sx (getL (nthx 2 inp))))
  else if op =? 2 then
    sx_of_res (fun l => SL [SZ 1; ofLnat l]) (sizes (map gin_of_sx (getL (nthx 1 inp))))
  else if op =? 3 then
    sx_of_res (fun l => SL [SZ 1; ofLnat l]) (input_sizes (strs_of_sx (nthx 1 inp)))
  else if op =? 4 then
    ofLZ (split (map ioarg_of_sx (getL (nthx 1 inp))) (getZ (nthx 2 inp)))
  else if op =? 5 then
    let t := info_of_sx (nthx 1 inp) in
    match result t (getZ (nthx 2 inp)) with
    | Ok (o1, a1) =>
        match result t a1 with
        | Ok (o2, a2) => SL [SL [sx_of_gout o1; SZ a1]; SL [sx_of_gout o2; SZ a2]]
        | Err => sx_err 1
        | Panic => sx_err 2
        end
    | Err => sx_err 1
    | Panic => sx_err 2
    end
  else if op =? 6 then
    sx_of_res (fun t => SL [SZ 1; sx_of_info t])
              (instantiate (info_of_sx (nthx 1 inp)) (getLnat (nthx 2 inp)))
  else if op =? 7 then
    match set_string (getLN (nthx 1 inp)) with
    | Some z => SL [SZ 1; SZ z]
    | None => sx_err 1
    end
  else if op =? 8 then
    (* IOArg.Set on a caller-supplied destination: (8 ioarg (prev?) (gin...)) *)
    let io := ioarg_of_sx (nthx 1 inp) in
    let prev := match getL (nthx 2 inp) with [] => None | p :: _ => Some (getZ p) end in
    sx_of_res (sx_value_wires (i_bits (a_type io))) (set_into prev io (map gin_of_sx (getL (nthx 3 inp))))
  else if op =? 9 then
    sx_of_res sx_of_results (results (outs_of_sx (nthx 1 inp)) (getLZ (nthx 2 inp)))
  else if op =? 10 then
    sx_of_res sx_of_results (output_values (map ioarg_of_sx (getL (nthx 1 inp))) (getZ (nthx 2 inp)))
  else if op =? 11 then
    let io := map ioarg_of_sx (getL (nthx 1 inp)) in
    SL [ofnat (io_size io); ofLnat (map ioarg_len io)]
  else if op =? 12 then
    sx_of_res (fun l => SL [SZ 1; SL (map ofLN l)])
              (print_results (outs_of_sx (nthx 1 inp)) (getLZ (nthx 2 inp)) (getN (nthx 3 inp)))
  else if op =? 13 then
    sx_of_res (fun t => SL [SZ 1; sx_of_info t]) (types_parse (getLN (nthx 1 inp)))
  else if op =? 14 then
    ofLN (info_text (info_of_sx (nthx 1 inp)))
  else sx_err 99.
