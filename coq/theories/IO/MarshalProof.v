(* MarshalProof.v — lemmas and theorems about IO/Marshal.v (property C14). *)
From Coq Require Import ZArith NArith List Bool Arith Lia MSets.MSetPositive.
From Mpc Require Import Gen.Consts Circuit.Circuit IO.Marshal.
Import ListNotations.
Open Scope N_scope.

(* ================================================================== *)
(* 1. the reader *)

Definition rlen (r : rd) : nat := length (fst r).
Definition rd_ok (r : rd) : Prop := snd r <= nlen (fst r).

Lemma nlen_app {A} (a b : list A) : nlen (a ++ b) = nlen a + nlen b.
Proof. unfold nlen. rewrite app_length. lia. Qed.

Lemma nlen_firstn {A} (l : list A) k : k <= nlen l -> nlen (firstn (N.to_nat k) l) = k.
Proof. unfold nlen. intros H. rewrite firstn_length. lia. Qed.

Lemma nlen_skipn {A} (l : list A) k : nlen (skipn (N.to_nat k) l) = nlen l - k.
Proof. unfold nlen. rewrite skipn_length. lia. Qed.

Ltac bread_fin k :=
  repeat split; intros;
  first [ symmetry; apply firstn_skipn
        | let C := fresh "C" in intro C;
            apply (f_equal nlen) in C; rewrite nlen_firstn in C by lia; unfold nlen in C; simpl in C; lia
        | rewrite ?nlen_skipn, ?nlen_firstn by lia; unfold k in *; lia ].

Lemma bread_spec n r d r' :
  0 < n -> rd_ok r -> bread n r = Some (d, r') ->
  rd_ok r' /\ d <> [] /\ fst r = d ++ fst r' /\ nlen d <= n /\
  (n <= snd r -> nlen d = n /\ snd r' = snd r - n).
Proof.
  destruct r as [rem b]. unfold rd_ok, bread. simpl. intros Hn Hok.
  destruct (b =? 0) eqn:Hb.
  - apply N.eqb_eq in Hb. subst b.
    destruct rem as [|x t]; [discriminate|].
    set (rem := x :: t) in *. assert (Hl : 1 <= nlen rem) by (unfold nlen, rem; simpl; lia).
    destruct (bufsize <=? n) eqn:Hbig; intros E; inversion E; subst; clear E; simpl.
    + set (k := N.min n (nlen rem)). assert (Hk : 1 <= k <= nlen rem) by (unfold k; lia).
      bread_fin k.
    + apply N.leb_gt in Hbig.
      set (b' := N.min bufsize (nlen rem)). set (k := N.min n b').
      assert (Hk : 1 <= k <= nlen rem) by (unfold k, b', bufsize; lia).
      assert (Hb' : b' <= nlen rem) by (unfold b'; lia).
      bread_fin k.
  - apply N.eqb_neq in Hb. intros E; inversion E; subst; clear E; simpl.
    set (k := N.min n b). assert (Hk : 1 <= k <= nlen rem) by (unfold k; lia).
    bread_fin k.
Qed.

Lemma bread_none n r : rd_ok r -> bread n r = None -> fst r = [].
Proof.
  destruct r as [rem b]. unfold rd_ok, bread. simpl. intros Hok.
  destruct (b =? 0) eqn:Hb; [|discriminate].
  destruct rem; [reflexivity|]. destruct (bufsize <=? n); discriminate.
Qed.

Definition rf_post (need : N) (r : rd) (acc : list byte) (x : res (list byte * rd)) : Prop :=
  match x with
  | Ok (l, r') => exists d, l = acc ++ d /\ nlen d = need /\ fst r = d ++ fst r' /\ rd_ok r' /\
                            (need <= snd r -> snd r' = snd r - need)
  | Err => nlen (fst r) < need
  | Panic | Fuel => False
  end.

Lemma read_full_loop_spec fuel : forall need r acc,
  (rlen r < fuel)%nat -> rd_ok r -> rf_post need r acc (read_full_loop fuel need r acc).
Proof.
  induction fuel as [|f IH]; intros need r acc Hf Hok.
  - lia.
  - cbn [read_full_loop]. destruct (need =? 0) eqn:Hn.
    + apply N.eqb_eq in Hn. subst. simpl. exists []. rewrite app_nil_r. repeat split; auto; try lia.
    + apply N.eqb_neq in Hn. destruct (bread need r) as [[d r1]|] eqn:Hb.
      * destruct (bread_spec need r d r1) as (Hok1 & Hne & Hsplit & Hle & Hbuf); auto; [lia|].
        assert (Hlen : (rlen r1 < f)%nat).
        { unfold rlen in *. rewrite Hsplit in Hf. rewrite app_length in Hf.
          destruct d; [congruence|]. simpl in Hf. lia. }
        specialize (IH (need - nlen d) r1 (acc ++ d) Hlen Hok1).
        destruct (read_full_loop f (need - nlen d) r1 (acc ++ d)) as [[l r2]| | |]; simpl in *; auto.
        -- destruct IH as (d2 & -> & Hd2 & Hs2 & Hok2 & Hb2). exists (d ++ d2).
           rewrite app_assoc. repeat split; auto.
           ++ rewrite nlen_app. lia.
           ++ rewrite Hsplit, Hs2, app_assoc. reflexivity.
           ++ intros Hnb. destruct (Hbuf Hnb) as [E1 E2]. rewrite Hb2 by lia. lia.
        -- rewrite Hsplit, nlen_app. lia.
      * simpl. rewrite (bread_none _ _ Hok Hb). unfold nlen. simpl. lia.
Qed.

Lemma read_full_spec n r : rd_ok r -> rf_post n r [] (read_full n r).
Proof. intros. unfold read_full. apply read_full_loop_spec; auto; unfold rlen; lia. Qed.

Lemma app_inv_len {A} (a c b d : list A) : a ++ b = c ++ d -> length a = length c -> a = c /\ b = d.
Proof.
  revert c; induction a as [|x a IH]; intros [|y c] H Hl; simpl in *; try discriminate; auto.
  inversion H; subst. destruct (IH c) as [-> ->]; auto.
Qed.

(* exactness: reading |l1| bytes from l1 ++ l2 yields l1 and leaves l2, whatever the buffer state *)
Lemma read_full_exact l1 l2 b :
  rd_ok (l1 ++ l2, b) ->
  exists b', read_full (nlen l1) (l1 ++ l2, b) = Ok (l1, (l2, b')) /\ rd_ok (l2, b') /\
             (nlen l1 <= b -> b' = b - nlen l1).
Proof.
  intros Hok. pose proof (read_full_spec (nlen l1) _ Hok) as H.
  destruct (read_full (nlen l1) (l1 ++ l2, b)) as [[l [rem b']]| | |]; simpl in H; try contradiction.
  - destruct H as (d & -> & Hd & Hs & Hok' & Hb). simpl in *.
    destruct (app_inv_len l1 d l2 rem) as [<- <-]; auto. { unfold nlen in Hd. lia. }
    exists b'. auto.
  - rewrite nlen_app in H. lia.
Qed.

(* ================================================================== *)
(* 2. no panic, no fuel exhaustion: every stage returns Ok or Err and consumes input *)

Definition good {A} (dec : nat) (r : rd) (x : res (A * rd)) : Prop :=
  match x with
  | Ok (_, r') => rd_ok r' /\ (rlen r' + dec <= rlen r)%nat
  | Err => True
  | Panic | Fuel => False
  end.

Lemma good_weaken {A} d d' r (x : res (A * rd)) : (d' <= d)%nat -> good d r x -> good d' r x.
Proof. destruct x as [[a r']| | |]; simpl; auto. intros ? [? ?]; split; auto; lia. Qed.

Lemma good_read_full n r : rd_ok r -> good (N.to_nat n) r (read_full n r).
Proof.
  intros Hok. pose proof (read_full_spec n r Hok) as H.
  destruct (read_full n r) as [[l r']| | |]; simpl in *; auto.
  destruct H as (d & -> & Hd & Hs & Hok' & _). split; auto.
  unfold rlen. rewrite Hs, app_length. unfold nlen in Hd. lia.
Qed.

Lemma good_read_u32 r : rd_ok r -> good 4 r (read_u32 r).
Proof.
  intros Hok. unfold read_u32. pose proof (good_read_full 4 r Hok) as H.
  destruct (read_full 4 r) as [[l r']| | |]; simpl in *; auto.
Qed.

Lemma good_parse_string fx r : rd_ok r -> good 4 r (parse_string fx r).
Proof.
  intros Hok. unfold parse_string. pose proof (good_read_u32 r Hok) as H.
  destruct (read_u32 r) as [[n r1]| | |]; simpl in *; auto. destruct H as [Hok1 Hl1].
  destruct (n =? 0) eqn:Hn; [simpl; auto|]. apply N.eqb_neq in Hn.
  destruct fx.
  - pose proof (good_read_full n r1 Hok1) as H2.
    destruct (read_full n r1) as [[l r2]| | |]; simpl in *; auto. destruct H2; split; auto; lia.
  - destruct (bread n r1) as [[d r2]|] eqn:Hb; simpl; auto.
    destruct (bread_spec n r1 d r2) as (Hok2 & _ & Hs & _); auto; [lia|]. split; auto.
    unfold rlen in *. rewrite Hs, app_length in Hl1. lia.
Qed.

(* types.Parse *)
Lemma span_length p l a r : span p l = (a, r) -> length l = (length a + length r)%nat.
Proof.
  revert a r; induction l as [|x t IH]; simpl; intros a r H.
  - inversion H; reflexivity.
  - destruct (p x).
    + destruct (span p t) as [a' r'] eqn:E. inversion H; subst. simpl. rewrite (IH a' r); auto.
    + inversion H; subst. reflexivity.
Qed.

Lemma split_nl_length l : forall line, In line (split_nl l) -> (length line <= length l)%nat.
Proof.
  induction l as [|x t IH]; simpl; intros line H.
  - destruct H as [<-|[]]. simpl. lia.
  - destruct (split_nl t) as [|cur more] eqn:E.
    + destruct H as [<-|[]]. simpl. lia.
    + destruct (x =? 10).
      * destruct H as [<-|H]; [simpl; lia|]. specialize (IH line H). lia.
      * destruct H as [<-|H].
        -- simpl. specialize (IH cur (or_introl eq_refl)). lia.
        -- specialize (IH line (or_intror H)). lia.
Qed.

Lemma first_some_in {A B} (f : A -> option B) l y : first_some f l = Some y -> exists x, In x l /\ f x = Some y.
Proof.
  induction l as [|x t IH]; simpl; [discriminate|].
  destruct (f x) eqn:E; intros H.
  - inversion H; subst. exists x; auto.
  - destruct (IH H) as (x' & ? & ?). exists x'; auto.
Qed.

Lemma match_arr_length line ds m2 : match_arr line = Some (ds, m2) -> (length m2 < length line)%nat.
Proof.
  unfold match_arr. destruct line as [|c t]; [discriminate|].
  destruct (c =? 91); [|discriminate].
  destruct (span is_digit t) as [d r] eqn:E. pose proof (span_length _ _ _ _ E) as Hl.
  destruct r as [|c2 [|x r]]; try discriminate.
  destruct (c2 =? 93); [|discriminate].
  intros H; inversion H; subst. simpl in *. lia.
Qed.

Definition ok_or_err {A} (x : res A) : Prop := match x with Ok _ | Err => True | Panic | Fuel => False end.

Lemma types_parse_ok fuel : forall val, (length val < fuel)%nat -> ok_or_err (types_parse fuel val).
Proof.
  induction fuel as [|f IH]; intros val Hf; [lia|]. cbn [types_parse].
  destruct (list_eqb val [98] || list_eqb val s_bool); [exact I|].
  destruct (list_eqb val s_byte); [exact I|].
  destruct (list_eqb val s_rune); [exact I|].
  destruct (first_some match_sized (split_nl val)) as [[name ds]|].
  - destruct (sized_type name); [|exact I]. destruct ds; [exact I|]. destruct (parse_int32 _); exact I.
  - destruct (first_some match_arr (split_nl val)) as [[ds m2]|] eqn:E; [|exact I].
    destruct (first_some_in _ _ _ E) as (line & Hin & Hm).
    pose proof (split_nl_length _ _ Hin). pose proof (match_arr_length _ _ _ Hm).
    assert (Hl : (length m2 < f)%nat) by lia. specialize (IH m2 Hl).
    destruct (types_parse f m2); simpl in *; auto.
    destruct ds; [exact I|]. destruct (parse_int32 _); exact I.
Qed.

Lemma Parse_ok val : ok_or_err (Parse val).
Proof. unfold Parse. apply types_parse_ok. lia. Qed.

Lemma good_repeat_parse {A} (p : rd -> res (A * rd)) (r0 : rd) fuel : forall cnt r,
  (forall r1, rd_ok r1 -> (rlen r1 <= rlen r0)%nat -> good 1 r1 (p r1)) ->
  rd_ok r -> (rlen r <= rlen r0)%nat -> (rlen r < fuel)%nat -> good 0 r (repeat_parse p fuel cnt r).
Proof.
  induction fuel as [|g IH]; intros cnt r Hp Hok Hle Hf; [lia|]. cbn [repeat_parse].
  destruct (cnt =? 0); [simpl; split; auto; lia|].
  pose proof (Hp r Hok Hle) as H1. destruct (p r) as [[a r']| | |]; simpl in *; auto.
  destruct H1 as [Hok' Hl'].
  assert (H2 : good 0 r' (repeat_parse p g (cnt - 1) r')) by (apply IH; auto; lia).
  destruct (repeat_parse p g (cnt - 1) r') as [[l r'']| | |]; simpl in *; auto.
  destruct H2; split; auto; lia.
Qed.

Lemma good_parse_ioarg fx fuel : forall r, rd_ok r -> (rlen r < fuel)%nat -> good 16 r (parse_ioarg fx fuel r).
Proof.
  induction fuel as [|f IH]; intros r Hok Hf; [lia|]. cbn [parse_ioarg].
  pose proof (good_parse_string fx r Hok) as H1.
  destruct (parse_string fx r) as [[name r1]| | |]; simpl in *; auto. destruct H1 as [Hok1 Hl1].
  pose proof (good_parse_string fx r1 Hok1) as H2.
  destruct (parse_string fx r1) as [[t r2]| | |]; simpl in *; auto. destruct H2 as [Hok2 Hl2].
  pose proof (good_read_u32 r2 Hok2) as H3.
  destruct (read_u32 r2) as [[bits r3]| | |]; simpl in *; auto. destruct H3 as [Hok3 Hl3].
  pose proof (Parse_ok t) as H4. destruct (Parse t) as [ti| | |]; simpl in *; auto.
  pose proof (good_read_u32 r3 Hok3) as H5.
  destruct (read_u32 r3) as [[cnt r4]| | |]; simpl in *; auto. destruct H5 as [Hok4 Hl4].
  assert (H6 : good 0 r4 (repeat_parse (parse_ioarg fx f) f cnt r4)).
  { apply good_repeat_parse with (r0 := r4); auto; try lia.
    intros r' Hok' Hl'. apply good_weaken with (d := 16%nat); [lia|]. apply IH; auto. lia. }
  destruct (repeat_parse (parse_ioarg fx f) f cnt r4) as [[comp r5]| | |]; simpl in *; auto.
  destruct H6; split; auto; lia.
Qed.

Lemma good_parse_ioargs fx fuel cnt r :
  rd_ok r -> (rlen r < fuel)%nat -> good 0 r (parse_ioargs fx fuel cnt r).
Proof.
  intros Hok Hf. unfold parse_ioargs. apply good_repeat_parse with (r0 := r); auto.
  intros r' Hok' Hl'. apply good_weaken with (d := 16%nat); [lia|]. apply good_parse_ioarg; auto. lia.
Qed.

Lemma read_byte_spec r x r' : rd_ok r -> read_byte r = Some (x, r') -> rd_ok r' /\ (rlen r' + 1 = rlen r)%nat.
Proof.
  destruct r as [rem b]. unfold rd_ok, read_byte, rlen. simpl. intros Hok.
  destruct rem as [|y t]; [discriminate|]. intros H; inversion H; subst; clear H. simpl.
  split; [|lia]. unfold nlen in *. simpl length in *.
  destruct (b =? 0) eqn:E; [|apply N.eqb_neq in E]; unfold bufsize; lia.
Qed.

(* the gate loop never runs out of fuel; it can only panic without the bound check *)
Lemma mpclc_gates_ok fx9 iw fuel : forall ng r s gate acc, rd_ok r -> (rlen r < fuel)%nat ->
  match mpclc_gates fx9 iw fuel ng r s gate acc with
  | Fuel => False | Panic => fx9 = false | _ => True end.
Proof.
  induction fuel as [|f IH]; intros ng r s gate acc Hok Hf; [lia|]. cbn [mpclc_gates].
  destruct (read_byte r) as [[opb r1]|] eqn:Hb; [|exact I].
  destruct (read_byte_spec _ _ _ Hok Hb) as [Hok1 Hl1].
  destruct (fx9 && (ng <=? gate)) eqn:Eg; [exact I|].
  destruct (op_of_code opb) as [o|]; [|exact I].
  assert (Hstep : forall n (l : list byte) r2 s' acc', good n r1 (Ok (l, r2)) ->
            match (if ng <=? gate then Panic
                   else mpclc_gates fx9 iw f ng r2 s' (gate + 1) acc') with
            | Fuel => False | Panic => fx9 = false | _ => True end).
  { intros n l r2 s' acc' [Hok2 Hl2]. destruct (ng <=? gate).
    - destruct fx9; [discriminate|reflexivity].
    - apply IH; auto. lia. }
  assert (Hchk : forall i, match check_in s i with Ok _ | Err => True | _ => False end).
  { intros i. unfold check_in. destruct (seen_get s i) as [[|]|]; exact I. }
  destruct o.
  1-4: pose proof (good_read_full 12 r1 Hok1) as H2;
       destruct (read_full 12 r1) as [[l r2]| | |]; cbn [bind]; try exact I; try (simpl in H2; contradiction);
       match goal with |- context [check_in ?ss ?i] => pose proof (Hchk i) as H3; destruct (check_in ss i) end;
       cbn [bind]; try exact I; try contradiction;
       match goal with |- context [check_in ?ss ?i] => pose proof (Hchk i) as H4; destruct (check_in ss i) end;
       cbn [bind]; try exact I; try contradiction;
       destruct (seen_set_chk iw s _) as [s'|]; try exact I;
       apply (Hstep 12%nat l); exact H2.
  pose proof (good_read_full 8 r1 Hok1) as H2.
  destruct (read_full 8 r1) as [[l r2]| | |]; cbn [bind]; try exact I; try (simpl in H2; contradiction).
  match goal with |- context [check_in ?ss ?i] => pose proof (Hchk i) as H3; destruct (check_in ss i) end;
    cbn [bind]; try exact I; try contradiction.
  destruct (seen_set_chk iw s _) as [s'|]; try exact I.
  apply (Hstep 8%nat l); exact H2.
Qed.

Lemma rd_ok_init bs : rd_ok (bs, 0).
Proof. unfold rd_ok. simpl. lia. Qed.

(* totality and crash classification of ParseMPCLC (all four variants) *)
Lemma parse_mpclc_class fx9 fx10 bs :
  match parse_mpclc fx9 fx10 bs with Fuel => False | Panic => fx9 = false | _ => True end.
Proof.
  unfold parse_mpclc.
  pose proof (good_read_full 20 (bs, 0) (rd_ok_init bs)) as H1.
  destruct (read_full 20 (bs, 0)) as [[h r1]| | |]; cbn [bind]; try exact I; try (simpl in H1; contradiction).
  destruct H1 as [Hok1 Hl1]. unfold rlen in Hl1 at 2. simpl in Hl1.
  match goal with |- context [parse_ioargs fx10 ?f ?c r1] =>
    pose proof (good_parse_ioargs fx10 f c r1 Hok1 ltac:(lia)) as H2; destruct (parse_ioargs fx10 f c r1) as [[ins r2]| | |] end;
    cbn [bind]; try exact I; try (simpl in H2; contradiction).
  destruct H2 as [Hok2 Hl2].
  match goal with |- context [parse_ioargs fx10 ?f ?c r2] =>
    pose proof (good_parse_ioargs fx10 f c r2 Hok2 ltac:(lia)) as H3; destruct (parse_ioargs fx10 f c r2) as [[outs r3]| | |] end;
    cbn [bind]; try exact I; try (simpl in H3; contradiction).
  destruct H3 as [Hok3 Hl3].
  destruct (mark_inputs _ _) as [s0|]; [|exact I].
  match goal with |- context [mpclc_gates fx9 ?iw ?f ?ng r3 s0 0 []] =>
    pose proof (mpclc_gates_ok fx9 iw f ng r3 s0 0 [] Hok3 ltac:(lia)) as H4;
    destruct (mpclc_gates fx9 iw f ng r3 s0 0 []) as [[[gs s] gate]| | |] end; cbn [bind]; auto.
  destruct (negb _); [exact I|]. destruct (negb _); exact I.
Qed.

Lemma mpclc_total fx9 fx10 bs : parse_mpclc fx9 fx10 bs <> Fuel.
Proof. intros E. pose proof (parse_mpclc_class fx9 fx10 bs) as H. rewrite E in H. exact H. Qed.

Lemma mpclc_no_panic fx10 bs : parse_mpclc true fx10 bs <> Panic.
Proof. intros E. pose proof (parse_mpclc_class true fx10 bs) as H. rewrite E in H. discriminate. Qed.

(* F9: witness *)
Definition f9_witness : list byte :=
  be32 (Z.to_N circuit_MAGIC) ++ be32 0 ++ be32 2 ++ be32 1 ++ be32 0 ++
  be32 0 ++ be32 2 ++ [117; 49] ++ be32 1 ++ be32 0 ++
  [0] ++ be32 0 ++ be32 0 ++ be32 1.

(* regression record: before commit 99bac0d the parser crashed on this file *)
Lemma mpclc_prefix_no_panic_refuted : exists bs, ParseMPCLC_prefix bs = Panic.
Proof. exists f9_witness. vm_compute. reflexivity. Qed.

Example f9_witness_now : ParseMPCLC f9_witness = Err.
Proof. vm_compute. reflexivity. Qed.

(* ================================================================== *)
(* 3. soundness of an Ok result *)

(* every gate input is < nw and defined (an input wire or the output of an earlier gate);
   every gate output is < nw *)
Fixpoint dbu (nw : N) (def : N -> Prop) (gs : list gateN) : Prop :=
  match gs with
  | [] => True
  | g :: t =>
      g_in0 g < nw /\ def (g_in0 g) /\ (g_op g <> INV -> g_in1 g < nw /\ def (g_in1 g)) /\ g_out g < nw /\
      dbu nw (fun w => def w \/ w = g_out g) t
  end.
Definition defs (def : N -> Prop) (gs : list gateN) (w : N) : Prop :=
  def w \/ exists g, In g gs /\ g_out g = w.

(* no gate writes an input wire (commit 407ba55) *)
Definition no_input_overwrite (iw : Z) (gs : list gateN) : Prop :=
  Forall (fun g => (iw <= Z.of_N (g_out g))%Z) gs.

Definition parse_sound (c : fcircuit) : Prop :=
  let nw := Z.to_N (c_numwires c) in
  let def := fun w => (Z.of_N w < io_size (c_inputs c))%Z in
  (0 <= c_numwires c)%Z /\ (io_size (c_inputs c) <= c_numwires c)%Z /\
  Z.of_nat (length (c_gates c)) = c_numgates c /\
  dbu nw def (c_gates c) /\
  (forall w, w < nw -> defs def (c_gates c) w) /\
  no_input_overwrite (io_size (c_inputs c)) (c_gates c).

Definition smem (s : seen) (w : N) : bool := PositiveSet.mem (N.succ_pos w) (s_set s).

Lemma succ_pos_inj a b : N.succ_pos a = N.succ_pos b -> a = b.
Proof. intros H. apply (f_equal Npos) in H. rewrite !N.succ_pos_spec in H. lia. Qed.

Lemma smem_add s o w : PositiveSet.mem (N.succ_pos w) (PositiveSet.add (N.succ_pos o) (s_set s)) = true <->
                       (smem s w = true \/ w = o).
Proof.
  unfold smem. rewrite !PositiveSet.mem_spec, PositiveSet.add_spec. split.
  - intros [H|H]; [right; apply succ_pos_inj; exact H|left; exact H].
  - intros [H|H]; [right; exact H|left; subst; reflexivity].
Qed.

Lemma check_in_ok s i x : check_in s i = Ok x -> i < s_len s /\ smem s i = true.
Proof.
  unfold check_in, seen_get, smem. destruct (s_len s <=? i) eqn:E; [discriminate|].
  apply N.leb_gt in E. destruct (PositiveSet.mem _ _); [auto|discriminate].
Qed.

Lemma seen_set_ok s o s' : seen_set s o = Some s' ->
  o < s_len s /\ s_len s' = s_len s /\ forall w, smem s' w = true <-> (smem s w = true \/ w = o).
Proof.
  unfold seen_set. destruct (s_len s <=? o) eqn:E; [discriminate|]. apply N.leb_gt in E.
  intros H; inversion H; subst; clear H. simpl. repeat split; auto; apply smem_add.
Qed.

Lemma defs_cons def g t w : defs def (g :: t) w <-> defs (fun w => def w \/ w = g_out g) t w.
Proof.
  unfold defs. simpl. split.
  - intros [H|(g' & [<-|Hin] & E)]; [left; left; auto|left; right; auto|right; exists g'; auto].
  - intros [[H|H]|(g' & Hin & E)]; [left; auto|right; exists g; auto|right; exists g'; auto].
Qed.

Lemma seen_set_chk_some iw s o s' : seen_set_chk iw s o = Some s' ->
  seen_set s o = Some s' /\ (iw <= Z.of_N o)%Z.
Proof.
  unfold seen_set_chk. destruct (Z.of_N o <? iw)%Z eqn:E; [discriminate|]. apply Z.ltb_ge in E. auto.
Qed.

Lemma mpclc_gates_sound fx9 iw fuel : forall ng r s gate acc gs s' n,
  mpclc_gates fx9 iw fuel ng r s gate acc = Ok (gs, s', n) ->
  exists new, gs = rev acc ++ new /\ n = gate + nlen new /\ s_len s' = s_len s /\
    no_input_overwrite iw new /\
    forall def : N -> Prop, (forall w, smem s w = true <-> def w) ->
      dbu (s_len s) def new /\ (forall w, smem s' w = true <-> defs def new w).
Proof.
  induction fuel as [|f IH]; intros ng r s gate acc gs s' n; [discriminate|]. cbn [mpclc_gates].
  destruct (read_byte r) as [[opb r1]|].
  2:{ intros H; inversion H; subst. exists []. rewrite app_nil_r.
      split; [reflexivity|]. split; [unfold nlen; simpl; lia|]. split; [reflexivity|]. split; [constructor|].
      intros def H0. split; [exact I|]. intros w. split.
      - intros Hw. unfold defs. left. apply H0; auto.
      - intros [Hd|(g & [] & _)]. apply H0; auto. }
  destruct (fx9 && (ng <=? gate)); [discriminate|].
  destruct (op_of_code opb) as [o|]; [|discriminate].
  assert (Hstep : forall g r2 s1,
            (g_in0 g < s_len s /\ smem s (g_in0 g) = true) ->
            (g_op g <> INV -> g_in1 g < s_len s /\ smem s (g_in1 g) = true) ->
            seen_set_chk iw s (g_out g) = Some s1 ->
            (if ng <=? gate then Panic
             else mpclc_gates fx9 iw f ng r2 s1 (gate + 1) (g :: acc)) = Ok (gs, s', n) ->
            exists new, gs = rev acc ++ new /\ n = gate + nlen new /\ s_len s' = s_len s /\
              no_input_overwrite iw new /\
              forall def : N -> Prop, (forall w, smem s w = true <-> def w) ->
                dbu (s_len s) def new /\ (forall w, smem s' w = true <-> defs def new w)).
  { intros g r2 s1 H0 H1 Hchk. destruct (seen_set_chk_some _ _ _ _ Hchk) as [Hset Hiw].
    destruct (seen_set_ok _ _ _ Hset) as (Ho & Hlen & Hmem).
    destruct (ng <=? gate); [discriminate|]. intros H.
    destruct (IH _ _ _ _ _ _ _ _ H) as (new & -> & -> & Hl & Hnio & Hinv).
    exists (g :: new). split; [simpl rev; rewrite <- app_assoc; reflexivity|].
    split; [unfold nlen; simpl length; lia|]. split; [congruence|]. split; [constructor; assumption|].
    intros def H2. destruct (Hinv (fun w => def w \/ w = g_out g)) as [Hd Hm].
    { intros w. rewrite Hmem. rewrite H2. reflexivity. }
    split.
    - rewrite Hlen in Hd. simpl. repeat split; auto;
        first [ apply H0 | apply H2, H0 | apply H1; assumption | apply H2, H1; assumption ].
    - intros w. rewrite defs_cons. apply Hm. }
  destruct o.
  1-4: destruct (read_full 12 r1) as [[l r2]| | |]; cbn [bind]; try discriminate;
       match goal with |- context [check_in ?ss ?i] => destruct (check_in ss i) eqn:E1 end; cbn [bind]; try discriminate;
       match goal with |- context [bind (check_in ?ss ?i)] => destruct (check_in ss i) eqn:E2 end; cbn [bind]; try discriminate;
       match goal with |- context [seen_set_chk ?ii ?ss ?o] => destruct (seen_set_chk ii ss o) as [s1|] eqn:E3 end; try discriminate;
       match goal with |- context [mpclc_gates _ _ _ _ _ _ _ (?g :: _)] => apply (Hstep g r2 s1) end; simpl;
       [ apply (check_in_ok _ _ _ E1) | intros _; apply (check_in_ok _ _ _ E2) | exact E3 ].
  destruct (read_full 8 r1) as [[l r2]| | |]; cbn [bind]; try discriminate.
  match goal with |- context [check_in ?ss ?i] => destruct (check_in ss i) eqn:E1 end; cbn [bind]; try discriminate.
  match goal with |- context [seen_set_chk ?ii ?ss ?o] => destruct (seen_set_chk ii ss o) as [s1|] eqn:E3 end; try discriminate.
  match goal with |- context [mpclc_gates _ _ _ _ _ _ _ (?g :: _)] => apply (Hstep g r2 s1) end; simpl;
    [ apply (check_in_ok _ _ _ E1) | intros C; exfalso; apply C; reflexivity | exact E3 ].
Qed.

Lemma nrange_In n : forall start w, In w (nrange start n) <-> start <= w < start + N.of_nat n.
Proof.
  induction n as [|k IH]; intros start w; simpl.
  - lia.
  - rewrite IH. lia.
Qed.

Lemma fold_add_mem l : forall st w,
  PositiveSet.mem (N.succ_pos w) (fold_left (fun st i => PositiveSet.add (N.succ_pos i) st) l st) = true
  <-> (In w l \/ PositiveSet.mem (N.succ_pos w) st = true).
Proof.
  induction l as [|x t IH]; intros st w; simpl.
  - tauto.
  - rewrite IH. rewrite !PositiveSet.mem_spec, PositiveSet.add_spec. split.
    + intros [H|[H|H]]; auto. apply succ_pos_inj in H. auto.
    + intros [[H|H]|H]; auto. subst. auto.
Qed.

Lemma mark_inputs_ok nw iw s0 : mark_inputs (mkSeen nw PositiveSet.empty) iw = Some s0 ->
  s_len s0 = nw /\ (iw <= Z.of_N nw)%Z /\ forall w, smem s0 w = true <-> (Z.of_N w < iw)%Z.
Proof.
  unfold mark_inputs. simpl. destruct (Z.of_N nw <? iw)%Z eqn:E; [discriminate|]. apply Z.ltb_ge in E.
  intros H; inversion H; subst; clear H. simpl. repeat split; auto.
  - unfold smem. simpl. rewrite fold_add_mem, nrange_In. intros [Hr|Hm]; [lia|].
    apply PositiveSet.mem_spec in Hm. exfalso. revert Hm. apply PositiveSet.empty_spec.
  - unfold smem. simpl. rewrite fold_add_mem, nrange_In. intros Hw. left. lia.
Qed.

Lemma all_seen_ok s : all_seen s = true -> forall w, w < s_len s -> smem s w = true.
Proof.
  unfold all_seen. rewrite forallb_forall. intros H w Hw. apply H. apply nrange_In. lia.
Qed.

Theorem mpclc_sound fx9 fx10 bs c : parse_mpclc fx9 fx10 bs = Ok c -> parse_sound c.
Proof.
  unfold parse_mpclc.
  destruct (read_full 20 (bs, 0)) as [[h r1]| | |]; cbn [bind]; try discriminate.
  cbv zeta.
  set (ng := of_be32 (firstn 4 (skipn 4 h))). set (nw := of_be32 (firstn 4 (skipn 8 h))).
  destruct (parse_ioargs fx10 _ _ r1) as [[ins r2]| | |]; cbn [bind]; try discriminate.
  destruct (parse_ioargs fx10 _ _ r2) as [[outs r3]| | |]; cbn [bind]; try discriminate.
  destruct (mark_inputs _ _) as [s0|] eqn:Em; [|discriminate].
  destruct (mark_inputs_ok _ _ _ Em) as (Hl0 & Hiw & Hm0).
  destruct (mpclc_gates fx9 _ _ _ r3 s0 0 []) as [[[gs s] gate]| | |] eqn:Eg; cbn [bind]; try discriminate.
  destruct (mpclc_gates_sound _ _ _ _ _ _ _ _ _ _ _ Eg) as (new & -> & -> & Hl & Hnio & Hinv).
  destruct (negb (0 + nlen new =? _)) eqn:E1; [discriminate|].
  destruct (negb (all_seen s)) eqn:E2; [discriminate|].
  apply negb_false_iff in E1, E2. apply N.eqb_eq in E1.
  intros H; inversion H; subst c; clear H. unfold parse_sound. cbn [c_numwires c_numgates c_inputs c_gates].
  destruct (Hinv (fun w => (Z.of_N w < io_size ins)%Z) Hm0) as [Hd Hm].
  rewrite N2Z.id. rewrite Hl0 in *. repeat split.
  - lia.
  - exact Hiw.
  - rewrite <- E1. unfold nlen. simpl. lia.
  - exact Hd.
  - intros w Hw. apply Hm. apply all_seen_ok; auto. rewrite Hl. exact Hw.
  - exact Hnio.
Qed.

(* ================================================================== *)
(* F10: a circuit whose first input name is longer than what bufio has buffered.  With
   io.ReadFull in parseString the file parses back to exactly the circuit; the code as it is
   (one Read) rejects its own output. *)
Definition uint1 : info := mkInfo types_TUint true 1 1 [] None 0.
Definition f10_circuit : fcircuit :=
  mkFC 1 2 [mkIO (zeros 5000) uint1 []] [mkIO [] uint1 []] [mkG INV 0 0 1].

(* regression record: before commit dace4fa the parser rejected its own output *)
Lemma mpclc_prefix_roundtrip_refuted :
  exists c, ParseMPCLC (Marshal c) = Ok c /\ ParseMPCLC_prefix (Marshal c) = Err.
Proof. exists f10_circuit. split; vm_compute; reflexivity. Qed.

(* non-vacuity: a small circuit with all gate kinds and compound I/O round-trips in both formats *)
Definition ex_circuit : fcircuit :=
  mkFC 5 8
    [mkIO [97] (mkInfo types_TStruct true 2 2 [uint1; uint1] None 0) [mkIO [120] uint1 []; mkIO [] uint1 []];
     mkIO [] (mkInfo types_TArray true 1 1 [] (Some uint1) 1) []]
    [mkIO [114] (mkInfo types_TUint true 2 2 [] None 0) []]
    [mkG XOR 0 1 3; mkG AND 3 2 4; mkG OR 4 0 5; mkG INV 5 0 6; mkG XNOR 6 5 7].

Example ex_mpclc_roundtrip :
  match ParseMPCLC (Marshal ex_circuit) with
  | Ok c => Marshal c = Marshal ex_circuit /\ c_gates c = c_gates ex_circuit
  | _ => False end.
Proof. vm_compute. split; reflexivity. Qed.

Example ex_bristol_roundtrip :
  match ParseBristol (MarshalBristol ex_circuit) with
  | Ok c => MarshalBristol c = MarshalBristol ex_circuit /\ c_gates c = c_gates ex_circuit
  | _ => False end.
Proof. vm_compute. split; reflexivity. Qed.

(* ================================================================== *)
(* ParseBristol never indexes out of range *)

Lemma ltrim_head ulen fuel : forall l, (length l <= fuel)%nat ->
  match ltrim_gen ulen fuel l with [] => True | x :: _ => ascii_space x = false end.
Proof.
  induction fuel as [|f IH]; intros l Hl.
  - destruct l; simpl in *; [exact I|lia].
  - destruct l as [|x t]; simpl; [exact I|]. destruct (ascii_space x) eqn:E.
    + apply IH. simpl in Hl. lia.
    + destruct (ulen (x :: t)) as [|k] eqn:Eu; [exact E|].
      apply IH. rewrite skipn_length. simpl in *. lia.
Qed.

Lemma fields_aux_nonempty l : forall cur,
  (cur <> [] \/ exists y, In y l /\ ascii_space y = false) -> fields_aux l cur <> [].
Proof.
  induction l as [|x t IH]; intros cur H; simpl.
  - destruct H as [H|(y & [] & _)]. destruct cur; [congruence|discriminate].
  - destruct (ascii_space x) eqn:E.
    + destruct cur; [|discriminate]. apply IH. right.
      destruct H as [H|(y & [Hx|Hy] & Hs)]; [exfalso; apply H; reflexivity|subst; rewrite E in Hs; discriminate|eauto].
    + apply IH. left. discriminate.
Qed.

Lemma trim_fields_nonempty l : trim_space l <> [] -> fields (trim_space l) <> [].
Proof.
  unfold trim_space, fields. set (l1 := ltrim_gen uspace_len (length l) l).
  pose proof (ltrim_head uspace_len_rev (length (rev l1)) (rev l1) (le_n _)) as H.
  rewrite rev_length in H. destruct (ltrim_gen uspace_len_rev (length l1) (rev l1)) as [|x t]; [simpl; intros C; exfalso; apply C; reflexivity|].
  intros _. apply fields_aux_nonempty. right. exists x. split; auto.
  apply in_rev. rewrite rev_involutive. left; reflexivity.
Qed.

Lemma bristol_lines_nonempty bs : Forall (fun l => l <> []) (bristol_lines bs).
Proof.
  unfold bristol_lines. apply Forall_forall. intros fs Hin.
  apply in_map_iff in Hin. destruct Hin as (l & <- & Hl). apply filter_In in Hl. destruct Hl as [Hl Hne].
  apply in_map_iff in Hl. destruct Hl as (raw & <- & _).
  apply trim_fields_nonempty. destruct (trim_space raw); [discriminate|discriminate].
Qed.

Lemma bristol_ins_np line : forall n base s, (base + n <= length line)%nat -> ok_or_err (bristol_ins line base n s).
Proof.
  induction n as [|k IH]; intros base s H; simpl; [exact I|].
  destruct (nth_error line base) as [f|] eqn:E.
  2:{ apply nth_error_None in E. lia. }
  destruct (parse_uint32 f); [|exact I].
  destruct (check_in s n) as [[]| | |] eqn:Ec; simpl; try exact I;
    try (unfold check_in in Ec; destruct (seen_get s n) as [[|]|]; discriminate).
  specialize (IH (S base) s ltac:(lia)). destruct (bristol_ins line (S base) k s); simpl in *; auto.
Qed.

Lemma bristol_outs_np iw line : forall n base s, (base + n <= length line)%nat -> ok_or_err (bristol_outs iw line base n s).
Proof.
  induction n as [|k IH]; intros base s H; simpl; [exact I|].
  destruct (nth_error line base) as [f|] eqn:E.
  2:{ apply nth_error_None in E. lia. }
  destruct (parse_uint32 f); [|exact I]. destruct (seen_set_chk iw s n) as [s'|]; [|exact I].
  specialize (IH (S base) s' ltac:(lia)). destruct (bristol_outs iw line (S base) k s') as [[l s'']| | |]; simpl in *; auto.
Qed.

Lemma bristol_gate_line_np iw line s : ok_or_err (bristol_gate_line iw line s).
Proof.
  unfold bristol_gate_line. destruct (length line <? 3)%nat eqn:El; [exact I|]. apply Nat.ltb_ge in El.
  destruct (nth_error line 0) as [f0|] eqn:E0. 2:{ apply nth_error_None in E0. lia. }
  destruct (nth_error line 1) as [f1|] eqn:E1. 2:{ apply nth_error_None in E1. lia. }
  destruct (atoi f0) as [n1|]; [|exact I]. destruct (atoi f1) as [n2|]; [|exact I].
  destruct ((n1 <? 0)%Z || (n2 <? 0)%Z) eqn:Eneg; [exact I|].
  apply orb_false_iff in Eneg. destruct Eneg as [Hn1 Hn2]. apply Z.ltb_ge in Hn1, Hn2.
  destruct (negb (2 + n1 + n2 + 1 =? Z.of_nat (length line))%Z) eqn:Ecnt; [exact I|].
  apply negb_false_iff, Z.eqb_eq in Ecnt.
  assert (Hb1 : (2 + Z.to_nat n1 <= length line)%nat) by lia.
  assert (Hb2 : (2 + Z.to_nat n1 + Z.to_nat n2 <= length line)%nat) by lia.
  pose proof (bristol_ins_np line (Z.to_nat n1) 2%nat s Hb1) as Hi.
  destruct (bristol_ins line 2 (Z.to_nat n1) s) as [ins| | |]; cbn [bind]; try exact I; try contradiction.
  pose proof (bristol_outs_np iw line (Z.to_nat n2) (2 + Z.to_nat n1)%nat s Hb2) as Ho.
  destruct (bristol_outs iw line (2 + Z.to_nat n1) (Z.to_nat n2) s) as [[outs s']| | |]; cbn [bind]; try exact I; try contradiction.
  destruct (op_of_name (last line [])) as [o|]; [|exact I].
  destruct ins as [|i0 rest]; [destruct o; exact I|].
  destruct (negb _); [exact I|]. destruct outs as [|o1 ?]; [exact I|]. destruct (negb _); exact I.
Qed.

Lemma bristol_gates_np iw ng lines : forall s gate, ok_or_err (bristol_gates iw ng lines s gate).
Proof.
  induction lines as [|line rest IH]; intros s gate; simpl; [exact I|].
  destruct (ng <=? gate)%Z; [exact I|].
  pose proof (bristol_gate_line_np iw line s) as H. destruct (bristol_gate_line iw line s) as [[g s']| | |]; simpl in *; auto.
  specialize (IH s' (gate + 1)%Z). destruct (bristol_gates iw ng rest s' (gate + 1)%Z) as [[[gs s''] n]| | |]; simpl in *; auto.
Qed.

Lemma bristol_io_np pre fs : forall i, ok_or_err (bristol_io pre i fs).
Proof.
  induction fs as [|f t IH]; intros i; simpl; [exact I|].
  destruct (parse_int32 f) as [b|]; [|exact I]. destruct (b <? 0)%Z; [exact I|].
  specialize (IH (S i)). destruct (bristol_io pre (S i) t); simpl in *; auto.
Qed.

Theorem bristol_total bs : ok_or_err (ParseBristol bs).
Proof.
  unfold ParseBristol. pose proof (bristol_lines_nonempty bs) as Hne.
  destruct (bristol_lines bs) as [|l1 rest1]; [exact I|].
  destruct l1 as [|f0 [|f1 [|? ?]]]; try exact I.
  destruct (atoi f0) as [ng|]; [|exact I]. destruct (_ || _); [exact I|].
  destruct (atoi f1) as [nw|]; [|exact I]. destruct (_ || _); [exact I|].
  destruct rest1 as [|l2 rest2]; [exact I|].
  inversion Hne as [|? ? _ Hne1]; subst. inversion Hne1 as [|? ? Hl2 Hne2]; subst.
  destruct l2 as [|g0 gt]; [congruence|].
  destruct (atoi g0) as [niv|]; [|exact I]. destruct (negb _); [exact I|].
  pose proof (bristol_io_np [78; 73] gt 1) as Hi. destruct (bristol_io [78; 73] 1 gt) as [ins| | |]; simpl in *; auto.
  destruct (io_size ins =? 0)%Z; [exact I|]. destruct (mark_inputs _ _) as [s0|]; [|exact I].
  destruct rest2 as [|l3 rest3]; [exact I|]. inversion Hne2 as [|? ? Hl3 _]; subst.
  destruct l3 as [|h0 ht]; [congruence|].
  destruct (atoi h0) as [nov|]; [|exact I]. destruct (negb _); [exact I|].
  pose proof (bristol_io_np [78; 79] ht 1) as Ho. destruct (bristol_io [78; 79] 1 ht) as [outs| | |]; simpl in *; auto.
  pose proof (bristol_gates_np (io_size ins) ng rest3 s0 0%Z) as Hg.
  destruct (bristol_gates (io_size ins) ng rest3 s0 0%Z) as [[[gs s] gate]| | |]; simpl in *; auto.
  destruct (negb _); [exact I|]. destruct (negb _); exact I.
Qed.

Lemma mpclc_ok_or_err bs : ok_or_err (ParseMPCLC bs).
Proof.
  pose proof (parse_mpclc_class true true bs) as H. unfold ParseMPCLC.
  destruct (parse_mpclc true true bs); simpl; auto. discriminate.
Qed.
