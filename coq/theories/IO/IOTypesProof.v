(* IO/IOTypesProof.v — the text form of an argument type denotes the type
   (property C13; uses the type-text round trip of IO/MarshalRoundTrip.v). *)
From Coq Require Import ZArith NArith List Bool Lia.
From Mpc Require Import Gen.Consts IO.IOArg IO.IOArgProof IO.IOTypes.
From Mpc Require IO.Marshal IO.MarshalRoundTrip.
Import ListNotations.
Open Scope Z_scope.

(* what types.Parse gives back for the text of a type: a slice type written
   "[]T" carries no length (it is taken from the value: Parse sets count from
   the literal, InstantiateWithSizes from the size) *)
Fixpoint reparsed (t : ty) : ty :=
  match t with
  | TyArray e n => TyArray (reparsed e) n
  | TySlice e _ => TySlice (reparsed e) 0
  | _ => t
  end.

(* types whose text types.Parse reads: no struct members (a struct type is
   written "struct<bits>", without its fields), widths / lengths / total
   widths within int32 *)
Fixpoint text_ok (t : ty) : Prop :=
  match t with
  | TyBool => True
  | TyInt b | TyUint b | TyString b => Z.of_nat b < 2147483648
  | TyArray e n => text_ok e /\ Z.of_nat n < 2147483648 /\ Z.of_nat (n * bits_of (reparsed e)) < 2147483648
  | TySlice e _ => text_ok e
  | TyStruct _ => False
  end.

Fixpoint slice_free (t : ty) : Prop :=
  match t with
  | TyArray e _ => slice_free e
  | TySlice _ _ => False
  | _ => True
  end.

Lemma reparsed_slice_free t : slice_free t -> reparsed t = t.
Proof.
  induction t as [| b | b | b | e IH n | e IH n | fs]; simpl; intros H; try reflexivity; try contradiction.
  rewrite IH by exact H. reflexivity.
Qed.

Lemma wrap32_small z : 0 <= z < 2147483648 -> Marshal.wrap32 z = z.
Proof. intros H. unfold Marshal.wrap32. rewrite Z.mod_small by lia. lia. Qed.

Lemma printable_info_of t : text_ok t -> MarshalRoundTrip.printable (to_minfo (info_of t)).
Proof.
  induction t as [| b | b | b | e IH n | e IH n | fs]; simpl; intros H; try contradiction.
  - apply MarshalRoundTrip.pr_base; [left; reflexivity | reflexivity | lia].
  - apply MarshalRoundTrip.pr_base; [right; left; reflexivity | reflexivity | lia].
  - apply MarshalRoundTrip.pr_base; [right; right; left; reflexivity | reflexivity | lia].
  - apply MarshalRoundTrip.pr_base; [right; right; right; left; reflexivity | reflexivity | lia].
  - destruct H as (He & Hn & _). apply MarshalRoundTrip.pr_array; [apply IH; exact He | lia].
  - apply MarshalRoundTrip.pr_slice. apply IH. exact H.
Qed.

Lemma strip_bits t : text_ok t ->
  Marshal.i_bits (MarshalRoundTrip.strip (to_minfo (info_of t))) = Z.of_nat (bits_of (reparsed t)).
Proof.
  induction t as [| b | b | b | e IH n | e IH n | fs]; simpl; intros H; try contradiction; try reflexivity.
  - destruct H as (He & Hn & Hb).
    change (MarshalRoundTrip.strip (to_minfo (info_of (TyArray e n))))
      with (let e' := MarshalRoundTrip.strip (to_minfo (info_of e)) in
            Marshal.mkInfo types_TArray true (Marshal.wrap32 (Z.of_nat n * Marshal.i_bits e'))
                           (Marshal.wrap32 (Z.of_nat n * Marshal.i_bits e')) [] (Some e') (Z.of_nat n)).
    cbn [Marshal.i_bits]. rewrite (IH He). rewrite <- Nat2Z.inj_mul. apply wrap32_small. lia.
Qed.

Lemma strip_info_of t : text_ok t ->
  of_minfo (MarshalRoundTrip.strip (to_minfo (info_of t))) = info_of (reparsed t).
Proof.
  induction t as [| b | b | b | e IH n | e IH n | fs]; simpl; intros H; try contradiction.
  - reflexivity.
  - cbn. rewrite Nat2Z.id. reflexivity.
  - cbn. rewrite Nat2Z.id. reflexivity.
  - cbn. rewrite Nat2Z.id. reflexivity.
  - destruct H as (He & Hn & Hb).
    change (MarshalRoundTrip.strip (to_minfo (info_of (TyArray e n))))
      with (let e' := MarshalRoundTrip.strip (to_minfo (info_of e)) in
            Marshal.mkInfo types_TArray true (Marshal.wrap32 (Z.of_nat n * Marshal.i_bits e'))
                           (Marshal.wrap32 (Z.of_nat n * Marshal.i_bits e')) [] (Some e') (Z.of_nat n)).
    cbn [of_minfo map]. rewrite (IH He), (strip_bits e He), <- Nat2Z.inj_mul, wrap32_small by lia.
    rewrite !Nat2Z.id. reflexivity.
  - change (MarshalRoundTrip.strip (to_minfo (info_of (TySlice e n))))
      with (Marshal.mkInfo types_TSlice true 0 0 [] (Some (MarshalRoundTrip.strip (to_minfo (info_of e)))) 0).
    cbn [of_minfo map]. rewrite (IH H). reflexivity.
Qed.

(* every type without struct members, widths within int32: types.Parse of the
   text Info.String prints for it is the type again (a slice without its length) *)
Lemma types_parse_text t : text_ok t -> types_parse (info_text (info_of t)) = Ok (info_of (reparsed t)).
Proof.
  intros H. unfold types_parse, info_text.
  destruct (MarshalRoundTrip.type_roundtrip _ (printable_info_of t H)) as [E _]. rewrite E.
  rewrite (strip_info_of t H). reflexivity.
Qed.

(* … so for array / scalar types the IOArg built from the text is the IOArg
   the codec theorems are about *)
Lemma types_parse_text_exact t : text_ok t -> slice_free t ->
  types_parse (info_text (info_of t)) = Ok (info_of t).
Proof. intros H Hs. rewrite (types_parse_text t H), (reparsed_slice_free t Hs). reflexivity. Qed.

(* the text is stable: printing the parsed type gives the same text *)
Lemma info_text_reparsed t : text_ok t -> info_text (info_of (reparsed t)) = info_text (info_of t).
Proof.
  induction t as [| b | b | b | e IH n | e IH n | fs]; simpl; intros H; try contradiction; try reflexivity.
  - destruct H as (He & _). unfold info_text in *. cbn [to_minfo info_of Marshal.info_string].
    change (types_TArray =? types_TArray) with true. cbv iota. rewrite (IH He). reflexivity.
  - unfold info_text in *. cbn [to_minfo info_of Marshal.info_string].
    change (types_TSlice =? types_TArray) with false. change (types_TSlice =? types_TSlice) with true. cbv iota.
    rewrite (IH H). reflexivity.
Qed.

Definition str_of (l : list Z) : list N := map Z.to_N l.

(* non-vacuity and reading aid: [3]int16 and []uint8 *)
Example ex_text_array :
  text_ok (TyArray (TyInt 16) 3) /\
  info_text (info_of (TyArray (TyInt 16) 3)) = str_of [91; 51; 93; 105; 110; 116; 49; 54] /\      (* "[3]int16" *)
  types_parse (str_of [91; 51; 93; 105; 49; 54]) = Ok (info_of (TyArray (TyInt 16) 3)).           (* "[3]i16" *)
Proof. split; [simpl; lia|]. split; vm_compute; reflexivity. Qed.

Example ex_text_slice :
  info_text (info_of (TySlice (TyUint 8) 5)) = str_of [91; 93; 117; 105; 110; 116; 56] /\          (* "[]uint8" *)
  types_parse (str_of [91; 93; 117; 105; 110; 116; 56]) = Ok (info_of (TySlice (TyUint 8) 0)).
Proof. split; vm_compute; reflexivity. Qed.
