(* Sha2pcInstProof.v — the cryptographic parameters of the sha2pc round model
   (IO/Sha2pcCodec.v) instantiated with the garbling model of C01
   (Circuit/Garble.v) and the Chou-Orlandi OT model of C06 (OT/Co.v); the
   hypotheses garbled_eval_correct and co_ot_correct of protocol_correct are
   discharged by Circuit.GarbleProof.garble_decoded_outputs and
   OT.CoProof.co_correct.  What remains: the group laws co_correct itself
   needs, well-formedness and the input/output counts of the embedded circuit
   (checked by ParseMPCLC and by init() of sha2pc/params.go), and
   circuit_computes_sha256xor. *)
From Coq Require Import ZArith NArith List Bool Arith Lia.
From Mpc Require Import Gen.Consts Base.Label Base.Codec Base.CodecProof Circuit.Circuit Circuit.Garble
     Circuit.GarbleProof Proto.Session Proto.SessionProof OT.Co OT.CoProof IO.Sha2pcCodec IO.Sha2pcProof.
Import ListNotations.
Open Scope N_scope.

Definition wire_of (p : N * N) : wire := mkWire (fst p) (snd p).
Definition pair_of (w : wire) : N * N := (L0 w, L1 w).

Lemma wire_of_pair_of w : wire_of (pair_of w) = w.
Proof. destruct w; reflexivity. Qed.

Lemma pick2_pick p b : pick2 p b = pick (wire_of p) b.
Proof. destruct b; reflexivity. Qed.

Lemma map_pick_combine_wire_of : forall (ps : list (N * N)) (bs : list bool),
  map (fun p => pick (fst p) (snd p)) (combine (map wire_of ps) bs)
  = map (fun p => pick2 (fst p) (snd p)) (combine ps bs).
Proof.
  induction ps as [|p ps IH]; intros [|b bs]; try reflexivity.
  cbn [map combine fst snd]. rewrite IH, pick2_pick. reflexivity.
Qed.

Lemma map_pick2_combine_pair_of : forall (ws : list wire) (bs : list bool),
  map (fun p => pick2 (fst p) (snd p)) (combine (map pair_of ws) bs)
  = map (fun p => pick (fst p) (snd p)) (combine ws bs).
Proof.
  intros ws bs. rewrite <- map_pick_combine_wire_of, map_map.
  rewrite (map_ext _ (fun w => w) wire_of_pair_of), map_id. reflexivity.
Qed.

(* ciphertext rows a gate contributes: sha2pc/params.go gateCiphertextCount *)
Definition rows_of (g : gate) : nat :=
  match gop g with XOR | XNOR => 0 | AND => 2 | OR => 3 | INV => 1 end%nat.

Lemma mapi_from_length {A B} (f : nat -> A -> B) : forall l i, length (mapi_from f i l) = length l.
Proof. induction l as [|x l IH]; intros i; cbn; [reflexivity|]. rewrite IH. reflexivity. Qed.

Lemma garble_gate_rows pi r gw id g :
  let '(_, _, row) := garble_gate pi r gw id g in length row = rows_of g.
Proof.
  unfold garble_gate, rows_of. destruct (gop g); cbv zeta; try reflexivity.
  - unfold mapi. match goal with |- length (tl ?l) = _ => assert (H : length l = 4%nat) end.
    { rewrite mapi_from_length, !upd_length. reflexivity. }
    match goal with |- length (tl ?l) = _ => destruct l as [|? ?] end; [discriminate|]. cbn in *. lia.
  - unfold mapi. match goal with |- length (tl ?l) = _ => assert (H : length l = 2%nat) end.
    { rewrite mapi_from_length, !upd_length. reflexivity. }
    match goal with |- length (tl ?l) = _ => destruct l as [|? ?] end; [discriminate|]. cbn in *. lia.
Qed.

Lemma garble_gates_rows pi r : forall gs gw id,
  let '(_, _, rows) := garble_gates pi r gw id gs in map (@length _) rows = map rows_of gs.
Proof.
  induction gs as [|g gs IH]; intros gw id; cbn [garble_gates]; [reflexivity|].
  pose proof (garble_gate_rows pi r gw id g) as R.
  destruct (garble_gate pi r gw id g) as [[c id'] row].
  specialize (IH (upd gw (gout g) c) id').
  destruct (garble_gates pi r (upd gw (gout g) c) id' gs) as [[gwf idf] rows].
  cbn [map]. rewrite R, IH. reflexivity.
Qed.

Lemma garble_tables_shape pi rnd scratch c :
  map (@length _) (gTables (garble pi rnd scratch c)) = map rows_of (gates c).
Proof.
  unfold garble.
  match goal with |- context [garble_gates pi ?r ?gw 0 (gates c)] =>
    pose proof (garble_gates_rows pi r (gates c) gw 0) as H;
    destruct (garble_gates pi r gw 0 (gates c)) as [[gwf idf] rows] end.
  exact H.
Qed.

Lemma chunks_concat {A} : forall (ls : list (list A)), chunks (map (@length _) ls) (concat ls) = ls.
Proof.
  induction ls as [|l ls IH]; [reflexivity|]. cbn [map chunks concat].
  rewrite firstn_len_app, skipn_len_app, IH. reflexivity.
Qed.

Lemma map_pick_firstn (ws : list wire) (x : list bool) n :
  (n <= length ws)%nat -> length x = n ->
  map (fun p => pick (fst p) (snd p)) (combine (firstn n ws) x)
  = map (fun i => pick (nth i ws w0) (nth i x false)) (seq 0 n).
Proof.
  intros Hn Hx. apply nth_ext with (d := 0) (d' := 0).
  - rewrite !map_length, combine_length, firstn_length, seq_length. lia.
  - intros i Hi. rewrite map_length, combine_length, firstn_length in Hi.
    rewrite nth_indep with (d' := (fun p => pick (fst p) (snd p)) (w0, false))
      by (rewrite map_length, combine_length, firstn_length; lia).
    rewrite (map_nth (fun p => pick (fst p) (snd p)) _ (w0, false)).
    rewrite combine_nth by (rewrite firstn_length; lia). cbn [fst snd].
    rewrite nth_indep with (d' := (fun i0 => pick (nth i0 ws w0) (nth i0 x false)) 0%nat)
      by (rewrite map_length, seq_length; lia).
    rewrite (map_nth (fun i0 => pick (nth i0 ws w0) (nth i0 x false))).
    rewrite seq_nth by lia. rewrite nth_firstn_lt by lia. reflexivity.
Qed.

Lemma decode_outputs_map {A} (fw : A -> wire) (fl : A -> N) : forall (os : list A) bs,
  map (fun o => decode (fw o) (fl o)) os = map Some bs ->
  decode_outputs (map (fun o => pair_of (fw o)) os) (map fl os) = Ok bs.
Proof.
  induction os as [|o os IH]; intros [|b bs] H; try discriminate; [reflexivity|].
  cbn [map] in H. injection H as Hd Ht. cbn [map decode_outputs hd tl]. rewrite (IH bs Ht).
  unfold bitFromLabel, pair_of. cbn [fst snd]. unfold decode in Hd.
  destruct (fl o =? L0 (fw o)).
  - injection Hd as <-. reflexivity.
  - destruct (fl o =? L1 (fw o)); [|discriminate]. injection Hd as <-. reflexivity.
Qed.

Section Inst.
  (* ---- the embedded circuit (not in Coq: a variable) *)
  Variable circ : circuit.
  Hypothesis circ_wf : wf circ = true.
  Hypothesis circ_inputs : ninputs circ = (hashInputBitCount + hashInputBitCount)%nat.
  Hypothesis circ_outputs : noutputs circ = outputHintCount.

  (* ---- garbling (C01 model): block function from the key, label stream from the randomness *)
  Variable RND : Type.
  Variable pi_of_key : bytes -> N -> N.
  Variable rnd_labels : RND -> nat -> N.
  Variable scratch : list wire.
  Variable read_key : RND -> bytes.
  Variable read_sid : RND -> N.

  Definition nI : nat := hashInputBitCount.

  Definition i_garble (rng : RND) (key : bytes)
    : res (list (N * N) * list (N * N) * list (N * N) * list N) :=
    let g := garble (pi_of_key key) (rnd_labels rng) scratch circ in
    Ok (map pair_of (firstn nI (gWires g)),
        map pair_of (firstn nI (skipn nI (gWires g))),
        map (fun o => pair_of (nth o (gWires g) w0)) (output_wires circ),
        concat (gTables g)).

  (* Circuit.Eval on wires = garbler labels ‖ evaluator labels ‖ zeros, with the
     flat table slab cut into per-gate rows by the gate kinds *)
  Definition i_eval (key : bytes) (gl el flat : list N) : res (list N) :=
    match geval (pi_of_key key) circ (gl ++ el ++ repeat 0 (nwires circ - nI - nI))
                (chunks (map rows_of (gates circ)) flat) with
    | Some ew => Ok (map (fun o => nth o ew 0) (output_wires circ))
    | None => Err
    end.

  (* ---- Chou-Orlandi (C06 model) over an abstract group of integer pairs *)
  Notation G := (N * N)%type.
  Variables (gadd : G -> G -> G) (gneg : G -> G) (gzero : G) (smul : N -> G -> G) (Gen : G).
  Variable kdf : G -> N -> N.
  Hypothesis gadd_assoc : forall P Q R, gadd (gadd P Q) R = gadd P (gadd Q R).
  Hypothesis gadd_zero : forall P, gadd P gzero = P.
  Hypothesis gadd_neg : forall P, gadd P (gneg P) = gzero.
  Hypothesis smul_add : forall a P Q, smul a (gadd P Q) = gadd (smul a P) (smul a Q).
  Hypothesis smul_comm : forall a b P, smul a (smul b P) = smul b (smul a P).
  Variable sender_scalar : RND -> N.
  Variable receiver_scalar : RND -> nat -> N.

  Definition i_gen_sender (rng : RND) : N * (N * N) * (N * N) :=
    let s := GenerateCOSenderSetup G gneg smul Gen (sender_scalar rng) in (s_a G s, s_A G s, s_AaInv G s).

  (* ensureOnCurve only rejects inputs and is not modelled (as in OT/Co.v) *)
  Definition i_build_choices (rng : RND) (ax ay : N) (bits : list bool) : res (list N * list (N * N)) :=
    let scs := map (receiver_scalar rng) (seq 0 (length bits)) in
    Ok (scs, BuildCOChoices G gadd smul Gen (ax, ay) scs bits).

  Definition i_encrypt (st : gsession) (pts : list (N * N)) (ein : list (N * N)) : res (list (N * N)) :=
    match EncryptCOCiphertexts G gadd smul kdf
            (mkSetup G (gs_scalar st) (gs_ax st, gs_ay st) (gs_ainvx st, gs_ainvy st)) pts (map wire_of ein) with
    | Some cts => Ok cts
    | None => Err
    end.

  Definition i_decrypt (st : esession) (cts : list (N * N)) : res (list N) :=
    match DecryptCOCiphertexts G smul kdf (es_ax st, es_ay st) (es_scalars st) (es_bits st) cts with
    | Some ls => Ok ls
    | None => Err
    end.

  Variable c : curve.
  Variable decompress : curve -> N -> bool -> option (N * N).

  Lemma circ_le : (ninputs circ <= nwires circ)%nat.
  Proof.
    pose proof circ_wf as H. unfold wf in H. repeat (apply andb_prop in H; destruct H as [H ?]).
    apply Nat.leb_le. assumption.
  Qed.

  (* C01 discharges garbled_eval_correct *)
  Lemma inst_garbled_eval_correct : forall rng key gin ein outw tables xa xb,
    i_garble rng key = Ok (gin, ein, outw, tables) ->
    length xa = hashInputBitCount -> length xb = hashInputBitCount ->
    exists outl,
      i_eval key (map (fun p => pick2 (fst p) (snd p)) (combine gin xa))
                 (map (fun p => pick2 (fst p) (snd p)) (combine ein xb)) tables = Ok outl /\
      decode_outputs outw outl = Ok (eval_plain circ (xa ++ xb)).
  Proof.
    intros rng key gin ein outw tables xa xb E La Lb. unfold i_garble in E. apply Ok_inj in E.
    pose proof (f_equal (fun t => fst (fst (fst t))) E) as E1.
    pose proof (f_equal (fun t => snd (fst (fst t))) E) as E2.
    pose proof (f_equal (fun t => snd (fst t)) E) as E3.
    pose proof (f_equal (fun t => snd t) E) as E4.
    cbn [fst snd] in E1, E2, E3, E4. subst gin ein outw tables. clear E.
    set (pi := pi_of_key key). set (g := garble pi (rnd_labels rng) scratch circ).
    pose proof circ_le as Hle.
    destruct (garble_lengths pi (rnd_labels rng) scratch circ Hle) as [LW _]. fold g in LW.
    assert (Lx : length (xa ++ xb) = ninputs circ) by (rewrite app_length, La, Lb, circ_inputs; reflexivity).
    destruct (garble_decoded_outputs pi (rnd_labels rng) scratch circ (xa ++ xb) circ_wf Lx) as (ew & GE & DE).
    fold g in GE, DE.
    exists (map (fun o => nth o ew 0) (output_wires circ)). split.
    - unfold i_eval. fold pi.
      rewrite <- (garble_tables_shape pi (rnd_labels rng) scratch circ). fold g. rewrite chunks_concat.
      rewrite !map_pick2_combine_pair_of.
      assert (Enc : map (fun p => pick (fst p) (snd p)) (combine (firstn nI (gWires g)) xa)
                    ++ map (fun p => pick (fst p) (snd p)) (combine (firstn nI (skipn nI (gWires g))) xb)
                    ++ repeat 0 (nwires circ - nI - nI) = encode g circ (xa ++ xb)).
      { set (c2 := mkCirc2 circ nI nI [noutputs circ]).
        assert (W2 : wf2 c2 = true).
        { unfold wf2, c2. cbn [cc n0 n1 outs fold_right]. rewrite circ_wf, circ_inputs.
          unfold nI. rewrite !Nat.eqb_refl || idtac. rewrite Nat.add_0_r, !Nat.eqb_refl. reflexivity. }
        pose proof (encode_split pi (rnd_labels rng) scratch c2 xa xb W2 La Lb) as ES.
        cbv zeta in ES. unfold c2 in ES. cbn [cc n0 n1] in ES. fold g in ES. rewrite <- ES.
        unfold garbler_inputs, ot_wires. cbn [cc n0 n1].
        rewrite map_pick_firstn by (unfold nI in *; rewrite ?LW, ?circ_inputs in *; lia || exact La).
        replace (firstn nI xb) with xb by (symmetry; unfold nI; rewrite <- Lb; apply firstn_all). reflexivity. }
      rewrite Enc, GE. reflexivity.
    - apply (decode_outputs_map (fun o => nth o (gWires g) w0) (fun o => nth o ew 0)). exact DE.
  Qed.

  Lemma inst_garble_total : forall rng key, exists gin ein outw tables,
    i_garble rng key = Ok (gin, ein, outw, tables) /\
    length ein = hashInputBitCount /\ length outw = outputHintCount.
  Proof.
    intros rng key. unfold i_garble. do 4 eexists. split; [reflexivity|].
    pose proof circ_le as Hle.
    destruct (garble_lengths (pi_of_key key) (rnd_labels rng) scratch circ Hle) as [LW _].
    split.
    - rewrite map_length, firstn_length, skipn_length, LW. unfold nI. rewrite circ_inputs in Hle. lia.
    - rewrite map_length. unfold output_wires. rewrite seq_length. exact circ_outputs.
  Qed.

  (* C06 (co_correct) discharges co_ot_correct *)
  Lemma inst_co_ot_correct : forall rng1 rng2 sid sid' bits ein,
    let '(a, (ax, ay), (ix, iy)) := i_gen_sender rng1 in
    length bits = hashInputBitCount -> length ein = length bits ->
    exists scalars points cts,
      i_build_choices rng2 ax ay bits = Ok (scalars, points) /\
      length scalars = length bits /\
      i_encrypt (mkGS sid (curve_name c) a ax ay ix iy) points ein = Ok cts /\
      i_decrypt (mkES sid' (curve_name c) ax ay scalars bits) cts
      = Ok (map (fun p => pick2 (fst p) (snd p)) (combine ein bits)).
  Proof.
    intros rng1 rng2 sid sid' bits ein. unfold i_gen_sender.
    set (a := sender_scalar rng1).
    destruct (s_A G (GenerateCOSenderSetup G gneg smul Gen a)) as [ax ay] eqn:EA.
    destruct (s_AaInv G (GenerateCOSenderSetup G gneg smul Gen a)) as [ix iy] eqn:EI.
    cbn [s_a GenerateCOSenderSetup].
    intros Lb Le.
    set (scs := map (receiver_scalar rng2) (seq 0 (length bits))).
    assert (Ls : length scs = length bits) by (unfold scs; rewrite map_length, seq_length; reflexivity).
    pose proof (co_correct G gadd gneg gzero smul Gen kdf gadd_assoc gadd_zero gadd_neg smul_add smul_comm
                  a scs bits (map wire_of ein) Ls ltac:(rewrite map_length; exact Le)) as CO.
    unfold co_transfer in CO. cbv zeta in CO.
    assert (ES : GenerateCOSenderSetup G gneg smul Gen a = mkSetup G a (ax, ay) (ix, iy)).
    { revert EA EI. unfold GenerateCOSenderSetup. cbn [s_A s_AaInv]. intros -> ->. reflexivity. }
    rewrite ES in CO. cbn [s_A] in CO.
    destruct (EncryptCOCiphertexts G gadd smul kdf (mkSetup G a (ax, ay) (ix, iy))
                (BuildCOChoices G gadd smul Gen (ax, ay) scs bits) (map wire_of ein)) as [cts|] eqn:EE; [|discriminate].
    exists scs, (BuildCOChoices G gadd smul Gen (ax, ay) scs bits), cts.
    split; [reflexivity|]. split; [exact Ls|]. split.
    - unfold i_encrypt. cbn [gs_scalar gs_ax gs_ay gs_ainvx gs_ainvy]. rewrite EE. reflexivity.
    - unfold i_decrypt. cbn [es_ax es_ay es_scalars es_bits]. rewrite CO, map_pick_combine_wire_of. reflexivity.
  Qed.

  Lemma inst_circ_out_len : forall x, length (eval_plain circ x) = outputHintCount.
  Proof. intros x. unfold eval_plain, output_wires. rewrite map_length, seq_length. exact circ_outputs. Qed.

  (* ---- C18_protocol_correct instantiated: the uninterrupted run of the four
     rounds with C01 garbling and the CO OT outputs SHA-256(a xor b), given
     only that the embedded circuit computes it *)
  Variable sha256xor : bytes -> bytes -> bytes.
  Hypothesis circuit_computes_sha256xor : forall a b, length a = 32%nat -> length b = 32%nat ->
    eval_plain circ (bytesToBitsLittle a ++ bytesToBitsLittle b) = bytesToBitsLittle (sha256xor a b).
  Hypothesis sha256xor_bytes : forall a b, Forall (fun x => x < 256) (sha256xor a b).

  Theorem protocol_sha256_inst rg1 re2 rg3 a b :
    length a = 32%nat -> length b = 32%nat ->
    run_protocol RND c i_gen_sender read_sid i_build_choices read_key i_garble i_encrypt i_decrypt
                 i_eval decompress 0 0 0 0 false false false rg1 re2 rg3 a b
    = Ok (sha256xor a b).
  Proof.
    apply (protocol_sha256_plain RND c i_gen_sender read_sid i_build_choices read_key i_garble i_encrypt
             i_decrypt i_eval decompress (eval_plain circ)
             inst_garbled_eval_correct inst_garble_total inst_co_ot_correct inst_circ_out_len
             sha256xor circuit_computes_sha256xor sha256xor_bytes).
  Qed.
End Inst.
