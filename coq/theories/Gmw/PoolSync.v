(* PoolSync.v — small-step model of the producer/consumer protocol of the
   triple pool (gmw/triples.go): the consumer TriplePool.Get and the
   generator loop Network.tripleSenderLoop + tripleBatch of the leader, both
   under pool.m and both waiting on the ONE condition variable pool.c.

   sync.Cond semantics: Wait releases the mutex and parks the caller; Signal
   wakes one parked goroutine if there is one and is lost otherwise.  There
   are two goroutines (the Get calls of a run come from one goroutine), so a
   Signal of one wakes the other if it is parked.  Every transition below is
   one critical section (Lock ... Wait | Unlock): the mutex makes it atomic.

       Get(count):   Lock
                     for ofs < count {
                       for Words == 0 { Wait }
                       ofs += Append(pool, count-ofs)
                       if Words <= lowWaterMark { Signal }      (* per chunk *)
                     }
                     Unlock
       generator:    for { Lock; for Words > lowWaterMark { Wait }; Unlock
                           tripleBatch: ...; Lock; Append(batch); Signal; Unlock }

   The request is counted in words (ceil(count/64); GmwProof.pool_get_loop_ok
   relates the triple-counting loop to words).  [hoisted] selects the variant
   in which the Signal is issued once, after the loop (regression record).
   No proofs here. *)
From Coq Require Import ZArith List Bool Arith.
From Mpc Require Import Gen.Consts.
Import ListNotations.
Local Open Scope nat_scope.

(* consumer: not in Get | runnable inside Get (wants the mutex) | parked in
   Wait | parked with a pending Signal (will re-acquire the mutex) *)
Inductive cstate := CIdle | CReady (need : nat) | CWaiting (need : nat) | CWoken (need : nat).
(* generator: about to Lock and test Words > lowWaterMark | parked in Wait |
   parked with a pending Signal | producing a batch (tripleBatch, no mutex) *)
Inductive gstate := GCheck | GWaiting | GWoken | GProduce.

Record pst := mkS { words : nat; nbatch : nat; cst : cstate; gst : gstate }.

Definition wake_g (g : gstate) : gstate := match g with GWaiting => GWoken | _ => g end.
Definition wake_c (c : cstate) : cstate := match c with CWaiting n => CWoken n | _ => c end.

Section Pool.
  Variable lwm : nat.               (* lowWaterMark *)
  Variable bsz : nat -> nat.        (* words of the k-th batch: 64, 128, 128, ... *)
  Variable hoisted : bool.          (* false = the code as it is *)

  (* the critical section of Get from (re)acquiring the mutex to Wait or
     Unlock.  fuel bounds the chunk loop (two iterations suffice). *)
  Fixpoint get_loop (fuel need w : nat) (g : gstate) : cstate * nat * gstate :=
    match need with
    | 0 => (CIdle, w, if hoisted && (w <=? lwm) then wake_g g else g)       (* Unlock *)
    | _ =>
        match fuel with
        | 0 => (CReady need, w, g)
        | S f =>
            if w =? 0 then (CWaiting need, w, g)                            (* Wait *)
            else
              let k := Nat.min need w in                                    (* Append *)
              let w' := w - k in
              let g' := if negb hoisted && (w' <=? lwm) then wake_g g else g in   (* Signal *)
              get_loop f (need - k) w' g'
        end
    end.

  Definition cons_step (s : pst) : option pst :=
    match cst s with
    | CReady n | CWoken n =>
        let '(c', w', g') := get_loop (S n) n (words s) (gst s) in
        Some (mkS w' (nbatch s) c' g')
    | _ => None
    end.

  Definition gen_step (s : pst) : option pst :=
    match gst s with
    | GCheck | GWoken =>
        Some (mkS (words s) (nbatch s) (cst s) (if lwm <? words s then GWaiting else GProduce))
    | GProduce =>
        Some (mkS (words s + bsz (nbatch s)) (S (nbatch s)) (wake_c (cst s)) GCheck)
    | GWaiting => None
    end.

  (* the run goroutine calls Get(need words) *)
  Definition get_step (n : nat) (s : pst) : option pst :=
    match cst s with
    | CIdle => Some (mkS (words s) (nbatch s) (match n with 0 => CIdle | _ => CReady n end) (gst s))
    | _ => None
    end.

  Inductive label := LCons | LGen | LGet (n : nat).

  Definition step (l : label) (s : pst) : option pst :=
    match l with
    | LCons => cons_step s
    | LGen => gen_step s
    | LGet n => get_step n s
    end.

  Definition init : pst := mkS 0 0 CIdle GCheck.

  Inductive reachable : pst -> Prop :=
  | r_init : reachable init
  | r_step l s s' : reachable s -> step l s = Some s' -> reachable s'.

  (* executable: follow a schedule, skipping labels that are not enabled *)
  Fixpoint exec (ls : list label) (s : pst) : pst :=
    match ls with
    | [] => s
    | l :: rest => exec rest (match step l s with Some s' => s' | None => s end)
    end.

  (* round-robin (a fair schedule): generator, then consumer, k times *)
  Fixpoint run_rr (k : nat) (s : pst) : pst :=
    match k with
    | 0 => s
    | S k' => run_rr k' (exec [LGen; LCons] s)
    end.

  (* the consumer is blocked on an unsatisfied request and the generator is
     parked with no Signal pending: nobody will ever run again *)
  Definition lost_wakeup (s : pst) : bool :=
    match cst s, gst s with
    | CWaiting _, GWaiting => true
    | _, _ => false
    end.
End Pool.

(* the constants of the Go code *)
Definition go_lwm : nat := Z.to_nat gmw_lowWaterMark.
(* batchSize := 4096 triples, 8192 after the first batch *)
Definition go_bsz (k : nat) : nat := match k with 0 => 64 | _ => 128 end.
