(* GmwReuse.v — several Network.Run calls on ONE connected gmw.Network
   (gmw/network.go Run/run, circuit/ioarg.go IO.Split).

   What Run resets: nw.circ, self.input, self.randBuf, self.shared; run()
   creates nw.output afresh (Rsh of the wires).  What survives: nw.wires (the
   big.Int with this party's wire shares is never cleared), the triple pool
   and its position, nw.triples (cleared after every batch), the scratch
   vectors andD/andE/andZ (cleared per batch), the statistics counters.

   So a run starts on the wire shares the previous run left behind: setWires
   overwrites the Inputs.Size() input positions, every gate overwrites its
   output wire, everything else — unused wire ids and all positions at or
   above the new circuit's NumWires when the previous circuit was bigger —
   keeps its old share.  nw.output = wires >> (NumWires - nout) therefore
   carries the stale shares of the higher positions above bit nout, in every
   party's share and in the opened value; Outputs.Split reads exactly
   Outputs.Size() bits of it.
   No proofs here. *)
From Coq Require Import NArith List Bool Arith Lia.
From Mpc Require Import Base.Codec Circuit.Circuit Gmw.Gmw.
Import ListNotations.
Local Open Scope nat_scope.

(* the big.Int read at positions beyond its length is zero *)
Definition extend (n : nat) (l : list bool) : list bool := l ++ repeat false (n - length l).

(* input sharing on top of the surviving wires [prev] *)
Definition init_on (c : circuit) (isz : list nat) (inputs : list (list bool))
           (rnd : nat -> nat -> list bool) (q : nat) (prev : list bool) : list bool :=
  let n := length isz in
  concat (mapi (fun p sz => if p =? q then own_share n p sz (nth p inputs []) rnd
                            else take_pad sz (rnd p q)) isz)
  ++ skipn (ninputs c) (extend (nwires c) prev).

(* nw.output = new(big.Int).Rsh(nw.wires, NumWires - nout): ALL higher bits *)
Definition out_go (c : circuit) (ws : list bool) : list bool :=
  skipn (nwires c - noutputs c) ws.

(* Outputs.Split(nw.output), flattened: the Outputs.Size() low bits *)
Definition split_out (c : circuit) (v : list bool) : list bool := take_pad (noutputs c) v.

(* one Network.Run at all parties on the states [sts] the previous run left;
   returns the new states and every party's result *)
Definition run_on (c : circuit) (isz : list nat) (inputs : list (list bool))
           (rnd : nat -> nat -> list bool) (sts : list pstate)
  : option (list pstate * list (list bool)) :=
  if negb (gmw_supported c) then None else
  if negb (length isz =? length sts) then None else     (* circ.NumParties() != nw.numParties *)
  let gl := combine (gates c) (gate_levels c) in
  let sts0 := mapi (fun q st => mkP (init_on c isz inputs rnd q (ps_wires st))
                                    (ps_pool st) (ps_pend st) (ps_sched st)) sts in
  match levels_loop gl (seq 0 (S (num_levels c))) sts0 with
  | None => None
  | Some sts' =>
      let outs := map (fun st => out_go c (ps_wires st)) sts' in
      Some (sts', mapi (fun p _ => split_out c (bxor_bits p outs)) outs)
  end.

Record job := mkJob {
  jc : circuit; jisz : list nat; jinputs : list (list bool); jrnd : nat -> nat -> list bool }.

(* a sequence of runs on one network *)
Fixpoint run_seq (jobs : list job) (sts : list pstate) : option (list (list (list bool))) :=
  match jobs with
  | [] => Some []
  | j :: rest =>
      match run_on (jc j) (jisz j) (jinputs j) (jrnd j) sts with
      | None => None
      | Some (sts', o) =>
          match run_seq rest sts' with
          | None => None
          | Some os => Some (o :: os)
          end
      end
  end.

(* a freshly connected network: wires = 0 *)
Definition fresh (pools : list (triples * list triples * list nat)) : list pstate :=
  map (fun pl => mkP [] (fst (fst pl)) (snd (fst pl)) (snd pl)) pools.

Definition total_need (jobs : list job) : nat :=
  fold_right (fun j acc => words_needed (jc j) + acc) 0 jobs.
