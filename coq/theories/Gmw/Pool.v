(* Pool.v — executable model of the offline phase: Network.tripleBatch
   (gmw/triples.go) on top of the bit-COT of ot/iknp.go
   (IKNPSender.SendBits / IKNPReceiver.ReceiveBits).

   For the ordered pair (p sender, q receiver) the sender obtains random bits
   s (SendBits: column 0 of the q-matrix, bit i in word i/64 at offset i%64)
   and holds Delta.Bit(0); the receiver, with choice bits b_q, obtains
       r = s xor (b_q and Delta-mask)            (ReceiveBits: Label.Bit(0))
   gmw only asks for size = 4096 or 8192 bit-OTs per call (tripleSenderLoop:
   batchSize; the receivers take the size from the leader's message), both
   multiples of 64 and of the 512-row IKNP chunk, so the partial-last-word
   path of SendBits/ReceiveBits (the subject of C06) is never exercised here.
   No proofs here. *)
From Coq Require Import NArith List Bool Arith Lia.
From Mpc Require Import Circuit.Circuit Gmw.Gmw.
Import ListNotations.
Local Open Scope nat_scope.

Definition ones64 : N := 18446744073709551615%N.   (* ^uint64(0) *)
Definition dmask (delta : bool) : N := if delta then ones64 else 0%N.

(* what IKNPReceiver.ReceiveBits delivers, given the sender's bits, the
   sender's Delta bit and the receiver's choices (the COT relation) *)
Definition cot_recv (s : list N) (delta : bool) (choice : list N) (words : nat) : list N :=
  map (fun w => N.lxor (nth w s 0%N) (N.land (nth w choice 0%N) (dmask delta))) (seq 0 words).

Section Batch.
  Variable n : nat.                       (* number of parties *)
  Variable words : nat.                   (* (size + 63) / 64 *)
  Variable a b : nat -> list N.           (* local random shares of party p *)
  Variable sb : nat -> nat -> list N.     (* sb p q : SendBits result at sender p towards q *)
  Variable dl : nat -> nat -> bool.       (* dl p q : p's iknpS(q).Delta.Bit(0) *)
  Variable rb : nat -> nat -> list N.     (* rb p q : ReceiveBits result at receiver q from sender p *)

  (* u = a xor Delta (all-ones mask), sent by the sender *)
  Definition u_word (p q w : nat) : N := N.lxor (nth w (a p) 0%N) (dmask (dl p q)).

  (* self = sender: c ^= sBits ^ (u & v), v = b_peer received in clear *)
  Definition term_send (p q w : nat) : N :=
    N.lxor (nth w (sb p q) 0%N) (N.land (u_word p q w) (nth w (b q) 0%N)).
  (* self = receiver: c ^= rBits *)
  Definition term_recv (p q w : nat) : N := nth w (rb q p) 0%N.

  (* the loop over peers; the lower id runs the sender role first *)
  Definition cross (p w : nat) (c : N) (q : nat) : N :=
    if p <? q then N.lxor (N.lxor c (term_send p q w)) (term_recv p q w)
    else N.lxor (N.lxor c (term_recv p q w)) (term_send p q w).

  Definition c_word (p w : nat) : N :=
    fold_left (cross p w) (others n p) (N.land (nth w (a p) 0%N) (nth w (b p) 0%N)).

  (* the Triples{Words: words, A: a, B: b, C: c} party p appends to its pool *)
  Definition triple_batch (p : nat) : triples :=
    map (fun w => mkT (nth w (a p) 0%N) (nth w (b p) 0%N) (c_word p w)) (seq 0 words).
End Batch.

(* the COT relation for every ordered pair of distinct parties *)
Definition cot_relation (n words : nat) (b : nat -> list N) (sb : nat -> nat -> list N)
           (dl : nat -> nat -> bool) (rb : nat -> nat -> list N) : Prop :=
  forall p q w, p < n -> q < n -> p <> q -> w < words ->
    nth w (rb p q) 0%N = N.lxor (nth w (sb p q) 0%N) (N.land (nth w (b q) 0%N) (dmask (dl p q))).

(* executable: all batches of all parties with rb computed by cot_recv *)
Definition deal (n words : nat) (a b : nat -> list N) (sb : nat -> nat -> list N)
           (dl : nat -> nat -> bool) : list triples :=
  let rb := fun p q => cot_recv (sb p q) (dl p q) (b q) words in
  map (triple_batch n words a b sb dl rb) (seq 0 n).
