(* GmwNet.v — model for the TERMINATION / MESSAGE-MATCHING half of property C10
   ("all parties complete the protocol"): the online phase of gmw.Network.run
   (gmw/network.go: run, andBatchFlush, broadcastXORs, shareInput,
   receiveInput, sendOutput, receiveOutput; gmw/peer.go: SendBitvec2,
   ReceiveBitvec2) as n concurrent parties over pairwise FIFO channels with
   sender-side write buffers (p2p.Conn, p2p/protocol.go).

   Per party the ORDER of the connection operations is not written by hand: it
   is the skeleton [skel_gmw_run] that harness/gen_skel_gmw.go extracts from the
   current source (Gen/SkelGmw.v, regenerated on every check run), a
   Proto/Live.v [prog] whose labels are the source text of the loop headers and
   branch conditions.  [gflat] below gives the labels their meaning for party
   [self] of [n] and a list of AND levels and flattens the skeleton to the
   party's action list; an unknown label / node becomes [NBad].

   Conn semantics (as Proto/Live.v): Send appends to the sender's write buffer
   for that peer; Flush moves the buffer to the channel; a Send MAY flush on
   its own (NeedSpace: buffer full) — a schedule choice; Receive blocks until
   the channel from that peer holds an item and compares the item's tag
   (phase, level, sender, receiver, kind) with the one it expects.
   No proofs in this file. *)
From Coq Require Import List Bool Arith NArith ZArith.
From Mpc Require Import Proto.Live.
Import ListNotations.
Local Open Scope nat_scope.

(* ---- messages and actions *)
Record tag := mkTag { t_ph : nat;      (* 0 input sharing, 1 AND level, 2 output reconstruction *)
                      t_lvl : nat;     (* index of the level (phase 1), else 0 *)
                      t_src : nat; t_dst : nat;
                      t_kind : name }. (* Data | Uint32 | Label: the typed conn operation *)

Definition tag_eqb (a b : tag) : bool :=
  (t_ph a =? t_ph b) && (t_lvl a =? t_lvl b) && (t_src a =? t_src b) && (t_dst a =? t_dst b)
  && name_eqb (t_kind a) (t_kind b).

Inductive nact :=
| NSend (to : nat) (t : tag)
| NFlush (to : nat)
| NRecv (from : nat) (t : tag)
| NBad.                              (* something the translator / gflat did not understand *)

(* ---- labels of the generated skeleton (source text of gmw/network.go, gmw/peer.go) *)
Definition lbl_peers : name := "range nw.peers"%nm.
Definition lbl_is_self : name := "peer.id == self.id"%nm.
Definition lbl_lower : name := "self.id < peer.id"%nm.
Definition lbl_levels : name := "for i := 0; i < numLevels; i++"%nm.
Definition lbl_empty : name := "len(ands[i]) == 0"%nm.
Definition lbl_dwords : name := "for i := 0; i < len(nw.andD); i += 2"%nm.
Definition lbl_ewords : name := "for i := 0; i < len(nw.andE); i += 2"%nm.

(* a level = (number of AND gates of the level = len(ands[i]),
              len(nw.andD) = len(nw.andE) while the level is exchanged) *)
Definition level := (nat * nat)%type.

(* for i := 0; i < len; i += 2 *)
Definition pair_count (len : nat) : nat := (len + 1) / 2.

Definition opt_act (peer : option nat) (f : nat -> nact) : nact :=
  match peer with Some j => f j | None => NBad end.

(* flatten the skeleton for party [self] of [n]; context: phase, level index,
   the peer of the enclosing peers loop, the level of the enclosing levels loop *)
Fixpoint gflat (n self : nat) (levels : list level) (ph lvl : nat)
         (peer : option nat) (batch : option level) (p : prog) : list nact :=
  match p with
  | PEnd => []
  | PSend k r => opt_act peer (fun j => NSend j (mkTag ph lvl self j k)) :: gflat n self levels ph lvl peer batch r
  | PRecv k r => opt_act peer (fun j => NRecv j (mkTag ph lvl j self k)) :: gflat n self levels ph lvl peer batch r
  | PFlush r => opt_act peer NFlush :: gflat n self levels ph lvl peer batch r
  | PLoop l b r =>
      if name_eqb l lbl_peers then
        match peer with
        | None => flat_map (fun j => gflat n self levels ph lvl (Some j) batch b) (seq 0 n)
        | Some _ => [NBad]
        end ++ gflat n self levels ph lvl peer batch r
      else if name_eqb l lbl_levels then
        match peer, batch, ph with
        | None, None, 0 =>
            flat_map (fun il => gflat n self levels 1 (fst il) None (Some (snd il)) b)
                     (combine (seq 0 (length levels)) levels)
            ++ gflat n self levels 2 0 None None r
        | _, _, _ => [NBad]
        end
      else if name_eqb l lbl_dwords || name_eqb l lbl_ewords then
        match batch with
        | Some (_, len) => flat_map (fun _ => gflat n self levels ph lvl peer batch b) (seq 0 (pair_count len))
        | None => [NBad]
        end ++ gflat n self levels ph lvl peer batch r
      else [NBad]
  | PBranch l a b r =>
      (if name_eqb l lbl_is_self then
         match peer with
         | Some j => if j =? self then gflat n self levels ph lvl peer batch a
                     else gflat n self levels ph lvl peer batch b
         | None => [NBad]
         end
       else if name_eqb l lbl_lower then
         match peer with
         | Some j => if self <? j then gflat n self levels ph lvl peer batch a
                     else gflat n self levels ph lvl peer batch b
         | None => [NBad]
         end
       else if name_eqb l lbl_empty then
         match batch with
         | Some (c, _) => if c =? 0 then gflat n self levels ph lvl peer batch a
                          else gflat n self levels ph lvl peer batch b
         | None => [NBad]
         end
       else [NBad]) ++ gflat n self levels ph lvl peer batch r
  | PCall _ _ _ _ => [NBad]
  | PUnknown _ _ => [NBad]
  end.

Definition party_acts (sk : prog) (n : nat) (levels : list level) (self : nat) : list nact :=
  gflat n self levels 0 0 None None sk.

(* ---- the skeleton the theorems of GmwNetProof.v are proved for; Props/C10.v
   carries the obligation that the skeleton generated from the source IS this one *)
Definition exch_lo (ks : list (prog -> prog)) (kr : list (prog -> prog)) : prog := mk (ks ++ [PFlush] ++ kr).
Definition exch_hi (ks : list (prog -> prog)) (kr : list (prog -> prog)) : prog := mk (kr ++ ks ++ [PFlush]).
Definition peers_loop (ks kr : list (prog -> prog)) : prog -> prog :=
  PLoop lbl_peers (mk [PBranch lbl_is_self (mk []) (mk [PBranch lbl_lower (exch_lo ks kr) (exch_hi ks kr)])]).

Definition data_s : list (prog -> prog) := [PSend "Data"%nm].
Definition data_r : list (prog -> prog) := [PRecv "Data"%nm].
Definition bv2_s : list (prog -> prog) :=
  [PSend "Uint32"%nm; PLoop lbl_dwords (mk [PSend "Label"%nm]); PLoop lbl_ewords (mk [PSend "Label"%nm])].
Definition bv2_r : list (prog -> prog) :=
  [PRecv "Uint32"%nm; PLoop lbl_dwords (mk [PRecv "Label"%nm]); PLoop lbl_ewords (mk [PRecv "Label"%nm])].

Definition ref_run : prog :=
  mk [ peers_loop data_s data_r;
       PLoop lbl_levels (mk [PBranch lbl_empty (mk []) (mk [peers_loop bv2_s bv2_r])]);
       peers_loop data_s data_r ].

(* the regression variant: the lower party of every exchange receives BEFORE it
   flushes what it has just sent *)
Definition exch_lo_rbf (ks kr : list (prog -> prog)) : prog := mk (ks ++ kr ++ [PFlush]).
Definition peers_loop_rbf (ks kr : list (prog -> prog)) : prog -> prog :=
  PLoop lbl_peers (mk [PBranch lbl_is_self (mk []) (mk [PBranch lbl_lower (exch_lo_rbf ks kr) (exch_hi ks kr)])]).
Definition rbf_run : prog :=
  mk [ peers_loop_rbf data_s data_r;
       PLoop lbl_levels (mk [PBranch lbl_empty (mk []) (mk [peers_loop_rbf bv2_s bv2_r])]);
       peers_loop_rbf data_s data_r ].

(* ---- the same programs written out directly (GmwNetProof.gflat_ref: equal to
   the flattening of ref_run for every n, self, levels) *)
Definition kinds_data : list name := ["Data"%nm].
Definition kinds_bv2 (len : nat) : list name :=
  "Uint32"%nm :: repeat "Label"%nm (pair_count len) ++ repeat "Label"%nm (pair_count len).

Definition sends (ph lvl self j : nat) (ks : list name) : list nact :=
  map (fun k => NSend j (mkTag ph lvl self j k)) ks.
Definition recvs (ph lvl self j : nat) (ks : list name) : list nact :=
  map (fun k => NRecv j (mkTag ph lvl j self k)) ks.

Definition exch (ph lvl self : nat) (ks : list name) (j : nat) : list nact :=
  if j =? self then []
  else if self <? j then sends ph lvl self j ks ++ [NFlush j] ++ recvs ph lvl self j ks
  else recvs ph lvl self j ks ++ sends ph lvl self j ks ++ [NFlush j].

Definition round (n ph lvl self : nat) (ks : list name) : list nact :=
  flat_map (exch ph lvl self ks) (seq 0 n).

Definition level_round (n self : nat) (il : nat * level) : list nact :=
  let '(i, (c, len)) := il in
  if c =? 0 then [] else round n 1 i self (kinds_bv2 len).

Definition party_prog (n : nat) (levels : list level) (self : nat) : list nact :=
  round n 0 0 self kinds_data
  ++ flat_map (level_round n self) (combine (seq 0 (length levels)) levels)
  ++ round n 2 0 self kinds_data.

(* ---- n parties *)
Definition upd {A} (f : nat -> A) (i : nat) (v : A) : nat -> A :=
  fun x => if x =? i then v else f x.
Definition upd2 {A} (f : nat -> nat -> A) (i j : nat) (v : A) : nat -> nat -> A :=
  fun x y => if (x =? i) && (y =? j) then v else f x y.

Record nstate := mkN { ns_rest : nat -> list nact;          (* rest of every party's program *)
                       ns_buf : nat -> nat -> list tag;     (* [ns_buf s p j]: p's write buffer towards j *)
                       ns_chan : nat -> nat -> list tag;    (* [ns_chan s p j]: flushed by p, not yet received by j *)
                       ns_bad : bool }.                     (* a receive met an item it did not expect / NBad *)

(* one step of party [p]; [auto]: a Send flushes on its own *)
Definition nstep (p : nat) (auto : bool) (s : nstate) : nstate :=
  if ns_bad s then s else
  match ns_rest s p with
  | [] => s
  | NSend j t :: r =>
      if auto then mkN (upd (ns_rest s) p r) (upd2 (ns_buf s) p j [])
                       (upd2 (ns_chan s) p j (ns_chan s p j ++ ns_buf s p j ++ [t])) false
      else mkN (upd (ns_rest s) p r) (upd2 (ns_buf s) p j (ns_buf s p j ++ [t])) (ns_chan s) false
  | NFlush j :: r =>
      mkN (upd (ns_rest s) p r) (upd2 (ns_buf s) p j []) (upd2 (ns_chan s) p j (ns_chan s p j ++ ns_buf s p j)) false
  | NRecv j t :: r =>
      match ns_chan s j p with
      | [] => s                                            (* blocked in Fill *)
      | c :: cs =>
          if tag_eqb c t then mkN (upd (ns_rest s) p r) (ns_buf s) (upd2 (ns_chan s) j p cs) false
          else mkN (ns_rest s) (ns_buf s) (ns_chan s) true
      end
  | NBad :: _ => mkN (ns_rest s) (ns_buf s) (ns_chan s) true
  end.

Definition choice := (nat * bool)%type.                     (* which party moves, auto-flush *)

Definition nrun (sched : list choice) (s : nstate) : nstate :=
  fold_left (fun s c => nstep (fst c) (snd c) s) sched s.

Definition ninit (n : nat) (progs : nat -> list nact) : nstate :=
  mkN (fun i => if i <? n then progs i else []) (fun _ _ => []) (fun _ _ => []) false.

Definition is_nil {A} (l : list A) : bool := match l with [] => true | _ => false end.

(* every party has finished, every write buffer and every channel is empty,
   no receive met an unexpected item *)
Definition ndone (n : nat) (s : nstate) : bool :=
  negb (ns_bad s) &&
  forallb (fun i => is_nil (ns_rest s i) &&
                    forallb (fun j => is_nil (ns_buf s i j) && is_nil (ns_chan s i j)) (seq 0 n)) (seq 0 n).

(* ---- fairness: the schedule can be cut into at least [total] consecutive
   rounds each of which schedules every party 0..n-1 at least once *)
Definition covers (n : nat) (seen : list nat) : bool :=
  forallb (fun i => existsb (Nat.eqb i) seen) (seq 0 n).

Fixpoint count_rounds (n : nat) (seen : list nat) (sched : list choice) : nat :=
  match sched with
  | [] => 0
  | c :: r =>
      let seen' := fst c :: seen in
      if covers n seen' then S (count_rounds n [] r) else count_rounds n seen' r
  end.

Definition total_len (n : nat) (progs : nat -> list nact) : nat :=
  fold_right (fun i acc => length (progs i) + acc) 0 (seq 0 n).

Definition nfair (n : nat) (progs : nat -> list nact) (sched : list choice) : Prop :=
  total_len n progs <= count_rounds n [] sched.

(* the round-robin schedule without automatic flushes (reference run) *)
Definition rr_sched (n rounds : nat) : list choice :=
  concat (repeat (map (fun p => (p, false)) (seq 0 n)) rounds).

(* ---- executable observation (RunC10 mode 5) *)

(* write segments in the order they reach the wire under the reference
   schedule: (sender, receiver, items of the segment) *)
Definition seg_of (p : nat) (s : nstate) : list (nat * nat * list tag) :=
  if ns_bad s then [] else
  match ns_rest s p with
  | NFlush j :: _ => match ns_buf s p j with [] => [] | b => [(p, j, b)] end
  | _ => []
  end.

Fixpoint nrun_log (sched : list choice) (s : nstate) (log : list (nat * nat * list tag))
  : nstate * list (nat * nat * list tag) :=
  match sched with
  | [] => (s, log)
  | c :: r => nrun_log r (nstep (fst c) (snd c) s) (log ++ seg_of (fst c) s)
  end.

(* bytes of one item on the wire (p2p/protocol.go SendData / SendUint32 /
   SendLabel); [dlen] = payload bytes of a Data item *)
Definition item_bytes (dlen : tag -> nat) (t : tag) : nat :=
  if name_eqb (t_kind t) "Data"%nm then 4 + dlen t
  else if name_eqb (t_kind t) "Uint32"%nm then 4
  else if name_eqb (t_kind t) "Label"%nm then 16
  else 0.

Definition seg_bytes (dlen : tag -> nat) (items : list tag) : nat :=
  fold_right (fun t acc => item_bytes dlen t + acc) 0 items.

(* len(nw.andD) during level i: expandClear never shrinks the scratch vectors,
   so it is the maximum of the word counts of the non-empty levels so far
   (starting from [h0], the length left behind by earlier runs) *)
Definition words_of (c : nat) : nat := (c + 63) / 64.
Fixpoint with_lens (h0 : nat) (counts : list nat) : list level :=
  match counts with
  | [] => []
  | c :: r => let h := if c =? 0 then h0 else Nat.max h0 (words_of c) in (c, h) :: with_lens h r
  end.

(* ---- write segments of ONE party with p2p.Conn's buffer rule (RunC10 mode 6).
   SendUint32 / SendLabel: `if WritePos+size > len(WriteBuf) { Flush }`; Flush
   emits a segment only when WritePos > 0.  A Data item is its Uint32 length
   followed by the payload (the copy loop of SendData is treated like a
   fixed-size item: exact whenever 4 + payload fits the buffer, which holds
   for every input / output share below 64 kB).  Own buffers = association
   list peer -> pending bytes. *)
Local Open Scope N_scope.

Definition item_sizes (dlen : tag -> N) (t : tag) : list N :=
  if name_eqb (t_kind t) "Data"%nm then [4; dlen t]
  else if name_eqb (t_kind t) "Uint32"%nm then [4]
  else if name_eqb (t_kind t) "Label"%nm then [16]
  else [].

Fixpoint bget (j : nat) (b : list (nat * N)) : N :=
  match b with
  | [] => 0
  | (k, v) :: r => if Nat.eqb k j then v else bget j r
  end.

Fixpoint bset (j : nat) (v : N) (b : list (nat * N)) : list (nat * N) :=
  match b with
  | [] => [(j, v)]
  | (k, w) :: r => if Nat.eqb k j then (j, v) :: r else (k, w) :: bset j v r
  end.

Definition wstate := (list (nat * N) * list (nat * N))%type.   (* buffers, segments (newest first) *)

Definition emit (j : nat) (pos : N) (out : list (nat * N)) : list (nat * N) :=
  if pos =? 0 then out else (j, pos) :: out.

Definition put (cap : N) (j : nat) (st : wstate) (sz : N) : wstate :=
  let '(b, out) := st in
  let pos := bget j b in
  if sz =? 0 then st
  else if cap <? pos + sz then (bset j sz b, emit j pos out)
  else (bset j (pos + sz) b, out).

Fixpoint walk (cap : N) (dlen : tag -> N) (acts : list nact) (st : wstate) : wstate :=
  match acts with
  | [] => st
  | NSend j t :: r => walk cap dlen r (fold_left (put cap j) (item_sizes dlen t) st)
  | NFlush j :: r => let '(b, out) := st in walk cap dlen r (bset j 0 b, emit j (bget j b) out)
  | _ :: r => walk cap dlen r st
  end.

Definition party_segs (cap : N) (dlen : tag -> N) (acts : list nact) : list (nat * N) :=
  rev (snd (walk cap dlen acts ([], []))).
