(* GmwReuseProof.v — every run of a sequence of Network.Run calls on one
   connected network outputs the plain evaluation of ITS circuit, whatever
   wire shares the earlier runs left behind (GmwReuse.v). *)
From Coq Require Import ZArith NArith List Bool Arith Lia.
From Mpc Require Import Base.Codec Circuit.Circuit Gmw.Gmw Gmw.Pool Gmw.GmwProof Gmw.GmwReuse.
Import ListNotations.
Local Open Scope nat_scope.

Lemma extend_length n l : length (extend n l) = Nat.max n (length l).
Proof. unfold extend. rewrite app_length, repeat_length. lia. Qed.

(* levels_loop_ok with the words that remain for later runs *)
Lemma levels_loop_ok_R v nw ni gl
  (H_out : forall g L, In (g, L) gl -> gout g < nw)
  (H_sup : forall g L, In (g, L) gl -> gop g <> OR)
  (H_lev : levelled ni gl)
  (H_eq : forall g L, In (g, L) gl ->
     nth (gout g) v false = gate_fn (gop g) (nth (gin0 g) v false) (nth (gin1 g) v false)) :
  forall is i0 R st0 sts,
    is = seq i0 (length is) ->
    let all := st0 :: sts in
    rows_len nw (map ps_wires all) ->
    valid_streams (map sstream all) ->
    (forall st, In st all -> need_from gl is + R <= length (sstream st)) ->
    pbase v ni gl (map ps_wires all) i0 ->
    exists all', levels_loop gl is all = Some all' /\ length all' = length all /\
      rows_len nw (map ps_wires all') /\ valid_streams (map sstream all') /\
      (forall st, In st all' -> R <= length (sstream st)) /\
      pbase v ni gl (map ps_wires all') (i0 + length is).
Proof.
  induction is as [|i is IH]; intros i0 R st0 sts Eseq all RL VS EN PB.
  - exists all. cbn [levels_loop length]. rewrite Nat.add_0_r.
    split; [reflexivity|]. split; [reflexivity|]. split; [assumption|]. split; [assumption|].
    split; [|assumption]. intros st Hin. specialize (EN st Hin). cbn [need_from fold_right] in EN. lia.
  - simpl in Eseq. inversion Eseq as [[Ei Eis]]. clear Eseq. subst i.
    destruct (level_step_ok v nw ni gl H_out H_sup H_lev H_eq i0 (need_from gl is + R) st0 sts RL VS)
      as (all1 & E1 & NE1 & L1 & RL1 & VS1 & EN1 & PB1).
    { intros st Hin. specialize (EN st Hin). cbn [need_from fold_right] in EN. fold (need_from gl is) in EN. lia. }
    { assumption. }
    destruct all1 as [|s1 r1]; [contradiction|].
    destruct (IH (S i0) R s1 r1 Eis RL1 VS1 EN1 PB1) as (all2 & E2 & L2 & RL2 & VS2 & EN2 & PB2).
    exists all2. cbn [levels_loop]. unfold all. rewrite E1. rewrite <- Eis.
    split; [exact E2|]. split; [rewrite L2; exact L1|]. split; [assumption|]. split; [assumption|].
    split; [assumption|].
    simpl length. replace (i0 + S (length is)) with (S i0 + length is) by lia. assumption.
Qed.

Lemma init_on_regions c isz inputs rnd q prev :
  init_on c isz inputs rnd q prev =
  concat (mapi (region (length isz) inputs rnd q) isz) ++ skipn (ninputs c) (extend (nwires c) prev).
Proof. reflexivity. Qed.

(* one run on arbitrary surviving wires *)
Lemma run_on_correct c isz inputs rnd sts Lp R :
  wf c = true -> ssa c = true -> gmw_supported c = true ->
  map (@length bool) inputs = isz -> fold_right Nat.add 0 isz = ninputs c ->
  length isz = length sts -> sts <> [] ->
  (forall st, In st sts -> length (ps_wires st) = Lp) ->
  valid_streams (map sstream sts) ->
  (forall st, In st sts -> words_needed c + R <= length (sstream st)) ->
  exists sts' outs, run_on c isz inputs rnd sts = Some (sts', outs) /\
    length sts' = length sts /\
    (forall st, In st sts' -> length (ps_wires st) = Nat.max (nwires c) Lp) /\
    valid_streams (map sstream sts') /\
    (forall st, In st sts' -> R <= length (sstream st)) /\
    length outs = length sts /\
    forall o, In o outs -> o = eval_plain c (concat inputs).
Proof.
  intros WF SSA SUP HL HS HN NE LP VS EN.
  destruct (wf_parts c WF) as (Hni & Hno & WG & WO).
  set (x := concat inputs).
  assert (Lx : length x = ninputs c) by (unfold x; rewrite sum_concat_length, HL; assumption).
  destruct (plain_eqs c x WF SSA Lx) as [VI VE].
  set (v := eval_plain_wires c x) in *.
  destruct (levels_sound c WF) as (LL & LEV & LB).
  set (gl := combine (gates c) (gate_levels c)) in *.
  destruct (input_cols c isz inputs rnd HL HS Hni) as [RL0 IC].
  set (Lw := Nat.max (nwires c) Lp).
  unfold run_on. rewrite SUP. cbn [negb]. rewrite HN, Nat.eqb_refl. cbn [negb]. fold gl.
  set (sts0 := mapi _ sts).
  (* the regions have ninputs bits *)
  assert (RLen : forall q, length (concat (mapi (region (length isz) inputs rnd q) isz)) = ninputs c).
  { intro q. rewrite sum_concat_length. unfold mapi. rewrite regions_lengths. assumption. }
  assert (W0len : forall ws, In ws (map ps_wires sts0) -> length ws = Lw).
  { intros ws Hin. unfold sts0, mapi in Hin. rewrite map_mapi_from in Hin. cbn [ps_wires] in Hin.
    destruct (In_nth _ _ [] Hin) as (k & Hk & Hn). rewrite mapi_from_length in Hk.
    rewrite (nth_mapi_from _ (mkP [] [] [] []) [] sts 0 k Hk) in Hn. rewrite <- Hn.
    rewrite init_on_regions, app_length, RLen, skipn_length, extend_length.
    rewrite (LP (nth k sts (mkP [] [] [] []))) by (apply nth_In; assumption). unfold Lw. lia. }
  assert (W0col : forall w, w < ninputs c -> xor_col (map ps_wires sts0) w = nth w x false).
  { intros w Hw. unfold x. rewrite <- (IC w Hw). unfold xor_col. f_equal.
    unfold sts0, mapi. rewrite !map_mapi_from. cbn [ps_wires]. rewrite map_map.
    rewrite HN. rewrite <- (mapi_from_seq (fun q => nth w (init_party c isz inputs rnd q) false) sts 0).
    apply mapi_from_ext. intros q st _.
    rewrite init_on_regions, init_party_regions, !app_nth1 by (rewrite RLen; assumption). reflexivity. }
  assert (S0 : map sstream sts0 = map sstream sts).
  { unfold sts0, mapi. rewrite map_mapi_from. unfold sstream. cbn [ps_pool ps_pend]. apply mapi_from_noidx. }
  assert (L0 : length sts0 = length sts) by (unfold sts0, mapi; apply mapi_from_length).
  destruct sts0 as [|s0 r0] eqn:E0; [destruct sts; [contradiction|discriminate]|].
  assert (H_out : forall g L, In (g, L) gl -> gout g < Lw).
  { intros g L Hin. apply in_combine_l in Hin. pose proof (wf_gates_out _ _ _ _ WG g Hin). unfold Lw. lia. }
  assert (H_sup : forall g L, In (g, L) gl -> gop g <> OR).
  { intros g L Hin. apply in_combine_l in Hin. unfold gmw_supported in SUP. rewrite forallb_forall in SUP.
    specialize (SUP g Hin). destruct (gop g); congruence. }
  assert (H_eq : forall g L, In (g, L) gl ->
            nth (gout g) v false = gate_fn (gop g) (nth (gin0 g) v false) (nth (gin1 g) v false)).
  { intros g L Hin. apply in_combine_l in Hin. apply VE. assumption. }
  destruct (levels_loop_ok_R v Lw (ninputs c) gl H_out H_sup LEV H_eq
              (seq 0 (S (num_levels c))) 0 R s0 r0) as (all' & EL & LA & RLA & VSA & ENA & PBA).
  - rewrite seq_length. reflexivity.
  - exact W0len.
  - rewrite S0. assumption.
  - intros st Hin. assert (Hs : In (sstream st) (map sstream sts)) by (rewrite <- S0; apply in_map; assumption).
    apply in_map_iff in Hs. destruct Hs as (st' & Es & Hst'). rewrite <- Es. apply EN. assumption.
  - split.
    + intros w Hw. unfold okw. rewrite W0col by assumption. symmetry. apply VI. assumption.
    + intros g L _ HL0. lia.
  - rewrite EL. rewrite seq_length in PBA. cbn [Nat.add] in PBA.
    set (m := map ps_wires all') in *.
    set (outs := map (fun st => out_go c (ps_wires st)) all').
    assert (Louts : length outs = length sts).
    { unfold outs. rewrite map_length, LA. assumption. }
    assert (Ok_out : forall w, In w (output_wires c) -> okw v m w).
    { intros w Hw. rewrite forallb_forall in WO. specialize (WO w Hw).
      destruct PBA as [PI PL].
      destruct (final_asg_src _ _ _ WO) as [Hi|(g & Hg & Ho)].
      - apply PI. apply init_asg_true. assumption.
      - destruct (in_combine_exists (gates c) (gate_levels c) g (eq_sym LL) Hg) as (L & HinL).
        rewrite <- Ho. apply (PL g L HinL). specialize (LB g L HinL). lia. }
    set (Lo := Lw - (nwires c - noutputs c)).
    assert (HLo : noutputs c <= Lo) by (unfold Lo, Lw; lia).
    assert (Rout : forall r, In r outs -> length r = Lo).
    { intros r Hr. unfold outs in Hr. apply in_map_iff in Hr. destruct Hr as (st & <- & Hst).
      unfold out_go. rewrite skipn_length. rewrite (RLA (ps_wires st)) by (apply in_map; assumption). reflexivity. }
    assert (Low : length (output_wires c) = noutputs c) by (unfold output_wires; apply seq_length).
    assert (Each : forall p, p < length outs -> split_out c (bxor_bits p outs) = eval_plain c x).
    { intros p Hp. rewrite (bxor_bits_eq outs Lo p Rout Hp).
      unfold eval_plain, split_out, take_pad. fold v.
      rewrite <- (map_nth_seq (fun w => nth w v false) (output_wires c) 0). rewrite Low.
      apply map_ext_in. intros i Hi. apply in_seq in Hi.
      rewrite (nth_map_seq (fun i0 => xorb_all (map (fun r => nth i0 r false) outs)) Lo i false) by lia.
      rewrite <- (Ok_out (nth i (output_wires c) 0)) by (apply nth_In; lia).
      unfold xor_col, m, outs. rewrite !map_map. f_equal. apply map_ext. intro st.
      unfold out_go. rewrite nth_skipn. unfold output_wires. rewrite seq_nth by lia. reflexivity. }
    eexists. eexists. split; [reflexivity|].
    split; [rewrite LA; assumption|].
    split; [intros st Hin; apply RLA; apply in_map; assumption|].
    split; [assumption|]. split; [assumption|]. split.
    + unfold mapi. rewrite mapi_from_length. assumption.
    + intros o Ho. unfold mapi in Ho.
      rewrite (mapi_from_seq (fun p => split_out c (bxor_bits p outs)) outs 0) in Ho.
      apply in_map_iff in Ho. destruct Ho as (p & <- & Hp). apply in_seq in Hp. apply Each. lia.
Qed.

Definition job_ok (n : nat) (j : job) : Prop :=
  wf (jc j) = true /\ ssa (jc j) = true /\ gmw_supported (jc j) = true /\
  map (@length bool) (jinputs j) = jisz j /\ fold_right Nat.add 0 (jisz j) = ninputs (jc j) /\
  length (jisz j) = n.

(* every run of the sequence computes its own circuit on its own inputs,
   from ANY surviving wire state of equal length at all parties *)
Theorem reuse_independent : forall jobs sts Lp,
  sts <> [] ->
  (forall st, In st sts -> length (ps_wires st) = Lp) ->
  valid_streams (map sstream sts) ->
  (forall st, In st sts -> total_need jobs <= length (sstream st)) ->
  Forall (job_ok (length sts)) jobs ->
  exists outs, run_seq jobs sts = Some outs /\
    Forall2 (fun j o => length o = length sts /\
                        forall r, In r o -> r = eval_plain (jc j) (concat (jinputs j))) jobs outs.
Proof.
  induction jobs as [|j rest IH]; intros sts Lp NE LP VS EN OK.
  - exists []. split; [reflexivity|constructor].
  - inversion OK as [|? ? (WF & SSA & SUP & HL & HS & HN) OKr]; subst.
    destruct (run_on_correct (jc j) (jisz j) (jinputs j) (jrnd j) sts Lp (total_need rest)
                WF SSA SUP HL HS HN NE LP VS) as (sts' & o & E & L' & LP' & VS' & EN' & Lo & Oo).
    { intros st Hin. specialize (EN st Hin). cbn [total_need fold_right] in EN. fold (total_need rest) in EN. exact EN. }
    assert (NE' : sts' <> []) by (intro Z; rewrite Z in L'; destruct sts; [contradiction|discriminate]).
    destruct (IH sts' (Nat.max (nwires (jc j)) Lp) NE' LP' VS' EN') as (os & Eo & F).
    { rewrite L'. assumption. }
    exists (o :: os). cbn [run_seq]. rewrite E, Eo. split; [reflexivity|].
    constructor; [split; assumption|]. rewrite L' in F. exact F.
Qed.

(* a freshly connected network *)
Corollary reuse_independent_fresh jobs pools :
  pools <> [] ->
  valid_streams (map pool_stream pools) ->
  (forall pl, In pl pools -> total_need jobs <= length (pool_stream pl)) ->
  Forall (job_ok (length pools)) jobs ->
  exists outs, run_seq jobs (fresh pools) = Some outs /\
    Forall2 (fun j o => length o = length pools /\
                        forall r, In r o -> r = eval_plain (jc j) (concat (jinputs j))) jobs outs.
Proof.
  intros NE VS EN OK.
  assert (Lf : length (fresh pools) = length pools) by (unfold fresh; apply map_length).
  assert (Sf : map sstream (fresh pools) = map pool_stream pools).
  { unfold fresh. rewrite map_map. reflexivity. }
  destruct (reuse_independent jobs (fresh pools) 0) as (outs & E & F).
  - intro Z. rewrite Z in Lf. destruct pools; [contradiction|discriminate].
  - intros st Hin. unfold fresh in Hin. apply in_map_iff in Hin. destruct Hin as (pl & <- & _). reflexivity.
  - rewrite Sf. assumption.
  - intros st Hin. assert (Hs : In (sstream st) (map pool_stream pools)) by (rewrite <- Sf; apply in_map; assumption).
    apply in_map_iff in Hs. destruct Hs as (pl & <- & Hpl). apply EN. assumption.
  - rewrite Lf. assumption.
  - exists outs. rewrite Lf in F. split; assumption.
Qed.

(* Regression record: without the truncation of Split (the opened value
   returned as it is) a small circuit after a bigger one returns the bigger
   circuit's stale wire values above bit nout. *)
Definition ex_big : circuit := mkCircuit 6 2 1 [ mkGate 0 1 2 XNOR; mkGate 0 1 3 XNOR; mkGate 2 3 4 XOR; mkGate 2 3 5 XNOR ].
Definition ex_small : circuit := mkCircuit 3 2 1 [ mkGate 0 1 2 XOR ].
Definition ex_jobs : list job :=
  [ mkJob ex_big [1; 1] [[true]; [true]] (fun _ _ => [true]);
    mkJob ex_small [1; 1] [[true]; [false]] (fun _ _ => [false]) ].

Example ex_reuse :
  run_seq ex_jobs (fresh [([], [], []); ([], [], [])]) = Some [[[true]; [true]]; [[true]; [true]]].
Proof. vm_compute. reflexivity. Qed.

(* the opened output of the second run, before Split: bit 0 is the result,
   bits 1.. are stale wires 3..5 of the first circuit *)
Example ex_reuse_stale_without_split :
  match run_on ex_big [1; 1] [[true]; [true]] (fun _ _ => [true]) (fresh [([], [], []); ([], [], [])]) with
  | Some (sts1, _) =>
      match run_on ex_small [1; 1] [[true]; [false]] (fun _ _ => [false]) sts1 with
      | Some (sts2, _) => bxor_bits 0 (map (fun st => out_go ex_small (ps_wires st)) sts2)
      | None => []
      end
  | None => []
  end = [true; true; false; true].
Proof. vm_compute. reflexivity. Qed.
