(* Gmw.v — executable model of the online phase of the GMW protocol for n
   parties (gmw/network.go: Run/run/andBatchFlush/broadcastXORs/setWires,
   gmw/peer.go: shareInput, gmw/bitvec.go: bit, gmw/triples.go: Triples.Append,
   TriplePool.Get) and of Circuit.AssignLevels (circuit/circuit.go).

   Parties are the elements of a list; the party with id 0 (the head) is the
   one that folds in the constants (XNOR, INV, d&e).  Every party state is
   passed explicitly; the pairwise exchanges (input shares, d/e opening,
   output shares) are a synchronous functional exchange: every pairwise
   channel is FIFO and the order "lower id sends first" only avoids deadlock.
   No proofs here. *)
From Coq Require Import NArith List Bool Arith Lia.
From Mpc Require Import Base.Codec Circuit.Circuit.
Import ListNotations.
Local Open Scope nat_scope.

(* ------------------------------------------------------------------ *)
(* small list helpers                                                  *)

Fixpoint mapi_from {A B} (k : nat) (f : nat -> A -> B) (l : list A) : list B :=
  match l with
  | [] => []
  | x :: t => f k x :: mapi_from (S k) f t
  end.
Definition mapi {A B} (f : nat -> A -> B) (l : list A) : list B := mapi_from 0 f l.

Fixpoint remove_nth {A} (i : nat) (l : list A) : list A :=
  match l, i with
  | [], _ => []
  | _ :: t, O => t
  | h :: t, S j => h :: remove_nth j t
  end.

(* all results present *)
Fixpoint all_some {A} (l : list (option A)) : option (list A) :=
  match l with
  | [] => Some []
  | None :: _ => None
  | Some x :: t => match all_some t with Some r => Some (x :: r) | None => None end
  end.

(* input.Bit(i) for i < n : first n bits, zero padded *)
Definition take_pad (n : nat) (bs : list bool) : list bool :=
  map (fun i => nth i bs false) (seq 0 n).

Definition vxor (a b : list bool) : list bool :=
  map (fun i => xorb (nth i a false) (nth i b false)) (seq 0 (length a)).

(* ------------------------------------------------------------------ *)
(* gmw/bitvec.go                                                       *)

(* bit(bitvec, i): word i/64, offset i%64; 0 beyond the vector *)
Definition bit (bv : list N) (i : nat) : bool :=
  N.testbit (nth (i / 64) bv 0%N) (N.of_nat (i mod 64)).

(* the accumulation loop of andBatchFlush: bit i of the batch goes to word
   i/64 at offset i%64; the last word is zero padded *)
Fixpoint pack (bs : list bool) (words : nat) : list N :=
  match words with
  | O => []
  | S k => bits_to_N (firstn 64 bs) :: pack (skipn 64 bs) k
  end.

Definition words_for (n : nat) : nat := (n + 63) / 64.

(* the same loop transcribed literally: for i := 0; i < words*64; i++ { if
   i < len(batch) && bit(i) == 1 { acc |= 1 << (i%64) }; if (i+1)%64 == 0
   { word[i/64] = acc; acc = 0 } } — position ofs of word w is set iff
   i = 64*w+ofs is a gate of the batch (i < len) and its share bit is 1; the
   last word is filled up to len - 64*(words-1) gates, which is 64 (not 0)
   when len is a multiple of 64.  GmwProof.pack_go_eq: pack_go = pack. *)
Definition pack_go (bs : list bool) (words : nat) : list N :=
  map (fun w => bits_to_N (map (fun ofs => let i := 64 * w + ofs in
                                           (i <? length bs) && nth i bs false) (seq 0 64)))
      (seq 0 words).

(* bit(andZ, i) for the n gates of a batch: what "Set result wires" reads *)
Definition unpack (n : nat) (bv : list N) : list bool := map (bit bv) (seq 0 n).

(* ------------------------------------------------------------------ *)
(* gmw/triples.go : Triples, TriplePool                                *)

(* one uint64 word of each of Triples.A, .B, .C (64 bit-triples) *)
Record triple := mkT { tA : N; tB : N; tC : N }.
Definition t0 : triple := mkT 0 0 0.
(* Triples{Words = length, A, B, C}; the zeroed capacity beyond Words that
   EnsureCapacity maintains carries no information and is not modelled *)
Definition triples := list triple.

(* Triples.Append(src, n): moves min(ceil(n/64), src.Words) whole words from
   the front of src to the end of dst; returns the number of triples moved *)
Definition triples_append (dst src : triples) (n : nat) : triples * triples * nat :=
  let words := Nat.min (words_for n) (length src) in
  (dst ++ firstn words src, skipn words src, words * 64).

(* The offline goroutine (tripleBatch) appends whole batches to Pool.triples
   at times unrelated to the consumer.  [pend] are the batches it will
   still produce, [k] of them arrive now. *)
Fixpoint arrive (k : nat) (pool : triples) (pend : list triples) : triples * list triples :=
  match k, pend with
  | S k', b :: rest => arrive k' (fst (fst (triples_append pool b (64 * length b)))) rest
  | _, _ => (pool, pend)
  end.

(* for pool.triples.Words == 0 { pool.c.Wait() } : blocks until a batch with
   at least one word arrived; None = nothing will ever arrive (stalled) *)
Fixpoint wait_nonempty (pool : triples) (pend : list triples) : option (triples * list triples) :=
  match pool, pend with
  | _ :: _, _ => Some (pool, pend)
  | [], [] => None
  | [], b :: rest => wait_nonempty (fst (fst (triples_append [] b (64 * length b)))) rest
  end.

(* TriplePool.Get(count, triples).  [sched] = how many further batches the
   producer manages to append before each iteration of the loop (arbitrary
   relative speed of the offline phase). *)
Fixpoint pool_get_loop (fuel count ofs : nat) (dst pool : triples) (pend : list triples)
         (sched : list nat) : option (triples * triples * list triples * list nat) :=
  if count <=? ofs then Some (dst, pool, pend, sched) else
  match fuel with
  | O => None
  | S f =>
      let '(pool1, pend1) := arrive (hd 0 sched) pool pend in
      match wait_nonempty pool1 pend1 with
      | None => None
      | Some (pool2, pend2) =>
          let '(dst', pool3, got) := triples_append dst pool2 (count - ofs) in
          pool_get_loop f count (ofs + got) dst' pool3 pend2 (tl sched)
      end
  end.

Definition pool_get (count : nat) (dst pool : triples) (pend : list triples) (sched : list nat) :=
  pool_get_loop count count 0 dst pool pend sched.

(* a sequence of Gets (one per AND level of a run) *)
Fixpoint get_all (counts : list nat) (pool : triples) (pend : list triples) (sched : list nat)
  : option (list triples) :=
  match counts with
  | [] => Some []
  | k :: rest =>
      match pool_get k [] pool pend sched with
      | None => None
      | Some (got, pool', pend', sched') =>
          match get_all rest pool' pend' sched' with
          | None => None
          | Some gs => Some (got :: gs)
          end
      end
  end.

(* the words the pool will deliver, in order *)
Definition stream (pool : triples) (pend : list triples) : triples := pool ++ concat pend.

(* ------------------------------------------------------------------ *)
(* circuit/circuit.go : AssignLevels(TargetGMW)                        *)

Definition is_and (g : gate) : bool := match gop g with AND => true | _ => false end.

(* returns (Gate.Level of every gate, Stats[NumLevels], final levels array) *)
Fixpoint assign_levels_loop (gs : list gate) (levels : list nat) (mx : nat)
  : list nat * nat * list nat :=
  match gs with
  | [] => ([], mx, levels)
  | g :: t =>
      let l0 := nth (gin0 g) levels 0 in
      let level := match gop g with INV => l0 | _ => Nat.max l0 (nth (gin1 g) levels 0) end in
      let out := if is_and g then S level else level in
      let '(ls, mx', fl) := assign_levels_loop t (upd levels (gout g) out) (Nat.max mx out) in
      (level :: ls, mx', fl)
  end.

(* Levels are unbounded naturals here.  In Go, Level is uint32 and the
   per-wire scratch array is []Level: no wrap below 2^32 AND levels.  The
   variant below stores [wrap out] in the per-wire array (wrap = identity is
   the code as it is; wrap = mod 2^16 is the regression record
   GmwProof.level_wrap16_refuted: a consumer of an AND of depth 65535 gets a
   level that is not above its producer's). *)
Fixpoint assign_levels_loop_w (wrap : nat -> nat) (gs : list gate) (levels : list nat) (mx : nat)
  : list nat * nat * list nat :=
  match gs with
  | [] => ([], mx, levels)
  | g :: t =>
      let l0 := nth (gin0 g) levels 0 in
      let level := match gop g with INV => l0 | _ => Nat.max l0 (nth (gin1 g) levels 0) end in
      let out := if is_and g then S level else level in
      let '(ls, mx', fl) := assign_levels_loop_w wrap t (upd levels (gout g) (wrap out)) (Nat.max mx out) in
      (level :: ls, mx', fl)
  end.
Definition wrap16 (l : nat) : nat := N.to_nat (N.of_nat l mod 65536)%N.

Definition assign_levels (c : circuit) : list nat * nat * list nat :=
  assign_levels_loop (gates c) (repeat 0 (nwires c)) 0.

Definition gate_levels (c : circuit) : list nat := fst (fst (assign_levels c)).
Definition num_levels (c : circuit) : nat := snd (fst (assign_levels c)).

(* Stats[MaxWidth]: the largest countByLevel entry.  countByLevel has
   NumWires entries in Go; [levels_in_range] is the index check. *)
Definition max_width (lv : list nat) : nat :=
  fold_left Nat.max (map (fun L => count_occ Nat.eq_dec lv L) lv) 0.
Definition levels_in_range (c : circuit) : bool :=
  forallb (fun L => L <? nwires c) (gate_levels c).

(* single assignment: no gate writes an input wire or a wire written before
   (what circuits.Compiler.Compile produces; the level-ordered evaluation
   of Network.run is only meaningful for such circuits) *)
Fixpoint ssa_gates (asg : list bool) (gs : list gate) : bool :=
  match gs with
  | [] => true
  | g :: t => negb (nth (gout g) asg false) && ssa_gates (upd asg (gout g) true) t
  end.
Definition ssa (c : circuit) : bool := ssa_gates (init_asg c) (gates c).

(* Network.run returns an error at the first gate that is not XOR/XNOR/INV/AND *)
Definition gmw_supported (c : circuit) : bool :=
  forallb (fun g => match gop g with OR => false | _ => true end) (gates c).

(* ------------------------------------------------------------------ *)
(* gmw/network.go : run                                                *)

Record pstate := mkP {
  ps_wires : list bool;        (* Network.wires (this party's XOR shares) *)
  ps_pool  : triples;          (* Pool.triples *)
  ps_pend  : list triples;     (* batches the offline phase still delivers *)
  ps_sched : list nat          (* arrival schedule, see pool_get_loop *)
}.

(* rest[i] / ands[i] : gates of level i in gate-list order *)
Definition rest_at (gl : list (gate * nat)) (i : nat) : list gate :=
  map fst (filter (fun p => negb (is_and (fst p)) && (snd p =? i)) gl).
Definition ands_at (gl : list (gate * nat)) (i : nat) : list gate :=
  map fst (filter (fun p => is_and (fst p) && (snd p =? i)) gl).

(* the switch in the rest[i] loop; [is0] = (self.id == 0).  OR (and AND,
   which never is in rest[i]) is rejected up front by gmw_supported. *)
Definition local_gate (is0 : bool) (ws : list bool) (g : gate) : list bool :=
  let a := nth (gin0 g) ws false in
  let b := nth (gin1 g) ws false in
  match gop g with
  | XOR => upd ws (gout g) (xorb a b)
  | XNOR => upd ws (gout g) (if is0 then negb (xorb a b) else xorb a b)
  | INV => upd ws (gout g) (if is0 then negb a else a)
  | _ => ws
  end.

(* andBatchFlush step 1: d = x ^ a, e = y ^ b, word packed *)
Definition and_masked (batch : list gate) (ws : list bool) (tr : triples) : list N * list N :=
  let words := words_for (length batch) in
  let xa := pack (map (fun g => nth (gin0 g) ws false) batch) words in
  let xb := pack (map (fun g => nth (gin1 g) ws false) batch) words in
  (map (fun w => N.lxor (nth w xa 0%N) (tA (nth w tr t0))) (seq 0 words),
   map (fun w => N.lxor (nth w xb 0%N) (tB (nth w tr t0))) (seq 0 words)).

(* broadcastXORs for one of the two vectors, seen from party [self]:
   result = copyOf(local); for every other peer in id order: result ^= recv *)
Definition bxor (self : nat) (all : list (list N)) (words : nat) : list N :=
  map (fun w => fold_left N.lxor (map (fun v => nth w v 0%N) (remove_nth self all))
                          (nth w (nth self all []) 0%N))
      (seq 0 words).

(* step 3: z = c ^ (d & b) ^ (e & a) [^ (d & e) at party 0] *)
Definition and_local (is0 : bool) (t : triple) (d e : N) : N :=
  let z := N.lxor (N.lxor (tC t) (N.land d (tB t))) (N.land e (tA t)) in
  if is0 then N.lxor z (N.land d e) else z.

Definition and_finish (is0 : bool) (batch : list gate) (ws : list bool) (tr : triples)
           (dO eO : list N) : list bool :=
  let words := words_for (length batch) in
  let z := map (fun w => and_local is0 (nth w tr t0) (nth w dO 0%N) (nth w eO 0%N)) (seq 0 words) in
  fold_left (fun ws jg => upd ws (gout (snd jg)) (bit z (fst jg)))
            (combine (seq 0 (length batch)) batch) ws.

(* andBatchFlush at all parties *)
Definition and_batch_flush (batch : list gate) (sts : list pstate) : option (list pstate) :=
  match batch with
  | [] => Some sts
  | _ =>
      let k := length batch in
      let words := words_for k in
      match all_some (map (fun st => pool_get k [] (ps_pool st) (ps_pend st) (ps_sched st)) sts) with
      | None => None
      | Some gets =>
          let trs := map (fun r => fst (fst (fst r))) gets in
          let de := map (fun p => and_masked batch (ps_wires (fst p)) (snd p)) (combine sts trs) in
          let ds := map fst de in
          let es := map snd de in
          Some (mapi (fun p sr =>
                        let st := fst sr in
                        let '(tr, pool', pend', sched') := snd sr in
                        mkP (and_finish (p =? 0) batch (ps_wires st) tr (bxor p ds words) (bxor p es words))
                            pool' pend' sched')
                     (combine sts gets))
      end
  end.

Definition level_step (gl : list (gate * nat)) (sts : list pstate) (i : nat) : option (list pstate) :=
  let sts1 := mapi (fun p st => mkP (fold_left (local_gate (p =? 0)) (rest_at gl i) (ps_wires st))
                                    (ps_pool st) (ps_pend st) (ps_sched st)) sts in
  and_batch_flush (ands_at gl i) sts1.

Fixpoint levels_loop (gl : list (gate * nat)) (is : list nat) (sts : list pstate) : option (list pstate) :=
  match is with
  | [] => Some sts
  | i :: rest => match level_step gl sts i with
                 | None => None
                 | Some sts' => levels_loop gl rest sts'
                 end
  end.

(* Input sharing (Peer.shareInput, Network.receiveInput, setWires).
   [rnd p q] = the random share party p sends to party q.  setWires writes,
   for every peer o, the Inputs[o].Bits bits of o's region starting at the sum
   of the sizes of the lower ids: the wire vector is the concatenation of the
   regions in id order, followed by zeros. *)
Definition others (n p : nat) : list nat := filter (fun q => negb (q =? p)) (seq 0 n).

Definition own_share (n p sz : nat) (x : list bool) (rnd : nat -> nat -> list bool) : list bool :=
  vxor (fold_left vxor (map (fun q => take_pad sz (rnd p q)) (others n p)) (repeat false sz))
       (take_pad sz x).

Definition init_party (c : circuit) (isz : list nat) (inputs : list (list bool))
           (rnd : nat -> nat -> list bool) (q : nat) : list bool :=
  let n := length isz in
  concat (mapi (fun p sz => if p =? q then own_share n p sz (nth p inputs []) rnd
                            else take_pad sz (rnd p q)) isz)
  ++ repeat false (nwires c - ninputs c).

(* output reconstruction: nw.output = wires >> (NumWires - nout), XORed with
   every peer's *)
Definition out_share (c : circuit) (ws : list bool) : list bool :=
  map (fun w => nth w ws false) (output_wires c).

Definition bxor_bits (self : nat) (all : list (list bool)) : list bool :=
  fold_left vxor (remove_nth self all) (nth self all []).

(* Network.Run at all parties.  None: error / stalled. *)
Definition run_gmw (c : circuit) (isz : list nat) (inputs : list (list bool))
           (rnd : nat -> nat -> list bool)
           (pools : list (triples * list triples * list nat)) : option (list (list bool)) :=
  let n := length isz in
  if negb (gmw_supported c) then None else
  let gl := combine (gates c) (gate_levels c) in
  let sts := mapi (fun q pl => mkP (init_party c isz inputs rnd q) (fst (fst pl)) (snd (fst pl)) (snd pl))
                  pools in
  match levels_loop gl (seq 0 (S (num_levels c))) sts with
  | None => None
  | Some sts' =>
      let outs := map (fun st => out_share c (ps_wires st)) sts' in
      Some (mapi (fun p _ => bxor_bits p outs) outs)
  end.

(* executable predicate on one word position of all parties' triples *)
Definition xorN (l : list N) : N := fold_right N.lxor 0%N l.
Definition triple_valid (ts : list triple) : bool :=
  N.eqb (xorN (map tC ts)) (N.land (xorN (map tA ts)) (xorN (map tB ts))).

(* the j-th word of every party's stream *)
Definition col (j : nat) (streams : list triples) : list triple :=
  map (fun s => nth j s t0) streams.

(* number of triple words a run consumes *)
Definition need_from (gl : list (gate * nat)) (is : list nat) : nat :=
  fold_right (fun i acc => words_for (length (ands_at gl i)) + acc) 0 is.
Definition words_needed (c : circuit) : nat :=
  need_from (combine (gates c) (gate_levels c)) (seq 0 (S (num_levels c))).
