(* PoolSyncProof.v — the triple pool's condition-variable protocol loses no
   wake-up (PoolSync.v), and the variant with the Signal hoisted out of the
   chunk loop does. *)
From Coq Require Import ZArith List Bool Arith Lia.
From Mpc Require Import Gen.Consts Gmw.PoolSync.
Import ListNotations.
Local Open Scope nat_scope.

Section Faithful.
  Variable lwm : nat.
  Variable bsz : nat -> nat.

  Notation get_loop' := (get_loop lwm false).
  Notation step' := (step lwm bsz false).
  Notation reachable' := (reachable lwm bsz false).

  (* closed form of the critical section of Get *)
  Lemma get_loop_spec n w g : 0 < n ->
    get_loop' (S n) n w g =
    if w =? 0 then (CWaiting n, 0, g)
    else if n <=? w then (CIdle, w - n, if w - n <=? lwm then wake_g g else g)
    else (CWaiting (n - w), 0, wake_g g).
  Proof.
    intro Hn. destruct n as [|n]; [lia|]. cbn [get_loop].
    destruct (Nat.eqb_spec w 0) as [->|Hw]; [reflexivity|].
    cbn [negb andb]. destruct (Nat.leb_spec (S n) w) as [Hle|Hgt].
    - rewrite Nat.min_l by lia. rewrite Nat.sub_diag. destruct n; reflexivity.
    - rewrite Nat.min_r by lia. rewrite Nat.sub_diag.
      assert (E : S n - w = S (n - w)) by lia. rewrite E.
      destruct n as [|n]; [lia|]. cbn [get_loop Nat.eqb Nat.leb]. reflexivity.
  Qed.

  (* I1: a parked generator saw Words > lowWaterMark and nobody took words
         below the mark since without signalling;
     I2: a parked consumer has an unsatisfied request and the pool is empty
         (every Append of the generator signals) *)
  Definition inv (s : pst) : Prop :=
    (gst s = GWaiting -> lwm < words s) /\
    (forall n, cst s = CWaiting n -> words s = 0 /\ 0 < n) /\
    (forall n, cst s = CReady n \/ cst s = CWoken n -> 0 < n).

  Lemma wake_g_not_waiting g : wake_g g <> GWaiting.
  Proof. destruct g; discriminate. Qed.

  Lemma inv_step l s s' : inv s -> step' l s = Some s' -> inv s'.
  Proof.
    intros (I1 & I2 & I3) H. destruct l as [| |n]; simpl in H.
    - (* consumer *)
      unfold cons_step in H.
      assert (Hc : exists n, (cst s = CReady n \/ cst s = CWoken n)).
      { destruct (cst s) eqn:E; try discriminate; eexists; eauto. }
      destruct Hc as (n & Hc). pose proof (I3 n Hc) as Hn.
      assert (E : Some s' = let '(c', w', g') := get_loop' (S n) n (words s) (gst s) in
                            Some (mkS w' (nbatch s) c' g')).
      { destruct Hc as [Hc|Hc]; rewrite Hc in H; symmetry; exact H. }
      clear H. rewrite (get_loop_spec n (words s) (gst s) Hn) in E.
      destruct (Nat.eqb_spec (words s) 0) as [Hw|Hw].
      + inversion E; subst s'; cbn [gst words cst nbatch]. split; [|split].
        * intro G. specialize (I1 G). lia.
        * intros m Hm. inversion Hm; subst. split; [reflexivity|assumption].
        * intros m [Hm|Hm]; discriminate.
      + destruct (Nat.leb_spec n (words s)) as [Hle|Hgt]; inversion E; subst s'; cbn [gst words cst nbatch].
        * split; [|split].
          -- destruct (Nat.leb_spec (words s - n) lwm) as [Hl|Hl]; intro G.
             ++ exfalso. exact (wake_g_not_waiting _ G).
             ++ assumption.
          -- intros m Hm. discriminate.
          -- intros m [Hm|Hm]; discriminate.
        * split; [|split].
          -- intro G. exfalso. exact (wake_g_not_waiting _ G).
          -- intros m Hm. inversion Hm; subst. split; [reflexivity|lia].
          -- intros m [Hm|Hm]; discriminate.
    - (* generator *)
      unfold gen_step in H. destruct (gst s) eqn:G; inversion H; subst s'; cbn [gst words cst nbatch].
      + split; [|split; assumption].
        destruct (Nat.ltb_spec lwm (words s)); [intros; assumption|intro X; discriminate X].
      + split; [|split; assumption].
        destruct (Nat.ltb_spec lwm (words s)); [intros; assumption|intro X; discriminate X].
      + split; [discriminate|]. split.
        * intros m Hm. destruct (cst s); discriminate.
        * intros m [Hm|Hm]; destruct (cst s) eqn:C; try discriminate.
          -- inversion Hm; subst. apply (I3 m). left. reflexivity.
          -- inversion Hm; subst. apply (I2 m). reflexivity.
          -- inversion Hm; subst. apply (I3 m). right. reflexivity.
    - (* a new Get *)
      unfold get_step in H. destruct (cst s) eqn:C; try discriminate.
      inversion H; subst s'; cbn [gst words cst nbatch]. split; [assumption|]. split.
      + intros m Hm. destruct n; discriminate.
      + intros m [Hm|Hm]; destruct n; try discriminate. inversion Hm; subst. lia.
  Qed.

  Lemma inv_reachable s : reachable' s -> inv s.
  Proof.
    induction 1 as [|l s s' R IH H].
    - split; [discriminate|]. split; [intros n H; discriminate|intros n [H|H]; discriminate].
    - eapply inv_step; eassumption.
  Qed.

  (* no lost wake-up: whenever the consumer is blocked in Get on an
     unsatisfied request, the generator is not parked without a pending
     Signal — for every request size, in particular larger than the pool *)
  Theorem no_lost_wakeup s : reachable' s ->
    forall n, cst s = CWaiting n -> 0 < n /\ gst s <> GWaiting.
  Proof.
    intros R n Hc. destruct (inv_reachable s R) as (I1 & I2 & _).
    destruct (I2 n Hc) as [Hw Hn]. split; [assumption|].
    intro G. specialize (I1 G). lia.
  Qed.

  Corollary never_lost s : reachable' s -> lost_wakeup s = false.
  Proof.
    intro R. unfold lost_wakeup. destruct (cst s) eqn:C; try reflexivity.
    destruct (gst s) eqn:G; try reflexivity.
    destruct (no_lost_wakeup s R need C) as [_ H]. contradiction.
  Qed.

  (* so some goroutine can always run while a request is outstanding *)
  Theorem deadlock_free s : reachable' s -> cst s <> CIdle ->
    exists s', cons_step lwm false s = Some s' \/ gen_step lwm bsz s = Some s'.
  Proof.
    intros R NI. destruct (cst s) eqn:C; [contradiction| | |].
    - unfold cons_step. rewrite C. destruct (get_loop' (S need) need (words s) (gst s)) as [[c' w'] g'].
      eexists. left. reflexivity.
    - destruct (no_lost_wakeup s R need C) as [_ G].
      unfold gen_step. destruct (gst s); try contradiction; eexists; right; reflexivity.
    - unfold cons_step. rewrite C. destruct (get_loop' (S need) need (words s) (gst s)) as [[c' w'] g'].
      eexists. left. reflexivity.
  Qed.
End Faithful.

Lemma exec_reachable lwm bsz h : forall ls s, reachable lwm bsz h s -> reachable lwm bsz h (exec lwm bsz h ls s).
Proof.
  induction ls as [|l ls IH]; intros s R; [assumption|]. simpl.
  destruct (step lwm bsz h l s) eqn:E; [|apply IH; assumption].
  apply IH. eapply r_step; eassumption.
Qed.

(* Regression record: with the Signal hoisted out of the chunk loop (issued
   once after the whole request is satisfied) and the constants of the Go
   code, the generator fills the pool (64 + 32*128 = 4160 words >
   lowWaterMark) and parks; a Get of 4219 words (270000 triples, one AND
   level wider than the pool) drains the pool and waits: lost wake-up. *)
Definition wide_schedule : list label := repeat LGen 67 ++ [LGet 4219; LCons].

Lemma pool_no_lost_wakeup_hoisted_refuted :
  exists s, reachable go_lwm go_bsz true s /\ lost_wakeup s = true /\
            cst s = CWaiting 59 /\ gst s = GWaiting /\ words s = 0.
Proof.
  exists (exec go_lwm go_bsz true wide_schedule (init)).
  split; [apply exec_reachable; constructor|]. vm_compute. repeat split.
Qed.

(* the same schedule with the code as it is: the generator has been
   signalled, and a fair schedule completes the request *)
Example wide_schedule_faithful :
  let s := exec go_lwm go_bsz false wide_schedule init in
  cst s = CWaiting 59 /\ gst s = GWoken /\ cst (run_rr go_lwm go_bsz false 3 s) = CIdle.
Proof. vm_compute. repeat split. Qed.

(* ------------------------------------------------------------------ *)
(* under a fair (round-robin) schedule every Get is satisfied           *)

Definition need_of (c : cstate) : nat :=
  match c with CIdle => 0 | CReady n | CWaiting n | CWoken n => n end.

Section Live.
  Variable lwm : nat.
  Variable bsz : nat -> nat.
  Hypothesis bsz_pos : forall k, 1 <= bsz k.

  Notation inv' := (inv lwm).
  Notation exec' := (exec lwm bsz false).
  Notation rr := (run_rr lwm bsz false).

  Lemma run_rr_add a : forall b s, rr (a + b) s = rr b (rr a s).
  Proof. induction a as [|a IH]; intros b s; [reflexivity|]. cbn [Nat.add run_rr]. apply IH. Qed.

  Lemma inv_exec ls : forall s, inv' s -> inv' (exec' ls s).
  Proof.
    induction ls as [|l ls IH]; intros s I; [assumption|]. simpl.
    destruct (step lwm bsz false l s) eqn:E; [|apply IH; assumption].
    apply IH. eapply inv_step; eassumption.
  Qed.

  Lemma inv_rr k : forall s, inv' s -> inv' (rr k s).
  Proof. induction k as [|k IH]; intros s I; [assumption|]. cbn [run_rr]. apply IH. apply (inv_exec [LGen; LCons]). assumption. Qed.

  (* one consumer critical section when runnable *)
  Lemma cons_runnable s n : (cst s = CReady n \/ cst s = CWoken n) -> 0 < n ->
    cons_step lwm false s =
    Some (if words s =? 0 then mkS 0 (nbatch s) (CWaiting n) (gst s)
          else if n <=? words s then mkS (words s - n) (nbatch s) CIdle
                                         (if words s - n <=? lwm then wake_g (gst s) else gst s)
          else mkS 0 (nbatch s) (CWaiting (n - words s)) (wake_g (gst s))).
  Proof.
    intros Hc Hn. unfold cons_step.
    assert (E : match cst s with
                | CReady n0 | CWoken n0 =>
                    let '(c', w', g') := get_loop lwm false (S n0) n0 (words s) (gst s) in
                    Some (mkS w' (nbatch s) c' g')
                | _ => None end =
                let '(c', w', g') := get_loop lwm false (S n) n (words s) (gst s) in
                Some (mkS w' (nbatch s) c' g')) by (destruct Hc as [-> | ->]; reflexivity).
    rewrite E, (get_loop_spec lwm n (words s) (gst s) Hn).
    destruct (words s =? 0); [reflexivity|]. destruct (n <=? words s); reflexivity.
  Qed.

  (* a runnable consumer that finds words makes progress *)
  Lemma cons_progress s n : (cst s = CReady n \/ cst s = CWoken n) -> 0 < n -> 0 < words s ->
    need_of (cst (exec' [LCons] s)) < n.
  Proof.
    intros Hc Hn Hw. simpl. rewrite (cons_runnable s n Hc Hn).
    destruct (Nat.eqb_spec (words s) 0); [lia|].
    destruct (Nat.leb_spec n (words s)); simpl; lia.
  Qed.

  Lemma cons_empty s n : (cst s = CReady n \/ cst s = CWoken n) -> 0 < n -> words s = 0 ->
    exec' [LCons] s = mkS 0 (nbatch s) (CWaiting n) (gst s).
  Proof. intros Hc Hn Hw. simpl. rewrite (cons_runnable s n Hc Hn), Hw. reflexivity. Qed.

  (* a parked consumer is served within two rounds *)
  Lemma waiting_progress s n : inv' s -> cst s = CWaiting n ->
    exists k, k <= 2 /\ need_of (cst (rr k s)) < n.
  Proof.
    intros I Hc. destruct I as (I1 & I2 & I3). destruct (I2 n Hc) as [Hw Hn].
    assert (NG : gst s <> GWaiting) by (intro G; specialize (I1 G); lia).
    assert (Hprod : forall t, cst t = CWaiting n -> gst t = GProduce -> words t = 0 ->
              need_of (cst (rr 1 t)) < n).
    { intros t Ct Gt Wt.
      assert (E1 : exec' [LGen] t = mkS (words t + bsz (nbatch t)) (S (nbatch t)) (wake_c (cst t)) GCheck).
      { simpl. unfold gen_step. rewrite Gt. reflexivity. }
      change (rr 1 t) with (exec' [LCons] (exec' [LGen] t)). rewrite E1.
      apply cons_progress; cbn [cst words]; [rewrite Ct; right; reflexivity|assumption|].
      pose proof (bsz_pos (nbatch t)). lia. }
    destruct (gst s) eqn:G; try contradiction.
    - (* GCheck: goes to produce (pool empty), consumer still parked *)
      exists 2. split; [lia|]. change 2 with (1 + 1). rewrite run_rr_add.
      assert (E : rr 1 s = mkS (words s) (nbatch s) (cst s) GProduce).
      { change (rr 1 s) with (exec' [LCons] (exec' [LGen] s)).
        assert (E1 : exec' [LGen] s = mkS (words s) (nbatch s) (cst s) GProduce).
        { simpl. unfold gen_step. rewrite G, Hw. reflexivity. }
        rewrite E1. simpl. unfold cons_step. cbn [cst]. rewrite Hc. reflexivity. }
      rewrite E. apply Hprod; cbn [cst gst words]; first [assumption|reflexivity].
    - exists 2. split; [lia|]. change 2 with (1 + 1). rewrite run_rr_add.
      assert (E : rr 1 s = mkS (words s) (nbatch s) (cst s) GProduce).
      { change (rr 1 s) with (exec' [LCons] (exec' [LGen] s)).
        assert (E1 : exec' [LGen] s = mkS (words s) (nbatch s) (cst s) GProduce).
        { simpl. unfold gen_step. rewrite G, Hw. reflexivity. }
        rewrite E1. simpl. unfold cons_step. cbn [cst]. rewrite Hc. reflexivity. }
      rewrite E. apply Hprod; cbn [cst gst words]; first [assumption|reflexivity].
    - exists 1. split; [lia|]. apply Hprod; assumption.
  Qed.

  Lemma progress s : inv' s -> 0 < need_of (cst s) ->
    exists k, k <= 3 /\ need_of (cst (rr k s)) < need_of (cst s).
  Proof.
    intros I Hn. destruct (cst s) eqn:C; cbn [need_of] in *; [lia| | |].
    - (* runnable *)
      set (s1 := exec' [LGen] s).
      assert (I1 : inv' s1) by (apply inv_exec; assumption).
      assert (C1 : cst s1 = CReady need).
      { unfold s1. simpl. unfold gen_step. destruct (gst s); cbn [cst]; rewrite ?C; reflexivity. }
      assert (R1 : rr 1 s = exec' [LCons] s1) by reflexivity.
      destruct (Nat.eq_dec (words s1) 0) as [Hw|Hw].
      + rewrite (cons_empty s1 need (or_introl C1) Hn Hw) in R1.
        set (s2 := mkS 0 (nbatch s1) (CWaiting need) (gst s1)) in *.
        assert (I2 : inv' s2) by (rewrite <- R1; apply inv_rr; assumption).
        destruct (waiting_progress s2 need I2 eq_refl) as (k & Hk & P).
        exists (1 + k). split; [lia|]. rewrite run_rr_add, R1. assumption.
      + exists 1. split; [lia|]. rewrite R1. apply cons_progress; [left; assumption|assumption|lia].
    - destruct (waiting_progress s need I C) as (k & Hk & P). exists k. split; [lia|assumption].
    - set (s1 := exec' [LGen] s).
      assert (I1 : inv' s1) by (apply inv_exec; assumption).
      assert (C1 : cst s1 = CWoken need).
      { unfold s1. simpl. unfold gen_step. destruct (gst s); cbn [cst]; rewrite ?C; reflexivity. }
      assert (R1 : rr 1 s = exec' [LCons] s1) by reflexivity.
      destruct (Nat.eq_dec (words s1) 0) as [Hw|Hw].
      + rewrite (cons_empty s1 need (or_intror C1) Hn Hw) in R1.
        set (s2 := mkS 0 (nbatch s1) (CWaiting need) (gst s1)) in *.
        assert (I2 : inv' s2) by (rewrite <- R1; apply inv_rr; assumption).
        destruct (waiting_progress s2 need I2 eq_refl) as (k & Hk & P).
        exists (1 + k). split; [lia|]. rewrite run_rr_add, R1. assumption.
      + exists 1. split; [lia|]. rewrite R1. apply cons_progress; [right; assumption|assumption|lia].
  Qed.

  Lemma rr_completes_inv : forall n s, inv' s -> need_of (cst s) <= n ->
    exists k, k <= 3 * n /\ cst (rr k s) = CIdle.
  Proof.
    induction n as [|n IH]; intros s I Hn.
    - exists 0. split; [lia|]. simpl. destruct I as (_ & I2 & I3).
      destruct (cst s) eqn:C; [reflexivity| | |]; cbn [need_of] in Hn.
      + specialize (I3 need (or_introl eq_refl)). lia.
      + destruct (I2 need eq_refl). lia.
      + specialize (I3 need (or_intror eq_refl)). lia.
    - destruct (Nat.eq_dec (need_of (cst s)) 0) as [Z|NZ].
      + destruct (IH s I ltac:(lia)) as (k & Hk & E). exists k. split; [lia|assumption].
      + destruct (progress s I ltac:(lia)) as (k1 & Hk1 & P).
        destruct (IH (rr k1 s) (inv_rr k1 s I) ltac:(lia)) as (k2 & Hk2 & E).
        exists (k1 + k2). split; [lia|]. rewrite run_rr_add. assumption.
  Qed.

  (* every Get(count), for every count (also larger than the pool can hold),
     returns within 3 * ceil(count/64) rounds of the round-robin schedule *)
  Theorem get_completes s : reachable lwm bsz false s ->
    exists k, k <= 3 * need_of (cst s) /\ cst (run_rr lwm bsz false k s) = CIdle.
  Proof. intro R. apply rr_completes_inv; [apply (inv_reachable lwm bsz); assumption|lia]. Qed.
End Live.
