(* GmwProof.v — theorems about the GMW model (Gmw.v, Pool.v). *)
From Coq Require Import ZArith NArith List Bool Arith Lia.
From Mpc Require Import Base.Codec Circuit.Circuit Gmw.Gmw Gmw.Pool.
Import ListNotations.
Local Open Scope nat_scope.

Ltac bitwise :=
  apply N.bits_inj; let k := fresh "k" in intro k;
  repeat (rewrite ?N.lxor_spec, ?N.land_spec, ?N.bits_0);
  repeat match goal with |- context [N.testbit ?x k] => destruct (N.testbit x k) end; reflexivity.

(* Beaver's identity on words *)
Lemma beaver_word x y a b :
  N.lxor (N.lxor (N.lxor (N.land a b) (N.land (N.lxor x a) b)) (N.land (N.lxor y b) a))
         (N.land (N.lxor x a) (N.lxor y b)) = N.land x y.
Proof. bitwise. Qed.

(* ------------------------------------------------------------------ *)
(* xor over lists                                                      *)

Definition xorb_all (l : list bool) : bool := fold_right xorb false l.

Lemma xorb_all_app a b : xorb_all (a ++ b) = xorb (xorb_all a) (xorb_all b).
Proof. induction a as [|x a IH]; simpl; [destruct (xorb_all b); reflexivity|]. rewrite IH. destruct x, (xorb_all a), (xorb_all b); reflexivity. Qed.

Lemma xorb_all_map2 {A} (f g : A -> bool) l :
  xorb_all (map (fun x => xorb (f x) (g x)) l) = xorb (xorb_all (map f l)) (xorb_all (map g l)).
Proof. induction l as [|x l IH]; simpl; [reflexivity|]. rewrite IH. destruct (f x), (g x), (xorb_all (map f l)), (xorb_all (map g l)); reflexivity. Qed.

Lemma xorN_app a b : xorN (a ++ b) = N.lxor (xorN a) (xorN b).
Proof. induction a as [|x a IH]; simpl; [reflexivity|]. rewrite IH, N.lxor_assoc. reflexivity. Qed.

Lemma testbit_xorN l k : N.testbit (xorN l) k = xorb_all (map (fun x => N.testbit x k) l).
Proof. induction l as [|x l IH]; [destruct k; reflexivity|]. simpl. rewrite N.lxor_spec, IH. reflexivity. Qed.

Lemma fold_left_lxor l a : fold_left N.lxor l a = N.lxor a (xorN l).
Proof.
  revert a; induction l as [|x l IH]; intro a; simpl; [rewrite N.lxor_0_r; reflexivity|].
  rewrite IH, N.lxor_assoc. reflexivity.
Qed.

Lemma xorN_map2 {A} (f g : A -> N) l :
  xorN (map (fun x => N.lxor (f x) (g x)) l) = N.lxor (xorN (map f l)) (xorN (map g l)).
Proof.
  induction l as [|x l IH]; simpl; [reflexivity|]. rewrite IH.
  set (a := f x); set (b := g x); set (c := xorN (map f l)); set (d := xorN (map g l)). bitwise.
Qed.

Lemma xorN_land_const {A} (d : N) (f : A -> N) l :
  xorN (map (fun x => N.land d (f x)) l) = N.land d (xorN (map f l)).
Proof.
  induction l as [|x l IH]; simpl; [rewrite N.land_0_r; reflexivity|]. rewrite IH.
  set (a := f x); set (c := xorN (map f l)). bitwise.
Qed.

Lemma xorN_remove_nth {A} (f : A -> N) (d : A) : forall l p, p < length l ->
  N.lxor (f (nth p l d)) (xorN (map f (remove_nth p l))) = xorN (map f l).
Proof.
  induction l as [|x l IH]; intros [|p] H; simpl in *; try lia.
  rewrite <- (IH p) by lia.
  set (a := f x); set (b := f (nth p l d)); set (c := xorN (map f (remove_nth p l))). bitwise.
Qed.

Lemma nth_map_seq {A} (f : nat -> A) n w d : w < n -> nth w (map f (seq 0 n)) d = f w.
Proof.
  intro H. rewrite (nth_indep _ d (f 0)) by (rewrite map_length, seq_length; lia).
  rewrite map_nth, seq_nth by lia. reflexivity.
Qed.

(* every party obtains the same opened vector *)
Lemma bxor_open self all words w : self < length all -> w < words ->
  nth w (bxor self all words) 0%N = xorN (map (fun v => nth w v 0%N) all).
Proof.
  intros Hs Hw. unfold bxor. rewrite nth_map_seq by lia.
  rewrite fold_left_lxor. apply (xorN_remove_nth (fun v => nth w v 0%N) []); assumption.
Qed.

(* ------------------------------------------------------------------ *)
(* C10_triples_valid                                                    *)

Definition minus_p (L : list nat) (p : nat) : list nat := filter (fun q => negb (q =? p)) L.

Lemma minus_p_notin L p : ~ In p L -> minus_p L p = L.
Proof.
  induction L as [|x L IH]; intro H; simpl; [reflexivity|].
  destruct (x =? p) eqn:E; simpl.
  - apply Nat.eqb_eq in E. exfalso. apply H. left. assumption.
  - f_equal. apply IH. intro. apply H. right. assumption.
Qed.

Lemma xorN_ext_in {A} (f g : A -> N) l : (forall x, In x l -> f x = g x) -> xorN (map f l) = xorN (map g l).
Proof. intro H. f_equal. apply map_ext_in. assumption. Qed.

Lemma xorN_cons {A} (f : A -> N) x l : xorN (map f (x :: l)) = N.lxor (f x) (xorN (map f l)).
Proof. reflexivity. Qed.

Lemma lxor_swap4 a b c d : N.lxor (N.lxor a b) (N.lxor c d) = N.lxor (N.lxor a c) (N.lxor b d).
Proof. bitwise. Qed.

(* sum over ordered pairs of distinct parties: the two indices can be swapped *)
Lemma pair_sum_swap (f : nat -> nat -> N) : forall L, NoDup L ->
  xorN (map (fun p => xorN (map (fun q => f p q) (minus_p L p))) L) =
  xorN (map (fun p => xorN (map (fun q => f q p) (minus_p L p))) L).
Proof.
  induction L as [|x L IH]; intro ND; [reflexivity|].
  inversion ND as [|? ? Hx ND']; subst.
  assert (Hhead : minus_p (x :: L) x = L).
  { unfold minus_p; simpl. rewrite Nat.eqb_refl. simpl. apply minus_p_notin. assumption. }
  assert (Htail : forall p, In p L -> minus_p (x :: L) p = x :: minus_p L p).
  { intros p Hp. unfold minus_p; simpl. destruct (x =? p) eqn:E; [|reflexivity].
    apply Nat.eqb_eq in E. subst. contradiction. }
  rewrite !xorN_cons. rewrite Hhead.
  rewrite (xorN_ext_in (fun p => xorN (map (fun q => f p q) (minus_p (x :: L) p)))
                       (fun p => N.lxor (f p x) (xorN (map (fun q => f p q) (minus_p L p)))) L).
  2:{ intros p Hp. rewrite Htail by assumption. reflexivity. }
  rewrite (xorN_ext_in (fun p => xorN (map (fun q => f q p) (minus_p (x :: L) p)))
                       (fun p => N.lxor (f x p) (xorN (map (fun q => f q p) (minus_p L p)))) L).
  2:{ intros p Hp. rewrite Htail by assumption. reflexivity. }
  rewrite !xorN_map2. rewrite (IH ND').
  set (A := xorN (map (fun q => f x q) L)). set (B := xorN (map (fun p => f p x) L)).
  set (C := xorN (map _ L)).
  change (xorN (map (fun q => f q x) L)) with B. change (xorN (map (fun p => f x p) L)) with A.
  bitwise.
Qed.

Lemma xorN_split_at (h : nat -> N) : forall L p, NoDup L -> In p L ->
  xorN (map h L) = N.lxor (h p) (xorN (map h (minus_p L p))).
Proof.
  induction L as [|x L IH]; intros p ND Hin; [contradiction|].
  inversion ND as [|? ? Hx ND']; subst. unfold minus_p. simpl.
  destruct (x =? p) eqn:E; simpl.
  - apply Nat.eqb_eq in E; subst. fold (minus_p L p). rewrite minus_p_notin by assumption. reflexivity.
  - destruct Hin as [->|Hin]; [rewrite Nat.eqb_refl in E; discriminate|].
    fold (minus_p L p). rewrite (IH p ND' Hin).
    set (a := h x); set (b := h p); set (c := xorN _). bitwise.
Qed.

Lemma xorN_land_const_r {A} (d : N) (f : A -> N) l :
  xorN (map (fun x => N.land (f x) d) l) = N.land (xorN (map f l)) d.
Proof.
  rewrite (N.land_comm _ d), <- xorN_land_const. f_equal. apply map_ext. intro. apply N.land_comm.
Qed.

Section TriplesValid.
  Variable words : nat.
  Variable a b : nat -> list N.
  Variable sb : nat -> nat -> list N.
  Variable dl : nat -> nat -> bool.
  Variable rb : nat -> nat -> list N.

  Lemma cross_fold p w : forall l c,
    fold_left (cross a b sb dl rb p w) l c =
    N.lxor c (xorN (map (fun q => N.lxor (term_send a b sb dl p q w) (term_recv rb p q w)) l)).
  Proof.
    induction l as [|q l IH]; intro c; simpl; [rewrite N.lxor_0_r; reflexivity|].
    rewrite IH. unfold cross. destruct (p <? q);
    set (s := term_send a b sb dl p q w); set (r := term_recv rb p q w); set (X := xorN _); bitwise.
  Qed.

  (* over an arbitrary duplicate-free list of party ids *)
  Lemma triples_valid_list (L : list nat) (w : nat) :
    NoDup L ->
    (forall p q, In p L -> In q L -> p <> q ->
       nth w (rb p q) 0%N = N.lxor (nth w (sb p q) 0%N) (N.land (nth w (b q) 0%N) (dmask (dl p q)))) ->
    xorN (map (fun p => fold_left (cross a b sb dl rb p w) (minus_p L p)
                                  (N.land (nth w (a p) 0%N) (nth w (b p) 0%N))) L)
    = N.land (xorN (map (fun p => nth w (a p) 0%N) L)) (xorN (map (fun p => nth w (b p) 0%N) L)).
  Proof.
    intros ND COT.
    set (av := fun p => nth w (a p) 0%N). set (bv := fun p => nth w (b p) 0%N).
    rewrite (xorN_ext_in _ (fun p => N.lxor (N.land (av p) (bv p))
               (xorN (map (fun q => N.lxor (term_send a b sb dl p q w) (term_recv rb p q w)) (minus_p L p)))) L).
    2:{ intros p _. cbv beta. apply cross_fold. }
    rewrite xorN_map2.
    (* split the pair sum into the sender and the receiver terms, swap the latter *)
    rewrite (xorN_ext_in (fun p => xorN (map (fun q => N.lxor (term_send a b sb dl p q w) (term_recv rb p q w)) (minus_p L p)))
                         (fun p => N.lxor (xorN (map (fun q => term_send a b sb dl p q w) (minus_p L p)))
                                          (xorN (map (fun q => nth w (rb q p) 0%N) (minus_p L p)))) L).
    2:{ intros p _. cbv beta. apply (xorN_map2 (fun q => term_send a b sb dl p q w) (fun q => nth w (rb q p) 0%N)). }
    rewrite xorN_map2.
    rewrite <- (pair_sum_swap (fun p q => nth w (rb p q) 0%N) L ND).
    rewrite <- (xorN_map2 (fun p => xorN (map (fun q => term_send a b sb dl p q w) (minus_p L p)))
                          (fun p => xorN (map (fun q => nth w (rb p q) 0%N) (minus_p L p)))).
    match goal with |- N.lxor _ (xorN (map ?F L)) = _ =>
      rewrite (xorN_ext_in F (fun p => xorN (map (fun q => N.land (av p) (bv q)) (minus_p L p))) L) end.
    2:{ intros p Hp. cbv beta.
        rewrite <- (xorN_map2 (fun q => term_send a b sb dl p q w) (fun q => nth w (rb p q) 0%N)).
        apply xorN_ext_in. intros q Hq.
        unfold minus_p in Hq. apply filter_In in Hq. destruct Hq as [Hq Hne].
        apply negb_true_iff, Nat.eqb_neq in Hne.
        rewrite COT by auto. unfold term_send, u_word. fold (av p). fold (bv q).
        set (s := nth w (sb p q) 0%N). set (m := dmask (dl p q)). set (x := av p). set (y := bv q). bitwise. }
    rewrite <- (xorN_map2 (fun p => N.land (av p) (bv p)) (fun p => xorN (map (fun q => N.land (av p) (bv q)) (minus_p L p)))).
    match goal with |- xorN (map ?F L) = _ =>
      rewrite (xorN_ext_in F (fun p => N.land (av p) (xorN (map bv L))) L) end.
    2:{ intros p Hp. cbv beta.
        rewrite <- (xorN_split_at (fun q => N.land (av p) (bv q)) L p ND Hp).
        apply xorN_land_const. }
    apply xorN_land_const_r.
  Qed.
End TriplesValid.

Lemma others_minus n p : others n p = minus_p (seq 0 n) p.
Proof. reflexivity. Qed.

(* (1) the triples dealt by tripleBatch are valid, for any number of parties *)
Theorem triples_valid n words a b sb dl rb :
  cot_relation n words b sb dl rb ->
  forall w, w < words ->
    xorN (map (fun p => tC (nth w (triple_batch n words a b sb dl rb p) t0)) (seq 0 n))
    = N.land (xorN (map (fun p => tA (nth w (triple_batch n words a b sb dl rb p) t0)) (seq 0 n)))
             (xorN (map (fun p => tB (nth w (triple_batch n words a b sb dl rb p) t0)) (seq 0 n))).
Proof.
  intros COT w Hw. unfold triple_batch.
  rewrite !(xorN_ext_in (fun p => _ (nth w (map _ (seq 0 words)) t0)) _ (seq 0 n))
    by (intros p _; rewrite nth_map_seq by assumption; reflexivity).
  cbn [tA tB tC]. unfold c_word.
  rewrite (xorN_ext_in _ (fun p => fold_left (cross a b sb dl rb p w) (minus_p (seq 0 n) p)
                                  (N.land (nth w (a p) 0%N) (nth w (b p) 0%N))) (seq 0 n))
    by (intros; reflexivity).
  apply triples_valid_list; [apply seq_NoDup|].
  intros p q Hp Hq Hne. apply in_seq in Hp, Hq. apply COT; lia.
Qed.

Ltac div64 a :=
  let q := fresh "q" in let r := fresh "r" in
  pose proof (Nat.div_mod a 64 ltac:(lia)); pose proof (Nat.mod_upper_bound a 64 ltac:(lia));
  set (q := a / 64) in *; set (r := a mod 64) in *; clearbody q r.
Ltac divlia := unfold words_for in *;
  repeat match goal with
         | |- context [?a / 64] => div64 a
         | H : context [?a / 64] |- _ => div64 a
         end; lia.

(* ------------------------------------------------------------------ *)
(* TriplePool.Get : schedule independence                              *)

Lemma words_for_64 k : words_for (64 * k) = k.
Proof. divlia. Qed.

Lemma words_for_0 : words_for 0 = 0.
Proof. reflexivity. Qed.

Lemma words_for_pos n : 0 < n -> 0 < words_for n.
Proof. intro; divlia. Qed.

Lemma words_for_le n : words_for n <= n.
Proof. divlia. Qed.

Lemma words_for_sub n k : k < words_for n -> words_for (n - 64 * k) = words_for n - k.
Proof. intro H; divlia. Qed.

Lemma words_for_done n k : words_for n <= k -> n - 64 * k = 0.
Proof. intro H; divlia. Qed.

Lemma append_batch pool b : fst (fst (triples_append pool b (64 * length b))) = pool ++ b.
Proof.
  unfold triples_append. rewrite words_for_64, Nat.min_id. simpl. rewrite firstn_all. reflexivity.
Qed.

Lemma arrive_stream : forall k pool pend,
  stream (fst (arrive k pool pend)) (snd (arrive k pool pend)) = stream pool pend.
Proof.
  induction k as [|k IH]; intros pool pend; [reflexivity|].
  destruct pend as [|b rest]; [reflexivity|].
  change (arrive (S k) pool (b :: rest)) with (arrive k (fst (fst (triples_append pool b (64 * length b)))) rest).
  rewrite IH, append_batch.
  unfold stream. simpl. rewrite app_assoc. reflexivity.
Qed.

Lemma wait_stream : forall pend pool,
  stream pool pend <> [] ->
  exists pool' pend', wait_nonempty pool pend = Some (pool', pend') /\
                      stream pool' pend' = stream pool pend /\ pool' <> [].
Proof.
  induction pend as [|b rest IH]; intros pool H.
  - destruct pool as [|t pool]; [exfalso; apply H; reflexivity|].
    exists (t :: pool), []. simpl. repeat split. discriminate.
  - destruct pool as [|t pool].
    + change (wait_nonempty [] (b :: rest)) with (wait_nonempty (fst (fst (triples_append [] b (64 * length b)))) rest).
      rewrite append_batch. simpl app.
      destruct (IH b) as (pool' & pend' & E & S & NE).
      { unfold stream in *. simpl in H. exact H. }
      exists pool', pend'. repeat split; try assumption.
    + exists (t :: pool), (b :: rest). simpl. repeat split. discriminate.
Qed.

Lemma firstn_add {A} (a b : nat) (l : list A) : firstn (a + b) l = firstn a l ++ firstn b (skipn a l).
Proof.
  revert l; induction a as [|a IH]; intro l; [reflexivity|].
  destruct l as [|x l]; simpl; [rewrite firstn_nil; reflexivity|]. rewrite IH. reflexivity.
Qed.

Lemma skipn_add {A} (a b : nat) (l : list A) : skipn (a + b) l = skipn b (skipn a l).
Proof.
  revert l; induction a as [|a IH]; intro l; [reflexivity|].
  destruct l as [|x l]; simpl; [rewrite skipn_nil; reflexivity|]. apply IH.
Qed.

Lemma pool_get_loop_ok : forall fuel count ofs dst pool pend sched,
  words_for (count - ofs) <= fuel ->
  words_for (count - ofs) <= length (stream pool pend) ->
  exists pool' pend' sched',
    pool_get_loop fuel count ofs dst pool pend sched
    = Some (dst ++ firstn (words_for (count - ofs)) (stream pool pend), pool', pend', sched') /\
    stream pool' pend' = skipn (words_for (count - ofs)) (stream pool pend).
Proof.
  induction fuel as [|f IH]; intros count ofs dst pool pend sched Hf Hs.
  - assert (count <= ofs).
    { destruct (le_lt_dec count ofs); [assumption|].
      pose proof (words_for_pos (count - ofs)). lia. }
    simpl. destruct (Nat.leb_spec count ofs); [|lia].
    replace (count - ofs) with 0 by lia. rewrite words_for_0. simpl. rewrite app_nil_r.
    exists pool, pend, sched. split; reflexivity.
  - simpl. destruct (Nat.leb_spec count ofs) as [Hle|Hlt].
    + replace (count - ofs) with 0 by lia. rewrite words_for_0. simpl. rewrite app_nil_r.
      exists pool, pend, sched. split; reflexivity.
    + set (need := count - ofs) in *.
      assert (Hpos : 0 < words_for need) by (apply words_for_pos; unfold need; lia).
      pose proof (arrive_stream (hd 0 sched) pool pend) as HA.
      destruct (arrive (hd 0 sched) pool pend) as [pool1 pend1]. simpl in HA.
      destruct (wait_stream pend1 pool1) as (pool2 & pend2 & EW & SW & NE).
      { rewrite HA. intro E. rewrite E in Hs. simpl in Hs. lia. }
      rewrite EW. unfold triples_append.
      set (k := Nat.min (words_for need) (length pool2)).
      assert (Hk1 : 1 <= k).
      { unfold k. destruct pool2; [contradiction|]. simpl length. lia. }
      assert (Hk2 : k <= length pool2) by (unfold k; lia).
      assert (Hst : stream pool pend = pool2 ++ concat pend2).
      { rewrite <- HA, <- SW. reflexivity. }
      assert (Hrest : words_for (count - (ofs + k * 64)) = words_for need - k).
      { destruct (le_lt_dec (words_for need) k) as [Hd|Hd].
        - replace (count - (ofs + k * 64)) with (need - 64 * k) by (unfold need; lia).
          rewrite (words_for_done need k Hd). rewrite words_for_0. lia.
        - replace (count - (ofs + k * 64)) with (need - 64 * k) by (unfold need; lia).
          apply words_for_sub. assumption. }
      destruct (IH count (ofs + k * 64) (dst ++ firstn k pool2) (skipn k pool2) pend2 (tl sched))
        as (pool' & pend' & sched' & E & S).
      { rewrite Hrest. lia. }
      { rewrite Hrest. unfold stream. rewrite app_length, skipn_length.
        rewrite Hst, app_length in Hs. lia. }
      exists pool', pend', sched'. rewrite E, Hrest. split.
      * f_equal. f_equal. f_equal. f_equal. rewrite <- app_assoc. f_equal.
        replace (words_for need) with (k + (words_for need - k)) at 2 by (unfold k; lia).
        rewrite firstn_add, Hst. f_equal.
        -- rewrite firstn_app. replace (k - length pool2) with 0 by lia. simpl. rewrite app_nil_r. reflexivity.
        -- unfold stream. rewrite skipn_app. replace (k - length pool2) with 0 by lia. reflexivity.
      * rewrite S, Hrest.
        replace (words_for need) with (k + (words_for need - k)) at 2 by (unfold k; lia).
        rewrite skipn_add, Hst. f_equal.
        unfold stream. rewrite skipn_app. replace (k - length pool2) with 0 by lia. reflexivity.
Qed.

(* Get(count) returns the next ceil(count/64) words of the stream whatever
   the arrival schedule and the batch boundaries are *)
Lemma pool_get_ok count pool pend sched :
  words_for count <= length (stream pool pend) ->
  exists pool' pend' sched',
    pool_get count [] pool pend sched
    = Some (firstn (words_for count) (stream pool pend), pool', pend', sched') /\
    stream pool' pend' = skipn (words_for count) (stream pool pend).
Proof.
  intro H. unfold pool_get.
  destruct (pool_get_loop_ok count count 0 [] pool pend sched) as (pool' & pend' & sched' & E & S).
  - rewrite Nat.sub_0_r. apply words_for_le.
  - rewrite Nat.sub_0_r. assumption.
  - rewrite Nat.sub_0_r in *. exists pool', pend', sched'. split; assumption.
Qed.

Definition total_words (counts : list nat) : nat := fold_right (fun k acc => words_for k + acc) 0 counts.

(* (4) a sequence of Gets cuts the stream into consecutive ranges that depend
   on the counts only *)
Theorem pool_same_order : forall counts pool pend sched,
  total_words counts <= length (stream pool pend) ->
  get_all counts pool pend sched = Some (chunks (map words_for counts) (stream pool pend)).
Proof.
  induction counts as [|k rest IH]; intros pool pend sched H; [reflexivity|].
  simpl in H. simpl get_all.
  destruct (pool_get_ok k pool pend sched) as (pool' & pend' & sched' & E & S); [lia|].
  rewrite E. rewrite (IH pool' pend' sched').
  - simpl. rewrite S. reflexivity.
  - rewrite S, skipn_length. lia.
Qed.

(* ------------------------------------------------------------------ *)
(* AssignLevels(TargetGMW) : the level-wise schedule respects dependencies *)

(* wire u is available to a gate of level L that comes after the gates [pre]:
   it is a circuit input, or the output of an earlier gate g' whose level L'
   satisfies L' + 1 <= L when g' is an AND gate (its output is opened one
   round later) and L' <= L otherwise *)
Definition dep_ok (ni : nat) (pre : list (gate * nat)) (L u : nat) : Prop :=
  u < ni \/ exists g' L', In (g', L') pre /\ gout g' = u /\ (if is_and g' then S L' else L') <= L.

Definition gate_deps_ok (ni : nat) (pre : list (gate * nat)) (g : gate) (L : nat) : Prop :=
  dep_ok ni pre L (gin0 g) /\ (gop g <> INV -> dep_ok ni pre L (gin1 g)).

Definition levelled (ni : nat) (gl : list (gate * nat)) : Prop :=
  forall pre g L post, gl = pre ++ (g, L) :: post -> gate_deps_ok ni pre g L.

Definition lv_inv (ni : nat) (asg : list bool) (levels : list nat) (pre : list (gate * nat)) : Prop :=
  forall u, nth u asg false = true ->
    u < ni \/ exists g' L', In (g', L') pre /\ gout g' = u /\
                            (if is_and g' then S L' else L') = nth u levels 0.

Lemma gate_ok_inv n ni asg g : gate_ok n ni asg g = true ->
  gin0 g < n /\ gout g < n /\ ni <= gout g /\ nth (gin0 g) asg false = true /\
  (gop g <> INV -> gin1 g < n /\ nth (gin1 g) asg false = true).
Proof.
  unfold gate_ok. intro H.
  apply andb_prop in H. destruct H as [H H5].
  apply andb_prop in H. destruct H as [H H4].
  apply andb_prop in H. destruct H as [H H3].
  apply andb_prop in H. destruct H as [H1 H2].
  apply Nat.ltb_lt in H1, H2. apply Nat.leb_le in H3.
  repeat split; try assumption;
    destruct (gop g); try congruence; apply andb_prop in H5; destruct H5 as [X1 X2];
    try apply Nat.ltb_lt in X1; assumption.
Qed.

Lemma assign_levels_loop_sound n ni : forall gs asg levels mx pre ls mx' fl,
  wf_gates n ni asg gs = true -> length asg = n -> length levels = n ->
  lv_inv ni asg levels pre ->
  assign_levels_loop gs levels mx = (ls, mx', fl) ->
  length ls = length gs /\ mx <= mx' /\
  (forall pre2 g L post, combine gs ls = pre2 ++ (g, L) :: post -> gate_deps_ok ni (pre ++ pre2) g L) /\
  (forall g L, In (g, L) (combine gs ls) -> L <= mx').
Proof.
  induction gs as [|g t IH]; intros asg levels mx pre ls mx' fl WF La Ll INV E.
  - simpl in E. inversion E; subst. split; [reflexivity|]. split; [lia|]. split.
    + intros pre2 g L post H. simpl in H. destruct pre2; discriminate.
    + intros g L [].
  - simpl in WF. apply andb_prop in WF. destruct WF as [GO WF].
    destruct (gate_ok_inv _ _ _ _ GO) as (H0 & Ho & Hni & A0 & H1).
    simpl in E.
    set (l0 := nth (gin0 g) levels 0) in *.
    set (level := match gop g with INV => l0 | _ => Nat.max l0 (nth (gin1 g) levels 0) end) in *.
    set (out := if is_and g then S level else level) in *.
    destruct (assign_levels_loop t (upd levels (gout g) out) (Nat.max mx out)) as [[ls1 mx1] fl1] eqn:E1.
    inversion E; subst ls mx' fl. clear E.
    assert (INV' : lv_inv ni (upd asg (gout g) true) (upd levels (gout g) out) (pre ++ [(g, level)])).
    { intros u Hu. destruct (Nat.eq_dec u (gout g)) as [->|Hne].
      - right. exists g, level. split; [apply in_or_app; right; left; reflexivity|].
        split; [reflexivity|]. rewrite nth_upd_eq by lia. reflexivity.
      - rewrite nth_upd_neq in Hu by congruence. destruct (INV u Hu) as [?|(g' & L' & I & O & Q)]; [left; assumption|].
        right. exists g', L'. split; [apply in_or_app; left; assumption|]. split; [assumption|].
        rewrite nth_upd_neq by congruence. assumption. }
    assert (La' : length (upd asg (gout g) true) = n) by (rewrite upd_length; assumption).
    assert (Ll' : length (upd levels (gout g) out) = n) by (rewrite upd_length; assumption).
    destruct (IH _ _ _ _ _ _ _ WF La' Ll' INV' E1) as (Hlen & Hmx & Hdeps & Hbound).
    assert (Hl0 : l0 <= level) by (unfold level; destruct (gop g); lia).
    assert (Hlo : level <= out) by (unfold out; destruct (is_and g); lia).
    split; [|split; [|split]].
    + simpl. lia.
    + lia.
    + intros pre2 g2 L post H. simpl in H. destruct pre2 as [|x pre2].
      * simpl in H. inversion H; subst g2 L post. rewrite app_nil_r.
        split.
        -- destruct (INV _ A0) as [?|(g' & L' & I & O & Q)]; [left; assumption|].
           right. exists g', L'. repeat split; try assumption. fold l0 in Q. lia.
        -- intro Hop. destruct (H1 Hop) as [_ A1].
           destruct (INV _ A1) as [?|(g' & L' & I & O & Q)]; [left; assumption|].
           right. exists g', L'. repeat split; try assumption.
           assert (nth (gin1 g) levels 0 <= level) by (unfold level; destruct (gop g); try lia; congruence).
           lia.
      * simpl in H. inversion H; subst x. 
        replace (pre ++ (g, level) :: pre2) with ((pre ++ [(g, level)]) ++ pre2) by (rewrite <- app_assoc; reflexivity).
        eapply Hdeps. eassumption.
    + intros g2 L [H|H].
      * inversion H; subst. lia.
      * eapply Hbound. eassumption.
Qed.

Lemma init_asg_true c u : nth u (init_asg c) false = true -> u < ninputs c.
Proof.
  unfold init_asg. intro H. destruct (lt_dec u (ninputs c)); [assumption|].
  rewrite app_nth2 in H by (rewrite repeat_length; lia).
  destruct (nth_in_or_default (u - length (repeat true (ninputs c))) (repeat false (nwires c - ninputs c)) false) as [I|D].
  - apply repeat_spec in I. congruence.
  - congruence.
Qed.

Lemma init_asg_length c : ninputs c <= nwires c -> length (init_asg c) = nwires c.
Proof. intro. unfold init_asg. rewrite app_length, !repeat_length. lia. Qed.

Lemma wf_parts c : wf c = true ->
  ninputs c <= nwires c /\ noutputs c <= nwires c /\
  wf_gates (nwires c) (ninputs c) (init_asg c) (gates c) = true /\
  forallb (fun w => nth w (final_asg (init_asg c) (gates c)) false) (output_wires c) = true.
Proof.
  unfold wf. intro H. repeat (apply andb_prop in H; destruct H as [H ?]).
  apply Nat.leb_le in H. repeat split; try assumption. apply Nat.leb_le. assumption.
Qed.

(* (3) *)
Theorem levels_sound c : wf c = true ->
  let gl := combine (gates c) (gate_levels c) in
  length (gate_levels c) = length (gates c) /\
  levelled (ninputs c) gl /\
  (forall g L, In (g, L) gl -> L <= num_levels c).
Proof.
  intro WF. destruct (wf_parts c WF) as (Hni & Hno & WG & _).
  unfold gate_levels, num_levels, assign_levels.
  destruct (assign_levels_loop (gates c) (repeat 0 (nwires c)) 0) as [[ls mx] fl] eqn:E. simpl.
  destruct (assign_levels_loop_sound (nwires c) (ninputs c) (gates c) (init_asg c) (repeat 0 (nwires c)) 0 [] ls mx fl)
    as (Hlen & _ & Hdeps & Hbound); try assumption.
  - apply init_asg_length; assumption.
  - apply repeat_length.
  - intros u Hu. left. apply init_asg_true. assumption.
  - split; [assumption|]. split; [|assumption].
    intros pre g L post H. apply (Hdeps pre g L post H).
Qed.

(* ------------------------------------------------------------------ *)
(* plain evaluation of a single-assignment circuit: every gate equation
   holds in the final wire vector                                      *)

Lemma eval_gate_length ws g : length (eval_gate ws g) = length ws.
Proof. unfold eval_gate. apply upd_length. Qed.

Lemma plain_fix n ni : forall gs asg v,
  wf_gates n ni asg gs = true -> ssa_gates asg gs = true -> length asg = n -> length v = n ->
  let v' := fold_left eval_gate gs v in
  (forall w, nth w asg false = true -> nth w v' false = nth w v false) /\
  (forall g, In g gs ->
     nth (gout g) v' false = gate_fn (gop g) (nth (gin0 g) v' false) (nth (gin1 g) v' false)).
Proof.
  induction gs as [|g t IH]; intros asg v WF SSA La Lv; simpl.
  - split; [reflexivity|intros g []].
  - simpl in WF, SSA. apply andb_prop in WF. destruct WF as [GO WF].
    apply andb_prop in SSA. destruct SSA as [NA SSA]. apply negb_true_iff in NA.
    destruct (gate_ok_inv _ _ _ _ GO) as (H0 & Ho & Hni & A0 & H1).
    assert (La' : length (upd asg (gout g) true) = n) by (rewrite upd_length; assumption).
    assert (Lv' : length (eval_gate v g) = n) by (rewrite eval_gate_length; assumption).
    destruct (IH (upd asg (gout g) true) (eval_gate v g) WF SSA La' Lv') as [KEEP EQS].
    assert (KEEP0 : forall w, nth w asg false = true ->
              nth w (fold_left eval_gate t (eval_gate v g)) false = nth w v false).
    { intros w Hw. assert (w <> gout g) by (intro; subst; congruence).
      rewrite KEEP by (rewrite nth_upd_neq by congruence; assumption).
      unfold eval_gate. rewrite nth_upd_neq by congruence. reflexivity. }
    split; [exact KEEP0|].
    intros g' [<-|Hin]; [|apply EQS; assumption].
    rewrite KEEP by (rewrite nth_upd_eq by lia; reflexivity).
    unfold eval_gate at 1. rewrite nth_upd_eq by lia.
    rewrite (KEEP0 _ A0).
    destruct (gop g) eqn:Eop; try (destruct H1 as [_ A1]; [congruence|]; rewrite (KEEP0 _ A1); reflexivity).
    reflexivity.
Qed.

Lemma init_wires_length c x : ninputs c <= nwires c -> length x = ninputs c -> length (init_wires c x) = nwires c.
Proof. intros. unfold init_wires. rewrite app_length, firstn_length, repeat_length. lia. Qed.

Lemma plain_eqs c x : wf c = true -> ssa c = true -> length x = ninputs c ->
  let v := eval_plain_wires c x in
  (forall w, w < ninputs c -> nth w v false = nth w x false) /\
  (forall g, In g (gates c) ->
     nth (gout g) v false = gate_fn (gop g) (nth (gin0 g) v false) (nth (gin1 g) v false)).
Proof.
  intros WF SSA Lx. destruct (wf_parts c WF) as (Hni & Hno & WG & _).
  destruct (plain_fix (nwires c) (ninputs c) (gates c) (init_asg c) (init_wires c x) WG SSA
              (init_asg_length c Hni) (init_wires_length c x Hni Lx)) as [KEEP EQS].
  split; [|exact EQS].
  intros w Hw. unfold eval_plain_wires. rewrite KEEP.
  - unfold init_wires. rewrite app_nth1 by (rewrite firstn_length; lia).
    rewrite <- (firstn_skipn (ninputs c) x) at 2. rewrite app_nth1 by (rewrite firstn_length; lia). reflexivity.
  - unfold init_asg. rewrite app_nth1 by (rewrite repeat_length; lia).
    rewrite (nth_indep _ false true) by (rewrite repeat_length; lia). apply nth_repeat.
Qed.

(* ------------------------------------------------------------------ *)
(* list plumbing                                                       *)

Lemma mapi_from_length {A B} (f : nat -> A -> B) : forall l k, length (mapi_from k f l) = length l.
Proof. induction l; intro k; simpl; [reflexivity|]. rewrite IHl. reflexivity. Qed.

Lemma mapi_from_ext {A B} (f g : nat -> A -> B) : forall l k,
  (forall i x, k <= i < k + length l -> f i x = g i x) -> mapi_from k f l = mapi_from k g l.
Proof.
  induction l as [|x l IH]; intros k H; simpl; [reflexivity|]. f_equal.
  - apply H. simpl. lia.
  - apply IH. intros i y Hi. apply H. simpl. lia.
Qed.

Lemma mapi_from_noidx {A B} (f : A -> B) : forall l k, mapi_from k (fun _ x => f x) l = map f l.
Proof. induction l; intro k; simpl; [reflexivity|]. rewrite IHl. reflexivity. Qed.

Lemma mapi_is0 {A B} (F : bool -> A -> B) x0 l :
  mapi (fun p x => F (p =? 0) x) (x0 :: l) = F true x0 :: map (F false) l.
Proof.
  unfold mapi. simpl. f_equal. rewrite <- (mapi_from_noidx (F false) l 1).
  apply mapi_from_ext. intros i x Hi. destruct i; [lia|reflexivity].
Qed.

Lemma map_mapi_from {A B C} (g : B -> C) (f : nat -> A -> B) : forall l k,
  map g (mapi_from k f l) = mapi_from k (fun i x => g (f i x)) l.
Proof. induction l; intro k; simpl; [reflexivity|]. rewrite IHl. reflexivity. Qed.

Lemma mapi_from_map {A B C} (f : nat -> B -> C) (g : A -> B) : forall l k,
  mapi_from k f (map g l) = mapi_from k (fun i x => f i (g x)) l.
Proof. induction l; intro k; simpl; [reflexivity|]. rewrite IHl. reflexivity. Qed.

Lemma mapi_from_seq {A B} (f : nat -> B) : forall (l : list A) k,
  mapi_from k (fun i _ => f i) l = map f (seq k (length l)).
Proof. induction l; intro k; simpl; [reflexivity|]. rewrite IHl. reflexivity. Qed.

Lemma nth_mapi_from {A B} (f : nat -> A -> B) d d' : forall l k p, p < length l ->
  nth p (mapi_from k f l) d' = f (k + p) (nth p l d).
Proof.
  induction l as [|x l IH]; intros k [|p] H; simpl in *; try lia.
  - f_equal. lia.
  - rewrite IH by lia. f_equal. lia.
Qed.

Lemma map_combine_map {A B C} (f : A * B -> C) (g : A -> B) l :
  map f (combine l (map g l)) = map (fun x => f (x, g x)) l.
Proof. induction l; simpl; [reflexivity|]. rewrite IHl. reflexivity. Qed.

(* ------------------------------------------------------------------ *)
(* bit vectors                                                         *)

Lemma testbit_bits_to_N : forall bs j, N.testbit (bits_to_N bs) (N.of_nat j) = nth j bs false.
Proof.
  induction bs as [|b bs IH]; intro j.
  - destruct j; [reflexivity|]. simpl. destruct j; reflexivity.
  - cbn [bits_to_N]. destruct j as [|j].
    + simpl N.of_nat. rewrite N.add_comm. 
      destruct b.
      * rewrite N.testbit_odd_0. reflexivity.
      * rewrite N.add_0_r. rewrite N.testbit_even_0. reflexivity.
    + rewrite Nat2N.inj_succ. destruct b.
      * rewrite N.add_comm. rewrite N.testbit_odd_succ by apply N.le_0_l. apply IH.
      * rewrite N.add_0_l. rewrite N.testbit_even_succ by apply N.le_0_l. apply IH.
Qed.

Lemma nth_firstn_lt {A} (l : list A) n i d : i < n -> nth i (firstn n l) d = nth i l d.
Proof.
  revert l i; induction n as [|n IH]; intros l i H; [lia|].
  destruct l as [|x l]; [destruct i; reflexivity|]. destruct i as [|i]; simpl; [reflexivity|]. apply IH. lia.
Qed.

Lemma nth_skipn {A} (l : list A) n i d : nth i (skipn n l) d = nth (n + i) l d.
Proof.
  revert l; induction n as [|n IH]; intro l; [reflexivity|].
  destruct l as [|x l]; simpl; [destruct i; reflexivity|]. apply IH.
Qed.

Lemma bit_pack : forall words bs i, i < 64 * words -> bit (pack bs words) i = nth i bs false.
Proof.
  induction words as [|k IH]; intros bs i H; [lia|].
  unfold bit. cbn [pack].
  destruct (lt_dec i 64) as [Hlt|Hge].
  - rewrite Nat.div_small, Nat.mod_small by assumption. cbn [nth].
    rewrite testbit_bits_to_N. apply nth_firstn_lt. assumption.
  - assert (E : i = 64 + (i - 64)) by lia. set (i' := i - 64) in *.
    assert (Hd : i / 64 = S (i' / 64)).
    { rewrite E. replace (64 + i') with (i' + 1 * 64) by lia. rewrite Nat.div_add by lia. lia. }
    assert (Hm : i mod 64 = i' mod 64).
    { rewrite E. replace (64 + i') with (i' + 1 * 64) by lia. rewrite Nat.mod_add by lia. reflexivity. }
    rewrite Hd, Hm. cbn [nth].
    specialize (IH (skipn 64 bs) i' ltac:(lia)). unfold bit in IH. rewrite IH.
    rewrite nth_skipn. f_equal. lia.
Qed.

(* ------------------------------------------------------------------ *)
(* the wire-share matrix: one row per party, party 0 first             *)

Definition xor_col (m : list (list bool)) (w : nat) : bool :=
  xorb_all (map (fun ws => nth w ws false) m).

Definition rows_len (nw : nat) (m : list (list bool)) : Prop := forall ws, In ws m -> length ws = nw.

(* value a party writes for a local gate *)
Definition lval (is0 : bool) (ws : list bool) (g : gate) : bool :=
  let a := nth (gin0 g) ws false in
  let b := nth (gin1 g) ws false in
  match gop g with
  | XOR => xorb a b
  | XNOR => if is0 then negb (xorb a b) else xorb a b
  | INV => if is0 then negb a else a
  | _ => false
  end.

Definition is_local (g : gate) : bool := match gop g with XOR | XNOR | INV => true | _ => false end.

Lemma local_gate_nth is0 ws g w : is_local g = true -> gout g < length ws ->
  nth w (local_gate is0 ws g) false = if w =? gout g then lval is0 ws g else nth w ws false.
Proof.
  intros Hl Ho. unfold local_gate, lval, is_local in *.
  destruct (Nat.eqb_spec w (gout g)) as [->|Hne];
    destruct (gop g); try discriminate; rewrite ?nth_upd_eq by assumption; rewrite ?nth_upd_neq by congruence; reflexivity.
Qed.

Lemma local_gate_length is0 ws g : length (local_gate is0 ws g) = length ws.
Proof. unfold local_gate. destruct (gop g); rewrite ?upd_length; reflexivity. Qed.

Definition mstep (g : gate) (m : list (list bool)) : list (list bool) :=
  match m with
  | [] => []
  | h :: t => local_gate true h g :: map (fun ws => local_gate false ws g) t
  end.

Lemma mstep_rows nw g m : rows_len nw m -> rows_len nw (mstep g m).
Proof.
  intros H ws Hin. destruct m as [|h t]; [contradiction|]. simpl in Hin. destruct Hin as [<-|Hin].
  - rewrite local_gate_length. apply H. left. reflexivity.
  - apply in_map_iff in Hin. destruct Hin as (ws0 & <- & Hin). rewrite local_gate_length. apply H. right. assumption.
Qed.

Lemma xorb_all_negb_head a l : xorb (negb a) l = negb (xorb a l).
Proof. destruct a, l; reflexivity. Qed.

Lemma mstep_col nw g h t w : rows_len nw (h :: t) -> is_local g = true -> gout g < nw ->
  xor_col (mstep g (h :: t)) w =
  if w =? gout g then gate_fn (gop g) (xor_col (h :: t) (gin0 g)) (xor_col (h :: t) (gin1 g))
  else xor_col (h :: t) w.
Proof.
  intros RL Hl Ho. unfold xor_col. simpl.
  rewrite local_gate_nth by (try assumption; rewrite (RL h) by (left; reflexivity); assumption).
  rewrite map_map.
  rewrite (map_ext_in (fun ws => nth w (local_gate false ws g) false)
                      (fun ws => if w =? gout g then lval false ws g else nth w ws false)).
  2:{ intros ws Hin. apply local_gate_nth; [assumption|]. rewrite (RL ws) by (right; assumption). assumption. }
  destruct (w =? gout g); [|reflexivity].
  unfold lval, is_local in *.
  destruct (gop g); try discriminate; simpl.
  - rewrite xorb_all_map2.
    destruct (nth (gin0 g) h false), (nth (gin1 g) h false), (xorb_all (map (fun ws => nth (gin0 g) ws false) t)),
      (xorb_all (map (fun ws => nth (gin1 g) ws false) t)); reflexivity.
  - rewrite xorb_all_map2.
    destruct (nth (gin0 g) h false), (nth (gin1 g) h false), (xorb_all (map (fun ws => nth (gin0 g) ws false) t)),
      (xorb_all (map (fun ws => nth (gin1 g) ws false) t)); reflexivity.
  - destruct (nth (gin0 g) h false), (xorb_all (map (fun ws => nth (gin0 g) ws false) t)); reflexivity.
Qed.

Lemma mstep_fold : forall gs h t,
  fold_left (fun m g => mstep g m) gs (h :: t) =
  fold_left (local_gate true) gs h :: map (fun ws => fold_left (local_gate false) gs ws) t.
Proof.
  induction gs as [|g gs IH]; intros h t; simpl.
  - rewrite map_id. reflexivity.
  - rewrite IH. f_equal. rewrite map_map. reflexivity.
Qed.

(* writing a batch of opened AND results: rows are (z vector, wires) *)
Definition wr_all (jgs : list (nat * gate)) (r : list N * list bool) : list bool :=
  fold_left (fun ws jg => upd ws (gout (snd jg)) (bit (fst r) (fst jg))) jgs (snd r).

Lemma wr_all_cons j g jgs r :
  wr_all ((j, g) :: jgs) r = wr_all jgs (fst r, upd (snd r) (gout g) (bit (fst r) j)).
Proof. reflexivity. Qed.

Section Cols.
  Variable v : list bool.
  Variable nw : nat.

  Definition okw (m : list (list bool)) (w : nat) : Prop := xor_col m w = nth w v false.

  Lemma wr_all_ok : forall jgs rows,
    (forall r, In r rows -> length (snd r) = nw) ->
    (forall j g, In (j, g) jgs -> gout g < nw /\
        xorb_all (map (fun r => bit (fst r) j) rows) = nth (gout g) v false) ->
    forall w, (okw (map snd rows) w \/ exists j g, In (j, g) jgs /\ gout g = w) ->
      okw (map (wr_all jgs) rows) w.
  Proof.
    induction jgs as [|[j g] jgs IH]; intros rows RL HZ w Hw.
    - destruct Hw as [Hw|(j & g & [] & _)].
      unfold wr_all. simpl. unfold okw in *. rewrite <- Hw. unfold xor_col. rewrite !map_map. reflexivity.
    - set (rows' := map (fun r => (fst r, upd (snd r) (gout g) (bit (fst r) j))) rows).
      assert (E : map (wr_all ((j, g) :: jgs)) rows = map (wr_all jgs) rows').
      { unfold rows'. rewrite map_map. apply map_ext. intro r. apply wr_all_cons. }
      rewrite E. destruct (HZ j g (or_introl eq_refl)) as [Ho Hz].
      apply IH.
      + intros r Hin. unfold rows' in Hin. apply in_map_iff in Hin. destruct Hin as (r0 & <- & Hin).
        simpl. rewrite upd_length. apply RL. assumption.
      + intros j' g' Hin. destruct (HZ j' g' (or_intror Hin)) as [Ho' Hz']. split; [assumption|].
        rewrite <- Hz'. unfold rows'. rewrite map_map. reflexivity.
      + assert (Hcol : forall u, xor_col (map snd rows') u =
                  if u =? gout g then nth (gout g) v false else xor_col (map snd rows) u).
        { intro u. unfold xor_col, rows'. rewrite !map_map. simpl.
          destruct (Nat.eqb_spec u (gout g)) as [->|Hne].
          - rewrite <- Hz. f_equal. apply map_ext_in. intros r Hin. apply nth_upd_eq. rewrite RL by assumption. assumption.
          - f_equal. apply map_ext. intro r. apply nth_upd_neq. congruence. }
        destruct (Nat.eq_dec w (gout g)) as [->|Hne].
        * left. unfold okw. rewrite Hcol, Nat.eqb_refl. reflexivity.
        * destruct Hw as [Hw|(j' & g' & [Hin|Hin] & Hg)].
          -- left. unfold okw in *. rewrite Hcol. destruct (Nat.eqb_spec w (gout g)); [contradiction|assumption].
          -- inversion Hin; subst. contradiction.
          -- right. exists j', g'. split; assumption.
  Qed.
End Cols.

(* the algebra of one opened word *)
Lemma xorN_and_local_tail d e (ts : list triple) :
  xorN (map (fun t => and_local false t d e) ts) =
  N.lxor (N.lxor (xorN (map tC ts)) (N.land d (xorN (map tB ts)))) (N.land e (xorN (map tA ts))).
Proof.
  induction ts as [|t ts IH].
  - simpl. rewrite !N.land_0_r. reflexivity.
  - rewrite !xorN_cons, IH. unfold and_local at 1. set (C := xorN (map tC ts)). set (B := xorN (map tB ts)). set (A := xorN (map tA ts)).
    set (c := tC t). set (b := tB t). set (a := tA t). bitwise.
Qed.

Lemma xorN_and_local d e t (ts : list triple) :
  N.lxor (and_local true t d e) (xorN (map (fun t => and_local false t d e) ts)) =
  N.lxor (N.lxor (N.lxor (xorN (map tC (t :: ts))) (N.land d (xorN (map tB (t :: ts)))))
                 (N.land e (xorN (map tA (t :: ts))))) (N.land d e).
Proof.
  rewrite xorN_and_local_tail, !xorN_cons. unfold and_local.
  set (C := xorN (map tC ts)). set (B := xorN (map tB ts)). set (A := xorN (map tA ts)).
  set (c := tC t). set (b := tB t). set (a := tA t). bitwise.
Qed.

(* ------------------------------------------------------------------ *)
(* one batched Beaver AND at all parties                               *)

Lemma bxor_eq self all words : self < length all ->
  bxor self all words = map (fun w => xorN (map (fun v => nth w v 0%N) all)) (seq 0 words).
Proof.
  intro H. unfold bxor. apply map_ext. intro w.
  rewrite fold_left_lxor. apply (xorN_remove_nth (fun v => nth w v 0%N) []). assumption.
Qed.

Lemma in_combine_seq {A} (l : list A) d : forall k j g,
  In (j, g) (combine (seq k (length l)) l) -> k <= j < k + length l /\ nth (j - k) l d = g.
Proof.
  induction l as [|x l IH]; intros k j g H; simpl in H; [contradiction|].
  destruct H as [H|H].
  - inversion H; subst. split; [simpl; lia|]. rewrite Nat.sub_diag. reflexivity.
  - destruct (IH (S k) j g H) as [Hb Hn]. split; [simpl; lia|].
    replace (j - k) with (S (j - S k)) by lia. simpl. assumption.
Qed.

Lemma in_combine_seq_nth {A} (l : list A) d : forall s j, j < length l ->
  In (s + j, nth j l d) (combine (seq s (length l)) l).
Proof.
  induction l as [|x l IH]; intros s j Hj; simpl in *; [lia|].
  destruct j as [|j]; [left; f_equal; lia|]. right. replace (s + S j) with (S s + j) by lia. apply IH. lia.
Qed.

Lemma nth_map_in {A B} (f : A -> B) l j d d' : j < length l -> nth j (map f l) d' = f (nth j l d).
Proof. intro H. rewrite (nth_indep _ d' (f d)) by (rewrite map_length; assumption). apply map_nth. Qed.

Lemma words_for_idx j k : j < k -> j / 64 < words_for k /\ j < 64 * words_for k.
Proof. intro H. split; divlia. Qed.

Definition zvec (is0 : bool) (words : nat) (tr : triples) (dO eO : list N) : list N :=
  map (fun w => and_local is0 (nth w tr t0) (nth w dO 0%N) (nth w eO 0%N)) (seq 0 words).

Lemma and_finish_wr is0 batch ws tr dO eO :
  and_finish is0 batch ws tr dO eO =
  wr_all (combine (seq 0 (length batch)) batch) (zvec is0 (words_for (length batch)) tr dO eO, ws).
Proof. reflexivity. Qed.

Section AndBatch.
  Variable v : list bool.
  Variable nw : nat.
  Variable batch : list gate.
  Let k := length batch.
  Let Wd := words_for k.

  Definition masked_d (r : list bool * triples) : list N := fst (and_masked batch (fst r) (snd r)).
  Definition masked_e (r : list bool * triples) : list N := snd (and_masked batch (fst r) (snd r)).

  Definition and_rows (wt : list (list bool * triples)) : list (list bool) :=
    mapi (fun p r => and_finish (p =? 0) batch (fst r) (snd r)
                                (bxor p (map masked_d wt) Wd) (bxor p (map masked_e wt) Wd)) wt.

  Lemma open_word (pick : gate -> nat) (sel : triple -> N) (wt : list (list bool * triples)) wj :
    wj < Wd ->
    xorN (map (fun vv => nth wj vv 0%N)
              (map (fun r => map (fun w => N.lxor (nth w (pack (map (fun g => nth (pick g) (fst r) false) batch) Wd) 0%N)
                                                  (sel (nth w (snd r) t0))) (seq 0 Wd)) wt))
    = N.lxor (xorN (map (fun r => nth wj (pack (map (fun g => nth (pick g) (fst r) false) batch) Wd) 0%N) wt))
             (xorN (map sel (map (fun r => nth wj (snd r) t0) wt))).
  Proof.
    intro H. rewrite !map_map.
    rewrite <- (xorN_map2 (fun r => nth wj (pack (map (fun g => nth (pick g) (fst r) false) batch) Wd) 0%N)
                          (fun r => sel (nth wj (snd r) t0))).
    apply xorN_ext_in. intros r _. rewrite nth_map_seq by assumption. reflexivity.
  Qed.

  Lemma packed_bit (pick : gate -> nat) (wt : list (list bool * triples)) j g :
    j < k -> nth j batch g = g ->
    N.testbit (xorN (map (fun r => nth (j / 64) (pack (map (fun g => nth (pick g) (fst r) false) batch) Wd) 0%N) wt))
              (N.of_nat (j mod 64))
    = xor_col (map fst wt) (pick g).
  Proof.
    intros Hj Hg. rewrite testbit_xorN, map_map. unfold xor_col. rewrite map_map. f_equal.
    apply map_ext. intro r.
    change (N.testbit (nth (j / 64) ?bv 0%N) (N.of_nat (j mod 64))) with (bit bv j).
    rewrite bit_pack by (apply words_for_idx; assumption).
    rewrite (nth_map_in _ batch j g) by assumption. rewrite Hg. reflexivity.
  Qed.

  Lemma and_cols (r0 : list bool * triples) (rt : list (list bool * triples)) :
    let wt := r0 :: rt in
    rows_len nw (map fst wt) ->
    (forall g, In g batch -> gout g < nw /\ okw v (map fst wt) (gin0 g) /\ okw v (map fst wt) (gin1 g) /\
                             nth (gout g) v false = nth (gin0 g) v false && nth (gin1 g) v false) ->
    (forall w, w < Wd -> triple_valid (map (fun r => nth w (snd r) t0) wt) = true) ->
    rows_len nw (and_rows wt) /\
    forall w, (okw v (map fst wt) w \/ In w (map gout batch)) -> okw v (and_rows wt) w.
  Proof.
    intros wt RL HG HV.
    set (dO := map (fun w => xorN (map (fun vv => nth w vv 0%N) (map masked_d wt))) (seq 0 Wd)).
    set (eO := map (fun w => xorN (map (fun vv => nth w vv 0%N) (map masked_e wt))) (seq 0 Wd)).
    set (jgs := combine (seq 0 k) batch).
    set (rows := (zvec true Wd (snd r0) dO eO, fst r0) :: map (fun r => (zvec false Wd (snd r) dO eO, fst r)) rt).
    assert (E : and_rows wt = map (wr_all jgs) rows).
    { unfold and_rows, mapi.
      rewrite (mapi_from_ext _ (fun p r => and_finish (p =? 0) batch (fst r) (snd r) dO eO) wt 0).
      2:{ intros i r Hi. rewrite !bxor_eq by (rewrite map_length; lia). reflexivity. }
      change (mapi_from 0 ?f wt) with (mapi f wt). unfold wt.
      rewrite (mapi_is0 (fun b r => and_finish b batch (fst r) (snd r) dO eO)).
      unfold rows. simpl map. rewrite map_map. reflexivity. }
    assert (Hsnd : map snd rows = map fst wt).
    { unfold rows, wt. simpl. rewrite map_map. reflexivity. }
    rewrite E. split.
    - intros ws Hin. apply in_map_iff in Hin. destruct Hin as (r & <- & Hin).
      unfold wr_all. assert (L : length (snd r) = nw).
      { apply RL. rewrite <- Hsnd. apply in_map. assumption. }
      revert L. generalize (snd r). generalize (fst r). clear. intros z.
      induction jgs as [|jg jgs IH]; intros ws L; simpl; [assumption|]. apply IH. rewrite upd_length. assumption.
    - intros w Hw. apply (wr_all_ok v nw).
      + intros r Hin. apply RL. rewrite <- Hsnd. apply in_map. assumption.
      + intros j g Hin. unfold jgs, k in Hin. apply (in_combine_seq batch g) in Hin.
        destruct Hin as [Hj Hg]. rewrite Nat.sub_0_r in Hg. simpl in Hj.
        assert (Hgin : In g batch) by (rewrite <- Hg; apply nth_In; lia).
        destruct (HG g Hgin) as (Ho & Ok0 & Ok1 & Heq). split; [assumption|].
        destruct (words_for_idx j k ltac:(lia)) as [Hwj Hj64]. fold Wd in Hwj, Hj64.
        set (wj := j / 64) in *. set (bj := N.of_nat (j mod 64)).
        (* every row's bit j *)
        assert (Hbit : forall is0 tr, bit (zvec is0 Wd tr dO eO) j =
                  N.testbit (and_local is0 (nth wj tr t0) (nth wj dO 0%N) (nth wj eO 0%N)) bj).
        { intros is0 tr. unfold bit, zvec. fold wj. fold bj. rewrite nth_map_seq by assumption. reflexivity. }
        unfold rows. cbn [map xorb_all fold_right fst]. rewrite map_map. cbn [fst].
        rewrite Hbit.
        rewrite (map_ext (fun r => bit (zvec false Wd (snd r) dO eO) j)
                         (fun r => N.testbit (and_local false (nth wj (snd r) t0) (nth wj dO 0%N) (nth wj eO 0%N)) bj))
          by (intro; apply Hbit).
        change (fold_right xorb false ?l) with (xorb_all l).
        rewrite <- (map_map (fun r => and_local false (nth wj (snd r) t0) (nth wj dO 0%N) (nth wj eO 0%N))
                            (fun z => N.testbit z bj)).
        rewrite <- testbit_xorN, <- N.lxor_spec.
        rewrite <- (map_map (fun r => nth wj (snd r) t0) (fun t => and_local false t (nth wj dO 0%N) (nth wj eO 0%N))).
        rewrite xorN_and_local.
        change (nth wj (snd r0) t0 :: map (fun r => nth wj (snd r) t0) rt) with (map (fun r => nth wj (snd r) t0) wt).
        set (colw := map (fun r => nth wj (snd r) t0) wt).
        specialize (HV wj Hwj). fold colw in HV. unfold triple_valid in HV. apply N.eqb_eq in HV.
        assert (Hd : nth wj dO 0%N = N.lxor (xorN (map (fun r => nth wj (pack (map (fun g => nth (gin0 g) (fst r) false) batch) Wd) 0%N) wt))
                                            (xorN (map tA colw))).
        { unfold dO. rewrite nth_map_seq by assumption. apply (open_word gin0 tA wt wj Hwj). }
        assert (He : nth wj eO 0%N = N.lxor (xorN (map (fun r => nth wj (pack (map (fun g => nth (gin1 g) (fst r) false) batch) Wd) 0%N) wt))
                                            (xorN (map tB colw))).
        { unfold eO. rewrite nth_map_seq by assumption. apply (open_word gin1 tB wt wj Hwj). }
        rewrite Hd, He, HV.
        set (X := xorN (map (fun r => nth wj (pack (map (fun g => nth (gin0 g) (fst r) false) batch) Wd) 0%N) wt)).
        set (Y := xorN (map (fun r => nth wj (pack (map (fun g => nth (gin1 g) (fst r) false) batch) Wd) 0%N) wt)).
        rewrite beaver_word, N.land_spec.
        unfold X, Y, wj, bj. rewrite (packed_bit gin0 wt j g) by (try assumption; lia).
        rewrite (packed_bit gin1 wt j g) by (try assumption; lia).
        rewrite Ok0, Ok1. symmetry. assumption.
      + rewrite Hsnd. destruct Hw as [Hw|Hw]; [left; assumption|]. right.
        apply in_map_iff in Hw. destruct Hw as (g & Hg & Hin).
        destruct (In_nth _ _ g Hin) as (j & Hj & Hn).
        exists j, g. split; [|assumption].
        unfold jgs, k. rewrite <- Hn. apply (in_combine_seq_nth batch g 0 j Hj).
  Qed.
End AndBatch.

(* ------------------------------------------------------------------ *)
(* andBatchFlush at all parties: pool plumbing                          *)

Definition sstream (st : pstate) : triples := stream (ps_pool st) (ps_pend st).

Lemma flush_aux k : forall sts,
  (forall st, In st sts -> words_for k <= length (sstream st)) ->
  exists gets,
    all_some (map (fun st => pool_get k [] (ps_pool st) (ps_pend st) (ps_sched st)) sts) = Some gets /\
    map (fun r => fst (fst (fst r))) gets = map (fun st => firstn (words_for k) (sstream st)) sts /\
    forall (F : nat -> pstate -> triples -> list bool) k0,
      let sts' := mapi_from k0 (fun p sr =>
                    let st := fst sr in
                    let '(tr, pool', pend', sched') := snd sr in
                    mkP (F p st tr) pool' pend' sched') (combine sts gets) in
      map sstream sts' = map (fun st => skipn (words_for k) (sstream st)) sts /\
      map ps_wires sts' = mapi_from k0 (fun p st => F p st (firstn (words_for k) (sstream st))) sts.
Proof.
  induction sts as [|st sts IH]; intro H.
  - exists []. repeat split; reflexivity.
  - destruct (pool_get_ok k (ps_pool st) (ps_pend st) (ps_sched st)) as (pool' & pend' & sched' & E & HS).
    { apply H. left. reflexivity. }
    destruct IH as (gets & EA & ET & EF). { intros s Hs. apply H. right. assumption. }
    exists ((firstn (words_for k) (sstream st), pool', pend', sched') :: gets).
    split; [|split].
    + cbn [map all_some]. rewrite E, EA. reflexivity.
    + cbn [map fst]. rewrite ET. reflexivity.
    + intros F k0. cbn [combine mapi_from map fst snd ps_wires].
      destruct (EF F (S k0)) as [E1 E2]. split.
      * f_equal; [|exact E1]. unfold sstream at 1. cbn [ps_pool ps_pend]. exact HS.
      * f_equal. exact E2.
Qed.

Definition and_wt (Wd : nat) (sts : list pstate) : list (list bool * triples) :=
  map (fun st => (ps_wires st, firstn Wd (sstream st))) sts.

Lemma flush_spec batch sts :
  batch <> [] ->
  (forall st, In st sts -> words_for (length batch) <= length (sstream st)) ->
  exists sts', and_batch_flush batch sts = Some sts' /\
    map sstream sts' = map (fun st => skipn (words_for (length batch)) (sstream st)) sts /\
    map ps_wires sts' = and_rows batch (and_wt (words_for (length batch)) sts).
Proof.
  intros NE H. destruct (flush_aux (length batch) sts H) as (gets & EA & ET & EF).
  unfold and_batch_flush. destruct batch as [|g0 b0] eqn:EB; [contradiction|]. rewrite <- EB in *.
  rewrite EA. eexists. split; [reflexivity|].
  rewrite ET. rewrite !map_combine_map.
  set (Wd := words_for (length batch)).
  set (ds := map fst _). set (es := map snd _).
  specialize (EF (fun p st tr => and_finish (p =? 0) batch (ps_wires st) tr (bxor p ds Wd) (bxor p es Wd)) 0).
  destruct EF as [E1 E2]. split; [exact E1|].
  unfold mapi. etransitivity; [exact E2|].
  unfold and_rows, mapi, and_wt. rewrite mapi_from_map. apply mapi_from_ext. intros i st _. cbn [fst snd].
  fold Wd.
  assert (Hd : map (masked_d batch) (map (fun st0 => (ps_wires st0, firstn Wd (sstream st0))) sts) = ds).
  { unfold ds. rewrite !map_map. reflexivity. }
  assert (He : map (masked_e batch) (map (fun st0 => (ps_wires st0, firstn Wd (sstream st0))) sts) = es).
  { unfold es. rewrite !map_map. reflexivity. }
  rewrite Hd, He. reflexivity.
Qed.

(* validity of all word positions of the parties' streams *)
Definition valid_streams (ss : list triples) : Prop := forall j, triple_valid (col j ss) = true.

Lemma valid_skipn Wd ss : valid_streams ss -> valid_streams (map (skipn Wd) ss).
Proof.
  intros H j. specialize (H (Wd + j)). unfold col in *. rewrite map_map.
  rewrite <- H. f_equal. apply map_ext. intro s. apply nth_skipn.
Qed.

(* ------------------------------------------------------------------ *)
(* one level of Network.run, and the loop over the levels              *)

Section Levels.
  Variable v : list bool.          (* the plain wire values *)
  Variable nw ni : nat.
  Variable gl : list (gate * nat).
  Hypothesis H_out : forall g L, In (g, L) gl -> gout g < nw.
  Hypothesis H_sup : forall g L, In (g, L) gl -> gop g <> OR.
  Hypothesis H_lev : levelled ni gl.
  Hypothesis H_eq : forall g L, In (g, L) gl ->
    nth (gout g) v false = gate_fn (gop g) (nth (gin0 g) v false) (nth (gin1 g) v false).

  Definition pbase (m : list (list bool)) (i : nat) : Prop :=
    (forall w, w < ni -> okw v m w) /\ (forall g L, In (g, L) gl -> L < i -> okw v m (gout g)).

  Lemma dep_ok_okw m i pre (g' : gate) :
    pbase m i -> (forall g L, In (g, L) pre -> In (g, L) gl) ->
    (forall g L, In (g, L) pre -> is_and g = false -> L = i -> okw v m (gout g)) ->
    forall u, dep_ok ni pre i u -> okw v m u.
  Proof.
    intros [PI PL] Sub Same u [Hu|(g & L & Hin & Hg & Hle)]; [apply PI; assumption|].
    subst u. destruct (is_and g) eqn:EA.
    - apply (PL g L); [apply Sub; assumption|lia].
    - destruct (Nat.eq_dec L i) as [->|Hne]; [apply (Same g i); auto|].
      apply (PL g L); [apply Sub; assumption|lia].
  Qed.

  Lemma rest_ok i : forall post pre m,
    gl = pre ++ post -> rows_len nw m -> m <> [] -> pbase m i ->
    (forall g L, In (g, L) pre -> is_and g = false -> L = i -> okw v m (gout g)) ->
    let m' := fold_left (fun m g => mstep g m) (rest_at post i) m in
    rows_len nw m' /\ m' <> [] /\ length m' = length m /\ pbase m' i /\
    (forall g L, In (g, L) gl -> is_and g = false -> L = i -> okw v m' (gout g)).
  Proof.
    induction post as [|[g L] post IH]; intros pre m Egl RL NE PB Same.
    - simpl. rewrite app_nil_r in Egl. subst pre. split; [assumption|]. split; [assumption|]. split; [reflexivity|]. split; assumption.
    - assert (Egl' : gl = (pre ++ [(g, L)]) ++ post) by (rewrite <- app_assoc; exact Egl).
      assert (Hin : In (g, L) gl) by (rewrite Egl; apply in_or_app; right; left; reflexivity).
      assert (Sub : forall g0 L0, In (g0, L0) pre -> In (g0, L0) gl).
      { intros g0 L0 H0. rewrite Egl. apply in_or_app. left. assumption. }
      unfold rest_at. cbn [filter fst snd].
      destruct (negb (is_and g) && (L =? i)) eqn:Sel.
      + apply andb_prop in Sel. destruct Sel as [NA EL]. apply negb_true_iff in NA. apply Nat.eqb_eq in EL. subst L.
        cbn [map fst fold_left]. fold (rest_at post i).
        destruct m as [|h t]; [contradiction|].
        assert (Loc : is_local g = true).
        { unfold is_local, is_and in *. pose proof (H_sup g i Hin). destruct (gop g); congruence. }
        destruct (H_lev pre g i post Egl) as [D0 D1].
        assert (Ok0 : okw v (h :: t) (gin0 g)) by (apply (dep_ok_okw (h :: t) i pre g PB Sub Same); assumption).
        assert (Hcol : forall w, xor_col (mstep g (h :: t)) w =
                  if w =? gout g then nth (gout g) v false else xor_col (h :: t) w).
        { intro w. rewrite (mstep_col nw) by (try assumption; apply (H_out g i Hin)).
          destruct (w =? gout g); [|reflexivity].
          rewrite (H_eq g i Hin). rewrite Ok0.
          destruct (gop g) eqn:Eop; try reflexivity;
            (rewrite (dep_ok_okw (h :: t) i pre g PB Sub Same (gin1 g)) by (apply D1; congruence)); reflexivity. }
        assert (Keep : forall w, okw v (h :: t) w -> okw v (mstep g (h :: t)) w).
        { intros w Hw. unfold okw in *. rewrite Hcol. destruct (w =? gout g) eqn:E; [|assumption].
          apply Nat.eqb_eq in E. subst. reflexivity. }
        destruct (IH (pre ++ [(g, i)]) (mstep g (h :: t)) Egl') as (R1 & R2 & R3 & R4 & R5).
        * apply mstep_rows. assumption.
        * simpl. discriminate.
        * destruct PB as [PI PL]. split; intros; apply Keep; [apply PI|eapply PL]; eassumption.
        * intros g0 L0 Hin0 NA0 EL0. apply in_app_or in Hin0. destruct Hin0 as [Hin0|[Hin0|[]]].
          -- apply Keep. apply (Same g0 L0); assumption.
          -- inversion Hin0; subst. unfold okw. rewrite Hcol, Nat.eqb_refl. reflexivity.
        * split; [assumption|]. split; [assumption|]. split; [rewrite R3; simpl; rewrite map_length; reflexivity|]. split; assumption.
      + fold (rest_at post i). apply (IH (pre ++ [(g, L)]) m Egl' RL NE PB).
        intros g0 L0 Hin0 NA0 EL0. apply in_app_or in Hin0. destruct Hin0 as [Hin0|[Hin0|[]]].
        * apply (Same g0 L0); assumption.
        * inversion Hin0; subst. rewrite NA0, Nat.eqb_refl in Sel. discriminate.
  Qed.

  (* the states after the rest[i] loop *)
  Definition rest_states (i : nat) (sts : list pstate) : list pstate :=
    mapi (fun p st => mkP (fold_left (local_gate (p =? 0)) (rest_at gl i) (ps_wires st))
                          (ps_pool st) (ps_pend st) (ps_sched st)) sts.

  Lemma rest_states_wires i st0 sts :
    map ps_wires (rest_states i (st0 :: sts)) =
    fold_left (fun m g => mstep g m) (rest_at gl i) (map ps_wires (st0 :: sts)).
  Proof.
    unfold rest_states.
    rewrite (mapi_is0 (fun b st => mkP (fold_left (local_gate b) (rest_at gl i) (ps_wires st))
                                       (ps_pool st) (ps_pend st) (ps_sched st))).
    cbn [map ps_wires]. rewrite mstep_fold, !map_map. reflexivity.
  Qed.

  Lemma rest_states_streams i sts : map sstream (rest_states i sts) = map sstream sts.
  Proof.
    unfold rest_states, mapi. rewrite map_mapi_from. unfold sstream. cbn [ps_pool ps_pend].
    apply mapi_from_noidx.
  Qed.

  Lemma in_ands_at g i : In g (ands_at gl i) <-> In (g, i) gl /\ is_and g = true.
  Proof.
    unfold ands_at. rewrite in_map_iff. split.
    - intros ([g' L] & E & Hin). simpl in E. subst g'. apply filter_In in Hin. destruct Hin as [Hin Sel].
      simpl in Sel. apply andb_prop in Sel. destruct Sel as [A B]. apply Nat.eqb_eq in B. subst. split; assumption.
    - intros [Hin A]. exists (g, i). split; [reflexivity|]. apply filter_In. split; [assumption|].
      simpl. rewrite A, Nat.eqb_refl. reflexivity.
  Qed.

  Lemma level_step_ok i R st0 sts :
    let all := st0 :: sts in
    rows_len nw (map ps_wires all) ->
    valid_streams (map sstream all) ->
    (forall st, In st all -> words_for (length (ands_at gl i)) + R <= length (sstream st)) ->
    pbase (map ps_wires all) i ->
    exists all', level_step gl all i = Some all' /\ all' <> [] /\ length all' = length all /\
      rows_len nw (map ps_wires all') /\ valid_streams (map sstream all') /\
      (forall st, In st all' -> R <= length (sstream st)) /\
      pbase (map ps_wires all') (S i).
  Proof.
    intros all RL VS EN PB.
    unfold level_step. fold (rest_states i all).
    set (m := map ps_wires all) in *.
    destruct (rest_ok i gl [] m eq_refl RL ltac:(subst m; unfold all; simpl; discriminate) PB ltac:(intros ? ? [])) as (R1 & R2 & R3 & R4 & R5).
    subst m. unfold all in *. rewrite <- rest_states_wires in R1, R2, R3, R4, R5.
    set (sts1 := rest_states i (st0 :: sts)) in *.
    assert (S1 : map sstream sts1 = map sstream (st0 :: sts)) by apply rest_states_streams.
    assert (Len1 : length sts1 = length (st0 :: sts)).
    { rewrite <- (map_length ps_wires), R3, map_length. reflexivity. }
    destruct (ands_at gl i) as [|g0 b0] eqn:EB.
    - (* no AND gate on this level *)
      exists sts1. split; [reflexivity|]. split; [intro E; rewrite E in Len1; discriminate|].
      split; [assumption|]. split; [assumption|]. split; [rewrite S1; assumption|]. split.
      + intros st Hin. assert (Hs : In (sstream st) (map sstream (st0 :: sts))) by (rewrite <- S1; apply in_map; assumption).
        apply in_map_iff in Hs. destruct Hs as (st' & Es & Hin'). rewrite <- Es. specialize (EN st' Hin'). simpl in EN. lia.
      + destruct R4 as [PI PL]. split; [assumption|]. intros g L Hin HL.
        destruct (Nat.eq_dec L i) as [->|Hne]; [|apply (PL g L); [assumption|lia]].
        destruct (is_and g) eqn:EA.
        * exfalso. assert (Hx : In g (ands_at gl i)) by (apply in_ands_at; split; assumption). rewrite EB in Hx. contradiction.
        * apply (R5 g i); auto.
    - rewrite <- EB in *. set (batch := ands_at gl i) in *. set (Wd := words_for (length batch)) in *.
      destruct (flush_spec batch sts1) as (sts2 & E2 & S2 & W2).
      { rewrite EB. discriminate. }
      { intros st Hin. assert (Hs : In (sstream st) (map sstream (st0 :: sts))) by (rewrite <- S1; apply in_map; assumption).
        apply in_map_iff in Hs. destruct Hs as (st' & Es & Hin'). rewrite <- Es. specialize (EN st' Hin'). fold Wd. lia. }
      fold Wd in S2, W2.
      destruct sts1 as [|s1 sts1'] eqn:Es1; [simpl in Len1; discriminate|].
      assert (Hfst : map fst (and_wt Wd (s1 :: sts1')) = map ps_wires (s1 :: sts1')).
      { unfold and_wt. rewrite map_map. reflexivity. }
      destruct (and_cols v nw batch (ps_wires s1, firstn Wd (sstream s1)) (and_wt Wd sts1')) as [C1 C2].
      + change ((ps_wires s1, firstn Wd (sstream s1)) :: and_wt Wd sts1') with (and_wt Wd (s1 :: sts1')).
        rewrite Hfst. assumption.
      + change ((ps_wires s1, firstn Wd (sstream s1)) :: and_wt Wd sts1') with (and_wt Wd (s1 :: sts1')).
        rewrite Hfst. intros g Hg. apply in_ands_at in Hg. destruct Hg as [Hin EA].
        destruct (in_split _ _ Hin) as (pre & post & Egl).
        destruct (H_lev pre g i post Egl) as [D0 D1].
        assert (Sub : forall g1 L1, In (g1, L1) pre -> In (g1, L1) gl).
        { intros g1 L1 H1. rewrite Egl. apply in_or_app. left. assumption. }
        assert (Same : forall g1 L1, In (g1, L1) pre -> is_and g1 = false -> L1 = i -> okw v (map ps_wires (s1 :: sts1')) (gout g1)).
        { intros g1 L1 H1 NA1 EL1. apply (R5 g1 L1); auto. }
        assert (Eop : gop g = AND) by (unfold is_and in EA; destruct (gop g); congruence).
        split; [apply (H_out g i Hin)|]. split; [|split].
        * apply (dep_ok_okw _ i pre g R4 Sub Same). assumption.
        * apply (dep_ok_okw _ i pre g R4 Sub Same). apply D1. congruence.
        * rewrite (H_eq g i Hin), Eop. reflexivity.
      + intros w Hw. change ((ps_wires s1, firstn Wd (sstream s1)) :: and_wt Wd sts1') with (and_wt Wd (s1 :: sts1')).
        unfold and_wt. rewrite map_map. cbn [snd].
        specialize (VS w). rewrite <- S1 in VS. unfold col in VS. rewrite map_map in VS. rewrite <- VS. f_equal.
        apply map_ext. intro st. apply nth_firstn_lt. assumption.
      + change ((ps_wires s1, firstn Wd (sstream s1)) :: and_wt Wd sts1') with (and_wt Wd (s1 :: sts1')) in C1, C2.
        rewrite <- W2 in C1, C2. rewrite Hfst in C2.
        exists sts2. split; [exact E2|].
        assert (Len2 : length sts2 = length (st0 :: sts)).
        { rewrite <- Len1. rewrite <- (map_length sstream sts2), S2, map_length. reflexivity. }
        split; [intro E; rewrite E in Len2; discriminate|].
        split; [assumption|]. split; [assumption|]. split; [|split].
        * rewrite S2. rewrite <- (map_map sstream (skipn Wd)). apply valid_skipn. rewrite S1. assumption.
        * intros st Hin. assert (Hs : In (sstream st) (map sstream sts2)) by (apply in_map; assumption).
          rewrite S2 in Hs. apply in_map_iff in Hs. destruct Hs as (st' & Es & Hin'). rewrite <- Es.
          assert (Hs' : In (sstream st') (map sstream (st0 :: sts))) by (rewrite <- S1; apply in_map; assumption).
          apply in_map_iff in Hs'. destruct Hs' as (st'' & Es' & Hin''). rewrite <- Es'.
          rewrite skipn_length. specialize (EN st'' Hin''). fold Wd in EN. lia.
        * destruct R4 as [PI PL]. split.
          -- intros w Hw. apply C2. left. apply PI. assumption.
          -- intros g L Hin HL. destruct (Nat.eq_dec L i) as [->|Hne].
             ++ destruct (is_and g) eqn:EA.
                ** apply C2. right. apply in_map. apply in_ands_at. split; assumption.
                ** apply C2. left. apply (R5 g i); auto.
             ++ apply C2. left. apply (PL g L); [assumption|lia].
  Qed.

  Lemma levels_loop_ok : forall is i0 st0 sts,
    is = seq i0 (length is) ->
    let all := st0 :: sts in
    rows_len nw (map ps_wires all) ->
    valid_streams (map sstream all) ->
    (forall st, In st all -> need_from gl is <= length (sstream st)) ->
    pbase (map ps_wires all) i0 ->
    exists all', levels_loop gl is all = Some all' /\ length all' = length all /\
      rows_len nw (map ps_wires all') /\ pbase (map ps_wires all') (i0 + length is).
  Proof.
    induction is as [|i is IH]; intros i0 st0 sts Eseq all RL VS EN PB.
    - exists all. cbn [levels_loop length]. rewrite Nat.add_0_r. split; [reflexivity|]. split; [reflexivity|]. split; assumption.
    - simpl in Eseq. inversion Eseq as [[Ei Eis]]. clear Eseq. subst i.
      destruct (level_step_ok i0 (need_from gl is) st0 sts RL VS EN PB)
        as (all1 & E1 & NE1 & L1 & RL1 & VS1 & EN1 & PB1).
      destruct all1 as [|s1 r1]; [contradiction|].
      destruct (IH (S i0) s1 r1 Eis RL1 VS1 EN1 PB1) as (all2 & E2 & L2 & RL2 & PB2).
      exists all2. cbn [levels_loop]. unfold all. rewrite E1. rewrite <- Eis. split; [exact E2|].
      split; [rewrite L2; exact L1|]. split; [assumption|].
      simpl length. replace (i0 + S (length is)) with (S i0 + length is) by lia. assumption.
  Qed.
End Levels.

(* ------------------------------------------------------------------ *)
(* input sharing                                                       *)

Fixpoint locate (szs : list nat) (w : nat) : nat * nat :=
  match szs with
  | [] => (0, w)
  | s :: r => if w <? s then (0, w) else let (p, i) := locate r (w - s) in (S p, i)
  end.

Lemma nth_concat_locate {A} (d : A) : forall (Ls : list (list A)) w, w < length (concat Ls) ->
  fst (locate (map (@length A) Ls) w) < length Ls /\
  snd (locate (map (@length A) Ls) w) < length (nth (fst (locate (map (@length A) Ls) w)) Ls []) /\
  nth w (concat Ls) d = nth (snd (locate (map (@length A) Ls) w)) (nth (fst (locate (map (@length A) Ls) w)) Ls []) d.
Proof.
  induction Ls as [|l Ls IH]; intros w H; simpl in *; [lia|].
  rewrite app_length in H. destruct (Nat.ltb_spec w (length l)) as [Hlt|Hge]; simpl.
  - split; [lia|]. split; [assumption|]. apply app_nth1. assumption.
  - destruct (IH (w - length l) ltac:(lia)) as (A1 & A2 & A3).
    destruct (locate (map (@length A) Ls) (w - length l)) as [p i]. simpl in *.
    split; [lia|]. split; [assumption|]. rewrite app_nth2 by lia. assumption.
Qed.

Lemma vxor_length a b : length (vxor a b) = length a.
Proof. unfold vxor. rewrite map_length, seq_length. reflexivity. Qed.

Lemma vxor_nth a b i : i < length a -> nth i (vxor a b) false = xorb (nth i a false) (nth i b false).
Proof. intro H. unfold vxor. apply (nth_map_seq (fun i => xorb (nth i a false) (nth i b false))). assumption. Qed.

Lemma fold_vxor : forall l z i, i < length z ->
  nth i (fold_left vxor l z) false = xorb (nth i z false) (xorb_all (map (fun r => nth i r false) l)) /\
  length (fold_left vxor l z) = length z.
Proof.
  induction l as [|r l IH]; intros z i H; simpl.
  - split; [destruct (nth i z false); reflexivity|reflexivity].
  - destruct (IH (vxor z r) i ltac:(rewrite vxor_length; assumption)) as [E L].
    rewrite E, L, vxor_length, vxor_nth by assumption. split; [|reflexivity].
    destruct (nth i z false), (nth i r false), (xorb_all (map (fun r0 => nth i r0 false) l)); reflexivity.
Qed.

Lemma take_pad_length n bs : length (take_pad n bs) = n.
Proof. unfold take_pad. rewrite map_length, seq_length. reflexivity. Qed.

Lemma take_pad_nth n bs i : i < n -> nth i (take_pad n bs) false = nth i bs false.
Proof. intro H. unfold take_pad. apply (nth_map_seq (fun i => nth i bs false)). assumption. Qed.

Lemma xorb_split_at (h : nat -> bool) : forall L p, NoDup L -> In p L ->
  xorb_all (map h L) = xorb (h p) (xorb_all (map h (minus_p L p))).
Proof.
  induction L as [|x L IH]; intros p ND Hin; [contradiction|].
  inversion ND as [|? ? Hx ND']; subst. unfold minus_p. simpl.
  destruct (x =? p) eqn:E; simpl.
  - apply Nat.eqb_eq in E; subst. fold (minus_p L p). rewrite minus_p_notin by assumption. reflexivity.
  - destruct Hin as [->|Hin]; [rewrite Nat.eqb_refl in E; discriminate|].
    fold (minus_p L p). rewrite (IH p ND' Hin).
    destruct (h x), (h p), (xorb_all (map h (minus_p L p))); reflexivity.
Qed.

Definition region (n : nat) (inputs : list (list bool)) (rnd : nat -> nat -> list bool) (q p sz : nat) : list bool :=
  if p =? q then own_share n p sz (nth p inputs []) rnd else take_pad sz (rnd p q).

Lemma region_length n inputs rnd q p sz : length (region n inputs rnd q p sz) = sz.
Proof.
  unfold region, own_share. destruct (p =? q); [|apply take_pad_length].
  rewrite vxor_length. destruct sz as [|sz].
  - clear. generalize (map (fun q0 => take_pad 0 (rnd p q0)) (others n p)). intro l.
    assert (H : forall z, length z = 0 -> length (fold_left vxor l z) = 0).
    { induction l as [|r l IH]; intros z Hz; simpl; [assumption|]. apply IH. rewrite vxor_length. assumption. }
    apply H. reflexivity.
  - destruct (fold_vxor (map (fun q0 => take_pad (S sz) (rnd p q0)) (others n p)) (repeat false (S sz)) 0) as [_ L].
    + rewrite repeat_length. lia.
    + rewrite L, repeat_length. reflexivity.
Qed.

(* the shares of one input bit, held by all parties, xor to the bit *)
Lemma region_col n inputs rnd p sz i : p < n -> i < sz ->
  xorb_all (map (fun q => nth i (region n inputs rnd q p sz) false) (seq 0 n)) = nth i (nth p inputs []) false.
Proof.
  intros Hp Hi.
  rewrite (xorb_split_at _ (seq 0 n) p (seq_NoDup n 0)) by (apply in_seq; lia).
  unfold region at 1. rewrite Nat.eqb_refl. unfold own_share.
  rewrite vxor_nth.
  2:{ destruct (fold_vxor (map (fun q0 => take_pad sz (rnd p q0)) (others n p)) (repeat false sz) i) as [_ L];
      [rewrite repeat_length; lia|]. rewrite L, repeat_length. assumption. }
  destruct (fold_vxor (map (fun q0 => take_pad sz (rnd p q0)) (others n p)) (repeat false sz) i) as [E _];
    [rewrite repeat_length; lia|].
  rewrite E, map_map, take_pad_nth by assumption.
  rewrite nth_repeat.
  rewrite (map_ext_in (fun q => nth i (region n inputs rnd q p sz) false) (fun q => nth i (take_pad sz (rnd p q)) false)).
  2:{ intros q Hq. unfold minus_p in Hq. apply filter_In in Hq. destruct Hq as [_ Hne].
      apply negb_true_iff in Hne. unfold region. rewrite Nat.eqb_sym, Hne. reflexivity. }
  change (minus_p (seq 0 n) p) with (others n p).
  destruct (xorb_all (map (fun x => nth i (take_pad sz (rnd p x)) false) (others n p))), (nth i (nth p inputs []) false); reflexivity.
Qed.

Lemma sum_concat_length {A} (Ls : list (list A)) : length (concat Ls) = fold_right Nat.add 0 (map (@length A) Ls).
Proof. induction Ls; simpl; [reflexivity|]. rewrite app_length, IHLs. reflexivity. Qed.

Lemma init_party_regions c isz inputs rnd q :
  init_party c isz inputs rnd q =
  concat (mapi (region (length isz) inputs rnd q) isz) ++ repeat false (nwires c - ninputs c).
Proof. reflexivity. Qed.

Lemma regions_lengths n inputs rnd q : forall isz k,
  map (@length bool) (mapi_from k (region n inputs rnd q) isz) = isz.
Proof. induction isz as [|s r IH]; intro k; simpl; [reflexivity|]. rewrite region_length, IH. reflexivity. Qed.

Lemma input_cols c isz inputs rnd :
  map (@length bool) inputs = isz -> fold_right Nat.add 0 isz = ninputs c -> ninputs c <= nwires c ->
  let m0 := map (init_party c isz inputs rnd) (seq 0 (length isz)) in
  rows_len (nwires c) m0 /\
  forall w, w < ninputs c -> xor_col m0 w = nth w (concat inputs) false.
Proof.
  intros HL HS Hni m0. set (n := length isz).
  assert (RLen : forall q, length (concat (mapi (region n inputs rnd q) isz)) = ninputs c).
  { intro q. rewrite sum_concat_length. unfold mapi. rewrite regions_lengths. assumption. }
  split.
  - intros ws Hin. unfold m0 in Hin. apply in_map_iff in Hin. destruct Hin as (q & <- & _).
    rewrite init_party_regions, app_length, repeat_length. fold n. rewrite RLen. lia.
  - intros w Hw.
    assert (HLi : w < length (concat inputs)) by (rewrite sum_concat_length, HL, HS; assumption).
    destruct (nth_concat_locate false inputs w HLi) as (A1 & A2 & A3). rewrite HL in *.
    set (p := fst (locate isz w)) in *. set (i := snd (locate isz w)) in *.
    assert (Hpn : p < n) by (unfold n; rewrite <- HL, map_length; assumption).
    assert (Hsz : length (nth p inputs []) = nth p isz 0).
    { rewrite <- HL. rewrite (nth_map_in (@length bool) inputs p []) by assumption. reflexivity. }
    rewrite A3. rewrite <- (region_col n inputs rnd p (nth p isz 0) i Hpn ltac:(lia)).
    unfold xor_col, m0. rewrite map_map. f_equal. apply map_ext. intro q.
    rewrite init_party_regions. fold n. rewrite app_nth1 by (rewrite RLen; assumption).
    destruct (nth_concat_locate false (mapi (region n inputs rnd q) isz) w ltac:(rewrite RLen; assumption)) as (B1 & B2 & B3).
    unfold mapi in B1, B2, B3. rewrite regions_lengths in *. fold p in B1, B2, B3. fold i in B2, B3.
    unfold mapi. rewrite B3.
    rewrite (nth_mapi_from (region n inputs rnd q) 0 [] isz 0 p) by (fold n; assumption). reflexivity.
Qed.

(* ------------------------------------------------------------------ *)
(* output reconstruction                                               *)

Lemma xorb_remove_nth {A} (f : A -> bool) (d : A) : forall l p, p < length l ->
  xorb (f (nth p l d)) (xorb_all (map f (remove_nth p l))) = xorb_all (map f l).
Proof.
  induction l as [|x l IH]; intros [|p] H; simpl in *; try lia; [reflexivity|].
  rewrite <- (IH p) by lia.
  destruct (f x), (f (nth p l d)), (xorb_all (map f (remove_nth p l))); reflexivity.
Qed.

Lemma in_remove_nth {A} (x : A) : forall l p, In x (remove_nth p l) -> In x l.
Proof.
  induction l as [|y l IH]; intros [|p] H; simpl in *; try contradiction; auto.
  destruct H as [H|H]; [left; assumption|right; eapply IH; eassumption].
Qed.

Lemma bxor_bits_eq (rows : list (list bool)) L p :
  (forall r, In r rows -> length r = L) -> p < length rows ->
  bxor_bits p rows = map (fun i => xorb_all (map (fun r => nth i r false) rows)) (seq 0 L).
Proof.
  intros RL Hp. unfold bxor_bits.
  assert (Lp : length (nth p rows []) = L) by (apply RL, nth_In; assumption).
  apply (nth_ext _ _ false false).
  - destruct L as [|L']; [|destruct (fold_vxor (remove_nth p rows) (nth p rows []) 0 ltac:(lia)) as [_ E];
      rewrite E, map_length, seq_length; assumption].
    rewrite map_length, seq_length.
    assert (H : forall l z, length z = 0 -> length (fold_left vxor l z) = 0).
    { induction l as [|r l IH]; intros z Hz; simpl; [assumption|]. apply IH. rewrite vxor_length. assumption. }
    apply H. assumption.
  - intros i Hi.
    assert (HiL : i < L).
    { destruct L as [|L']; [|destruct (fold_vxor (remove_nth p rows) (nth p rows []) 0 ltac:(lia)) as [_ E]; rewrite E in Hi; lia].
      assert (H : forall l z, length z = 0 -> length (fold_left vxor l z) = 0).
      { induction l as [|r l IH]; intros z Hz; simpl; [assumption|]. apply IH. rewrite vxor_length. assumption. }
      rewrite H in Hi by assumption. lia. }
    destruct (fold_vxor (remove_nth p rows) (nth p rows []) i ltac:(lia)) as [E _].
    rewrite E, nth_map_seq by assumption.
    apply (xorb_remove_nth (fun r => nth i r false) []). assumption.
Qed.

Lemma final_asg_src : forall gs asg w, nth w (final_asg asg gs) false = true ->
  nth w asg false = true \/ exists g, In g gs /\ gout g = w.
Proof.
  induction gs as [|g gs IH]; intros asg w H; simpl in *; [left; assumption|].
  unfold final_asg in *. simpl in H. destruct (IH _ _ H) as [H1|(g' & I & O)].
  - destruct (Nat.eq_dec w (gout g)) as [->|Hne]; [right; exists g; split; [left; reflexivity|reflexivity]|].
    rewrite nth_upd_neq in H1 by congruence. left. assumption.
  - right. exists g'. split; [right; assumption|assumption].
Qed.

Lemma map_nth_seq {A B} (f : A -> B) (l : list A) d :
  map (fun i => f (nth i l d)) (seq 0 (length l)) = map f l.
Proof.
  apply (nth_ext _ _ (f d) (f d)); [rewrite !map_length, seq_length; reflexivity|].
  intros i Hi. rewrite map_length, seq_length in Hi. rewrite nth_map_seq by assumption.
  rewrite map_nth. reflexivity.
Qed.

(* ------------------------------------------------------------------ *)
(* (2) the online phase computes the plain evaluation at every party   *)

Lemma wf_gates_out n ni : forall gs asg, wf_gates n ni asg gs = true -> forall g, In g gs -> gout g < n.
Proof.
  induction gs as [|g gs IH]; intros asg WF g' Hin; [contradiction|].
  simpl in WF. apply andb_prop in WF. destruct WF as [GO WF].
  destruct Hin as [<-|Hin]; [apply (gate_ok_inv _ _ _ _ GO)|eapply IH; eassumption].
Qed.

Lemma in_combine_exists {A B} (l : list A) (l' : list B) x : length l = length l' -> In x l -> exists y, In (x, y) (combine l l').
Proof.
  revert l'; induction l as [|a l IH]; intros [|b l'] HL Hin; simpl in *; try contradiction; try discriminate.
  destruct Hin as [<-|Hin]; [exists b; left; reflexivity|].
  destruct (IH l' ltac:(lia) Hin) as (y & Hy). exists y. right. assumption.
Qed.

Definition pool_stream (pl : triples * list triples * list nat) : triples := stream (fst (fst pl)) (snd (fst pl)).

Theorem online_correct c isz inputs rnd pools :
  wf c = true -> ssa c = true -> gmw_supported c = true ->
  map (@length bool) inputs = isz -> fold_right Nat.add 0 isz = ninputs c ->
  length pools = length isz -> pools <> [] ->
  valid_streams (map pool_stream pools) ->
  (forall pl, In pl pools -> words_needed c <= length (pool_stream pl)) ->
  exists outs, run_gmw c isz inputs rnd pools = Some outs /\ length outs = length pools /\
               forall o, In o outs -> o = eval_plain c (concat inputs).
Proof.
  intros WF SSA SUP HL HS HN NE VS EN.
  destruct (wf_parts c WF) as (Hni & Hno & WG & WO).
  set (x := concat inputs).
  assert (Lx : length x = ninputs c) by (unfold x; rewrite sum_concat_length, HL; assumption).
  destruct (plain_eqs c x WF SSA Lx) as [VI VE].
  set (v := eval_plain_wires c x) in *.
  destruct (levels_sound c WF) as (LL & LEV & LB).
  set (gl := combine (gates c) (gate_levels c)) in *.
  destruct (input_cols c isz inputs rnd HL HS Hni) as [RL0 IC].
  unfold run_gmw. rewrite SUP. cbn [negb]. fold gl.
  set (sts0 := mapi _ pools).
  assert (W0 : map ps_wires sts0 = map (init_party c isz inputs rnd) (seq 0 (length isz))).
  { unfold sts0, mapi. rewrite map_mapi_from. cbn [ps_wires]. rewrite (mapi_from_seq (init_party c isz inputs rnd) pools 0), HN. reflexivity. }
  assert (S0 : map sstream sts0 = map pool_stream pools).
  { unfold sts0, mapi. rewrite map_mapi_from. unfold sstream. cbn [ps_pool ps_pend]. apply mapi_from_noidx. }
  assert (L0 : length sts0 = length pools) by (unfold sts0, mapi; apply mapi_from_length).
  destruct sts0 as [|s0 r0] eqn:E0; [destruct pools; [contradiction|discriminate]|].
  assert (H_out : forall g L, In (g, L) gl -> gout g < nwires c).
  { intros g L Hin. apply in_combine_l in Hin. eapply wf_gates_out; eassumption. }
  assert (H_sup : forall g L, In (g, L) gl -> gop g <> OR).
  { intros g L Hin. apply in_combine_l in Hin. unfold gmw_supported in SUP. rewrite forallb_forall in SUP.
    specialize (SUP g Hin). destruct (gop g); congruence. }
  assert (H_eq : forall g L, In (g, L) gl ->
            nth (gout g) v false = gate_fn (gop g) (nth (gin0 g) v false) (nth (gin1 g) v false)).
  { intros g L Hin. apply in_combine_l in Hin. apply VE. assumption. }
  destruct (levels_loop_ok v (nwires c) (ninputs c) gl H_out H_sup LEV H_eq
              (seq 0 (S (num_levels c))) 0 s0 r0) as (all' & EL & LA & RLA & PBA).
  - rewrite seq_length. reflexivity.
  - rewrite W0. assumption.
  - rewrite S0. assumption.
  - intros st Hin. assert (Hs : In (sstream st) (map pool_stream pools)) by (rewrite <- S0; apply in_map; assumption).
    apply in_map_iff in Hs. destruct Hs as (pl & Es & Hpl). rewrite <- Es. apply EN. assumption.
  - split.
    + intros w Hw. unfold okw. rewrite W0, IC by assumption. symmetry. apply VI. assumption.
    + intros g L _ HL0. lia.
  - rewrite EL. rewrite seq_length in PBA. cbn [Nat.add] in PBA.
    set (m := map ps_wires all') in *.
    set (outs := map (fun st => out_share c (ps_wires st)) all').
    assert (Louts : length outs = length pools).
    { unfold outs. rewrite map_length, LA. assumption. }
    assert (Ok_out : forall w, In w (output_wires c) -> okw v m w).
    { intros w Hw. rewrite forallb_forall in WO. specialize (WO w Hw).
      destruct PBA as [PI PL].
      destruct (final_asg_src _ _ _ WO) as [Hi|(g & Hg & Ho)].
      - apply PI. apply init_asg_true. assumption.
      - destruct (in_combine_exists (gates c) (gate_levels c) g (eq_sym LL) Hg) as (L & HinL).
        rewrite <- Ho. apply (PL g L HinL). specialize (LB g L HinL). lia. }
    assert (Rout : forall r, In r outs -> length r = noutputs c).
    { intros r Hr. unfold outs in Hr. apply in_map_iff in Hr. destruct Hr as (st & <- & _).
      unfold out_share, output_wires. rewrite map_length, seq_length. reflexivity. }
    assert (Each : forall p, p < length outs -> bxor_bits p outs = eval_plain c x).
    { intros p Hp. rewrite (bxor_bits_eq outs (noutputs c) p Rout Hp).
      unfold eval_plain. fold v.
      rewrite <- (map_nth_seq (fun w => nth w v false) (output_wires c) 0).
      assert (Low : length (output_wires c) = noutputs c) by (unfold output_wires; apply seq_length).
      rewrite Low. apply map_ext_in. intros i Hi. apply in_seq in Hi.
      rewrite <- (Ok_out (nth i (output_wires c) 0)) by (apply nth_In; lia).
      unfold xor_col, m, outs. rewrite !map_map. f_equal. apply map_ext. intro st.
      unfold out_share. rewrite (nth_map_in _ (output_wires c) i 0) by lia. reflexivity. }
    eexists. split; [reflexivity|]. split.
    + unfold mapi. rewrite mapi_from_length. assumption.
    + intros o Ho. unfold mapi in Ho. rewrite (mapi_from_seq (fun p => bxor_bits p outs) outs 0) in Ho.
      apply in_map_iff in Ho. destruct Ho as (p & <- & Hp). apply in_seq in Hp. apply Each. lia.
Qed.

(* ------------------------------------------------------------------ *)
(* offline + online: a batch dealt by tripleBatch feeds a correct run   *)

Lemma xorN_zero {A} (l : list A) : xorN (map (fun _ => 0%N) l) = 0%N.
Proof. induction l; simpl; [reflexivity|]. rewrite IHl. reflexivity. Qed.

Lemma deal_valid n words a b sb dl : valid_streams (deal n words a b sb dl).
Proof.
  intro j. unfold deal, col. rewrite map_map. unfold triple_valid. apply N.eqb_eq. rewrite !map_map.
  set (rb := fun p q => cot_recv (sb p q) (dl p q) (b q) words).
  destruct (lt_dec j words) as [Hj|Hj].
  - apply (triples_valid n words a b sb dl rb); [|assumption].
    intros p q w Hp Hq Hne Hw. unfold rb, cot_recv.
    rewrite (nth_map_seq (fun w => N.lxor (nth w (sb p q) 0%N) (N.land (nth w (b q) 0%N) (dmask (dl p q))))) by assumption.
    reflexivity.
  - assert (E : forall p, nth j (triple_batch n words a b sb dl rb p) t0 = t0).
    { intro p. apply nth_overflow. unfold triple_batch. rewrite map_length, seq_length. lia. }
    rewrite (map_ext (fun p => tC (nth j (triple_batch n words a b sb dl rb p) t0)) (fun _ => 0%N)) by (intro p; rewrite E; reflexivity).
    rewrite (map_ext (fun p => tA (nth j (triple_batch n words a b sb dl rb p) t0)) (fun _ => 0%N)) by (intro p; rewrite E; reflexivity).
    rewrite (map_ext (fun p => tB (nth j (triple_batch n words a b sb dl rb p) t0)) (fun _ => 0%N)) by (intro p; rewrite E; reflexivity).
    rewrite !xorN_zero. reflexivity.
Qed.

Theorem dealt_run_correct c isz inputs rnd words a b sb dl (sched : nat -> list nat) :
  wf c = true -> ssa c = true -> gmw_supported c = true ->
  map (@length bool) inputs = isz -> fold_right Nat.add 0 isz = ninputs c -> isz <> [] ->
  words_needed c <= words ->
  let n := length isz in
  let pools := map (fun p => ([], [nth p (deal n words a b sb dl) []], sched p)) (seq 0 n) in
  exists outs, run_gmw c isz inputs rnd pools = Some outs /\ length outs = n /\
               forall o, In o outs -> o = eval_plain c (concat inputs).
Proof.
  intros WF SSA SUP HL HS NE HW n pools.
  assert (Ln : length (deal n words a b sb dl) = n) by (unfold deal; rewrite map_length, seq_length; reflexivity).
  assert (PS : map pool_stream pools = deal n words a b sb dl).
  { unfold pools. rewrite map_map. unfold pool_stream, stream. cbn [fst snd concat app].
    rewrite (map_ext _ (fun p => nth p (deal n words a b sb dl) [])) by (intro; rewrite app_nil_r; reflexivity).
    transitivity (map (fun x : triples => x) (deal n words a b sb dl)); [|apply map_id].
    rewrite <- (map_nth_seq (fun x : triples => x) (deal n words a b sb dl) []), Ln. reflexivity. }
  destruct (online_correct c isz inputs rnd pools WF SSA SUP HL HS) as (outs & E & L & O).
  - unfold pools. rewrite map_length, seq_length. reflexivity.
  - unfold pools. destruct isz; [contradiction|]. simpl. discriminate.
  - rewrite PS. apply deal_valid.
  - intros pl Hin. assert (Hs : In (pool_stream pl) (map pool_stream pools)) by (apply in_map; assumption).
    rewrite PS in Hs. unfold deal in Hs. apply in_map_iff in Hs. destruct Hs as (p & Ep & _).
    rewrite <- Ep. unfold triple_batch. rewrite map_length, seq_length. assumption.
  - exists outs. split; [assumption|]. split; [|assumption].
    rewrite L. unfold pools. rewrite map_length, seq_length. reflexivity.
Qed.

(* ------------------------------------------------------------------ *)
(* non-vacuity: the hypotheses of the theorems are satisfiable and the
   model computes                                                      *)

Definition ex_circuit : circuit :=
  mkCircuit 7 3 2 [ mkGate 0 1 3 AND; mkGate 3 2 4 XNOR; mkGate 4 0 5 AND; mkGate 5 0 6 INV ].

Example ex_hyps : wf ex_circuit = true /\ ssa ex_circuit = true /\ gmw_supported ex_circuit = true /\
                  gate_levels ex_circuit = [0; 1; 1; 2] /\ num_levels ex_circuit = 2 /\ words_needed ex_circuit = 2.
Proof. vm_compute. repeat split. Qed.

Definition ex_a (p : nat) : list N := [N.of_nat (5 + 11 * p); 77%N].
Definition ex_b (p : nat) : list N := [N.of_nat (9 + 7 * p); 1234567%N].
Definition ex_sb (p q : nat) : list N := [N.of_nat (p * 31 + q * 17 + 3); N.of_nat (p + q)].
Definition ex_dl (p q : nat) : bool := Nat.odd (p + 2 * q).
Definition ex_rnd (p q : nat) : list bool := [Nat.even (p + q)].

(* three parties, inputs 1,0,1: dealt triples (two words), pools that receive
   the batch late; every party outputs eval_plain *)
Example ex_run :
  run_gmw ex_circuit [1; 1; 1] [[true]; [false]; [true]] ex_rnd
          (map (fun p => ([], [nth p (deal 3 2 ex_a ex_b ex_sb ex_dl) []], [p])) (seq 0 3))
  = Some (repeat (eval_plain ex_circuit [true; false; true]) 3).
Proof. vm_compute. reflexivity. Qed.

Example ex_deal_valid :
  forallb (fun j => triple_valid (col j (deal 3 2 ex_a ex_b ex_sb ex_dl))) [0; 1] = true.
Proof. vm_compute. reflexivity. Qed.

(* a Get that crosses a batch boundary: 70 triples = 2 words from batches of 1 word *)
Example ex_get :
  get_all [70; 1] [] [[mkT 1 2 3]; [mkT 4 5 6]; [mkT 7 8 9]] [0; 0; 5]
  = Some [[mkT 1 2 3; mkT 4 5 6]; [mkT 7 8 9]].
Proof. vm_compute. reflexivity. Qed.

(* ------------------------------------------------------------------ *)
(* word packing of an AND batch of ANY length is lossless               *)

Lemma pack_length : forall words bs, length (pack bs words) = words.
Proof. induction words as [|k IH]; intro bs; simpl; [reflexivity|]. rewrite IH. reflexivity. Qed.

Lemma skipn_skipn {A} (a b : nat) (l : list A) : skipn a (skipn b l) = skipn (b + a) l.
Proof. rewrite skipn_add. reflexivity. Qed.

Lemma pack_nth : forall words bs w, w < words ->
  nth w (pack bs words) 0%N = bits_to_N (firstn 64 (skipn (64 * w) bs)).
Proof.
  induction words as [|k IH]; intros bs w H; [lia|].
  destruct w as [|w]; cbn [pack nth]; [rewrite Nat.mul_0_r; reflexivity|].
  rewrite IH by lia. rewrite skipn_skipn. do 3 f_equal. lia.
Qed.

(* the gates packed into word w: 64 for every word but the last, and
   n - 64*(words-1) for the last — between 1 and 64, and 64 when n is a
   positive multiple of 64 *)
Lemma word_gate_count (bs : list bool) w : w < words_for (length bs) ->
  length (firstn 64 (skipn (64 * w) bs)) =
  if S w =? words_for (length bs) then length bs - 64 * w else 64.
Proof.
  intro H. rewrite firstn_length, skipn_length.
  destruct (Nat.eqb_spec (S w) (words_for (length bs))) as [E|NE]; divlia.
Qed.

Lemma last_word_count n : 0 < n ->
  let cnt := n - 64 * (words_for n - 1) in
  1 <= cnt <= 64 /\ (n mod 64 = 0 -> cnt = 64).
Proof.
  intros Hn cnt. unfold cnt. pose proof (Nat.div_mod n 64 ltac:(lia)) as DM.
  pose proof (Nat.mod_upper_bound n 64 ltac:(lia)) as MB.
  split; [divlia|]. intro Z. rewrite Z in DM.
  assert (E : words_for n = n / 64).
  { unfold words_for. rewrite DM at 1. replace (64 * (n / 64) + 0 + 63) with (63 + (n / 64) * 64) by lia.
    rewrite Nat.div_add by lia. reflexivity. }
  rewrite E. lia.
Qed.

(* the literal transcription of the Go loop computes the same words *)
Lemma pack_go_eq bs words : pack_go bs words = pack bs words.
Proof.
  apply (nth_ext _ _ 0%N 0%N).
  - unfold pack_go. rewrite map_length, seq_length, pack_length. reflexivity.
  - intros w Hw. unfold pack_go in *. rewrite map_length, seq_length in Hw.
    rewrite (nth_map_seq _ words w 0%N Hw), pack_nth by assumption.
    apply N.bits_inj. intro k. rewrite <- (N2Nat.id k). rewrite !testbit_bits_to_N.
    set (j := N.to_nat k).
    destruct (lt_dec j 64) as [Hj|Hj].
    + rewrite (nth_map_seq (fun ofs => (64 * w + ofs <? length bs) && nth (64 * w + ofs) bs false) 64 j false Hj).
      rewrite nth_firstn_lt by assumption. rewrite nth_skipn.
      destruct (Nat.ltb_spec (64 * w + j) (length bs)) as [Hl|Hl]; [reflexivity|].
      rewrite nth_overflow by lia. reflexivity.
    + rewrite !nth_overflow; [reflexivity| |].
      * rewrite firstn_length. lia.
      * rewrite map_length, seq_length. lia.
Qed.

(* packing the n share bits of a batch into ceil(n/64) words and reading the
   n positions back with bit() is the identity, for every n *)
Theorem pack_unpack_id (bs : list bool) :
  unpack (length bs) (pack bs (words_for (length bs))) = bs /\
  unpack (length bs) (pack_go bs (words_for (length bs))) = bs /\
  length (pack bs (words_for (length bs))) = words_for (length bs).
Proof.
  assert (E : unpack (length bs) (pack bs (words_for (length bs))) = bs).
  { apply (nth_ext _ _ false false); unfold unpack.
    - rewrite map_length, seq_length. reflexivity.
    - intros i Hi. rewrite map_length, seq_length in Hi.
      rewrite (nth_map_seq _ (length bs) i false Hi).
      apply bit_pack. apply (words_for_idx i (length bs) Hi). }
  split; [exact E|]. split; [rewrite pack_go_eq; exact E|apply pack_length].
Qed.

(* ------------------------------------------------------------------ *)
(* levels must not wrap                                                *)

Lemma assign_levels_loop_w_id : forall gs levels mx,
  assign_levels_loop_w (fun l => l) gs levels mx = assign_levels_loop gs levels mx.
Proof.
  induction gs as [|g t IH]; intros levels mx; [reflexivity|].
  cbn [assign_levels_loop_w assign_levels_loop]. rewrite IH. reflexivity.
Qed.

(* Regression record: wire 0 is the output of an AND chain of depth 65535
   (every level up to 65535 is stored exactly, also modulo 2^16); gate 0 is
   one more AND (level 65535, its output has AND depth 65536), gate 1 consumes
   it.  With the per-wire level stored modulo 2^16 the consumer gets level 0,
   below its producer's, so the level-wise schedule evaluates it 65535 rounds
   before its operand exists; with unbounded levels it gets 65536. *)
Definition wrap_witness : list gate := [ mkGate 0 0 1 AND; mkGate 1 1 2 XOR ].

Lemma wrap_witness_levels wrap d :
  fst (fst (assign_levels_loop_w wrap wrap_witness [d; 0; 0] 0)) = [d; wrap (S d)].
Proof. cbn. rewrite !Nat.max_id. reflexivity. Qed.

Lemma level_wrap16_refuted :
  let d := N.to_nat 65535 in
  fst (fst (assign_levels_loop_w wrap16 wrap_witness [d; 0; 0] 0)) = [d; 0] /\
  fst (fst (assign_levels_loop wrap_witness [d; 0; 0] 0)) = [d; S d] /\
  ~ gate_deps_ok 0 [(mkGate 0 0 1 AND, d)] (mkGate 1 1 2 XOR) 0.
Proof.
  intro d. split; [|split].
  - rewrite wrap_witness_levels.
    assert (E : wrap16 (S d) = 0) by (unfold wrap16, d; rewrite Nat2N.inj_succ, N2Nat.id; reflexivity).
    rewrite E. reflexivity.
  - rewrite <- assign_levels_loop_w_id. apply wrap_witness_levels.
  - intros [[H|(g & L & Hin & Ho & Hle)] _]; [exact (Nat.nlt_0_r _ H)|].
    destruct Hin as [Hin|[]]. inversion Hin; subst g L.
    change (S d <= 0) in Hle. exact (Nat.nle_succ_0 _ Hle).
Qed.
